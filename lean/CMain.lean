import Gobptree.ConcDriver
def main : IO Unit := do
  let out ← IO.getStdout
  Gobptree.ConcDriver.loop (← IO.getStdin) out {} 0
