import Gobptree.Driver
def main : IO Unit := do
  let out ← IO.getStdout
  Gobptree.Driver.loop (← IO.getStdin) out {}
