-- Root of the `Gobptree` library: model, driver, proofs, property theorems.
import Gobptree.Slice
import Gobptree.Search
import Gobptree.Node
import Gobptree.Ops
import Gobptree.Spec
import Gobptree.Run
import Gobptree.Driver
import Gobptree.Proofs.RunOk
import Gobptree.Props.C01
import Gobptree.Props.C05
import Gobptree.Props.C08
import Gobptree.Props.C11
import Gobptree.Props.C12
