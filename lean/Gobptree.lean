-- Root of the `Gobptree` library: model, driver, proofs, property theorems.
import Gobptree.Slice
import Gobptree.Search
import Gobptree.Node
import Gobptree.Ops
import Gobptree.Driver
