/-
  C05, the counter sentence of the property: "…so N concurrent Updates that each add one to a
  counter always raise it by exactly N."  `Props/C05.lean` has the sequential corollary and the
  concurrent atomicity (linearizability w.r.t. a one-step update); here the concurrent corollary
  itself (`Proofs/CCounter*.lean`): under EVERY schedule, with any other operations — Deletes,
  Inserts, cursors — running on other keys.
-/
import Gobptree.Proofs.CCounter

namespace Gobptree.Conc
open Gobptree

variable {K : Type}

/-- **C05 (N concurrent increments raise the counter by exactly N).** `CounterProgs lt k progs`:
    every `Insert`/`Delete` in the programs is on a key not equivalent to `k`, every `Update` on a
    key equivalent to `k` has the callback `incr` (absent counts as 0); everything else is free.
    `incTotal` = number N of those Updates.  In every reachable configuration in which all threads
    have finished — whatever the schedule was — the counter is the initial value plus N. -/
theorem C05_N_concurrent_increments (lt : K → K → Bool) (P : Params K) (tree : Tree K Nat)
    (progs : List (List (COp K Nat)))
    (hkp : KParams lt P) (ht : TreeOk none tree) (hord : OrdTree lt tree) (hsep : SepTree lt tree)
    (ho : tree.order = P.order) (hp : PadOk P) (hd : Disciplined progs)
    (hdel : 4 ≤ tree.order ∨ NoDelete progs)
    (k : K) (hk : CounterProgs lt k progs) (hN : 0 < incTotal lt k progs)
    (c : Config K Nat) (hr : Reachable (Config.init P tree progs) c) (hu : c.unfinished = false) :
    Spec.lookup lt c.tree.abs k = some ((Spec.lookup lt tree.abs k).getD 0 + incTotal lt k progs) :=
  C05_counter_conc lt P tree progs hkp ht hord hsep ho hp hd hdel k hk hN c hr hu

/-- the same with no hypothesis on the run: for programs that close their cursors, run ANY schedule
    until nothing is enabled (that happens, `C06_every_execution_terminates`); the counter then is
    the initial value plus N -/
theorem C05_N_concurrent_increments_any_run (lt : K → K → Bool) (P : Params K) (tree : Tree K Nat)
    (progs : List (List (COp K Nat)))
    (hkp : KParams lt P) (ht : TreeOk none tree) (hord : OrdTree lt tree) (hsep : SepTree lt tree)
    (ho : tree.order = P.order) (hp : PadOk P) (hcl : Closing progs)
    (hdel : 4 ≤ tree.order ∨ NoDelete progs)
    (k : K) (hk : CounterProgs lt k progs) (hN : 0 < incTotal lt k progs)
    (ts : List Nat) (c : Config K Nat) (hrun : (Config.init P tree progs).run ts = (c, none))
    (hstuck : c.enabledSet = []) :
    Spec.lookup lt c.tree.abs k = some ((Spec.lookup lt tree.abs k).getD 0 + incTotal lt k progs) :=
  C05_counter_conc_maximal lt P tree progs hkp ht hord hsep ho hp hcl hdel k hk hN ts c hrun hstuck

/-- **C05 (at every moment).** In EVERY reachable configuration the stored counter is the initial
    value bumped by the number `n` of increments linearized so far, and `n` lies between the number
    of increments that have returned and the number that have been invoked (read off the history):
    no increment is lost, none is applied twice, none takes effect before its call or after its
    return. -/
theorem C05_counter_every_moment (lt : K → K → Bool) (P : Params K) (tree : Tree K Nat)
    (progs : List (List (COp K Nat)))
    (hkp : KParams lt P) (ht : TreeOk none tree) (hord : OrdTree lt tree) (hsep : SepTree lt tree)
    (ho : tree.order = P.order) (hp : PadOk P) (hd : Disciplined progs)
    (hdel : 4 ≤ tree.order ∨ NoDelete progs)
    (k : K) (hk : CounterProgs lt k progs)
    (c : Config K Nat) (hr : Reachable (Config.init P tree progs) c) :
    ∃ n, retIncs lt k progs (history c) ≤ n ∧ n ≤ invIncs lt k (history c) ∧
      invIncs lt k (history c) ≤ incTotal lt k progs ∧
      Spec.lookup lt c.tree.abs k = bump n (Spec.lookup lt tree.abs k) :=
  counter_at_every_moment lt P tree progs hkp ht hord hsep ho hp hd hdel k hk c hr

/-- the hypotheses are satisfiable: two threads, three increments of key 7 (yielding and not),
    a Delete, an Insert and a Search alongside, on a fresh tree of order 4: every finished reachable
    configuration stores 3 -/
example := @CounterExample.three

end Gobptree.Conc

#print axioms Gobptree.Conc.C05_N_concurrent_increments
#print axioms Gobptree.Conc.C05_N_concurrent_increments_any_run
#print axioms Gobptree.Conc.C05_counter_every_moment
