/-
  C10 — Search/Insert/Update/NewScanner lock at most a parent and a child at a time.

  Same model and tie as C09.  `kontHeld` lists, for every park position of the four
  operations, what is held there; the theorems below read the bound off that table,
  for every reachable configuration of every program family under every schedule.
-/
import Gobptree.Proofs.ConcReach

namespace Gobptree.Conc
open Gobptree

variable {K V : Type}

/-- park positions of Search / NewScanner / Insert / Update -/
def Kont.isCoupled : Kont K V → Bool
  | .roTree _ _ | .roNode _ _ _ _ | .upTree _ _ _ | .upRoot _ _ _ _ | .upRootSib _ _ _ _ _
  | .upChild _ _ _ _ _ _ | .upSib _ _ _ _ _ _ | .upCallback _ _ _ _ => true
  | _ => false

theorem kontHeld_coupled_le (k : Kont K V) (hk : k.isCoupled = true) : (kontHeld k).length ≤ 2 := by
  cases k <;> simp_all [Kont.isCoupled, kontHeld]

/-- **C10 (coupling, at every scheduling point).** Whenever a Search, NewScanner, Insert or
    Update waits for a lock it holds at most two: the tree-level mutex and the root, or a
    node and — only while it waits for the sibling it has just created by splitting that
    node's child — that child. Nothing above the parent is held: the table `kontHeld`
    names exactly `[rootMutex]`, `[rootMutex, root]`, `[parent]`, `[parent, child]`. -/
theorem C10_coupling_parked (P : Params K) (tree : Tree K V) (progs : List (List (COp K V)))
    (c : Config K V) (hr : Reachable (Config.init P tree progs) c) (hd : c.dead = false)
    (th : Thread K V) (hth : th ∈ c.threads) (l : Lk) (k : Kont K V) (hp : th.park = .want l k)
    (hk : k.isCoupled = true) :
    List.Perm th.held (kontHeld k) ∧ th.held.length ≤ 2 := by
  obtain ⟨hh, hpre⟩ := reachable_ok _ c (init_ok P tree progs) hr hd th hth
  rw [hp] at hh hpre
  have hc : cursorLocks th.cursor = [] := by
    cases k <;> simp_all [Kont.isCoupled, ParkPre, KontPre]
  rw [hc] at hh
  simp only [parkHeld, List.nil_append] at hh
  exact ⟨hh, by rw [hh.length_eq]; exact kontHeld_coupled_le k hk⟩

/-- **C10 (a running callback holds exactly one leaf).** -/
theorem C10_callback_one_leaf (P : Params K) (tree : Tree K V) (progs : List (List (COp K V)))
    (c : Config K V) (hr : Reachable (Config.init P tree progs) c) (hd : c.dead = false)
    (th : Thread K V) (hth : th ∈ c.threads) (key : K) (f : Option V → V) (leaf : Nat) (arg : Option V)
    (hp : th.park = .yielded (.upCallback key f leaf arg)) : th.held = [.node leaf] := by
  obtain ⟨hh, hpre⟩ := reachable_ok _ c (init_ok P tree progs) hr hd th hth
  rw [hp] at hh hpre
  have hc : cursorLocks th.cursor = [] := hpre.1
  rw [hc] at hh
  exact List.perm_singleton.mp (by simpa [parkHeld, kontHeld] using hh)

/-- **C10 (a resting cursor holds at most its one leaf).** -/
theorem C10_resting_cursor (P : Params K) (tree : Tree K V) (progs : List (List (COp K V)))
    (c : Config K V) (hr : Reachable (Config.init P tree progs) c) (hd : c.dead = false)
    (th : Thread K V) (hth : th ∈ c.threads) (hp : th.park = .yielded .paused) :
    th.held.length ≤ 1 := by
  obtain ⟨hh, _⟩ := reachable_ok _ c (init_ok P tree progs) hr hd th hth
  rw [hp] at hh
  simp only [parkHeld, kontHeld, List.append_nil] at hh
  rw [hh.length_eq]
  unfold cursorLocks
  split <;> simp

/-- the held sets of thread `t` after each of its lock events, replaying a chronological log -/
def heldTrace (t : Nat) : List (Ev K V) → List Lk → List (List Lk)
  | [], _ => []
  | .acq t' l :: rest, h => if t' = t then (h ++ [l]) :: heldTrace t rest (h ++ [l]) else heldTrace t rest h
  | .rel t' l :: rest, h => if t' = t then (h.erase l) :: heldTrace t rest (h.erase l) else heldTrace t rest h
  | _ :: rest, h => heldTrace t rest h

/-- FULL statement of C10 ("at every instant", i.e. also INSIDE a step, where a third
    lock — the sibling just created by a split — is held between its acquisition and the
    release of the split child), kept as a definition and not proved; the theorems above
    prove the bound at every scheduling point, and the intra-step lock/unlock sequences are
    pinned against the implementation by the event-log tie. -/
def C10_every_instant_statement : Prop :=
  ∀ (P : Params Nat) (tree : Tree Nat Nat) (progs : List (List (COp Nat Nat))) (c : Config Nat Nat),
    (∀ p ∈ progs, ∀ op ∈ p, match op with | .del _ => False | _ => True) →
    Reachable (Config.init P tree progs) c → c.dead = false →
    ∀ t, ∀ h ∈ heldTrace t c.log.reverse [], h.length ≤ 3

end Gobptree.Conc

#print axioms Gobptree.Conc.C10_coupling_parked
#print axioms Gobptree.Conc.C10_callback_one_leaf
#print axioms Gobptree.Conc.C10_resting_cursor
