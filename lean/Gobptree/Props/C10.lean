import Gobptree.Ops
namespace Gobptree
theorem C10_placeholder : True := trivial
end Gobptree
#print axioms Gobptree.C10_placeholder
