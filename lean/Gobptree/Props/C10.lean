/-
  C10 — Search/Insert/Update/NewScanner lock at most a parent and a child at a time.

  Same model and tie as C09.  `kontHeld` lists, for every park position of the four
  operations, what is held there; the theorems below read the bound off that table,
  for every reachable configuration of every program family under every schedule.
-/
import Gobptree.Proofs.ConcOwner

namespace Gobptree.Conc
open Gobptree

variable {K V : Type}

/-- park positions of Search / NewScanner / Insert / Update -/
def Kont.isCoupled : Kont K V → Bool
  | .roTree _ _ | .roNode _ _ _ _ | .upTree _ _ _ | .upRoot _ _ _ _ | .upRootSib _ _ _ _ _
  | .upChild _ _ _ _ _ _ | .upSib _ _ _ _ _ _ | .upCallback _ _ _ _ => true
  | _ => false

theorem kontHeld_coupled_le (k : Kont K V) (hk : k.isCoupled = true) : (kontHeld k).length ≤ 2 := by
  cases k <;> simp_all [Kont.isCoupled, kontHeld]

/-- **C10 (coupling, at every scheduling point).** Whenever a Search, NewScanner, Insert or
    Update waits for a lock it holds at most two: the tree-level mutex and the root, or a
    node and — only while it waits for the sibling it has just created by splitting that
    node's child — that child. Nothing above the parent is held: the table `kontHeld`
    names exactly `[rootMutex]`, `[rootMutex, root]`, `[parent]`, `[parent, child]`. -/
theorem C10_coupling_parked (P : Params K) (tree : Tree K V) (progs : List (List (COp K V)))
    (c : Config K V) (hr : Reachable (Config.init P tree progs) c) (hd : c.dead = false)
    (th : Thread K V) (hth : th ∈ c.threads) (l : Lk) (k : Kont K V) (hp : th.park = .want l k)
    (hk : k.isCoupled = true) :
    List.Perm th.held (kontHeld k) ∧ th.held.length ≤ 2 := by
  obtain ⟨hh, hpre⟩ := reachable_ok _ c (init_ok P tree progs) hr hd th hth
  rw [hp] at hh hpre
  have hc : cursorLocks th.cursor = [] := by
    cases k <;> simp_all [Kont.isCoupled, ParkPre, KontPre]
  rw [hc] at hh
  simp only [parkHeld, List.nil_append] at hh
  exact ⟨hh, by rw [hh.length_eq]; exact kontHeld_coupled_le k hk⟩

/-- **C10 (a running callback holds exactly one leaf).** -/
theorem C10_callback_one_leaf (P : Params K) (tree : Tree K V) (progs : List (List (COp K V)))
    (c : Config K V) (hr : Reachable (Config.init P tree progs) c) (hd : c.dead = false)
    (th : Thread K V) (hth : th ∈ c.threads) (key : K) (f : Option V → V) (leaf : Nat) (arg : Option V)
    (hp : th.park = .yielded (.upCallback key f leaf arg)) : th.held = [.node leaf] := by
  obtain ⟨hh, hpre⟩ := reachable_ok _ c (init_ok P tree progs) hr hd th hth
  rw [hp] at hh hpre
  have hc : cursorLocks th.cursor = [] := hpre.1
  rw [hc] at hh
  exact List.perm_singleton.mp (by simpa [parkHeld, kontHeld] using hh)

/-- **C10 (a resting cursor holds at most its one leaf).** -/
theorem C10_resting_cursor (P : Params K) (tree : Tree K V) (progs : List (List (COp K V)))
    (c : Config K V) (hr : Reachable (Config.init P tree progs) c) (hd : c.dead = false)
    (th : Thread K V) (hth : th ∈ c.threads) (hp : th.park = .yielded .paused) :
    th.held.length ≤ 1 := by
  obtain ⟨hh, _⟩ := reachable_ok _ c (init_ok P tree progs) hr hd th hth
  rw [hp] at hh
  simp only [parkHeld, kontHeld, List.append_nil] at hh
  rw [hh.length_eq]
  unfold cursorLocks
  split <;> simp

/-- continuations that wait for the sibling just created by a split -/
def Kont.waitsForFreshSibling : Kont K V → Bool
  | .upRootSib _ _ _ _ _ | .upSib _ _ _ _ _ _ => true
  | _ => false

/-- **C10 (inside a step).** A step of Search/NewScanner/Insert/Update acquires exactly the
    mutex it was waiting for and from then on only RELEASES (`RelOnly`): the held set peaks
    right after the acquisition. At that peak at most three mutexes are held, and three only
    when the one just acquired is the sibling this operation created by splitting (the
    other two being the split child and its parent, or the root and `rootMutex`); every
    later instant of the step holds a sub-multiset of the peak. -/
theorem C10_peak_inside_step (P : Params K) (tree : Tree K V) (progs : List (List (COp K V)))
    (c : Config K V) (hr : Reachable (Config.init P tree progs) c) (hd : c.dead = false)
    (t : Nat) (th : Thread K V) (hth : c.threads[t]? = some th) (l : Lk) (k : Kont K V)
    (hp : th.park = .want l k) (hk : k.isCoupled = true) (s0 : St K V) (h0 : s0.held = th.held) :
    (s0.acq t l).held.length ≤ 3 ∧
    ((s0.acq t l).held.length = 3 → k.waitsForFreshSibling = true) ∧
    RelOnly t (s0.acq t l) (runThread c.P t th s0).2.1 := by
  have hmem : th ∈ c.threads := List.mem_of_getElem? hth
  obtain ⟨hh, hpre, hpl⟩ := reachable_ok _ c (init_ok P tree progs) hr hd th hmem
  have hb := (C10_coupling_parked P tree progs c hr hd th hmem l k hp hk)
  have hlen : (s0.acq t l).held.length = th.held.length + 1 := by simp [h0]
  refine ⟨by omega, ?_, ?_⟩
  · intro h3
    have h2 : th.held.length = 2 := by omega
    have hk2 : (kontHeld k).length = 2 := by rw [← hb.1.length_eq]; exact h2
    cases k <;> simp_all [Kont.isCoupled, kontHeld, Kont.waitsForFreshSibling]
  · have hnf : th.park ≠ .finished := by rw [hp]; simp
    rcases runThread_rel c.P t th s0 hpl hnf with ⟨hrel, _⟩ | ⟨hst, _⟩
    · rw [hp] at hrel; exact hrel
    · rw [hp] at hst; simp at hst

/-- the held sets of thread `t` after each of its lock events, replaying a chronological log -/
def heldTrace (t : Nat) : List (Ev K V) → List Lk → List (List Lk)
  | [], _ => []
  | .acq t' l :: rest, h => if t' = t then (h ++ [l]) :: heldTrace t rest (h ++ [l]) else heldTrace t rest h
  | .rel t' l :: rest, h => if t' = t then (h.erase l) :: heldTrace t rest (h.erase l) else heldTrace t rest h
  | _ :: rest, h => heldTrace t rest h

/-- The same bound phrased on the event log (every prefix of every thread's lock events),
    kept as a definition: `C10_peak_inside_step` proves it in the state-based form (peak
    after the single acquisition of a step, releases only afterwards); the log-based form
    additionally needs that the logged events mirror the held-list updates one to one. -/
def C10_every_instant_statement : Prop :=
  ∀ (P : Params Nat) (tree : Tree Nat Nat) (progs : List (List (COp Nat Nat))) (c : Config Nat Nat),
    (∀ p ∈ progs, ∀ op ∈ p, match op with | .del _ => False | _ => True) →
    Reachable (Config.init P tree progs) c → c.dead = false →
    ∀ t, ∀ h ∈ heldTrace t c.log.reverse [], h.length ≤ 3

/-- a mutex recorded for thread `a` in the owner table is in `a`'s held list -/
theorem holder_mem_held (c : Config K V) (ho : OwnerOk c) (l : Lk) (a : Nat) (h : c.holder l = some a) :
    ∃ th, c.threads[a]? = some th ∧ l ∈ th.held := by
  unfold Config.holder at h
  cases hf : c.owner.find? (fun p => p.1 = l) with
  | none => rw [hf] at h; cases h
  | some p =>
    rw [hf] at h
    simp only [Option.map_some, Option.some.injEq] at h
    have hm := List.mem_of_find?_eq_some hf
    have hp1 : p.1 = l := by have := List.find?_some hf; simpa using this
    have hpe : p = (l, a) := by cases p; simp_all
    rw [hpe] at hm
    have hc : 0 < c.owner.count (l, a) := List.count_pos_iff.mpr hm
    rw [ho.1 l a] at hc
    unfold heldOf at hc
    cases hth : c.threads[a]? with
    | none => rw [hth] at hc; simp at hc
    | some th => rw [hth] at hc; exact ⟨th, rfl, List.count_pos_iff.mp hc⟩

/-- **C10 (a goroutine merely holding an open cursor or executing a callback blocks no operation
    that does not need that leaf).** If thread `b` waits for a mutex held by a thread `a` that is
    resting with an open cursor (at a client pause) or is inside an Update callback, then that
    mutex is the mutex of the ONE leaf `a` holds. -/
theorem C10_blocks_only_its_leaf (P : Params K) (tree : Tree K V) (progs : List (List (COp K V)))
    (c : Config K V) (hr : Reachable (Config.init P tree progs) c) (hd : c.dead = false)
    (a : Nat) (tha : Thread K V) (hta : c.threads[a]? = some tha)
    (hrest : tha.park = .yielded .paused ∨ ∃ key f leaf arg, tha.park = .yielded (.upCallback key f leaf arg))
    (l : Lk) (hl : c.holder l = some a) :
    tha.held = [l] := by
  have ho := reachable_owner _ c (init_ok P tree progs) (init_owner P tree progs) hr hd
  obtain ⟨th, hth, hmem⟩ := holder_mem_held c ho l a hl
  rw [hta] at hth
  cases hth
  have htm : tha ∈ c.threads := List.mem_of_getElem? hta
  rcases hrest with hp | ⟨key, f, leaf, arg, hp⟩
  · have hlen := C10_resting_cursor P tree progs c hr hd tha htm hp
    match hh : tha.held, hmem, hlen with
    | [x], hmem, _ => simp at hmem; rw [hmem]
    | [], hmem, _ => cases hmem
    | _ :: _ :: _, _, hlen => simp at hlen
  · have hone := C10_callback_one_leaf P tree progs c hr hd tha htm key f leaf arg hp
    rw [hone] at hmem ⊢
    simp at hmem
    rw [hmem]

end Gobptree.Conc

#print axioms Gobptree.Conc.C10_coupling_parked
#print axioms Gobptree.Conc.C10_callback_one_leaf
#print axioms Gobptree.Conc.C10_resting_cursor
#print axioms Gobptree.Conc.C10_peak_inside_step
#print axioms Gobptree.Conc.C10_blocks_only_its_leaf
