import Gobptree.Ops
namespace Gobptree
theorem C08_placeholder : True := trivial
end Gobptree
#print axioms Gobptree.C08_placeholder
