/-
  C08 — B+tree shape invariants hold whenever the tree is quiescent (sequential half).

  `TreeInv lt t` = `TreeWF lt t ∧ Linked t.depth none t.root`. `WF` (Proofs/WF.lean)
  is literally the clause list of the property: keys of every node strictly ascending;
  every separator ≤ every key beneath it and > every key beneath its left neighbour
  (children carry the interval `[separator, next separator)`); parallel arrays of equal
  length; at most `order` entries; every non-root node at least `order/2`; an inner root
  at least 2. All leaves at one depth is a typing fact of `Node K V d`. `Linked` is the
  leaf chain: each leaf's `next` is its in-order successor, the last one's is nil.
-/
import Gobptree.Proofs.RunOk
import Gobptree.Proofs.Scan
import Gobptree.Proofs.SpecSorted
import Gobptree.Proofs.CSFinal
import Gobptree.Proofs.CFinal2

namespace Gobptree

variable {K V : Type} {lt : K → K → Bool} {P : Params K}

/-- **C08 (sequential).** After every operation of every history on a fresh tree of any
    even order ≥ 4 the shape invariant and the leaf chain hold. -/
theorem C08_shape_seq (hp : ParamsOk lt P) (h4 : 4 ≤ P.order) (ops : List (Op K V)) :
    ∃ (t' : Tree K V) (outs : List (Out V)),
      (Tree.new P.order : Tree K V).run P ops = .ok (t', outs) ∧ TreeInv lt t' ∧ t'.order = P.order := by
  obtain ⟨hinv, _⟩ := new_ok (lt := lt) (K := K) (V := V) P.order
  obtain ⟨t', heq, hinv', hto, _⟩ := run_ok hp ops (Tree.new P.order) rfl hinv (fun _ _ _ => h4)
  exact ⟨t', _, heq, hinv', hto⟩

/-- **C08 (order 2, partial).** Capacity, ordering, separators and chain for order 2
    (any even order ≥ 2) over histories without Delete. -/
theorem C08_order2_partial (hp : ParamsOk lt P) (ops : List (Op K V))
    (hnodel : ∀ op ∈ ops, op.isDelete = false) :
    ∃ (t' : Tree K V) (outs : List (Out V)),
      (Tree.new P.order : Tree K V).run P ops = .ok (t', outs) ∧ TreeInv lt t' ∧ t'.order = P.order := by
  obtain ⟨hinv, _⟩ := new_ok (lt := lt) (K := K) (V := V) P.order
  obtain ⟨t', heq, hinv', hto, _⟩ := run_ok hp ops (Tree.new P.order) rfl hinv
    (fun op hop hd => by rw [hnodel op hop] at hd; exact absurd hd (by decide))
  exact ⟨t', _, heq, hinv', hto⟩

/-- **C08, the invariant is inductive** (so it holds after every single operation of a
    history, not only at its end). -/
theorem C08_step_preserves (hp : ParamsOk lt P) (t : Tree K V) (hto : t.order = P.order)
    (hinv : TreeInv lt t) (op : Op K V) (hdel : op.isDelete = true → 4 ≤ P.order) :
    ∃ (t' : Tree K V) (o : Out V), t.step P op = .ok (t', o) ∧ TreeInv lt t' ∧ t'.order = P.order := by
  obtain ⟨t', heq, hinv', hto', _⟩ := step_ok hp t hto hinv op hdel
  exact ⟨t', _, heq, hinv', hto'⟩

/-- **C08, unpacked for the leaves:** every leaf of a tree satisfying the invariant has
    strictly ascending keys, as many values as keys, at most `order` entries and (unless
    it is the root) at least `order/2`; all stored keys of the tree are strictly ascending
    is `C08`'s "index lookups and the leaf chain agree" (see `WF_pairs_bounds`). -/
theorem C08_root_leaf (t : Tree K V) (hd : t.depth = 0) (hinv : TreeInv lt t) :
    ∃ l : Leaf K V, Node.leaves t.root = [l] ∧ Sorted lt l.keys ∧ l.keys.length = l.vals.length ∧
      l.keys.length ≤ t.order ∧ l.next = none := by
  obtain ⟨order, depth, root, nextId⟩ := t
  simp only at hd; subst hd
  obtain ⟨⟨a, b, c, _, _⟩, hL⟩ := hinv
  exact ⟨root, rfl, a, b, c, hL⟩

/-- **C08, unpacked: the leaves.** In a tree satisfying the invariant every leaf has strictly
    ascending keys and as many values as keys, and (unless the tree is a single root leaf)
    at least `order/2` entries; the leaf chain visits the leaves in order: each leaf's
    `next` is the identity of the following leaf and the last one's is nil. -/
theorem C08_leaves_and_chain (h : SWO lt) (t : Tree K V) (hinv : TreeInv lt t) :
    (∀ l ∈ Node.leaves t.root, Sorted lt l.keys ∧ l.keys.length = l.vals.length ∧
      (t.depth ≠ 0 → t.order / 2 ≤ l.keys.length)) ∧
    ChainList (Node.leaves t.root) none := by
  obtain ⟨hw, hL⟩ := hinv
  exact ⟨WF_leaves h hw, (Linked_chainList h hw hL).1⟩

/-- **C08, index and chain agree on the contents.** After every history the in-order
    contents (what the leaf chain enumerates) are strictly ascending in the key order and are
    exactly the specification's map — the same map every index lookup answers from (C01). -/
theorem C08_contents_sorted (hp : ParamsOk lt P) (h4 : 4 ≤ P.order) (ops : List (Op K V)) :
    ∃ (t' : Tree K V) (outs : List (Out V)),
      (Tree.new P.order : Tree K V).run P ops = .ok (t', outs) ∧ KSorted lt t'.abs := by
  obtain ⟨hinv, hnil⟩ := new_ok (lt := lt) (K := K) (V := V) P.order
  obtain ⟨t', heq, _, _, hp'⟩ := run_ok hp ops (Tree.new P.order) rfl hinv (fun _ _ _ => h4)
  refine ⟨t', _, heq, ?_⟩
  rw [Tree.abs_eq_pairs, hp', hnil]
  exact Spec.run_sorted hp.swo ops [] List.Pairwise.nil

end Gobptree

namespace Gobptree.Conc
open Gobptree

variable {K V : Type}

/-- no operation is in flight and no cursor is open -/
def Quiescent (c : Config K V) : Prop :=
  ∀ th ∈ c.threads, (th.park = .start ∨ th.park = .finished) ∧ cursorLocks th.cursor = []

/-- **C08 (structure, under every schedule).** In EVERY reachable configuration of every
    family of disciplined client programs — not only at quiescence — the tree satisfies the
    structural half of the shape invariant: node identities pairwise distinct; in every node
    the parallel arrays have equal length and at most `order` entries; every non-root node
    has at least `order/2` entries, except the single node (`holeOf`) that a Delete currently
    running is about to rebalance (it holds `order/2 − 1`, and the Delete holds its mutex);
    an inner root has at least two children; all leaves at one depth (by typing); each leaf's
    `next` names the following leaf in order and the last one's is nil. -/
theorem C08_structure_concurrent (P : Params K) (tree : Tree K V) (progs : List (List (COp K V)))
    (ht : TreeOk none tree) (ho : tree.order = P.order) (hp : PadOk P) (hd : Disciplined progs)
    (hdel : 4 ≤ tree.order ∨ NoDelete progs)
    (c : Config K V) (hr : Reachable (Config.init P tree progs) c) :
    TreeOk (holeOf c.threads) c.tree :=
  (reachable_cinv P tree progs ht ho hp hd hdel c hr).s.tree

/-- **C08 (quiescence).** When no operation is in flight there is no hole: the structural
    shape invariant holds with the full minimum occupancy for every non-root node. (The
    ordering clauses of C08 — keys ascending, separators bounding their subtrees — are proved
    for sequential histories in `C08_shape_seq`; under concurrency they are part of the
    key-order invariant, see C03.) -/
theorem C08_structure_quiescent (P : Params K) (tree : Tree K V) (progs : List (List (COp K V)))
    (ht : TreeOk none tree) (ho : tree.order = P.order) (hp : PadOk P) (hd : Disciplined progs)
    (hdel : 4 ≤ tree.order ∨ NoDelete progs)
    (c : Config K V) (hr : Reachable (Config.init P tree progs) c) (hq : Quiescent c) :
    TreeOk none c.tree := by
  have h := C08_structure_concurrent P tree progs ht ho hp hd hdel c hr
  have : holeOf c.threads = none := by
    apply holeOf_all_none
    intro b hb
    rcases (hq b hb).1 with e | e <;> rw [e] <;> rfl
  rw [this] at h
  exact h

/-- **C08 (ordering, under every schedule).** In EVERY reachable configuration the ordering
    clauses hold as well: keys strictly ascending in every node, every subtree inside the
    interval its parent's separators assign to it (each separator ≤ every key beneath it and
    > every key beneath its left neighbour), the first separator included. -/
theorem C08_ordering_concurrent (lt : K → K → Bool) (P : Params K) (tree : Tree K V) (progs : List (List (COp K V)))
    (hkp : KParams lt P) (ht : TreeOk none tree) (hord : OrdTree lt tree) (hsep : SepTree lt tree)
    (ho : tree.order = P.order) (hp : PadOk P) (hd : Disciplined progs)
    (hdel : 4 ≤ tree.order ∨ NoDelete progs)
    (c : Config K V) (hr : Reachable (Config.init P tree progs) c) :
    OrdTree lt c.tree ∧ TreeOk (holeOf c.threads) c.tree :=
  let h := reachable_kfinv' lt P tree progs hkp ht hord hsep ho hp hd hdel c hr
  ⟨h.kinv.ord, h.cinv.s.tree⟩

/-- **C08 (quiescence): the whole shape invariant.** With no operation in flight: structure
    with full minimum occupancy, and ordering. -/
theorem C08_shape_quiescent (lt : K → K → Bool) (P : Params K) (tree : Tree K V) (progs : List (List (COp K V)))
    (hkp : KParams lt P) (ht : TreeOk none tree) (hord : OrdTree lt tree) (hsep : SepTree lt tree)
    (ho : tree.order = P.order) (hp : PadOk P) (hd : Disciplined progs)
    (hdel : 4 ≤ tree.order ∨ NoDelete progs)
    (c : Config K V) (hr : Reachable (Config.init P tree progs) c) (hq : Quiescent c) :
    OrdTree lt c.tree ∧ TreeOk none c.tree :=
  ⟨(C08_ordering_concurrent lt P tree progs hkp ht hord hsep ho hp hd hdel c hr).1,
   C08_structure_quiescent P tree progs ht ho hp hd hdel c hr hq⟩

end Gobptree.Conc

#print axioms Gobptree.C08_leaves_and_chain
#print axioms Gobptree.C08_contents_sorted
#print axioms Gobptree.C08_shape_seq
#print axioms Gobptree.C08_order2_partial
#print axioms Gobptree.C08_step_preserves
#print axioms Gobptree.C08_root_leaf
#print axioms Gobptree.Conc.C08_structure_concurrent
#print axioms Gobptree.Conc.C08_structure_quiescent
#print axioms Gobptree.Conc.C08_ordering_concurrent
#print axioms Gobptree.Conc.C08_shape_quiescent
