import Gobptree.Ops
namespace Gobptree
theorem C02_placeholder : True := trivial
end Gobptree
#print axioms Gobptree.C02_placeholder
