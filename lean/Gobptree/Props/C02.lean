/-
  C02 — a scan yields exactly the pairs with key ≥ start, ascending, once each.

  `Tree.scanFrom P {} t s none fuel` is the model of: `c := NewScanner(s)`; then
  `Scan()`/`Pair()` until `Scan()` returns false. The cursor follows the leaves' explicit
  `next` fields (node identities), so that a scan equals the in-order walk is a theorem
  (chain invariant `Linked` + distinct leaf identities `IdsInv`), not a definition.
-/
import Gobptree.Proofs.ScanTree
import Gobptree.Proofs.IdsRun
import Gobptree.Props.C01
import Gobptree.Proofs.SpecSorted

namespace Gobptree

variable {K V : Type} {lt : K → K → Bool} {P : Params K}

/-- **C02 (every reachable tree).** After EVERY history of Insert/Update/Delete/Search on a
    fresh tree (any key type, strict weak order, even order ≥ 4) and for EVERY start key `s`
    — stored, between stored keys, between two leaves, below the minimum, above the
    maximum — `NewScanner(s)` followed by `Scan`/`Pair` until `Scan` returns false yields
    exactly `Spec.from (contents) s`: the stored pairs with key ≥ `s`, in ascending order,
    each once, with their current values; in particular nothing for an empty tree or a
    start above the maximum. No panic on the way. -/
theorem C02_scan_exact (hp : ParamsOk lt P) (h4 : 4 ≤ P.order) (ops : List (Op K V)) (s : K) :
    ∃ (t' : Tree K V) (outs : List (Out V)) (fuel : Nat),
      (Tree.new P.order : Tree K V).run P ops = .ok (t', outs) ∧
      t'.scanFrom P {} s none fuel = .ok (Spec.from lt t'.abs s, true) := by
  obtain ⟨hinv, _⟩ := new_ok (lt := lt) (K := K) (V := V) P.order
  obtain ⟨t', heq, hinv', hto, _⟩ := run_ok hp ops (Tree.new P.order) rfl hinv (fun _ _ _ => h4)
  have hids := run_ids P ops _ _ _ heq (new_ids P.order)
  obtain ⟨fuel, hscan⟩ := scanFrom_ok hp.swo P hp.lt_eq hp.two_le t' hto hinv' hids.1 s
  exact ⟨t', _, fuel, heq, hscan⟩

/-- **C02 (ascending, once each).** What a scan yields after any history is strictly
    ascending in the key order, so no key (modulo order-equivalence) is reported twice; and it
    contains exactly the stored pairs whose key is not below the start key. -/
theorem C02_scan_ascending (hp : ParamsOk lt P) (h4 : 4 ≤ P.order) (ops : List (Op K V)) (s : K) :
    ∃ (t' : Tree K V) (outs : List (Out V)) (fuel : Nat) (ps : List (K × V)),
      (Tree.new P.order : Tree K V).run P ops = .ok (t', outs) ∧
      t'.scanFrom P {} s none fuel = .ok (ps, true) ∧
      KSorted lt ps ∧ (∀ p, p ∈ ps ↔ (p ∈ t'.abs ∧ lt p.1 s = false)) := by
  obtain ⟨hinv, hnil⟩ := new_ok (lt := lt) (K := K) (V := V) P.order
  obtain ⟨t', heq, hinv', hto, hp'⟩ := run_ok hp ops (Tree.new P.order) rfl hinv (fun _ _ _ => h4)
  have hids := run_ids P ops _ _ _ heq (new_ids P.order)
  obtain ⟨fuel, hscan⟩ := scanFrom_ok hp.swo P hp.lt_eq hp.two_le t' hto hinv' hids.1 s
  have habs : KSorted lt t'.abs := by
    rw [Tree.abs_eq_pairs, hp', hnil]
    exact Spec.run_sorted hp.swo ops [] List.Pairwise.nil
  refine ⟨t', _, fuel, _, heq, hscan, Spec.from_sorted _ s habs, ?_⟩
  intro p
  simp [Spec.from, List.mem_filter]

/-- **C02 (order 2, partial).** The same for order 2 (any even order ≥ 2) after histories
    without Delete (KF-1). -/
theorem C02_order2_partial (hp : ParamsOk lt P) (ops : List (Op K V))
    (hnodel : ∀ op ∈ ops, op.isDelete = false) (s : K) :
    ∃ (t' : Tree K V) (outs : List (Out V)) (fuel : Nat),
      (Tree.new P.order : Tree K V).run P ops = .ok (t', outs) ∧
      t'.scanFrom P {} s none fuel = .ok (Spec.from lt t'.abs s, true) := by
  obtain ⟨hinv, _⟩ := new_ok (lt := lt) (K := K) (V := V) P.order
  obtain ⟨t', heq, hinv', hto, _⟩ := run_ok hp ops (Tree.new P.order) rfl hinv
    (fun op hop hd => by rw [hnodel op hop] at hd; exact absurd hd (by decide))
  have hids := run_ids P ops _ _ _ heq (new_ids P.order)
  obtain ⟨fuel, hscan⟩ := scanFrom_ok hp.swo P hp.lt_eq hp.two_le t' hto hinv' hids.1 s
  exact ⟨t', _, fuel, heq, hscan⟩

/-- **C02 (any tree satisfying the invariants).** -/
theorem C02_scan_exact_inv (hp : ParamsOk lt P) (t : Tree K V) (hto : t.order = P.order)
    (hinv : TreeInv lt t) (hids : IdsInv t) (s : K) :
    ∃ fuel, t.scanFrom P {} s none fuel = .ok (Spec.from lt t.abs s, true) :=
  scanFrom_ok hp.swo P hp.lt_eq hp.two_le t hto hinv hids.1 s

/-- **C02, the start position is exact** (the repaired D3): on a sorted leaf, dropping the
    first `startIndex` entries leaves exactly the entries with key ≥ start — nothing if
    every key of the leaf is smaller than the start key. -/
theorem C02_start_exact (h : SWO lt) (hP : P.lt = lt) (l : Leaf K V) (key : K)
    (hs : Sorted lt l.keys) (hlen : l.keys.length = l.vals.length) :
    (l.keys.zip l.vals).drop (startIndex P {} key l) = Spec.from lt (l.keys.zip l.vals) key :=
  start_exact h hP l key hs hlen

/-- the pre-repair behaviour (D3) really differs: with the clamped start index the scan of
    the tree {8} from 9 yields 8 (kernel-checked on the model's `clampedStart` variant) -/
theorem C02_clamped_start_counterexample :
    (do let t ← (Tree.new 4 : Tree Nat Nat).insert (natP 4) 8 1
        t.scanFrom (natP 4) { clampedStart := true } 9 none 5 : R _) = .ok ([(8, 1)], true) := by
  rfl

/-- non-vacuity: a concrete scan over a three-leaf tree, started between two leaves -/
example : (do let (t, _) ← (Tree.new 4 : Tree Nat Nat).run (natP 4) ((List.range 10).map fun i => Op.insert (2 * i) i)
              t.scanFrom (natP 4) {} 7 none 20 : R _) = .ok ([(8, 4), (10, 5), (12, 6), (14, 7), (16, 8), (18, 9)], true) := by
  rfl

end Gobptree

#print axioms Gobptree.C02_scan_exact
#print axioms Gobptree.C02_scan_ascending
#print axioms Gobptree.C02_order2_partial
#print axioms Gobptree.C02_scan_exact_inv
#print axioms Gobptree.C02_start_exact
#print axioms Gobptree.C02_clamped_start_counterexample
