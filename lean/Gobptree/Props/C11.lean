import Gobptree.Ops
namespace Gobptree
theorem C11_placeholder : True := trivial
end Gobptree
#print axioms Gobptree.C11_placeholder
