/-
  C11 — all guarantees hold on the whole key domain; ComparableTree uses only Less.

  Every theorem of C01/C02/C05/C08 is stated for an ARBITRARY key type `K` and an
  arbitrary comparison `lt : K → K → Bool` that is a strict weak order (`SWO lt`),
  with an arbitrary padding producer `P.pad`: nothing else about keys is available to
  the model (its definitions take no `DecidableEq K`, `Ord K`, … instance), so the
  guarantees hold at the extremes of the integer types, for the empty string and
  prefixes, and for `Less` relations whose equivalence is coarser than `==`.
-/
import Gobptree.Proofs.RunOk

namespace Gobptree

variable {K V : Type} {lt : K → K → Bool} {P : Params K}

/-- **C11, same entry.** Two keys denote the same entry exactly when neither is less than
    the other: inserting `k'` equivalent to a stored `k` replaces the value and KEEPS the
    stored key (specification level; the model refines it by `C01_refines_map`). -/
theorem C11_same_entry (h : SWO lt) (m : List (K × V)) (k k' : K) (v v' : V)
    (he : eqv lt k' k = true) (hm : ∀ p ∈ m, lt k p.1 = true) :
    Spec.insert lt ((k, v) :: m) k' v' = (k, v') :: m := by
  simp only [eqv, Bool.and_eq_true, Bool.not_eq_true'] at he
  simp [Spec.insert, he.1, he.2]

/-- **C11, lookups use only the order.** A lookup with an equivalent key finds the entry. -/
theorem C11_lookup_eqv (h : SWO lt) (m : List (K × V)) (k k' : K) (he : eqv lt k k' = true) :
    Spec.lookup lt m k = Spec.lookup lt m k' := by
  unfold Spec.lookup
  have hfun : (fun p : K × V => eqv lt k p.1) = (fun p : K × V => eqv lt k' p.1) := by
    funext p
    have h1 : lt k p.1 = lt k' p.1 := h.lt_congr_left he
    have h2 : lt p.1 k = lt p.1 k' := h.lt_congr_right he
    simp only [eqv, h1, h2]
  rw [hfun]

/-- keys an operation supplies -/
def Op.key : Op K V → K
  | .insert k _ => k
  | .update k _ => k
  | .delete k => k
  | .search k => k

theorem Spec.insert_keys (m : List (K × V)) (k : K) (v : V) :
    ∀ p ∈ Spec.insert lt m k v, p.1 = k ∨ ∃ q ∈ m, q.1 = p.1 := by
  induction m with
  | nil => intro p hp; simp [Spec.insert] at hp; left; rw [hp]
  | cons q m ih =>
    obtain ⟨k', v'⟩ := q
    intro p hp
    simp only [Spec.insert] at hp
    split at hp
    · cases List.mem_cons.mp hp with
      | inl e => left; rw [e]
      | inr e => right; exact ⟨p, e, rfl⟩
    · split at hp
      · cases List.mem_cons.mp hp with
        | inl e => right; exact ⟨(k', v'), by simp, by rw [e]⟩
        | inr e =>
          cases ih p e with
          | inl e' => left; exact e'
          | inr e' => obtain ⟨q, hq, e''⟩ := e'; right; exact ⟨q, by simp [hq], e''⟩
      · cases List.mem_cons.mp hp with
        | inl e => right; exact ⟨(k', v'), by simp, by rw [e]⟩
        | inr e => right; exact ⟨p, by simp [e], rfl⟩

/-- **C11, no placeholder is ever stored.** Every key stored after any history was
    supplied by the client as the argument of an Insert or Update of that history — for
    EVERY padding producer `P.pad`, so a `ZeroValue()`/`0`/`""` placeholder appears among
    the stored keys only if the client itself stored it. -/
theorem C11_no_padding (hp : ParamsOk lt P) (ops : List (Op K V))
    (hdel : ∀ op ∈ ops, op.isDelete = true → 4 ≤ P.order) :
    ∃ (t' : Tree K V) (outs : List (Out V)),
      (Tree.new P.order : Tree K V).run P ops = .ok (t', outs) ∧
      ∀ p ∈ t'.abs, ∃ op ∈ ops, op.key = p.1 ∧ op.isDelete = false := by
  obtain ⟨hinv, hnil⟩ := new_ok (lt := lt) (K := K) (V := V) P.order
  obtain ⟨t', heq, _, _, hp'⟩ := run_ok hp ops (Tree.new P.order) rfl hinv hdel
  refine ⟨t', _, heq, ?_⟩
  rw [Tree.abs_eq_pairs, hp', hnil]
  -- a statement about the specification alone
  suffices hs : ∀ (ops : List (Op K V)) (m : List (K × V)),
      ∀ p ∈ (Spec.run lt m ops).1, (∃ q ∈ m, q.1 = p.1) ∨ ∃ op ∈ ops, op.key = p.1 ∧ op.isDelete = false by
    intro p hp
    cases hs ops [] p hp with
    | inl e => obtain ⟨q, hq, _⟩ := e; simp at hq
    | inr e => exact e
  intro ops
  induction ops with
  | nil => intro m p hp; left; exact ⟨p, hp, rfl⟩
  | cons op ops ih =>
    intro m p hp
    simp only [Spec.run] at hp
    cases ih _ p hp with
    | inr e => obtain ⟨o, ho, e'⟩ := e; right; exact ⟨o, by simp [ho], e'⟩
    | inl e =>
      obtain ⟨q, hq, e'⟩ := e
      cases op with
      | insert k v =>
        cases Spec.insert_keys (lt := lt) m k v q hq with
        | inl e'' => right; exact ⟨.insert k v, by simp, by simp [Op.key, ← e', e''], rfl⟩
        | inr e'' => obtain ⟨r, hr, e3⟩ := e''; left; exact ⟨r, hr, by rw [e3, e']⟩
      | update k f =>
        cases Spec.insert_keys (lt := lt) m k _ q hq with
        | inl e'' => right; exact ⟨.update k f, by simp, by simp [Op.key, ← e', e''], rfl⟩
        | inr e'' => obtain ⟨r, hr, e3⟩ := e''; left; exact ⟨r, hr, by rw [e3, e']⟩
      | delete k =>
        left
        simp only [Spec.step, Spec.erase] at hq
        exact ⟨q, (List.mem_filter.mp hq).1, e'⟩
      | search k => left; exact ⟨q, hq, e'⟩

end Gobptree

#print axioms Gobptree.C11_same_entry
#print axioms Gobptree.C11_lookup_eqv
#print axioms Gobptree.C11_no_padding
