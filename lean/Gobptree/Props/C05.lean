import Gobptree.Ops
namespace Gobptree
theorem C05_placeholder : True := trivial
end Gobptree
#print axioms Gobptree.C05_placeholder
