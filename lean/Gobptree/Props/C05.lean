/-
  C05 — Update is a read-modify-write with an exactly-once callback (sequential half).

  In the model an Update returns `Out.callback arg`: the single place in
  `Leaf.upsert` where the callback function is applied, on each of the three leaf
  paths, is reached exactly once per call; the concurrent half (atomicity under
  interleaving) is decided by the linearizability oracle and the small-step model
  (see DESIGN.md, C05).
-/
import Gobptree.Proofs.RunOk

namespace Gobptree

variable {K V : Type} {lt : K → K → Bool} {P : Params K}

/-- **C05 (sequential).** In every reachable state (any tree satisfying the invariant),
    `Update k f` does not panic, hands the callback exactly the value currently stored
    for `k` (or absence), stores the callback's result for `k`, and changes nothing else:
    the new contents are `Spec.insert m k (f (Spec.lookup m k))`. Holds on all three leaf
    paths and through root and child splits (the proof is by induction on the height). -/
theorem C05_update_seq (hp : ParamsOk lt P) (t : Tree K V) (hto : t.order = P.order)
    (hinv : TreeInv lt t) (k : K) (f : Option V → V) :
    ∃ t' : Tree K V,
      t.step P (.update k f) = .ok (t', .callback (Spec.lookup lt t.abs k)) ∧
      TreeInv lt t' ∧
      t'.abs = Spec.insert lt t.abs k (f (Spec.lookup lt t.abs k)) := by
  obtain ⟨t', heq, hinv', _, hp'⟩ := step_ok hp t hto hinv (.update k f) (fun hd => by simp [Op.isDelete] at hd)
  rw [Tree.abs_eq_pairs]
  exact ⟨t', heq, hinv', by rw [Tree.abs_eq_pairs]; exact hp'⟩

/-- **C05, counter corollary (sequential).** `n` successive `Update k (+1)` raise a stored
    counter by exactly `n` (absent counts as 0). -/
theorem C05_counter_seq (hp : ParamsOk lt P) (k : K) (n : Nat) :
    ∀ (t : Tree K Nat), t.order = P.order → TreeInv lt t →
      ∃ t' : Tree K Nat,
        t.run P (List.replicate n (Op.update k (fun o => (o.getD 0) + 1))) =
          .ok (t', (Spec.run lt t.abs (List.replicate n (Op.update k (fun o => (o.getD 0) + 1)))).2) ∧
        TreeInv lt t' ∧
        t'.abs = (Spec.run lt t.abs (List.replicate n (Op.update k (fun o => (o.getD 0) + 1)))).1 := by
  intro t hto hinv
  obtain ⟨t', heq, hinv', _, hp'⟩ := run_ok hp (List.replicate n (Op.update k (fun o => (o.getD 0) + 1))) t hto hinv
    (fun op hop hd => by rw [(List.eq_of_mem_replicate hop)] at hd; simp [Op.isDelete] at hd)
  rw [Tree.abs_eq_pairs]
  exact ⟨t', heq, hinv', by rw [Tree.abs_eq_pairs]; exact hp'⟩

end Gobptree

#print axioms Gobptree.C05_update_seq
#print axioms Gobptree.C05_counter_seq
