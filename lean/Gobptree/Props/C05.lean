/-
  C05 — Update is a read-modify-write with an exactly-once callback.

  Sequential half: in the model an Update returns `Out.callback arg`: the single place in
  `Leaf.upsert` where the callback function is applied, on each of the three leaf
  paths, is reached exactly once per call (`C05_update_seq`, `C05_counter_seq`).
  Concurrent half (`C05_update_atomic`, every program family incl. Delete; and
  `C05_callback_exactly_once`: in every reachable configuration each thread's callback has
  been invoked exactly once per returned Update, plus once if it is inside one): in the history that is proved linearizable the response of an Update IS the
  argument its callback received, so linearizability w.r.t. `Spec` (where
  `update k f` returns `lookup k` and stores `f (lookup k)`) says exactly: the callback sees
  the value current at the operation's linearization point and its result is what that point
  stores — an atomic read-modify-write, under every schedule.  Per stretch:
  `C05_callback_at_leaf_partial` — the only block that invokes the callback is the leaf step,
  run while holding the leaf, with argument `Spec.lookup` of the abstract map at that moment.
-/
import Gobptree.Proofs.RunOk
import Gobptree.Proofs.CFinal2

namespace Gobptree

variable {K V : Type} {lt : K → K → Bool} {P : Params K}

/-- **C05 (sequential).** In every reachable state (any tree satisfying the invariant),
    `Update k f` does not panic, hands the callback exactly the value currently stored
    for `k` (or absence), stores the callback's result for `k`, and changes nothing else:
    the new contents are `Spec.insert m k (f (Spec.lookup m k))`. Holds on all three leaf
    paths and through root and child splits (the proof is by induction on the height). -/
theorem C05_update_seq (hp : ParamsOk lt P) (t : Tree K V) (hto : t.order = P.order)
    (hinv : TreeInv lt t) (k : K) (f : Option V → V) :
    ∃ t' : Tree K V,
      t.step P (.update k f) = .ok (t', .callback (Spec.lookup lt t.abs k)) ∧
      TreeInv lt t' ∧
      t'.abs = Spec.insert lt t.abs k (f (Spec.lookup lt t.abs k)) := by
  obtain ⟨t', heq, hinv', _, hp'⟩ := step_ok hp t hto hinv (.update k f) (fun hd => by simp [Op.isDelete] at hd)
  rw [Tree.abs_eq_pairs]
  exact ⟨t', heq, hinv', by rw [Tree.abs_eq_pairs]; exact hp'⟩

/-- **C05, counter corollary (sequential).** `n` successive `Update k (+1)` raise a stored
    counter by exactly `n` (absent counts as 0). -/
theorem C05_counter_seq (hp : ParamsOk lt P) (k : K) (n : Nat) :
    ∀ (t : Tree K Nat), t.order = P.order → TreeInv lt t →
      ∃ t' : Tree K Nat,
        t.run P (List.replicate n (Op.update k (fun o => (o.getD 0) + 1))) =
          .ok (t', (Spec.run lt t.abs (List.replicate n (Op.update k (fun o => (o.getD 0) + 1)))).2) ∧
        TreeInv lt t' ∧
        t'.abs = (Spec.run lt t.abs (List.replicate n (Op.update k (fun o => (o.getD 0) + 1)))).1 := by
  intro t hto hinv
  obtain ⟨t', heq, hinv', _, hp'⟩ := run_ok hp (List.replicate n (Op.update k (fun o => (o.getD 0) + 1))) t hto hinv
    (fun op hop hd => by rw [(List.eq_of_mem_replicate hop)] at hd; simp [Op.isDelete] at hd)
  rw [Tree.abs_eq_pairs]
  exact ⟨t', heq, hinv', by rw [Tree.abs_eq_pairs]; exact hp'⟩

end Gobptree

namespace Gobptree.Conc
open Gobptree

variable {K V : Type}

/-- **C05 (concurrent, programs without Delete): Update is atomic under every schedule.** The
    history whose Update responses are the callback arguments is linearizable w.r.t. the
    specification in which `update k f` observes `lookup k` and stores `f (lookup k)` in one
    step. -/
theorem C05_update_atomic_partial (lt : K → K → Bool) (P : Params K) (tree : Tree K V)
    (progs : List (List (COp K V)))
    (hkp : KParams lt P) (ht : TreeOk none tree) (hord : OrdTree lt tree) (ho : tree.order = P.order)
    (hp : PadOk P) (hd : Disciplined progs) (hnd : NoDelete progs)
    (c : Config K V) (hr : Reachable (Config.init P tree progs) c) :
    Lin.Linearizable lt tree.abs (history c) ∧
    (∀ (m : List (K × V)) (k : K) (f : Option V → V),
      Spec.step lt m (Op.update k f) = (Spec.update lt m k f, Out.callback (Spec.lookup lt m k))) :=
  ⟨linearizable_nodelete' lt P tree progs hkp ht hord ho hp hd hnd c hr, fun _ _ _ => rfl⟩

/-- **C05 (concurrent): Update is atomic under every schedule**, Deletes running alongside. -/
theorem C05_update_atomic (lt : K → K → Bool) (P : Params K) (tree : Tree K V) (progs : List (List (COp K V)))
    (hkp : KParams lt P) (ht : TreeOk none tree) (hord : OrdTree lt tree) (hsep : SepTree lt tree)
    (ho : tree.order = P.order) (hp : PadOk P) (hd : Disciplined progs)
    (hdel : 4 ≤ tree.order ∨ NoDelete progs)
    (c : Config K V) (hr : Reachable (Config.init P tree progs) c) :
    Lin.Linearizable lt tree.abs (history c) ∧
    (∀ (m : List (K × V)) (k : K) (f : Option V → V),
      Spec.step lt m (Op.update k f) = (Spec.update lt m k f, Out.callback (Spec.lookup lt m k))) :=
  ⟨linearizable_full' lt P tree progs hkp ht hord hsep ho hp hd hdel c hr, fun _ _ _ => rfl⟩

/-- **C05: the callback is invoked exactly once per Update, under every schedule.** At every
    moment the number of callback invocations of a thread equals the number of its Updates
    that have returned, plus one if it is currently inside an Update's callback; Insert never
    invokes one, and an Update that has not reached its leaf has not yet. -/
theorem C05_callback_exactly_once (P : Params K) (tree : Tree K V) (progs : List (List (COp K V)))
    (ht : TreeOk none tree) (ho : tree.order = P.order) (hp : PadOk P) (hd : Disciplined progs)
    (hdel : 4 ≤ tree.order ∨ NoDelete progs)
    (c : Config K V) (hr : Reachable (Config.init P tree progs) c) :
    ∀ t th, c.threads[t]? = some th → cbCount c t = updReturned c t + inCallback th :=
  callback_exactly_once P tree progs ht ho hp hd hdel c hr

/-- **C05 (per stretch): the callback is invoked at the leaf, with the current value.** Whenever
    a stretch of an Insert/Update continuation appends a callback note, its argument is
    `Spec.lookup` of the abstract map at the start of the stretch (structural rewrites before
    the leaf step leave the map unchanged), and if the stretch returns, the map has become
    `Spec.update … key f`. -/
theorem C05_callback_at_leaf_partial (lt : K → K → Bool) (P : Params K) (t : Nat) (s : St K V)
    (key : K) (f : Option V → V) (y : Option Bool) (parent index child : Nat) (H : List Lk) (hole : Option Nat)
    (hkp : KParams lt P) (hpre : Pre P hole s) (hk : KontOk s.tree (.upChild key f y parent index child))
    (hc : CursorOk s.tree false s.cursor) (hkpre : KontPre s.cursor (.upChild key f y parent index child))
    (hcov : Covers H s.cursor (.upChild key f y parent index child))
    (hord : OrdTree lt s.tree) (hpos : KPos lt s.tree (.upChild key f y parent index child)) :
    AbsEffect lt t (.upChild key f y parent index child) s
      (resume P t s (.upChild key f y parent index child)).1 (resume P t s (.upChild key f y parent index child)).2 :=
  (resume_kpost_U lt P t s _ H hole rfl hkp hpre hk hc hkpre hcov hord hpos).1.eff

end Gobptree.Conc

#print axioms Gobptree.C05_update_seq
#print axioms Gobptree.C05_counter_seq
#print axioms Gobptree.Conc.C05_update_atomic_partial
#print axioms Gobptree.Conc.C05_callback_at_leaf_partial
#print axioms Gobptree.Conc.C05_update_atomic
#print axioms Gobptree.Conc.C05_callback_exactly_once
