/-
  C01 — single-threaded use refines a key→value map, for every key type and order.

  Model: lean/Gobptree/{Slice,Search,Node,Ops,Run}.lean (hand-written mirror of the
  six tree files, tied to /repo by the differential check on every run).
  Spec:  lean/Gobptree/Spec.lean.
  `K`, `V`, the comparison `lt` (any strict weak order), the padding producer
  and the order are arbitrary: one theorem covers all six tree types.
-/
import Gobptree.Proofs.RunOk
import Gobptree.Proofs.CSolo

namespace Gobptree

variable {K V : Type} {lt : K → K → Bool} {P : Params K}

/-- **C01 (order ≥ 4).** Every finite history of Insert/Update/Delete/Search on a
    fresh tree of any even order ≥ 4: no call panics, every Search returns exactly
    the specification's lookup, every Update callback receives exactly that lookup,
    and the contents are the specification's map. -/
theorem C01_refines_map (hp : ParamsOk lt P) (h4 : 4 ≤ P.order) (ops : List (Op K V)) :
    ∃ t' : Tree K V,
      (Tree.new P.order : Tree K V).run P ops = .ok (t', (Spec.run lt [] ops).2) ∧
      t'.abs = (Spec.run lt [] ops).1 := by
  obtain ⟨hinv, hnil⟩ := new_ok (lt := lt) (K := K) (V := V) P.order
  obtain ⟨t', heq, _, _, hp'⟩ := run_ok hp ops (Tree.new P.order) rfl hinv (fun _ _ _ => h4)
  rw [hnil] at heq hp'
  exact ⟨t', heq, by rw [Tree.abs_eq_pairs]; exact hp'⟩

/-- **C01 (order 2, partial).** The same for order 2 (any even order ≥ 2) over
    histories WITHOUT Delete. What is missing for the full statement at order 2 is
    the known finding KF-1 (see `C01_order2_delete_counterexample`). -/
theorem C01_order2_partial (hp : ParamsOk lt P) (ops : List (Op K V))
    (hnodel : ∀ op ∈ ops, op.isDelete = false) :
    ∃ t' : Tree K V,
      (Tree.new P.order : Tree K V).run P ops = .ok (t', (Spec.run lt [] ops).2) ∧
      t'.abs = (Spec.run lt [] ops).1 := by
  obtain ⟨hinv, hnil⟩ := new_ok (lt := lt) (K := K) (V := V) P.order
  obtain ⟨t', heq, _, _, hp'⟩ := run_ok hp ops (Tree.new P.order) rfl hinv
    (fun op hop hd => by rw [hnodel op hop] at hd; exact absurd hd (by decide))
  rw [hnil] at heq hp'
  exact ⟨t', heq, by rw [Tree.abs_eq_pairs]; exact hp'⟩

/-- **C01, Search is read-only.** A Search step returns the tree it was given. -/
theorem C01_search_unchanged (t t' : Tree K V) (k : K) (o : Out V)
    (hs : t.step P (.search k) = .ok (t', o)) : t' = t := by
  simp only [Tree.step, bind, Except.bind, pure, Except.pure] at hs
  split at hs
  · exact absurd hs (by simp)
  · simp only [Except.ok.injEq, Prod.mk.injEq] at hs; exact hs.1.symm

/-! ### the instance used for non-vacuity and for the order-2 witness -/

def natP (o : Nat) : Params Nat := { lt := fun a b => decide (a < b), pad := fun _ => some 0, order := o }

theorem natP_ok (o : Nat) (h2 : 2 ≤ o) (hev : o % 2 = 0) : ParamsOk (fun a b => decide (a < b)) (natP o) where
  lt_eq := rfl
  swo := {
    irrefl := by intro a; simp
    trans := by intro a b c h1 h2; simp at *; omega
    cotrans := by intro a b c h1; simp at *; omega }
  pad := by intro k; simp [natP]
  two_le := h2
  even := hev

/-- non-vacuity: the hypotheses of `C01_refines_map` are satisfiable (Nat keys, order 4),
    and the theorem's history really reaches multi-level trees -/
example : ParamsOk (fun a b => decide (a < b)) (natP 4) ∧ 4 ≤ (natP 4).order := ⟨natP_ok 4 (by decide) (by decide), by decide⟩

example : ∃ t : Tree Nat Nat,
    (Tree.new 4 : Tree Nat Nat).run (natP 4) ((List.range 12).map fun i => Op.insert i i) = .ok (t, List.replicate 12 .done) ∧ t.depth = 2 := by
  refine ⟨_, rfl, rfl⟩

/-- **KF-1 witness (order 2).** At order 2 the history of the properties file
    `I1 I2 I5 I2 D1` makes the model's Delete panic, as the implementation's does:
    the full C01 statement is false at order 2 with deletes. -/
theorem C01_order2_delete_counterexample :
    (Tree.new 2 : Tree Nat Nat).run (natP 2)
      [.insert 1 1, .insert 2 2, .insert 5 5, .insert 2 2, .delete 1] = .error .bothSiblingsEmpty := by
  rfl

end Gobptree

namespace Gobptree.Conc
open Gobptree

variable {K V : Type}

/-- **C01 (the two Lean models agree).** Whenever the sequential big-step model (`Ops.lean`,
    about which C01/C02/C08/C11 are proved) runs a history without a Go panic, a single thread
    of the concurrent small-step model (`Conc.lean`, about which C03–C10 are proved) running the
    same history ends with EXACTLY the same tree — same node identities, same allocation counter
    — the same results position by position and the same callback arguments. -/
theorem C01_models_agree (P : Params K) (ops : List (Op K V)) (t' : Tree K V) (outs : List (Out V))
    (hseq : Tree.run P (Tree.new P.order) ops = .ok (t', outs)) :
    ∃ n c', (Config.init P (Tree.new P.order) [ops.map copOf]).run (List.replicate n 0) = (c', none) ∧
      c'.unfinished = false ∧ c'.dead = false ∧ c'.tree = t' ∧ c'.owner = [] ∧
      ∃ rs, (retNotes c'.log).reverse = numbered 0 rs ∧ ResAll outs rs ∧ (cbNotes c'.log).reverse = outCbs outs :=
  solo_run_new P ops t' outs hseq

/-- **C01 on the concurrent model.** A lone thread of the concurrent model started on a fresh tree
    never panics and refines the map specification: final contents, results and callback
    arguments are those of `Spec.run` (Delete only at order ≥ 4). -/
theorem C01_concurrent_model_solo (lt : K → K → Bool) (P : Params K) (hp : ParamsOk lt P) (ops : List (Op K V))
    (hdel : ∀ op ∈ ops, op.isDelete = true → 4 ≤ P.order) :
    ∃ n c', (Config.init P (Tree.new P.order) [ops.map copOf]).run (List.replicate n 0) = (c', none) ∧
      c'.unfinished = false ∧ c'.dead = false ∧ c'.owner = [] ∧
      Node.pairs c'.tree.root = (Spec.run lt [] ops).1 ∧
      ∃ rs, (retNotes c'.log).reverse = numbered 0 rs ∧ ResAll (Spec.run lt ([] : List (K × V)) ops).2 rs ∧
        (cbNotes c'.log).reverse = outCbs (Spec.run lt ([] : List (K × V)) ops).2 :=
  solo_refines_spec lt P hp ops hdel

end Gobptree.Conc

#print axioms Gobptree.C01_refines_map
#print axioms Gobptree.C01_order2_partial
#print axioms Gobptree.C01_search_unchanged
#print axioms Gobptree.C01_order2_delete_counterexample
#print axioms Gobptree.Conc.C01_models_agree
#print axioms Gobptree.Conc.C01_concurrent_model_solo
