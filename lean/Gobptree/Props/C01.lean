import Gobptree.Ops
namespace Gobptree
theorem C01_placeholder : True := trivial
end Gobptree
#print axioms Gobptree.C01_placeholder
