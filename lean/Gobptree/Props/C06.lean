/-
  C06 — no deadlock: every operation eventually returns.

  Status: the FULL statement (`C06_no_deadlock_statement`: some thread is enabled in every
  reachable configuration with unfinished threads, for disciplined clients) is kept as a
  definition and NOT yet proved in Lean; on the implementation side it is DECIDED (not
  timed out) by the cooperative scheduler's wait-for graph over all schedules of the
  cursor-next-to-Delete catalogue and random schedules.  Proved here: `Lock()` is the only
  blocking primitive (a thread whose wanted mutex is free, or that is not waiting for a
  mutex, can always step, and every step terminates — the model's step is a total
  function, there are no retry loops), and the order in which Delete takes sibling locks.
-/
import Gobptree.Proofs.ConcReach

namespace Gobptree.Conc
open Gobptree

variable {K V : Type}

/-- FULL statement (not proved): for clients that respect the cursor discipline (the model
    stops a thread that violates it, see `misuse`), in every reachable configuration with an
    unfinished thread some thread is enabled. -/
def C06_no_deadlock_statement : Prop :=
  ∀ (P : Params Nat) (tree : Tree Nat Nat) (progs : List (List (COp Nat Nat))) (c : Config Nat Nat),
    4 ≤ P.order → P.order % 2 = 0 → tree.order = P.order →
    Reachable (Config.init P tree progs) c → c.dead = false → c.unfinished = true →
    c.enabledSet ≠ []

/-- **C06 (partial): only a held mutex blocks.** A thread waiting for a mutex that nobody
    holds, a thread at a client/callback yield and a thread that has not started are all
    enabled, and an enabled thread's step is defined: nothing but `Lock()` on a held mutex
    ever makes an operation wait. -/
theorem C06_only_locks_block_partial (c : Config K V) (t : Nat) (th : Thread K V)
    (hth : c.threads[t]? = some th)
    (hfree : match th.park with
      | .want l _ => c.holder l = none
      | .finished => False
      | _ => True) :
    ∃ c', c.step t = some c' := by
  have hen : th.enabled c = true := by
    unfold Thread.enabled
    cases hp : th.park with
    | start => rfl
    | yielded k => rfl
    | finished => rw [hp] at hfree; exact absurd hfree id
    | want l k => rw [hp] at hfree; simp only at hfree; simp [hfree]
  unfold Config.step
  simp only [hth, hen, Bool.not_true, Bool.false_eq_true, if_false]
  exact ⟨_, rfl⟩

/-- **C06 (partial): Delete takes sibling locks left to right.** Whenever a Delete waits
    for the child at some level it already holds that child's left sibling (if it has
    one), and whenever it waits for the right sibling it already holds the child: the
    left → child → right order of `deleteKey`, the direction cursors travel. -/
theorem C06_delete_lock_order_partial (key : K) (frames : List Frame) (node index : Nat)
    (left : Option Nat) (child root : Nat) (fr : Frame) (rest : List Frame) (right : Nat) :
    (∀ l, left = some l → Lk.node l ∈ kontHeld (Kont.delChild (V := V) key frames node index left child root)) ∧
    Lk.node fr.child ∈ kontHeld (Kont.delRight (V := V) key rest fr right root) ∧
    (∀ l, fr.left = some l → Lk.node l ∈ kontHeld (Kont.delRight (V := V) key rest fr right root)) := by
  refine ⟨?_, ?_, ?_⟩
  · intro l hl; subst hl; simp [kontHeld, optLock]
  · simp [kontHeld, framesHeld]
  · intro l hl; simp [kontHeld, framesHeld, hl, optLock]

end Gobptree.Conc

#print axioms Gobptree.Conc.C06_only_locks_block_partial
#print axioms Gobptree.Conc.C06_delete_lock_order_partial
