/-
  C06 — no deadlock: every operation eventually returns.

  PROVED (`C06_no_deadlock`): for every initial tree satisfying the structural invariant (in
  particular a fresh tree of any even order ≥ 2), every finite family of client programs
  that respect the cursor discipline (`Disciplined`: tree operations only while no cursor is
  open, `Pair` only after `Scan`) — where the order is at least 4 or no program contains a
  Delete (`hdel`; at order 2 a Delete panics) — and EVERY schedule: no thread ever panics, and in every
  reachable configuration with an unfinished thread in which no thread has ended with a
  cursor still open (`FinishedClean`, the client's side of C06), some thread is enabled.
  Method: the concurrent structural invariant `CInv` (node identities distinct, parallel
  arrays, occupancy with the one hole of a running Delete, the leaf chain, every
  continuation's identities where it thinks they are) is inductive (`step_cinv`); it implies
  that every waiting thread waits for a mutex ranked above all it holds (`sinv_ranked`, ranking
  `posRank`: rootMutex, then nodes by level and pre-order position); a ranked configuration
  with consistent owners is not deadlocked (`ranked_not_deadlocked`).
  Also proved: `Lock()` is the only blocking primitive and every step terminates
  (`C06_only_locks_block_partial`; the model's step is a total function, no retry loops);
  Delete's sibling lock order left -> child -> right; the reduction for ANY ranking.
  Modelled, not verified: Go's scheduler as interleaving at lock-acquisition granularity;
  fairness (a thread that is enabled forever is eventually scheduled) is assumed, so "some
  thread is enabled" is what "eventually returns" means here, together with: every step of
  an enabled thread terminates and finishes or makes progress in its program.
  On the implementation side the same rankedness predicate (with the level order of the
  current tree) is evaluated by the `lockorder` oracle in every scheduler state and deadlock
  is DECIDED by the wait-for graph over all schedules of the catalogues and random ones.
-/
import Gobptree.Proofs.ConcReach
import Gobptree.Proofs.ConcRank
import Gobptree.Proofs.CSFinal
import Gobptree.Proofs.CProgress
import Gobptree.Proofs.CTerminate
import Gobptree.Proofs.CClean

namespace Gobptree.Conc
open Gobptree

variable {K V : Type}

/-- **C06: no thread ever panics.** Every reachable configuration of disciplined clients on a
    tree satisfying the structural invariant has `dead = false`: no index out of range, no
    `smallest()` of an empty node, no "both siblings empty", no bad merge, no nil cursor. -/
theorem C06_no_panic (P : Params K) (tree : Tree K V) (progs : List (List (COp K V)))
    (ht : TreeOk none tree) (ho : tree.order = P.order) (hp : PadOk P) (hd : Disciplined progs)
    (hdel : 4 ≤ tree.order ∨ NoDelete progs)
    (c : Config K V) (hr : Reachable (Config.init P tree progs) c) : c.dead = false :=
  (reachable_cinv P tree progs ht ho hp hd hdel c hr).alive

/-- **C06: every reachable configuration is ranked.** Every waiting thread waits for a mutex
    that comes after all the mutexes it holds in the order `posRank` of the current tree. -/
theorem C06_reachable_ranked (P : Params K) (tree : Tree K V) (progs : List (List (COp K V)))
    (ht : TreeOk none tree) (ho : tree.order = P.order) (hp : PadOk P) (hd : Disciplined progs)
    (hdel : 4 ≤ tree.order ∨ NoDelete progs)
    (c : Config K V) (hr : Reachable (Config.init P tree progs) c) : Ranked (posRank c.tree) c :=
  sinv_ranked c (reachable_cinv P tree progs ht ho hp hd hdel c hr).s

/-- **C06: no deadlock.** In every reachable configuration (every initial tree satisfying the
    structural invariant, every family of disciplined client programs, every schedule) in
    which some thread is unfinished and no thread has ended with an open cursor, some thread
    is enabled. -/
theorem C06_no_deadlock (P : Params K) (tree : Tree K V) (progs : List (List (COp K V)))
    (ht : TreeOk none tree) (ho : tree.order = P.order) (hp : PadOk P) (hd : Disciplined progs)
    (hdel : 4 ≤ tree.order ∨ NoDelete progs)
    (c : Config K V) (hr : Reachable (Config.init P tree progs) c)
    (hfin : FinishedClean c) (hu : c.unfinished = true) : c.enabledSet ≠ [] :=
  let hinv := reachable_cinv P tree progs ht ho hp hd hdel c hr
  ranked_not_deadlocked (posRank c.tree) c hinv.s.owner (sinv_ranked c hinv.s) hfin hu

/-- **C06: an operation takes boundedly many of its own steps** (no retry loops). Once an
    operation has been granted `rootMutex` (or any lock), it finishes within `3·depth + 6` further
    steps of its own thread, on EVERY schedule and whatever the other threads do in between
    (`depth` = height of the tree when counting starts; `ts.count j` = number of steps of thread
    `j` in the schedule `ts`).  Together with `C06_no_deadlock` (some thread is always enabled)
    and fairness of the scheduler (assumed) every operation eventually returns. -/
theorem C06_bounded_own_steps (P : Params K) (tree : Tree K V) (progs : List (List (COp K V)))
    (ht : TreeOk none tree) (ho : tree.order = P.order) (hp : PadOk P) (hd : Disciplined progs)
    (hdel : 4 ≤ tree.order ∨ NoDelete progs)
    (c : Config K V) (hr : Reachable (Config.init P tree progs) c)
    (j : Nat) (ts : List Nat) (c' : Config K V) (hrun : c.run ts = (c', none))
    (b b' : Thread K V) (hb : c.threads[j]? = some b) (hb' : c'.threads[j]? = some b')
    (hnt : parkWant b.park ≠ some Lk.tree) (hns : b.park ≠ .start) (hpc : b'.pc = b.pc) (hnf : b'.park ≠ .finished) :
    ts.count j ≤ 3 * c.tree.depth + 6 :=
  own_steps_le j ts c c' (reachable_cinv P tree progs ht ho hp hd hdel c hr) hrun b b' hb hb' hnt hns hpc hnf

/-- **C06: every own step makes progress.** A step of a thread inside an operation either
    completes the operation or strictly decreases the measure `opMeasure` (height-based). -/
theorem C06_own_step_progress (P : Params K) (tree : Tree K V) (progs : List (List (COp K V)))
    (ht : TreeOk none tree) (ho : tree.order = P.order) (hp : PadOk P) (hd : Disciplined progs)
    (hdel : 4 ≤ tree.order ∨ NoDelete progs)
    (c c' : Config K V) (hr : Reachable (Config.init P tree progs) c) (t : Nat) (hstep : c.step t = some c')
    (th th' : Thread K V) (hth : c.threads[t]? = some th) (hth' : c'.threads[t]? = some th')
    (hps : th.park ≠ .start) :
    th.pc < th'.pc ∨ th'.park = .finished ∨ opMeasure c'.tree th'.park < opMeasure c.tree th.park :=
  own_step_progress c c' t hstep (reachable_cinv P tree progs ht ho hp hd hdel c hr) th th' hth hth' hps

/-- **C06: every execution is finite, with an explicit bound — no fairness assumption.** From any
    reachable configuration NO schedule whatsoever runs for more than `termBound c` steps
    (`termBound c ≤ (Σ_threads (|prog| + 1)) · (3·depthBound c + 9)`, where `depthBound` is the
    current depth plus the number of Insert/Update operations that may still split the root): a
    thread waiting for a held mutex is not enabled (no spinning), every own step decreases a
    potential, no step of another thread increases it.  No livelock, no retry loop, no starvation
    inside the model: whatever the scheduler does, it runs out of steps. -/
theorem C06_every_execution_terminates (P : Params K) (tree : Tree K V) (progs : List (List (COp K V)))
    (ht : TreeOk none tree) (ho : tree.order = P.order) (hp : PadOk P) (hd : Disciplined progs)
    (hdel : 4 ≤ tree.order ∨ NoDelete progs)
    (c : Config K V) (hr : Reachable (Config.init P tree progs) c)
    (ts : List Nat) (c' : Config K V) (hrun : c.run ts = (c', none)) :
    ts.length ≤ termBound c ∧
    termBound c ≤ (c.threads.map fun th => th.prog.length + 1).sum * (3 * depthBound c + 9) :=
  ⟨executions_bounded_explicit P tree progs ht ho hp hd hdel c hr ts c' hrun,
   termBound_le c (reachable_cinv P tree progs ht ho hp hd hdel c hr)⟩

/-- **C06: every operation returns.** Run ANY schedule from a reachable configuration until nothing
    is enabled (by `C06_every_execution_terminates` that happens within `termBound c` steps, and by
    `enabled_step` the run can always be extended while something is enabled); then — unless a
    client ended a thread with a cursor still open — every thread has finished: every Insert,
    Update, Delete, Search, NewScanner and cursor step of every program has returned. -/
theorem C06_all_operations_return (P : Params K) (tree : Tree K V) (progs : List (List (COp K V)))
    (ht : TreeOk none tree) (ho : tree.order = P.order) (hp : PadOk P) (hd : Disciplined progs)
    (hdel : 4 ≤ tree.order ∨ NoDelete progs)
    (c : Config K V) (hr : Reachable (Config.init P tree progs) c)
    (ts : List Nat) (c' : Config K V) (hrun : c.run ts = (c', none)) (hstuck : c'.enabledSet = [])
    (hfin : FinishedClean c') : c'.unfinished = false :=
  all_operations_return P tree progs ht ho hp hd hdel c hr ts c' hrun hstuck hfin

/-- **C06: there is no infinite execution** (well-founded form). -/
theorem C06_no_infinite_execution (P : Params K) (tree : Tree K V) (progs : List (List (COp K V)))
    (ht : TreeOk none tree) (ho : tree.order = P.order) (hp : PadOk P) (hd : Disciplined progs)
    (hdel : 4 ≤ tree.order ∨ NoDelete progs)
    (c : Config K V) (hr : Reachable (Config.init P tree progs) c) :
    ¬ ∃ f : Nat → Nat, ∀ n, (c.run ((List.range n).map f)).2 = none :=
  no_infinite_execution c (reachable_cinv P tree progs ht ho hp hd hdel c hr)

/-- **C06: the client-side proviso discharged statically.** `Closing progs`: every program leaves
    no cursor open (each `NewScanner` is eventually followed by a `Close`; `endSt .N p = some .N`
    in the discipline automaton).  Then no reachable configuration with an unfinished thread is
    deadlocked — `FinishedClean` is a theorem (`reachable_finishedClean`), not a hypothesis. -/
theorem C06_no_deadlock_closing (P : Params K) (tree : Tree K V) (progs : List (List (COp K V)))
    (ht : TreeOk none tree) (ho : tree.order = P.order) (hp : PadOk P) (hcl : Closing progs)
    (hdel : 4 ≤ tree.order ∨ NoDelete progs)
    (c : Config K V) (hr : Reachable (Config.init P tree progs) c) (hu : c.unfinished = true) :
    c.enabledSet ≠ [] :=
  no_deadlock_closing P tree progs ht ho hp hcl hdel c hr hu

/-- **C06: every operation returns, unconditionally.** For programs that close their cursors, EVERY
    maximal execution — any schedule, extended until nothing is enabled, which happens within
    `termBound c` steps — ends with every operation of every thread returned, and with no mutex held
    by anybody. No fairness assumption, no side condition on the run. -/
theorem C06_all_operations_return_closing (P : Params K) (tree : Tree K V) (progs : List (List (COp K V)))
    (ht : TreeOk none tree) (ho : tree.order = P.order) (hp : PadOk P)
    (hcl : Closing progs) (hdel : 4 ≤ tree.order ∨ NoDelete progs)
    (c : Config K V) (hr : Reachable (Config.init P tree progs) c)
    (ts : List Nat) (c' : Config K V) (hrun : c.run ts = (c', none)) (hstuck : c'.enabledSet = []) :
    c'.unfinished = false ∧ c'.owner = [] ∧ ∀ th ∈ c'.threads, th.held = [] :=
  ⟨all_operations_return_closing P tree progs ht ho hp hcl hdel c hr ts c' hrun hstuck,
   nothing_held_at_end P tree progs ht ho hp hcl hdel c hr ts c' hrun hstuck⟩

/-- `Closing` is satisfiable and strictly stronger than `Disciplined` -/
example : Closing [[COp.ins 1 1, COp.ns 0, COp.scan, COp.pair, COp.close, COp.del 1], [COp.get (K := Nat) (V := Nat) 1]] := by
  intro p hp; simp at hp; rcases hp with rfl | rfl <;> rfl

/-- an enabled thread can step: a maximal execution exists -/
theorem C06_enabled_can_step (c : Config K V) (t : Nat) (h : t ∈ c.enabledSet) : ∃ c', c.step t = some c' :=
  enabled_step c t h

/-- the hypotheses are satisfiable: a fresh tree of order 4 satisfies the structural
    invariant, and a program mixing point operations with a cursor session is disciplined -/
example : TreeOk none (Tree.new 4 : Tree Nat Nat) ∧
    Disciplined [[COp.ins 1 1, COp.ns 0, COp.scan, COp.pair, COp.close, COp.del 1], [COp.get (K := Nat) (V := Nat) 1]] :=
  ⟨new_treeOk 4 (by omega) (by omega), by intro p hp; simp at hp; rcases hp with rfl | rfl <;> rfl⟩

/-- the hypotheses are satisfiable at ORDER 2 as well: a fresh tree of order 2 satisfies the
    structural invariant, and a Delete-free program family (point operations and a cursor
    session) is disciplined and satisfies `hdel` by its right disjunct -/
example : TreeOk none (Tree.new 2 : Tree Nat Nat) ∧
    Disciplined [[COp.ins 1 1, COp.ns 0, COp.scan, COp.pair, COp.close, COp.upd 1 (fun _ => 2) false],
      [COp.get (K := Nat) (V := Nat) 1]] ∧
    (4 ≤ (Tree.new 2 : Tree Nat Nat).order ∨
      NoDelete [[COp.ins 1 1, COp.ns 0, COp.scan, COp.pair, COp.close, COp.upd 1 (fun _ => 2) false],
        [COp.get (K := Nat) (V := Nat) 1]]) :=
  ⟨new_treeOk 2 (by omega) (by omega), by intro p hp; simp at hp; rcases hp with rfl | rfl <;> rfl,
   Or.inr (by
     intro p hp op hop
     simp at hp
     rcases hp with rfl | rfl <;> simp at hop <;> (try rcases hop with rfl | rfl | rfl | rfl | rfl | rfl) <;> (try subst hop) <;> rfl)⟩

/-- hence at order 2, for that family, no thread ever panics -/
example (c : Config Nat Nat)
    (hr : Reachable (Config.init (Params.mk (fun a b : Nat => decide (a < b)) (fun _ => some 0) 2) (Tree.new 2)
      [[COp.ins 1 1, COp.ns 0, COp.scan, COp.pair, COp.close, COp.upd 1 (fun _ => 2) false],
        [COp.get (K := Nat) (V := Nat) 1]]) c) : c.dead = false :=
  C06_no_panic _ _ _ (new_treeOk 2 (by omega) (by omega)) rfl (by intro k h; simp at h)
    (by intro p hp; simp at hp; rcases hp with rfl | rfl <;> rfl)
    (Or.inr (by
      intro p hp op hop
      simp at hp
      rcases hp with rfl | rfl <;> simp at hop <;> (try rcases hop with rfl | rfl | rfl | rfl | rfl | rfl) <;> (try subst hop) <;> rfl))
    c hr

/-- **C06 (partial): only a held mutex blocks.** A thread waiting for a mutex that nobody
    holds, a thread at a client/callback yield and a thread that has not started are all
    enabled, and an enabled thread's step is defined: nothing but `Lock()` on a held mutex
    ever makes an operation wait. -/
theorem C06_only_locks_block_partial (c : Config K V) (t : Nat) (th : Thread K V)
    (hth : c.threads[t]? = some th)
    (hfree : match th.park with
      | .want l _ => c.holder l = none
      | .finished => False
      | _ => True) :
    ∃ c', c.step t = some c' := by
  have hen : th.enabled c = true := by
    unfold Thread.enabled
    cases hp : th.park with
    | start => rfl
    | yielded k => rfl
    | finished => rw [hp] at hfree; exact absurd hfree id
    | want l k => rw [hp] at hfree; simp only at hfree; simp [hfree]
  unfold Config.step
  simp only [hth, hen, Bool.not_true, Bool.false_eq_true, if_false]
  exact ⟨_, rfl⟩

/-- **C06 (partial): Delete takes sibling locks left to right.** Whenever a Delete waits
    for the child at some level it already holds that child's left sibling (if it has
    one), and whenever it waits for the right sibling it already holds the child: the
    left → child → right order of `deleteKey`, the direction cursors travel. -/
theorem C06_delete_lock_order_partial (key : K) (frames : List Frame) (node index : Nat)
    (left : Option Nat) (child root : Nat) (fr : Frame) (rest : List Frame) (right : Nat) :
    (∀ l, left = some l → Lk.node l ∈ kontHeld (Kont.delChild (V := V) key frames node index left child root)) ∧
    Lk.node fr.child ∈ kontHeld (Kont.delRight (V := V) key rest fr right root) ∧
    (∀ l, fr.left = some l → Lk.node l ∈ kontHeld (Kont.delRight (V := V) key rest fr right root)) := by
  refine ⟨?_, ?_, ?_⟩
  · intro l hl; subst hl; simp [kontHeld, optLock]
  · simp [kontHeld, framesHeld]
  · intro l hl; simp [kontHeld, framesHeld, hl, optLock]

/-- **C06 (reduction, proved): a reachable configuration that is ranked is not deadlocked.**
    In every configuration reachable from any initial tree and any client programs in which
    no thread panicked, if every waiting thread waits for a mutex that comes after all the
    mutexes it holds in the level order of the current tree (`rootMutex`, root, then level
    by level, left to right: `levelRank`), and no thread has ended with a cursor still open
    (`FinishedClean`, the client's side of C06), then some thread can step whenever some
    thread is unfinished. Mutual exclusion (`reachable_owner`) is what turns "the wanted
    mutex is held" into "held by a thread that itself waits for a higher one".

    (For the ranking `posRank` rankedness of every reachable configuration is proved:
    `C06_reachable_ranked`. The level-order variant `levelRank` of this reduction is the
    predicate the model driver and the implementation-side `lockorder` oracle evaluate.) -/
theorem C06_ranked_no_deadlock_partial (P : Params K) (tree : Tree K V) (progs : List (List (COp K V)))
    (c : Config K V) (hr : Reachable (Config.init P tree progs) c) (hd : c.dead = false)
    (hrank : Ranked (levelRank c.tree) c) (hfin : FinishedClean c) (hu : c.unfinished = true) :
    c.enabledSet ≠ [] :=
  ranked_not_deadlocked (levelRank c.tree) c
    (reachable_owner _ c (init_ok P tree progs) (init_owner P tree progs) hr hd) hrank hfin hu

/-- the executable test the driver runs is the hypothesis of the theorem -/
theorem C06_rankedB_is_Ranked (c : Config K V) : rankedB c = true ↔ Ranked (levelRank c.tree) c :=
  rankedB_iff c

/-- the reduction is not specific to the level order: ANY ranking of the mutexes under which
    every waiting thread waits above what it holds excludes deadlock -/
theorem C06_any_ranking_no_deadlock_partial (rank : Lk → Nat) (c : Config K V) (ho : OwnerOk c)
    (hr : Ranked rank c) (hf : FinishedClean c) (hu : c.unfinished = true) : c.enabledSet ≠ [] :=
  ranked_not_deadlocked rank c ho hr hf hu

/-- a two-leaf tree, thread 0 holding the root and waiting for leaf 2, thread 1 waiting for
    the root -/
def exTree : Tree Nat Nat :=
  Tree.mk 4 1 (Inner.mk 1 [0, 5] [(Leaf.mk 2 [0, 1] [0, 0] (some 3) : Leaf Nat Nat), Leaf.mk 3 [5, 6] [0, 0] none] : Inner Nat (Node Nat Nat 0)) 4

def exConfig : Config Nat Nat :=
  Config.mk (Params.mk (fun a b => decide (a < b)) (fun _ => some 0) 4) exTree [(Lk.node 1, 0)]
    [Thread.mk [COp.get 0] 0 (Park.want (Lk.node 2) (Kont.roNode false 0 (Lk.node 1) 2)) [Lk.node 1] none false,
     Thread.mk [COp.get 5] 0 (Park.want (Lk.node 1) (Kont.roNode false 5 Lk.tree 1)) [] none false]
    [] false

/-- non-vacuity: the hypotheses of the reduction hold of a concrete waiting configuration
    (ranked, unfinished), and exactly thread 0 is enabled in it -/
example : rankedB exConfig = true ∧ exConfig.unfinished = true ∧ exConfig.enabledSet = [0] := by
  decide

end Gobptree.Conc

#print axioms Gobptree.Conc.C06_ranked_no_deadlock_partial
#print axioms Gobptree.Conc.C06_rankedB_is_Ranked
#print axioms Gobptree.Conc.C06_any_ranking_no_deadlock_partial
#print axioms Gobptree.Conc.C06_only_locks_block_partial
#print axioms Gobptree.Conc.C06_delete_lock_order_partial
#print axioms Gobptree.Conc.C06_no_panic
#print axioms Gobptree.Conc.C06_reachable_ranked
#print axioms Gobptree.Conc.C06_no_deadlock
#print axioms Gobptree.Conc.C06_bounded_own_steps
#print axioms Gobptree.Conc.C06_own_step_progress
#print axioms Gobptree.Conc.C06_every_execution_terminates
#print axioms Gobptree.Conc.C06_all_operations_return
#print axioms Gobptree.Conc.C06_no_infinite_execution
#print axioms Gobptree.Conc.C06_enabled_can_step
#print axioms Gobptree.Conc.C06_no_deadlock_closing
#print axioms Gobptree.Conc.C06_all_operations_return_closing
