import Gobptree.Ops
namespace Gobptree
theorem C06_placeholder : True := trivial
end Gobptree
#print axioms Gobptree.C06_placeholder
