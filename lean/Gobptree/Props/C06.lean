/-
  C06 — no deadlock: every operation eventually returns.

  Status: the FULL statement (`C06_no_deadlock_statement`: some thread is enabled in every
  reachable configuration with unfinished threads, for disciplined clients) is kept as a
  definition and NOT proved in Lean.  Proved:
    * the reduction `C06_ranked_no_deadlock_partial`: in every reachable configuration, if
      every waiting thread waits for a mutex that follows all it holds in the level order of
      the current tree and no thread ended with an open cursor, some thread can step (uses
      mutual exclusion, proved for all reachable configurations);
    * `Lock()` is the only blocking primitive and every step terminates
      (`C06_only_locks_block_partial`; the model's step is a total function, no retry loops);
    * Delete's sibling lock order left -> child -> right (`C06_delete_lock_order_partial`).
  What remains unproved is that every reachable configuration IS ranked.  That predicate is
  evaluated by the model driver in every configuration of every replayed run and, on the
  implementation, by the `lockorder` oracle in every state the scheduler passes through;
  deadlock itself is DECIDED (not timed out) by the cooperative scheduler's wait-for graph
  over all schedules of the catalogues and over random schedules.
-/
import Gobptree.Proofs.ConcReach
import Gobptree.Proofs.ConcRank

namespace Gobptree.Conc
open Gobptree

variable {K V : Type}

/-- FULL statement (not proved): for clients that respect the cursor discipline (the model
    stops a thread that violates it, see `misuse`), in every reachable configuration with an
    unfinished thread some thread is enabled. -/
def C06_no_deadlock_statement : Prop :=
  ∀ (P : Params Nat) (tree : Tree Nat Nat) (progs : List (List (COp Nat Nat))) (c : Config Nat Nat),
    4 ≤ P.order → P.order % 2 = 0 → tree.order = P.order →
    Reachable (Config.init P tree progs) c → c.dead = false → c.unfinished = true →
    c.enabledSet ≠ []

/-- **C06 (partial): only a held mutex blocks.** A thread waiting for a mutex that nobody
    holds, a thread at a client/callback yield and a thread that has not started are all
    enabled, and an enabled thread's step is defined: nothing but `Lock()` on a held mutex
    ever makes an operation wait. -/
theorem C06_only_locks_block_partial (c : Config K V) (t : Nat) (th : Thread K V)
    (hth : c.threads[t]? = some th)
    (hfree : match th.park with
      | .want l _ => c.holder l = none
      | .finished => False
      | _ => True) :
    ∃ c', c.step t = some c' := by
  have hen : th.enabled c = true := by
    unfold Thread.enabled
    cases hp : th.park with
    | start => rfl
    | yielded k => rfl
    | finished => rw [hp] at hfree; exact absurd hfree id
    | want l k => rw [hp] at hfree; simp only at hfree; simp [hfree]
  unfold Config.step
  simp only [hth, hen, Bool.not_true, Bool.false_eq_true, if_false]
  exact ⟨_, rfl⟩

/-- **C06 (partial): Delete takes sibling locks left to right.** Whenever a Delete waits
    for the child at some level it already holds that child's left sibling (if it has
    one), and whenever it waits for the right sibling it already holds the child: the
    left → child → right order of `deleteKey`, the direction cursors travel. -/
theorem C06_delete_lock_order_partial (key : K) (frames : List Frame) (node index : Nat)
    (left : Option Nat) (child root : Nat) (fr : Frame) (rest : List Frame) (right : Nat) :
    (∀ l, left = some l → Lk.node l ∈ kontHeld (Kont.delChild (V := V) key frames node index left child root)) ∧
    Lk.node fr.child ∈ kontHeld (Kont.delRight (V := V) key rest fr right root) ∧
    (∀ l, fr.left = some l → Lk.node l ∈ kontHeld (Kont.delRight (V := V) key rest fr right root)) := by
  refine ⟨?_, ?_, ?_⟩
  · intro l hl; subst hl; simp [kontHeld, optLock]
  · simp [kontHeld, framesHeld]
  · intro l hl; simp [kontHeld, framesHeld, hl, optLock]

/-- **C06 (reduction, proved): a reachable configuration that is ranked is not deadlocked.**
    In every configuration reachable from any initial tree and any client programs in which
    no thread panicked, if every waiting thread waits for a mutex that comes after all the
    mutexes it holds in the level order of the current tree (`rootMutex`, root, then level
    by level, left to right: `levelRank`), and no thread has ended with a cursor still open
    (`FinishedClean`, the client's side of C06), then some thread can step whenever some
    thread is unfinished. Mutual exclusion (`reachable_owner`) is what turns "the wanted
    mutex is held" into "held by a thread that itself waits for a higher one".

    What is NOT proved is that `Ranked (levelRank c.tree) c` holds in every reachable
    configuration; that predicate is evaluated (`rankedB`, proved equivalent below) by the
    model driver in every configuration of every replayed run, and on the implementation by
    the `lockorder` oracle in every scheduler state. -/
theorem C06_ranked_no_deadlock_partial (P : Params K) (tree : Tree K V) (progs : List (List (COp K V)))
    (c : Config K V) (hr : Reachable (Config.init P tree progs) c) (hd : c.dead = false)
    (hrank : Ranked (levelRank c.tree) c) (hfin : FinishedClean c) (hu : c.unfinished = true) :
    c.enabledSet ≠ [] :=
  ranked_not_deadlocked (levelRank c.tree) c
    (reachable_owner _ c (init_ok P tree progs) (init_owner P tree progs) hr hd) hrank hfin hu

/-- the executable test the driver runs is the hypothesis of the theorem -/
theorem C06_rankedB_is_Ranked (c : Config K V) : rankedB c = true ↔ Ranked (levelRank c.tree) c :=
  rankedB_iff c

/-- the reduction is not specific to the level order: ANY ranking of the mutexes under which
    every waiting thread waits above what it holds excludes deadlock -/
theorem C06_any_ranking_no_deadlock_partial (rank : Lk → Nat) (c : Config K V) (ho : OwnerOk c)
    (hr : Ranked rank c) (hf : FinishedClean c) (hu : c.unfinished = true) : c.enabledSet ≠ [] :=
  ranked_not_deadlocked rank c ho hr hf hu

/-- a two-leaf tree, thread 0 holding the root and waiting for leaf 2, thread 1 waiting for
    the root -/
def exTree : Tree Nat Nat :=
  Tree.mk 4 1 (Inner.mk 1 [0, 5] [(Leaf.mk 2 [0, 1] [0, 0] (some 3) : Leaf Nat Nat), Leaf.mk 3 [5, 6] [0, 0] none] : Inner Nat (Node Nat Nat 0)) 4

def exConfig : Config Nat Nat :=
  Config.mk (Params.mk (fun a b => decide (a < b)) (fun _ => some 0) 4) exTree [(Lk.node 1, 0)]
    [Thread.mk [COp.get 0] 0 (Park.want (Lk.node 2) (Kont.roNode false 0 (Lk.node 1) 2)) [Lk.node 1] none false,
     Thread.mk [COp.get 5] 0 (Park.want (Lk.node 1) (Kont.roNode false 5 Lk.tree 1)) [] none false]
    [] false

/-- non-vacuity: the hypotheses of the reduction hold of a concrete waiting configuration
    (ranked, unfinished), and exactly thread 0 is enabled in it -/
example : rankedB exConfig = true ∧ exConfig.unfinished = true ∧ exConfig.enabledSet = [0] := by
  decide

end Gobptree.Conc

#print axioms Gobptree.Conc.C06_ranked_no_deadlock_partial
#print axioms Gobptree.Conc.C06_rankedB_is_Ranked
#print axioms Gobptree.Conc.C06_any_ranking_no_deadlock_partial
#print axioms Gobptree.Conc.C06_only_locks_block_partial
#print axioms Gobptree.Conc.C06_delete_lock_order_partial
