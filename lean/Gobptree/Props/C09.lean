/-
  C09 — operations leave no lock behind; a cursor holds one leaf until it ends.

  Model: the small-step semantics lean/Gobptree/Conc.lean (threads parked at `Lock()`
  calls; one step = run to the next park), tied to /repo by replaying every run of the
  shadow copy (sources with only the `sync` import swapped) on the model and comparing
  the complete lock/unlock event logs.  The theorems quantify over EVERY initial tree,
  EVERY finite family of client programs and EVERY schedule (`Reachable`).

  `dead = false` excludes configurations in which a thread panicked (a Go panic leaves
  non-deferred locks held; absence of panics for single-threaded use is C01, for order ≥ 4).
-/
import Gobptree.Proofs.ConcReach

namespace Gobptree.Conc
open Gobptree

variable {K V : Type}

/-- **C09, bookkeeping invariant.** In every reachable configuration every thread holds
    exactly (up to order) its open cursor's leaf plus the locks its park position
    prescribes (`kontHeld`): the held set is a function of the program position alone. -/
theorem C09_held_by_position (P : Params K) (tree : Tree K V) (progs : List (List (COp K V)))
    (c : Config K V) (hr : Reachable (Config.init P tree progs) c) (hd : c.dead = false) :
    ∀ th ∈ c.threads, List.Perm th.held (cursorLocks th.cursor ++ parkHeld th.park) :=
  fun th hth => (reachable_ok _ c (init_ok P tree progs) hr hd th hth).1

/-- **C09 (locks released).** A thread whose program has run to completion — every one
    of its Insert/Update/Delete/Search calls has returned, on whatever path: root split
    left or right, child split left or right, borrow, merge, absent key — holds nothing
    but the leaf of a cursor it left open. -/
theorem C09_locks_released (P : Params K) (tree : Tree K V) (progs : List (List (COp K V)))
    (c : Config K V) (hr : Reachable (Config.init P tree progs) c) (hd : c.dead = false)
    (th : Thread K V) (hth : th ∈ c.threads) (hfin : th.park = .finished) :
    List.Perm th.held (cursorLocks th.cursor) := by
  have := C09_held_by_position P tree progs c hr hd th hth
  rw [hfin] at this
  simpa [parkHeld] using this

/-- **C09 (after `Scan` returned false / after `Close`).** Once the cursor is exhausted or
    closed (or the thread never opened one) a finished thread holds no lock at all. -/
theorem C09_nothing_after_close (P : Params K) (tree : Tree K V) (progs : List (List (COp K V)))
    (c : Config K V) (hr : Reachable (Config.init P tree progs) c) (hd : c.dead = false)
    (th : Thread K V) (hth : th ∈ c.threads) (hfin : th.park = .finished)
    (hcur : th.cursor = none ∨ ∃ i, th.cursor = some (none, i)) : th.held = [] := by
  have h := C09_locks_released P tree progs c hr hd th hth hfin
  have : cursorLocks th.cursor = [] := by
    rcases hcur with e | ⟨i, e⟩ <;> rw [e] <;> rfl
  rw [this] at h
  exact List.Perm.eq_nil h

/-- **C09 (an open cursor holds exactly one leaf).** -/
theorem C09_cursor_one_leaf (P : Params K) (tree : Tree K V) (progs : List (List (COp K V)))
    (c : Config K V) (hr : Reachable (Config.init P tree progs) c) (hd : c.dead = false)
    (th : Thread K V) (hth : th ∈ c.threads) (hfin : th.park = .finished)
    (leaf : Nat) (i : Int) (hcur : th.cursor = some (some leaf, i)) : th.held = [.node leaf] := by
  have h := C09_locks_released P tree progs c hr hd th hth hfin
  rw [hcur] at h
  exact List.perm_singleton.mp h

/-- **C09 (between calls).** A thread resting between two calls (client `pause`) holds
    exactly its open cursor's leaf, or nothing. -/
theorem C09_between_calls (P : Params K) (tree : Tree K V) (progs : List (List (COp K V)))
    (c : Config K V) (hr : Reachable (Config.init P tree progs) c) (hd : c.dead = false)
    (th : Thread K V) (hth : th ∈ c.threads) (hp : th.park = .yielded .paused) :
    List.Perm th.held (cursorLocks th.cursor) := by
  have := C09_held_by_position P tree progs c hr hd th hth
  rw [hp] at this
  simpa [parkHeld, kontHeld] using this

/-- non-vacuity: the initial configuration satisfies the invariant and is reachable -/
example (P : Params K) (tree : Tree K V) (progs : List (List (COp K V))) :
    Reachable (Config.init P tree progs) (Config.init P tree progs) ∧ (Config.init P tree progs).dead = false :=
  ⟨.refl, rfl⟩

/-- FULL statement of the remaining half of C09 ("afterwards every operation on any key
    completes"), kept as a definition: it needs termination of every operation under a
    fair schedule, i.e. deadlock freedom (C06). Not proved. -/
def C09_then_completes_statement : Prop :=
  ∀ (P : Params Nat) (tree : Tree Nat Nat) (progs : List (List (COp Nat Nat))) (c : Config Nat Nat),
    Reachable (Config.init P tree progs) c → c.dead = false → c.unfinished = true →
    c.enabledSet ≠ []

end Gobptree.Conc

#print axioms Gobptree.Conc.C09_held_by_position
#print axioms Gobptree.Conc.C09_locks_released
#print axioms Gobptree.Conc.C09_nothing_after_close
#print axioms Gobptree.Conc.C09_cursor_one_leaf
#print axioms Gobptree.Conc.C09_between_calls
