import Gobptree.Ops
namespace Gobptree
theorem C09_placeholder : True := trivial
end Gobptree
#print axioms Gobptree.C09_placeholder
