/-
  C09 — operations leave no lock behind; a cursor holds one leaf until it ends.

  Model: the small-step semantics lean/Gobptree/Conc.lean (threads parked at `Lock()`
  calls; one step = run to the next park), tied to /repo by replaying every run of the
  shadow copy (sources with only the `sync` import swapped) on the model and comparing
  the complete lock/unlock event logs.  The theorems quantify over EVERY initial tree,
  EVERY finite family of client programs and EVERY schedule (`Reachable`).

  `dead = false` excludes configurations in which a thread panicked (a Go panic leaves
  non-deferred locks held; absence of panics for single-threaded use is C01, for order ≥ 4).
-/
import Gobptree.Proofs.ConcReach
import Gobptree.Proofs.CSFinal
import Gobptree.Proofs.CClean

namespace Gobptree.Conc
open Gobptree

variable {K V : Type}

/-- **C09, bookkeeping invariant.** In every reachable configuration every thread holds
    exactly (up to order) its open cursor's leaf plus the locks its park position
    prescribes (`kontHeld`): the held set is a function of the program position alone. -/
theorem C09_held_by_position (P : Params K) (tree : Tree K V) (progs : List (List (COp K V)))
    (c : Config K V) (hr : Reachable (Config.init P tree progs) c) (hd : c.dead = false) :
    ∀ th ∈ c.threads, List.Perm th.held (cursorLocks th.cursor ++ parkHeld th.park) :=
  fun th hth => (reachable_ok _ c (init_ok P tree progs) hr hd th hth).1

/-- **C09 (locks released).** A thread whose program has run to completion — every one
    of its Insert/Update/Delete/Search calls has returned, on whatever path: root split
    left or right, child split left or right, borrow, merge, absent key — holds nothing
    but the leaf of a cursor it left open. -/
theorem C09_locks_released (P : Params K) (tree : Tree K V) (progs : List (List (COp K V)))
    (c : Config K V) (hr : Reachable (Config.init P tree progs) c) (hd : c.dead = false)
    (th : Thread K V) (hth : th ∈ c.threads) (hfin : th.park = .finished) :
    List.Perm th.held (cursorLocks th.cursor) := by
  have := C09_held_by_position P tree progs c hr hd th hth
  rw [hfin] at this
  simpa [parkHeld] using this

/-- **C09 (after `Scan` returned false / after `Close`).** Once the cursor is exhausted or
    closed (or the thread never opened one) a finished thread holds no lock at all. -/
theorem C09_nothing_after_close (P : Params K) (tree : Tree K V) (progs : List (List (COp K V)))
    (c : Config K V) (hr : Reachable (Config.init P tree progs) c) (hd : c.dead = false)
    (th : Thread K V) (hth : th ∈ c.threads) (hfin : th.park = .finished)
    (hcur : th.cursor = none ∨ ∃ i, th.cursor = some (none, i)) : th.held = [] := by
  have h := C09_locks_released P tree progs c hr hd th hth hfin
  have : cursorLocks th.cursor = [] := by
    rcases hcur with e | ⟨i, e⟩ <;> rw [e] <;> rfl
  rw [this] at h
  exact List.Perm.eq_nil h

/-- **C09 (an open cursor holds exactly one leaf).** -/
theorem C09_cursor_one_leaf (P : Params K) (tree : Tree K V) (progs : List (List (COp K V)))
    (c : Config K V) (hr : Reachable (Config.init P tree progs) c) (hd : c.dead = false)
    (th : Thread K V) (hth : th ∈ c.threads) (hfin : th.park = .finished)
    (leaf : Nat) (i : Int) (hcur : th.cursor = some (some leaf, i)) : th.held = [.node leaf] := by
  have h := C09_locks_released P tree progs c hr hd th hth hfin
  rw [hcur] at h
  exact List.perm_singleton.mp h

/-- **C09 (between calls).** A thread resting between two calls (client `pause`) holds
    exactly its open cursor's leaf, or nothing. -/
theorem C09_between_calls (P : Params K) (tree : Tree K V) (progs : List (List (COp K V)))
    (c : Config K V) (hr : Reachable (Config.init P tree progs) c) (hd : c.dead = false)
    (th : Thread K V) (hth : th ∈ c.threads) (hp : th.park = .yielded .paused) :
    List.Perm th.held (cursorLocks th.cursor) := by
  have := C09_held_by_position P tree progs c hr hd th hth
  rw [hp] at this
  simpa [parkHeld, kontHeld] using this

/-- non-vacuity: the initial configuration satisfies the invariant and is reachable -/
example (P : Params K) (tree : Tree K V) (progs : List (List (COp K V))) :
    Reachable (Config.init P tree progs) (Config.init P tree progs) ∧ (Config.init P tree progs).dead = false :=
  ⟨.refl, rfl⟩

/-- **C09 (no panic, so the bookkeeping is unconditional).** For disciplined clients on a
    tree satisfying the structural invariant the hypothesis `dead = false` of the theorems
    above always holds: every thread holds exactly its cursor's leaf plus the locks of its
    park position, in every reachable configuration. -/
theorem C09_held_by_position_always (P : Params K) (tree : Tree K V) (progs : List (List (COp K V)))
    (ht : TreeOk none tree) (ho : tree.order = P.order) (hp : PadOk P) (hd : Disciplined progs)
    (hdel : 4 ≤ tree.order ∨ NoDelete progs)
    (c : Config K V) (hr : Reachable (Config.init P tree progs) c) :
    ∀ th ∈ c.threads, List.Perm th.held (cursorLocks th.cursor ++ parkHeld th.park) :=
  C09_held_by_position P tree progs c hr (reachable_cinv P tree progs ht ho hp hd hdel c hr).alive

/-- **C09 (afterwards every operation on any key completes).** Whenever some thread still
    has work to do and no thread has ended with an open cursor — in particular after any
    number of operations have returned, whatever paths they took — some thread can take a
    step: no lock left behind can block the rest (this is deadlock freedom, C06). -/
theorem C09_then_completes (P : Params K) (tree : Tree K V) (progs : List (List (COp K V)))
    (ht : TreeOk none tree) (ho : tree.order = P.order) (hp : PadOk P) (hd : Disciplined progs)
    (hdel : 4 ≤ tree.order ∨ NoDelete progs)
    (c : Config K V) (hr : Reachable (Config.init P tree progs) c)
    (hfin : FinishedClean c) (hu : c.unfinished = true) : c.enabledSet ≠ [] :=
  let hinv := reachable_cinv P tree progs ht ho hp hd hdel c hr
  ranked_not_deadlocked (posRank c.tree) c hinv.s.owner (sinv_ranked c hinv.s) hfin hu

/-- **C09 (afterwards EVERY operation completes; nothing is left behind).** For programs that
    close their cursors (`Closing`: the static form of "Close is eventually called"; it may be
    called at any position and more than once), from any reachable configuration — after any
    operations, whatever paths they took — every schedule extended until nothing is enabled ends,
    within `termBound c` steps, with every operation of every thread returned, the owner table
    empty and every thread's held list empty. -/
theorem C09_all_complete_nothing_held (P : Params K) (tree : Tree K V) (progs : List (List (COp K V)))
    (ht : TreeOk none tree) (ho : tree.order = P.order) (hp : PadOk P)
    (hcl : Closing progs) (hdel : 4 ≤ tree.order ∨ NoDelete progs)
    (c : Config K V) (hr : Reachable (Config.init P tree progs) c)
    (ts : List Nat) (c' : Config K V) (hrun : c.run ts = (c', none)) (hstuck : c'.enabledSet = []) :
    ts.length ≤ termBound c ∧ c'.unfinished = false ∧ c'.owner = [] ∧ ∀ th ∈ c'.threads, th.held = [] :=
  ⟨executions_bounded_explicit P tree progs ht ho hp hcl.disciplined hdel c hr ts c' hrun,
   all_operations_return_closing P tree progs ht ho hp hcl hdel c hr ts c' hrun hstuck,
   nothing_held_at_end P tree progs ht ho hp hcl hdel c hr ts c' hrun hstuck⟩

/-- a thread that has run off the end of a closing program holds no mutex, in EVERY reachable
    configuration (not only at the end) -/
theorem C09_finished_thread_holds_nothing (P : Params K) (tree : Tree K V) (progs : List (List (COp K V)))
    (ht : TreeOk none tree) (ho : tree.order = P.order) (hp : PadOk P) (hcl : Closing progs)
    (hdel : 4 ≤ tree.order ∨ NoDelete progs)
    (c : Config K V) (hr : Reachable (Config.init P tree progs) c) :
    ∀ th ∈ c.threads, th.park = .finished → th.held = [] :=
  reachable_finishedClean P tree progs ht ho hp hcl hdel c hr

end Gobptree.Conc

#print axioms Gobptree.Conc.C09_held_by_position
#print axioms Gobptree.Conc.C09_locks_released
#print axioms Gobptree.Conc.C09_nothing_after_close
#print axioms Gobptree.Conc.C09_cursor_one_leaf
#print axioms Gobptree.Conc.C09_between_calls
#print axioms Gobptree.Conc.C09_held_by_position_always
#print axioms Gobptree.Conc.C09_then_completes
#print axioms Gobptree.Conc.C09_all_complete_nothing_held
#print axioms Gobptree.Conc.C09_finished_thread_holds_nothing
