/-
  C03 — concurrent Insert/Update/Delete/Search are linearizable.

  Model: Conc.lean (small-step, lock-acquisition granularity).  Status: the FULL
  statement is kept below as a definition (`C03_linearizable_statement`) and is NOT yet
  proved in Lean; it is decided on the implementation side by the linearizability
  checker over all schedules of a catalogue and tens of thousands of random schedules,
  and the model is tied to the code by the event-log replay.  Proved here: the
  sequential specialisation (every single-threaded history refines the map: C01), and
  the facts about the model that the linearisation-point argument rests on: a Search
  never modifies the tree under any schedule, and every thread's held locks are those
  of its program position (C09/C10).
-/
import Gobptree.Proofs.ConcReach
import Gobptree.Run

namespace Gobptree.Conc
open Gobptree

variable {K V : Type}

/-! ### histories and linearizability (Herlihy–Wing) -/

/-- a completed point operation extracted from the log: thread, index, the operation, its
    result, positions of invocation and response in the chronological log -/
structure HOp (K V : Type) where
  tid : Nat
  idx : Nat
  op  : Op K V
  out : Out V
  inv : Nat
  ret : Nat

/-- a total order of the operations is a linearisation if it respects real time and is a
    legal sequential history of the map specification from the initial contents -/
def IsLinearization (lt : K → K → Bool) (init : List (K × V)) (ops : List (HOp K V)) (ord : List (HOp K V)) : Prop :=
  List.Perm ops ord ∧
  (∀ i j (hi : i < ord.length) (hj : j < ord.length), ord[i].ret < ord[j].inv → i < j) ∧
  (Spec.run lt init (ord.map (·.op))).2 = ord.map (·.out)

/-- FULL statement (not proved): for every order ≥ 4, initial tree satisfying the
    invariant, program family of point operations and schedule, the completed operations
    of the history have a linearisation. `history` extracts the `HOp`s from the log. -/
def C03_linearizable_statement (history : Config Nat Nat → List (HOp Nat Nat)) : Prop :=
  ∀ (P : Params Nat) (tree : Tree Nat Nat) (progs : List (List (COp Nat Nat))) (c : Config Nat Nat),
    4 ≤ P.order → P.order % 2 = 0 → tree.order = P.order →
    Reachable (Config.init P tree progs) c → c.dead = false →
    ∃ ord, IsLinearization P.lt tree.abs (history c) ord

/-! ### proved: Search is read-only under every schedule -/

theorem roArrive_tree (P : Params K) (t : Nat) (s : St K V) (sc : Bool) (key : K) (hold : Lk) (n : Nat) :
    (roArrive P t s sc key hold n).1.tree = s.tree := by
  unfold roArrive
  simp only
  split
  · rfl
  · split
    · split
      · rfl
      · split <;> rfl
    · split
      · rfl
      · split <;> rfl

/-- **C03 (partial): Search and NewScanner never write.** Resuming a Search/NewScanner at
    any of its park positions leaves the whole tree (root pointer, every node) unchanged,
    whatever the other threads did in between. -/
theorem C03_search_readonly_partial (P : Params K) (t : Nat) (s : St K V) (sc : Bool) (key : K) :
    (∀ hold want, (resume P t s (.roNode sc key hold want)).1.tree = s.tree) ∧
    (resume P t s (.roTree sc key)).1.tree = s.tree := by
  refine ⟨fun hold want => ?_, rfl⟩
  simp only [resume]
  rw [roArrive_tree]
  rfl

end Gobptree.Conc

#print axioms Gobptree.Conc.C03_search_readonly_partial
