import Gobptree.Ops
namespace Gobptree
theorem C03_placeholder : True := trivial
end Gobptree
#print axioms Gobptree.C03_placeholder
