/-
  C03 — concurrent Insert/Update/Delete/Search are linearizable.

  Model: Conc.lean (small-step, lock-acquisition granularity), tied to the code by the
  event-log replay of every shadow run.

  PROVED (`C03_linearizable`): for every key type and strict weak order, every initial tree
  satisfying the structural, ordering and separator invariants (in particular a fresh tree of
  any even order ≥ 2), every finite family of client programs that respect the cursor
  discipline (Insert, Update, Delete, Search, and cursor sessions alongside) — where the order
  is at least 4 or no program contains a Delete (`hdel`; at order 2 a Delete panics) —
  EVERY number of threads and EVERY schedule:
  the history of invocations and responses recorded in the log (`history c`: an Update's
  response carries the argument its callback received) is linearizable in the sense of
  Herlihy and Wing with respect to the map specification `Spec` — `Lin.Linearizable`: some
  total order of all completed and some pending operations respects real time and replays on
  `Spec` to exactly the responses observed.
  Method: three layers of invariants of the small-step model, each inductive over scheduler
  steps: structural `CInv` (C06/C07/C08); key order `KInv` (ordering `Ord`; every reader is ON
  the search path of its key, every writer additionally inside the interval of the node it
  holds); separators `ISep` (a parent's separator for an inner child is equivalent to the
  child's first separator unless an Insert/Update is in the middle of lowering both — this is
  what repair F7 establishes and what keeps readers on their route when a Delete borrows or
  merges).  Structural blocks (splits, first-separator lowering, borrows, merges, root
  collapse) leave the abstract map unchanged; leaf blocks are `Spec` operations on the leaf
  that is authoritative for the key.  Search/Insert/Update take effect in the step in which
  they return; a Delete in the step that removes the key from its leaf (its unwinding may
  take further steps).  A history decorated with such linearization points is linearizable
  (`LinPoints.lean`, generic).
  Corollaries kept: `C03_linearizable_nodelete_partial` (the stage-B theorem, no separator
  hypothesis), `C03_invariants` (the three invariants in every reachable configuration).
  Modelled, not verified: interleaving at lock-acquisition granularity (DRF-SC of the Go
  memory model + C07); the implementation side is decided by the linearizability checker over
  all schedules of the catalogues and thousands of random schedules.
-/
import Gobptree.Proofs.ConcReach
import Gobptree.Run
import Gobptree.Proofs.CFinal2
import Gobptree.Proofs.CQuiescent

namespace Gobptree.Conc
open Gobptree

variable {K V : Type}

/-! ### linearizability (Herlihy–Wing); definitions in `Proofs/LinPoints.lean` (`Lin.HEv`,
    `Lin.opsOf`, `Lin.IsLinearization`, `Lin.Linearizable`) and `Proofs/CLDefs.lean` (`history`) -/

/-- **C03: concurrent Insert/Update/Delete/Search are linearizable, under every schedule.** -/
theorem C03_linearizable (lt : K → K → Bool) (P : Params K) (tree : Tree K V) (progs : List (List (COp K V)))
    (hkp : KParams lt P) (ht : TreeOk none tree) (hord : OrdTree lt tree) (hsep : SepTree lt tree)
    (ho : tree.order = P.order) (hp : PadOk P) (hd : Disciplined progs)
    (hdel : 4 ≤ tree.order ∨ NoDelete progs)
    (c : Config K V) (hr : Reachable (Config.init P tree progs) c) :
    Lin.Linearizable lt tree.abs (history c) :=
  linearizable_full' lt P tree progs hkp ht hord hsep ho hp hd hdel c hr

/-- **C03: the invariants behind it hold in every reachable configuration**: structure
    (`CInv`), key order and thread positions (`KInv`), separators (`ISep`). -/
theorem C03_invariants (lt : K → K → Bool) (P : Params K) (tree : Tree K V) (progs : List (List (COp K V)))
    (hkp : KParams lt P) (ht : TreeOk none tree) (hord : OrdTree lt tree) (hsep : SepTree lt tree)
    (ho : tree.order = P.order) (hp : PadOk P) (hd : Disciplined progs)
    (hdel : 4 ≤ tree.order ∨ NoDelete progs)
    (c : Config K V) (hr : Reachable (Config.init P tree progs) c) : KFInv lt c :=
  reachable_kfinv' lt P tree progs hkp ht hord hsep ho hp hd hdel c hr

/-- **C03: "every reachable initial tree".** The tree left behind by ANY completed execution
    (no operation in flight) of any family of programs satisfies the three initial-tree
    hypotheses again, so every theorem here applies to every tree that can be built through the
    API — sequentially or concurrently — starting from a fresh one. -/
theorem C03_reachable_trees_are_initial (lt : K → K → Bool) (P : Params K) (tree : Tree K V)
    (progs : List (List (COp K V)))
    (hkp : KParams lt P) (ht : TreeOk none tree) (hord : OrdTree lt tree) (hsep : SepTree lt tree)
    (ho : tree.order = P.order) (hp : PadOk P) (hd : Disciplined progs) (hdel : 4 ≤ tree.order ∨ NoDelete progs)
    (c : Config K V) (hr : Reachable (Config.init P tree progs) c) (hq : AtRest c) :
    TreeOk none c.tree ∧ OrdTree lt c.tree ∧ SepTree lt c.tree ∧ c.tree.order = P.order :=
  reachable_rest_tree_ok lt P tree progs hkp ht hord hsep ho hp hd hdel c hr hq

/-- a fresh tree satisfies all three initial-tree hypotheses, for every even order ≥ 2 and
    every comparison -/
theorem C03_fresh_tree_ok (lt : K → K → Bool) (o : Nat) (h2 : 2 ≤ o) (he : o % 2 = 0) :
    TreeOk none (Tree.new o : Tree K V) ∧ OrdTree lt (Tree.new o : Tree K V) ∧ SepTree lt (Tree.new o : Tree K V) :=
  ⟨new_treeOk o h2 he, new_ordTree lt o, new_sepTree lt o⟩

/-- **C03 (programs without Delete): linearizable under every schedule.** -/
theorem C03_linearizable_nodelete_partial (lt : K → K → Bool) (P : Params K) (tree : Tree K V)
    (progs : List (List (COp K V)))
    (hkp : KParams lt P) (ht : TreeOk none tree) (hord : OrdTree lt tree) (ho : tree.order = P.order)
    (hp : PadOk P) (hd : Disciplined progs) (hnd : NoDelete progs)
    (c : Config K V) (hr : Reachable (Config.init P tree progs) c) :
    Lin.Linearizable lt tree.abs (history c) :=
  linearizable_nodelete' lt P tree progs hkp ht hord ho hp hd hnd c hr

/-- **C03 (programs without Delete): the ordering invariant holds in every reachable
    configuration** — keys ascending in every node, every subtree inside the interval its
    parent's separators assign to it — together with every thread's position on the search
    path of its key. -/
theorem C03_key_order_invariant_partial (lt : K → K → Bool) (P : Params K) (tree : Tree K V)
    (progs : List (List (COp K V)))
    (hkp : KParams lt P) (ht : TreeOk none tree) (hord : OrdTree lt tree) (ho : tree.order = P.order)
    (hp : PadOk P) (hd : Disciplined progs) (hnd : NoDelete progs)
    (c : Config K V) (hr : Reachable (Config.init P tree progs) c) : KInv lt c :=
  reachable_kinv lt P tree progs hkp ht hord ho hp hd hnd c hr

/-- the hypotheses are satisfiable: a fresh tree of order 4 over `Nat` with `<`, and two
    threads inserting, updating and searching -/
example : KParams (fun a b : Nat => decide (a < b)) (Params.mk (fun a b => decide (a < b)) (fun _ => some 0) 4) ∧
    TreeOk none (Tree.new 4 : Tree Nat Nat) ∧ OrdTree (fun a b : Nat => decide (a < b)) (Tree.new 4 : Tree Nat Nat) ∧
    PadOk (Params.mk (fun a b : Nat => decide (a < b)) (fun _ => some 0) 4) ∧
    Disciplined [[COp.ins 1 1, COp.upd 1 (fun _ => 2) false], [COp.get (K := Nat) (V := Nat) 1]] ∧
    NoDelete [[COp.ins 1 1, COp.upd 1 (fun _ => 2) false], [COp.get (K := Nat) (V := Nat) 1]] := by
  refine ⟨⟨⟨?_, ?_, ?_⟩, rfl⟩, new_treeOk 4 (by omega) (by omega), ?_, ?_, ?_, ?_⟩
  · intro a; simp
  · intro a b c h1 h2; simp at *; omega
  · intro a b c h1; simp at *; omega
  · exact ⟨List.Pairwise.nil, fun k hk => by cases hk⟩
  · intro k h; simp at h
  · intro p hp; simp at hp; rcases hp with rfl | rfl <;> rfl
  · intro p hp op hop; simp at hp; rcases hp with rfl | rfl <;> simp at hop <;> rcases hop with rfl | rfl <;> rfl

/-- the hypotheses are satisfiable at ORDER 2 as well: a fresh tree of order 2 over `Nat` with
    `<` and a Delete-free program family satisfy every hypothesis of `C03_linearizable`
    (`hdel` by its right disjunct) -/
example : KParams (fun a b : Nat => decide (a < b)) (Params.mk (fun a b => decide (a < b)) (fun _ => some 0) 2) ∧
    TreeOk none (Tree.new 2 : Tree Nat Nat) ∧ OrdTree (fun a b : Nat => decide (a < b)) (Tree.new 2 : Tree Nat Nat) ∧
    SepTree (fun a b : Nat => decide (a < b)) (Tree.new 2 : Tree Nat Nat) ∧
    (Tree.new 2 : Tree Nat Nat).order = (Params.mk (fun a b : Nat => decide (a < b)) (fun _ => some 0) 2).order ∧
    PadOk (Params.mk (fun a b : Nat => decide (a < b)) (fun _ => some 0) 2) ∧
    Disciplined [[COp.ins 1 1, COp.upd 1 (fun _ => 2) false], [COp.get (K := Nat) (V := Nat) 1]] ∧
    (4 ≤ (Tree.new 2 : Tree Nat Nat).order ∨
      NoDelete [[COp.ins 1 1, COp.upd 1 (fun _ => 2) false], [COp.get (K := Nat) (V := Nat) 1]]) := by
  obtain ⟨h1, h2, h3⟩ := C03_fresh_tree_ok (K := Nat) (V := Nat) (fun a b : Nat => decide (a < b)) 2 (by omega) (by omega)
  refine ⟨⟨⟨?_, ?_, ?_⟩, rfl⟩, h1, h2, h3, rfl, ?_, ?_, Or.inr ?_⟩
  · intro a; simp
  · intro a b c h1 h2; simp at *; omega
  · intro a b c h1; simp at *; omega
  · intro k h; simp at h
  · intro p hp; simp at hp; rcases hp with rfl | rfl <;> rfl
  · intro p hp op hop; simp at hp; rcases hp with rfl | rfl <;> simp at hop <;> rcases hop with rfl | rfl <;> rfl

/-- hence at order 2, for a Delete-free family, every reachable history is linearizable -/
example (c : Config Nat Nat)
    (hr : Reachable (Config.init (Params.mk (fun a b : Nat => decide (a < b)) (fun _ => some 0) 2) (Tree.new 2)
      [[COp.ins 1 1, COp.upd 1 (fun _ => 2) false], [COp.get (K := Nat) (V := Nat) 1]]) c) :
    Lin.Linearizable (fun a b : Nat => decide (a < b)) (Tree.new 2 : Tree Nat Nat).abs (history c) := by
  obtain ⟨h1, h2, h3⟩ := C03_fresh_tree_ok (K := Nat) (V := Nat) (fun a b : Nat => decide (a < b)) 2 (by omega) (by omega)
  refine C03_linearizable _ _ _ _ ⟨⟨?_, ?_, ?_⟩, rfl⟩ h1 h2 h3 rfl ?_ ?_ (Or.inr ?_) c hr
  · intro a; simp
  · intro a b c h1 h2; simp at *; omega
  · intro a b c h1; simp at *; omega
  · intro k h; simp at h
  · intro p hp; simp at hp; rcases hp with rfl | rfl <;> rfl
  · intro p hp op hop; simp at hp; rcases hp with rfl | rfl <;> simp at hop <;> rcases hop with rfl | rfl <;> rfl

/-! ### proved: Search is read-only under every schedule -/

theorem roArrive_treeRO (P : Params K) (t : Nat) (s : St K V) (sc : Bool) (key : K) (hold : Lk) (n : Nat) :
    (roArrive P t s sc key hold n).1.tree = s.tree := by
  unfold roArrive
  simp only
  split
  · rfl
  · split
    · split
      · rfl
      · split <;> rfl
    · split
      · rfl
      · split <;> rfl

/-- **C03 (partial): Search and NewScanner never write.** Resuming a Search/NewScanner at
    any of its park positions leaves the whole tree (root pointer, every node) unchanged,
    whatever the other threads did in between. -/
theorem C03_search_readonly_partial (P : Params K) (t : Nat) (s : St K V) (sc : Bool) (key : K) :
    (∀ hold want, (resume P t s (.roNode sc key hold want)).1.tree = s.tree) ∧
    (resume P t s (.roTree sc key)).1.tree = s.tree := by
  refine ⟨fun hold want => ?_, rfl⟩
  simp only [resume]
  rw [roArrive_treeRO]
  rfl

/-- instance WITH Delete at order 4: three threads — a writer that inserts and deletes, an
    updater, and a cursor session next to a search — from a fresh tree; every reachable
    configuration's history is linearizable -/
example (c : Config Nat Nat)
    (hr : Reachable (Config.init (Params.mk (fun a b : Nat => decide (a < b)) (fun _ => some 0) 4) (Tree.new 4)
      [[COp.ins 1 1, COp.del 1, COp.ins 2 2], [COp.upd 1 (fun _ => 2) true, COp.del 2],
       [COp.ns (K := Nat) (V := Nat) 0, COp.scan, COp.pair, COp.close, COp.get 1]]) c) :
    Lin.Linearizable (fun a b : Nat => decide (a < b)) (Tree.new 4 : Tree Nat Nat).abs (history c) := by
  obtain ⟨h1, h2, h3⟩ := C03_fresh_tree_ok (K := Nat) (V := Nat) (fun a b : Nat => decide (a < b)) 4 (by omega) (by omega)
  refine C03_linearizable _ _ _ _ ⟨⟨?_, ?_, ?_⟩, rfl⟩ h1 h2 h3 rfl ?_ ?_ (Or.inl (by show 4 ≤ 4; omega)) c hr
  · intro a; simp
  · intro a b c h1 h2; simp at *; omega
  · intro a b c h1; simp at *; omega
  · intro k h; simp at h
  · intro p hp; simp at hp; rcases hp with rfl | rfl | rfl <;> rfl

end Gobptree.Conc

#print axioms Gobptree.Conc.C03_search_readonly_partial
#print axioms Gobptree.Conc.C03_linearizable_nodelete_partial
#print axioms Gobptree.Conc.C03_key_order_invariant_partial
#print axioms Gobptree.Conc.C03_linearizable
#print axioms Gobptree.Conc.C03_invariants
#print axioms Gobptree.Conc.C03_fresh_tree_ok
#print axioms Gobptree.Conc.C03_reachable_trees_are_initial
