/-
  C03 — concurrent Insert/Update/Delete/Search are linearizable.

  Model: Conc.lean (small-step, lock-acquisition granularity), tied to the code by the
  event-log replay of every shadow run.

  PROVED so far (`C03_linearizable_nodelete_partial`): for every key type and strict weak
  order, every initial tree satisfying the structural and the ordering invariant (in
  particular a fresh tree), every finite family of client programs WITHOUT Delete that respect
  the cursor discipline (Insert, Update, Search, and cursor sessions alongside), EVERY number
  of threads and EVERY schedule: the history of invocations and responses recorded in the log
  (`history c`: an Update's response carries the argument its callback received) is
  linearizable in the sense of Herlihy and Wing with respect to the map specification
  `Spec` — `Lin.Linearizable`: some total order of all completed and some pending operations
  respects real time and replays on `Spec` to exactly the responses observed.
  Method: the key-order invariant `KInv` (ordering `Ord`; every reader is ON the search path
  of its key, every writer additionally inside the interval of the node it holds) is
  inductive on top of the structural invariant (`step_kinv_nodel`); structural blocks
  (splits, first-separator lowering) leave the abstract map unchanged and leaf blocks are
  `Spec` operations on the leaf that is authoritative for the key (`resume_kpost_U`); every
  map operation takes effect in the step in which it returns (`CLin.lean`); a history
  decorated with such linearization points is linearizable (`LinPoints.lean`, generic).
  The FULL statement with Delete (`C03_linearizable_statement`) additionally needs the
  separator invariant `ISep` (stage C, in progress); it is decided on the implementation
  side by the linearizability checker over all schedules of a catalogue and thousands of
  random schedules.
-/
import Gobptree.Proofs.ConcReach
import Gobptree.Run
import Gobptree.Proofs.CFinal

namespace Gobptree.Conc
open Gobptree

variable {K V : Type}

/-! ### linearizability (Herlihy–Wing); definitions in `Proofs/LinPoints.lean` (`Lin.HEv`,
    `Lin.opsOf`, `Lin.IsLinearization`, `Lin.Linearizable`) and `Proofs/CLDefs.lean` (`history`) -/

/-- FULL statement (with Delete; not yet a theorem) -/
def C03_linearizable_statement : Prop :=
  ∀ (lt : Nat → Nat → Bool) (P : Params Nat) (tree : Tree Nat Nat) (progs : List (List (COp Nat Nat))) (c : Config Nat Nat),
    KParams lt P → TreeOk none tree → OrdTree lt tree → tree.order = P.order → PadOk P → Disciplined progs →
    Reachable (Config.init P tree progs) c → Lin.Linearizable lt tree.abs (history c)

/-- **C03 (programs without Delete): linearizable under every schedule.** -/
theorem C03_linearizable_nodelete_partial (lt : K → K → Bool) (P : Params K) (tree : Tree K V)
    (progs : List (List (COp K V)))
    (hkp : KParams lt P) (ht : TreeOk none tree) (hord : OrdTree lt tree) (ho : tree.order = P.order)
    (hp : PadOk P) (hd : Disciplined progs) (hnd : NoDelete progs)
    (c : Config K V) (hr : Reachable (Config.init P tree progs) c) :
    Lin.Linearizable lt tree.abs (history c) :=
  linearizable_nodelete' lt P tree progs hkp ht hord ho hp hd hnd c hr

/-- **C03 (programs without Delete): the ordering invariant holds in every reachable
    configuration** — keys ascending in every node, every subtree inside the interval its
    parent's separators assign to it — together with every thread's position on the search
    path of its key. -/
theorem C03_key_order_invariant_partial (lt : K → K → Bool) (P : Params K) (tree : Tree K V)
    (progs : List (List (COp K V)))
    (hkp : KParams lt P) (ht : TreeOk none tree) (hord : OrdTree lt tree) (ho : tree.order = P.order)
    (hp : PadOk P) (hd : Disciplined progs) (hnd : NoDelete progs)
    (c : Config K V) (hr : Reachable (Config.init P tree progs) c) : KInv lt c :=
  reachable_kinv lt P tree progs hkp ht hord ho hp hd hnd c hr

/-- the hypotheses are satisfiable: a fresh tree of order 4 over `Nat` with `<`, and two
    threads inserting, updating and searching -/
example : KParams (fun a b : Nat => decide (a < b)) (Params.mk (fun a b => decide (a < b)) (fun _ => some 0) 4) ∧
    TreeOk none (Tree.new 4 : Tree Nat Nat) ∧ OrdTree (fun a b : Nat => decide (a < b)) (Tree.new 4 : Tree Nat Nat) ∧
    PadOk (Params.mk (fun a b : Nat => decide (a < b)) (fun _ => some 0) 4) ∧
    Disciplined [[COp.ins 1 1, COp.upd 1 (fun _ => 2) false], [COp.get (K := Nat) (V := Nat) 1]] ∧
    NoDelete [[COp.ins 1 1, COp.upd 1 (fun _ => 2) false], [COp.get (K := Nat) (V := Nat) 1]] := by
  refine ⟨⟨⟨?_, ?_, ?_⟩, rfl⟩, new_treeOk 4 (by omega) (by omega), ?_, ?_, ?_, ?_⟩
  · intro a; simp
  · intro a b c h1 h2; simp at *; omega
  · intro a b c h1; simp at *; omega
  · exact ⟨List.Pairwise.nil, fun k hk => by cases hk⟩
  · intro k h; simp at h
  · intro p hp; simp at hp; rcases hp with rfl | rfl <;> rfl
  · intro p hp op hop; simp at hp; rcases hp with rfl | rfl <;> simp at hop <;> rcases hop with rfl | rfl <;> rfl

/-! ### proved: Search is read-only under every schedule -/

theorem roArrive_tree (P : Params K) (t : Nat) (s : St K V) (sc : Bool) (key : K) (hold : Lk) (n : Nat) :
    (roArrive P t s sc key hold n).1.tree = s.tree := by
  unfold roArrive
  simp only
  split
  · rfl
  · split
    · split
      · rfl
      · split <;> rfl
    · split
      · rfl
      · split <;> rfl

/-- **C03 (partial): Search and NewScanner never write.** Resuming a Search/NewScanner at
    any of its park positions leaves the whole tree (root pointer, every node) unchanged,
    whatever the other threads did in between. -/
theorem C03_search_readonly_partial (P : Params K) (t : Nat) (s : St K V) (sc : Bool) (key : K) :
    (∀ hold want, (resume P t s (.roNode sc key hold want)).1.tree = s.tree) ∧
    (resume P t s (.roTree sc key)).1.tree = s.tree := by
  refine ⟨fun hold want => ?_, rfl⟩
  simp only [resume]
  rw [roArrive_tree]
  rfl

end Gobptree.Conc

#print axioms Gobptree.Conc.C03_search_readonly_partial
#print axioms Gobptree.Conc.C03_linearizable_nodelete_partial
#print axioms Gobptree.Conc.C03_key_order_invariant_partial
