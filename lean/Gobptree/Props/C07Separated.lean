/-
  C07, the premise of the memory-model argument as a theorem about the log.  The Go memory model
  orders an Unlock of a mutex before a later Lock of the same mutex (assumed, outside the model).
  What the model must deliver for that rule to give data-race freedom: any two steps of DIFFERENT
  threads that may access the same node (or the root pointer) — by the read and write frames, two
  steps whose `stepHeld` sets share a mutex `l` — are separated in the log by `rel t1 l` and a later
  `acq t2 l`.  `Proofs/CSeparated*.lean`; also a log-level "mutual exclusion at every instant"
  (`reachable_heldlogok`: replaying the log, no mutex is ever held by two threads).
-/
import Gobptree.Proofs.CSeparated

namespace Gobptree.Conc
open Gobptree

variable {K V : Type}

/-- **C07 (conflicting steps are separated by an unlock and a later lock of one mutex).** Step A of
    thread `t1` and a later step B of a different thread `t2` both run under the mutex `l`.  Then
    the log after step B reads (newest first) `xs ++ acq t2 l :: ys ++ rel t1 l :: zs` where the
    release is newer than the scheduler decision that opened step A and the acquisition is not
    newer than the lock grant that opens step B (what step B logs after it are releases and notes
    only).  `Separated` says in addition that `t2` holds `l` continuously from that acquisition to
    step B and that `t1` does not hold `l` anywhere between the release and the acquisition. -/
theorem C07_conflicting_steps_separated (P : Params K) (tree : Tree K V) (progs : List (List (COp K V)))
    (ht : TreeOk none tree) (ho : tree.order = P.order) (hp : PadOk P) (hd : Disciplined progs)
    (hdel : 4 ≤ tree.order ∨ NoDelete progs)
    {cA cA' cB cB' : Config K V} {t1 t2 : Nat} {th1 th2 : Thread K V} {l : Lk}
    (hrA : Reachable (Config.init P tree progs) cA) (hA : cA.step t1 = some cA')
    (hAB : Reachable cA' cB) (hB : cB.step t2 = some cB')
    (hne : t1 ≠ t2) (h1 : cA.threads[t1]? = some th1) (h2 : cB.threads[t2]? = some th2)
    (hl1 : l ∈ stepHeld th1) (hl2 : l ∈ stepHeld th2) :
    Separated cA cB cB' t1 t2 th1 th2 l ∧
    ∃ xs ys zs, cB'.log = xs ++ (Ev.acq t2 l :: (ys ++ (Ev.rel t1 l :: zs))) ∧
      (∃ w, zs = w ++ (Ev.dec t1 cA.enabledSet :: cA.log)) ∧
      (∃ newB xs0, xs = newB ++ xs0 ∧ OnlyRel t2 newB ∧
        xs0 ++ (Ev.acq t2 l :: (ys ++ (Ev.rel t1 l :: zs))) = grantLog cB t2 th2) :=
  let s := separated P tree progs ht ho hp hd hdel hrA hA hAB hB hne h1 h2 hl1 hl2
  ⟨s, s.split⟩

/-- **C07 (mutual exclusion at every instant of the log).** Replaying the lock events of the log of
    any reachable configuration in which no thread panicked: each thread's replayed held set is its
    held list, and at no suffix of the log is a mutex held by two threads. -/
theorem C07_log_exclusion (P : Params K) (tree : Tree K V) (progs : List (List (COp K V)))
    (c : Config K V) (hr : Reachable (Config.init P tree progs) c) (hd : c.dead = false) :
    HeldLogOk c :=
  reachable_heldlogok P tree progs c hr hd

end Gobptree.Conc

#print axioms Gobptree.Conc.C07_conflicting_steps_separated
#print axioms Gobptree.Conc.C07_log_exclusion
