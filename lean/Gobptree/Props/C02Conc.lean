/-
  C02 after concurrent use.  `Props/C02.lean` proves exact scans for every tree satisfying the
  SEQUENTIAL invariants `TreeInv`/`IdsInv` (reached by single-threaded histories).  The bridge
  (`Proofs/CBridge.lean`) shows that the tree left behind by ANY concurrent execution of the
  small-step model that has come to rest satisfies them, so the scan guarantee does not depend
  on how the tree was built.  Own module: the bridge imports `Props/C02.lean`.
-/
import Gobptree.Proofs.CBridge

namespace Gobptree.Conc
open Gobptree

variable {K V : Type}

/-- **C02 (after any concurrent history).** Disciplined programs run concurrently, under any
    schedule, on a tree satisfying the invariants (e.g. a fresh one); once every operation has
    returned and every cursor is closed, a scan from any start key yields exactly the stored
    pairs with key ≥ start, ascending, once each, and ends with `Scan() = false`. -/
theorem C02_scan_exact_after_concurrent (lt : K → K → Bool) (P : Params K) (tree : Tree K V)
    (progs : List (List (COp K V)))
    (hkp : KParams lt P) (ht : TreeOk none tree) (hord : OrdTree lt tree) (hsep : SepTree lt tree)
    (ho : tree.order = P.order) (hp : PadOk P) (hd : Disciplined progs) (hdel : 4 ≤ tree.order ∨ NoDelete progs)
    (c : Config K V) (hr : Reachable (Config.init P tree progs) c) (hq : AtRest c) (s : K) :
    ∃ fuel, c.tree.scanFrom P {} s none fuel = .ok (Spec.from lt c.tree.abs s, true) :=
  scan_exact_after_concurrent' lt P tree progs hkp ht hord hsep ho hp hd hdel c hr hq s

/-- the hypotheses on the initial tree are satisfiable: every fresh tree of even order ≥ 2 -/
theorem C02_scan_exact_after_concurrent_fresh (lt : K → K → Bool) (P : Params K)
    (progs : List (List (COp K V))) (hkp : KParams lt P) (h2 : 2 ≤ P.order) (he : P.order % 2 = 0)
    (hp : PadOk P) (hd : Disciplined progs) (hdel : 4 ≤ P.order ∨ NoDelete progs)
    (c : Config K V) (hr : Reachable (Config.init P (Tree.new P.order) progs) c) (hq : AtRest c) (s : K) :
    ∃ fuel, c.tree.scanFrom P {} s none fuel = .ok (Spec.from lt c.tree.abs s, true) :=
  scan_exact_after_concurrent_fresh lt P progs hkp h2 he hp hd hdel c hr hq s

end Gobptree.Conc

#print axioms Gobptree.Conc.C02_scan_exact_after_concurrent
#print axioms Gobptree.Conc.C02_scan_exact_after_concurrent_fresh
