/-
  C12 — constructors accept exactly the powers of two ≥ 2.

  `Generated.checkOrderGen` is REGENERATED from /repo/order.go on every run by
  harness/cmd/gen_order (Go `int` = 64-bit two's complement): the theorem below is
  about what the code says now.
-/
import Gobptree.Generated.CheckOrder
import Gobptree.Proofs.RunOk

namespace Gobptree

/-- Signed `2 ≤ x` on 64-bit two's complement, in terms of `toNat`. -/
theorem C12_sle_two_iff (x : BitVec 64) :
    BitVec.sle (2#64) x = true ↔ 2 ≤ x.toNat ∧ x.toNat < 2 ^ 63 := by
  have hx := x.isLt
  simp only [BitVec.sle, BitVec.toInt_eq_toNat_cond, decide_eq_true_eq]
  simp only [BitVec.toNat_ofNat]
  split <;> omega

theorem C12_toNat_sub_one (x : BitVec 64) (h : 1 ≤ x.toNat) :
    (x - 1#64).toNat = x.toNat - 1 := by
  have hx := x.isLt
  rw [BitVec.toNat_sub]
  simp only [BitVec.toNat_ofNat]
  omega

theorem C12_and_eq_zero_iff (x : BitVec 64) (h : 1 ≤ x.toNat) :
    ((x &&& (x - 1#64)) == 0#64) = true ↔ x.toNat &&& (x.toNat - 1) = 0 := by
  rw [beq_iff_eq, ← BitVec.toNat_inj, BitVec.toNat_and, C12_toNat_sub_one x h]
  simp

/-- the acceptance condition in canonical form -/
def C12_canon (x : BitVec 64) : Bool := BitVec.sle (2#64) x && ((x &&& (x - 1#64)) == 0#64)

theorem C12_slt_eq_not_sle (x y : BitVec 64) : BitVec.slt x y = !BitVec.sle y x := by
  simp only [BitVec.slt, BitVec.sle]
  by_cases h : x.toInt < y.toInt
  · have : ¬ y.toInt ≤ x.toInt := by omega
    simp [h, this]
  · have : y.toInt ≤ x.toInt := by omega
    simp [h, this]

/-- whatever boolean combination of the two atoms `2 ≤ order` / `order < 2` and
    `order & (order-1) == 0` / `!= 0` the source uses (the original `if ok { return nil }`, the
    guard-clause form `if !ok { return err }`, De Morgan variants), the regenerated definition
    equals the canonical one: decided by normalising the comparisons and a truth table -/
theorem C12_gen_eq_canon (x : BitVec 64) : Generated.checkOrderGen x = C12_canon x := by
  unfold Generated.checkOrderGen C12_canon
  first
    | rfl
    | (simp only [C12_slt_eq_not_sle, bne]
       cases BitVec.sle (2#64) x <;> cases ((x &&& (x - 1#64)) == 0#64) <;> rfl)

/-- **C12 (validation).** `checkOrder(order) == nil` exactly for the powers of two
    `2^1 … 2^62` (the positive powers of two representable in a Go `int`). -/
theorem C12_checkOrder (x : BitVec 64) :
    Generated.checkOrderGen x = true ↔ ∃ n : Nat, 1 ≤ n ∧ n ≤ 62 ∧ x = BitVec.ofNat 64 (2 ^ n) := by
  rw [C12_gen_eq_canon]
  unfold C12_canon
  rw [Bool.and_eq_true, C12_sle_two_iff]
  constructor
  · rintro ⟨⟨h2, h63⟩, hand⟩
    rw [C12_and_eq_zero_iff x (by omega),
      Nat.and_sub_one_eq_zero_iff_isPowerOfTwo (by omega)] at hand
    obtain ⟨n, hn⟩ := hand
    rw [hn] at h2 h63
    have hn63 : n < 63 := (Nat.pow_lt_pow_iff_right (by decide)).1 h63
    have hn1 : 1 ≤ n := by
      rcases Nat.eq_zero_or_pos n with h0 | h0
      · subst h0; simp at h2
      · exact h0
    refine ⟨n, hn1, by omega, ?_⟩
    apply BitVec.eq_of_toNat_eq
    rw [BitVec.toNat_ofNat, hn]
    exact (Nat.mod_eq_of_lt (Nat.pow_lt_pow_right (by decide) (by omega))).symm
  · rintro ⟨n, hn1, hn62, rfl⟩
    have hlt : 2 ^ n < 2 ^ 64 := Nat.pow_lt_pow_right (by decide) (by omega)
    have htn : (BitVec.ofNat 64 (2 ^ n)).toNat = 2 ^ n := by
      rw [BitVec.toNat_ofNat]; exact Nat.mod_eq_of_lt hlt
    have hge : 2 ^ 1 ≤ 2 ^ n := Nat.pow_le_pow_right (by decide) hn1
    have hlt63 : 2 ^ n < 2 ^ 63 := Nat.pow_lt_pow_right (by decide) (by omega)
    refine ⟨⟨by rw [htn]; exact hge, by rw [htn]; exact hlt63⟩, ?_⟩
    rw [C12_and_eq_zero_iff _ (by rw [htn]; omega), htn,
      Nat.and_sub_one_eq_zero_iff_isPowerOfTwo (by omega)]
    exact ⟨n, rfl⟩


/-- an accepted order, as the natural number the tree stores -/
theorem C12_accepted_shape (x : BitVec 64) (hacc : Generated.checkOrderGen x = true) :
    2 ≤ x.toNat ∧ x.toNat % 2 = 0 ∧ ∃ n, 1 ≤ n ∧ x.toNat = 2 ^ n := by
  obtain ⟨n, h1, h62, hx⟩ := (C12_checkOrder x).mp hacc
  have hlt : 2 ^ n < 2 ^ 64 := Nat.pow_lt_pow_right (by decide) (by omega)
  have htn : x.toNat = 2 ^ n := by rw [hx, BitVec.toNat_ofNat, Nat.mod_eq_of_lt hlt]
  obtain ⟨m, rfl⟩ : ∃ m, n = m + 1 := ⟨n - 1, by omega⟩
  refine ⟨?_, ?_, m + 1, h1, htn⟩
  · rw [htn, Nat.pow_succ]; have : 1 ≤ 2 ^ m := Nat.one_le_two_pow; omega
  · rw [htn, Nat.pow_succ]; omega

/-- **C12 (construction).** On acceptance the constructor's tree is empty and satisfies the
    invariant, and the accepted order meets the hypotheses (`2 ≤ order`, `order` even) under
    which C01/C05/C08 are proved: the dependence of splitting on an even order is discharged
    by the validation itself. -/
theorem C12_new {K V : Type} (lt : K → K → Bool) (x : BitVec 64) (hacc : Generated.checkOrderGen x = true) :
    TreeInv lt (Tree.new x.toNat : Tree K V) ∧ (Tree.new x.toNat : Tree K V).abs = [] ∧
    (Tree.new x.toNat : Tree K V).order = x.toNat ∧ 2 ≤ x.toNat ∧ x.toNat % 2 = 0 := by
  obtain ⟨h2, hev, _⟩ := C12_accepted_shape x hacc
  obtain ⟨hinv, hnil⟩ := new_ok (lt := lt) (K := K) (V := V) x.toNat
  exact ⟨hinv, by rw [Tree.abs_eq_pairs]; exact hnil, rfl, h2, hev⟩

/-- **C12 (rejection).** Zero, negative and odd orders and every other non-power of two are
    rejected (no tree is built: the driver and the Go constructors return before allocating). -/
theorem C12_rejects (x : BitVec 64) (hn : ¬ ∃ n : Nat, 1 ≤ n ∧ n ≤ 62 ∧ x = BitVec.ofNat 64 (2 ^ n)) :
    Generated.checkOrderGen x = false := by
  cases hc : Generated.checkOrderGen x with
  | false => rfl
  | true => exact absurd ((C12_checkOrder x).mp hc) hn

/-- **C12 (independence).** Trees are values: an operation on one tree cannot change another
    (the model has no state outside the `Tree` value; that the implementation has no
    package-level state and allocates a fresh root per constructor call is an extracted
    fact, checked on the sources on every run). -/
theorem C12_independent {K V : Type} (P : Params K) (t1 t2 : Tree K V) (op : Op K V) :
    ∀ r, (do let r1 ← t1.step P op; pure (r1, t2) : R ((Tree K V × Out V) × Tree K V)) = .ok r → r.2 = t2 := by
  intro r hr
  simp only [bind, Except.bind, pure, Except.pure] at hr
  split at hr
  · exact absurd hr (by simp)
  · simp only [Except.ok.injEq] at hr; rw [← hr]

end Gobptree

#print axioms Gobptree.C12_checkOrder

#print axioms Gobptree.C12_accepted_shape
#print axioms Gobptree.C12_new
#print axioms Gobptree.C12_rejects
#print axioms Gobptree.C12_independent
