import Gobptree.Ops
namespace Gobptree
theorem C12_placeholder : True := trivial
end Gobptree
#print axioms Gobptree.C12_placeholder
