/-
  C03, the "in particular" clauses: "no completed Insert or Update is lost, no deleted key
  reappears, and a Search never misses a key that is present throughout the Search" — for every
  family of disciplined programs, every number of threads, every schedule, every initial tree
  satisfying the invariants (hypotheses of `C03_linearizable`).  Proofs: `Proofs/CNoLoss*.lean`.

  A run is the list of configurations visited, newest first (`RunFrom init (c :: hist)`).
  `CallAt progs t i cop`: call `i` of thread `t` is `cop`.  `CallInvoked d t i` / `CallReturned d t i`:
  the client-visible history of `d` holds the invocation / response of `(t, i)` (for an Insert,
  Delete or Search: its `inv` / `ret` note is in `d.log`, `invoked_iff_note`, `returned_of_note_*`;
  for any map operation: the thread has moved past it, `returned_of_past`).
  `OutOfTheWay run c t' i' t i`: the call `(t', i')` has not been invoked in `c`; or some
  configuration of the run shows it returned while `(t, i)` was not invoked yet; or it is an earlier
  call of the same thread.  A call that is concurrent with `(t, i)`, or is invoked after it, is not
  out of the way — it may legitimately overwrite, remove or re-insert the key.
-/
import Gobptree.Proofs.CNoLoss

namespace Gobptree.Conc
open Gobptree Lin

variable {K V : Type}

section Full

variable (lt : K → K → Bool) (P : Params K) (tree : Tree K V) (progs : List (List (COp K V)))
  (hkp : KParams lt P) (ht : TreeOk none tree) (hord : OrdTree lt tree) (hsep : SepTree lt tree)
  (ho : tree.order = P.order) (hp : PadOk P) (hd : Disciplined progs)
  (hdel : 4 ≤ tree.order ∨ NoDelete progs)
include hkp ht hord hsep ho hp hd hdel

/-- **C03 (Search takes effect inside its interval).** The response `found r` of a `get k` is the
    value of `k` in the abstract map of a configuration `d` the run visited while the call was open:
    invoked in `d`, not yet returned in `d`. -/
theorem C03_search_reads_run_config {c : Config K V} {hist : List (Config K V)}
    (hrun : RunFrom (Config.init P tree progs) (c :: hist))
    {t i : Nat} {k : K} {p : List (COp K V)} (hpt : progs[t]? = some p) (hpi : p[i]? = some (.get k))
    {r : Option V} (hret : Ev.note t (.ret i (.found r)) ∈ c.log) :
    ∃ d ∈ hist, Ev.note t (.inv i) ∈ d.log ∧ Ev.note t (.ret i (.found r)) ∉ d.log ∧
      r = Spec.lookup lt d.tree.abs k :=
  search_reads_run_config lt P tree progs hkp ht hord hsep ho hp hd hdel hrun hpt hpi hret

/-- **C03 (a Search never misses a key that is present throughout the Search).** If `k` is in the
    map in every configuration the run visits while the call is open, the Search finds it, with a
    value it had in one of those configurations. -/
theorem C03_search_finds_present {c : Config K V} {hist : List (Config K V)}
    (hrun : RunFrom (Config.init P tree progs) (c :: hist))
    {t i : Nat} {k : K} {p : List (COp K V)} (hpt : progs[t]? = some p) (hpi : p[i]? = some (.get k))
    {r : Option V} (hret : Ev.note t (.ret i (.found r)) ∈ c.log)
    (hpres : ∀ d ∈ hist, Ev.note t (.inv i) ∈ d.log → Ev.note t (.ret i (.found r)) ∉ d.log →
      (Spec.lookup lt d.tree.abs k).isSome = true) :
    ∃ v, r = some v ∧ ∃ d ∈ hist, Ev.note t (.inv i) ∈ d.log ∧ Ev.note t (.ret i (.found r)) ∉ d.log ∧
      Spec.lookup lt d.tree.abs k = some v :=
  search_finds_present lt P tree progs hkp ht hord hsep ho hp hd hdel hrun hpt hpi hret hpres

/-- **C03 (dual).** A key absent in every configuration the run visits while the call is open is
    reported absent. -/
theorem C03_search_reports_absent {c : Config K V} {hist : List (Config K V)}
    (hrun : RunFrom (Config.init P tree progs) (c :: hist))
    {t i : Nat} {k : K} {p : List (COp K V)} (hpt : progs[t]? = some p) (hpi : p[i]? = some (.get k))
    {r : Option V} (hret : Ev.note t (.ret i (.found r)) ∈ c.log)
    (habs : ∀ d ∈ hist, Ev.note t (.inv i) ∈ d.log → Ev.note t (.ret i (.found r)) ∉ d.log →
      Spec.lookup lt d.tree.abs k = none) :
    r = none :=
  search_reports_absent lt P tree progs hkp ht hord hsep ho hp hd hdel hrun hpt hpi hret habs

/-- **C03 (no completed Insert is lost).** `ins k v` has returned and every other call of the
    programs writing a key equivalent to `k` is out of the way ⟹ the map holds `v` at `k`. -/
theorem C03_no_completed_insert_lost {c : Config K V} {hist : List (Config K V)}
    (hrun : RunFrom (Config.init P tree progs) (c :: hist))
    {t i : Nat} {k : K} {v : V} (hcall : CallAt progs t i (.ins k v)) (hret : CallReturned c t i)
    (hothers : ∀ t' i' cop, CallAt progs t' i' cop → (t', i') ≠ (t, i) → cWrites lt k cop = true →
      OutOfTheWay (c :: hist) c t' i' t i) :
    Spec.lookup lt c.tree.abs k = some v :=
  no_completed_insert_lost lt P tree progs hkp ht hord hsep ho hp hd hdel hrun hcall hret hothers

/-- **C03 (no completed Update is lost).** `upd k f` has returned, its callback having received
    `arg`, and every other call writing a key equivalent to `k` is out of the way ⟹ the map holds
    `f arg` at `k`. -/
theorem C03_no_completed_update_lost {c : Config K V} {hist : List (Config K V)}
    (hrun : RunFrom (Config.init P tree progs) (c :: hist))
    {t i : Nat} {k : K} {f : Option V → V} {y : Bool} (hcall : CallAt progs t i (.upd k f y))
    {arg : Option V} (hret : HEv.ret t i (.callback arg) ∈ history c)
    (hothers : ∀ t' i' cop, CallAt progs t' i' cop → (t', i') ≠ (t, i) → cWrites lt k cop = true →
      OutOfTheWay (c :: hist) c t' i' t i) :
    Spec.lookup lt c.tree.abs k = some (f arg) :=
  no_completed_update_lost lt P tree progs hkp ht hord hsep ho hp hd hdel hrun hcall hret hothers

/-- **C03 (no deleted key reappears).** `del k` has returned and every call that stores a value at a
    key equivalent to `k` (Insert / Update) is out of the way ⟹ `k` is absent from the map. -/
theorem C03_no_deleted_key_reappears {c : Config K V} {hist : List (Config K V)}
    (hrun : RunFrom (Config.init P tree progs) (c :: hist))
    {t i : Nat} {k : K} (hcall : CallAt progs t i (.del k)) (hret : CallReturned c t i)
    (hothers : ∀ t' i' cop, CallAt progs t' i' cop → cPuts lt k cop = true →
      OutOfTheWay (c :: hist) c t' i' t i) :
    Spec.lookup lt c.tree.abs k = none :=
  no_deleted_key_reappears lt P tree progs hkp ht hord hsep ho hp hd hdel hrun hcall hret hothers

/-- **C03 (last write wins).** In every reachable configuration, for the decoration of the history
    with linearization points: if no operation linearized after some point writes `k`, the value at
    `k` is the one right after the operation at that point. -/
theorem C03_last_write_wins (c : Config K V) (hr : Reachable (Config.init P tree progs) c) (k : K) :
    ∃ h, PointsWF h ∧ PointsSpec lt tree.abs h ∧ visible h = history c ∧
      ∀ (pre post : List (Nat × Nat × Op K V)) (x : Nat × Nat × Op K V), linOrder h = pre ++ x :: post →
        (∀ y ∈ post, writesKey lt k y.2.2 = false) →
        Spec.lookup lt c.tree.abs k =
          Spec.lookup lt (Spec.step lt (Spec.run lt tree.abs (pre.map (·.2.2))).1 x.2.2).1 k :=
  lookup_last_write lt P tree progs hkp ht hord hsep ho hp hd hdel c hr k

end Full

end Gobptree.Conc

#print axioms Gobptree.Conc.C03_search_reads_run_config
#print axioms Gobptree.Conc.C03_search_finds_present
#print axioms Gobptree.Conc.C03_search_reports_absent
#print axioms Gobptree.Conc.C03_no_completed_insert_lost
#print axioms Gobptree.Conc.C03_no_completed_update_lost
#print axioms Gobptree.Conc.C03_no_deleted_key_reappears
#print axioms Gobptree.Conc.C03_last_write_wins
