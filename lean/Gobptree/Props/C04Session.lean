/-
  C04 / C02 under concurrency: the WHOLE-SCAN guarantee.  `Props/C04.lean` proves that each cursor
  step is an atomic successor query while writers run; `Props/C02.lean` proves exact scans on a tree
  nobody modifies.  Here the per-step facts are lifted to a complete scan session that runs
  concurrently with arbitrary writers (weak consistency of a scan), for every family of disciplined
  programs, every schedule, every initial tree satisfying the invariants
  (`Proofs/CScanSession*.lean`).

  A run is the list of configurations visited, newest first (`RunFrom init (c :: hist)`); a session is
  thread `j` with the program index `a` of a `NewScanner(start)`; call `y` belongs to it
  (`InSess prog a y`) while only `Scan`/`Pair`/pauses follow `a`; responses are read off the log; the
  session's interval consists of the configurations in whose log `NewScanner`'s response stands.
-/
import Gobptree.Proofs.CScanSession

namespace Gobptree.Conc
open Gobptree

variable {K V : Type}

section Full

variable (lt : K → K → Bool) (P : Params K) (tree : Tree K V) (progs : List (List (COp K V)))
  (hkp : KParams lt P) (ht : TreeOk none tree) (hord : OrdTree lt tree) (hsep : SepTree lt tree)
  (ho : tree.order = P.order) (hp : PadOk P) (hd : Disciplined progs)
  (hdel : 4 ≤ tree.order ∨ NoDelete progs)
include hkp ht hord hsep ho hp hd hdel

/-- **C04 (session, soundness).** Every pair a `Pair()` of the session returned was an entry of the
    map, with that value, in a configuration of the session's interval. -/
theorem C04_session_sound (j a : Nat) (start : K) (prog : List (COp K V)) (hprog : progs[j]? = some prog)
    (hns : prog[a]? = some (.ns start)) {c : Config K V} {hist : List (Config K V)}
    (hrun : RunFrom (Config.init P tree progs) (c :: hist))
    {y : Nat} {k : K} {v : V} (hy : InSess prog a y) (hret : Ev.note j (.ret y (.pair k v)) ∈ c.log) :
    ∃ d ∈ c :: hist, nsReturned j a d ∧ Ev.note j (.ret y (.pair k v)) ∈ d.log ∧ (k, v) ∈ d.tree.abs ∧
      Spec.lookup lt d.tree.abs k = some v :=
  scan_session_sound lt P tree progs hkp ht hord hsep ho hp hd hdel j a start prog hprog hns hrun hy hret

/-- **C04 (session, order).** Every returned key is `≥ start`; successive `Pair()`s never descend;
    across a `Scan()` that returned `true` they strictly ascend. -/
theorem C04_session_ascending (j a : Nat) (start : K) (prog : List (COp K V)) (hprog : progs[j]? = some prog)
    (hns : prog[a]? = some (.ns start)) {c : Config K V} {hist : List (Config K V)}
    (hrun : RunFrom (Config.init P tree progs) (c :: hist)) :
    (∀ y k v, InSess prog a y → Ev.note j (.ret y (.pair k v)) ∈ c.log → lt k start = false) ∧
    (∀ x y k k' v v', a < x → x < y → InSess prog a y → Ev.note j (.ret x (.pair k v)) ∈ c.log →
      Ev.note j (.ret y (.pair k' v')) ∈ c.log → lt k' k = false) ∧
    (∀ x z y k k' v v', a < x → x < z → z < y → InSess prog a y → Ev.note j (.ret x (.pair k v)) ∈ c.log →
      Ev.note j (.ret z (.bool true)) ∈ c.log → Ev.note j (.ret y (.pair k' v')) ∈ c.log → lt k k' = true) :=
  ⟨fun _ _ _ hy hret =>
     scan_session_ge_start lt P tree progs hkp ht hord hsep ho hp hd hdel j a start prog hprog hns hrun hy hret,
   fun _ _ _ _ _ _ hax hxy hy hx hret =>
     scan_session_monotone lt P tree progs hkp ht hord hsep ho hp hd hdel j a start prog hprog hns hrun hax hxy hy hx hret,
   fun _ _ _ _ _ _ _ hax hxz hzy hy hx hz hret =>
     scan_session_strict lt P tree progs hkp ht hord hsep ho hp hd hdel j a start prog hprog hns hrun hax hxz hzy hy hx hz hret⟩

/-- **C04 (session, completeness).** The cursor opened by `NewScanner(start)` (call `a`) is not closed
    before the `Scan()` at call `e`, which returned `false`; the client calls `Pair()` between any two
    `Scan()`s (pauses may sit anywhere).  Then every key `≥ start` that was in the map in EVERY
    configuration from the return of `NewScanner` to the configuration `c` showing that `false` — whatever
    the writers did to other keys, and whatever they do later — has been returned by a `Pair()` of the
    session. -/
theorem C04_session_complete (j a e : Nat) (start : K) (prog : List (COp K V)) (hprog : progs[j]? = some prog)
    (hns : prog[a]? = some (.ns start)) (later : List (Config K V)) {c : Config K V} {hist : List (Config K V)}
    (hrun : RunFrom (Config.init P tree progs) (later ++ c :: hist))
    (hae : a < e) (hnc : ∀ x, a < x → x < e → prog[x]? ≠ some .close) (hscan : prog[e]? = some .scan)
    (hshape : ∀ i m, a < i → i < m → m ≤ e → prog[i]? = some .scan → prog[m]? = some .scan →
      ∃ x, i < x ∧ x < m ∧ prog[x]? = some .pair)
    (hfalse : Ev.note j (.ret e (.bool false)) ∈ c.log)
    (k : K) (hk : lt k start = false)
    (hpres : ∀ d ∈ c :: hist, nsReturned j a d → ∃ v, (k, v) ∈ d.tree.abs) :
    ∃ x v, a < x ∧ x < e ∧ Ev.note j (.ret x (.pair k v)) ∈ c.log :=
  scan_session_complete_not_closed lt P tree progs hkp ht hord hsep ho hp hd hdel j a e start prog hprog hns
    (RunFrom.tail later hrun) hae hnc hscan hshape hfalse k hk hpres

/-- **C04 (session, no phantom).** A key that is in the map in no configuration of the interval is
    never returned. -/
theorem C04_session_no_phantom (j a : Nat) (start : K) (prog : List (COp K V)) (hprog : progs[j]? = some prog)
    (hns : prog[a]? = some (.ns start)) {c : Config K V} {hist : List (Config K V)}
    (hrun : RunFrom (Config.init P tree progs) (c :: hist)) (k : K)
    (habs : ∀ d ∈ c :: hist, nsReturned j a d → ∀ v, (k, v) ∉ d.tree.abs)
    {y : Nat} {v : V} (hy : InSess prog a y) : Ev.note j (.ret y (.pair k v)) ∉ c.log :=
  scan_session_no_phantom lt P tree progs hkp ht hord hsep ho hp hd hdel j a start prog hprog hns hrun k habs hy

/-- **C04/C02 (a scan is exact on the part of the map nobody adds to or removes from).** If, during
    the session's interval, no key `≥ start` enters or leaves the map (values may change, keys
    `< start` may come and go, writers may split, borrow and merge as they like), then the keys the
    session's `Pair()` calls returned are EXACTLY the stored keys `≥ start` — C02's exactness, under
    concurrency. (Ascending order and the values: `C04_session_ascending`, `C04_session_sound`.) -/
theorem C04_session_exact_when_range_stable (j a e : Nat) (start : K) (prog : List (COp K V))
    (hprog : progs[j]? = some prog) (hns : prog[a]? = some (.ns start))
    {c : Config K V} {hist : List (Config K V)}
    (hrun : RunFrom (Config.init P tree progs) (c :: hist))
    (hae : a < e) (hseg : CurOps prog a e) (hscan : prog[e]? = some .scan)
    (hshape : ∀ i m, a < i → i < m → m ≤ e → prog[i]? = some .scan → prog[m]? = some .scan →
      ∃ x, i < x ∧ x < m ∧ prog[x]? = some .pair)
    (hfalse : Ev.note j (.ret e (.bool false)) ∈ c.log)
    (hstable : ∀ k, lt k start = false → ∀ d ∈ c :: hist, nsReturned j a d →
      ((∃ v, (k, v) ∈ d.tree.abs) ↔ (∃ v, (k, v) ∈ c.tree.abs))) (k : K) :
    (∃ x v, a < x ∧ x < e ∧ Ev.note j (.ret x (.pair k v)) ∈ c.log) ↔
      (lt k start = false ∧ ∃ v, (k, v) ∈ c.tree.abs) := by
  constructor
  · rintro ⟨x, v, hax, hxe, hret⟩
    have hy : InSess prog a x := ⟨hax, hseg.mono (by omega)⟩
    have hge := scan_session_ge_start lt P tree progs hkp ht hord hsep ho hp hd hdel j a start prog hprog hns hrun hy hret
    obtain ⟨d, hdm, hnsd, _, hmem, _⟩ :=
      scan_session_sound lt P tree progs hkp ht hord hsep ho hp hd hdel j a start prog hprog hns hrun hy hret
    exact ⟨hge, (hstable k hge d hdm hnsd).1 ⟨v, hmem⟩⟩
  · rintro ⟨hge, hpres⟩
    exact scan_session_complete lt P tree progs hkp ht hord hsep ho hp hd hdel j a e start prog hprog hns hrun
      hae hseg hscan hshape hfalse k hge (fun d hdm hnsd => (hstable k hge d hdm hnsd).2 hpres)

end Full

/-- the session vocabulary is inhabited: in the program `ns 0; scan; pair; pause; scan; pair; scan`
    the calls 1…6 belong to the session opened at call 0, a `Pair` stands between any two `Scan`s -/
example :
    let prog : List (COp Nat Nat) := [.ns 0, .scan, .pair, .pause, .scan, .pair, .scan]
    InSess prog 0 6 ∧ prog[6]? = some .scan ∧
    (∀ i m, 0 < i → i < m → m ≤ 6 → prog[i]? = some .scan → prog[m]? = some .scan →
      ∃ x, i < x ∧ x < m ∧ prog[x]? = some .pair) := by
  refine ⟨⟨by omega, ?_⟩, rfl, ?_⟩
  · intro x h1 h2
    have : x = 1 ∨ x = 2 ∨ x = 3 ∨ x = 4 ∨ x = 5 ∨ x = 6 := by omega
    rcases this with rfl | rfl | rfl | rfl | rfl | rfl <;> simp [CurOp]
  · intro i m h1 h2 h3 hi hm
    have hi' : i = 1 ∨ i = 2 ∨ i = 3 ∨ i = 4 ∨ i = 5 := by omega
    rcases hi' with rfl | rfl | rfl | rfl | rfl <;> simp at hi
    · have hm' : m = 2 ∨ m = 3 ∨ m = 4 ∨ m = 5 ∨ m = 6 := by omega
      rcases hm' with rfl | rfl | rfl | rfl | rfl <;> simp at hm
      · exact ⟨2, by omega, by omega, rfl⟩
      · exact ⟨2, by omega, by omega, rfl⟩
    · have hm' : m = 5 ∨ m = 6 := by omega
      rcases hm' with rfl | rfl <;> simp at hm
      exact ⟨5, by omega, by omega, rfl⟩

end Gobptree.Conc

#print axioms Gobptree.Conc.C04_session_sound
#print axioms Gobptree.Conc.C04_session_ascending
#print axioms Gobptree.Conc.C04_session_complete
#print axioms Gobptree.Conc.C04_session_no_phantom
#print axioms Gobptree.Conc.C04_session_exact_when_range_stable
