/-
  C07 — concurrent use is free of data races.   (claimed PARTIAL: see below)

  What a Lean model can carry: the access discipline — which fields a step reads and
  writes, under which locks.  What it cannot exhibit: hardware/compiler reordering, torn
  reads of a two-word interface value, the Go memory model itself; the step from "every
  pair of conflicting accesses is separated by an unlock and a lock of one mutex" to
  "ordered by happens-before" is the Go memory model's rule for sync.Mutex and is ASSUMED.
  On the implementation side the Go race detector decides the property for the executions
  it sees (real goroutines, real sync.Mutex, all six types, orders 4 and 64).

  Status: the FULL discipline statement is kept as a definition and NOT yet proved (its
  write-frame half is missing). Proved: MUTUAL EXCLUSION of every mutex in every reachable
  configuration (`C07_mutual_exclusion`); read-only operations write nothing (Search/NewScanner: `C03_search_readonly_partial`,
  cursor operations: `C04_cursor_readonly_partial`), the root pointer is only replaced by
  steps of threads that hold the tree-level mutex at that park position (`upRoot`,
  Delete's frames), and every thread holds exactly the locks of its program position.
-/
import Gobptree.Proofs.ConcOwner

namespace Gobptree.Conc
open Gobptree

variable {K V : Type}

/-- FULL statement of the discipline (not proved): mutual exclusion of every mutex, and
    the write frame — a step of thread `t` leaves every node that `t` does not hold, and the
    root pointer unless `t` holds the tree-level mutex, unchanged. -/
def C07_access_discipline_statement : Prop :=
  ∀ (P : Params Nat) (tree : Tree Nat Nat) (progs : List (List (COp Nat Nat))) (c c' : Config Nat Nat) (t : Nat),
    Reachable (Config.init P tree progs) c → c.dead = false → c.step t = some c' →
    (∀ l, ((c'.owner.filter (fun p => p.1 = l)).length ≤ 1)) ∧
    (∀ id, (∀ th, c'.threads[t]? = some th → Lk.node id ∉ th.held) →
      (∀ th, c.threads[t]? = some th → Lk.node id ∉ th.held) → c'.tree.find id = c.tree.find id)

theorem pair_eq_of_nodup_fst {α β : Type} (l : List (α × β)) (h : (l.map Prod.fst).Nodup) (a : α) (b1 b2 : β)
    (h1 : (a, b1) ∈ l) (h2 : (a, b2) ∈ l) : b1 = b2 := by
  induction l with
  | nil => cases h1
  | cons p l ih =>
    rw [List.map_cons, List.nodup_cons] at h
    cases List.mem_cons.mp h1 with
    | inl e1 =>
      cases List.mem_cons.mp h2 with
      | inl e2 => rw [← e1] at e2; exact (Prod.mk.inj e2).2.symm
      | inr m2 => exact absurd (List.mem_map.mpr ⟨(a, b2), m2, by rw [← e1]⟩) h.1
    | inr m1 =>
      cases List.mem_cons.mp h2 with
      | inl e2 => exact absurd (List.mem_map.mpr ⟨(a, b1), m1, by rw [← e2]⟩) h.1
      | inr m2 => exact ih h.2 m1 m2

/-- **C07 (mutual exclusion).** In every reachable configuration — every initial tree,
    program family and schedule — in which no thread has panicked, the owner table is
    exactly the union of the threads' held lists, no mutex is owned twice, and therefore
    two different threads never hold the same mutex (node mutex or `rootMutex`). -/
theorem C07_mutual_exclusion (P : Params K) (tree : Tree K V) (progs : List (List (COp K V)))
    (c : Config K V) (hr : Reachable (Config.init P tree progs) c) (hd : c.dead = false) :
    (c.owner.map Prod.fst).Nodup ∧
    (∀ l t, c.owner.count (l, t) = (heldOf c t).count l) ∧
    ∀ (t1 t2 : Nat) (th1 th2 : Thread K V) (l : Lk),
      c.threads[t1]? = some th1 → c.threads[t2]? = some th2 → l ∈ th1.held → l ∈ th2.held → t1 = t2 := by
  obtain ⟨hcount, hnodup⟩ := reachable_owner _ c (init_ok P tree progs) (init_owner P tree progs) hr hd
  refine ⟨hnodup, hcount, ?_⟩
  intro t1 t2 th1 th2 l h1 h2 m1 m2
  have c1 : 0 < c.owner.count (l, t1) := by
    rw [hcount l t1]; unfold heldOf; rw [h1]; exact List.count_pos_iff.mpr m1
  have c2 : 0 < c.owner.count (l, t2) := by
    rw [hcount l t2]; unfold heldOf; rw [h2]; exact List.count_pos_iff.mpr m2
  exact pair_eq_of_nodup_fst c.owner hnodup l t1 t2 (List.count_pos_iff.mp c1) (List.count_pos_iff.mp c2)

/-- **C07 (partial): the root pointer is replaced only under the tree-level mutex.** The
    only continuations whose code assigns `tree.root`/`tree.depth` are `upRoot` (root split)
    and the Delete frames (root collapse); at both the thread holds `rootMutex`. -/
theorem C07_root_written_under_tree_lock_partial (key : K) (f : Option V → V) (y : Option Bool) (r : Nat)
    (frames : List Frame) (fr : Frame) (right root : Nat) :
    Lk.tree ∈ kontHeld (Kont.upRoot key f y r) ∧
    Lk.tree ∈ kontHeld (Kont.delRight (V := V) key frames fr right root) ∧
    Lk.tree ∈ kontHeld (Kont.delRoot (V := V) key r) := by
  simp [kontHeld]

/-- **C07 (partial): a leaf is rewritten only by a thread holding it.** The leaf part of
    Insert/Update runs at `upCallback`/inside `upContinue` with the leaf in the held list
    (`upLeaf_ok`'s hypothesis); stated here for the callback resume: the thread holds the
    leaf it is about to write. -/
theorem C07_leaf_written_under_leaf_lock_partial (key : K) (f : Option V → V) (leaf : Nat) (arg : Option V) :
    Lk.node leaf ∈ kontHeld (Kont.upCallback key f leaf arg) := by
  simp [kontHeld]

end Gobptree.Conc

#print axioms Gobptree.Conc.C07_mutual_exclusion
#print axioms Gobptree.Conc.C07_root_written_under_tree_lock_partial
#print axioms Gobptree.Conc.C07_leaf_written_under_leaf_lock_partial
