/-
  C07 — concurrent use is free of data races.   (claimed PARTIAL by nature: see below)

  What a Lean model can carry: the access discipline — which fields a step reads and
  writes, under which locks.  What it cannot exhibit: hardware/compiler reordering, torn
  reads of a two-word interface value, the Go memory model itself; the step from "every
  pair of conflicting accesses is separated by an unlock and a lock of one mutex" to
  "ordered by happens-before" is the Go memory model's rule for sync.Mutex and is ASSUMED.
  On the implementation side the Go race detector decides the property for the executions
  it sees (real goroutines, real sync.Mutex, all six types, orders 4 and 64).

  PROVED, for every initial tree satisfying the structural invariant, every family of
  disciplined client programs and every schedule:
    * MUTUAL EXCLUSION of every mutex in every reachable configuration (`C07_mutual_exclusion`);
    * the WRITE FRAME (`C07_write_frame`): a step of thread `t` leaves the own fields (keys or
      separators, values, `next`, identities of the children) of every node that existed
      before and whose mutex `t` does not hold during the step exactly as they were, and
      moves the root pointer only if `t` holds `rootMutex`.  `stepHeld` is what the thread
      held when it parked plus the one mutex it is granted; after that acquisition a step
      only releases (`RelOnly`), so this is the largest set it ever holds in the step;
    * hence (`C07_access_discipline`) two writes, or a write and the facts any other thread
      relies on (`KontOk`/`CursorOk` speak only of nodes the thread holds), never concern
      the same node without the mutex changing hands in between.
  The READ frame (a step's outcome depends only on the own fields of the nodes it holds) is a
  theorem too: `Props/C07ReadFrame.lean` (`C07_read_frame`, non-interference proved by a
  relational argument over every block; `Proofs/CReadFrame*.lean`).
-/
import Gobptree.Proofs.ConcOwner
import Gobptree.Proofs.CSFinal

namespace Gobptree.Conc
open Gobptree

variable {K V : Type}

theorem pair_eq_of_nodup_fst {α β : Type} (l : List (α × β)) (h : (l.map Prod.fst).Nodup) (a : α) (b1 b2 : β)
    (h1 : (a, b1) ∈ l) (h2 : (a, b2) ∈ l) : b1 = b2 := by
  induction l with
  | nil => cases h1
  | cons p l ih =>
    rw [List.map_cons, List.nodup_cons] at h
    cases List.mem_cons.mp h1 with
    | inl e1 =>
      cases List.mem_cons.mp h2 with
      | inl e2 => rw [← e1] at e2; exact (Prod.mk.inj e2).2.symm
      | inr m2 => exact absurd (List.mem_map.mpr ⟨(a, b2), m2, by rw [← e1]⟩) h.1
    | inr m1 =>
      cases List.mem_cons.mp h2 with
      | inl e2 => exact absurd (List.mem_map.mpr ⟨(a, b1), m1, by rw [← e2]⟩) h.1
      | inr m2 => exact ih h.2 m1 m2

/-- **C07 (mutual exclusion).** In every reachable configuration — every initial tree,
    program family and schedule — in which no thread has panicked, the owner table is
    exactly the union of the threads' held lists, no mutex is owned twice, and therefore
    two different threads never hold the same mutex (node mutex or `rootMutex`). -/
theorem C07_mutual_exclusion (P : Params K) (tree : Tree K V) (progs : List (List (COp K V)))
    (c : Config K V) (hr : Reachable (Config.init P tree progs) c) (hd : c.dead = false) :
    (c.owner.map Prod.fst).Nodup ∧
    (∀ l t, c.owner.count (l, t) = (heldOf c t).count l) ∧
    ∀ (t1 t2 : Nat) (th1 th2 : Thread K V) (l : Lk),
      c.threads[t1]? = some th1 → c.threads[t2]? = some th2 → l ∈ th1.held → l ∈ th2.held → t1 = t2 := by
  obtain ⟨hcount, hnodup⟩ := reachable_owner _ c (init_ok P tree progs) (init_owner P tree progs) hr hd
  refine ⟨hnodup, hcount, ?_⟩
  intro t1 t2 th1 th2 l h1 h2 m1 m2
  have c1 : 0 < c.owner.count (l, t1) := by
    rw [hcount l t1]; unfold heldOf; rw [h1]; exact List.count_pos_iff.mpr m1
  have c2 : 0 < c.owner.count (l, t2) := by
    rw [hcount l t2]; unfold heldOf; rw [h2]; exact List.count_pos_iff.mpr m2
  exact pair_eq_of_nodup_fst c.owner hnodup l t1 t2 (List.count_pos_iff.mp c1) (List.count_pos_iff.mp c2)

/-- **C07 (partial): the root pointer is replaced only under the tree-level mutex.** The
    only continuations whose code assigns `tree.root`/`tree.depth` are `upRoot` (root split)
    and the Delete frames (root collapse); at both the thread holds `rootMutex`. -/
theorem C07_root_written_under_tree_lock_partial (key : K) (f : Option V → V) (y : Option Bool) (r : Nat)
    (frames : List Frame) (fr : Frame) (right root : Nat) :
    Lk.tree ∈ kontHeld (Kont.upRoot key f y r) ∧
    Lk.tree ∈ kontHeld (Kont.delRight (V := V) key frames fr right root) ∧
    Lk.tree ∈ kontHeld (Kont.delRoot (V := V) key r) := by
  simp [kontHeld]

/-- **C07 (partial): a leaf is rewritten only by a thread holding it.** The leaf part of
    Insert/Update runs at `upCallback`/inside `upContinue` with the leaf in the held list
    (`upLeaf_ok`'s hypothesis); stated here for the callback resume: the thread holds the
    leaf it is about to write. -/
theorem C07_leaf_written_under_leaf_lock_partial (key : K) (f : Option V → V) (leaf : Nat) (arg : Option V) :
    Lk.node leaf ∈ kontHeld (Kont.upCallback key f leaf arg) := by
  simp [kontHeld]

/-- **C07 (write frame).** In every reachable configuration, a step of thread `t` leaves
    unchanged the own fields of every node that existed before the step and whose mutex the
    thread does not hold during it, and the root pointer (and height) unless it holds
    `rootMutex`. -/
theorem C07_write_frame (P : Params K) (tree : Tree K V) (progs : List (List (COp K V)))
    (ht : TreeOk none tree) (ho : tree.order = P.order) (hp : PadOk P) (hd : Disciplined progs)
    (hdel : 4 ≤ tree.order ∨ NoDelete progs)
    (c c' : Config K V) (t : Nat) (hr : Reachable (Config.init P tree progs) c) (hs : c.step t = some c') :
    ∃ th, c.threads[t]? = some th ∧
      (∀ id, id < c.tree.nextId → Lk.node id ∉ stepHeld th → c'.tree.look id = c.tree.look id) ∧
      (Lk.tree ∉ stepHeld th → c'.tree.rootId = c.tree.rootId ∧ c'.tree.depth = c.tree.depth) := by
  obtain ⟨_, th, hth, hf⟩ := step_cinv blocks_ok c c' t hs (reachable_cinv P tree progs ht ho hp hd hdel c hr)
  exact ⟨th, hth, hf.nodes, hf.root⟩

/-- **C07 (access discipline).** Mutual exclusion and the write frame together: whatever a
    step of thread `t` writes is guarded by a mutex that `t` holds and, by exclusion, that no
    other thread holds — in particular every node another thread holds keeps its fields. -/
theorem C07_access_discipline (P : Params K) (tree : Tree K V) (progs : List (List (COp K V)))
    (ht : TreeOk none tree) (ho : tree.order = P.order) (hp : PadOk P) (hd : Disciplined progs)
    (hdel : 4 ≤ tree.order ∨ NoDelete progs)
    (c c' : Config K V) (t j : Nat) (b : Thread K V) (hr : Reachable (Config.init P tree progs) c)
    (hs : c.step t = some c') (hj : c.threads[j]? = some b) (hne : j ≠ t) :
    ∀ id, Lk.node id ∈ b.held → c'.tree.look id = c.tree.look id := by
  have hinv := reachable_cinv P tree progs ht ho hp hd hdel c hr
  obtain ⟨_, th, hth, hf⟩ := step_cinv blocks_ok c c' t hs hinv
  obtain ⟨th', hth', hen, _⟩ := step_shape hs
  rw [hth] at hth'
  cases hth'
  intro id hid
  have hbm : b ∈ c.threads := List.mem_of_getElem? hj
  obtain ⟨sh, hsh⟩ := thread_present hinv.s.tree.ids hinv.s.tree.chain (hinv.s.cfg b hbm) (hinv.s.threads b hbm) id (Or.inl hid)
  exact hf.nodes id (look_lt_nextId hinv.s.tree.ids hsh) (stepHeld_excl hinv.s.owner hth hj hne hen hid)

end Gobptree.Conc

#print axioms Gobptree.Conc.C07_mutual_exclusion
#print axioms Gobptree.Conc.C07_root_written_under_tree_lock_partial
#print axioms Gobptree.Conc.C07_leaf_written_under_leaf_lock_partial
#print axioms Gobptree.Conc.C07_write_frame
#print axioms Gobptree.Conc.C07_access_discipline
