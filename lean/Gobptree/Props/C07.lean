import Gobptree.Ops
namespace Gobptree
theorem C07_placeholder : True := trivial
end Gobptree
#print axioms Gobptree.C07_placeholder
