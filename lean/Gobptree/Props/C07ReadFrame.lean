/-
  C07, second half: the READ frame.  `Props/C07.lean` proves the WRITE frame (a step changes the
  own fields only of nodes whose mutex the thread holds during the step).  Here: the step's
  outcome DEPENDS only on the own fields of those nodes (`Proofs/CReadFrame.lean`).
-/
import Gobptree.Proofs.CReadFrame

namespace Gobptree.Conc
open Gobptree

variable {K V : Type}

/-- **C07 (read frame).** Two configurations satisfying the structural invariant, the same thread
    `th` at position `t`, trees that agree on the own fields of the nodes in `stepHeld th` (and on
    the root pointer under `rootMutex`): one step of `t` yields the same thread state, the same
    events, the same panic outcome, and trees that agree on every node held during the step and
    on every node created by it. -/
theorem C07_read_frame (c1 c2 c1' c2' : Config K V) (t : Nat) (th : Thread K V)
    (h1 : c1.threads[t]? = some th) (h2 : c2.threads[t]? = some th) (hP : c1.P = c2.P)
    (hi1 : CInv c1) (hi2 : CInv c2) (hv : SameView (stepHeld th) c1.tree c2.tree)
    (hs1 : c1.step t = some c1') (hs2 : c2.step t = some c2') :
    (∃ th', c1'.threads[t]? = some th' ∧ c2'.threads[t]? = some th') ∧
    (∃ evs, c1'.log = evs ++ Ev.dec t c1.enabledSet :: c1.log ∧
            c2'.log = evs ++ Ev.dec t c2.enabledSet :: c2.log) ∧
    (∃ d, c1'.dead = (c1.dead || d) ∧ c2'.dead = (c2.dead || d)) ∧
    c1'.tree.order = c2'.tree.order ∧ c1'.tree.nextId = c2'.tree.nextId ∧
    (∀ id, (Lk.node id ∈ stepHeld th ∨ c1.tree.nextId ≤ id) → c1'.tree.look id = c2'.tree.look id) ∧
    (Lk.tree ∈ stepHeld th → c1'.tree.rootId = c2'.tree.rootId ∧ c1'.tree.depth = c2'.tree.depth) :=
  read_frame c1 c2 c1' c2' t th h1 h2 hP hi1 hi2 hv hs1 hs2

/-- along a reachable history: both configurations reachable (from possibly different initial
    trees and programs of the other threads) -/
theorem C07_read_frame_reachable (P : Params K) (tree1 tree2 : Tree K V) (progs1 progs2 : List (List (COp K V)))
    (ht1 : TreeOk none tree1) (ho1 : tree1.order = P.order) (ht2 : TreeOk none tree2) (ho2 : tree2.order = P.order)
    (hp : PadOk P) (hd1 : Disciplined progs1) (hd2 : Disciplined progs2)
    (hdel1 : 4 ≤ tree1.order ∨ NoDelete progs1) (hdel2 : 4 ≤ tree2.order ∨ NoDelete progs2)
    (c1 c2 c1' c2' : Config K V)
    (hr1 : Reachable (Config.init P tree1 progs1) c1) (hr2 : Reachable (Config.init P tree2 progs2) c2)
    (hP1 : c1.P = c2.P)
    (t : Nat) (th : Thread K V) (h1 : c1.threads[t]? = some th) (h2 : c2.threads[t]? = some th)
    (hv : SameView (stepHeld th) c1.tree c2.tree)
    (hs1 : c1.step t = some c1') (hs2 : c2.step t = some c2') :
    (∃ th', c1'.threads[t]? = some th' ∧ c2'.threads[t]? = some th') ∧
    (∃ evs, c1'.log = evs ++ Ev.dec t c1.enabledSet :: c1.log ∧
            c2'.log = evs ++ Ev.dec t c2.enabledSet :: c2.log) ∧
    SameView (stepHeld th) c1'.tree c2'.tree :=
  have hi1 := reachable_cinv P tree1 progs1 ht1 ho1 hp hd1 hdel1 c1 hr1
  have hi2 := reachable_cinv P tree2 progs2 ht2 ho2 hp hd2 hdel2 c2 hr2
  have h := read_frame c1 c2 c1' c2' t th h1 h2 hP1 hi1 hi2 hv hs1 hs2
  ⟨h.1, h.2.1, (read_frame_view c1 c2 c1' c2' t th h1 h2 hP1 hi1 hi2 hv hs1 hs2).1⟩

end Gobptree.Conc

#print axioms Gobptree.Conc.C07_read_frame
#print axioms Gobptree.Conc.C07_read_frame_reachable
