/-
  C03, final-state agreement.  `C03_linearizable` says the RESPONSES of every history are those of
  some sequential order consistent with real time.  The invariant behind it says more, and this
  module states it: the abstract map of every reachable configuration IS the result of running the
  map specification over the operations linearized so far, in linearization order
  (`Proofs/CCounter.lean: reachable_abs_is_replay`).  "No completed Insert or Update is lost, no
  deleted key reappears" are instances: what the tree contains is exactly what the linearized
  operations put there.
-/
import Gobptree.Proofs.CCounter

namespace Gobptree.Conc
open Gobptree Lin

variable {K V : Type}

/-- **C03 (the contents are the replay of the linearization).** For every reachable configuration
    there is a decoration `h` of its history with linearization points (well formed: every returned
    operation has its point between its call and its return; the responses are the specification's)
    such that the abstract map of the tree equals `Spec.run` of the operations in the order of their
    linearization points, started from the initial contents. -/
theorem C03_contents_are_replay (lt : K → K → Bool) (P : Params K) (tree : Tree K V) (progs : List (List (COp K V)))
    (hkp : KParams lt P) (ht : TreeOk none tree) (hord : OrdTree lt tree) (hsep : SepTree lt tree)
    (ho : tree.order = P.order) (hp : PadOk P) (hd : Disciplined progs)
    (hdel : 4 ≤ tree.order ∨ NoDelete progs)
    (c : Config K V) (hr : Reachable (Config.init P tree progs) c) :
    ∃ h, PointsWF h ∧ PointsSpec lt tree.abs h ∧ visible h = history c ∧
      c.tree.abs = (Spec.run lt tree.abs ((linOrder h).map (·.2.2))).1 :=
  reachable_abs_is_replay lt P tree progs hkp ht hord hsep ho hp hd hdel c hr

/-- when all threads have finished, every map operation of every program has its response in the
    history (nothing is still pending) -/
theorem C03_finished_all_returned (P : Params K) (tree : Tree K V) (progs : List (List (COp K V)))
    (ht : TreeOk none tree) (ho : tree.order = P.order) (hp : PadOk P) (hd : Disciplined progs)
    (hdel : 4 ≤ tree.order ∨ NoDelete progs)
    (c : Config K V) (hr : Reachable (Config.init P tree progs) c) (hu : c.unfinished = false) :
    ∀ t p i cop op, progs[t]? = some p → p[i]? = some cop → opOf cop = some op →
      ∃ out, HEv.ret t i out ∈ history c :=
  finished_all_returned P tree progs ht ho hp hd hdel c hr hu

/-- **C03 + C06, the capstone.** For programs that close their cursors: run ANY schedule until
    nothing is enabled (that happens within `termBound` steps, `C06_every_execution_terminates`).
    The history obtained is COMPLETE — every map operation of every program has been invoked and has
    returned — and linearizable with respect to the map specification started from the initial
    contents. No fairness assumption, no hypothesis on the run. -/
theorem C03_every_maximal_run_complete_and_linearizable (lt : K → K → Bool) (P : Params K) (tree : Tree K V)
    (progs : List (List (COp K V)))
    (hkp : KParams lt P) (ht : TreeOk none tree) (hord : OrdTree lt tree) (hsep : SepTree lt tree)
    (ho : tree.order = P.order) (hp : PadOk P) (hcl : Closing progs)
    (hdel : 4 ≤ tree.order ∨ NoDelete progs)
    (ts : List Nat) (c : Config K V) (hrun : (Config.init P tree progs).run ts = (c, none))
    (hstuck : c.enabledSet = []) :
    Lin.Linearizable lt tree.abs (history c) ∧
    (∀ t p i cop op, progs[t]? = some p → p[i]? = some cop → opOf cop = some op →
      ∃ out, HEv.ret t i out ∈ history c) := by
  have hr : Reachable (Config.init P tree progs) c := reachable_of_run _ ts _ c Reachable.refl hrun
  have hu := all_operations_return_closing P tree progs ht ho hp hcl hdel _ Reachable.refl ts c hrun hstuck
  exact ⟨linearizable_full' lt P tree progs hkp ht hord hsep ho hp hcl.disciplined hdel c hr,
    finished_all_returned P tree progs ht ho hp hcl.disciplined hdel c hr hu⟩

end Gobptree.Conc

#print axioms Gobptree.Conc.C03_contents_are_replay
#print axioms Gobptree.Conc.C03_finished_all_returned
#print axioms Gobptree.Conc.C03_every_maximal_run_complete_and_linearizable
