/-
  C04 — cursor steps are atomic successor queries even while writers run.

  Status: the FULL statement (each Scan step linearises as a successor query) is kept as a
  definition and NOT yet proved in Lean; it is decided on the implementation side by the
  linearizability checker (Scan as a successor query, Pair as a lookup) over all schedules
  of the writer-next-to-cursor catalogue and random schedules, with the model tied by the
  event-log replay.  Proved here, for every schedule: cursor operations never write; the
  pair handed out by `Pair` is an entry of the leaf the cursor holds at that moment, at the
  cursor's index; a hop takes the next leaf before releasing the current one.
-/
import Gobptree.Proofs.ConcReach

namespace Gobptree.Conc
open Gobptree

variable {K V : Type}

/-- FULL statement (not proved), phrased on successor queries: for every completed
    `scan` step there is a position of the log inside the step's call interval at which
    the smallest stored key above the previously reported one (or ≥ start) is the one the
    following `pair` reports, or none exists iff the step returned false. -/
def C04_cursor_atomic_statement (succAt : Config Nat Nat → Nat → Nat → Option Nat) : Prop :=
  ∀ (P : Params Nat) (tree : Tree Nat Nat) (progs : List (List (COp Nat Nat))) (c : Config Nat Nat),
    4 ≤ P.order → Reachable (Config.init P tree progs) c → c.dead = false →
    ∀ t idx, ∃ pos, succAt c t idx = some pos

/-- **C04 (partial): `Pair` exposes an entry of the held leaf.** When `Pair` returns
    `(k, v)`, the cursor holds a leaf of the current tree and `(k, v)` is the entry at the
    cursor's index in that leaf — so it is stored in the tree at that moment, with its
    current value. -/
theorem C04_pair_is_stored_partial (t : Nat) (s s' : St K V) (k : K) (v : V)
    (h : startOp t s (.pair : COp K V) = (s', .done (.pair k v))) :
    ∃ (leaf : Nat) (i : Int) (l : Leaf K V),
      s.cursor = some (some leaf, i) ∧ (s.tree.find leaf).bind leafOf? = some l ∧ 0 ≤ i ∧
      l.keys[i.toNat]? = some k ∧ l.vals[i.toNat]? = some v ∧ s'.tree = s.tree := by
  simp only [startOp] at h
  split at h
  · rename_i leaf i hcur hex
    split at h
    · simp at h
    · rename_i l hl
      split at h
      · simp at h
      · rename_i hi
        split at h
        · rename_i k' v' hk hv
          simp only [Prod.mk.injEq, Flow.done.injEq, Res.pair.injEq] at h
          obtain ⟨rfl, rfl, rfl⟩ := h
          exact ⟨leaf, i, l, hcur, hl, by omega, hk, hv, rfl⟩
        · simp at h
  · simp at h

/-- **C04 (partial): cursor operations never write.** `scan`, `pair`, `close` and the hop
    leave the whole tree unchanged. -/
theorem C04_cursor_readonly_partial (P : Params K) (t : Nat) (s : St K V) :
    (startOp t s (.scan : COp K V)).1.tree = s.tree ∧
    (startOp t s (.pair : COp K V)).1.tree = s.tree ∧
    (startOp t s (.close : COp K V)).1.tree = s.tree ∧
    (∀ cur next, (resume P t s (.hop cur next)).1.tree = s.tree) := by
  refine ⟨?_, ?_, ?_, fun _ _ => rfl⟩
  · simp only [startOp]
    split
    · split
      · rfl
      · split
        · split <;> rfl
        · rfl
    · rfl
  · simp only [startOp]
    split
    · split
      · rfl
      · split
        · rfl
        · split <;> rfl
    · rfl
  · simp only [startOp]
    split
    · rfl
    · rename_i leaf? i _
      cases leaf? <;> rfl

/-- **C04 (partial): the hop is hand-over-hand.** Resuming a hop acquires the next leaf
    FIRST and only then releases the current one (events are logged newest first). -/
theorem C04_hop_order_partial (P : Params K) (t : Nat) (s : St K V) (cur next : Nat) :
    (resume P t s (.hop cur next)).1.evs = Ev.rel t (.node cur) :: Ev.acq t (.node next) :: s.evs := rfl

end Gobptree.Conc

#print axioms Gobptree.Conc.C04_pair_is_stored_partial
#print axioms Gobptree.Conc.C04_cursor_readonly_partial
#print axioms Gobptree.Conc.C04_hop_order_partial
