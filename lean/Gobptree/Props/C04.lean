import Gobptree.Ops
namespace Gobptree
theorem C04_placeholder : True := trivial
end Gobptree
#print axioms Gobptree.C04_placeholder
