/-
  C04 — cursor steps are atomic successor queries even while writers run.

  PROVED, for every key type and strict weak order, every initial tree satisfying the
  invariants (e.g. fresh), every family of disciplined client programs (writers incl. Delete
  and any number of cursors) and EVERY schedule:
    * `C04_cursor_invariant`: in every reachable configuration every open cursor is POSITIONED
      with respect to a bound — the start key (inclusive) until the first `Scan` has returned
      a pair, afterwards the last key returned (exclusive): its leaf is on the search path of
      the bound's key and inside the leaf exactly the pairs after the index are admitted;
    * `C04_ahead_spec` / `C04_successor`: for a positioned cursor, what lies AHEAD of it in
      leaf-chain order (`Tree.ahead`: the rest of its leaf, then all later leaves) is exactly
      the admitted part of the abstract map, so its first pair is the LEAST admitted key with
      the value stored at that moment, and nothing is ahead iff no stored key is admitted;
    * `C04_newScanner`: when `NewScanner(start)` returns, the cursor is positioned for
      `≥ start` and ahead of it lies `Spec.from map start`;
    * `C04_bound_persists`: steps of other threads (any writer, any borrow/merge/split)
      keep the SAME bound valid — the cursor's leaf is held, so its fields do not change, and
      it stays on the route of its bound's key (`StableRoutes`, with Delete via `ISep`);
    * `C04_scan`, `C04_hop`: a `Scan` that returns `true` consumes exactly the first pair
      ahead (inside the leaf in the step of the call; across leaves in the step that acquires
      the next leaf while the current one is still held) and the cursor is then positioned
      for `> that key`; a `Scan` that returns `false` had nothing ahead; the first half of a
      hop leaves what is ahead unchanged;
    * `C04_pair`: `Pair` returns the pair the cursor rests on, which is stored in the map at
      that moment with that value.
  Each of these happens in ONE step of the cursor's own thread, inside the call's interval:
  that step is the linearization point of the successor query.  Consequences: the keys a
  cursor returns are strictly increasing and ≥ start; a key ≥ start present for the whole
  scan is reported; a key never stored is never reported (`ahead ⊆ map`).
  Modelled, not verified: interleaving at lock-acquisition granularity.  On the
  implementation side the linearizability checker (Scan as a successor query) runs over all
  schedules of the writer-next-to-cursor catalogues and random schedules.
-/
import Gobptree.Proofs.ConcReach
import Gobptree.Proofs.CFinal2
import Gobptree.Proofs.CCur

namespace Gobptree.Conc
open Gobptree

variable {K V : Type}

section Full
variable (lt : K → K → Bool) (P : Params K) (tree : Tree K V) (progs : List (List (COp K V)))
  (hkp : KParams lt P) (ht : TreeOk none tree) (hord : OrdTree lt tree) (hsep : SepTree lt tree)
  (ho : tree.order = P.order) (hp : PadOk P) (hd : Disciplined progs)
  (hdel : 4 ≤ tree.order ∨ NoDelete progs)
include hkp ht hord hsep ho hp hd hdel

/-- **C04 (invariant).** Every open cursor is positioned with respect to some bound (in the
    form `CursorPosW` always; in the exact form `CursorPos` unless the thread is between the
    two halves of a hop, where the index has run past the leaf). -/
theorem C04_cursor_invariant (c : Config K V) (hr : Reachable (Config.init P tree progs) c) :
    ∀ th ∈ c.threads, CursorPosW lt c.tree th ∧ (isHop th.park = false → CursorPos lt c.tree th) :=
  reachable_cursorPos kblocks_ok lt P tree progs hkp ht hord hsep ho hp hd hdel c hr

/-- **C04 (what a positioned cursor has ahead).** In a reachable configuration, for a cursor
    positioned w.r.t. bound `b`: ahead of it lies exactly the admitted part of the map. -/
theorem C04_ahead_spec (c : Config K V) (hr : Reachable (Config.init P tree progs) c)
    (b : Bound K) (leaf : Nat) (i : Int) (hpos : CurPosW lt c.tree b leaf i) :
    c.tree.ahead leaf i = c.tree.abs.filter (fun p => b.admits lt p.1) :=
  let h := reachable_kfinv' lt P tree progs hkp ht hord hsep ho hp hd hdel c hr
  hpos.aheadSpec h.kp.swo h.cinv.s.tree h.kinv.ord

/-- **C04 (successor).** The first pair ahead of a positioned cursor is the least admitted key
    of the map, with the value stored for it now; nothing is ahead iff no key is admitted. -/
theorem C04_successor (c : Config K V) (hr : Reachable (Config.init P tree progs) c)
    (b : Bound K) (leaf : Nat) (i : Int) (hpos : CurPosW lt c.tree b leaf i) :
    (∀ k v rest, c.tree.ahead leaf i = (k, v) :: rest →
      b.admits lt k = true ∧ (k, v) ∈ c.tree.abs ∧ Spec.lookup lt c.tree.abs k = some v ∧
      ∀ p ∈ c.tree.abs, b.admits lt p.1 = true → p = (k, v) ∨ lt k p.1 = true) ∧
    (c.tree.ahead leaf i = [] ↔ ∀ p ∈ c.tree.abs, b.admits lt p.1 = false) :=
  let h := reachable_kfinv' lt P tree progs hkp ht hord hsep ho hp hd hdel c hr
  ⟨fun _ _ _ hh => hpos.head_least h.kp.swo h.cinv.s.tree h.kinv.ord hh,
   hpos.ahead_nil_iff h.kp.swo h.cinv.s.tree h.kinv.ord⟩

/-- **C04 (NewScanner).** The step in which `NewScanner(start)` reaches its leaf returns, does
    not touch the tree, and leaves the cursor positioned for `≥ start` with
    `Spec.from map start` ahead of it. -/
theorem C04_newScanner (c c' : Config K V) (hr : Reachable (Config.init P tree progs) c) (t : Nat)
    (hstep : c.step t = some c') {th : Thread K V} (hth : c.threads[t]? = some th)
    {l : Lk} {start : K} {hold : Lk} {want : Nat} (hpk : th.park = .want l (.roNode true start hold want))
    {sh : Shallow K V} (hl : c.tree.look want = some sh) (h0 : sh.height = 0) :
    c'.tree = c.tree ∧
    ∃ lf : Leaf K V, c.tree.find want = some ⟨0, lf⟩ ∧
      (resume c.P t (stepSt c t th) (.roNode true start hold want)).2 = .done .ok ∧
      (resume c.P t (stepSt c t th) (.roNode true start hold want)).1.cursor =
        some (some want, (startIndex c.P {} start lf : Int) - 1) ∧
      CurPos lt c'.tree (.ge start) want ((startIndex c.P {} start lf : Int) - 1) ∧
      c'.tree.ahead want ((startIndex c.P {} start lf : Int) - 1) = Spec.from lt c'.tree.abs start :=
  step_newScanner kblocks_ok lt P tree progs hkp ht hord hsep ho hp hd hdel c c' hr t hstep hth hpk hl h0

/-- **C04 (the bound persists).** A step of ANOTHER thread — any writer, with whatever splits,
    borrows, merges it performs — keeps the same bound valid for a resting cursor. -/
theorem C04_bound_persists (c c' : Config K V) (hr : Reachable (Config.init P tree progs) c) (t j : Nat)
    (hstep : c.step t = some c') (b : Thread K V) (hj : c.threads[j]? = some b) (hne : j ≠ t)
    {leaf : Nat} {i : Int} (hcur : b.cursor = some (some leaf, i)) {bd : Bound K}
    (hpos : CurPosW lt c.tree bd leaf i) : CurPosW lt c'.tree bd leaf i := by
  have h := reachable_kfinv' lt P tree progs hkp ht hord hsep ho hp hd hdel c hr
  obtain ⟨_, th, hth, hframe⟩ := step_cinv blocks_ok c c' t hstep h.cinv
  obtain ⟨th', hth', hen, _⟩ := step_shape hstep
  rw [hth] at hth'; cases hth'
  exact other_curPosW h.cinv hth hj hne hen hframe (step_stable_routes kblocks_ok lt c c' t hstep h th hth) hcur hpos

/-- **C04 (Scan).** A `Scan` executed in a reachable step, with `(leaf, i)` the cursor before the
    call, on the tree the step ends in: it returns `true` inside the leaf having consumed the
    first pair ahead (the cursor now rests on it and is positioned for `>` its key); or it
    returns `false` and nothing lay ahead; or it parks for the next leaf with the same pairs
    ahead (the hop's second half is `C04_hop`). -/
theorem C04_scan (c c' : Config K V) (hr : Reachable (Config.init P tree progs) c) (t : Nat)
    (hstep : c.step t = some c') {s1 : St K V} {n : Nat} (hx : StepExec c t s1 .scan n)
    {leaf : Nat} {i : Int} (hcur : s1.cursor = some (some leaf, i)) (hex : s1.exhausted = false) :
    ∃ sh, c'.tree.look leaf = some sh ∧ sh.height = 0 ∧ (∃ b, CurPos lt c'.tree b leaf i) ∧
      ((startOp t s1 .scan = ({ s1 with cursor := some (some leaf, i + 1) }, .done (.bool true)) ∧
          ∃ k v, sh.keys[(i + 1).toNat]? = some k ∧ sh.vals[(i + 1).toNat]? = some v ∧
            c'.tree.ahead leaf i = (k, v) :: c'.tree.ahead leaf (i + 1) ∧
            CurPos lt c'.tree (.gt k) leaf (i + 1)) ∨
        (startOp t s1 .scan =
            ({ (s1.rel t (.node leaf)) with cursor := some (none, i + 1), exhausted := true }, .done (.bool false)) ∧
          c'.tree.ahead leaf i = []) ∨
        (∃ nx, startOp t s1 .scan =
            ({ s1 with cursor := some (some leaf, i + 1) }, .park (.want (.node nx) (.hop leaf nx))) ∧
          c'.tree.ahead leaf (i + 1) = c'.tree.ahead leaf i)) :=
  exec_scan kblocks_ok lt P tree progs hkp ht hord hsep ho hp hd hdel c c' hr t hstep hx hcur hex

/-- **C04 (hop).** The step that acquires the next leaf (the current one still held) returns
    `true`, does not touch the tree, and consumes exactly the first pair ahead: the cursor
    rests on the first pair of the next leaf, positioned for `>` its key. -/
theorem C04_hop (c c' : Config K V) (hr : Reachable (Config.init P tree progs) c) (t : Nat)
    (hstep : c.step t = some c') {th : Thread K V} (hth : c.threads[t]? = some th)
    {l : Lk} {cur next : Nat} (hpk : th.park = .want l (.hop cur next)) :
    c'.tree = c.tree ∧
    (resume c.P t (stepSt c t th) (.hop cur next)).2 = .done (.bool true) ∧
    (resume c.P t (stepSt c t th) (.hop cur next)).1.cursor = some (some next, 0) ∧
    ∃ i shn k v, th.cursor = some (some cur, i) ∧ (∃ b, CurPosW lt c.tree b cur i) ∧
      c'.tree.look next = some shn ∧ shn.height = 0 ∧ shn.keys[0]? = some k ∧ shn.vals[0]? = some v ∧
      c.tree.ahead cur i = (k, v) :: c'.tree.ahead next 0 ∧ CurPos lt c'.tree (.gt k) next 0 :=
  step_hop kblocks_ok lt P tree progs hkp ht hord hsep ho hp hd hdel c c' hr t hstep hth hpk

/-- **C04 (Pair).** `Pair` returns the pair the cursor rests on; it is an entry of the map at
    that moment, with the value stored for it now. -/
theorem C04_pair (c c' : Config K V) (hr : Reachable (Config.init P tree progs) c) (t : Nat)
    (hstep : c.step t = some c') {s1 : St K V} {n : Nat} (hx : StepExec c t s1 .pair n)
    {leaf : Nat} {i : Int} (hcur : s1.cursor = some (some leaf, i)) (hex : s1.exhausted = false) (hi : 0 ≤ i) :
    ∃ sh k v, c'.tree.look leaf = some sh ∧ startOp t s1 .pair = (s1, .done (.pair k v)) ∧
      sh.keys[i.toNat]? = some k ∧ sh.vals[i.toNat]? = some v ∧ (k, v) ∈ c'.tree.abs ∧
      Spec.lookup lt c'.tree.abs k = some v :=
  exec_pair kblocks_ok lt P tree progs hkp ht hord hsep ho hp hd hdel c c' hr t hstep hx hcur hex hi

end Full

/-- **C04 (partial): `Pair` exposes an entry of the held leaf.** When `Pair` returns
    `(k, v)`, the cursor holds a leaf of the current tree and `(k, v)` is the entry at the
    cursor's index in that leaf — so it is stored in the tree at that moment, with its
    current value. -/
theorem C04_pair_is_stored_partial (t : Nat) (s s' : St K V) (k : K) (v : V)
    (h : startOp t s (.pair : COp K V) = (s', .done (.pair k v))) :
    ∃ (leaf : Nat) (i : Int) (l : Leaf K V),
      s.cursor = some (some leaf, i) ∧ (s.tree.find leaf).bind leafOf? = some l ∧ 0 ≤ i ∧
      l.keys[i.toNat]? = some k ∧ l.vals[i.toNat]? = some v ∧ s'.tree = s.tree := by
  simp only [startOp] at h
  split at h
  · rename_i leaf i hcur hex
    split at h
    · simp at h
    · rename_i l hl
      split at h
      · simp at h
      · rename_i hi
        split at h
        · rename_i k' v' hk hv
          simp only [Prod.mk.injEq, Flow.done.injEq, Res.pair.injEq] at h
          obtain ⟨rfl, rfl, rfl⟩ := h
          exact ⟨leaf, i, l, hcur, hl, by omega, hk, hv, rfl⟩
        · simp at h
  · simp at h

/-- **C04 (partial): cursor operations never write.** `scan`, `pair`, `close` and the hop
    leave the whole tree unchanged. -/
theorem C04_cursor_readonly_partial (P : Params K) (t : Nat) (s : St K V) :
    (startOp t s (.scan : COp K V)).1.tree = s.tree ∧
    (startOp t s (.pair : COp K V)).1.tree = s.tree ∧
    (startOp t s (.close : COp K V)).1.tree = s.tree ∧
    (∀ cur next, (resume P t s (.hop cur next)).1.tree = s.tree) := by
  refine ⟨?_, ?_, ?_, fun _ _ => rfl⟩
  · simp only [startOp]
    split
    · split
      · rfl
      · split
        · split <;> rfl
        · rfl
    · rfl
  · simp only [startOp]
    split
    · split
      · rfl
      · split
        · rfl
        · split <;> rfl
    · rfl
  · simp only [startOp]
    split
    · rfl
    · rename_i leaf? i _
      cases leaf? <;> rfl

/-- **C04 (partial): the hop is hand-over-hand.** Resuming a hop acquires the next leaf
    FIRST and only then releases the current one (events are logged newest first). -/
theorem C04_hop_order_partial (P : Params K) (t : Nat) (s : St K V) (cur next : Nat) :
    (resume P t s (.hop cur next)).1.evs = Ev.rel t (.node cur) :: Ev.acq t (.node next) :: s.evs := rfl

end Gobptree.Conc

#print axioms Gobptree.Conc.C04_pair_is_stored_partial
#print axioms Gobptree.Conc.C04_cursor_readonly_partial
#print axioms Gobptree.Conc.C04_hop_order_partial
#print axioms Gobptree.Conc.C04_cursor_invariant
#print axioms Gobptree.Conc.C04_ahead_spec
#print axioms Gobptree.Conc.C04_successor
#print axioms Gobptree.Conc.C04_newScanner
#print axioms Gobptree.Conc.C04_bound_persists
#print axioms Gobptree.Conc.C04_scan
#print axioms Gobptree.Conc.C04_hop
#print axioms Gobptree.Conc.C04_pair
