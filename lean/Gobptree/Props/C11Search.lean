/-
  C11, the part of the tie that is REGENERATED.  `Generated/SearchGen.lean` is written from
  int32.go … comparable.go by harness/cmd/gen_search on every run: the twelve binary searches as
  the code states them now (Go `int` as `Int`, a slice index outside the slice as an error, every
  `goto loop` consuming fuel).  The translation itself establishes that the searches look at keys
  only through `<`/`>` (builtin types) or `Less` (Comparable) — the parameter `lt`.  Go's `int` is translated
  as the 64-bit two's complement integer (`w64` wraps every + - *), so the classical overflow of
  `(lo + hi) >> 1` is in the translation; the theorems exclude it by `len(values) < 2^62` (a slice of
  2^62 keys does not fit in any address space Go supports).  They say that for EVERY comparison `lt`
  (no order axioms needed), key and slice below that length, each translated search raises no index panic, terminates within `len + 1` jumps and returns exactly what the
  model's `searchGE`/`searchLE` (on which C01, C02, C08, C11 are proved) returns.
-/
import Gobptree.Proofs.GenSearch

namespace Gobptree
open Generated

variable {K : Type}

theorem C11_int32_loop : GenLoopEq (K := K) Int32.searchGE.loop := by gen_loop_proof Int32.searchGE.loop
theorem C11_int64_loop : GenLoopEq (K := K) Int64.searchGE.loop := by gen_loop_proof Int64.searchGE.loop
theorem C11_uint32_loop : GenLoopEq (K := K) UInt32.searchGE.loop := by gen_loop_proof UInt32.searchGE.loop
theorem C11_uint64_loop : GenLoopEq (K := K) UInt64.searchGE.loop := by gen_loop_proof UInt64.searchGE.loop
theorem C11_string_loop : GenLoopEq (K := K) Str.searchGE.loop := by gen_loop_proof Str.searchGE.loop
theorem C11_comparable_loop : GenLoopEq (K := K) Cmp.searchGE.loop := by gen_loop_proof Cmp.searchGE.loop

/-- **C11 (search, regenerated).** `<t>SearchGreaterThanOrEqualTo` as the code states it equals the model's `searchGE`. -/
theorem C11_int32_searchGE : GenGEEq (K := K) Int32.searchGE := by gen_ge_proof Int32.searchGE C11_int32_loop
theorem C11_int64_searchGE : GenGEEq (K := K) Int64.searchGE := by gen_ge_proof Int64.searchGE C11_int64_loop
theorem C11_uint32_searchGE : GenGEEq (K := K) UInt32.searchGE := by gen_ge_proof UInt32.searchGE C11_uint32_loop
theorem C11_uint64_searchGE : GenGEEq (K := K) UInt64.searchGE := by gen_ge_proof UInt64.searchGE C11_uint64_loop
theorem C11_string_searchGE : GenGEEq (K := K) Str.searchGE := by gen_ge_proof Str.searchGE C11_string_loop
theorem C11_comparable_searchGE : GenGEEq (K := K) Cmp.searchGE := by gen_ge_proof Cmp.searchGE C11_comparable_loop

/-- **C11 (search, regenerated).** `<t>SearchLessThanOrEqualTo` as the code states it equals the model's `searchLE`. -/
theorem C11_int32_searchLE : GenLEEq (K := K) Int32.searchLE := by gen_le_proof Int32.searchLE C11_int32_searchGE
theorem C11_int64_searchLE : GenLEEq (K := K) Int64.searchLE := by gen_le_proof Int64.searchLE C11_int64_searchGE
theorem C11_uint32_searchLE : GenLEEq (K := K) UInt32.searchLE := by gen_le_proof UInt32.searchLE C11_uint32_searchGE
theorem C11_uint64_searchLE : GenLEEq (K := K) UInt64.searchLE := by gen_le_proof UInt64.searchLE C11_uint64_searchGE
theorem C11_string_searchLE : GenLEEq (K := K) Str.searchLE := by gen_le_proof Str.searchLE C11_string_searchGE
theorem C11_comparable_searchLE : GenLEEq (K := K) Cmp.searchLE := by gen_le_proof Cmp.searchLE C11_comparable_searchGE

/-- end to end, for the code's own text: on a sorted slice and a strict weak order the translated
    Comparable search returns the lower-bound position (clamped to the last index), having used
    nothing but `Less` -/
theorem C11_comparable_searchGE_spec (lt : K → K → Bool) (h : SWO lt) (key : K) (vs : List K)
    (hs : Sorted lt vs) (hlen : vs.length < 2 ^ 62) :
    ∃ r : Nat, Cmp.searchGE lt key vs = .ok (r : Int) ∧
      (∀ i (hi : i < vs.length), i < r → lt vs[i] key = true) ∧
      (∀ (hr : r + 1 < vs.length), lt (vs[r]'(by omega)) key = false) :=
  ⟨searchGE lt key vs, C11_comparable_searchGE lt key vs hlen, searchGE_spec h key vs hs⟩

/-- the statements are not vacuous: a concrete run of the translated code -/
example : Int64.searchGE (fun a b : Nat => decide (a < b)) 7 [1, 3, 7, 9, 11] = .ok 2 := by rfl
example : UInt32.searchLE (fun a b : Nat => decide (a < b)) 8 [1, 3, 7, 9, 11] = .ok 2 := by rfl
example : Cmp.searchLE (fun a b : Nat => decide (a < b)) 0 [1, 3, 7] = .ok 0 := by rfl

end Gobptree

#print axioms Gobptree.C11_int32_searchGE
#print axioms Gobptree.C11_int64_searchGE
#print axioms Gobptree.C11_uint32_searchGE
#print axioms Gobptree.C11_uint64_searchGE
#print axioms Gobptree.C11_string_searchGE
#print axioms Gobptree.C11_comparable_searchGE
#print axioms Gobptree.C11_int32_searchLE
#print axioms Gobptree.C11_int64_searchLE
#print axioms Gobptree.C11_uint32_searchLE
#print axioms Gobptree.C11_uint64_searchLE
#print axioms Gobptree.C11_string_searchLE
#print axioms Gobptree.C11_comparable_searchLE
#print axioms Gobptree.C11_comparable_searchGE_spec
