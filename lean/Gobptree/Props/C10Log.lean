/-
  C10, log form ("at every instant"): the statement left as a definition in `Props/C10.lean`
  is a theorem (`Proofs/CHeldTrace.lean`).  Kept in its own module because the proof imports
  `Props/C10.lean` for the definitions `heldTrace` and `C10_every_instant_statement`.
-/
import Gobptree.Proofs.CHeldTrace

namespace Gobptree.Conc
open Gobptree

variable {K V : Type}

/-- **C10 (every instant).** For programs without Delete, in every reachable configuration
    without a panic, every prefix of every thread's lock events leaves it holding at most three
    mutexes (a parent, a child, and the sibling a split has just created). -/
theorem C10_every_instant_log (P : Params K) (tree : Tree K V) (progs : List (List (COp K V)))
    (hnd : ∀ p ∈ progs, ∀ op ∈ p, match op with | .del _ => False | _ => True)
    (c : Config K V) (hr : Reachable (Config.init P tree progs) c) (hd : c.dead = false) :
    ∀ t, ∀ h ∈ heldTrace t c.log.reverse [], h.length ≤ 3 :=
  every_instant P tree progs hnd c hr hd

theorem C10_every_instant_statement_holds : C10_every_instant_statement := C10_every_instant

end Gobptree.Conc

#print axioms Gobptree.Conc.C10_every_instant_log
#print axioms Gobptree.Conc.C10_every_instant_statement_holds
