/-
  C08, the two formulations of the shape invariant agree at quiescence.  The sequential layer
  states C08 as `TreeInv` (recursive `WF` with key ranges + the leaf chain `Linked`) and `IdsInv`;
  the concurrent layer as `TreeOk none` (flat view: identities, occupancy, chain) and `OrdTree`.
  Own module: the bridge imports `Props/C02.lean`.
-/
import Gobptree.Proofs.CBridge

namespace Gobptree.Conc
open Gobptree

variable {K V : Type}

/-- the concurrent invariants of a tree nobody works on give the sequential shape invariant -/
theorem C08_concurrent_invariant_gives_sequential (lt : K → K → Bool) (h : SWO lt) (t : Tree K V)
    (hok : TreeOk none t) (hord : OrdTree lt t) : TreeInv lt t ∧ IdsInv t :=
  treeInv_of_concurrent lt h t hok hord

/-- **C08 (quiescent, sequential formulation).** After ANY concurrent execution of disciplined
    programs has come to rest the tree satisfies `TreeInv` — sorted nodes, separators bounding
    their subtrees, occupancy between `order/2` and `order` (root: ≥ 2 children or a leaf),
    uniform depth (by typing), the leaf chain linking all leaves in order — and `IdsInv`. -/
theorem C08_shape_after_concurrent (lt : K → K → Bool) (P : Params K) (tree : Tree K V) (progs : List (List (COp K V)))
    (hkp : KParams lt P) (ht : TreeOk none tree) (hord : OrdTree lt tree) (hsep : SepTree lt tree)
    (ho : tree.order = P.order) (hp : PadOk P) (hd : Disciplined progs) (hdel : 4 ≤ tree.order ∨ NoDelete progs)
    (c : Config K V) (hr : Reachable (Config.init P tree progs) c) (hq : AtRest c) :
    TreeInv lt c.tree ∧ IdsInv c.tree ∧ c.tree.order = P.order :=
  treeInv_after_concurrent lt P tree progs hkp ht hord hsep ho hp hd hdel c hr hq

end Gobptree.Conc

#print axioms Gobptree.Conc.C08_concurrent_invariant_gives_sequential
#print axioms Gobptree.Conc.C08_shape_after_concurrent
