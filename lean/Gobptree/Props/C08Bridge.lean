/-
  C08, the two formulations of the shape invariant agree at quiescence.  The sequential layer
  states C08 as `TreeInv` (recursive `WF` with key ranges + the leaf chain `Linked`) and `IdsInv`;
  the concurrent layer as `TreeOk none` (flat view: identities, occupancy, chain) and `OrdTree`.
  Own module: the bridge imports `Props/C02.lean`.
-/
import Gobptree.Proofs.CBridge
import Gobptree.Proofs.CNoLock

namespace Gobptree.Conc
open Gobptree

variable {K V : Type}

/-- the concurrent invariants of a tree nobody works on give the sequential shape invariant -/
theorem C08_concurrent_invariant_gives_sequential (lt : K → K → Bool) (h : SWO lt) (t : Tree K V)
    (hok : TreeOk none t) (hord : OrdTree lt t) : TreeInv lt t ∧ IdsInv t :=
  treeInv_of_concurrent lt h t hok hord

/-- **C08 (quiescent, sequential formulation).** After ANY concurrent execution of disciplined
    programs has come to rest the tree satisfies `TreeInv` — sorted nodes, separators bounding
    their subtrees, occupancy between `order/2` and `order` (root: ≥ 2 children or a leaf),
    uniform depth (by typing), the leaf chain linking all leaves in order — and `IdsInv`. -/
theorem C08_shape_after_concurrent (lt : K → K → Bool) (P : Params K) (tree : Tree K V) (progs : List (List (COp K V)))
    (hkp : KParams lt P) (ht : TreeOk none tree) (hord : OrdTree lt tree) (hsep : SepTree lt tree)
    (ho : tree.order = P.order) (hp : PadOk P) (hd : Disciplined progs) (hdel : 4 ≤ tree.order ∨ NoDelete progs)
    (c : Config K V) (hr : Reachable (Config.init P tree progs) c) (hq : AtRest c) :
    TreeInv lt c.tree ∧ IdsInv c.tree ∧ c.tree.order = P.order :=
  treeInv_after_concurrent lt P tree progs hkp ht hord hsep ho hp hd hdel c hr hq

/-- **C08 (quiescent instant = no mutex held).** An operation in flight always holds a mutex
    (`idle_of_held_nil`: a thread holding nothing has not started, has finished, waits for
    rootMutex at the very beginning of an operation, or pauses without a cursor).  So in EVERY
    reachable configuration in which no thread holds a mutex — in the middle of a concurrent run,
    not only at its end — the tree satisfies the full shape invariant, in both formulations.
    This is the criterion the implementation-side shape oracle uses inside concurrent runs. -/
theorem C08_shape_when_no_lock_held (lt : K → K → Bool) (P : Params K) (tree : Tree K V) (progs : List (List (COp K V)))
    (hkp : KParams lt P) (ht : TreeOk none tree) (hord : OrdTree lt tree) (hsep : SepTree lt tree)
    (ho : tree.order = P.order) (hp : PadOk P) (hd : Disciplined progs) (hdel : 4 ≤ tree.order ∨ NoDelete progs)
    (c : Config K V) (hr : Reachable (Config.init P tree progs) c) (hq : NoLockHeld c) :
    (TreeOk none c.tree ∧ OrdTree lt c.tree ∧ SepTree lt c.tree ∧ c.tree.order = P.order) ∧
    (TreeInv lt c.tree ∧ IdsInv c.tree) :=
  ⟨reachable_nolock_tree_ok lt P tree progs hkp ht hord hsep ho hp hd hdel c hr hq,
   let r := reachable_nolock_treeInv lt P tree progs hkp ht hord hsep ho hp hd hdel c hr hq
   ⟨r.1, r.2.1⟩⟩

/-- `AtRest` alone does not give `NoLockHeld`: a thread may end with its cursor open -/
example := @atRest_not_noLockHeld

end Gobptree.Conc

#print axioms Gobptree.Conc.C08_concurrent_invariant_gives_sequential
#print axioms Gobptree.Conc.C08_shape_after_concurrent
#print axioms Gobptree.Conc.C08_shape_when_no_lock_held
