/-
  Single-thread agreement, part 12: the sequential model keeps ALL node identities pairwise
  distinct and below the allocation counter (`IdsOk`).  Read off the code; no key order, no
  occupancy invariant.  (`Proofs/Ids.lean` / `IdsDelete.lean` have this for leaf identities.)
-/
import Gobptree.Proofs.CSoloOp

namespace Gobptree.Conc
open Gobptree

variable {K V : Type}

theorem count_flatMap_two {d : Nat} (A B : List (Node K V d)) (x y : Node K V d) (a : Nat) :
    ((A ++ x :: y :: B).flatMap nids).count a =
      (A.flatMap nids).count a + (nids x).count a + (nids y).count a + (B.flatMap nids).count a := by
  simp only [List.flatMap_append, List.flatMap_cons, List.count_append]
  omega

theorem count_flatMap_one {d : Nat} (A B : List (Node K V d)) (x : Node K V d) (a : Nat) :
    ((A ++ x :: B).flatMap nids).count a =
      (A.flatMap nids).count a + (nids x).count a + (B.flatMap nids).count a := by
  simp only [List.flatMap_append, List.flatMap_cons, List.count_append]
  omega

/-! ### Insert / Update -/

/-- the descent adds at most the identities `[nid, nid')`, each once -/
def UpCount (P : Params K) (key : K) (f : Option V → V) (d : Nat) : Prop :=
  ∀ (x : Node K V d) (nid : Nat) (x' : Node K V d) (nid' : Nat) (cb : Option V),
    upsertNode P key f d x nid = .ok (x', nid', cb) →
    nid ≤ nid' ∧ ∀ a, (nids x').count a ≤ (nids x).count a + (if nid ≤ a ∧ a < nid' then 1 else 0)

theorem upsertNode_count_leaf (P : Params K) (key : K) (f : Option V → V) (x x' : Leaf K V) (nid nid' : Nat) (cb : Option V)
    (h : upsertNode P key f 0 x nid = .ok (x', nid', cb)) :
    nid ≤ nid' ∧ ∀ a, (nids (d := 0) x').count a ≤ (nids (d := 0) x).count a + (if nid ≤ a ∧ a < nid' then 1 else 0) := by
  obtain ⟨hl, hn⟩ := upsertNode_zero_inv P key f x nid x' nid' cb h
  subst hn
  have hid := Leaf.upsert_id P x x' key f cb hl
  refine ⟨Nat.le_refl _, fun a => ?_⟩
  rw [nids_leaf, nids_leaf, hid]; omega

theorem upsertNode_count_inner (P : Params K) (key : K) (f : Option V → V) (d : Nat) (ih : UpCount (V := V) P key f d)
    (p p' : Inner K (Node K V d)) (nid nid' : Nat) (cb : Option V)
    (h : upsertNode P key f (d + 1) p nid = .ok (p', nid', cb)) :
    nid ≤ nid' ∧ ∀ a, (nids (d := d + 1) p').count a ≤ (nids (d := d + 1) p).count a +
      (if nid ≤ a ∧ a < nid' then 1 else 0) := by
  obtain ⟨child, runts, hk, hlf, hcase⟩ := upsertNode_succ_inv P key f p nid p' nid' cb h
  obtain ⟨A, B, hkids, hA⟩ := kids_split _ _ _ hk
  generalize searchLE P.lt key p.runts = idx at hk hlf hcase hA
  obtain ⟨pid, prunts, pkids⟩ := p
  simp only at hkids
  subst hkids
  subst hA
  cases hcase with
  | nosplit c' hms hrec hp' =>
    obtain ⟨hle, hc⟩ := ih child nid c' nid' cb hrec
    refine ⟨hle, fun a => ?_⟩
    have h1 := hc a
    subst hp'
    simp only
    rw [form_set_pivot', count_nids_split, count_nids_split]
    omega
  | right left right pad rs c' hms hpad hrs hlt hrec hp' =>
    obtain ⟨hlid, hrid, hsplit⟩ := maybeSplit_some_facts _ _ _ _ _ hms
    obtain ⟨hle, hc⟩ := ih right (nid + 1) c' nid' cb hrec
    refine ⟨by omega, fun a => ?_⟩
    have h1 := hc a
    have h2 := hsplit a
    subst hp'
    simp only
    rw [form_insert_next', form_set_pivot', form_set_next', count_nids_split, count_nids_split, List.flatMap_cons,
      List.count_append]
    have i1 := ite01 (nid = a)
    have i2 := ite01 (nid + 1 ≤ a ∧ a < nid')
    have i3 := ite01 (nid ≤ a ∧ a < nid')
    omega
  | left left right pad rs c' hms hpad hrs hlt hrec hp' =>
    obtain ⟨hlid, hrid, hsplit⟩ := maybeSplit_some_facts _ _ _ _ _ hms
    obtain ⟨hle, hc⟩ := ih left (nid + 1) c' nid' cb hrec
    refine ⟨by omega, fun a => ?_⟩
    have h1 := hc a
    have h2 := hsplit a
    subst hp'
    simp only
    rw [form_insert_next', form_set_pivot', form_set_pivot', count_nids_split, count_nids_split, List.flatMap_cons,
      List.count_append]
    have i1 := ite01 (nid = a)
    have i2 := ite01 (nid + 1 ≤ a ∧ a < nid')
    have i3 := ite01 (nid ≤ a ∧ a < nid')
    omega

theorem upsertNode_count (P : Params K) (key : K) (f : Option V → V) : ∀ d, UpCount (V := V) P key f d
  | 0 => fun x nid x' nid' cb h => upsertNode_count_leaf P key f x x' nid nid' cb h
  | d + 1 => fun x nid x' nid' cb h => upsertNode_count_inner P key f d (upsertNode_count P key f d) x x' nid nid' cb h

/-- `IdsOk`, by counting -/
theorem idsOk_iff {t : Tree K V} :
    IdsOk t ↔ ∀ a, (nids t.root).count a ≤ 1 ∧ (0 < (nids t.root).count a → a < t.nextId) := by
  constructor
  · intro h a
    exact ⟨List.nodup_iff_count.1 h.1 a, fun hp => h.2 a (List.count_pos_iff.1 hp)⟩
  · intro h
    exact ⟨List.nodup_iff_count.2 fun a => (h a).1, fun a ha => (h a).2 (List.count_pos_iff.2 ha)⟩

theorem Tree.upsert_idsOk (P : Params K) (key : K) (f : Option V → V) (t t' : Tree K V) (cb : Option V)
    (hids : IdsOk t) (h : t.upsert P key f = .ok (t', cb)) : IdsOk t' ∧ t'.order = t.order := by
  rw [idsOk_iff] at hids
  cases Tree.upsert_inv P key f t t' cb h with
  | nosplit r' nid' hms hrec ht' =>
    obtain ⟨hle, hc⟩ := upsertNode_count P key f _ _ _ _ _ _ hrec
    subst ht'
    refine ⟨idsOk_iff.2 fun a => ?_, rfl⟩
    have h1 := hc a
    have h2 := hids a
    have i3 := ite01 (t.nextId ≤ a ∧ a < nid')
    show (nids r').count a ≤ 1 ∧ (0 < (nids r').count a → a < nid')
    omega
  | right left right ls rs c' nid' hms hls hrs hlt hrec ht' =>
    obtain ⟨hlid, hrid, hsplit⟩ := maybeSplit_some_facts _ _ _ _ _ hms
    obtain ⟨hle, hc⟩ := upsertNode_count P key f _ _ _ _ _ _ hrec
    subst ht'
    refine ⟨idsOk_iff.2 fun a => ?_, rfl⟩
    have h1 := hc a
    have h2 := hids a
    have h3 := hsplit a
    show (nids (d := t.depth + 1) (⟨t.nextId + 1, [if P.lt key ls then key else ls, rs], [left, c']⟩ :
        Inner K (Node K V t.depth))).count a ≤ 1 ∧
      (0 < (nids (d := t.depth + 1) (⟨t.nextId + 1, [if P.lt key ls then key else ls, rs], [left, c']⟩ :
        Inner K (Node K V t.depth))).count a → a < nid')
    rw [nids_mk]
    simp only [List.flatMap_cons, List.flatMap_nil, List.append_nil, List.count_cons, List.count_append, beq_iff_eq]
    have i1 := ite01 (t.nextId = a)
    have i2 := ite01 (t.nextId + 1 = a)
    have i3 := ite01 (t.nextId + 2 ≤ a ∧ a < nid')
    omega
  | left left right ls rs c' nid' hms hls hrs hlt hrec ht' =>
    obtain ⟨hlid, hrid, hsplit⟩ := maybeSplit_some_facts _ _ _ _ _ hms
    obtain ⟨hle, hc⟩ := upsertNode_count P key f _ _ _ _ _ _ hrec
    subst ht'
    refine ⟨idsOk_iff.2 fun a => ?_, rfl⟩
    have h1 := hc a
    have h2 := hids a
    have h3 := hsplit a
    show (nids (d := t.depth + 1) (⟨t.nextId + 1, [if P.lt key ls then key else ls, rs], [c', right]⟩ :
        Inner K (Node K V t.depth))).count a ≤ 1 ∧
      (0 < (nids (d := t.depth + 1) (⟨t.nextId + 1, [if P.lt key ls then key else ls, rs], [c', right]⟩ :
        Inner K (Node K V t.depth))).count a → a < nid')
    rw [nids_mk]
    simp only [List.flatMap_cons, List.flatMap_nil, List.append_nil, List.count_cons, List.count_append, beq_iff_eq]
    have i1 := ite01 (t.nextId = a)
    have i2 := ite01 (t.nextId + 1 = a)
    have i3 := ite01 (t.nextId + 2 ≤ a ∧ a < nid')
    omega

/-! ### Delete -/

theorem adoptFromRight_count_leaf (left right l' r' : Leaf K V)
    (h : Node.adoptFromRight (d := 0) left right = .ok (l', r')) (a : Nat) :
    (nids (d := 0) l').count a + (nids (d := 0) r').count a ≤ (nids (d := 0) left).count a + (nids (d := 0) right).count a := by
  simp only [Node.adoptFromRight] at h
  split at h
  · cases h; exact Nat.le_refl _
  · cases h

theorem adoptFromRight_count_inner {d : Nat} (left right l' r' : Inner K (Node K V d))
    (h : Node.adoptFromRight (d := d + 1) left right = .ok (l', r')) (a : Nat) :
    (nids (d := d + 1) l').count a + (nids (d := d + 1) r').count a ≤
      (nids (d := d + 1) left).count a + (nids (d := d + 1) right).count a := by
  simp only [Node.adoptFromRight] at h
  split at h
  · rename_i k c hk hc
    cases h
    obtain ⟨x, y, hxy, hx⟩ := split_one _ _ _ hc
    have hx' : x = [] := List.length_eq_zero_iff.mp hx
    subst hx'
    rw [nids_mk, nids_mk, nids_inner, nids_inner, popFrontIdiom_eq, hxy]
    simp only [List.nil_append, List.drop_succ_cons, List.drop_zero, List.flatMap_append, List.flatMap_cons,
      List.flatMap_nil, List.append_nil, List.count_cons, List.count_append]
    omega
  · cases h

theorem adoptFromRight_count : ∀ {d : Nat} (left right l' r' : Node K V d),
    Node.adoptFromRight left right = .ok (l', r') → ∀ a,
    (nids l').count a + (nids r').count a ≤ (nids left).count a + (nids right).count a
  | 0, left, right, l', r', h => adoptFromRight_count_leaf left right l' r' h
  | _ + 1, left, right, l', r', h => adoptFromRight_count_inner left right l' r' h

theorem adoptFromLeft_count_leaf (P : Params K) (left right l' r' : Leaf K V)
    (h : Node.adoptFromLeft (d := 0) P left right = .ok (l', r')) (a : Nat) :
    (nids (d := 0) l').count a + (nids (d := 0) r').count a ≤ (nids (d := 0) left).count a + (nids (d := 0) right).count a := by
  simp only [Node.adoptFromLeft] at h
  split at h
  · cases h
  · split at h
    · cases h
    · split at h
      · cases h; exact Nat.le_refl _
      · cases h

theorem adoptFromLeft_count_inner (P : Params K) {d : Nat} (left right l' r' : Inner K (Node K V d))
    (h : Node.adoptFromLeft (d := d + 1) P left right = .ok (l', r')) (a : Nat) :
    (nids (d := d + 1) l').count a + (nids (d := d + 1) r').count a ≤
      (nids (d := d + 1) left).count a + (nids (d := d + 1) right).count a := by
  simp only [Node.adoptFromLeft] at h
  split at h
  · cases h
  · split at h
    · cases h
    · split at h
      · rename_i k c hk hc
        cases h
        obtain ⟨x, y, hxy, hx⟩ := split_one _ _ _ hc
        rw [nids_mk, nids_mk, nids_inner, nids_inner, pushFrontIdiom_eq]
        rw [hxy, ← hx, List.take_left' rfl]
        simp only [List.flatMap_append, List.flatMap_cons, List.count_cons, List.count_append]
        omega
      · cases h

theorem adoptFromLeft_count (P : Params K) : ∀ {d : Nat} (left right l' r' : Node K V d),
    Node.adoptFromLeft P left right = .ok (l', r') → ∀ a,
    (nids l').count a + (nids r').count a ≤ (nids left).count a + (nids right).count a
  | 0, left, right, l', r', h => adoptFromLeft_count_leaf P left right l' r' h
  | _ + 1, left, right, l', r', h => adoptFromLeft_count_inner P left right l' r' h

theorem absorbRight_count_leaf (left right m : Leaf K V)
    (h : Node.absorbRight (d := 0) left right = .ok m) (a : Nat) :
    (nids (d := 0) m).count a ≤ (nids (d := 0) left).count a + (nids (d := 0) right).count a := by
  simp only [Node.absorbRight] at h
  split at h
  · cases h
  · cases h
    exact Nat.le_add_right _ _

theorem absorbRight_count_inner {d : Nat} (left right m : Inner K (Node K V d))
    (h : Node.absorbRight (d := d + 1) left right = .ok m) (a : Nat) :
    (nids (d := d + 1) m).count a ≤ (nids (d := d + 1) left).count a + (nids (d := d + 1) right).count a := by
  simp only [Node.absorbRight] at h
  cases h
  rw [nids_mk, nids_inner, nids_inner]
  simp only [List.flatMap_append, List.count_cons, List.count_append]
  omega

theorem absorbRight_count : ∀ {d : Nat} (left right m : Node K V d),
    Node.absorbRight left right = .ok m → ∀ a,
    (nids m).count a ≤ (nids left).count a + (nids right).count a
  | 0, left, right, m, h => absorbRight_count_leaf left right m h
  | _ + 1, left, right, m, h => absorbRight_count_inner left right m h

/-- `rebalance` (with the rewritten child already in place) invents no identity -/
theorem rebalance_count (P : Params K) (vr : Variant) (m : Nat) {d : Nat} (i i' : Inner K (Node K V d)) (index : Nat)
    (child : Node K V d) (s : Bool) (h : rebalance P vr m i index child = .ok (i', s))
    (hc : i.kids[index]? = some child) (a : Nat) :
    (nids (d := d + 1) i').count a ≤ (nids (d := d + 1) i).count a := by
  have hid := rebalance_id P vr m i i' index child s h
  rw [nids_inner, nids_inner, hid]
  simp only [List.count_cons]
  suffices hk : (i'.kids.flatMap nids).count a ≤ (i.kids.flatMap nids).count a by omega
  rcases rebalance_inv P vr m i i' index child s h with
    ⟨right, c', r', hright, hadopt, hk⟩ | ⟨left, l', c', hpos, hleft, hadopt, hk⟩ |
    ⟨left, l', hpos, hleft, habs, hk⟩ | ⟨right, c', hright, habs, hk⟩
  · obtain ⟨x, y, hxy, hx⟩ := split_two _ _ _ _ hc hright
    subst hx
    rw [hxy, form_set_pivot, form_set_next] at hk
    have e := adoptFromRight_count child right c' r' hadopt a
    rw [hk, hxy, count_flatMap_two, count_flatMap_two]
    omega
  · obtain ⟨j, rfl⟩ : ∃ j, index = j + 1 := ⟨index - 1, by omega⟩
    simp only [Nat.add_sub_cancel] at hleft hk
    obtain ⟨x, y, hxy, hx⟩ := split_two _ _ _ _ hleft hc
    subst hx
    rw [hxy, form_set_pivot, form_set_next] at hk
    have e := adoptFromLeft_count P left child l' c' hadopt a
    rw [hk, hxy, count_flatMap_two, count_flatMap_two]
    omega
  · obtain ⟨j, rfl⟩ : ∃ j, index = j + 1 := ⟨index - 1, by omega⟩
    simp only [Nat.add_sub_cancel] at hleft hk
    obtain ⟨x, y, hxy, hx⟩ := split_two _ _ _ _ hleft hc
    subst hx
    rw [hxy, form_set_pivot, form_delete_next] at hk
    have e := absorbRight_count left child l' habs a
    rw [hk, hxy, count_flatMap_two, count_flatMap_one]
    omega
  · obtain ⟨x, y, hxy, hx⟩ := split_two _ _ _ _ hc hright
    subst hx
    rw [hxy, form_set_pivot, form_delete_next] at hk
    have e := absorbRight_count child right c' habs a
    rw [hk, hxy, count_flatMap_two, count_flatMap_one]
    omega

/-- `deleteNode` invents no identity -/
def DelCount (P : Params K) (m : Nat) (key : K) (d : Nat) : Prop :=
  ∀ (x x' : Node K V d) (small : Bool), deleteNode P {} m key d x = .ok (x', small) →
    ∀ a, (nids x').count a ≤ (nids x).count a

theorem deleteNode_count_leaf (P : Params K) (m : Nat) (key : K) (x x' : Leaf K V) (small : Bool)
    (h : deleteNode P {} m key 0 x = .ok (x', small)) (a : Nat) :
    (nids (d := 0) x').count a ≤ (nids (d := 0) x).count a := by
  have e := Leaf.deleteKey_id P x x' m key small h
  rw [nids_leaf, nids_leaf, e]
  exact Nat.le_refl _

theorem deleteNode_count_inner (P : Params K) (m : Nat) (key : K) (d : Nat) (ih : DelCount (V := V) P m key d)
    (p p' : Inner K (Node K V d)) (small : Bool)
    (h : deleteNode P {} m key (d + 1) p = .ok (p', small)) (a : Nat) :
    (nids (d := d + 1) p').count a ≤ (nids (d := d + 1) p).count a := by
  cases hk : p.kids[searchLE P.lt key p.runts]? with
  | none => rw [deleteNode_succ_none P m key p hk] at h; cases h
  | some child =>
    obtain ⟨A, B, hkids, hA⟩ := kids_split _ _ _ hk
    obtain ⟨pid, prunts, pkids⟩ := p
    simp only at hkids hA
    subst hkids
    rw [deleteNode_succ P m key pid prunts A B child hA] at h
    cases hd : deleteNode P {} m key d child with
    | error e => rw [hd] at h; cases h
    | ok v =>
      obtain ⟨x', sm⟩ := v
      rw [hd] at h
      have h' : unwind1 P m pid prunts A B (x', sm) = .ok ((p' : Node K V (d + 1)), small) := h
      have hx := ih child x' sm hd a
      unfold unwind1 at h'
      cases sm with
      | false =>
        simp only [Bool.not_false, pure, Except.pure] at h'
        injection h' with h'; injection h' with e1 e2
        rw [← e1]
        rw [count_nids_split, count_nids_split]
        omega
      | true =>
        simp only [Bool.not_true, Bool.false_eq_true] at h'
        have := rebalance_count P {} m _ p' A.length x' small h' (form_getElem_pivot A B x') a
        rw [count_nids_split] at this
        rw [count_nids_split]
        omega

theorem deleteNode_count (P : Params K) (m : Nat) (key : K) : ∀ d, DelCount (V := V) P m key d
  | 0 => fun x x' small h a => deleteNode_count_leaf P m key x x' small h a
  | d + 1 => fun x x' small h a => deleteNode_count_inner P m key d (deleteNode_count P m key d) x x' small h a

theorem collapseRoot_count_inner (order nextId : Nat) {d : Nat} (r : Inner K (Node K V d)) (t' : Tree K V)
    (h : collapseRoot order nextId (d + 1) r = .ok t') :
    t'.nextId = nextId ∧ t'.order = order ∧ ∀ a, (nids t'.root).count a ≤ (nids (d := d + 1) r).count a := by
  simp only [collapseRoot] at h
  split at h
  · cases h
  · rename_i c hc
    cases h
    refine ⟨rfl, rfl, fun a => ?_⟩
    obtain ⟨x, y, hxy, hx⟩ := split_one _ _ _ hc
    rw [nids_inner, hxy]
    simp only [List.flatMap_append, List.flatMap_cons, List.count_cons, List.count_append]
    omega

theorem collapseRoot_count (order nextId : Nat) : ∀ (d : Nat) (r : Node K V d) (t' : Tree K V),
    collapseRoot order nextId d r = .ok t' →
    t'.nextId = nextId ∧ t'.order = order ∧ ∀ a, (nids t'.root).count a ≤ (nids r).count a
  | 0, r, t', h => by
    simp only [collapseRoot] at h
    cases h
    exact ⟨rfl, rfl, fun a => Nat.le_refl _⟩
  | _ + 1, r, t', h => collapseRoot_count_inner order nextId r t' h

theorem Tree.delete_idsOk (P : Params K) (key : K) (t t' : Tree K V)
    (hids : IdsOk t) (h : t.delete P {} key = .ok t') : IdsOk t' ∧ t'.order = t.order := by
  rw [idsOk_iff] at hids
  simp only [Tree.delete, Bool.false_eq_true, if_false, bind, Except.bind] at h
  cases hdn : deleteNode P {} (t.order >>> 1) key t.depth t.root with
  | error e => rw [hdn] at h; cases h
  | ok v =>
    rw [hdn] at h
    obtain ⟨root', small⟩ := v
    simp only at h
    have hc := deleteNode_count P (t.order >>> 1) key t.depth t.root root' small hdn
    split at h
    · injection h with h
      subst h
      refine ⟨idsOk_iff.2 fun a => ?_, rfl⟩
      have h1 := hc a
      have h2 := hids a
      show (nids root').count a ≤ 1 ∧ (0 < (nids root').count a → a < t.nextId)
      omega
    · obtain ⟨hn, ho, hcc⟩ := collapseRoot_count _ _ _ _ _ h
      refine ⟨idsOk_iff.2 fun a => ?_, ho⟩
      have h1 := hc a
      have h2 := hids a
      have h3 := hcc a
      rw [hn]
      omega

/-- **the sequential model keeps the identities distinct** (and the order) -/
theorem Tree.step_idsOk (P : Params K) (t t' : Tree K V) (op : Op K V) (out : Out V)
    (hids : IdsOk t) (h : Tree.step P t op = .ok (t', out)) : IdsOk t' ∧ t'.order = t.order := by
  cases op with
  | insert k v =>
    simp only [Tree.step, bind, Except.bind, pure, Except.pure] at h
    split at h
    · cases h
    · rename_i t2 hins
      injection h with h; injection h with h1 h2
      subst h1
      obtain ⟨cb, hup⟩ := Tree.insert_inv P t t2 k v hins
      exact Tree.upsert_idsOk P k _ t t2 cb hids hup
  | update k f =>
    simp only [Tree.step, Tree.update, bind, Except.bind, pure, Except.pure] at h
    split at h
    · cases h
    · rename_i w hup
      obtain ⟨t2, arg⟩ := w
      injection h with h; injection h with h1 h2
      subst h1
      exact Tree.upsert_idsOk P k f t t2 arg hids hup
  | delete k =>
    simp only [Tree.step, bind, Except.bind, pure, Except.pure] at h
    split at h
    · cases h
    · rename_i t2 hdel
      injection h with h; injection h with h1 h2
      subst h1
      exact Tree.delete_idsOk P k t t2 hids hdel
  | search k =>
    simp only [Tree.step, bind, Except.bind, pure, Except.pure] at h
    split at h
    · cases h
    · injection h with h; injection h with h1 h2
      subst h1
      exact ⟨hids, rfl⟩

end Gobptree.Conc
