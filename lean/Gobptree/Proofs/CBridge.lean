/-
  Bridge between the two layers.

  CONCURRENT layer: every reachable configuration at rest has a tree satisfying the flat-view
  structural invariant `TreeOk none` (all node identities distinct, per-node occupancy, leaf
  chain over the flat view) and the ordering invariant `OrdTree`.
  SEQUENTIAL layer: `TreeInv lt t = TreeWF lt t ∧ Linked t.depth none t.root` and `IdsInv t`.

  `treeInv_of_concurrent`: the former give the latter.  Hence every sequential theorem stated
  for `TreeInv`/`IdsInv` applies to the tree left behind by ANY concurrent execution that has
  come to rest; `scan_exact_after_concurrent` is the instance for C02 (exact scans).
-/
import Gobptree.Proofs.CQuiescent
import Gobptree.Proofs.CKPar
import Gobptree.Proofs.CCurSorted
import Gobptree.Props.C02

namespace Gobptree.Conc
open Gobptree

variable {K V : Type} {lt : K → K → Bool}

/-! ### the leaves of the flat view are the in-order leaves -/

/-- flat-view entry of a leaf -/
def leafEntry (l : Leaf K V) : Nat × Shallow K V := (l.id, shallow (d := 0) l)

theorem flatLeaves_flat : ∀ {d : Nat} (n : Node K V d),
    flatLeaves (flat n) = (Node.leaves n).map leafEntry := by
  intro d
  induction d with
  | zero =>
    intro (n : Leaf K V)
    rw [flat_leaf, flatLeaves_cons_leaf _ _ rfl]
    rfl
  | succ d ih =>
    intro (n : Inner K (Node K V d))
    rw [flat_inner, flatLeaves_cons_inner _ _ (by
      have := shallow_height (d := d + 1) n
      show (shallow (d := d + 1) n).height ≠ 0
      omega), flatLeaves_flatMap]
    show _ = (n.kids.flatMap (Node.leaves (d := d))).map leafEntry
    rw [List.map_flatMap]
    congr 1
    funext c
    exact ih c

theorem leafIds_eq_flat {d : Nat} (n : Node K V d) :
    leafIds n = (flatLeaves (flat n)).map Prod.fst := by
  rw [flatLeaves_flat, List.map_map]
  rfl

/-! ### identities -/

theorem idsInv_of_idsOk {t : Tree K V} (h : IdsOk t) : IdsInv t := by
  have hsub : (leafIds t.root).Sublist t.ids := by
    rw [leafIds_eq_flat]
    exact (List.filter_sublist (l := flat t.root)).map Prod.fst
  exact ⟨h.1.sublist hsub, fun id hid => h.2 id (hsub.subset hid)⟩

/-! ### the leaf chain -/

theorem chainList_of_chain : ∀ (ls : List (Leaf K V)), Chain (ls.map leafEntry) → ChainList ls none
  | [], _ => trivial
  | [_], h => h
  | _ :: l2 :: rest, h => ⟨h.1, chainList_of_chain (l2 :: rest) h.2⟩

theorem ChainList_split : ∀ (l1 : List (Leaf K V)) (x : Leaf K V) (l2 : List (Leaf K V)) (after : Option Nat),
    ChainList (l1 ++ x :: l2) after → ChainList l1 (some x.id) ∧ ChainList (x :: l2) after := by
  intro l1
  induction l1 with
  | nil => intro x l2 after h; exact ⟨trivial, h⟩
  | cons a l1 ih =>
    intro x l2 after h
    cases l1 with
    | nil => exact ⟨h.1, h.2⟩
    | cons b l1' =>
      have := ih x l2 after h.2
      exact ⟨⟨h.1, this.1⟩, this.2⟩

/-- under a node whose inner nodes all have a child, the leaf list is non-empty and starts
    with the leaf `Node.firstId` names -/
theorem leaves_head : ∀ {d : Nat} (n : Node K V d), ParN d n →
    ∃ l rest, Node.leaves n = l :: rest ∧ l.id = Node.firstId n := by
  intro d
  induction d with
  | zero => intro (n : Leaf K V) _; exact ⟨n, [], rfl, rfl⟩
  | succ d ih =>
    intro (n : Inner K (Node K V d)) hp
    obtain ⟨hlen, hpos, hk⟩ := hp
    obtain ⟨id, runts, kids⟩ := n
    simp only at hlen hpos hk
    cases kids with
    | nil => simp only [List.length_nil] at hlen; omega
    | cons c cs =>
      obtain ⟨l, rest, hl, hid⟩ := ih c (hk c List.mem_cons_self)
      refine ⟨l, rest ++ cs.flatMap (Node.leaves (d := d)), ?_, ?_⟩
      · show (c :: cs).flatMap (Node.leaves (d := d)) = _
        rw [List.flatMap_cons, hl]
        rfl
      · rw [hid]; rfl

theorem linkedKids_of_chainList {d : Nat}
    (ih : ∀ (c : Node K V d) (after : Option Nat), ParN d c → ChainList (Node.leaves c) after → Linked d after c) :
    ∀ (kids : List (Node K V d)) (after : Option Nat), (∀ c ∈ kids, ParN d c) →
      ChainList (kids.flatMap (Node.leaves (d := d))) after →
      LinkedKids (Linked d) (Node.firstId (d := d)) after kids := by
  intro kids
  induction kids with
  | nil => intro _ _ _; trivial
  | cons c cs ihk =>
    intro after hp h
    rw [List.flatMap_cons] at h
    cases cs with
    | nil =>
      rw [List.flatMap_nil, List.append_nil] at h
      exact ⟨ih c after (hp c List.mem_cons_self) h, trivial⟩
    | cons c2 cs' =>
      obtain ⟨l2, rest2, hl2, hid2⟩ := leaves_head c2 (hp c2 (by simp))
      have hf : (c2 :: cs').flatMap (Node.leaves (d := d)) = l2 :: (rest2 ++ cs'.flatMap (Node.leaves (d := d))) := by
        rw [List.flatMap_cons, hl2]; rfl
      have h' := h
      rw [hf] at h'
      obtain ⟨h1, h2⟩ := ChainList_split _ _ _ _ h'
      refine ⟨?_, ihk after (fun c hc => hp c (List.mem_cons_of_mem _ hc)) (by rw [hf]; exact h2)⟩
      show Linked d (some (Node.firstId c2)) c
      rw [← hid2]
      exact ih c _ (hp c List.mem_cons_self) h1

theorem linked_of_chainList : ∀ {d : Nat} (n : Node K V d) (after : Option Nat), ParN d n →
    ChainList (Node.leaves n) after → Linked d after n := by
  intro d
  induction d with
  | zero => intro (n : Leaf K V) after _ h'; exact h'
  | succ d ih =>
    intro (n : Inner K (Node K V d)) after hp h
    exact linkedKids_of_chainList ih n.kids after hp.2.2 h

theorem linked_of_chainOk {t : Tree K V} (hpar : ParTree t) (h : ChainOk t) : Linked t.depth none t.root := by
  apply linked_of_chainList _ _ hpar
  apply chainList_of_chain
  have h' : Chain (flatLeaves (flat t.root)) := h
  rw [flatLeaves_flat] at h'
  exact h'

/-! ### shape: `Ord` + per-node occupancy = `WF` -/

theorem Kids_imp_mem {C : Type} {R R' : Option K → Option K → C → Prop} (hi : Option K) :
    ∀ (l : List (K × C)), (∀ e ∈ l, ∀ a b, R a b e.2 → R' a b e.2) → Kids lt R hi l → Kids lt R' hi l
  | [], _, _ => trivial
  | (k, c) :: rest, hR, h =>
    ⟨hR (k, c) List.mem_cons_self _ _ h.1, h.2.1,
      Kids_imp_mem hi rest (fun e he => hR e (List.mem_cons_of_mem _ he)) h.2.2⟩

theorem wf_leaf {o m : Nat} {lo hi : Option K} (l : Leaf K V) (hord : Ord lt 0 lo hi l)
    (hocc : NodeOcc o m (shallow (d := 0) l)) : WF lt o 0 m lo hi l :=
  ⟨hord.1, (hocc.2.2.1 rfl).1, hocc.1, hocc.2.1, hord.2⟩

theorem wf_inner {o m d : Nat} {lo hi : Option K} (n : Inner K (Node K V d)) (hord : Ord lt (d + 1) lo hi n)
    (hocc : NodeOcc o m (shallow (d := d + 1) n))
    (hk : ∀ c ∈ n.kids, ∀ a b, Ord lt d a b c → WF lt o d (o / 2) a b c) : WF lt o (d + 1) m lo hi n := by
  have h3 := hocc.2.2.2 (Nat.succ_pos d)
  have hlen : n.runts.length = n.kids.length := by
    have := h3.1
    rw [shallow_inner_kids, List.length_map] at this
    exact this
  refine ⟨hlen, hocc.1, hocc.2.1, h3.2.1, hord.1, ?_⟩
  exact Kids_imp_mem hi _ (fun e he a b hr => hk e.2 (List.of_mem_zip he).2 a b hr) hord.2

/-- a subtree all of whose nodes hold at least `o/2` entries -/
theorem wf_of_flat (o : Nat) : ∀ (d : Nat) (lo hi : Option K) (n : Node K V d),
    Ord lt d lo hi n → (∀ p ∈ flat n, NodeOcc o (o / 2) p.2) → WF lt o d (o / 2) lo hi n := by
  intro d
  induction d with
  | zero =>
    intro lo hi (n : Leaf K V) hord hocc
    exact wf_leaf n hord (hocc _ (self_mem_flat (d := 0) n))
  | succ d ih =>
    intro lo hi (n : Inner K (Node K V d)) hord hocc
    refine wf_inner n hord (hocc _ (self_mem_flat (d := d + 1) n)) ?_
    intro c hc a b ho
    refine ih a b c ho (fun p hp => hocc p ?_)
    rw [flat_inner]
    exact List.mem_cons_of_mem _ (List.mem_flatMap.2 ⟨c, hc, hp⟩)

theorem minOf_root (o r h : Nat) : minOf o r none r h = rootMin h := by
  unfold minOf
  rw [if_pos rfl]
  cases h <;> rfl

theorem minOf_other {o r id : Nat} (h : Nat) (hne : id ≠ r) : minOf o r none id h = o / 2 := by
  unfold minOf
  rw [if_neg hne, if_neg (by simp)]

theorem treeWF_of_concurrent {t : Tree K V} (hok : TreeOk none t) (hord : OrdTree lt t) : TreeWF lt t := by
  obtain ⟨order, depth, root, nextId⟩ := t
  have hocc := hok.occ
  have hnd := hok.ids.1
  unfold OrdTree at hord
  unfold TreeWF
  simp only at hord ⊢
  have hself := hocc _ (self_mem_flat root)
  have hrid : (Tree.mk order depth root nextId).rootId = Node.id root := rfl
  simp only [hrid, shallow_height, minOf_root] at hself
  cases depth with
  | zero => exact wf_leaf (root : Leaf K V) hord hself
  | succ d =>
    refine wf_inner (root : Inner K (Node K V d)) hord hself ?_
    intro c hc a b ho
    apply wf_of_flat order d a b c ho
    intro p hp
    have hmem : p ∈ flat (d := d + 1) root := by
      rw [flat_succ]
      exact List.mem_cons_of_mem _ (List.mem_flatMap.2 ⟨c, hc, hp⟩)
    have hne : p.1 ≠ Node.id (d := d + 1) root := by
      have hn : ((root : Inner K (Node K V d)).id ::
          (root : Inner K (Node K V d)).kids.flatMap (nids (d := d))).Nodup :=
        (nids_inner (d := d) (root : Inner K (Node K V d))) ▸ (show (nids (d := d + 1) root).Nodup from hnd)
      have hnot := (List.nodup_cons.1 hn).1
      intro e
      apply hnot
      rw [List.mem_flatMap]
      refine ⟨c, hc, ?_⟩
      have : p.1 ∈ nids c := List.mem_map.2 ⟨p, hp, rfl⟩
      rw [e] at this
      exact this
    have := hocc p hmem
    rw [hrid, minOf_other _ hne] at this
    exact this

/-! ### the bridge -/

set_option linter.unusedVariables false in
/-- the concurrent invariants of a tree at rest give the sequential invariant
    (`h : SWO lt` is not needed: the ordering half is carried over verbatim) -/
theorem treeInv_of_concurrent (lt : K → K → Bool) (h : SWO lt) (t : Tree K V)
    (hok : TreeOk none t) (hord : OrdTree lt t) : TreeInv lt t ∧ IdsInv t :=
  ⟨⟨treeWF_of_concurrent hok hord, linked_of_chainOk (parTree_of_treeOk hok) hok.chain⟩,
    idsInv_of_idsOk hok.ids⟩

/-- the sequential parameter bundle from the concurrent hypotheses -/
theorem paramsOk_of_concurrent (lt : K → K → Bool) (P : Params K) (tree : Tree K V) (hkp : KParams lt P)
    (ht : TreeOk none tree) (ho : tree.order = P.order) (hp : PadOk P) : ParamsOk lt P :=
  ⟨hkp.lt, hkp.swo, hp, by rw [← ho]; exact ht.order2, by rw [← ho]; exact ht.even⟩

/-- after ANY concurrent execution has come to rest the tree satisfies the sequential invariants -/
theorem treeInv_after_concurrent (lt : K → K → Bool) (P : Params K) (tree : Tree K V) (progs : List (List (COp K V)))
    (hkp : KParams lt P) (ht : TreeOk none tree) (hord : OrdTree lt tree) (hsep : SepTree lt tree)
    (ho : tree.order = P.order) (hp : PadOk P) (hd : Disciplined progs) (hdel : 4 ≤ tree.order ∨ NoDelete progs)
    (c : Config K V) (hr : Reachable (Config.init P tree progs) c) (hq : AtRest c) :
    TreeInv lt c.tree ∧ IdsInv c.tree ∧ c.tree.order = P.order :=
  let r := reachable_rest_tree_ok lt P tree progs hkp ht hord hsep ho hp hd hdel c hr hq
  let b := treeInv_of_concurrent lt hkp.swo c.tree r.1 r.2.1
  ⟨b.1, b.2, r.2.2.2⟩

/-- after ANY concurrent execution has come to rest, a (sequential) scan from any start key yields
    exactly the stored pairs with key ≥ start, ascending, once each -/
theorem scan_exact_after_concurrent (lt : K → K → Bool) (P : Params K) (tree : Tree K V)
    (progs : List (List (COp K V))) (hpo : ParamsOk lt P)
    (hkp : KParams lt P) (ht : TreeOk none tree) (hord : OrdTree lt tree) (hsep : SepTree lt tree)
    (ho : tree.order = P.order) (hp : PadOk P) (hd : Disciplined progs) (hdel : 4 ≤ tree.order ∨ NoDelete progs)
    (c : Config K V) (hr : Reachable (Config.init P tree progs) c) (hq : AtRest c) (s : K) :
    ∃ fuel, c.tree.scanFrom P {} s none fuel = .ok (Spec.from lt c.tree.abs s, true) :=
  let r := treeInv_after_concurrent lt P tree progs hkp ht hord hsep ho hp hd hdel c hr hq
  C02_scan_exact_inv hpo c.tree r.2.2 r.1 r.2.1 s

/-- the same without the (derivable) sequential parameter bundle as a hypothesis -/
theorem scan_exact_after_concurrent' (lt : K → K → Bool) (P : Params K) (tree : Tree K V)
    (progs : List (List (COp K V)))
    (hkp : KParams lt P) (ht : TreeOk none tree) (hord : OrdTree lt tree) (hsep : SepTree lt tree)
    (ho : tree.order = P.order) (hp : PadOk P) (hd : Disciplined progs) (hdel : 4 ≤ tree.order ∨ NoDelete progs)
    (c : Config K V) (hr : Reachable (Config.init P tree progs) c) (hq : AtRest c) (s : K) :
    ∃ fuel, c.tree.scanFrom P {} s none fuel = .ok (Spec.from lt c.tree.abs s, true) :=
  scan_exact_after_concurrent lt P tree progs (paramsOk_of_concurrent lt P tree hkp ht ho hp)
    hkp ht hord hsep ho hp hd hdel c hr hq s

/-- the instance for a fresh tree (the hypotheses on the initial tree are satisfiable for every
    even order ≥ 2): ANY concurrent execution of disciplined programs on `Tree.new`, once at rest,
    scans exactly -/
theorem scan_exact_after_concurrent_fresh (lt : K → K → Bool) (P : Params K)
    (progs : List (List (COp K V))) (hkp : KParams lt P) (h2 : 2 ≤ P.order) (he : P.order % 2 = 0)
    (hp : PadOk P) (hd : Disciplined progs) (hdel : 4 ≤ P.order ∨ NoDelete progs)
    (c : Config K V) (hr : Reachable (Config.init P (Tree.new P.order) progs) c) (hq : AtRest c) (s : K) :
    ∃ fuel, c.tree.scanFrom P {} s none fuel = .ok (Spec.from lt c.tree.abs s, true) :=
  scan_exact_after_concurrent' lt P (Tree.new P.order) progs hkp (new_treeOk P.order h2 he)
    (new_ordTree lt P.order) (new_sepTree lt P.order) rfl hp hd hdel c hr hq s

end Gobptree.Conc

#print axioms Gobptree.Conc.treeInv_of_concurrent
#print axioms Gobptree.Conc.treeInv_after_concurrent
#print axioms Gobptree.Conc.scan_exact_after_concurrent
#print axioms Gobptree.Conc.scan_exact_after_concurrent'
#print axioms Gobptree.Conc.scan_exact_after_concurrent_fresh
