/-
  Decorated histories (generic, `LinPoints.lean`): where the linearization point of an operation
  stands relative to those of the others, read off the CLIENT-VISIBLE history.

  `SettledBefore H t' i' t i`: in the history `H`, the call `(t', i')` is out of the way of the
  call `(t, i)` — it has not been invoked (yet), or its response precedes the invocation of
  `(t, i)`.  In a well-formed decorated history the linearization point of such a call is NOT
  after that of `(t, i)` (`lin_before_of_settled`): real-time order forces linearization order.
  `lin_split` splits the linearization order at the point of `(t, i)`.
-/
import Gobptree.Proofs.CCounter
import Gobptree.Proofs.CNoLossSpec

namespace Gobptree.Conc
open Gobptree Gobptree.Lin

variable {K V : Type}

/-- in the history `H` the call `(t', i')` is out of the way of the call `(t, i)`: it has not been
    invoked, or its response precedes the invocation of `(t, i)` -/
def SettledBefore (H : List (HEv K V)) (t' i' t i : Nat) : Prop :=
  (∀ op, HEv.inv t' i' op ∉ H) ∨ ∃ out op, Before H (HEv.ret t' i' out) (HEv.inv t i op)

/-- order in the visible history is order in the decorated history -/
theorem before_of_visible {h : List (HEv K V)} {a b : HEv K V} (hb : Before (visible h) a b) :
    ∃ A B : Nat, A < B ∧ h[A]? = some a ∧ h[B]? = some b := by
  obtain ⟨p, q, hpq, hp, hq⟩ := hb
  obtain ⟨A, hA, hcA⟩ := visible_getElem? hp
  obtain ⟨B, hB, hcB⟩ := visible_getElem? hq
  refine ⟨A, B, ?_, hA, hB⟩
  apply Nat.lt_of_not_le
  intro hle
  have := cnt_mono visF h hle
  omega

/-- **real-time order forces linearization order**: a call that has settled before `(t, i)` was
    invoked, and has a linearization point, has it before the point of `(t, i)` -/
theorem lin_before_of_settled {h : List (HEv K V)} (hwf : PointsWF h) {L M t i t' i' : Nat}
    (hL : h[L]? = some (HEv.lin t i)) (hM : h[M]? = some (HEv.lin t' i'))
    (hs : SettledBefore (visible h) t' i' t i) : M < L := by
  rcases hs with hs | ⟨out, op, hb⟩
  · obtain ⟨q, op', _, hq⟩ := hwf.lin_after_inv M t' i' hM
    exact absurd (mem_visible.2 ⟨List.mem_of_getElem? hq, rfl⟩) (hs op')
  · obtain ⟨A, B, hAB, hA, hB⟩ := before_of_visible hb
    obtain ⟨q', hq', hql⟩ := hwf.ret_after_lin A _ _ _ hA
    have e1 := hwf.lin_unique q' M _ _ hql hM
    obtain ⟨q'', op'', hq'', hqi⟩ := hwf.lin_after_inv L _ _ hL
    have e2 := hwf.inv_unique q'' B _ _ _ _ hqi hB
    omega

/-- the linearization order, split at the linearization point of `(t, i)`: the operations
    linearized before it, the operation itself, the operations linearized after it -/
theorem lin_split {h : List (HEv K V)} (hwf : PointsWF h) {t i : Nat} (hl : HEv.lin t i ∈ h) :
    ∃ (L : Nat) (op : Op K V) (pre post : List (Nat × Nat × Op K V)),
      h[L]? = some (HEv.lin t i) ∧ invOp h t i = some op ∧ linOrder h = pre ++ (t, i, op) :: post ∧
      (∀ x ∈ pre, ∃ M, M < L ∧ h[M]? = some (HEv.lin x.1 x.2.1) ∧ invOp h x.1 x.2.1 = some x.2.2) ∧
      (∀ x ∈ post, ∃ M, L < M ∧ h[M]? = some (HEv.lin x.1 x.2.1) ∧ invOp h x.1 x.2.1 = some x.2.2) := by
  obtain ⟨L, hL⟩ := List.mem_iff_getElem?.1 hl
  obtain ⟨q, op, _, hq⟩ := hwf.lin_after_inv L t i hL
  have hop := invOp_eq hwf hq
  obtain ⟨hlt, hLe⟩ := List.getElem?_eq_some_iff.1 hL
  have hsplit : h = h.take L ++ h[L] :: h.drop (L + 1) := by
    rw [← List.drop_eq_getElem_cons hlt, List.take_append_drop]
  have hf : ∀ x e, linF h e = some x → e = HEv.lin x.1 x.2.1 ∧ invOp h x.1 x.2.1 = some x.2.2 := by
    intro x e he
    cases e with
    | inv t' i' op' => simp [linF] at he
    | ret t' i' out => simp [linF] at he
    | lin t' i' =>
      simp only [linF, Option.map_eq_some_iff] at he
      obtain ⟨op', h1, rfl⟩ := he
      exact ⟨rfl, h1⟩
  refine ⟨L, op, (h.take L).filterMap (linF h), (h.drop (L + 1)).filterMap (linF h), hL, hop, ?_, ?_, ?_⟩
  · have e1 : linOrder h = List.filterMap (linF h) (h.take L ++ h[L] :: h.drop (L + 1)) :=
      congrArg (List.filterMap (linF h)) hsplit
    rw [e1, List.filterMap_append, hLe]
    have e2 : linF h (HEv.lin t i) = some (t, i, op) := by simp [linF, hop]
    rw [List.filterMap_cons_some e2]
  · intro x hx
    obtain ⟨e, he, hfe⟩ := List.mem_filterMap.1 hx
    obtain ⟨rfl, h2⟩ := hf x e hfe
    obtain ⟨j, hj⟩ := List.mem_iff_getElem?.1 he
    rw [List.getElem?_take] at hj
    split at hj
    · exact ⟨j, ‹_›, hj, h2⟩
    · cases hj
  · intro x hx
    obtain ⟨e, he, hfe⟩ := List.mem_filterMap.1 hx
    obtain ⟨rfl, h2⟩ := hf x e hfe
    obtain ⟨j, hj⟩ := List.mem_iff_getElem?.1 he
    rw [List.getElem?_drop] at hj
    exact ⟨L + 1 + j, by omega, hj, h2⟩

/-- the response recorded for `(t, i)` is the one the replay of the specification gives at its
    position in the linearization order -/
theorem out_of_split {lt : K → K → Bool} {init : List (K × V)} {h : List (HEv K V)}
    (hsp : PointsSpec lt init h) {t i : Nat} {op : Op K V} {pre post : List (Nat × Nat × Op K V)}
    (hsplit : linOrder h = pre ++ (t, i, op) :: post) {out : Out V} (hret : HEv.ret t i out ∈ h) :
    out = (Spec.step lt (Spec.run lt init (pre.map (·.2.2))).1 op).2 := by
  apply hsp ((t, i, op), (Spec.step lt (Spec.run lt init (pre.map (·.2.2))).1 op).2) ?_ out hret
  apply List.mem_of_getElem? (i := pre.length)
  rw [List.getElem?_zip_eq_some]
  constructor
  · rw [hsplit, List.getElem?_append_right (Nat.le_refl _)]; simp
  · unfold replay
    rw [hsplit, List.map_append, List.map_cons]
    have := run_out_at lt init (pre.map (·.2.2)) (post.map (·.2.2)) op
    rw [List.length_map] at this
    exact this

end Gobptree.Conc
