/-
  Reachable configurations of the small-step model and the configuration-level
  bookkeeping invariant.
-/
import Gobptree.Proofs.ConcHeld

namespace Gobptree.Conc
open Gobptree

variable {K V : Type}

/-- configurations reachable from `c0` under SOME schedule (every finite sequence of
    scheduler decisions, each naming an enabled thread) -/
inductive Reachable (c0 : Config K V) : Config K V → Prop where
  | refl : Reachable c0 c0
  | step {c c' : Config K V} (t : Nat) : Reachable c0 c → c.step t = some c' → Reachable c0 c'

def ConfigOk (c : Config K V) : Prop := ∀ th ∈ c.threads, ThreadOk th

theorem init_ok (P : Params K) (tree : Tree K V) (progs : List (List (COp K V))) :
    ConfigOk (Config.init P tree progs) := by
  intro th hth
  simp only [Config.init, List.mem_map] at hth
  obtain ⟨p, _, rfl⟩ := hth
  exact ⟨by simp [parkHeld, cursorLocks], trivial, trivial⟩

theorem step_ok (c c' : Config K V) (t : Nat) (hs : c.step t = some c') (hok : ConfigOk c)
    (hd : c'.dead = false) : ConfigOk c' := by
  unfold Config.step at hs
  cases hth : c.threads[t]? with
  | none => simp [hth] at hs
  | some th =>
    simp only [hth] at hs
    split at hs
    · simp at hs
    · simp only [Option.some.injEq] at hs
      subst hs
      simp only [Bool.or_eq_false_iff] at hd
      have hmem : th ∈ c.threads := List.mem_of_getElem? hth
      have hnew := runThread_ok c.P t th _ rfl rfl (hok th hmem) hd.2
      intro th' hth'
      simp only at hth'
      rcases List.mem_or_eq_of_mem_set hth' with h1 | h1
      · exact hok th' h1
      · rw [h1]; exact hnew

theorem step_dead (c c' : Config K V) (t : Nat) (hs : c.step t = some c') (hd : c'.dead = false) :
    c.dead = false := by
  unfold Config.step at hs
  cases hth : c.threads[t]? with
  | none => simp [hth] at hs
  | some th =>
    simp only [hth] at hs
    split at hs
    · simp at hs
    · simp only [Option.some.injEq] at hs
      subst hs
      simp only [Bool.or_eq_false_iff] at hd
      exact hd.1

/-- in every reachable configuration in which no thread has panicked, every thread
    holds exactly the locks its park position prescribes -/
theorem reachable_ok (c0 c : Config K V) (h0 : ConfigOk c0) (hr : Reachable c0 c) (hd : c.dead = false) :
    ConfigOk c := by
  induction hr with
  | refl => exact h0
  | @step c1 c2 t _ hs ih =>
    exact step_ok c1 c2 t hs (ih (step_dead c1 c2 t hs hd)) hd

end Gobptree.Conc
