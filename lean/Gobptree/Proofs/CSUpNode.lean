/-
  Node-level facts for the non-Delete blocks, phrased over the own fields (`shallow`):
  what `find` returns, `maybeSplit`, `Leaf.upsert`, `Leaf.search`, `startIndex`,
  `lowerFirst`, `smallest` cannot panic on nodes that satisfy `NodeOcc`.
-/
import Gobptree.Proofs.CSUpBase
import Gobptree.Proofs.Search
import Gobptree.Proofs.Slice

namespace Gobptree.Conc
open Gobptree

variable {K V : Type}

/-! ### flat view of a node: itself, then what is below -/

/-- the part of the flat view below the node itself -/
def ftail : {d : Nat} → Node K V d → List (Nat × Shallow K V)
  | 0, _ => []
  | d + 1, (i : Inner K (Node K V d)) => i.kids.flatMap (flat (d := d))

theorem flat_eq_cons : ∀ {d : Nat} (n : Node K V d), flat n = (Node.id n, shallow n) :: ftail n
  | 0, _ => rfl
  | _ + 1, _ => rfl

theorem ftail_leaf (n : Node K V 0) : ftail n = [] := rfl

theorem ftail_inner {d : Nat} (i : Inner K (Node K V d)) : ftail (d := d + 1) i = i.kids.flatMap (flat (d := d)) := rfl

theorem count_eq : ∀ {d : Nat} (n : Node K V d), Node.count n = (shallow n).keys.length
  | 0, _ => rfl
  | _ + 1, _ => rfl

/-! ### what `find` returned, by height -/

theorem any_leaf (a : AnyNode K V) (h : (shallow a.n).height = 0) :
    ∃ l : Leaf K V, a = ⟨0, l⟩ ∧ leafOf? a = some l := by
  obtain ⟨d, n⟩ := a
  rw [shallow_height] at h
  simp only at h
  subst h
  exact ⟨n, rfl, rfl⟩

theorem any_inner (a : AnyNode K V) (h : 0 < (shallow a.n).height) :
    leafOf? a = none ∧ innerRunts? a = some (shallow a.n).keys ∧
      ∀ i, innerKidId? a i = (shallow a.n).kids[i]? := by
  obtain ⟨d, n⟩ := a
  rw [shallow_height] at h
  simp only at h
  cases d with
  | zero => omega
  | succ d =>
    refine ⟨rfl, rfl, ?_⟩
    intro i
    show ((n : Inner K (Node K V d)).kids[i]?).map Node.id = ((n : Inner K (Node K V d)).kids.map Node.id)[i]?
    rw [List.getElem?_map]

theorem any_kid (a : AnyNode K V) (j c : Nat) (h : (shallow a.n).kids[j]? = some c) :
    ∃ (d : Nat) (p : Inner K (Node K V d)) (k : Node K V d),
      a = ⟨d + 1, p⟩ ∧ p.kids[j]? = some k ∧ Node.id k = c := by
  obtain ⟨d, n⟩ := a
  cases d with
  | zero =>
    have : (shallow (d := 0) n).kids = [] := rfl
    simp only at h
    rw [this] at h
    simp at h
  | succ d =>
    have e : (shallow (d := d + 1) n).kids = (n : Inner K (Node K V d)).kids.map Node.id := rfl
    simp only at h
    rw [e, List.getElem?_map] at h
    cases hk : (n : Inner K (Node K V d)).kids[j]? with
    | none => rw [hk] at h; cases h
    | some k =>
      rw [hk] at h
      exact ⟨d, n, k, rfl, hk, by simpa using h⟩

/-! ### `smallest` -/

theorem smallest_ok : ∀ {d : Nat} (n : Node K V d), 0 < (shallow n).keys.length → ∃ k, Node.smallest n = .ok k
  | 0, n, h => by
    have h' : 0 < (n : Leaf K V).keys.length := h
    cases hk : (n : Leaf K V).keys with
    | nil => rw [hk] at h'; cases h'
    | cons k ks => exact ⟨k, by simp [Node.smallest, hk]; rfl⟩
  | d + 1, n, h => by
    have h' : 0 < (n : Inner K (Node K V d)).runts.length := h
    cases hk : (n : Inner K (Node K V d)).runts with
    | nil => rw [hk] at h'; cases h'
    | cons k ks => exact ⟨k, by simp [Node.smallest, hk]; rfl⟩

/-! ### `maybeSplit` -/

theorem take_drop_half {α : Type} (l : List α) (h : Nat) (hl : l.length = h + h) : (l.drop h).take h = l.drop h := by
  apply List.take_of_length_le
  simp; omega

theorem maybeSplit_spec (o fresh : Nat) (heven : o % 2 = 0) : ∀ {d : Nat} (n : Node K V d),
    (shallow n).keys.length ≤ o →
    (d = 0 → (shallow n).keys.length = (shallow n).vals.length) →
    (0 < d → (shallow n).keys.length = (shallow n).kids.length) →
    ((shallow n).keys.length < o ∧ Node.maybeSplit o fresh n = .ok (n, none)) ∨
    ((shallow n).keys.length = o ∧ ∃ l r : Node K V d, Node.maybeSplit o fresh n = .ok (l, some r) ∧
      Node.id l = Node.id n ∧ Node.id r = fresh ∧
      shallow l = ⟨d, (shallow n).keys.take (o / 2), (shallow n).vals.take (o / 2),
                    if d = 0 then some fresh else none, (shallow n).kids.take (o / 2)⟩ ∧
      shallow r = ⟨d, (shallow n).keys.drop (o / 2), (shallow n).vals.drop (o / 2),
                    (shallow n).next, (shallow n).kids.drop (o / 2)⟩ ∧
      ∃ T1 T2, ftail n = T1 ++ T2 ∧ ftail l = T1 ∧ ftail r = T2 ∧ (d = 0 → T1 = [] ∧ T2 = []))
  | 0, n, hle, hpar, _ => by
    have hle' : (n : Leaf K V).keys.length ≤ o := hle
    have hv : (n : Leaf K V).keys.length = (n : Leaf K V).vals.length := hpar rfl
    have hh : o >>> 1 = o / 2 := shiftRight_one_eq o
    by_cases hlt : (n : Leaf K V).keys.length < o
    · left
      refine ⟨hlt, ?_⟩
      simp only [Node.maybeSplit, hlt, if_true]
      rfl
    · right
      have hlen : (n : Leaf K V).keys.length = o := by omega
      refine ⟨hlen, ?_⟩
      have h2 : (n : Leaf K V).keys.length = o / 2 + o / 2 := by omega
      have h2v : (n : Leaf K V).vals.length = o / 2 + o / 2 := by omega
      refine ⟨(Leaf.mk (n : Leaf K V).id ((n : Leaf K V).keys.take (o / 2)) ((n : Leaf K V).vals.take (o / 2))
                  (some fresh) : Leaf K V),
        (Leaf.mk fresh ((n : Leaf K V).keys.drop (o / 2)) ((n : Leaf K V).vals.drop (o / 2))
           (n : Leaf K V).next : Leaf K V), ?_, rfl, rfl, ?_, ?_, [], [], rfl, rfl, rfl, fun _ => ⟨rfl, rfl⟩⟩
      simp only [Node.maybeSplit, hlt, if_false, hh]
      rw [if_neg (by omega), take_drop_half _ _ h2, take_drop_half _ _ h2v]
      rfl
      · show Shallow.mk 0 _ _ _ [] = Shallow.mk 0 _ _ _ (List.take _ [])
        simp
        exact ⟨rfl, rfl⟩
      · show Shallow.mk 0 _ _ _ [] = Shallow.mk 0 _ _ _ (List.drop _ [])
        simp
        exact ⟨rfl, rfl, rfl⟩
  | d + 1, n, hle, _, hpar => by
    have hle' : (n : Inner K (Node K V d)).runts.length ≤ o := hle
    have hv : (n : Inner K (Node K V d)).runts.length = ((n : Inner K (Node K V d)).kids.map (Node.id (d := d))).length :=
      hpar (Nat.succ_pos _)
    rw [List.length_map] at hv
    have hh : o >>> 1 = o / 2 := shiftRight_one_eq o
    by_cases hlt : (n : Inner K (Node K V d)).runts.length < o
    · left
      refine ⟨hlt, ?_⟩
      simp only [Node.maybeSplit, hlt, if_true]
      rfl
    · right
      have hlen : (n : Inner K (Node K V d)).runts.length = o := by omega
      refine ⟨hlen, ?_⟩
      have h2 : (n : Inner K (Node K V d)).runts.length = o / 2 + o / 2 := by omega
      have h2v : (n : Inner K (Node K V d)).kids.length = o / 2 + o / 2 := by omega
      refine ⟨(Inner.mk (n : Inner K (Node K V d)).id ((n : Inner K (Node K V d)).runts.take (o / 2))
                  ((n : Inner K (Node K V d)).kids.take (o / 2)) : Inner K (Node K V d)),
        (Inner.mk fresh ((n : Inner K (Node K V d)).runts.drop (o / 2))
           ((n : Inner K (Node K V d)).kids.drop (o / 2)) : Inner K (Node K V d)),
        ?_, rfl, rfl, ?_, ?_,
        ((n : Inner K (Node K V d)).kids.take (o / 2)).flatMap (flat (d := d)),
        ((n : Inner K (Node K V d)).kids.drop (o / 2)).flatMap (flat (d := d)), ?_, rfl, rfl, ?_⟩
      · simp only [Node.maybeSplit, hlt, if_false, hh]
        rw [if_neg (by omega), take_drop_half _ _ h2, take_drop_half _ _ h2v]
        rfl
      · show Shallow.mk (d + 1) _ [] none (List.map _ (List.take _ _)) =
          Shallow.mk (d + 1) _ (List.take _ []) _ (List.take _ (List.map _ _))
        simp [List.map_take]
        rfl
      · show Shallow.mk (d + 1) _ [] none (List.map _ (List.drop _ _)) =
          Shallow.mk (d + 1) _ (List.drop _ []) none (List.drop _ (List.map _ _))
        simp [List.map_drop]
        rfl
      · show (n : Inner K (Node K V d)).kids.flatMap (flat (d := d)) = _
        rw [← List.flatMap_append, List.take_append_drop]
      · intro h; cases h

/-! ### leaf operations -/

theorem getLast?_some_ne_nil {α : Type} {l : List α} {x : α} (h : l.getLast? = some x) : l ≠ [] := by
  intro e; rw [e] at h; cases h

theorem length_insertIdiom {α : Type} (pad : α) (l : List α) (i : Nat) (v : α) (h : i ≤ l.length) :
    (insertIdiom pad l i v).length = l.length + 1 := by
  rw [insertIdiom_eq _ _ _ _ h]
  simp
  omega

theorem Leaf.upsert_spec (P : Params K) (hpad : PadOk P) (l : Leaf K V) (key : K) (f : Option V → V)
    (hpar : l.keys.length = l.vals.length) :
    ∃ l' arg, Leaf.upsert P l key f = .ok (l', arg) ∧ l'.id = l.id ∧ l'.next = l.next ∧
      l'.keys.length = l'.vals.length ∧ l.keys.length ≤ l'.keys.length ∧ l'.keys.length ≤ l.keys.length + 1 := by
  unfold Leaf.upsert
  cases hlast : l.keys.getLast? with
  | none =>
    simp only [if_true]
    exact ⟨_, _, rfl, rfl, rfl, by simp [hpar], by simp, by simp⟩
  | some last =>
    simp only
    by_cases hlt : P.lt last key = true
    · rw [if_pos hlt]
      exact ⟨_, _, rfl, rfl, rfl, by simp [hpar], by simp, by simp⟩
    · rw [if_neg hlt]
      have hne : l.keys ≠ [] := getLast?_some_ne_nil hlast
      have hidx := searchGE_lt_length (lt := P.lt) key l.keys hne
      rw [List.getElem?_eq_getElem hidx]
      simp only
      split
      · rw [List.getElem?_eq_getElem (by omega : searchGE P.lt key l.keys < l.vals.length)]
        exact ⟨_, _, rfl, rfl, rfl, by simp [hpar], Nat.le_refl _, Nat.le_succ _⟩
      · cases hp : P.pad (some key) with
        | none => exact absurd hp (hpad key)
        | some pad =>
          simp only
          rw [if_neg (by omega)]
          refine ⟨_, _, rfl, rfl, rfl, ?_, ?_, ?_⟩
          · simp only
            rw [length_insertIdiom _ _ _ _ (by omega), length_insertIdiom _ _ _ _ (by omega), hpar]
          · simp only
            rw [length_insertIdiom _ _ _ _ (by omega)]; omega
          · simp only
            rw [length_insertIdiom _ _ _ _ (by omega)]; omega

theorem Leaf.search_ok (P : Params K) (l : Leaf K V) (key : K) (hpar : l.keys.length = l.vals.length) :
    ∃ v, Leaf.search P l key = .ok v := by
  unfold Leaf.search
  split
  · exact ⟨_, rfl⟩
  · rename_i hne
    have hne' : l.keys ≠ [] := by intro e; apply hne; simp [e]
    have hidx := searchGE_lt_length (lt := P.lt) key l.keys hne'
    simp only
    rw [List.getElem?_eq_getElem hidx]
    simp only
    split
    · rw [List.getElem?_eq_getElem (by omega : searchGE P.lt key l.keys < l.vals.length)]
      exact ⟨_, rfl⟩
    · exact ⟨_, rfl⟩

theorem startIndex_le (P : Params K) (key : K) (l : Leaf K V) : startIndex P {} key l ≤ l.keys.length := by
  unfold startIndex
  simp only
  by_cases hne : l.keys = []
  · simp [hne, searchGE_nil]
  · have hidx := searchGE_lt_length (lt := P.lt) key l.keys hne
    rw [List.getElem?_eq_getElem hidx]
    simp only [Bool.false_eq_true, if_false]
    split <;> omega

theorem lowerFirst_ok (P : Params K) (key : K) (index : Nat) (runts : List K) {d : Nat} (c : Node K V d)
    (hne : 0 < runts.length) : ∃ r', lowerFirst P key index runts c = .ok r' ∧ r'.length = runts.length := by
  unfold lowerFirst
  split
  · rw [List.getElem?_eq_getElem hne]
    simp only
    split
    · exact ⟨_, rfl, by simp⟩
    · exact ⟨_, rfl, rfl⟩
  · exact ⟨_, rfl, rfl⟩

end Gobptree.Conc
