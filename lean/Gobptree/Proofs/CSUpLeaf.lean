/-
  The blocks that end an Insert/Update descent step: writing a leaf (`upLeaf`,
  `upCallback`) and continuing the descent at a node the thread holds (`upContinue`).
-/
import Gobptree.Proofs.CSUpNode

namespace Gobptree.Conc
open Gobptree

variable {K V : Type}

theorem keepOf_held (H : List Lk) (nid id : Nat) (h : Lk.node id ∈ H) : keepOf H nid id = false := by
  unfold keepOf
  have : H.contains (Lk.node id) = true := by simpa using h
  rw [this]; simp

theorem keepOf_fresh (H : List Lk) (nid id : Nat) (h : nid ≤ id) : keepOf H nid id = false := by
  unfold keepOf
  have : decide (id < nid) = false := by simp; omega
  rw [this]; simp

theorem frameEq_drop_head {keep : Nat → Bool} {a b : Nat × Shallow K V} {l l' : List (Nat × Shallow K V)}
    (ha : keep a.1 = false) (hb : keep b.1 = false) (h : FrameEq keep l l') : FrameEq keep (a :: l) (b :: l') := by
  unfold FrameEq at *
  simp [ha, hb, h]

theorem frameEq_drop_left {keep : Nat → Bool} {b : Nat × Shallow K V} {l l' : List (Nat × Shallow K V)}
    (hb : keep b.1 = false) (h : FrameEq keep l l') : FrameEq keep l (b :: l') := by
  unfold FrameEq at *
  simp [hb, h]

theorem frameEq_append {keep : Nat → Bool} {a a' b b' : List (Nat × Shallow K V)}
    (h1 : FrameEq keep a a') (h2 : FrameEq keep b b') : FrameEq keep (a ++ b) (a' ++ b') := by
  unfold FrameEq at *
  simp [List.filter_append, h1, h2]

/-- writing back a leaf that kept its identity and `next`, did not shrink and fits -/
theorem putLeaf_step {H : List Lk} {hole : Option Nat} {t : Tree K V} (hok : TreeOk hole t) {n : Nat}
    {l l' : Leaf K V} (hfind : t.find n = some ⟨0, l⟩) (hid : l'.id = l.id) (hnext : l'.next = l.next)
    (hpar : l'.keys.length = l'.vals.length) (hge : l.keys.length ≤ l'.keys.length)
    (hcap : l'.keys.length ≤ t.order) (hH : Lk.node n ∈ H) :
    Step H hole t (putLeaf t l') ∧ (l'.id, shallow (d := 0) l') ∈ (putLeaf t l').flat := by
  have hmid : l.id = n := (Tree.find_modify hfind).1
  have hfind' : t.find l'.id = some ⟨0, l⟩ := by rw [hid, hmid]; exact hfind
  obtain ⟨L, R, hf, hf', hroot, hdepth, hnid, hord⟩ := putLeaf_flat l' hfind' hok.ids.1
  have hf : t.flat = L ++ [(l.id, shallow (d := 0) l)] ++ R := hf
  have hf' : (putLeaf t l').flat = L ++ [(l'.id, shallow (d := 0) l')] ++ R := hf'
  have hmem : ((l : Leaf K V).id, shallow (d := 0) l) ∈ t.flat := by rw [hf]; simp
  have hocc := hok.occ _ hmem
  refine ⟨⟨⟨?_, ?_, ?_, ?_, ?_, ?_⟩, ?_, ?_, Or.inr ⟨hroot, hdepth⟩, hord⟩, ?_⟩
  · refine ids_surgery (F := []) hok.ids hf hf' ?_ List.nodup_nil (by simp) (by omega)
    show List.Perm [l'.id] ([] ++ [l.id])
    rw [hid]; exact List.Perm.refl _
  · refine occ_surgery hok.occ hf hf' hroot hord ?_
    intro p hp
    simp only [List.mem_singleton] at hp
    subst hp
    obtain ⟨h1, h2, h3, h4⟩ := hocc
    refine ⟨hcap, ?_, fun _ => ⟨hpar, rfl⟩, fun h => absurd h (Nat.lt_irrefl 0)⟩
    show minOf t.order t.rootId hole l'.id 0 ≤ l'.keys.length
    rw [hid]
    exact Nat.le_trans h2 hge
  · refine chain_surgery hok.chain hf hf' (Or.inl ?_)
    rw [chainView_cons_leaf _ _ _ rfl, chainView_cons_leaf _ _ _ rfl]
    show [(l.id, l.next)] = [(l'.id, l'.next)]
    rw [hid, hnext]
  · rw [hord]; exact hok.order2
  · rw [hord]; exact hok.big
  · rw [hord]; exact hok.even
  · rw [hf, hf']
    apply FrameEq.context
    apply frameEq_drop_head
    · exact keepOf_held H _ _ (by rw [hmid]; exact hH)
    · exact keepOf_held H _ _ (by show Lk.node l'.id ∈ H; rw [hid, hmid]; exact hH)
    · exact FrameEq.refl _ _
  · rw [hnid]; exact Nat.le_refl _
  · rw [hf']; simp

/-- the leaf part of Insert/Update on a leaf that has room -/
theorem upLeaf_post (P : Params K) (t : Nat) (s : St K V) (key : K) (f : Option V → V) (y : Option Bool)
    (n : Nat) (l : Leaf K V) (H : List Lk) (hole : Option Nat) (hpre : Pre P hole s)
    (hfind : s.tree.find n = some ⟨0, l⟩) (hnf : notFull s.tree n) (hH : Lk.node n ∈ H)
    (hcur : cursorLocks s.cursor = []) :
    Post H hole s (upLeaf P t s key f y n l).1 (upLeaf P t s key f y n l).2 ∧
      flowHole (upLeaf P t s key f y n l).2 = none := by
  obtain ⟨sh, hl, hlt⟩ := hnf
  have hocc := occ_of_look hpre.tree.occ hl
  have hsh : sh = shallow (d := 0) l := by
    rw [look_eq_find, hfind] at hl
    exact (Option.some.inj hl).symm
  subst hsh
  have hlt' : l.keys.length < s.tree.order := hlt
  have hpar : l.keys.length = l.vals.length := (hocc.2.2.1 rfl).1
  obtain ⟨l', arg, hup, hid, hnext, hpar', hge, hle⟩ := Leaf.upsert_spec P hpre.pad l key f hpar
  have hstep := putLeaf_step (H := H) hpre.tree hfind hid hnext hpar' hge (by omega) hH
  have hcok : ∀ tr : Tree K V, CursorOk tr false s.cursor := fun tr => cursorOk_of_noLocks tr false _ hcur
  unfold upLeaf
  rw [hup]
  simp only
  split
  · refine ⟨Post.of_unchanged hpre.tree rfl (by simp) ?_ (hcok _), rfl⟩
    intro p hp
    cases hp
    refine ⟨⟨⟨_, hl, rfl⟩, ⟨_, hl, hlt⟩⟩, hcur, rfl⟩
  · refine ⟨⟨by simp, hstep.1.tree, hstep.1.frame, hstep.1.nextId, hstep.1.root, hstep.1.order, ?_, hcok _⟩, rfl⟩
    intro p hp; cases hp
  · refine ⟨⟨by simp, hstep.1.tree, hstep.1.frame, hstep.1.nextId, hstep.1.root, hstep.1.order, ?_, hcok _⟩, rfl⟩
    intro p hp; cases hp

/-- continue the descent at a node the thread holds and that has room -/
theorem upContinue_post (P : Params K) (t : Nat) (s : St K V) (key : K) (f : Option V → V) (y : Option Bool)
    (n : Nat) (H : List Lk) (hole : Option Nat) (hpre : Pre P hole s) (hnf : notFull s.tree n)
    (hH : Lk.node n ∈ H) (hcur : cursorLocks s.cursor = []) :
    Post H hole s (upContinue P t s key f y n).1 (upContinue P t s key f y n).2 ∧
      flowHole (upContinue P t s key f y n).2 = none := by
  have hnf' := hnf
  obtain ⟨sh, hl, hlt⟩ := hnf
  obtain ⟨a, hfind, hsh, _⟩ := find_some_of_look hl
  have hocc := occ_of_look hpre.tree.occ hl
  unfold upContinue
  rw [hfind]
  simp only
  by_cases h0 : sh.height = 0
  · obtain ⟨l, rfl, hleaf⟩ := any_leaf a (by rw [hsh]; exact h0)
    rw [hleaf]
    exact upLeaf_post P t s key f y n l H hole hpre hfind hnf' hH hcur
  · have hpos : 0 < sh.height := Nat.pos_of_ne_zero h0
    obtain ⟨h1, h2, h3⟩ := any_inner a (by rw [hsh]; exact hpos)
    rw [hsh] at h2 h3
    rw [h1, h2]
    simp only
    rw [h3]
    obtain ⟨hlen, hone, _⟩ := hocc.2.2.2 hpos
    have hne : sh.keys ≠ [] := by intro e; rw [e] at hone; simp at hone
    have hidx := searchLE_lt_length (lt := P.lt) key sh.keys hne
    have hidx' : searchLE P.lt key sh.keys < sh.kids.length := by omega
    rw [List.getElem?_eq_getElem hidx']
    simp only
    refine ⟨Post.of_unchanged hpre.tree rfl (by simp) ?_ (cursorOk_of_noLocks _ false _ hcur), rfl⟩
    intro p hp
    cases hp
    refine ⟨⟨?_, hnf'⟩, hcur, rfl⟩
    unfold Tree.kidAt
    rw [hl]
    exact List.getElem?_eq_getElem hidx'

/-- the update callback returned: write the leaf -/
theorem upCallback_post (P : Params K) (t : Nat) (s : St K V) (key : K) (f : Option V → V) (leaf : Nat)
    (arg : Option V) (H : List Lk) (hole : Option Nat) (hpre : Pre P hole s)
    (hk : KontOk s.tree (.upCallback key f leaf arg)) (hH : Lk.node leaf ∈ H)
    (hcur : cursorLocks s.cursor = []) :
    Post H hole s (resume P t s (.upCallback key f leaf arg)).1 (resume P t s (.upCallback key f leaf arg)).2 ∧
      flowHole (resume P t s (.upCallback key f leaf arg)).2 = none := by
  obtain ⟨⟨sh0, hl0, h0⟩, hnf⟩ := hk
  obtain ⟨sh, hl, hlt⟩ := hnf
  rw [hl0] at hl
  cases hl
  obtain ⟨a, hfind, hsh, _⟩ := find_some_of_look hl0
  obtain ⟨l, rfl, hleaf⟩ := any_leaf a (by rw [hsh]; exact h0)
  have hocc := occ_of_look hpre.tree.occ hl0
  have hsh' : sh0 = shallow (d := 0) l := hsh.symm
  subst hsh'
  have hlt' : l.keys.length < s.tree.order := hlt
  have hpar : l.keys.length = l.vals.length := (hocc.2.2.1 rfl).1
  obtain ⟨l', arg', hup, hid, hnext, hpar', hge, hle⟩ := Leaf.upsert_spec P hpre.pad l key f hpar
  have hstep := putLeaf_step (H := H) hpre.tree hfind hid hnext hpar' hge (by omega) hH
  simp only [resume]
  rw [hfind]
  simp only
  rw [hleaf]
  simp only
  rw [hup]
  simp only
  refine ⟨⟨by simp, hstep.1.tree, hstep.1.frame, hstep.1.nextId, hstep.1.root, hstep.1.order, ?_,
    cursorOk_of_noLocks _ false _ hcur⟩, rfl⟩
  intro p hp; cases hp

end Gobptree.Conc
