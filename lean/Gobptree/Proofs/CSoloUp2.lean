/-
  Single-thread agreement, part 4: the Insert / Update descent of a lone thread computes
  `upsertNode` (same identities, same counter).
-/
import Gobptree.Proofs.CSoloUp

namespace Gobptree.Conc
open Gobptree

variable {K V : Type}

/-- the callback notes an Insert (`none`) / Update (`some _`) logs -/
def cbOfY (y : Option Bool) (cb : Option V) : List (Option V) :=
  match y with
  | some _ => [cb]
  | none => []

theorem upLeaf_none (P : Params K) (t : Nat) (s : St K V) (key : K) (f : Option V → V) (n : Nat) (l l' : Leaf K V)
    (arg : Option V) (h : Leaf.upsert P l key f = .ok (l', arg)) :
    upLeaf P t s key f none n l = ((s.setTree (putLeaf s.tree l')).rel t (.node n), .done .ok) := by
  unfold upLeaf
  rw [h]

theorem upLeaf_false (P : Params K) (t : Nat) (s : St K V) (key : K) (f : Option V → V) (n : Nat) (l l' : Leaf K V)
    (arg : Option V) (h : Leaf.upsert P l key f = .ok (l', arg)) :
    upLeaf P t s key f (some false) n l =
      (((s.note t (.cb arg)).setTree (putLeaf s.tree l')).rel t (.node n), .done .ok) := by
  unfold upLeaf
  rw [h]
  rfl

theorem up_leaf (P : Params K) (key : K) (f : Option V → V) (y : Option Bool) (hy : y ≠ some true)
    {D : Nat} (c : Ctx K V D 0) (l : Leaf K V) (o nid : Nat) (l' : Leaf K V) (cb : Option V) (s : St K V)
    (htree : s.tree = treeOf o c (l : Node K V 0) nid) (hheld : s.held = [.node l.id]) (ho : OwnOk s)
    (hinv : IdInv c (l : Node K V 0) nid) (hup : Leaf.upsert P l key f = .ok (l', cb)) :
    ∃ s', SoloFin P (upContinue P 0 s key f y l.id) s' .ok ∧
      SoloPost s s' (treeOf o c (l' : Node K V 0) nid) (cbOfY y cb) := by
  have hnm : l.id ∉ c.ids := hinv.not_mem
  have hfind : s.tree.find l.id = some ⟨0, l⟩ := by
    rw [htree]; exact find_treeOf o c (l : Node K V 0) nid hnm
  have hid : l'.id = l.id := Leaf.upsert_id P l l' key f cb hup
  rw [upContinue_leaf P 0 s key f y l.id l hfind]
  cases y with
  | none =>
    rw [upLeaf_none P 0 s key f l.id l l' cb hup]
    refine ⟨_, SoloFin.done _ _, ?_, ?_, ?_, rfl, rfl, ?_⟩
    · show putLeaf s.tree l' = _
      rw [htree]; exact putLeaf_treeOf o c l l' nid hid hnm
    · show s.held.erase (.node l.id) = []
      rw [hheld]; simp
    · exact (ho.setTree _).rel _
    · exact Grows.rel _ _
  | some b =>
    cases b with
    | true => exact absurd rfl hy
    | false =>
      rw [upLeaf_false P 0 s key f l.id l l' cb hup]
      refine ⟨_, SoloFin.done _ _, ?_, ?_, ?_, rfl, rfl, ?_⟩
      · show putLeaf s.tree l' = _
        rw [htree]; exact putLeaf_treeOf o c l l' nid hid hnm
      · show s.held.erase (.node l.id) = []
        rw [hheld]; simp
      · exact ((ho.note _).setTree _).rel _
      · exact (Grows.cb s cb).trans (Grows.rel _ _)

theorem Grows.trans_nil {s s1 s2 : St K V} {b : List (Option V)} (h1 : Grows s s1 []) (h2 : Grows s1 s2 b) :
    Grows s s2 b := by
  have := h1.trans h2
  rwa [List.append_nil] at this

theorem solo_erase_mid (a b c : Lk) : ((([a] ++ [b]) ++ [c]).erase b).erase a = [c] := by
  by_cases h : a = b
  · subst h; simp
  · simp [h]

theorem putInner_treeOf_mk {D d : Nat} (o : Nat) (c : Ctx K V D (d + 1)) (pid : Nat) (r1 : List K) (k1 : List (Node K V d))
    (r2 : List K) (k2 : List (Node K V d)) (nid : Nat) (h : pid ∉ c.ids) :
    putInner (treeOf o c ((⟨pid, r1, k1⟩ : Inner K (Node K V d)) : Node K V (d + 1)) nid) (⟨pid, r2, k2⟩ : Inner K (Node K V d)) =
      treeOf o c ((⟨pid, r2, k2⟩ : Inner K (Node K V d)) : Node K V (d + 1)) nid :=
  putInner_treeOf o c ⟨pid, r1, k1⟩ ⟨pid, r2, k2⟩ nid rfl h

/-- the statement proved by induction on the height -/
def UpSim (P : Params K) (key : K) (f : Option V → V) (y : Option Bool) (d : Nat) : Prop :=
  ∀ {D : Nat} (c : Ctx K V D d) (x : Node K V d) (o nid : Nat) (x' : Node K V d) (nid' : Nat) (cb : Option V)
    (s : St K V),
    s.tree = treeOf o c x nid → s.held = [.node (Node.id x)] → OwnOk s → IdInv c x nid →
    upsertNode P key f d x nid = .ok (x', nid', cb) →
    ∃ s', SoloFin P (upContinue P 0 s key f y (Node.id x)) s' .ok ∧ SoloPost s s' (treeOf o c x' nid') (cbOfY y cb)

theorem up_inner (P : Params K) (key : K) (f : Option V → V) (y : Option Bool) (d : Nat)
    (ih : UpSim P key f y d)
    {D : Nat} (c : Ctx K V D (d + 1)) (p : Inner K (Node K V d)) (o nid : Nat) (p' : Inner K (Node K V d))
    (nid' : Nat) (cb : Option V) (s : St K V)
    (htree : s.tree = treeOf o c (p : Node K V (d + 1)) nid) (hheld : s.held = [.node p.id]) (ho : OwnOk s)
    (hinv : IdInv c (p : Node K V (d + 1)) nid)
    (hup : upsertNode P key f (d + 1) p nid = .ok (p', nid', cb)) :
    ∃ s', SoloFin P (upContinue P 0 s key f y p.id) s' .ok ∧
      SoloPost s s' (treeOf o c (p' : Node K V (d + 1)) nid') (cbOfY y cb) := by
  obtain ⟨child, runts, hk, hlf, hcase⟩ := upsertNode_succ_inv P key f p nid p' nid' cb hup
  obtain ⟨A, B, hkids, hA⟩ := kids_split _ _ _ hk
  have hci := upContinue_inner P 0 s key f y p.id p child
  generalize searchLE P.lt key p.runts = idx at hk hlf hcase hA hci
  obtain ⟨pid, prunts, pkids⟩ := p
  simp only at hkids hA hk hlf hheld hci
  subst hkids
  subst hA
  have hnm : pid ∉ c.ids := hinv.not_mem
  have hfind : s.tree.find pid = some ⟨d + 1, (⟨pid, prunts, A ++ child :: B⟩ : Inner K (Node K V d))⟩ := by
    rw [htree]; exact find_treeOf o c ((⟨pid, prunts, A ++ child :: B⟩ : Inner K (Node K V d)) : Node K V (d + 1)) nid hnm
  have hcnt : ∀ a, (c.ids.count a + ((if pid = a then 1 else 0) + (A.flatMap nids).count a + (nids child).count a +
      (B.flatMap nids).count a) ≤ 1) ∧ (0 < c.ids.count a + ((if pid = a then 1 else 0) + (A.flatMap nids).count a +
      (nids child).count a + (B.flatMap nids).count a) → a < nid) := by
    intro a
    have := hinv a
    rw [count_nids_split] at this
    exact this
  have hcc := count_id_nids child
  have hne : Node.id child ≠ pid := by
    intro e
    have := (hcnt (Node.id child)).1
    rw [if_pos e.symm] at this
    omega
  have hclt : Node.id child < nid := (hcnt (Node.id child)).2 (by omega)
  have hplt : pid < nid := (hcnt pid).2 (by rw [if_pos rfl]; omega)
  rw [hci hfind hk]
  have hfree : Lk.node (Node.id child) ∉ s.held := by
    rw [hheld]; simp [hne]
  suffices h : ∃ s', SoloFin P (upChildArrive P 0 (s.tick.acq 0 (.node (Node.id child))) key f y pid A.length (Node.id child)) s' .ok ∧
      SoloPost s s' (treeOf o c (p' : Node K V (d + 1)) nid') (cbOfY y cb) by
    obtain ⟨s', hf, hp⟩ := h
    exact ⟨s', SoloFin.park ho hfree hf, hp⟩
  have ho1 : OwnOk (s.tick.acq 0 (.node (Node.id child))) := ho.tick.acq _
  have hg1 : Grows s (s.tick.acq 0 (.node (Node.id child))) [] := (Grows.tick s).trans_nil (Grows.acq _ _)
  generalize hs1 : s.tick.acq 0 (.node (Node.id child)) = s1 at ho1 hg1
  have htree1 : s1.tree = s.tree := by rw [← hs1]; rfl
  have hheld1 : s1.held = [.node pid] ++ [.node (Node.id child)] := by rw [← hs1, ← hheld]; rfl
  have hcur1 : s1.cursor = s.cursor := by rw [← hs1]; rfl
  have hex1 : s1.exhausted = s.exhausted := by rw [← hs1]; rfl
  have hfind1 : s1.tree.find pid = some ⟨d + 1, (⟨pid, prunts, A ++ child :: B⟩ : Inner K (Node K V d))⟩ := by
    rw [htree1]; exact hfind
  have hnid1 : s1.tree.nextId = nid := by rw [htree1, htree]; rfl
  cases hcase with
  | nosplit c' hms hrec hp' =>
    rw [solo_upChildArrive_nosplit P 0 s1 key f y pid A.length (Node.id child) _ child runts hfind1 hk hlf
      (by rw [hnid1]; exact hms)]
    have htree2 : putInner s1.tree (⟨pid, runts, (A ++ child :: B).set A.length child⟩ : Inner K (Node K V d)) =
        treeOf o (Ctx.kid c pid runts A B) child nid := by
      rw [htree1, htree]
      refine (putInner_treeOf_mk o c pid _ _ _ _ nid hnm).trans ?_
      rw [form_set_pivot']
      rfl
    have hinv2 : IdInv (Ctx.kid c pid runts A B) child nid := by
      intro a
      have := hcnt a
      rw [count_ids_kid]
      omega
    obtain ⟨s', hf, hpost⟩ := ih (Ctx.kid c pid runts A B) child o nid c' nid' cb
      ((s1.setTree (putInner s1.tree (⟨pid, runts, (A ++ child :: B).set A.length child⟩ : Inner K (Node K V d)))).rel 0
        (.node pid)) htree2
      (by show s1.held.erase _ = _; rw [hheld1]; simp)
      ((ho1.setTree _).rel _) hinv2 hrec
    refine ⟨s', hf, ?_, hpost.held, hpost.own, hpost.cursor.trans hcur1, hpost.exhausted.trans hex1, ?_⟩
    · rw [hpost.tree, hp']
      simp only
      rw [form_set_pivot']
      rfl
    · exact hg1.trans_nil ((Grows.rel _ _).trans_nil hpost.evs)
  | right left right pad rs c' hms hpad hrs hlt hrec hp' =>
    obtain ⟨hlid, hrid, hsplit⟩ := maybeSplit_some_facts _ _ _ _ _ hms
    rw [upChildArrive_right P 0 s1 key f y pid A.length (Node.id child) _ child left right runts pad rs hfind1 hk hlf
      (by rw [hnid1]; exact hms) hpad hrs hlt]
    have htree2 : bump (putInner s1.tree (⟨pid, insertIdiom pad runts (A.length + 1) rs,
          (insertIdiom right (A ++ child :: B) (A.length + 1) right).set A.length left⟩ : Inner K (Node K V d))) =
        treeOf o (Ctx.kid c pid (insertIdiom pad runts (A.length + 1) rs) (A ++ [left]) B) right (nid + 1) := by
      rw [htree1, htree]
      refine (congrArg bump (putInner_treeOf_mk o c pid _ _ _ _ nid hnm)).trans ?_
      rw [form_insert_next', form_set_pivot']
      show treeOf o c _ (nid + 1) = _
      unfold treeOf
      rw [Ctx.fill_kid, List.append_assoc]
      rfl
    have hinv2 : IdInv (Ctx.kid c pid (insertIdiom pad runts (A.length + 1) rs) (A ++ [left]) B) right (nid + 1) := by
      intro a
      have h1 := hcnt a
      have h2 := hsplit a
      rw [count_ids_kid, List.flatMap_append, List.count_append, List.flatMap_cons, List.flatMap_nil, List.append_nil]
      by_cases e1 : nid = a <;> by_cases e2 : pid = a <;>
        simp only [e1, e2, if_true, if_false] at h1 h2 ⊢ <;> omega
    have hfree2 : Lk.node (Node.id right) ∉ s1.held := by
      rw [hheld1, hrid]
      simp only [List.mem_append, List.mem_singleton, Lk.node.injEq, not_or]
      omega
    obtain ⟨s', hf, hpost⟩ := ih (Ctx.kid c pid (insertIdiom pad runts (A.length + 1) rs) (A ++ [left]) B) right o (nid + 1)
      c' nid' cb
      (((((s1.setTree (bump (putInner s1.tree (⟨pid, insertIdiom pad runts (A.length + 1) rs,
        (insertIdiom right (A ++ child :: B) (A.length + 1) right).set A.length left⟩ : Inner K (Node K V d))))).tick.acq 0
        (.node (Node.id right))).rel 0 (.node (Node.id child))).rel 0 (.node pid))) htree2
      (by show ((s1.held ++ [_]).erase _).erase _ = _; rw [hheld1]; exact solo_erase_mid _ _ _)
      ((((ho1.setTree _).tick.acq _).rel _).rel _) hinv2 hrec
    refine ⟨s', SoloFin.park (ho1.setTree _) hfree2 hf, ?_, hpost.held, hpost.own, hpost.cursor.trans hcur1,
      hpost.exhausted.trans hex1, ?_⟩
    · rw [hpost.tree, hp']
      simp only
      rw [form_insert_next', form_set_pivot', form_set_next']
      unfold treeOf
      rw [Ctx.fill_kid, List.append_assoc]
      rfl
    · refine hg1.trans_nil (Grows.trans_nil ?_ hpost.evs)
      exact (Grows.tick _).trans_nil ((Grows.acq _ _).trans_nil ((Grows.rel _ _).trans_nil (Grows.rel _ _)))
  | left left right pad rs c' hms hpad hrs hlt hrec hp' =>
    obtain ⟨hlid, hrid, hsplit⟩ := maybeSplit_some_facts _ _ _ _ _ hms
    rw [upChildArrive_left P 0 s1 key f y pid A.length (Node.id child) _ child left right runts pad rs hfind1 hk hlf
      (by rw [hnid1]; exact hms) hpad hrs hlt]
    have htree2 : bump (putInner s1.tree (⟨pid, insertIdiom pad runts (A.length + 1) rs,
          (insertIdiom right (A ++ child :: B) (A.length + 1) right).set A.length left⟩ : Inner K (Node K V d))) =
        treeOf o (Ctx.kid c pid (insertIdiom pad runts (A.length + 1) rs) A (right :: B)) left (nid + 1) := by
      rw [htree1, htree]
      refine (congrArg bump (putInner_treeOf_mk o c pid _ _ _ _ nid hnm)).trans ?_
      rw [form_insert_next', form_set_pivot']
      rfl
    have hinv2 : IdInv (Ctx.kid c pid (insertIdiom pad runts (A.length + 1) rs) A (right :: B)) left (nid + 1) := by
      intro a
      have h1 := hcnt a
      have h2 := hsplit a
      rw [count_ids_kid, List.flatMap_cons, List.count_append]
      by_cases e1 : nid = a <;> by_cases e2 : pid = a <;>
        simp only [e1, e2, if_true, if_false] at h1 h2 ⊢ <;> omega
    rw [← hlid]
    obtain ⟨s', hf, hpost⟩ := ih (Ctx.kid c pid (insertIdiom pad runts (A.length + 1) rs) A (right :: B)) left o (nid + 1)
      c' nid' cb
      ((s1.setTree (bump (putInner s1.tree (⟨pid, insertIdiom pad runts (A.length + 1) rs,
        (insertIdiom right (A ++ child :: B) (A.length + 1) right).set A.length left⟩ : Inner K (Node K V d))))).rel 0
        (.node pid)) htree2
      (by show s1.held.erase _ = _; rw [hheld1, hlid]; simp)
      ((ho1.setTree _).rel _) hinv2 hrec
    refine ⟨s', hf, ?_, hpost.held, hpost.own, hpost.cursor.trans hcur1, hpost.exhausted.trans hex1, ?_⟩
    · rw [hpost.tree, hp']
      simp only
      rw [form_insert_next', form_set_pivot', form_set_pivot']
      rfl
    · exact hg1.trans_nil ((Grows.rel _ _).trans_nil hpost.evs)

end Gobptree.Conc
