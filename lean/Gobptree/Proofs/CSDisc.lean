/-
  Client discipline (the proviso of C06/C09), as a static property of a thread's program:
  a three-state automaton over-approximating the cursor state.
    N : no cursor is open
    F : a cursor may be open (freshly created: `Pair` not yet allowed)
    S : a cursor may be open, and if it is, `Scan` has been called (index ≥ 0)
  Allowed: tree operations and `NewScanner` only in N; `Pair` only in S (or N, where it is a
  no-op); `Scan`, `Close`, `pause` anywhere.
-/
import Gobptree.Proofs.CSBlock

namespace Gobptree.Conc
open Gobptree

variable {K V : Type}

inductive CSt where
  | N | F | S
  deriving DecidableEq, Repr

def discStep : CSt → COp K V → Option CSt
  | .N, .ins _ _ => some .N
  | .N, .upd _ _ _ => some .N
  | .N, .del _ => some .N
  | .N, .get _ => some .N
  | .N, .ns _ => some .F
  | _, .ins _ _ => none
  | _, .upd _ _ _ => none
  | _, .del _ => none
  | _, .get _ => none
  | _, .ns _ => none
  | .N, .scan => some .N
  | _, .scan => some .S
  | .S, .pair => some .S
  | .N, .pair => some .N
  | .F, .pair => none
  | _, .close => some .N
  | st, .pause => some st

def disciplined : CSt → List (COp K V) → Bool
  | _, [] => true
  | st, op :: rest =>
    match discStep st op with
    | none => false
    | some st' => disciplined st' rest

/-- what the abstract state claims about the concrete cursor -/
def AbsC : CSt → Option (Option Nat × Int) → Bool → Prop
  | .N, c, _ => cursorLocks c = []
  | .F, _, _ => True
  | .S, c, e => ∀ leaf i, c = some (some leaf, i) → e = false → 0 ≤ i

/-- client faults: a tree operation while a cursor is open; `Pair` before any `Scan` -/
def opFault (s : St K V) : COp K V → Bool
  | .ins _ _ | .upd _ _ _ | .del _ | .get _ | .ns _ => misuse s
  | .pair => match s.cursor, s.exhausted with
      | some (some _, i), false => decide (i < 0)
      | _, _ => false
  | _ => false

/-- the abstract state the operation a continuation belongs to will end in -/
def kontAbs (st' : CSt) (k : Kont K V) (c : Option (Option Nat × Int)) (e : Bool) : Prop :=
  match k with
  | .roTree true _ => st' = .F
  | .roNode true _ _ _ => st' = .F
  | .hop _ _ => st' = .S
  | .paused => AbsC st' c e
  | _ => st' = .N

def parkAbs (st' : CSt) (p : Park K V) (c : Option (Option Nat × Int)) (e : Bool) : Prop :=
  match p with
  | .want _ k => kontAbs st' k c e
  | .yielded k => kontAbs st' k c e
  | _ => True

def flowAbs (st' : CSt) (fl : Flow K V) (c : Option (Option Nat × Int)) (e : Bool) : Prop :=
  match fl with
  | .done _ => AbsC st' c e
  | .park p => parkAbs st' p c e
  | .panic => True

/-- discipline invariant of a thread: the rest of its program is allowed from the abstract
    state its current operation will end in -/
def DiscOk (th : Thread K V) : Prop :=
  match th.park with
  | .start => disciplined .N th.prog = true ∧ th.cursor = none
  | .finished => True
  | .want _ k => ∃ st', disciplined st' (th.prog.drop (th.pc + 1)) = true ∧ kontAbs st' k th.cursor th.exhausted
  | .yielded k => ∃ st', disciplined st' (th.prog.drop (th.pc + 1)) = true ∧ kontAbs st' k th.cursor th.exhausted

end Gobptree.Conc
