/-
  Key-order block lemmas for the non-Delete continuations, part 6: the root block of
  Insert/Update (`upRootArrive`), with the root split.
-/
import Gobptree.Proofs.CKUpSplit
import Gobptree.Proofs.CKUpRO

namespace Gobptree.Conc
open Gobptree

variable {K V : Type} {lt : K → K → Bool}

/-! ### the result of an Insert/Update block, relative to its initial state -/

def KRes (lt : K → K → Bool) (t : Nat) (key : K) (f : Option V → V) (H : List Lk) (s s' : St K V) (fl : Flow K V) :
    Prop :=
  OrdTree lt s'.tree ∧ UpAbs lt t key f s s' fl ∧ (∀ p, fl = .park p → parkKPos lt s'.tree p) ∧
  StableRoutes lt H s.tree s'.tree

/-- the block started by acquiring a mutex -/
theorem KRes.of_acq {t : Nat} {key : K} {f : Option V → V} {H : List Lk} {s s' : St K V} {fl : Flow K V} (l : Lk)
    (h : KRes lt t key f H (s.acq t l) s' fl) : KRes lt t key f H s s' fl := by
  obtain ⟨h1, ⟨a, b, c⟩, h3, h4⟩ := h
  refine ⟨h1, ⟨a, b, ?_⟩, h3, h4⟩
  intro arg ha
  rcases c arg ha with h | h
  · exact Or.inl ((cbIn_acq t t arg l s.evs).1 h)
  · exact Or.inr h

/-- a block that stops without having touched the tree or the log -/
theorem KRes.unchanged {t : Nat} {key : K} {f : Option V → V} {H : List Lk} {s s' : St K V} {fl : Flow K V}
    (hord : OrdTree lt s.tree) (htree : s'.tree = s.tree) (hevs : s'.evs = s.evs)
    (hdone : ∀ r, fl ≠ .done r) (hk : ∀ p, fl ≠ .park p) : KRes lt t key f H s s' fl := by
  refine ⟨by rw [htree]; exact hord, ⟨fun r hr => absurd hr (hdone r), fun p hp => absurd hp (hk p), ?_⟩,
    fun p hp => absurd hp (hk p), by rw [htree]; exact StableRoutes.refl H _⟩
  intro arg ha
  rw [hevs] at ha
  exact Or.inl ha

theorem Stable.refl (H : List Lk) (t : Tree K V) : Stable lt H t t := fun _ _ _ => ⟨fun h => h, fun h => h⟩

/-- `upContinue` with a yielding callback never writes the tree -/
theorem upContinue_tree_yield (P : Params K) (t : Nat) (s : St K V) (key : K) (f : Option V → V) (n : Nat) :
    (upContinue P t s key f (some true) n).1.tree = s.tree := by
  unfold upContinue
  cases s.tree.find n with
  | none => rfl
  | some a =>
    simp only
    cases leafOf? a with
    | some l =>
      simp only
      unfold upLeaf
      cases Leaf.upsert P l key f with
      | error e => rfl
      | ok r => rfl
    | none =>
      simp only
      cases innerRunts? a with
      | none => rfl
      | some runts =>
        simp only
        cases innerKidId? a (searchLE P.lt key runts) with
        | none => rfl
        | some c => rfl

/-- the continuation of a block after its structural rewrite: from the state `s1` the thread
    continues the descent at node `n` -/
theorem KRes.continue (P : Params K) (hK : KParams lt P) (hpad : PadOk P) {t : Nat} {key : K} {f : Option V → V}
    {H : List Lk} {s s1 : St K V} (y : Option Bool) (n : Nat) {hole : Option Nat}
    (hok : TreeOk hole s1.tree) (hord : OrdTree lt s1.tree) (hin : InBounds lt s1.tree key n)
    (habs : s1.tree.abs = s.tree.abs) (hevs : ∀ arg, CbIn t arg s1.evs → CbIn t arg s.evs)
    (hst : Stable lt H s.tree s1.tree) :
    KRes lt t key f H s (upContinue P t s1 key f y n).1 (upContinue P t s1 key f y n).2 :=
  (upContinue_keff P hK hpad t s1 key f y n hok hord hin).compose habs hevs hst

/-! ### the tree after a root split -/

def rootSplitTree (tr : Tree K V) (ls rs : K) (l r : Node K V tr.depth) : Tree K V :=
  { order := tr.order, depth := tr.depth + 1,
    root := (Inner.mk (tr.nextId + 1) [ls, rs] [l, r] : Inner K (Node K V tr.depth)),
    nextId := tr.nextId + 2 }

theorem rootSplit_route (h : SWO lt) (tr : Tree K V) (ls rs : K) (l r : Node K V tr.depth) (hlr : lt ls rs = true)
    (key : K) :
    (rootSplitTree tr ls rs l r).routeB lt key =
      (tr.nextId + 1, none, none) ::
        (if lt key rs = true then routeB lt key tr.depth (some ls) (some rs) l
         else routeB lt key tr.depth (some rs) none r) := by
  show routeB lt key (tr.depth + 1) none none (Inner.mk (tr.nextId + 1) [ls, rs] [l, r] : Inner K (Node K V tr.depth)) = _
  rw [routeB_succ]
  congr 1
  have e := searchLE_two h key ls rs hlr
  by_cases c : lt key rs = true
  · rw [if_pos c] at e ⊢
    exact routeKid_eq key none (Inner.mk (tr.nextId + 1) [ls, rs] [l, r] : Inner K (Node K V tr.depth)) 0 ls l e rfl rfl
  · rw [if_neg c] at e ⊢
    exact routeKid_eq key none (Inner.mk (tr.nextId + 1) [ls, rs] [l, r] : Inner K (Node K V tr.depth)) 1 rs r e rfl rfl

/-- key-order facts of the tree after a root split; `ls` is the (possibly lowered) first separator -/
theorem rootSplit_facts (h : SWO lt) (tr : Tree K V) (ls : K) (l r : Node K V tr.depth) (s s0 : K)
    (sp : SplitOrd lt tr.depth none none tr.root l r tr.nextId s s0) (hls : lt s0 ls = false) :
    OrdTree lt (rootSplitTree tr ls s l r) ∧ (rootSplitTree tr ls s l r).abs = tr.abs ∧
    (∀ key x a b, (x, a, b) ∈ tr.routeB lt key → x ≠ tr.rootId →
      (x, a, b) ∈ (rootSplitTree tr ls s l r).routeB lt key) ∧
    (∀ key, lt key s = true → (tr.rootId, some ls, some s) ∈ (rootSplitTree tr ls s l r).routeB lt key) ∧
    (∀ key, lt key s = false → (tr.nextId, some s, none) ∈ (rootSplitTree tr ls s l r).routeB lt key) := by
  have hlr : lt ls s = true := h.lt_of_le_of_lt hls sp.s0_s
  refine ⟨?_, ?_, ?_, ?_, ?_⟩
  · show Ord lt (tr.depth + 1) none none (Inner.mk (tr.nextId + 1) [ls, s] [l, r] : Inner K (Node K V tr.depth))
    refine ⟨fun _ _ => trivial, ?_⟩
    show Kids lt (fun a b c => Ord lt tr.depth a b c) none [(ls, l), (s, r)]
    exact ⟨Ord_mono_lo h (show loLe lt (some ls) (some s0) from hls) sp.ordl, hlr, sp.ordr, trivial, trivial⟩
  · rw [Tree.abs_eq_pairs, Tree.abs_eq_pairs, sp.pairs]
    show [l, r].flatMap (Node.pairs (d := tr.depth)) = _
    simp
  · intro key x a b hx hne
    rw [rootSplit_route h tr ls s l r hlr key]
    apply List.mem_cons_of_mem
    have hx' : (x, a, b) ∈ routeB lt key tr.depth none none tr.root := hx
    rw [routeB_eq_cons, List.mem_cons] at hx'
    rcases hx' with e | hx'
    · exfalso
      injection e with e _
      exact hne e
    · rw [sp.route key] at hx'
      by_cases c : lt key s = true
      · rw [if_pos c] at hx' ⊢
        rw [routeB_eq_cons]
        exact List.mem_cons_of_mem _ hx'
      · rw [if_neg c] at hx' ⊢
        rw [routeB_eq_cons]
        exact List.mem_cons_of_mem _ hx'
  · intro key c
    rw [rootSplit_route h tr ls s l r hlr key, if_pos c, routeB_eq_cons, sp.idl]
    exact List.mem_cons_of_mem _ List.mem_cons_self
  · intro key c
    rw [rootSplit_route h tr ls s l r hlr key, if_neg (by rw [c]; simp), routeB_eq_cons, sp.idr]
    exact List.mem_cons_of_mem _ List.mem_cons_self

/-! ### the block -/

theorem upRootArrive_split (P : Params K) (t : Nat) (s : St K V) (key : K) (f : Option V → V) (y : Option Bool)
    (root : Nat) (l r : Node K V s.tree.depth) (ls rs : K)
    (hms : Node.maybeSplit s.tree.order s.tree.nextId s.tree.root = .ok (l, some r))
    (hl : Node.smallest l = .ok ls) (hr : Node.smallest r = .ok rs) :
    upRootArrive P t s key f y root =
      if (!P.lt key rs) = true then
        ({ s with tree := rootSplitTree s.tree (if P.lt key ls = true then key else ls) rs l r },
          .park (.want (.node (Node.id r)) (.upRootSib key f y root (Node.id r))))
      else
        upContinue P t (St.rel { s with tree := rootSplitTree s.tree (if P.lt key ls = true then key else ls) rs l r }
          t .tree) key f y root := by
  unfold upRootArrive
  simp only
  rw [hms]
  simp only
  rw [hl, hr]
  rfl

theorem upRootArrive_nosplit (P : Params K) (t : Nat) (s : St K V) (key : K) (f : Option V → V) (y : Option Bool)
    (root : Nat) (l : Node K V s.tree.depth)
    (hms : Node.maybeSplit s.tree.order s.tree.nextId s.tree.root = .ok (l, none)) :
    upRootArrive P t s key f y root = upContinue P t (s.rel t .tree) key f y root := by
  unfold upRootArrive
  simp only
  rw [hms]

/-- after acquiring the root -/
theorem upRootArrive_kres (P : Params K) (hK : KParams lt P) (t : Nat) (s : St K V) (key : K) (f : Option V → V)
    (y : Option Bool) (root : Nat) (H : List Lk) (hole : Option Nat) (hpre : Pre P hole s)
    (hord : OrdTree lt s.tree) (hk : KontOk s.tree (.upRoot key f y root)) (hHt : Lk.tree ∈ H)
    (hHr : Lk.node root ∈ H) (hcur : cursorLocks s.cursor = []) :
    KRes lt t key f H s (upRootArrive P t s key f y root).1 (upRootArrive P t s key f y root).2 := by
  have hroot : root = s.tree.rootId := hk
  have hok := hpre.tree
  have hids := hok.ids.1
  have hpar := parTree_of_treeOk hok
  have hrel : ∀ arg, CbIn t arg (s.rel t Lk.tree).evs → CbIn t arg s.evs :=
    fun arg ha => (cbIn_rel t t arg Lk.tree s.evs).1 ha
  cases hms : Node.maybeSplit s.tree.order s.tree.nextId s.tree.root with
  | error e =>
    have : upRootArrive P t s key f y root = (s, .panic) := by
      unfold upRootArrive
      simp only
      rw [hms]
    rw [this]
    exact KRes.unchanged hord rfl rfl (by intro r; simp) (by intro p; simp)
  | ok res =>
    obtain ⟨l, ro⟩ := res
    cases ro with
    | none =>
      rw [upRootArrive_nosplit P t s key f y root l hms]
      refine KRes.continue P hK hpre.pad y root (s1 := s.rel t .tree) hok hord ?_ rfl hrel (Stable.refl H _)
      rw [hroot]
      exact root_inBounds hids hpar key
    | some r =>
      have hoccR := hok.occ _ (self_mem_flat s.tree.root)
      have hsplit := maybeSplit_isSplit s.tree.order s.tree.nextId hok.even s.tree.root l r hoccR hms
      have ho4 := hok.half_pos
      obtain ⟨rs, ls, sp⟩ := split_ord hK.swo (by omega) hsplit hord hpar
      have hcomp := fun y' => upRootArrive_split P t s key f y' root l r ls rs hms sp.sml sp.smr
      -- the lowered first separator
      rw [hK.lt] at hcomp
      generalize hls' : (if lt key ls = true then key else ls) = ls' at hcomp
      have hle : lt ls ls' = false := by
        rw [← hls']
        by_cases c : lt key ls = true
        · rw [if_pos c]; exact hK.swo.asymm c
        · rw [if_neg c]; exact hK.swo.irrefl _
      have hkey : lt key ls' = false := by
        rw [← hls']
        by_cases c : lt key ls = true
        · rw [if_pos c]; exact hK.swo.irrefl _
        · rw [if_neg c]; simpa using c
      obtain ⟨hO2, habs2, hroutes2, hinl, hinr⟩ := rootSplit_facts hK.swo s.tree ls' l r rs ls sp hle
      -- the structural invariant of the new tree: run the block with a yielding callback
      have hok2 : TreeOk hole (rootSplitTree s.tree ls' rs l r) := by
        have hp := (upRootArrive_post P t s key f (some true) root H hole hpre hk hHt hHr hcur).1.tree
        rw [hcomp (some true)] at hp
        by_cases c : (!lt key rs) = true
        · rw [if_pos c] at hp; exact hp
        · rw [if_neg c, upContinue_tree_yield] at hp; exact hp
      have hst : Stable lt H s.tree (rootSplitTree s.tree ls' rs l r) := by
        intro key' id hH
        have hne : id ≠ s.tree.rootId := by
          intro e; apply hH; rw [e, ← hroot]; exact hHr
        constructor
        · rintro ⟨a, b, hab⟩
          exact ⟨a, b, hroutes2 key' id a b hab hne⟩
        · rintro ⟨a, b, hab, hle'⟩
          exact ⟨a, b, hroutes2 key' id a b hab hne, hle'⟩
      rw [hcomp y]
      by_cases c : (!lt key rs) = true
      · rw [if_pos c]
        have c' : lt key rs = false := by simpa using c
        refine ⟨hO2, ⟨(fun r' hr' => by cases hr'), fun _ _ => habs2, fun arg ha => Or.inl ha⟩, ?_, ?_⟩
        · intro p hp
          cases hp
          show InBounds lt (rootSplitTree s.tree ls' rs l r) key (Node.id r)
          rw [sp.idr]
          exact ⟨_, _, hinr key c', c'⟩
        · intro key' id _ hH
          exact hst key' id hH
      · rw [if_neg c]
        have c' : lt key rs = true := by simpa using c
        refine KRes.continue P hK hpre.pad y root
          (s1 := St.rel { s with tree := rootSplitTree s.tree ls' rs l r } t .tree) hok2 hO2 ?_ habs2 ?_ hst
        · rw [hroot]
          exact ⟨_, _, hinl key c', hkey⟩
        · intro arg ha
          exact (cbIn_rel t t arg Lk.tree s.evs).1 ha

end Gobptree.Conc
