/-
  Single-thread agreement, part 9: Delete, the unwinding simulation.
-/
import Gobptree.Proofs.CSoloDel2

namespace Gobptree.Conc
open Gobptree

variable {K V : Type}

theorem solo_frameUnlock_held_none (s : St K V) (fr : Frame) :
    (frameUnlock 0 s fr none).held =
      (match fr.left with
        | some l => (s.held.erase (.node fr.child)).erase (.node l)
        | none => s.held.erase (.node fr.child)) := by
  unfold frameUnlock
  cases fr.left <;> rfl

theorem solo_frameUnlock_held_some (s : St K V) (fr : Frame) (r : Nat) :
    (frameUnlock 0 s fr (some r)).held =
      (match fr.left with
        | some l => ((s.held.erase (.node r)).erase (.node fr.child)).erase (.node l)
        | none => (s.held.erase (.node r)).erase (.node fr.child)) := by
  unfold frameUnlock
  cases fr.left <;> rfl

theorem solo_frameUnlock_tree (s : St K V) (fr : Frame) (ro : Option Nat) : (frameUnlock 0 s fr ro).tree = s.tree := by
  unfold frameUnlock
  cases fr.left <;> cases ro <;> rfl

theorem solo_frameUnlock_cursor (s : St K V) (fr : Frame) (ro : Option Nat) : (frameUnlock 0 s fr ro).cursor = s.cursor := by
  unfold frameUnlock
  cases fr.left <;> cases ro <;> rfl

theorem solo_frameUnlock_exhausted (s : St K V) (fr : Frame) (ro : Option Nat) :
    (frameUnlock 0 s fr ro).exhausted = s.exhausted := by
  unfold frameUnlock
  cases fr.left <;> cases ro <;> rfl

theorem OwnOk.frameUnlock {s : St K V} (h : OwnOk s) (fr : Frame) (ro : Option Nat) : OwnOk (frameUnlock 0 s fr ro) := by
  unfold Conc.frameUnlock
  exact ((h.relOpt _).rel _).relOpt _

theorem Grows.frameUnlock (s : St K V) (fr : Frame) (ro : Option Nat) : Grows s (frameUnlock 0 s fr ro) [] := by
  unfold Conc.frameUnlock
  exact (Grows.relOpt _ _).trans_nil ((Grows.rel _ _).trans_nil (Grows.relOpt _ _))

theorem Grows.of_evs_eq {s s' : St K V} (h : s'.evs = s.evs) : Grows s s' [] := ⟨[], h, rfl, rfl⟩

/-- what the unwinding of a lone thread establishes -/
def UnwSim (P : Params K) (key : K) (rootWas : Nat) {D d : Nat} (c : Ctx K V D d) : Prop :=
  ∀ (x' : Node K V d) (small : Bool) (o nid : Nat) (s : St K V) (res : Node K V D × Bool),
    s.tree = treeOf o c x' nid → s.held = c.locks (Node.id x') → OwnOk s → LockInv c (Node.id x') →
    c.rootId (Node.id x') = rootWas →
    unwindCtx P (P.order >>> 1) c (x', small) = .ok res →
    ∃ s', SoloFin P (delUnwind P 0 s key (c.frames (Node.id x')) small rootWas) s' .ok ∧
      SoloPost s s' (finishTree ⟨o, D, res.1, nid⟩ res.2) []

theorem unw_top (P : Params K) (key : K) (rootWas : Nat) {D : Nat} :
    UnwSim (V := V) P key rootWas (Ctx.top : Ctx K V D D) := by
  intro x' small o nid s res htree hheld ho _ hroot hun
  have hres : res = (x', small) := by
    have : (Except.ok (x', small) : R (Node K V D × Bool)) = .ok res := hun
    injection this with this; exact this.symm
  subst hres
  have hroot' : Node.id x' = rootWas := hroot
  show ∃ s', SoloFin P (delUnwind P 0 s key [] small rootWas) s' .ok ∧ _
  rw [delUnwind_nil, delFinish_eq]
  refine ⟨_, SoloFin.done _ _, ?_, ?_, (ho.setTree _).rel _ |>.rel _, rfl, rfl, (Grows.rel _ _).trans_nil (Grows.rel _ _)⟩
  · show finishTree s.tree small = _
    rw [htree]; rfl
  · show (s.held.erase _).erase _ = []
    rw [hheld, ← hroot']
    simp [Ctx.locks]

theorem unw_kid (P : Params K) (key : K) (rootWas : Nat) {D d : Nat} (c : Ctx K V D (d + 1)) (id : Nat) (r : List K)
    (pre post : List (Node K V d)) (ih : UnwSim P key rootWas c) :
    UnwSim P key rootWas (Ctx.kid c id r pre post) := by
  intro x' small o nid s res htree hheld ho hl hroot hun
  have hun' : (unwind1 P (P.order >>> 1) id r pre post (x', small) >>= unwindCtx P (P.order >>> 1) c) = .ok res := hun
  cases hw : unwind1 P (P.order >>> 1) id r pre post (x', small) with
  | error e => rw [hw] at hun'; cases hun'
  | ok w =>
    rw [hw] at hun'
    have hun2 : unwindCtx P (P.order >>> 1) c w = .ok res := hun'
    have hl0 : LockInv c id := hl.up
    have hnm : id ∉ c.ids := hl0.not_mem
    have hfind : s.tree.find id = some ⟨d + 1, (⟨id, r, pre ++ x' :: post⟩ : Inner K (Node K V d))⟩ := by
      rw [htree]
      exact find_treeOf o c ((⟨id, r, pre ++ x' :: post⟩ : Inner K (Node K V d)) : Node K V (d + 1)) nid hnm
    have hunl := unlock_held c id r pre post (Node.id x') hl s.held hheld
    show ∃ s', SoloFin P (delUnwind P 0 s key (⟨id, pre.length, Ctx.leftOf pre, Node.id x'⟩ :: c.frames id) small rootWas)
      s' .ok ∧ _
    cases small with
    | false =>
      have hw' : w = (((⟨id, r, pre ++ x' :: post⟩ : Inner K (Node K V d)) : Node K V (d + 1)), false) := by
        have : (Except.ok (((⟨id, r, pre ++ x' :: post⟩ : Inner K (Node K V d)) : Node K V (d + 1)), false) :
          R (Node K V (d + 1) × Bool)) = .ok w := hw
        injection this with this; exact this.symm
      subst hw'
      rw [delUnwind_false]
      obtain ⟨s', hf, hpost⟩ := ih ((⟨id, r, pre ++ x' :: post⟩ : Inner K (Node K V d)) : Node K V (d + 1)) false o nid
        (frameUnlock 0 s ⟨id, pre.length, Ctx.leftOf pre, Node.id x'⟩ none) res
        (by rw [solo_frameUnlock_tree, htree]; rfl)
        (by rw [solo_frameUnlock_held_none]; exact hunl)
        (ho.frameUnlock _ _) hl0 hroot hun2
      refine ⟨s', hf, hpost.tree, hpost.held, hpost.own, hpost.cursor.trans (solo_frameUnlock_cursor _ _ _),
        hpost.exhausted.trans (solo_frameUnlock_exhausted _ _ _), (Grows.frameUnlock _ _ _).trans_nil hpost.evs⟩
    | true =>
      obtain ⟨i', small'⟩ := w
      have hreb : rebalance P {} (P.order >>> 1) (⟨id, r, pre ++ x' :: post⟩ : Inner K (Node K V d)) pre.length x' =
          .ok (i', small') := hw
      have hid : (i' : Inner K (Node K V d)).id = id := rebalance_id P {} _ _ i' _ _ small' hreb
      have hkx : (pre ++ x' :: post)[pre.length]? = some x' := form_getElem_pivot pre post x'
      have hput : ∀ s2 : St K V, s2.tree = s.tree →
          putInner s2.tree i' = treeOf o c (i' : Node K V (d + 1)) nid := by
        intro s2 h2
        rw [h2, htree]
        exact putInner_treeOf o c ⟨id, r, pre ++ x' :: post⟩ i' nid hid hnm
      by_cases hr : pre.length + 1 < r.length
      · obtain ⟨right, hright⟩ := rebalance_right_exists P {} _ _ _ _ _ hreb hr
        have hrm : right ∈ post := by
          have : (pre ++ x' :: post)[pre.length + 1]? = post[0]? := by
            rw [List.getElem?_append_right (by omega)]
            simp
          simp only at hright
          rw [this] at hright
          exact List.mem_of_getElem? hright
        rw [delUnwind_right P 0 s key ⟨id, pre.length, Ctx.leftOf pre, Node.id x'⟩ (c.frames id) rootWas
          ⟨id, r, pre ++ x' :: post⟩ right hfind hr hright]
        have hfree : Lk.node (Node.id right) ∉ s.held := by
          rw [hheld]; exact right_free c id r pre post _ hl right hrm
        have hfind2 : (s.tick.acq 0 (.node (Node.id right))).tree.find id =
            some ⟨d + 1, (⟨id, r, pre ++ x' :: post⟩ : Inner K (Node K V d))⟩ := hfind
        obtain ⟨s', hf, hpost⟩ := ih (i' : Node K V (d + 1)) small' o nid
          (frameUnlock 0 ((s.tick.acq 0 (.node (Node.id right))).setTree
            (putInner (s.tick.acq 0 (.node (Node.id right))).tree i'))
            ⟨id, pre.length, Ctx.leftOf pre, Node.id x'⟩ (some (Node.id right))) res
          (by rw [solo_frameUnlock_tree]; exact hput _ rfl)
          (by
            rw [solo_frameUnlock_held_some]
            show (match Ctx.leftOf pre with
              | some l => (((s.held ++ [Lk.node (Node.id right)]).erase (.node (Node.id right))).erase
                  (.node (Node.id x'))).erase (.node l)
              | none => ((s.held ++ [Lk.node (Node.id right)]).erase (.node (Node.id right))).erase
                  (.node (Node.id x'))) = c.locks (Node.id (d := d + 1) i')
            rw [erase_append_self _ _ hfree, show Node.id (d := d + 1) i' = id from hid]
            exact hunl)
          (((ho.tick.acq _).setTree _).frameUnlock _ _) (by rw [show Node.id (d := d + 1) i' = id from hid]; exact hl0)
          (by rw [show Node.id (d := d + 1) i' = id from hid]; exact hroot) hun2
        refine ⟨s', SoloFin.park ho hfree ?_, hpost.tree, hpost.held, hpost.own,
          hpost.cursor.trans (solo_frameUnlock_cursor _ _ _), hpost.exhausted.trans (solo_frameUnlock_exhausted _ _ _), ?_⟩
        · show SoloFin P (delRightArrive P 0 (s.tick.acq 0 (.node (Node.id right))) key (c.frames id)
            ⟨id, pre.length, Ctx.leftOf pre, Node.id x'⟩ (Node.id right) rootWas) s' .ok
          rw [delRightArrive_eq P 0 _ key ⟨id, pre.length, Ctx.leftOf pre, Node.id x'⟩ (c.frames id) (Node.id right) rootWas
            ⟨id, r, pre ++ x' :: post⟩ i' x' small' hfind2 hkx hreb]
          rw [show Node.id (d := d + 1) i' = id from hid] at hf
          exact hf
        · exact (Grows.tick _).trans_nil ((Grows.acq _ _).trans_nil ((Grows.of_evs_eq
            (s' := (s.tick.acq 0 (.node (Node.id right))).setTree (putInner (s.tick.acq 0 (.node (Node.id right))).tree i')) rfl).trans_nil
            ((Grows.frameUnlock _ _ _).trans_nil hpost.evs)))
      · rw [delUnwind_reb P 0 s key ⟨id, pre.length, Ctx.leftOf pre, Node.id x'⟩ (c.frames id) rootWas
          ⟨id, r, pre ++ x' :: post⟩ i' x' small' hfind hr hkx hreb]
        obtain ⟨s', hf, hpost⟩ := ih (i' : Node K V (d + 1)) small' o nid
          (frameUnlock 0 (s.setTree (putInner s.tree i')) ⟨id, pre.length, Ctx.leftOf pre, Node.id x'⟩ none) res
          (by rw [solo_frameUnlock_tree]; exact hput _ rfl)
          (by
            rw [solo_frameUnlock_held_none, show Node.id (d := d + 1) i' = id from hid]
            exact hunl)
          ((ho.setTree _).frameUnlock _ _) (by rw [show Node.id (d := d + 1) i' = id from hid]; exact hl0)
          (by rw [show Node.id (d := d + 1) i' = id from hid]; exact hroot) hun2
        rw [show Node.id (d := d + 1) i' = id from hid] at hf
        refine ⟨s', hf, hpost.tree, hpost.held, hpost.own, hpost.cursor.trans (solo_frameUnlock_cursor _ _ _),
          hpost.exhausted.trans (solo_frameUnlock_exhausted _ _ _),
          (Grows.of_evs_eq (s' := s.setTree (putInner s.tree i')) rfl).trans_nil
            ((Grows.frameUnlock _ _ _).trans_nil hpost.evs)⟩

theorem unw_all (P : Params K) (key : K) (rootWas : Nat) {D : Nat} :
    ∀ {d : Nat} (c : Ctx K V D d), UnwSim P key rootWas c := by
  intro d c
  induction c with
  | top => exact unw_top P key rootWas
  | kid c id r pre post ih => exact unw_kid P key rootWas c id r pre post ih

end Gobptree.Conc
