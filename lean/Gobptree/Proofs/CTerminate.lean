/-
  GLOBAL termination of the small-step model: every execution is finite, with an explicit bound.

  A thread that waits for a held mutex is not enabled (no spinning), every own step of a thread
  moves it strictly down a height-based variant (`CProgress`), and the variant of a thread is
  not disturbed by the others (`other_step_measure_eq`) except at the very first park of an
  operation.  The one subtlety is that the depth of the tree — on which the variant's range
  depends — may GROW: a root split, performed by an Insert/Update in its root step.  Each
  Insert/Update does that at most once, so

      depthBound c = depth + #{Insert/Update operations not yet past their root step}

  never increases (`step_depthBound`), and with `w ≥ 3 · depthBound c + 8` the potential

      pot w c = Σ_threads  [ (#operations after the current one) · (w + 1) + cur ],
      cur = w                                 at `want rootMutex _` (first park of an operation),
            opMeasure tree park + 1  (≤ w)    at every other park inside an operation,
      (not started: `#operations · (w + 1) + 1`; finished: `0`)

  strictly decreases in EVERY step of EVERY thread (`step_pot`).  Hence no schedule runs for more
  than `termBound c = pot (3 · depthBound c + 8) c` steps (`executions_bounded`), and every maximal
  execution ends with all operations returned (`all_operations_return`, by `C06_no_deadlock`).
-/
import Gobptree.Proofs.CTerminateBlocks
import Gobptree.Proofs.ConcRank

namespace Gobptree.Conc
open Gobptree

variable {K V : Type}

/-! ### the loop after a stretch, once more -/

/-- where the thread record after the loop comes from: the program is untouched; the thread is
    finished, or sits at the park the stretch ended in (same `pc`), or at the first park of a
    later operation of its program -/
theorem threadLoop_src (t : Nat) (th : Thread K V) :
    ∀ (fuel : Nat) (s : St K V) (fl : Flow K V) (pc : Nat),
      (threadLoop t th fuel s fl pc).1.prog = th.prog ∧
      ((threadLoop t th fuel s fl pc).1.park = .finished ∨
       (fl = .park (threadLoop t th fuel s fl pc).1.park ∧ (threadLoop t th fuel s fl pc).1.pc = pc) ∨
       (pc < (threadLoop t th fuel s fl pc).1.pc ∧
          ∃ s1 op, th.prog[(threadLoop t th fuel s fl pc).1.pc]? = some op ∧
            (startOp t s1 op).2 = .park (threadLoop t th fuel s fl pc).1.park)) := by
  intro fuel
  induction fuel with
  | zero =>
    intro s fl pc
    cases fl with
    | panic => exact ⟨by simp [threadLoop], Or.inl (by simp [threadLoop])⟩
    | park p => exact ⟨by simp [threadLoop], Or.inr (Or.inl (by simp [threadLoop]))⟩
    | done r => exact ⟨by simp [threadLoop], Or.inl (by simp [threadLoop])⟩
  | succ fuel ih =>
    intro s fl pc
    cases fl with
    | panic => exact ⟨by simp [threadLoop], Or.inl (by simp [threadLoop])⟩
    | park p => exact ⟨by simp [threadLoop], Or.inr (Or.inl (by simp [threadLoop]))⟩
    | done r =>
      unfold threadLoop
      cases hop : th.prog[pc + 1]? with
      | none => exact ⟨rfl, Or.inl rfl⟩
      | some op =>
        simp only
        obtain ⟨h1, h2⟩ := ih (startOp t ((s.note t (.ret pc r)).note t (.inv (pc + 1))) op).1
          (startOp t ((s.note t (.ret pc r)).note t (.inv (pc + 1))) op).2 (pc + 1)
        refine ⟨h1, ?_⟩
        rcases h2 with h | ⟨hfl, hpc⟩ | ⟨hlt, s1, op', hop', hst⟩
        · exact Or.inl h
        · right; right
          refine ⟨by omega, _, op, ?_, hfl⟩
          rw [hpc]; exact hop
        · right; right
          exact ⟨by omega, s1, op', hop', hst⟩

/-! ### pending growths of the depth -/

/-- number of Insert/Update operations in a list of operations -/
def upCount (l : List (COp K V)) : Nat := l.countP isUp

/-- Insert/Update operations of a thread that have not yet made their root step: the ones not
    yet started, and the current one while its continuation is `upTree`/`upRoot` -/
def thG (th : Thread K V) : Nat :=
  match th.park with
  | .start => upCount th.prog
  | .finished => 0
  | .want _ k => upCount (th.prog.drop (th.pc + 1)) + kontG k
  | .yielded k => upCount (th.prog.drop (th.pc + 1)) + kontG k

/-- **a bound on every depth the tree can still reach** -/
def depthBound (c : Config K V) : Nat := c.tree.depth + (c.threads.map thG).sum

theorem thG_finished {th : Thread K V} (h : th.park = .finished) : thG th = 0 := by
  unfold thG; rw [h]

theorem thG_start {th : Thread K V} (h : th.park = .start) : thG th = upCount th.prog := by
  unfold thG; rw [h]

theorem thG_live {th : Thread K V} (h : th.park.live) :
    thG th = upCount (th.prog.drop (th.pc + 1)) + parkG th.park := by
  unfold thG
  cases hp : th.park with
  | start => rw [hp] at h; exact absurd h id
  | finished => rw [hp] at h; exact absurd h id
  | want l k => rfl
  | yielded k => rfl

theorem upCount_drop_le (l : List (COp K V)) (m n : Nat) (h : m ≤ n) :
    upCount (l.drop n) ≤ upCount (l.drop m) := by
  have e : l.drop n = (l.drop m).drop (n - m) := by
    rw [List.drop_drop]; congr 1; omega
  unfold upCount
  rw [e]
  exact (List.drop_sublist _ _).countP_le

theorem upCount_drop_op (l : List (COp K V)) (n : Nat) (op : COp K V) (h : l[n]? = some op) :
    upCount (l.drop n) = opG op + upCount (l.drop (n + 1)) := by
  obtain ⟨hn, hget⟩ := List.getElem?_eq_some_iff.1 h
  rw [List.drop_eq_getElem_cons hn, hget]
  unfold upCount opG
  rw [List.countP_cons]
  omega

/-- a thread that has just started operation `op` of its program -/
theorem thG_of_op {t : Nat} {r : Thread K V} {prog : List (COp K V)} (hprog : r.prog = prog) {s1 : St K V}
    {op : COp K V} (hop : prog[r.pc]? = some op) (hst : (startOp t s1 op).2 = .park r.park) {m : Nat} (hm : m ≤ r.pc) :
    thG r ≤ upCount (prog.drop m) ∧ r.park.live ∧ r.pc < prog.length := by
  have hlive := startOp_park_live t s1 op _ hst
  have hg := startOp_dep t s1 op
  rw [hst] at hg
  have h1 := upCount_drop_op prog r.pc op hop
  have h2 := upCount_drop_le prog m r.pc hm
  refine ⟨?_, hlive, (List.getElem?_eq_some_iff.1 hop).1⟩
  rw [thG_live hlive, hprog]
  have : flowG (Flow.park r.park) = parkG r.park := rfl
  omega

/-- **the stepping thread**: its program is untouched; the depth after the step plus its pending
    growths is at most the same sum before; it is finished, or parked inside an operation —
    still the same one (unless it had not started), or one of its program -/
theorem own_step_shape {c c' : Config K V} {t : Nat} (hstep : c.step t = some c') {th th' : Thread K V}
    (ht : c.threads[t]? = some th) (ht' : c'.threads[t]? = some th') :
    th'.prog = th.prog ∧ c'.tree.depth + thG th' ≤ c.tree.depth + thG th ∧
    (th'.park = .finished ∨
      (th'.park.live ∧ ((th.park ≠ .start ∧ th'.pc = th.pc) ∨ th'.pc < th.prog.length))) := by
  obtain ⟨hen, hth', htree'⟩ := step_own hstep ht ht'
  have hnf := enabled_not_finished hen
  rw [hth', htree']
  have key : ∀ k, th.park ≠ .start → thG th = upCount (th.prog.drop (th.pc + 1)) + kontG k →
      let r := threadLoop t th th.prog.length (resume c.P t (stepSt c t th) k).1 (resume c.P t (stepSt c t th) k).2 th.pc
      r.1.prog = th.prog ∧ r.2.1.tree.depth + thG r.1 ≤ c.tree.depth + thG th ∧
        (r.1.park = .finished ∨ (r.1.park.live ∧ ((th.park ≠ .start ∧ r.1.pc = th.pc) ∨ r.1.pc < th.prog.length))) := by
    intro k hns hg
    simp only
    obtain ⟨hprog, hsrc⟩ := threadLoop_src t th th.prog.length (resume c.P t (stepSt c t th) k).1
      (resume c.P t (stepSt c t th) k).2 th.pc
    have hdep : (resume c.P t (stepSt c t th) k).1.tree.depth + flowG (resume c.P t (stepSt c t th) k).2 ≤
        c.tree.depth + kontG k := resume_dep c.P t (stepSt c t th) k
    refine ⟨hprog, ?_, ?_⟩
    · rw [threadLoop_tree, hg]
      rcases hsrc with h | ⟨hfl, hpc⟩ | ⟨hlt, s1, op, hop, hst⟩
      · rw [thG_finished h]; omega
      · have hlive := resume_park_live c.P t _ k _ hfl
        rw [thG_live hlive, hprog, hpc]
        rw [hfl] at hdep
        have : flowG (Flow.park (threadLoop t th th.prog.length (resume c.P t (stepSt c t th) k).1
          (resume c.P t (stepSt c t th) k).2 th.pc).1.park) = parkG (threadLoop t th th.prog.length
          (resume c.P t (stepSt c t th) k).1 (resume c.P t (stepSt c t th) k).2 th.pc).1.park := rfl
        omega
      · have := (thG_of_op hprog hop hst (m := th.pc + 1) (by omega)).1
        omega
    · rcases hsrc with h | ⟨hfl, hpc⟩ | ⟨hlt, s1, op, hop, hst⟩
      · exact Or.inl h
      · exact Or.inr ⟨resume_park_live c.P t _ k _ hfl, Or.inl ⟨hns, hpc⟩⟩
      · have := thG_of_op hprog hop hst (m := th.pc + 1) (by omega)
        exact Or.inr ⟨this.2.1, Or.inr this.2.2⟩
  unfold runThread
  cases hpk : th.park with
  | finished => exact absurd hpk hnf
  | start =>
    simp only
    cases hop0 : th.prog[0]? with
    | none =>
      refine ⟨rfl, ?_, Or.inl rfl⟩
      show c.tree.depth + thG ({ th with park := .finished } : Thread K V) ≤ _
      rw [thG_finished rfl]
      omega
    | some op =>
      simp only
      obtain ⟨hprog, hsrc⟩ := threadLoop_src t th th.prog.length (startOp t ((stepSt c t th).note t (.inv 0)) op).1
        (startOp t ((stepSt c t th).note t (.inv 0)) op).2 0
      have hgth : thG th = upCount (th.prog.drop 0) := by rw [thG_start hpk]; rfl
      have hcase : (threadLoop t th th.prog.length (startOp t ((stepSt c t th).note t (.inv 0)) op).1
            (startOp t ((stepSt c t th).note t (.inv 0)) op).2 0).1.park = .finished ∨
          ∃ s1 op', th.prog[(threadLoop t th th.prog.length (startOp t ((stepSt c t th).note t (.inv 0)) op).1
            (startOp t ((stepSt c t th).note t (.inv 0)) op).2 0).1.pc]? = some op' ∧
            (startOp t s1 op').2 = .park (threadLoop t th th.prog.length (startOp t ((stepSt c t th).note t (.inv 0)) op).1
            (startOp t ((stepSt c t th).note t (.inv 0)) op).2 0).1.park := by
        rcases hsrc with h | ⟨hfl, hpc⟩ | ⟨hlt, s1, op', hop', hst⟩
        · exact Or.inl h
        · right
          refine ⟨_, op, ?_, hfl⟩
          rw [hpc]; exact hop0
        · right
          exact ⟨s1, op', hop', hst⟩
      refine ⟨hprog, ?_, ?_⟩
      · rw [threadLoop_tree, startOp_tree, hgth]
        show c.tree.depth + _ ≤ _
        rcases hcase with h | ⟨s1, op', hop', hst⟩
        · rw [thG_finished h]; omega
        · have := (thG_of_op hprog hop' hst (m := 0) (Nat.zero_le _)).1
          omega
      · rcases hcase with h | ⟨s1, op', hop', hst⟩
        · exact Or.inl h
        · have := thG_of_op hprog hop' hst (m := 0) (Nat.zero_le _)
          exact Or.inr ⟨this.2.1, Or.inr this.2.2⟩
  | want l k =>
    simp only
    have := key k (by rw [hpk]; intro e; cases e) (by unfold thG; rw [hpk])
    rw [hpk] at this
    exact this
  | yielded k =>
    simp only
    have := key k (by rw [hpk]; intro e; cases e) (by unfold thG; rw [hpk])
    rw [hpk] at this
    exact this

/-! ### sums over the thread list -/

/-- two lists that agree everywhere but at position `t` -/
theorem sum_swap : ∀ (xs ys : List Nat) (t x y : Nat), xs[t]? = some x → ys[t]? = some y →
    xs.length = ys.length → (∀ j, j ≠ t → ys[j]? = xs[j]?) → ys.sum + x = xs.sum + y := by
  intro xs
  induction xs with
  | nil => intro ys t x y hx; simp at hx
  | cons a xs ih =>
    intro ys t x y hx hy hlen hoth
    cases ys with
    | nil => simp at hlen
    | cons b ys =>
      cases t with
      | zero =>
        simp only [List.getElem?_cons_zero, Option.some.injEq] at hx hy
        subst hx; subst hy
        have : ys = xs := by
          apply List.ext_getElem?
          intro j
          have := hoth (j + 1) (by omega)
          simpa using this
        subst this
        simp only [List.sum_cons]
        omega
      | succ t =>
        simp only [List.getElem?_cons_succ] at hx hy
        have hab : b = a := by
          have := hoth 0 (by omega)
          simpa using this
        subst hab
        have := ih ys t x y hx hy (by simpa using hlen) (by
          intro j hj
          have := hoth (j + 1) (by omega)
          simpa using this)
        simp only [List.sum_cons]
        omega

/-- the thread list after a step -/
theorem step_threads {c c' : Config K V} {t : Nat} (hstep : c.step t = some c') :
    ∃ th th', c.threads[t]? = some th ∧ c'.threads[t]? = some th' ∧ c'.threads = c.threads.set t th' := by
  obtain ⟨th, ht, hen, r, hr, hc'⟩ := step_shape hstep
  have hths' : c'.threads = c.threads.set t r.1 := by rw [hc']
  refine ⟨th, r.1, ht, ?_, hths'⟩
  rw [hths', List.getElem?_set_self']; rw [ht]; rfl

/-- **the bound on the depth never increases** -/
theorem step_depthBound (c c' : Config K V) (t : Nat) (hstep : c.step t = some c') :
    depthBound c' ≤ depthBound c := by
  obtain ⟨th, th', ht, ht', hths⟩ := step_threads hstep
  obtain ⟨_, hg, _⟩ := own_step_shape hstep ht ht'
  have hsw := sum_swap (c.threads.map thG) (c'.threads.map thG) t (thG th) (thG th')
    (by rw [List.getElem?_map, ht]; rfl) (by rw [List.getElem?_map, ht']; rfl)
    (by rw [hths]; simp) (by
      intro j hj
      rw [hths, List.getElem?_map, List.getElem?_map, List.getElem?_set_ne (Ne.symm hj)])
  unfold depthBound
  omega

theorem depth_le_depthBound (c : Config K V) : c.tree.depth ≤ depthBound c := Nat.le_add_right _ _

/-! ### the potential -/

/-- the share of the current operation -/
def curPot (w : Nat) (T : Tree K V) : Park K V → Nat
  | .want .tree _ => w
  | .want (.node _) k => kMeasure T k + 1
  | .yielded k => kMeasure T k + 1
  | _ => 0

/-- the potential of a thread -/
def thPot (w : Nat) (T : Tree K V) (th : Thread K V) : Nat :=
  match th.park with
  | .start => th.prog.length * (w + 1) + 1
  | .finished => 0
  | .want l k => (th.prog.length - (th.pc + 1)) * (w + 1) + curPot w T (.want l k)
  | .yielded k => (th.prog.length - (th.pc + 1)) * (w + 1) + curPot w T (.yielded k)

/-- **the potential of a configuration** -/
def pot (w : Nat) (c : Config K V) : Nat := (c.threads.map (thPot w c.tree)).sum

/-- **the explicit bound on the length of every execution from `c`** -/
def termBound (c : Config K V) : Nat := pot (3 * depthBound c + 8) c

theorem thPot_finished {w : Nat} {T : Tree K V} {th : Thread K V} (h : th.park = .finished) : thPot w T th = 0 := by
  unfold thPot; rw [h]

theorem thPot_start {w : Nat} {T : Tree K V} {th : Thread K V} (h : th.park = .start) :
    thPot w T th = th.prog.length * (w + 1) + 1 := by
  unfold thPot; rw [h]

theorem thPot_live {w : Nat} {T : Tree K V} {th : Thread K V} (h : th.park.live) :
    thPot w T th = (th.prog.length - (th.pc + 1)) * (w + 1) + curPot w T th.park := by
  unfold thPot
  cases hp : th.park with
  | start => rw [hp] at h; exact absurd h id
  | finished => rw [hp] at h; exact absurd h id
  | want l k => rfl
  | yielded k => rfl

theorem curPot_nt {w : Nat} {T : Tree K V} {p : Park K V} (h : parkNT p = true) : curPot w T p = opMeasure T p + 1 := by
  cases p with
  | start => cases h
  | finished => cases h
  | yielded k => rfl
  | want l k =>
    cases l with
    | tree => cases h
    | node n => rfl

theorem curPot_tree {w : Nat} {T : Tree K V} {p : Park K V} (hl : p.live) (h : parkNT p = false) : curPot w T p = w := by
  cases p with
  | start => exact absurd hl id
  | finished => exact absurd hl id
  | yielded k => cases h
  | want l k =>
    cases l with
    | tree => rfl
    | node n => cases h

theorem curPot_le {w : Nat} {T : Tree K V} {p : Park K V} (hl : p.live) (h : opMeasure T p + 1 ≤ w) : curPot w T p ≤ w := by
  cases hnt : parkNT p with
  | true => rw [curPot_nt hnt]; exact h
  | false => rw [curPot_tree hl hnt]; exact Nat.le_refl _

theorem curPot_pos {w : Nat} {T : Tree K V} {p : Park K V} (hl : p.live) (hw : 1 ≤ w) : 1 ≤ curPot w T p := by
  cases hnt : parkNT p with
  | true => rw [curPot_nt hnt]; omega
  | false => rw [curPot_tree hl hnt]; exact hw

theorem live_of_ne {p : Park K V} (h1 : p ≠ .start) (h2 : p ≠ .finished) : p.live := by
  cases p with
  | start => exact absurd rfl h1
  | finished => exact absurd rfl h2
  | want l k => trivial
  | yielded k => trivial

theorem pot_arith {R R' cur' w : Nat} (hR : R' < R) (hc : cur' ≤ w) : R' * (w + 1) + cur' < R * (w + 1) := by
  have h1 : (R' + 1) * (w + 1) ≤ R * (w + 1) := Nat.mul_le_mul_right _ hR
  rw [Nat.succ_mul] at h1
  omega

/-- **the stepping thread's potential strictly decreases** -/
theorem own_step_pot (w : Nat) {c c' : Config K V} {t : Nat} (hstep : c.step t = some c') (hinv : CInv c)
    (hinv' : CInv c') {th th' : Thread K V} (ht : c.threads[t]? = some th) (ht' : c'.threads[t]? = some th')
    (hw : 3 * c'.tree.depth + 8 ≤ w) : thPot w c'.tree th' < thPot w c.tree th := by
  obtain ⟨hprog, _, hsh⟩ := own_step_shape hstep ht ht'
  obtain ⟨hen, _, _⟩ := step_own hstep ht ht'
  have hnf := enabled_not_finished hen
  have hm' := opMeasure_le c' hinv' th' (List.mem_of_getElem? ht')
  have hcur' : th'.park.live → curPot w c'.tree th'.park ≤ w := fun hl => curPot_le hl (by omega)
  by_cases hs : th.park = .start
  · rw [thPot_start hs]
    rcases hsh with h | ⟨hl, ⟨h, _⟩ | h⟩
    · rw [thPot_finished h]; omega
    · exact absurd hs h
    · rw [thPot_live hl, hprog]
      have := pot_arith (R := th.prog.length) (R' := th.prog.length - (th'.pc + 1)) (w := w) (by omega) (hcur' hl)
      omega
  · have hl : th.park.live := live_of_ne hs hnf
    have hpos := curPot_pos (w := w) (T := c.tree) hl (by omega)
    rw [thPot_live hl]
    rcases own_step_cases c c' t hstep hinv th th' ht ht' hs with h | h | ⟨hlt, hpc, hnt'⟩
    · rcases hsh with h' | ⟨hl', ⟨_, h'⟩ | h'⟩
      · rw [thPot_finished h']; omega
      · omega
      · rw [thPot_live hl', hprog]
        have := pot_arith (R := th.prog.length - (th.pc + 1)) (R' := th.prog.length - (th'.pc + 1)) (w := w)
          (by omega) (hcur' hl')
        omega
    · rw [thPot_finished h]; omega
    · obtain ⟨_, hns', hnf'⟩ := parkNT_spec hnt'
      have hl' := live_of_ne hns' hnf'
      rw [thPot_live hl', hprog, hpc, curPot_nt hnt']
      cases hnt : parkNT th.park with
      | true => rw [curPot_nt hnt]; omega
      | false => rw [curPot_tree hl hnt]; omega

/-- the other threads' potentials are untouched -/
theorem other_step_pot (w : Nat) (c c' : Config K V) (t j : Nat) (hstep : c.step t = some c') (hinv : CInv c)
    (b : Thread K V) (hj : c.threads[j]? = some b) (hne : j ≠ t) : thPot w c'.tree b = thPot w c.tree b := by
  unfold thPot
  cases hp : b.park with
  | start => rfl
  | finished => rfl
  | want l k =>
    cases l with
    | tree => rfl
    | node n =>
      have := other_step_measure_eq c c' t j hstep hinv b hj hne (by rw [hp]; intro e; cases e)
      rw [hp] at this
      show _ + (kMeasure c'.tree k + 1) = _ + (kMeasure c.tree k + 1)
      have e : kMeasure c'.tree k = kMeasure c.tree k := this
      rw [e]
  | yielded k =>
    have := other_step_measure_eq c c' t j hstep hinv b hj hne (by rw [hp]; intro e; cases e)
    rw [hp] at this
    show _ + (kMeasure c'.tree k + 1) = _ + (kMeasure c.tree k + 1)
    have e : kMeasure c'.tree k = kMeasure c.tree k := this
    rw [e]

/-- **every step strictly decreases the potential** -/
theorem step_pot (w : Nat) (c c' : Config K V) (t : Nat) (hstep : c.step t = some c') (hinv : CInv c)
    (hw : 3 * depthBound c + 8 ≤ w) : pot w c' < pot w c := by
  have hinv' := (step_cinv blocks_ok c c' t hstep hinv).1
  obtain ⟨th, th', ht, ht', hths⟩ := step_threads hstep
  have hD := step_depthBound c c' t hstep
  have hd' := depth_le_depthBound c'
  have hown := own_step_pot w hstep hinv hinv' ht ht' (by omega)
  have hsw := sum_swap (c.threads.map (thPot w c.tree)) (c'.threads.map (thPot w c'.tree)) t
    (thPot w c.tree th) (thPot w c'.tree th')
    (by rw [List.getElem?_map, ht]; rfl) (by rw [List.getElem?_map, ht']; rfl)
    (by rw [hths]; simp) (by
      intro j hj
      rw [hths, List.getElem?_map, List.getElem?_map, List.getElem?_set_ne (Ne.symm hj)]
      cases hb : c.threads[j]? with
      | none => rfl
      | some b =>
        show some (thPot w c'.tree b) = some (thPot w c.tree b)
        rw [other_step_pot w c c' t j hstep hinv b hb hj])
  unfold pot
  omega

/-! ### along a schedule -/

/-- the number of steps of a schedule plus the potential at its end is at most the potential at
    its start -/
theorem run_pot (w : Nat) : ∀ (ts : List Nat) (c c' : Config K V), CInv c → 3 * depthBound c + 8 ≤ w →
    c.run ts = (c', none) → ts.length + pot w c' ≤ pot w c := by
  intro ts
  induction ts with
  | nil =>
    intro c c' _ _ hrun
    have : c' = c := (congrArg Prod.fst hrun).symm
    subst this
    simp
  | cons t ts ih =>
    intro c c' hinv hw hrun
    unfold Config.run at hrun
    cases hs : c.step t with
    | none => rw [hs] at hrun; cases hrun
    | some c1 =>
      rw [hs] at hrun
      have hinv1 := (step_cinv blocks_ok c c1 t hs hinv).1
      have hD := step_depthBound c c1 t hs
      have h1 := step_pot w c c1 t hs hinv hw
      have h2 := ih c1 c' hinv1 (by omega) hrun
      simp only [List.length_cons]
      omega

/-- runs compose into reachability -/
theorem reachable_of_run (c0 : Config K V) : ∀ (ts : List Nat) (c c' : Config K V), Reachable c0 c →
    c.run ts = (c', none) → Reachable c0 c' := by
  intro ts
  induction ts with
  | nil =>
    intro c c' hr h
    have : c' = c := (congrArg Prod.fst h).symm
    subst this
    exact hr
  | cons t ts ih =>
    intro c c' hr h
    unfold Config.run at h
    cases hs : c.step t with
    | none => rw [hs] at h; cases h
    | some c1 =>
      rw [hs] at h
      exact ih c1 c' (Reachable.step t hr hs) h

/-- the invariant form: from a configuration satisfying `CInv`, no schedule runs for more than
    `termBound c` steps -/
theorem executions_bounded_inv (c : Config K V) (hinv : CInv c) (ts : List Nat) (c' : Config K V)
    (hrun : c.run ts = (c', none)) : ts.length ≤ termBound c := by
  have := run_pot (3 * depthBound c + 8) ts c c' hinv (Nat.le_refl _) hrun
  unfold termBound
  omega

/-- **every execution is finite**: from a reachable configuration, no schedule whatsoever runs
    for more than `termBound c` steps -/
theorem executions_bounded_explicit (P : Params K) (tree : Tree K V) (progs : List (List (COp K V)))
    (ht : TreeOk none tree) (ho : tree.order = P.order) (hp : PadOk P) (hd : Disciplined progs)
    (hdel : 4 ≤ tree.order ∨ NoDelete progs)
    (c : Config K V) (hr : Reachable (Config.init P tree progs) c)
    (ts : List Nat) (c' : Config K V) (hrun : c.run ts = (c', none)) : ts.length ≤ termBound c :=
  executions_bounded_inv c (reachable_cinv P tree progs ht ho hp hd hdel c hr) ts c' hrun

/-- every execution is finite: from a reachable configuration, no schedule whatsoever runs for more than
    `B` steps -/
theorem executions_bounded (P : Params K) (tree : Tree K V) (progs : List (List (COp K V)))
    (ht : TreeOk none tree) (ho : tree.order = P.order) (hp : PadOk P) (hd : Disciplined progs)
    (hdel : 4 ≤ tree.order ∨ NoDelete progs)
    (c : Config K V) (hr : Reachable (Config.init P tree progs) c) :
    ∃ B : Nat, ∀ (ts : List Nat) (c' : Config K V), c.run ts = (c', none) → ts.length ≤ B :=
  ⟨termBound c, fun ts c' hrun => executions_bounded_explicit P tree progs ht ho hp hd hdel c hr ts c' hrun⟩

/-- hence every maximal execution ends with every operation returned: run ANY schedule until nothing is
    enabled (that happens within `termBound c` steps); then, unless a client ended a thread with an open
    cursor, every thread has finished -/
theorem all_operations_return (P : Params K) (tree : Tree K V) (progs : List (List (COp K V)))
    (ht : TreeOk none tree) (ho : tree.order = P.order) (hp : PadOk P) (hd : Disciplined progs)
    (hdel : 4 ≤ tree.order ∨ NoDelete progs)
    (c : Config K V) (hr : Reachable (Config.init P tree progs) c)
    (ts : List Nat) (c' : Config K V) (hrun : c.run ts = (c', none)) (hstuck : c'.enabledSet = [])
    (hfin : FinishedClean c') : c'.unfinished = false := by
  have hr' := reachable_of_run _ ts c c' hr hrun
  have hinv := reachable_cinv P tree progs ht ho hp hd hdel c' hr'
  cases hu : c'.unfinished with
  | false => rfl
  | true =>
    exact absurd hstuck
      (ranked_not_deadlocked (posRank c'.tree) c' hinv.s.owner (sinv_ranked c' hinv.s) hfin hu)

/-- a schedule can always be extended while something is enabled: a maximal execution exists and
    is reached within `termBound c` steps (the step of an enabled thread is defined) -/
theorem enabled_step (c : Config K V) (t : Nat) (h : t ∈ c.enabledSet) : ∃ c', c.step t = some c' := by
  unfold Config.enabledSet at h
  obtain ⟨_, h2⟩ := List.mem_filter.1 h
  cases hth : c.threads[t]? with
  | none => rw [hth] at h2; cases h2
  | some th =>
    rw [hth] at h2
    simp only at h2
    unfold Config.step
    simp only [hth, h2, Bool.not_true, Bool.false_eq_true, if_false]
    exact ⟨_, rfl⟩

/-! ### the bound in closed form, and the well-founded form -/

theorem sum_map_le_mul {α : Type} (f g : α → Nat) (k : Nat) : ∀ (l : List α), (∀ x ∈ l, f x ≤ g x * k) →
    (l.map f).sum ≤ (l.map g).sum * k := by
  intro l
  induction l with
  | nil => intro _; simp
  | cons a l ih =>
    intro h
    have h1 := h a (by simp)
    have h2 := ih (fun x hx => h x (by simp [hx]))
    simp only [List.map_cons, List.sum_cons, Nat.add_mul]
    omega

/-- the bound in closed form: at most `3 · depthBound c + 9` steps per operation (and per thread
    start), where `depthBound c ≤ depth + number of Insert/Update operations of the programs` -/
theorem termBound_le (c : Config K V) (hinv : CInv c) :
    termBound c ≤ (c.threads.map fun th => th.prog.length + 1).sum * (3 * depthBound c + 9) := by
  unfold termBound pot
  have e : 3 * depthBound c + 9 = (3 * depthBound c + 8) + 1 := rfl
  rw [e]
  generalize hw : 3 * depthBound c + 8 = w
  apply sum_map_le_mul
  intro th hth
  have hm := opMeasure_le c hinv th hth
  have hd := depth_le_depthBound c
  rw [Nat.succ_mul th.prog.length (w + 1)]
  by_cases hs : th.park = .start
  · rw [thPot_start hs]; omega
  · by_cases hf : th.park = .finished
    · rw [thPot_finished hf]; omega
    · have hl := live_of_ne hs hf
      have hc := curPot_le (w := w) (T := c.tree) hl (by omega)
      rw [thPot_live hl]
      have : (th.prog.length - (th.pc + 1)) * (w + 1) ≤ th.prog.length * (w + 1) :=
        Nat.mul_le_mul_right _ (Nat.sub_le _ _)
      omega

/-- the well-founded form: there is no infinite execution (no infinite schedule all of whose
    finite prefixes run through) -/
theorem no_infinite_execution (c : Config K V) (hinv : CInv c) :
    ¬ ∃ f : Nat → Nat, ∀ n, (c.run ((List.range n).map f)).2 = none := by
  intro ⟨f, hf⟩
  have h := hf (termBound c + 1)
  have hrun : c.run ((List.range (termBound c + 1)).map f) =
      ((c.run ((List.range (termBound c + 1)).map f)).1, none) := by
    rw [← h]
  have := executions_bounded_inv c hinv _ _ hrun
  simp only [List.length_map, List.length_range] at this
  omega

/-- the bound is computable: two threads on a fresh tree of order 4 -/
example : termBound (Config.init (Params.mk (fun a b : Nat => decide (a < b)) (fun _ => some 0) 4) (Tree.new 4 : Tree Nat Nat)
    [[COp.ins 1 1, COp.get 1], [COp.del 1]]) = 38 := by decide

end Gobptree.Conc

#print axioms Gobptree.Conc.step_depthBound
#print axioms Gobptree.Conc.step_pot
#print axioms Gobptree.Conc.executions_bounded_inv
#print axioms Gobptree.Conc.executions_bounded_explicit
#print axioms Gobptree.Conc.executions_bounded
#print axioms Gobptree.Conc.all_operations_return
#print axioms Gobptree.Conc.termBound_le
#print axioms Gobptree.Conc.no_infinite_execution
