/-
  What another thread's step cannot disturb: `KontOk`/`CursorOk` of a parked thread mention
  only the own fields of nodes it holds (or relies on exclusively, `kontExtra`), the root
  pointer when it holds `rootMutex`, and the order.  If those are unchanged, so are they.
-/
import Gobptree.Proofs.CSBlock

namespace Gobptree.Conc
open Gobptree

variable {K V : Type}

theorem kidAt_congr {t t' : Tree K V} {p : Nat} (h : t'.look p = t.look p) (i : Nat) :
    t'.kidAt p i = t.kidAt p i := by
  unfold Tree.kidAt; rw [h]

theorem notFull_congr {t t' : Tree K V} {p : Nat} (h : t'.look p = t.look p) (ho : t'.order = t.order) :
    notFull t p → notFull t' p := by
  rintro ⟨sh, h1, h2⟩
  exact ⟨sh, by rw [h, h1], by rw [ho]; exact h2⟩

theorem isSmall_congr {t t' : Tree K V} {p : Nat} (h : t'.look p = t.look p) (ho : t'.order = t.order) :
    isSmall t p → isSmall t' p := by
  rintro ⟨sh, h1, h2⟩
  exact ⟨sh, by rw [h, h1], by rw [ho]; exact h2⟩

theorem FrameOk_congr {t t' : Tree K V} {fr : Frame} (h : t'.look fr.node = t.look fr.node) :
    FrameOk t fr → FrameOk t' fr := by
  unfold FrameOk
  rw [kidAt_congr h]
  cases fr.left with
  | none => exact id
  | some l => simp only; rw [kidAt_congr h]; exact id

/-- the node an activation stack stands on is the root or the child of its innermost frame -/
theorem FramesOk_top {t : Tree K V} {root : Nat} {frames : List Frame} {top : Nat}
    (h : FramesOk t root frames top) : top = root ∨ Lk.node top ∈ framesHeld frames := by
  cases frames with
  | nil => exact Or.inl h
  | cons fr rest =>
    right
    obtain ⟨h1, _, _⟩ := h
    simp only [framesHeld, List.mem_append, List.mem_singleton]
    exact Or.inr (Or.inr (by rw [h1]))

theorem FramesOk_congr {t t' : Tree K V} {root : Nat} :
    ∀ (frames : List Frame) (top : Nat),
      (t'.look root = t.look root) →
      (∀ id, Lk.node id ∈ framesHeld frames → t'.look id = t.look id) →
      FramesOk t root frames top → FramesOk t' root frames top := by
  intro frames
  induction frames with
  | nil => intro top _ _ h; exact h
  | cons fr rest ih =>
    intro top hr hl h
    obtain ⟨h1, h2, h3⟩ := h
    have hl' : ∀ id, Lk.node id ∈ framesHeld rest → t'.look id = t.look id := by
      intro id hid
      apply hl
      simp only [framesHeld, List.mem_append]
      exact Or.inl hid
    have hnode : t'.look fr.node = t.look fr.node := by
      rcases FramesOk_top h3 with e | e
      · rw [e]; exact hr
      · exact hl' _ e
    exact ⟨h1, FrameOk_congr hnode h2, ih fr.node hr hl' h3⟩

/-- **a parked thread's continuation facts survive any change that leaves the own fields
    of the nodes it holds / relies on, the root pointer under `rootMutex`, and the order
    alone** -/
theorem KontOk_congr {t t' : Tree K V} (k : Kont K V) (cursor : Option (Option Nat × Int))
    (hl : ∀ id, Lk.node id ∈ kontHeld k ++ cursorLocks cursor → t'.look id = t.look id)
    (hx : ∀ id ∈ kontExtra t k, t'.look id = t.look id)
    (hr : Lk.tree ∈ kontHeld k → t'.rootId = t.rootId)
    (ho : t'.order = t.order) (hpre : KontPre cursor k)
    (hk : KontOk t k) : KontOk t' k ∧ kontExtra t' k = kontExtra t k := by
  cases k with
  | roTree sc key => exact ⟨trivial, rfl⟩
  | roNode sc key hold want =>
    refine ⟨?_, rfl⟩
    cases hold with
    | tree =>
      have := hr (by simp [kontHeld])
      simp only [KontOk] at hk ⊢
      rw [this]; exact hk
    | node p =>
      simp only [KontOk] at hk ⊢
      obtain ⟨i, hi⟩ := hk
      exact ⟨i, by rw [kidAt_congr (hl p (by simp [kontHeld]))]; exact hi⟩
  | upTree key f y => exact ⟨trivial, rfl⟩
  | upRoot key f y r =>
    refine ⟨?_, rfl⟩
    have := hr (by simp [kontHeld])
    simp only [KontOk] at hk ⊢
    rw [this]; exact hk
  | upRootSib key f y root sib =>
    have hroot := hr (by simp [kontHeld])
    simp only [KontOk] at hk ⊢
    obtain ⟨⟨sh, h1, h2⟩, h3, h4⟩ := hk
    have e1 : t'.look t.rootId = t.look t.rootId := hx _ (by simp [kontExtra])
    have e2 : t'.look sib = t.look sib := hx _ (by simp [kontExtra])
    have e3 : t'.look root = t.look root := hl root (by simp [kontHeld])
    refine ⟨⟨⟨sh, by rw [hroot, e1]; exact h1, h2⟩, notFull_congr e2 ho h3, ?_⟩, by simp [kontExtra, hroot]⟩
    intro sh' hs'
    rw [e3] at hs'
    exact h4 sh' hs'
  | upChild key f y parent index child =>
    refine ⟨?_, rfl⟩
    simp only [KontOk] at hk ⊢
    have e := hl parent (by simp [kontHeld])
    exact ⟨by rw [kidAt_congr e]; exact hk.1, notFull_congr e ho hk.2⟩
  | upSib key f y parent child sib =>
    refine ⟨?_, rfl⟩
    simp only [KontOk] at hk ⊢
    obtain ⟨⟨i, h1, h2⟩, h3, h4⟩ := hk
    have e1 := hl parent (by simp [kontHeld])
    have e2 : t'.look sib = t.look sib := hx _ (by simp [kontExtra])
    have e3 := hl child (by simp [kontHeld])
    refine ⟨⟨i, by rw [kidAt_congr e1]; exact h1, by rw [kidAt_congr e1]; exact h2⟩, notFull_congr e2 ho h3, ?_⟩
    intro sh' hs'
    rw [e3] at hs'
    exact h4 sh' hs'
  | upCallback key f leaf arg =>
    refine ⟨?_, rfl⟩
    simp only [KontOk] at hk ⊢
    have e := hl leaf (by simp [kontHeld])
    obtain ⟨⟨sh, h1, h2⟩, h3⟩ := hk
    exact ⟨⟨sh, by rw [e]; exact h1, h2⟩, notFull_congr e ho h3⟩
  | delTree key => exact ⟨trivial, rfl⟩
  | delRoot key r =>
    refine ⟨?_, rfl⟩
    have := hr (by simp [kontHeld])
    simp only [KontOk] at hk ⊢
    rw [this]; exact hk
  | delLeft key frames node index left root =>
    refine ⟨?_, rfl⟩
    have hroot := hr (by simp [kontHeld])
    simp only [KontOk] at hk ⊢
    obtain ⟨h1, h2, h3, h4, c, h5⟩ := hk
    have er : t'.look root = t.look root := hl root (by simp [kontHeld])
    have ef : ∀ id, Lk.node id ∈ framesHeld frames → t'.look id = t.look id := by
      intro id hid; apply hl; simp [kontHeld, hid]
    have en : t'.look node = t.look node := by
      rcases FramesOk_top h2 with e | e
      · rw [e]; exact er
      · exact ef _ e
    exact ⟨by rw [hroot]; exact h1, FramesOk_congr frames node er ef h2, h3,
      by rw [kidAt_congr en]; exact h4, c, by rw [kidAt_congr en]; exact h5⟩
  | delChild key frames node index left child root =>
    refine ⟨?_, rfl⟩
    have hroot := hr (by simp [kontHeld])
    simp only [KontOk] at hk ⊢
    obtain ⟨h1, h2, h3⟩ := hk
    have er : t'.look root = t.look root := hl root (by simp [kontHeld])
    have ef : ∀ id, Lk.node id ∈ framesHeld frames → t'.look id = t.look id := by
      intro id hid; apply hl; simp [kontHeld, hid]
    have en : t'.look node = t.look node := by
      rcases FramesOk_top h2 with e | e
      · rw [e]; exact er
      · exact ef _ e
    exact ⟨by rw [hroot]; exact h1, FramesOk_congr frames node er ef h2, FrameOk_congr (fr := ⟨node, index, left, child⟩) en h3⟩
  | delRight key rest fr right root =>
    refine ⟨?_, rfl⟩
    have hroot := hr (by simp [kontHeld])
    simp only [KontOk] at hk ⊢
    obtain ⟨h1, h2, h3, h4⟩ := hk
    have er : t'.look root = t.look root := hl root (by simp [kontHeld])
    have ef : ∀ id, Lk.node id ∈ framesHeld (fr :: rest) → t'.look id = t.look id := by
      intro id hid; apply hl
      simp only [kontHeld, List.mem_append, List.mem_cons]
      exact Or.inl (Or.inr (Or.inr hid))
    have ec : t'.look fr.child = t.look fr.child := by
      apply ef; simp [framesHeld]
    have en : t'.look fr.node = t.look fr.node := by
      rcases FramesOk_top h2.2.2 with e | e
      · rw [e]; exact er
      · apply ef; simp only [framesHeld, List.mem_append]; exact Or.inl e
    exact ⟨by rw [hroot]; exact h1, FramesOk_congr (fr :: rest) fr.child er ef h2,
      by rw [kidAt_congr en]; exact h3, isSmall_congr ec ho h4⟩
  | hop cur next =>
    refine ⟨?_, rfl⟩
    have hc : cursorLocks cursor = [.node cur] := hpre
    simp only [KontOk] at hk ⊢
    obtain ⟨sh, h1, h2, h3⟩ := hk
    exact ⟨sh, by rw [hl cur (by simp [hc])]; exact h1, h2, h3⟩
  | paused => exact ⟨trivial, rfl⟩

theorem CursorOk_congr {t t' : Tree K V} (b : Bool) (cursor : Option (Option Nat × Int))
    (hl : ∀ id, Lk.node id ∈ cursorLocks cursor → t'.look id = t.look id)
    (hc : CursorOk t b cursor) : CursorOk t' b cursor := by
  cases cursor with
  | none => trivial
  | some p =>
    obtain ⟨leaf?, i⟩ := p
    cases leaf? with
    | none => trivial
    | some leaf =>
      simp only [CursorOk] at hc ⊢
      obtain ⟨sh, h1, h2⟩ := hc
      exact ⟨sh, by rw [hl leaf (by simp [cursorLocks])]; exact h1, h2⟩

end Gobptree.Conc
