/-
  Single-thread agreement of the two models, part 1: one-hole contexts.

  A thread of the concurrent model addresses nodes by identity (`Tree.find`,
  `Tree.modify`, `putInner`, `putLeaf`); the sequential model recurses structurally.
  A one-hole context `c` with `root = c.fill x` turns the former into the latter:
  when the identity of `x` does not occur in the context, `find` returns `x` and
  writing back replaces exactly the hole.
-/
import Gobptree.Proofs.CSFlat
import Gobptree.Proofs.Ids

namespace Gobptree.Conc
open Gobptree

variable {K V : Type}

/-- identities of all nodes beneath (and including) a node, pre-order -/
def nids {d : Nat} (n : Node K V d) : List Nat := (flat n).map Prod.fst

theorem nids_leaf (l : Leaf K V) : nids (d := 0) l = [l.id] := rfl

theorem nids_inner {d : Nat} (i : Inner K (Node K V d)) :
    nids (d := d + 1) i = i.id :: i.kids.flatMap (nids (d := d)) := by
  show ((flat (d := d + 1) i).map Prod.fst) = _
  rw [flat_inner, List.map_cons, List.map_flatMap]
  rfl

theorem nids_mk {d : Nat} (id : Nat) (runts : List K) (kids : List (Node K V d)) :
    nids (d := d + 1) (Inner.mk id runts kids : Inner K (Node K V d)) = id :: kids.flatMap (nids (d := d)) :=
  nids_inner _

theorem id_mem_nids {d : Nat} (n : Node K V d) : Node.id n ∈ nids n := id_mem_flat n

/-- one-hole contexts, innermost frame first: `Ctx K V D d` has a hole for a node of
    height `d` inside a tree of height `D` -/
inductive Ctx (K V : Type) (D : Nat) : Nat → Type where
  | top : Ctx K V D D
  | kid {d : Nat} (c : Ctx K V D (d + 1)) (id : Nat) (runts : List K) (pre post : List (Node K V d)) : Ctx K V D d

namespace Ctx

/-- plug a node into the hole -/
def fill {D : Nat} : {d : Nat} → Ctx K V D d → Node K V d → Node K V D
  | _, .top, x => x
  | _, .kid (d := d) c id r pre post, x => c.fill ((⟨id, r, pre ++ x :: post⟩ : Inner K (Node K V d)) : Node K V (d + 1))

/-- identities of the context (everything except the hole) -/
def ids {D : Nat} : {d : Nat} → Ctx K V D d → List Nat
  | _, .top => []
  | _, .kid c id _ pre post => c.ids ++ id :: (pre.flatMap nids ++ post.flatMap nids)

/-- identities of the nodes on the path from the root to the hole -/
def path {D : Nat} : {d : Nat} → Ctx K V D d → List Nat
  | _, .top => []
  | _, .kid c id _ _ _ => c.path ++ [id]

theorem fill_top {D : Nat} (x : Node K V D) : (Ctx.top : Ctx K V D D).fill x = x := rfl

theorem fill_kid {D d : Nat} (c : Ctx K V D (d + 1)) (id : Nat) (r : List K) (pre post : List (Node K V d))
    (x : Node K V d) :
    (Ctx.kid c id r pre post).fill x = c.fill ((⟨id, r, pre ++ x :: post⟩ : Inner K (Node K V d)) : Node K V (d + 1)) := rfl

theorem ids_kid {D d : Nat} (c : Ctx K V D (d + 1)) (id : Nat) (r : List K) (pre post : List (Node K V d)) :
    (Ctx.kid c id r pre post).ids = c.ids ++ id :: (pre.flatMap nids ++ post.flatMap nids) := rfl

end Ctx

theorem solo_findNode_self : ∀ {d : Nat} (x : Node K V d), findNode (Node.id x) d x = some ⟨d, x⟩
  | 0, x => by
    show (if (x : Leaf K V).id = (x : Leaf K V).id then some (⟨0, x⟩ : AnyNode K V) else none) = _
    simp
  | d + 1, x => by
    show (if (x : Inner K (Node K V d)).id = (x : Inner K (Node K V d)).id then some (⟨d + 1, x⟩ : AnyNode K V)
          else (x : Inner K (Node K V d)).kids.findSome? (findNode _ d)) = _
    simp

theorem findSome_pre_none {d : Nat} (a : Nat) (pre : List (Node K V d)) (h : a ∉ pre.flatMap nids) :
    pre.findSome? (findNode a d) = none := by
  rw [List.findSome?_eq_none_iff]
  intro p hp
  apply (findNode_none a d p).2
  intro hm
  apply h
  rw [List.mem_flatMap]
  exact ⟨p, hp, hm⟩

/-- `find` looks through a context that does not mention the identity -/
theorem findNode_fill {D : Nat} (a : Nat) : ∀ {d : Nat} (c : Ctx K V D d) (x : Node K V d) (r : AnyNode K V),
    findNode a d x = some r → a ∉ c.ids → findNode a D (c.fill x) = some r := by
  intro d c
  induction c with
  | top => intro x r h _; exact h
  | @kid d c id rs pre post ih =>
    intro x r h hn
    rw [Ctx.fill_kid]
    rw [Ctx.ids_kid] at hn
    simp only [List.mem_append, List.mem_cons, not_or] at hn
    apply ih _ r _ hn.1
    show (if id = a then some (⟨d + 1, _⟩ : AnyNode K V) else (pre ++ x :: post).findSome? (findNode a d)) = some r
    have h1 : id ≠ a := fun e => hn.2.1 e.symm
    rw [if_neg h1, List.findSome?_append, findSome_pre_none a pre hn.2.2.1]
    simp [h]

theorem solo_map_modify_absent {d : Nat} (a : Nat) (g : (d : Nat) → Node K V d → Node K V d)
    (pre : List (Node K V d)) (h : a ∉ pre.flatMap nids) :
    pre.map (modifyNode a g d) = pre := by
  conv => rhs; rw [← List.map_id pre]
  apply List.map_congr_left
  intro p hp
  apply modifyNode_absent
  intro hm
  apply h
  rw [List.mem_flatMap]
  exact ⟨p, hp, hm⟩

theorem modifyNode_inner_ne {d : Nat} (a : Nat) (g : (d : Nat) → Node K V d → Node K V d)
    (i : Inner K (Node K V d)) (h : i.id ≠ a) :
    modifyNode a g (d + 1) (i : Node K V (d + 1)) =
      (({ i with kids := i.kids.map (modifyNode a g d) } : Inner K (Node K V d)) : Node K V (d + 1)) := by
  show (if i.id = a then g (d + 1) i else _) = _
  exact if_neg h

/-- `modify` rewrites only the hole when the context does not mention the identity -/
theorem modifyNode_fill {D : Nat} (a : Nat) (g : (d : Nat) → Node K V d → Node K V d) :
    ∀ {d : Nat} (c : Ctx K V D d) (x : Node K V d),
    a ∉ c.ids → modifyNode a g D (c.fill x) = c.fill (modifyNode a g d x) := by
  intro d c
  induction c with
  | top => intro x _; rfl
  | @kid d c id rs pre post ih =>
    intro x hn
    rw [Ctx.fill_kid, Ctx.fill_kid]
    rw [Ctx.ids_kid] at hn
    simp only [List.mem_append, List.mem_cons, not_or] at hn
    refine (ih _ hn.1).trans ?_
    congr 1
    have h1 : id ≠ a := fun e => hn.2.1 e.symm
    refine (modifyNode_inner_ne a g ⟨id, rs, pre ++ x :: post⟩ h1).trans ?_
    show ((⟨id, rs, (pre ++ x :: post).map (modifyNode a g d)⟩ : Inner K (Node K V d)) : Node K V (d + 1)) = _
    rw [List.map_append, List.map_cons, solo_map_modify_absent a g pre hn.2.2.1,
      solo_map_modify_absent a g post hn.2.2.2]

theorem modifyNode_self : ∀ {d : Nat} (g : (d : Nat) → Node K V d → Node K V d) (x : Node K V d),
    modifyNode (Node.id x) g d x = g d x
  | 0, g, x => by
    show (if (x : Leaf K V).id = (x : Leaf K V).id then g 0 x else x) = _
    simp
  | d + 1, g, x => by
    show (if (x : Inner K (Node K V d)).id = (x : Inner K (Node K V d)).id then g (d + 1) x else _) = _
    simp

/-! ### tree level -/

/-- the tree whose root is `c.fill x` -/
def treeOf {D d : Nat} (o : Nat) (c : Ctx K V D d) (x : Node K V d) (nid : Nat) : Tree K V :=
  { order := o, depth := D, root := c.fill x, nextId := nid }

theorem find_treeOf {D d : Nat} (o : Nat) (c : Ctx K V D d) (x : Node K V d) (nid : Nat)
    (h : Node.id x ∉ c.ids) : (treeOf o c x nid).find (Node.id x) = some ⟨d, x⟩ :=
  findNode_fill _ c x _ (solo_findNode_self x) h

theorem modify_treeOf {D d : Nat} (o : Nat) (c : Ctx K V D d) (x : Node K V d) (nid : Nat)
    (g : (d : Nat) → Node K V d → Node K V d)
    (h : Node.id x ∉ c.ids) : (treeOf o c x nid).modify (Node.id x) g = treeOf o c (g d x) nid := by
  unfold treeOf Tree.modify
  simp only
  rw [modifyNode_fill _ g c x h, modifyNode_self]

theorem putInner_treeOf {D d : Nat} (o : Nat) (c : Ctx K V D (d + 1)) (p p' : Inner K (Node K V d)) (nid : Nat)
    (hid : p'.id = p.id) (h : p.id ∉ c.ids) :
    putInner (treeOf o c (p : Node K V (d + 1)) nid) p' = treeOf o c (p' : Node K V (d + 1)) nid := by
  unfold putInner
  rw [hid]
  have := modify_treeOf o c (p : Node K V (d + 1)) nid
    (fun d' n => if h : d' = d + 1 then h ▸ (p' : Node K V (d + 1)) else n) h
  exact this.trans (congrArg (fun z => treeOf o c z nid) (putInner_apply p' p))

theorem putLeaf_treeOf {D : Nat} (o : Nat) (c : Ctx K V D 0) (l l' : Leaf K V) (nid : Nat)
    (hid : l'.id = l.id) (h : l.id ∉ c.ids) :
    putLeaf (treeOf o c (l : Node K V 0) nid) l' = treeOf o c (l' : Node K V 0) nid := by
  unfold putLeaf
  rw [hid]
  exact modify_treeOf o c (l : Node K V 0) nid _ h

/-! ### identity bookkeeping by counting -/

/-- the identities of context and hole are pairwise distinct and below the counter -/
def IdInv {D d : Nat} (c : Ctx K V D d) (x : Node K V d) (nid : Nat) : Prop :=
  ∀ a, (c.ids.count a + (nids x).count a ≤ 1) ∧ (0 < c.ids.count a + (nids x).count a → a < nid)

theorem count_id_nids {d : Nat} (x : Node K V d) : 1 ≤ (nids x).count (Node.id x) :=
  List.count_pos_iff.2 (id_mem_nids x)

theorem IdInv.not_mem {D d : Nat} {c : Ctx K V D d} {x : Node K V d} {nid : Nat} (h : IdInv c x nid) :
    Node.id x ∉ c.ids := by
  intro hm
  have h1 := (h (Node.id x)).1
  have h2 := count_id_nids x
  have h3 : 0 < c.ids.count (Node.id x) := List.count_pos_iff.2 hm
  omega

theorem IdInv.lt {D d : Nat} {c : Ctx K V D d} {x : Node K V d} {nid : Nat} (h : IdInv c x nid) :
    Node.id x < nid := by
  have h2 := count_id_nids x
  exact (h (Node.id x)).2 (by omega)

end Gobptree.Conc
