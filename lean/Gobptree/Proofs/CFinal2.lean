/-
  Stage C assembled: the four per-block results, the full invariant in every reachable
  configuration, and linearizability WITH Delete.
-/
import Gobptree.Proofs.CFinal
import Gobptree.Proofs.CIUp
import Gobptree.Proofs.CIDel
import Gobptree.Proofs.CLinDel
import Gobptree.Proofs.CCbOnce

namespace Gobptree.Conc
open Gobptree

variable {K V : Type}

theorem kblocks_ok : KBlocks K V :=
  ⟨resume_kpost_U, resume_kpost_D, resume_isep_U, resume_isep_D⟩

/-- **the full invariant in every reachable configuration** (any program family, with Delete) -/
theorem reachable_kfinv' (lt : K → K → Bool) (P : Params K) (tree : Tree K V) (progs : List (List (COp K V)))
    (hkp : KParams lt P) (ht : TreeOk none tree) (hord : OrdTree lt tree) (hsep : SepTree lt tree)
    (ho : tree.order = P.order) (hp : PadOk P) (hd : Disciplined progs)
    (hdel : 4 ≤ tree.order ∨ NoDelete progs)
    (c : Config K V) (hr : Reachable (Config.init P tree progs) c) : KFInv lt c :=
  reachable_kfinv kblocks_ok lt P tree progs hkp ht hord hsep ho hp hd hdel c hr

/-- **linearizability, every schedule, with Delete** -/
theorem linearizable_full' (lt : K → K → Bool) (P : Params K) (tree : Tree K V) (progs : List (List (COp K V)))
    (hkp : KParams lt P) (ht : TreeOk none tree) (hord : OrdTree lt tree) (hsep : SepTree lt tree)
    (ho : tree.order = P.order) (hp : PadOk P) (hd : Disciplined progs)
    (hdel : 4 ≤ tree.order ∨ NoDelete progs)
    (c : Config K V) (hr : Reachable (Config.init P tree progs) c) :
    Lin.Linearizable lt tree.abs (history c) :=
  linearizable_full kblocks_ok lt P tree progs hkp ht hord hsep ho hp hd hdel c hr

end Gobptree.Conc

#print axioms Gobptree.Conc.reachable_kfinv'
#print axioms Gobptree.Conc.linearizable_full'
#print axioms Gobptree.Conc.callback_exactly_once
