/-
  Per-block lemmas for global termination: how a stretch of code (the code between two parks)
  changes the DEPTH of the tree.

  Only two blocks change the depth: `upRootArrive` (a root split, +1; run by an Insert/Update
  that was parked at `want (node root) (upRoot …)`) and `delFinish` (root collapse, -1).  An
  Insert/Update can split the root only while its continuation is `upTree`/`upRoot`
  (`kontG = 1`), and no block ever parks at such a continuation again, except `upTree → upRoot`
  which leaves the tree alone.  Hence for every block
      depth after + kontG (park after) ≤ depth before + kontG (continuation resumed).
  Read off every block of Conc.lean, in the style of CProgressPark.
-/
import Gobptree.Proofs.CProgress

namespace Gobptree.Conc
open Gobptree

variable {K V : Type}

/-- 1 iff an Insert/Update with this continuation may still split the root -/
def kontG : Kont K V → Nat
  | .upTree _ _ _ => 1
  | .upRoot _ _ _ _ => 1
  | _ => 0

def parkG : Park K V → Nat
  | .want _ k => kontG k
  | .yielded k => kontG k
  | _ => 0

def flowG : Flow K V → Nat
  | .park p => parkG p
  | _ => 0

/-- the outcome of a block: depth of the tree it leaves plus the pending growth of the park it
    ends in is at most `d` -/
def OutD (d : Nat) (r : St K V × Flow K V) : Prop := r.1.tree.depth + flowG r.2 ≤ d

theorem OutD.mono {d d' : Nat} {r : St K V × Flow K V} (h : OutD d r) (hle : d ≤ d') : OutD d' r :=
  Nat.le_trans h hle

/-- closes `OutD d (s', fl)` when the depth of `s'` is visibly `d` and `fl` is explicit -/
macro "dep" : tactic => `(tactic| exact Nat.le_refl _)

@[simp] theorem putLeaf_depth (tr : Tree K V) (l : Leaf K V) : (putLeaf tr l).depth = tr.depth := rfl
@[simp] theorem putInner_depth {d : Nat} (tr : Tree K V) (i : Inner K (Node K V d)) :
    (putInner tr i).depth = tr.depth := rfl

theorem collapseRoot_depth (o n : Nat) : ∀ (d : Nat) (r : Node K V d) (tr : Tree K V),
    collapseRoot o n d r = .ok tr → tr.depth ≤ d := by
  intro d
  cases d with
  | zero =>
    intro r tr h
    simp only [collapseRoot, pure, Except.pure] at h
    cases h
    exact Nat.le_refl _
  | succ d =>
    intro r tr h
    simp only [collapseRoot] at h
    split at h
    · cases h
    · simp only [pure, Except.pure] at h
      cases h
      exact Nat.le_succ _

/-! ### Search / NewScanner -/

theorem roArrive_dep (P : Params K) (t : Nat) (s : St K V) (sc : Bool) (key : K) (hold : Lk) (n : Nat) :
    OutD s.tree.depth (roArrive P t s sc key hold n) := by
  unfold roArrive
  simp only
  split
  · dep
  · split
    · split
      · dep
      · split
        · dep
        · dep
    · split
      · dep
      · split <;> dep

/-! ### Insert / Update -/

theorem upLeaf_dep (P : Params K) (t : Nat) (s : St K V) (key : K) (f : Option V → V) (y : Option Bool) (n : Nat)
    (l : Leaf K V) : OutD s.tree.depth (upLeaf P t s key f y n l) := by
  unfold upLeaf
  split
  · dep
  · split
    · dep
    · dep
    · dep

theorem upContinue_dep (P : Params K) (t : Nat) (s : St K V) (key : K) (f : Option V → V) (y : Option Bool) (n : Nat) :
    OutD s.tree.depth (upContinue P t s key f y n) := by
  unfold upContinue
  split
  · dep
  · split
    · exact upLeaf_dep P t s key f y n _
    · split
      · dep
      · simp only
        split <;> dep

theorem upChildArrive_dep (P : Params K) (t : Nat) (s : St K V) (key : K) (f : Option V → V) (y : Option Bool)
    (parent index child : Nat) : OutD s.tree.depth (upChildArrive P t s key f y parent index child) := by
  unfold upChildArrive
  split
  · split
    · dep
    · split
      · dep
      · split
        · dep
        · exact upContinue_dep P t _ key f y child
        · split
          · split
            · dep
            · exact upContinue_dep P t _ key f y child
          · dep
  · dep

theorem upRootArrive_dep (P : Params K) (t : Nat) (s : St K V) (key : K) (f : Option V → V) (y : Option Bool)
    (root : Nat) : OutD (s.tree.depth + 1) (upRootArrive P t s key f y root) := by
  unfold upRootArrive
  simp only
  split
  · exact Nat.le_succ _
  · exact (upContinue_dep P t _ key f y root).mono (Nat.le_succ _)
  · split
    · split
      · dep
      · exact upContinue_dep P t _ key f y root
    · exact Nat.le_succ _

/-! ### Delete -/

theorem delFinish_dep (t : Nat) (s : St K V) (small : Bool) (root : Nat) :
    OutD s.tree.depth (delFinish t s small root) := by
  unfold delFinish
  show (ite _ _ _ : St K V).tree.depth + 0 ≤ s.tree.depth
  split
  · dep
  · split
    · rename_i tr' h
      exact collapseRoot_depth _ _ _ _ _ h
    · dep

theorem delUnwind_dep (P : Params K) (t : Nat) (key : K) (root : Nat) :
    ∀ (frames : List Frame) (s : St K V) (small : Bool),
      OutD s.tree.depth (delUnwind P t s key frames small root) := by
  intro frames
  induction frames with
  | nil => intro s small; unfold delUnwind; exact delFinish_dep t s small root
  | cons fr rest ih =>
    intro s small
    unfold delUnwind
    split
    · exact (ih _ false).mono (by simp)
    · split
      · split
        · split <;> dep
        · split
          · dep
          · split
            · dep
            · rename_i i' small' _
              exact (ih _ small').mono (by simp)
      · dep

theorem delRightArrive_dep (P : Params K) (t : Nat) (s : St K V) (key : K) (rest : List Frame) (fr : Frame)
    (right root : Nat) : OutD s.tree.depth (delRightArrive P t s key rest fr right root) := by
  unfold delRightArrive
  split
  · split
    · dep
    · split
      · dep
      · rename_i i' small' _
        exact (delUnwind_dep P t key root rest _ small').mono (by simp)
  · dep

theorem delGo_dep (P : Params K) (t : Nat) (s : St K V) (key : K) (frames : List Frame) (n root : Nat) :
    OutD s.tree.depth (delGo P t s key frames n root) := by
  unfold delGo
  have henter : (delEnter P t s key frames n root).1.tree.depth = s.tree.depth ∧
      flowG (delEnter P t s key frames n root).2.1 = 0 := by
    unfold delEnter
    split
    · exact ⟨rfl, rfl⟩
    · split
      · split
        · exact ⟨rfl, rfl⟩
        · exact ⟨rfl, rfl⟩
      · split
        · exact ⟨rfl, rfl⟩
        · simp only
          split
          · split <;> exact ⟨rfl, rfl⟩
          · split <;> exact ⟨rfl, rfl⟩
  split
  · rename_i s1 fl heq
    rw [heq] at henter
    show s1.tree.depth + flowG fl ≤ _
    rw [henter.1, henter.2]
    exact Nat.le_refl _
  · rename_i s1 fl frames' small heq
    rw [heq] at henter
    exact (delUnwind_dep P t key root frames' s1 small).mono (Nat.le_of_eq henter.1)

/-! ### resume -/

/-- **every block**: the depth of the tree after it, plus 1 if it parks an Insert/Update before
    its root step, is at most the depth before, plus 1 if the block was resumed before the root
    step of an Insert/Update.  (The depth grows only in the root step of an Insert/Update.) -/
theorem resume_dep (P : Params K) (t : Nat) (s : St K V) (k : Kont K V) :
    OutD (s.tree.depth + kontG k) (resume P t s k) := by
  cases k with
  | roTree sc key => simp only [resume]; dep
  | roNode sc key hold want => simp only [resume]; exact roArrive_dep P t _ sc key hold want
  | upTree key f y => simp only [resume]; dep
  | upRoot key f y r => simp only [resume]; exact upRootArrive_dep P t _ key f y r
  | upRootSib key f y root sib => simp only [resume]; exact upContinue_dep P t _ key f y sib
  | upChild key f y parent index child =>
    simp only [resume]; exact upChildArrive_dep P t _ key f y parent index child
  | upSib key f y parent child sib => simp only [resume]; exact upContinue_dep P t _ key f y sib
  | upCallback key f leaf arg =>
    simp only [resume]
    split
    · split
      · split <;> dep
      · dep
    · dep
  | delTree key => simp only [resume]; dep
  | delRoot key r => simp only [resume]; exact delGo_dep P t _ key [] r r
  | delLeft key frames node index left root =>
    simp only [resume]
    split
    · split <;> dep
    · dep
  | delChild key frames node index left child root =>
    simp only [resume]; exact delGo_dep P t _ key _ child root
  | delRight key rest fr right root =>
    simp only [resume]; exact delRightArrive_dep P t _ key rest fr right root
  | hop cur next => simp only [resume]; dep
  | paused => simp only [resume]; dep

/-! ### the first stretch of an operation -/

/-- Insert / Update: the operations that may split the root -/
def isUp : COp K V → Bool
  | .ins _ _ => true
  | .upd _ _ _ => true
  | _ => false

def opG (op : COp K V) : Nat := if isUp op then 1 else 0

/-- the first park of an operation carries a pending growth only if the operation is an
    Insert/Update -/
theorem startOp_dep (t : Nat) (s : St K V) (op : COp K V) : flowG (startOp t s op).2 ≤ opG op := by
  cases op with
  | ins k v => simp only [startOp]; split <;> first | exact Nat.le_refl _ | exact Nat.zero_le _
  | upd k f y => simp only [startOp]; split <;> first | exact Nat.le_refl _ | exact Nat.zero_le _
  | del k => simp only [startOp]; split <;> exact Nat.le_refl _
  | get k => simp only [startOp]; split <;> exact Nat.le_refl _
  | ns k => simp only [startOp]; split <;> exact Nat.le_refl _
  | pause => exact Nat.le_refl _
  | scan =>
    simp only [startOp]
    split
    · split
      · exact Nat.le_refl _
      · split
        · split <;> exact Nat.le_refl _
        · exact Nat.le_refl _
    · exact Nat.le_refl _
  | pair =>
    simp only [startOp]
    split
    · split
      · exact Nat.le_refl _
      · split
        · exact Nat.le_refl _
        · split <;> exact Nat.le_refl _
    · exact Nat.le_refl _
  | close =>
    simp only [startOp]
    split <;> exact Nat.le_refl _

end Gobptree.Conc
