/-
  Auxiliary facts for the step-level assembly: mutual exclusion in usable form, the hole of
  a configuration, presence of held nodes.
-/
import Gobptree.Proofs.CSThread

namespace Gobptree.Conc
open Gobptree

variable {K V : Type}

theorem pair_eq_of_nodup_fst' {α β : Type} (l : List (α × β)) (h : (l.map Prod.fst).Nodup) (a : α) (b1 b2 : β)
    (h1 : (a, b1) ∈ l) (h2 : (a, b2) ∈ l) : b1 = b2 := by
  induction l with
  | nil => cases h1
  | cons p l ih =>
    rw [List.map_cons, List.nodup_cons] at h
    cases List.mem_cons.mp h1 with
    | inl e1 =>
      cases List.mem_cons.mp h2 with
      | inl e2 => rw [← e1] at e2; exact (Prod.mk.inj e2).2.symm
      | inr m2 => exact absurd (List.mem_map.mpr ⟨(a, b2), m2, by rw [← e1]⟩) h.1
    | inr m1 =>
      cases List.mem_cons.mp h2 with
      | inl e2 => exact absurd (List.mem_map.mpr ⟨(a, b1), m1, by rw [← e2]⟩) h.1
      | inr m2 => exact ih h.2 m1 m2

/-- two different threads never hold the same mutex -/
theorem held_excl {c : Config K V} (ho : OwnerOk c) {i j : Nat} {a b : Thread K V} {l : Lk}
    (hi : c.threads[i]? = some a) (hj : c.threads[j]? = some b) (ha : l ∈ a.held) (hb : l ∈ b.held) : i = j := by
  obtain ⟨hcount, hnodup⟩ := ho
  have c1 : 0 < c.owner.count (l, i) := by
    rw [hcount l i]; unfold heldOf; rw [hi]; exact List.count_pos_iff.mpr ha
  have c2 : 0 < c.owner.count (l, j) := by
    rw [hcount l j]; unfold heldOf; rw [hj]; exact List.count_pos_iff.mpr hb
  exact pair_eq_of_nodup_fst' c.owner hnodup l i j (List.count_pos_iff.mp c1) (List.count_pos_iff.mp c2)

/-- a free mutex is held by nobody -/
theorem free_not_held {c : Config K V} (ho : OwnerOk c) {l : Lk} (hf : c.holder l = none)
    {j : Nat} {b : Thread K V} (hj : c.threads[j]? = some b) : l ∉ b.held := by
  intro hb
  obtain ⟨hcount, _⟩ := ho
  have c2 : 0 < c.owner.count (l, j) := by
    rw [hcount l j]; unfold heldOf; rw [hj]; exact List.count_pos_iff.mpr hb
  have hm := List.count_pos_iff.mp c2
  unfold Config.holder at hf
  have : c.owner.find? (fun p => p.1 = l) = none := by
    cases h : c.owner.find? (fun p => p.1 = l) with
    | none => rfl
    | some x => rw [h] at hf; cases hf
  have := List.find?_eq_none.1 this (l, j) hm
  simp at this

/-! ### the hole -/

theorem holeOf_eq_of_others_none : ∀ (ths : List (Thread K V)) (t : Nat) (a : Thread K V),
    ths[t]? = some a → (∀ j b, ths[j]? = some b → j ≠ t → parkHole b.park = none) →
    holeOf ths = parkHole a.park := by
  intro ths
  induction ths with
  | nil => intro t a h; cases h
  | cons x xs ih =>
    intro t a h hn
    unfold holeOf
    rw [List.findSome?_cons]
    cases t with
    | zero =>
      have : x = a := by simpa using h
      subst this
      cases hx : parkHole x.park with
      | some v => rfl
      | none =>
        simp only
        rw [List.findSome?_eq_none_iff.2]
        intro b hb
        obtain ⟨j, hj, e⟩ := List.getElem_of_mem hb
        have := hn (j + 1) b (by simp [List.getElem?_eq_getElem hj, e]) (by omega)
        exact this
    | succ t =>
      have hx : parkHole x.park = none := hn 0 x rfl (by omega)
      rw [hx]
      simp only
      exact ih t a (by simpa using h) (fun j b hj hne => hn (j + 1) b (by simpa using hj) (by omega))

theorem holeOf_all_none (ths : List (Thread K V)) (h : ∀ b ∈ ths, parkHole b.park = none) : holeOf ths = none := by
  unfold holeOf
  exact List.findSome?_eq_none_iff.2 h

theorem holeOf_set_none : ∀ (ths : List (Thread K V)) (t : Nat) (a a' : Thread K V),
    ths[t]? = some a → parkHole a.park = none → parkHole a'.park = none →
    holeOf (ths.set t a') = holeOf ths := by
  intro ths
  induction ths with
  | nil => intro t a a' h; cases h
  | cons x xs ih =>
    intro t a a' h h1 h2
    cases t with
    | zero =>
      have : x = a := by simpa using h
      subst this
      unfold holeOf
      simp only [List.set_cons_zero, List.findSome?_cons, h1, h2]
    | succ t =>
      unfold holeOf
      simp only [List.set_cons_succ, List.findSome?_cons]
      cases parkHole x.park with
      | some v => rfl
      | none => exact ih t a a' (by simpa using h) h1 h2

/-- a thread whose park position has a hole holds `rootMutex` -/
theorem hole_holds_tree {th : Thread K V} (hok : ThreadOk th) {x : Nat} (h : parkHole th.park = some x) :
    Lk.tree ∈ th.held := by
  obtain ⟨hperm, _, _⟩ := hok
  apply hperm.mem_iff.2
  apply List.mem_append_right
  cases hp : th.park with
  | want l k =>
    rw [hp] at h
    cases k <;> first | (simp [parkHole] at h) | skip
    simp [parkHeld, kontHeld]
  | yielded k => rw [hp] at h; simp [parkHole] at h
  | start => rw [hp] at h; simp [parkHole] at h
  | finished => rw [hp] at h; simp [parkHole] at h

/-- a Delete past its first lock holds `rootMutex` -/
theorem del_holds_tree {th : Thread K V} (hok : ThreadOk th) {l : Lk} {k : Kont K V}
    (hp : th.park = .want l k) (hd : isDelK k = true) (hnt : l ≠ .tree) : Lk.tree ∈ th.held := by
  obtain ⟨hperm, _, hlock⟩ := hok
  apply hperm.mem_iff.2
  apply List.mem_append_right
  rw [hp] at hlock ⊢
  have hl : kontLock k = some l := hlock
  cases k <;> first | (simp [isDelK] at hd) | skip
  · simp [kontLock] at hl; exact absurd hl.symm hnt
  all_goals simp [parkHeld, kontHeld]

end Gobptree.Conc
