/-
  Program order in the client-visible history: a thread invokes its next map operation only
  after all its earlier map operations have returned.  In every reachable configuration, if the
  history holds the invocation of call `i` of thread `t`, then for every earlier call `i' < i` of
  the same thread that is a map operation, its response stands in the history BEFORE that
  invocation (`SeqH`, `reachable_seq`).  Hence an earlier call of the same thread is settled
  before a later one (`settled_of_program_order`).

  (The `ret` note of a call and the `inv` note of the next one are logged in the same scheduler
  step, so no CONFIGURATION of a run separates them; the order is visible in the history only.)
-/
import Gobptree.Proofs.CNoLossLin

namespace Gobptree.Conc
open Gobptree Gobptree.Lin

variable {K V : Type}

/-- thread-sequentiality of a history: when call `i` of thread `t` is invoked, every earlier call of
    `t` that is a map operation has already returned -/
def SeqH (progs : Nat → List (COp K V)) (H : List (HEv K V)) : Prop :=
  ∀ (t b i : Nat) (op : Op K V), H[b]? = some (HEv.inv t i op) → ∀ (i' : Nat) (cop' : COp K V) (op' : Op K V),
    i' < i → (progs t)[i']? = some cop' → opOf cop' = some op' →
    ∃ (a : Nat) (out : Out V), a < b ∧ H[a]? = some (HEv.ret t i' out)

theorem SeqH.nil (progs : Nat → List (COp K V)) : SeqH progs ([] : List (HEv K V)) := by
  intro t b i op h; simp at h

/-- appending anything but an invocation keeps sequentiality -/
theorem SeqH.append_other {progs : Nat → List (COp K V)} {H : List (HEv K V)} (hs : SeqH progs H) (e : HEv K V)
    (hne : ∀ t i op, e ≠ HEv.inv t i op) : SeqH progs (H ++ [e]) := by
  intro t b i op hb i' cop' op' hlt hc ho
  rcases getElem?_snoc hb with ⟨_, hb'⟩ | ⟨_, he⟩
  · obtain ⟨a, out, ha, hao⟩ := hs t b i op hb' i' cop' op' hlt hc ho
    exact ⟨a, out, ha, getElem?_snoc_of hao⟩
  · exact absurd he.symm (hne t i op)

/-- appending the invocation of `(t, j)` keeps sequentiality if every earlier map operation of `t`
    has returned -/
theorem SeqH.append_inv {progs : Nat → List (COp K V)} {H : List (HEv K V)} (hs : SeqH progs H) {t j : Nat} (op : Op K V)
    (hpast : ∀ i' cop' op', i' < j → (progs t)[i']? = some cop' → opOf cop' = some op' → ∃ out, HEv.ret t i' out ∈ H) :
    SeqH progs (H ++ [HEv.inv t j op]) := by
  intro t' b i op0 hb i' cop' op' hlt hc ho
  rcases getElem?_snoc hb with ⟨_, hb'⟩ | ⟨hbl, he⟩
  · obtain ⟨a, out, ha, hao⟩ := hs t' b i op0 hb' i' cop' op' hlt hc ho
    exact ⟨a, out, ha, getElem?_snoc_of hao⟩
  · cases he
    obtain ⟨out, hout⟩ := hpast i' cop' op' hlt hc ho
    obtain ⟨a, ha, hao⟩ := mem_getElem?_lt hout
    exact ⟨a, out, by omega, getElem?_snoc_of hao⟩

/-- one event of the log -/
theorem hxStep_seq (progs : Nat → List (COp K V)) (st : HxSt K V) (e : Ev K V) (hs : SeqH progs st.evs)
    (hpast : ∀ t j, e = Ev.note t (.inv j) → ∀ i' cop' op', i' < j → (progs t)[i']? = some cop' →
      opOf cop' = some op' → ∃ out, HEv.ret t i' out ∈ st.evs) :
    SeqH progs (hxStep progs st e).evs := by
  cases e with
  | note t n =>
    cases n with
    | inv idx =>
      simp only [hxStep]
      split
      · exact hs.append_inv _ (hpast t idx rfl)
      · exact hs
    | cb a => exact hs
    | ret idx r =>
      simp only [hxStep]
      split
      · split
        · exact hs.append_other _ (by intro _ _ _ h; cases h)
        · exact hs
      · exact hs
  | acq t l => exact hs
  | rel t l => exact hs
  | dec t l => exact hs

/-! ### the loop of a step -/

section Loop

variable {progs : Nat → List (COp K V)} {t : Nat}

/-- the loop of a step keeps the history sequential (alongside `LoopR` of `CCounterRet`) -/
theorem loop_seq (th : Thread K V) (hprog : th.prog = progs t) (H0 : List (HEv K V)) :
    ∀ (fuel : Nat) (s : St K V) (fl : Flow K V) (pc : Nat),
      LoopR progs t th.prog H0 s fl pc → SeqH progs (hx progs s.evs).evs →
      (threadLoop t th fuel s fl pc).2.2 = false →
      SeqH progs (hx progs (threadLoop t th fuel s fl pc).2.1.evs).evs := by
  -- the `ret` note of the stretch that just ended
  have hret : ∀ (s : St K V) (r : Res K V) (pc : Nat), LoopR progs t th.prog H0 s (.done r) pc →
      SeqH progs (hx progs s.evs).evs →
      (∀ x ∈ H0, x ∈ (hx progs (s.note t (.ret pc r)).evs).evs) ∧
      (∀ i cop op, i < pc + 1 → th.prog[i]? = some cop → opOf cop = some op →
        ∃ out, HEv.ret t i out ∈ (hx progs (s.note t (.ret pc r)).evs).evs) ∧
      SeqH progs (hx progs (s.note t (.ret pc r)).evs).evs := by
    intro s r pc hl hs
    have hm : ∀ x, x ∈ (hx progs s.evs).evs → x ∈ (hx progs (s.note t (.ret pc r)).evs).evs :=
      fun x hx' => hx_mono progs s.evs x [Ev.note t (.ret pc r)] hx'
    refine ⟨fun x hx' => hm x (hl.mono x hx'), ?_, ?_⟩
    · intro i cop op hi hc ho
      by_cases hlt : i < pc
      · obtain ⟨out, hout⟩ := hl.past i cop op hlt hc ho
        exact ⟨out, hm _ hout⟩
      · have hip : i = pc := by omega
        subst hip
        have := hl.cur cop op hc ho
        obtain ⟨out, hout⟩ := Option.isSome_iff_exists.1 this
        exact ⟨out, hx_ret_note progs t i r s.evs cop out (by rw [← hprog]; exact hc) hout⟩
    · show SeqH progs (hx progs (Ev.note t (.ret pc r) :: s.evs)).evs
      rw [hx_cons]
      exact hxStep_seq progs _ _ hs (by intro _ _ h; cases h)
  intro fuel
  induction fuel with
  | zero =>
    intro s fl pc hl hs hd
    cases fl with
    | panic => rw [threadLoop_panic] at hd; cases hd
    | park p => exact hs
    | done r => exact (hret s r pc hl hs).2.2
  | succ fuel ih =>
    intro s fl pc hl hs hd
    cases fl with
    | panic => rw [threadLoop_panic] at hd; cases hd
    | park p => exact hs
    | done r =>
      obtain ⟨h1, h2, h3⟩ := hret s r pc hl hs
      unfold threadLoop at hd ⊢
      cases hop : th.prog[pc + 1]? with
      | none => exact h3
      | some cop =>
        simp only [hop] at hd ⊢
        refine ih _ _ _ (begin_ret (s := s.note t (.ret pc r)) h1 h2 hop) ?_ hd
        obtain ⟨new, e, q, _⟩ := startOp_tr t ((s.note t (.ret pc r)).note t (.inv (pc + 1))) cop
        rw [e, hx_silent progs _ new q]
        show SeqH progs (hx progs (Ev.note t (.inv (pc + 1)) :: (s.note t (.ret pc r)).evs)).evs
        rw [hx_cons]
        apply hxStep_seq progs _ _ h3
        intro t' j he i' cop' op' hlt hc ho
        cases he
        exact h2 i' cop' op' hlt (by rw [hprog]; exact hc) ho

end Loop

/-! ### the invariant of configurations -/

/-- a scheduler step keeps the history sequential -/
theorem step_seq (c c' : Config K V) (t : Nat) (hstep : c.step t = some c') (hinv : CInv c)
    (hC : ∀ j b, c.threads[j]? = some b → CbOk c j b)
    (hI : ∀ j b, c.threads[j]? = some b → RetOk c j b)
    (hS : SeqH (progOf c) (history c)) : SeqH (progOf c') (history c') := by
  obtain ⟨th, ht, hen, r, hr, hc'⟩ := step_shape hstep
  have halive' : c'.dead = false := (step_cinv blocks_ok c c' t hstep hinv).1.alive
  have hdied : r.2.2 = false := by
    rw [hc'] at halive'
    simp only [Bool.or_eq_false_iff] at halive'
    exact halive'.2
  have htm : th ∈ c.threads := List.mem_of_getElem? ht
  have hok := hinv.s.cfg th htm
  have hnf := enabled_not_finished hen
  have hprog : th.prog = progOf c t := (progOf_of_get ht).symm
  have hths' : c'.threads = c.threads.set t r.1 := by rw [hc']
  have hlog' : c'.log = r.2.1.evs := by rw [hc']
  have hrprog : r.1.prog = th.prog := by rw [hr]; exact runThread_prog _ _ _ _
  have hprogs' : progOf c' = progOf c := by
    funext j
    unfold progOf
    rw [hths']
    by_cases e : j = t
    · subst e
      rw [List.getElem?_set_self', ht]
      simp [hrprog]
    · rw [List.getElem?_set_ne (Ne.symm e)]
  have hme := hI t th ht
  have hcb := hC t th ht
  have hhist' : history c' = (hx (progOf c) r.2.1.evs).evs := by
    show (hxRun c').evs = _
    rw [hxRun_eq, hprogs', hlog']
  have hst0 : hx (progOf c) (stepSt c t th).evs = hx (progOf c) c.log :=
    hx_silent (progOf c) c.log [Ev.dec t c.enabledSet] rfl
  have hmono0 : ∀ x ∈ history c, x ∈ (hx (progOf c) (stepSt c t th).evs).evs := by
    intro x hx'; rw [hst0]; exact hx'
  have hpast0 : ∀ i cop op, i < th.pc → th.prog[i]? = some cop → opOf cop = some op →
      ∃ out, HEv.ret t i out ∈ (hx (progOf c) (stepSt c t th).evs).evs := by
    intro i cop op hi hc ho
    rw [hst0]; exact hme.past i cop op hi hc ho
  have hseq0 : SeqH (progOf c) (hx (progOf c) (stepSt c t th).evs).evs := by
    rw [hst0]; exact hS
  rw [hprogs', hhist']
  have resumed : ∀ k, (th.park = .yielded k ∨ ∃ l, th.park = .want l k) →
      r = threadLoop t th th.prog.length (resume c.P t (stepSt c t th) k).1 (resume c.P t (stepSt c t th) k).2 th.pc →
      SeqH (progOf c) (hx (progOf c) r.2.1.evs).evs := by
    intro k hpk hrk
    have hkcb : parkCb th.park = kCb k := by
      rcases hpk with hp | ⟨l, hp⟩
      · rw [hp]; cases k <;> rfl
      · have hlock : kontLock k = some l := by have := hok.2.2; rw [hp] at this; exact this
        rw [hp]
        cases k <;> first | rfl | (simp [kontLock] at hlock)
    obtain ⟨cop, hcop, hkf⟩ : ∃ cop, th.prog[th.pc]? = some cop ∧ KontFor cop k := by
      have := hcb.pf
      rcases hpk with hp | ⟨l, hp⟩ <;> rw [hp] at this <;> exact this
    have hcnt : cbN t (stepSt c t th).evs = retU (progOf c) t (stepSt c t th).evs + kCb k := by
      rw [← hkcb]; exact hcb.cnt
    have hl := resume_loopr (progs := progOf c) (t := t) (H0 := history c) c.P hmono0 hpast0 hcnt hcop hkf
    have hs1 : SeqH (progOf c) (hx (progOf c) (resume c.P t (stepSt c t th) k).1.evs).evs := by
      obtain ⟨new, e, q, _⟩ := resume_tr c.P t (stepSt c t th) k
      rw [e, (hx_quiet (progOf c) t (stepSt c t th).evs new q).1]
      exact hseq0
    rw [hrk] at hdied ⊢
    exact loop_seq th hprog (history c) _ _ _ _ hl hs1 hdied
  cases hp : th.park with
  | finished => exact absurd hp hnf
  | start =>
    have hr' := hr
    unfold runThread at hr'
    rw [hp] at hr'
    simp only at hr'
    cases hop : th.prog[0]? with
    | none =>
      rw [hop] at hr'
      simp only at hr'
      rw [hr']
      exact hseq0
    | some op =>
      rw [hop] at hr'
      simp only at hr'
      have hl := begin_ret (progs := progOf c) (t := t) (prog := th.prog) (H0 := history c)
        (s := stepSt c t th) (j := 0) hmono0 (fun i _ _ hi => absurd hi (Nat.not_lt_zero i)) hop
      have hs1 : SeqH (progOf c) (hx (progOf c) (startOp t ((stepSt c t th).note t (.inv 0)) op).1.evs).evs := by
        obtain ⟨new, e, q, _⟩ := startOp_tr t ((stepSt c t th).note t (.inv 0)) op
        rw [e, hx_silent (progOf c) _ new q]
        show SeqH (progOf c) (hx (progOf c) (Ev.note t (.inv 0) :: (stepSt c t th).evs)).evs
        rw [hx_cons]
        apply hxStep_seq (progOf c) _ _ hseq0
        intro t' j he i' cop' op' hlt
        cases he
        exact absurd hlt (Nat.not_lt_zero i')
      rw [hr'] at hdied ⊢
      exact loop_seq th hprog (history c) _ _ _ _ hl hs1 hdied
  | want l k => exact resumed k (Or.inr ⟨l, hp⟩) (by rw [hr]; unfold runThread; rw [hp])
  | yielded k => exact resumed k (Or.inl hp) (by rw [hr]; unfold runThread; rw [hp])

/-- **the history of every reachable configuration is thread-sequential** -/
theorem reachable_seq (P : Params K) (tree : Tree K V) (progs : List (List (COp K V)))
    (ht : TreeOk none tree) (ho : tree.order = P.order) (hp : PadOk P) (hd : Disciplined progs)
    (hdel : 4 ≤ tree.order ∨ NoDelete progs)
    (c : Config K V) (hr : Reachable (Config.init P tree progs) c) : SeqH (progOf c) (history c) := by
  have key : (∀ j b, c.threads[j]? = some b → CbOk c j b) ∧ (∀ j b, c.threads[j]? = some b → RetOk c j b) ∧
      SeqH (progOf c) (history c) := by
    induction hr with
    | refl =>
      refine ⟨?_, ?_, SeqH.nil _⟩
      · intro j b hj
        have hm : b ∈ (Config.init P tree progs).threads := List.mem_of_getElem? hj
        simp only [Config.init, List.mem_map] at hm
        obtain ⟨p, _, e⟩ := hm
        subst e
        exact ⟨rfl, rfl⟩
      · intro j b hj
        have hm : b ∈ (Config.init P tree progs).threads := List.mem_of_getElem? hj
        simp only [Config.init, List.mem_map] at hm
        obtain ⟨p, _, e⟩ := hm
        subst e
        exact ⟨fun i _ _ hi => absurd hi (Nat.not_lt_zero i), fun h => by cases h⟩
    | @step c1 c2 t hr1 hs ih =>
      have hinv := reachable_cinv P tree progs ht ho hp hd hdel c1 hr1
      exact ⟨step_cb c1 c2 t hs hinv ih.1, step_ret c1 c2 t hs hinv ih.1 ih.2.1,
        step_seq c1 c2 t hs hinv ih.1 ih.2.1 ih.2.2⟩
  exact key.2.2

/-- **program order is real-time order**: an earlier map operation of the same thread is settled
    before a later call of that thread that has been invoked -/
theorem settled_of_program_order (P : Params K) (tree : Tree K V) (progs : List (List (COp K V)))
    (ht : TreeOk none tree) (ho : tree.order = P.order) (hp : PadOk P) (hd : Disciplined progs)
    (hdel : 4 ≤ tree.order ∨ NoDelete progs)
    (c : Config K V) (hr : Reachable (Config.init P tree progs) c)
    {t i' i : Nat} (hlt : i' < i) {p : List (COp K V)} {cop' : COp K V} {op' : Op K V}
    (hpt : progs[t]? = some p) (hpi : p[i']? = some cop') (hop : opOf cop' = some op')
    {op : Op K V} (hinv : HEv.inv t i op ∈ history c) : SettledBefore (history c) t i' t i := by
  have hs := reachable_seq P tree progs ht ho hp hd hdel c hr
  obtain ⟨b, hb⟩ := List.mem_iff_getElem?.1 hinv
  have hc : (progOf c t)[i']? = some cop' := by
    rw [progOf_reachable P tree progs c hr t, hpt]; exact hpi
  obtain ⟨a, out, hab, ha⟩ := hs t b i op hb i' cop' op' hlt hc hop
  exact .inr ⟨out, op, a, b, hab, ha, hb⟩

end Gobptree.Conc
