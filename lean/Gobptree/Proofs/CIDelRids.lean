/-
  Separator invariant for Delete, part 2: the search path as a list of identities (`rids`),
  the separator invariant as a recursive predicate on nodes (`SepN`), how both behave under
  a rewrite of one identity, and the bridges to `OnRoute` and `ISepW`.
-/
import Gobptree.Proofs.CIDelList

namespace Gobptree.Conc
open Gobptree

variable {K V : Type} {lt : K → K → Bool}

/-! ### the search path as identities -/

/-- identities on the search path of `key` below (and including) a node -/
def rids (lt : K → K → Bool) (key : K) : (d : Nat) → Node K V d → List Nat
  | 0, (l : Leaf K V) => [l.id]
  | d + 1, (i : Inner K (Node K V d)) =>
    i.id :: (match i.kids[searchLE lt key i.runts]? with
      | some c => rids lt key d c
      | none => [])

theorem rids_zero (key : K) (l : Leaf K V) : rids (V := V) lt key 0 l = [l.id] := rfl

theorem rids_mk (key : K) {d : Nat} (id : Nat) (runts : List K) (kids : List (Node K V d)) :
    rids lt key (d + 1) (Inner.mk id runts kids : Inner K (Node K V d)) =
      id :: (match kids[searchLE lt key runts]? with
        | some c => rids lt key d c
        | none => []) := rfl

theorem rids_succ (key : K) {d : Nat} (i : Inner K (Node K V d)) :
    rids lt key (d + 1) i =
      i.id :: (match i.kids[searchLE lt key i.runts]? with
        | some c => rids lt key d c
        | none => []) := rfl

theorem rids_succ_of (key : K) {d : Nat} (i : Inner K (Node K V d)) (c : Node K V d)
    (hc : i.kids[searchLE lt key i.runts]? = some c) :
    rids lt key (d + 1) i = i.id :: rids lt key d c := by
  rw [rids_succ, hc]

theorem rids_head (key : K) : ∀ {d : Nat} (n : Node K V d), ∃ tl, rids lt key d n = Node.id n :: tl
  | 0, _ => ⟨[], rfl⟩
  | _ + 1, _ => ⟨_, rfl⟩

/-- the kid below an inner node on the path, as a membership statement -/
theorem mem_rids_succ (key : K) {d : Nat} (i : Inner K (Node K V d)) (x : Nat)
    (hx : x ∈ rids lt key (d + 1) i) (hne : x ≠ i.id) :
    ∃ c, i.kids[searchLE lt key i.runts]? = some c ∧ x ∈ rids lt key d c := by
  rw [rids_succ] at hx
  rcases List.mem_cons.1 hx with hx | hx
  · exact absurd hx hne
  · cases hc : i.kids[searchLE lt key i.runts]? with
    | none => rw [hc] at hx; cases hx
    | some c => rw [hc] at hx; exact ⟨c, rfl, hx⟩

theorem routeB_fst (key : K) : ∀ (d : Nat) (lo hi : Option K) (n : Node K V d), ParN d n →
    (routeB lt key d lo hi n).map Prod.fst = rids lt key d n := by
  intro d
  induction d with
  | zero => intro lo hi n _; rfl
  | succ d ih =>
    intro lo hi (n : Inner K (Node K V d)) hpar
    obtain ⟨s, c, _, hc, hpc, e⟩ := routeB_inner (lt := lt) key lo hi n hpar
    rw [e, List.map_cons, rids_succ_of key n c hc, ih _ _ c hpc]

theorem onRoute_iff {t : Tree K V} (hpar : ParTree t) (key : K) (x : Nat) :
    OnRoute lt t key x ↔ x ∈ rids lt key t.depth t.root := by
  rw [← routeB_fst key t.depth none none t.root hpar]
  constructor
  · rintro ⟨lo, hi, hm⟩
    exact List.mem_map.2 ⟨_, hm, rfl⟩
  · intro hm
    obtain ⟨e, he, rfl⟩ := List.mem_map.1 hm
    exact ⟨e.2.1, e.2.2, he⟩

/-- paths of identities outside `W` survive -/
def RStab (lt : K → K → Bool) (W : Nat → Prop) (t t' : Tree K V) : Prop :=
  ∀ key x, ¬ W x → OnRoute lt t key x → OnRoute lt t' key x

theorem RStab.refl (W : Nat → Prop) (t : Tree K V) : RStab lt W t t := fun _ _ _ h => h

theorem RStab.trans {W : Nat → Prop} {t1 t2 t3 : Tree K V} (h1 : RStab lt W t1 t2) (h2 : RStab lt W t2 t3) :
    RStab lt W t1 t3 := fun key x hx h => h2 key x hx (h1 key x hx h)

/-- **paths under a rewrite of identity `id`** -/
theorem rids_modify (key : K) (id : Nat) (W : Nat → Prop) : ∀ (d : Nat) (n : Node K V d) (d' : Nat) (m : Node K V d'),
    findNode id d n = some ⟨d', m⟩ → (idsOf n).Nodup → ParN d n →
    ∀ f : (d : Nat) → Node K V d → Node K V d,
      (∀ x, ¬ W x → x ∈ rids lt key d' m → x ∈ rids lt key d' (f d' m)) →
      ∀ x, ¬ W x → x ∈ rids lt key d n → x ∈ rids lt key d (modifyNode id f d n) := by
  intro d
  induction d with
  | zero =>
    intro (n : Leaf K V) d' m hf _ _ f hm x hW hx
    have hf' : (if n.id = id then some (⟨0, n⟩ : AnyNode K V) else none) = some ⟨d', m⟩ := hf
    by_cases hid : n.id = id
    · simp only [hid, if_true, Option.some.injEq] at hf'
      cases hf'
      rw [modifyNode_zero_eq id f n hid]
      exact hm x hW hx
    · simp [hid] at hf'
  | succ d ih =>
    intro (n : Inner K (Node K V d)) d' m hf hnd hpar f hm x hW hx
    by_cases hid : n.id = id
    · have hf' : (if n.id = id then some (⟨d + 1, n⟩ : AnyNode K V)
          else n.kids.findSome? (findNode id d)) = some ⟨d', m⟩ := hf
      simp only [hid, if_true, Option.some.injEq] at hf'
      cases hf'
      rw [modifyNode_succ_eq id f n hid]
      exact hm x hW hx
    · obtain ⟨rA, k, rB, A, c, B, hr, hk, hl, hlB, hfc, hndc, hparc, hA, hB, _, _⟩ :=
        find_step id n hf hid hnd hpar
      rw [modifyNode_kid id f n A B c hid hk hA hB, rids_mk]
      rw [rids_succ] at hx
      rcases List.mem_cons.1 hx with hx | hx
      · rw [hx]; exact List.mem_cons_self
      · apply List.mem_cons_of_mem
        rw [hk] at hx
        by_cases hj : searchLE lt key n.runts = A.length
        · rw [hj] at hx ⊢
          have e1 : (A ++ c :: B)[A.length]? = some c := by simp
          have e2 : (A ++ modifyNode id f d c :: B)[A.length]? = some (modifyNode id f d c) := by simp
          rw [e1] at hx
          rw [e2]
          exact ih c d' m hfc hndc hparc f hm x hW hx
        · rw [← getElem?_replace_ne A B c (modifyNode id f d c) _ hj]
          exact hx

theorem Tree.rstab_modify {t : Tree K V} {id d' : Nat} {m : Node K V d'}
    (hf : t.find id = some ⟨d', m⟩) (hids : t.ids.Nodup) (hpar : ParTree t)
    (f : (d : Nat) → Node K V d → Node K V d) (hpar' : ParTree (t.modify id f)) (W : Nat → Prop)
    (hm : ∀ key x, ¬ W x → x ∈ rids lt key d' m → x ∈ rids lt key d' (f d' m)) :
    RStab lt W t (t.modify id f) := by
  intro key x hW hon
  rw [onRoute_iff hpar] at hon
  rw [onRoute_iff hpar']
  exact rids_modify key id W t.depth t.root d' m hf hids hpar f (hm key) x hW hon

/-! ### the separator invariant on nodes -/

/-- first separator of an inner node -/
def headKey : {d : Nat} → Node K V d → Option K
  | 0, _ => none
  | _ + 1, (i : Inner K _) => i.runts.head?

/-- separator `s` stored for kid `c` agrees with `c`'s first separator, or a lowering is in
    progress at `c` (inner kids only) -/
def headOK (lt : K → K → Bool) (Wit : Nat → K → Prop) : (d : Nat) → K → Node K V d → Prop
  | 0, _, _ => True
  | _ + 1, s, (c : Inner K _) =>
    (∃ s', c.runts.head? = some s' ∧ eqv lt s s' = true) ∨ Wit c.id s

def SepN (lt : K → K → Bool) (Wit : Nat → K → Prop) : (d : Nat) → Node K V d → Prop
  | 0, _ => True
  | d + 1, (i : Inner K (Node K V d)) =>
    (∀ e ∈ i.runts.zip i.kids, headOK lt Wit d e.1 e.2) ∧ ∀ c ∈ i.kids, SepN lt Wit d c

def SepTreeN (lt : K → K → Bool) (Wit : Nat → K → Prop) (t : Tree K V) : Prop := SepN lt Wit t.depth t.root

theorem SepN_succ (Wit : Nat → K → Prop) {d : Nat} (i : Inner K (Node K V d)) :
    SepN lt Wit (d + 1) i ↔
      (∀ e ∈ i.runts.zip i.kids, headOK lt Wit d e.1 e.2) ∧ ∀ c ∈ i.kids, SepN lt Wit d c := Iff.rfl

theorem headOK_succ (Wit : Nat → K → Prop) {d : Nat} (s : K) (c : Inner K (Node K V d)) :
    headOK lt Wit (d + 1) s c ↔ (∃ s', c.runts.head? = some s' ∧ eqv lt s s' = true) ∨ Wit c.id s := Iff.rfl

theorem headOK_congr (Wit : Nat → K → Prop) : ∀ {d : Nat} (s : K) (c c' : Node K V d),
    Node.id c' = Node.id c → headKey c' = headKey c → headOK lt Wit d s c → headOK lt Wit d s c' := by
  intro d
  cases d with
  | zero => intro _ _ _ _ _ _; trivial
  | succ d =>
    intro s (c : Inner K (Node K V d)) (c' : Inner K (Node K V d)) hid hh h
    have hid' : c'.id = c.id := hid
    have hh' : c'.runts.head? = c.runts.head? := hh
    rw [headOK_succ] at h ⊢
    rw [hid', hh']
    exact h

/-- a rewrite that keeps identity and first separator of the rewritten node keeps those of
    every node above it -/
theorem modify_top (id : Nat) (f : (d : Nat) → Node K V d → Node K V d) :
    ∀ {d : Nat} (c : Node K V d) {d' : Nat} (m : Node K V d'),
      findNode id d c = some ⟨d', m⟩ → Node.id (f d' m) = id → headKey (f d' m) = headKey m →
      Node.id (modifyNode id f d c) = Node.id c ∧ headKey (modifyNode id f d c) = headKey c := by
  intro d
  cases d with
  | zero =>
    intro (c : Leaf K V) d' m hf h1 h2
    have hf' : (if c.id = id then some (⟨0, c⟩ : AnyNode K V) else none) = some ⟨d', m⟩ := hf
    by_cases hid : c.id = id
    · simp only [hid, if_true, Option.some.injEq] at hf'
      cases hf'
      rw [modifyNode_zero_eq id f c hid]
      exact ⟨h1.trans hid.symm, h2⟩
    · simp [hid] at hf'
  | succ d =>
    intro (c : Inner K (Node K V d)) d' m hf h1 h2
    by_cases hid : c.id = id
    · have hf' : (if c.id = id then some (⟨d + 1, c⟩ : AnyNode K V)
          else c.kids.findSome? (findNode id d)) = some ⟨d', m⟩ := hf
      simp only [hid, if_true, Option.some.injEq] at hf'
      cases hf'
      rw [modifyNode_succ_eq id f c hid]
      exact ⟨h1.trans hid.symm, h2⟩
    · rw [modifyNode_succ_ne id f c hid]
      exact ⟨rfl, rfl⟩

/-- **the separator invariant under a rewrite of identity `id`** -/
theorem SepN_modify (Wit : Nat → K → Prop) (id : Nat) : ∀ (d : Nat) (n : Node K V d) (d' : Nat) (m : Node K V d'),
    findNode id d n = some ⟨d', m⟩ → (idsOf n).Nodup → ParN d n → SepN lt Wit d n →
    ∀ f : (d : Nat) → Node K V d → Node K V d,
      SepN lt Wit d' (f d' m) → Node.id (f d' m) = id → headKey (f d' m) = headKey m →
      SepN lt Wit d (modifyNode id f d n) := by
  intro d
  induction d with
  | zero =>
    intro _ _ _ _ _ _ _ _ _ _ _
    trivial
  | succ d ih =>
    intro (n : Inner K (Node K V d)) d' m hf hnd hpar hsep f h1 h2 h3
    by_cases hid : n.id = id
    · have hf' : (if n.id = id then some (⟨d + 1, n⟩ : AnyNode K V)
          else n.kids.findSome? (findNode id d)) = some ⟨d', m⟩ := hf
      simp only [hid, if_true, Option.some.injEq] at hf'
      cases hf'
      rw [modifyNode_succ_eq id f n hid]
      exact h1
    · obtain ⟨rA, k, rB, A, c, B, hr, hk, hl, hlB, hfc, hndc, hparc, hA, hB, _, _⟩ :=
        find_step id n hf hid hnd hpar
      rw [modifyNode_kid id f n A B c hid hk hA hB]
      obtain ⟨hs1, hs2⟩ := hsep
      rw [hr, hk, zip_decomp rA rB k A B c hl] at hs1
      rw [hk] at hs2
      obtain ⟨t1, t2⟩ := modify_top id f c m hfc h2 h3
      refine ⟨?_, ?_⟩
      · show ∀ e ∈ n.runts.zip (A ++ modifyNode id f d c :: B), headOK lt Wit d e.1 e.2
        rw [hr, zip_decomp rA rB k A B _ hl]
        intro e he
        rcases List.mem_append.1 he with he | he
        · exact hs1 e (List.mem_append_left _ he)
        · rcases List.mem_cons.1 he with rfl | he
          · exact headOK_congr Wit k c _ t1 t2 (hs1 (k, c) (by simp))
          · exact hs1 e (List.mem_append_right _ (List.mem_cons_of_mem _ he))
      · intro y hy
        have hy' : y ∈ A ++ modifyNode id f d c :: B := hy
        rcases List.mem_append.1 hy' with hy' | hy'
        · exact hs2 y (List.mem_append_left _ hy')
        · rcases List.mem_cons.1 hy' with rfl | hy'
          · exact ih c d' m hfc hndc hparc (hs2 c (by simp)) f h1 h2 h3
          · exact hs2 y (List.mem_append_right _ (List.mem_cons_of_mem _ hy'))

theorem SepN_find (Wit : Nat → K → Prop) (id : Nat) : ∀ (d : Nat) (n : Node K V d) (d' : Nat) (m : Node K V d'),
    findNode id d n = some ⟨d', m⟩ → SepN lt Wit d n → SepN lt Wit d' m := by
  intro d
  induction d with
  | zero =>
    intro (n : Leaf K V) d' m hf hs
    have hf' : (if n.id = id then some (⟨0, n⟩ : AnyNode K V) else none) = some ⟨d', m⟩ := hf
    by_cases hid : n.id = id
    · simp only [hid, if_true, Option.some.injEq] at hf'
      cases hf'
      exact hs
    · simp [hid] at hf'
  | succ d ih =>
    intro (n : Inner K (Node K V d)) d' m hf hs
    by_cases hid : n.id = id
    · have hf' : (if n.id = id then some (⟨d + 1, n⟩ : AnyNode K V)
          else n.kids.findSome? (findNode id d)) = some ⟨d', m⟩ := hf
      simp only [hid, if_true, Option.some.injEq] at hf'
      cases hf'
      exact hs
    · rw [findNode_succ_ne id n hid] at hf
      obtain ⟨c, hc, hfc⟩ := List.exists_of_findSome?_eq_some hf
      exact ih c d' m hfc (hs.2 c hc)

theorem Tree.sep_modify {Wit : Nat → K → Prop} {t : Tree K V} {id d' : Nat} {m : Node K V d'}
    (hf : t.find id = some ⟨d', m⟩) (hids : t.ids.Nodup) (hpar : ParTree t) (hsep : SepTreeN lt Wit t)
    (f : (d : Nat) → Node K V d → Node K V d)
    (h1 : SepN lt Wit d' (f d' m)) (h2 : Node.id (f d' m) = id) (h3 : headKey (f d' m) = headKey m) :
    SepTreeN lt Wit (t.modify id f) :=
  SepN_modify Wit id t.depth t.root d' m hf hids hpar hsep f h1 h2 h3

theorem Tree.sep_find {Wit : Nat → K → Prop} {t : Tree K V} {id d' : Nat} {m : Node K V d'}
    (hf : t.find id = some ⟨d', m⟩) (hsep : SepTreeN lt Wit t) : SepN lt Wit d' m :=
  SepN_find Wit id t.depth t.root d' m hf hsep

/-! ### bridges to `ISepW` -/

theorem sepN_of_isep {Wit : Nat → K → Prop} {t : Tree K V} (hn : t.ids.Nodup) (his : ISepW lt Wit t) :
    ∀ (d : Nat) (n : Node K V d), (∀ p ∈ flat n, p ∈ t.flat) → SepN lt Wit d n := by
  intro d
  induction d with
  | zero => intro _ _; trivial
  | succ d ih =>
    intro (n : Inner K (Node K V d)) hsub
    have hsubk : ∀ c ∈ n.kids, ∀ p ∈ flat c, p ∈ t.flat := by
      intro c hc p hp
      apply hsub
      rw [flat_succ (d := d) n]
      exact List.mem_cons_of_mem _ (List.mem_flatMap.2 ⟨c, hc, hp⟩)
    refine ⟨?_, fun c hc => ih c (hsubk c hc)⟩
    intro e he
    obtain ⟨j, hj⟩ := List.mem_iff_getElem?.1 he
    obtain ⟨hj1, hj2⟩ := List.getElem?_zip_eq_some.1 hj
    cases d with
    | zero => trivial
    | succ d0 =>
      have hc : e.2 ∈ n.kids := List.mem_of_getElem? hj2
      have l1 : t.look n.id = some (shallow (d := d0 + 2) n) :=
        (look_eq_some_iff hn _ _).2 (hsub _ (self_mem_flat (d := d0 + 2) n))
      have l2 : t.look (Node.id e.2) = some (shallow e.2) :=
        (look_eq_some_iff hn _ _).2 (hsubk e.2 hc _ (self_mem_flat e.2))
      have l3 : (shallow (d := d0 + 2) n).kids[j]? = some (Node.id e.2) :=
        (shallow_kids_getElem n j _).2 ⟨e.2, hj2, rfl⟩
      exact his n.id j (Node.id e.2) _ _ e.1 l1 l3 l2 (Nat.succ_pos _) hj1

theorem sepTreeN_of_isep {Wit : Nat → K → Prop} {t : Tree K V} (hn : t.ids.Nodup) (his : ISepW lt Wit t) :
    SepTreeN lt Wit t :=
  sepN_of_isep hn his t.depth t.root (fun _ hp => hp)

theorem isep_of_sepTreeN {Wit : Nat → K → Prop} {t : Tree K V} (hn : t.ids.Nodup) (hsep : SepTreeN lt Wit t) :
    ISepW lt Wit t := by
  intro g j r sg sr s hg hkj hr hpos hsj
  obtain ⟨a, hf, hsh, _⟩ := find_some_of_look hg
  obtain ⟨d', m⟩ := a
  have hsm : SepN lt Wit d' m := Tree.sep_find hf hsep
  obtain ⟨_, _, L, R, hflat⟩ := find_facts hf
  cases d' with
  | zero =>
    have : sg.kids = [] := by rw [← hsh]; rfl
    rw [this] at hkj
    cases hkj
  | succ d =>
    have hsh' : shallow (d := d + 1) m = sg := hsh
    rw [← hsh'] at hkj hsj
    obtain ⟨k, hk, hkid⟩ := (shallow_kids_getElem (m : Inner K (Node K V d)) j r).1 hkj
    have hsj' : (m : Inner K (Node K V d)).runts[j]? = some s := hsj
    have hmem : (Node.id k, shallow k) ∈ t.flat := by
      rw [hflat]
      apply List.mem_append_left
      apply List.mem_append_right
      exact kid_mem_flat (m : Inner K (Node K V d)) k (List.mem_of_getElem? hk)
    have hlk : t.look r = some (shallow k) := by
      rw [← hkid]; exact (look_eq_some_iff hn _ _).2 hmem
    rw [hlk] at hr
    injection hr with hr
    have hz : ((s, k) : K × Node K V d) ∈ (m : Inner K (Node K V d)).runts.zip (m : Inner K (Node K V d)).kids :=
      List.mem_iff_getElem?.2 ⟨j, List.getElem?_zip_eq_some.2 ⟨hsj', hk⟩⟩
    have hok := hsm.1 (s, k) hz
    cases d with
    | zero =>
      rw [← hr] at hpos
      exact absurd hpos (Nat.lt_irrefl 0)
    | succ d0 =>
      rw [← hr, ← hkid]
      exact hok

end Gobptree.Conc
