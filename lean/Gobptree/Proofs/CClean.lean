/-
  `FinishedClean` is a THEOREM for programs that close their cursors.

  `Closing progs` (static: every program is accepted by the discipline automaton and ends in
  its state `N`, i.e. every `NewScanner` is eventually followed by a `Close`) implies, in every
  reachable configuration, that a finished thread holds no mutex.  Hence for such programs
  every maximal execution ends with every operation returned and the owner table empty — no
  hypothesis about the run is left.

  Method: the per-thread invariant `CloseOk` (`CCleanDefs`) is carried through a step next to
  `CInv` (`step_cinv` gives `dead = false` after the step, so the stepping thread did not
  panic); a finished thread's `held` is its `cursorLocks` (`ThreadOk`, part of `CInv`), which
  `CloseOk` says is empty.
-/
import Gobptree.Proofs.CCleanDefs
import Gobptree.Proofs.CTerminate

namespace Gobptree.Conc
open Gobptree

variable {K V : Type}

/-- the closing invariant of a configuration -/
def CloseInv (c : Config K V) : Prop := ∀ th ∈ c.threads, CloseOk th

theorem init_close (P : Params K) (tree : Tree K V) (progs : List (List (COp K V))) (hcl : Closing progs) :
    CloseInv (Config.init P tree progs) := by
  intro th hth
  simp only [Config.init, List.mem_map] at hth
  obtain ⟨p, hp, rfl⟩ := hth
  exact ⟨hcl p hp, rfl⟩

/-- **one scheduler step preserves the closing invariant** -/
theorem step_close (c c' : Config K V) (t : Nat) (hstep : c.step t = some c') (hinv : CInv c)
    (hdead : c'.dead = false) (hcl : CloseInv c) : CloseInv c' := by
  obtain ⟨th, ht, hen, r, hr, hc'⟩ := step_shape hstep
  have htm : th ∈ c.threads := List.mem_of_getElem? ht
  have hdied : r.2.2 = false := by
    rw [hc'] at hdead
    simp only [Bool.or_eq_false_iff] at hdead
    exact hdead.2
  have hnew : CloseOk r.1 := by
    rw [hr] at hdied ⊢
    exact runThread_close c.P t th (stepSt c t th) rfl rfl (hinv.s.cfg th htm)
      (cursor_ge_of_ok (hinv.s.threads th htm).2) (hcl th htm) hdied
  intro b hb
  rw [hc'] at hb
  rcases List.mem_or_eq_of_mem_set hb with h | h
  · exact hcl b h
  · rw [h]; exact hnew

/-- the closing invariant holds in every reachable configuration of closing programs -/
theorem reachable_close (P : Params K) (tree : Tree K V) (progs : List (List (COp K V)))
    (ht : TreeOk none tree) (ho : tree.order = P.order) (hp : PadOk P) (hcl : Closing progs)
    (hdel : 4 ≤ tree.order ∨ NoDelete progs)
    (c : Config K V) (hr : Reachable (Config.init P tree progs) c) : CInv c ∧ CloseInv c := by
  induction hr with
  | refl => exact ⟨init_cinv P tree progs ht ho hp hcl.disciplined hdel, init_close P tree progs hcl⟩
  | @step c1 c2 t _ hs ih =>
    have h2 := (step_cinv blocks_ok c1 c2 t hs ih.1).1
    exact ⟨h2, step_close c1 c2 t hs ih.1 h2.alive ih.2⟩

/-- a finished thread that satisfies the bookkeeping and the closing invariant holds nothing -/
theorem finished_held_nil {th : Thread K V} (hok : ThreadOk th) (hcl : CloseOk th) (hf : th.park = .finished) :
    th.held = [] := by
  have h1 := hok.1
  unfold CloseOk at hcl
  rw [hf] at hcl h1
  rw [hcl] at h1
  exact List.Perm.eq_nil h1

/-- **`FinishedClean` holds in every reachable configuration of programs that close their
    cursors**: a thread that has run off the end of its program holds no mutex. -/
theorem reachable_finishedClean (P : Params K) (tree : Tree K V) (progs : List (List (COp K V)))
    (ht : TreeOk none tree) (ho : tree.order = P.order) (hp : PadOk P) (hcl : Closing progs)
    (hdel : 4 ≤ tree.order ∨ NoDelete progs)
    (c : Config K V) (hr : Reachable (Config.init P tree progs) c) : FinishedClean c := by
  obtain ⟨hinv, hc⟩ := reachable_close P tree progs ht ho hp hcl hdel c hr
  intro th hth hf
  exact finished_held_nil (hinv.s.cfg th hth) (hc th hth) hf

/-- hence, for closing programs, no reachable configuration with an unfinished thread is
    deadlocked — the client-side proviso of `C06_no_deadlock` is discharged -/
theorem no_deadlock_closing (P : Params K) (tree : Tree K V) (progs : List (List (COp K V)))
    (ht : TreeOk none tree) (ho : tree.order = P.order) (hp : PadOk P) (hcl : Closing progs)
    (hdel : 4 ≤ tree.order ∨ NoDelete progs)
    (c : Config K V) (hr : Reachable (Config.init P tree progs) c) (hu : c.unfinished = true) :
    c.enabledSet ≠ [] := by
  have hinv := (reachable_close P tree progs ht ho hp hcl hdel c hr).1
  exact ranked_not_deadlocked (posRank c.tree) c hinv.s.owner (sinv_ranked c hinv.s)
    (reachable_finishedClean P tree progs ht ho hp hcl hdel c hr) hu

/-- for programs that close their cursors, EVERY maximal execution — any schedule, run until nothing is
    enabled, which happens within `termBound c` steps — ends with every operation of every thread returned -/
theorem all_operations_return_closing (P : Params K) (tree : Tree K V) (progs : List (List (COp K V)))
    (ht : TreeOk none tree) (ho : tree.order = P.order) (hp : PadOk P)
    (hcl : Closing progs) (hdel : 4 ≤ tree.order ∨ NoDelete progs)
    (c : Config K V) (hr : Reachable (Config.init P tree progs) c)
    (ts : List Nat) (c' : Config K V) (hrun : c.run ts = (c', none)) (hstuck : c'.enabledSet = []) :
    c'.unfinished = false :=
  all_operations_return P tree progs ht ho hp hcl.disciplined hdel c hr ts c' hrun hstuck
    (reachable_finishedClean P tree progs ht ho hp hcl hdel c' (reachable_of_run _ ts c c' hr hrun))

/-- in a configuration whose threads have all finished cleanly, the owner table is empty -/
theorem owner_nil_of_finished (c : Config K V) (ho : OwnerOk c) (hf : FinishedClean c)
    (hu : c.unfinished = false) : c.owner = [] := by
  apply List.eq_nil_iff_forall_not_mem.2
  intro ⟨l, t⟩ hmem
  have hpos : 0 < c.owner.count (l, t) := List.count_pos_iff.mpr hmem
  rw [ho.1 l t] at hpos
  unfold heldOf at hpos
  cases hth : c.threads[t]? with
  | none => rw [hth] at hpos; simp at hpos
  | some th =>
    rw [hth] at hpos
    have hm : th ∈ c.threads := List.mem_of_getElem? hth
    have hfin : th.park = .finished := by
      unfold Config.unfinished at hu
      have := (List.any_eq_false.1 hu) th hm
      cases hp : th.park with
      | finished => rfl
      | start => rw [hp] at this; simp at this
      | want l k => rw [hp] at this; simp at this
      | yielded k => rw [hp] at this; simp at this
    have hpos' : 0 < th.held.count l := hpos
    rw [hf th hm hfin] at hpos'
    simp at hpos'

/-- and at that point no mutex is held at all: the owner table is empty, and every thread's
    held list is empty -/
theorem nothing_held_at_end (P : Params K) (tree : Tree K V) (progs : List (List (COp K V)))
    (ht : TreeOk none tree) (ho : tree.order = P.order) (hp : PadOk P)
    (hcl : Closing progs) (hdel : 4 ≤ tree.order ∨ NoDelete progs)
    (c : Config K V) (hr : Reachable (Config.init P tree progs) c)
    (ts : List Nat) (c' : Config K V) (hrun : c.run ts = (c', none)) (hstuck : c'.enabledSet = []) :
    c'.owner = [] ∧ ∀ th ∈ c'.threads, th.held = [] := by
  have hr' := reachable_of_run _ ts c c' hr hrun
  have hinv := (reachable_close P tree progs ht ho hp hcl hdel c' hr').1
  have hfc := reachable_finishedClean P tree progs ht ho hp hcl hdel c' hr'
  have hu := all_operations_return_closing P tree progs ht ho hp hcl hdel c hr ts c' hrun hstuck
  refine ⟨owner_nil_of_finished c' hinv.s.owner hfc hu, ?_⟩
  intro th hm
  apply hfc th hm
  unfold Config.unfinished at hu
  have := (List.any_eq_false.1 hu) th hm
  cases hp' : th.park with
  | finished => rfl
  | start => rw [hp'] at this; simp at this
  | want l k => rw [hp'] at this; simp at this
  | yielded k => rw [hp'] at this; simp at this

/-- `Closing` is necessary for the guarantee, not only sufficient: the one-thread program
    `[NewScanner k]` is disciplined but not closing -/
theorem disciplined_not_closing (k : K) :
    Disciplined ([[COp.ns k]] : List (List (COp K V))) ∧ ¬ Closing ([[COp.ns k]] : List (List (COp K V))) := by
  refine ⟨?_, ?_⟩
  · intro p hp
    simp only [List.mem_singleton] at hp
    subst hp
    rfl
  · intro h
    have := h [COp.ns k] (by simp)
    simp [endSt, discStep] at this

#print axioms reachable_finishedClean
#print axioms all_operations_return_closing
#print axioms nothing_held_at_end
#print axioms no_deadlock_closing
#print axioms Closing.disciplined

end Gobptree.Conc
