/-
  Locality lemmas for the specification: an operation on key `k` only concerns
  the stretch of the association list whose keys are not all below / all above `k`.
-/
import Gobptree.Spec
import Gobptree.Proofs.Order

namespace Gobptree

variable {K V : Type} {lt : K → K → Bool}

def AllLt (lt : K → K → Bool) (l : List (K × V)) (k : K) : Prop := ∀ p ∈ l, lt p.1 k = true
def AllGt (lt : K → K → Bool) (l : List (K × V)) (k : K) : Prop := ∀ p ∈ l, lt k p.1 = true

namespace Spec

theorem lookup_append_left (h : SWO lt) (L M : List (K × V)) (k : K) (hL : AllLt lt L k) :
    lookup lt (L ++ M) k = lookup lt M k := by
  unfold lookup
  rw [List.find?_append]
  have : L.find? (fun p => eqv lt k p.1) = none := by
    rw [List.find?_eq_none]
    intro p hp
    have := hL p hp
    simp [eqv, this]
  rw [this]; simp

theorem lookup_append_right (h : SWO lt) (M R : List (K × V)) (k : K) (hR : AllGt lt R k) :
    lookup lt (M ++ R) k = lookup lt M k := by
  unfold lookup
  rw [List.find?_append]
  have : R.find? (fun p => eqv lt k p.1) = none := by
    rw [List.find?_eq_none]
    intro p hp
    have := hR p hp
    simp [eqv, this]
  rw [this]; simp

theorem insert_append_left (h : SWO lt) (L M : List (K × V)) (k : K) (v : V) (hL : AllLt lt L k) :
    insert lt (L ++ M) k v = L ++ insert lt M k v := by
  induction L with
  | nil => rfl
  | cons p L ih =>
    obtain ⟨k', v'⟩ := p
    have h1 : lt k' k = true := hL (k', v') (by simp)
    have h2 : lt k k' = false := h.asymm h1
    have hL' : AllLt lt L k := fun q hq => hL q (by simp [hq])
    simp [insert, h1, h2, ih hL']

theorem insert_append_right (h : SWO lt) (M R : List (K × V)) (k : K) (v : V) (hR : AllGt lt R k) :
    insert lt (M ++ R) k v = insert lt M k v ++ R := by
  induction M with
  | nil =>
    cases R with
    | nil => rfl
    | cons p R =>
      obtain ⟨k', v'⟩ := p
      have h1 : lt k k' = true := hR (k', v') (by simp)
      simp [insert, h1]
  | cons p M ih =>
    obtain ⟨k', v'⟩ := p
    simp only [List.cons_append, insert]
    split
    · rfl
    · split
      · rw [ih]; rfl
      · rfl

theorem erase_append (L M : List (K × V)) (k : K) :
    erase lt (L ++ M) k = erase lt L k ++ erase lt M k := by
  simp [erase]

theorem erase_of_allLt (h : SWO lt) (L : List (K × V)) (k : K) (hL : AllLt lt L k) : erase lt L k = L := by
  unfold erase
  rw [List.filter_eq_self]
  intro p hp
  have := hL p hp
  simp [eqv, this]

theorem erase_of_allGt (h : SWO lt) (L : List (K × V)) (k : K) (hL : AllGt lt L k) : erase lt L k = L := by
  unfold erase
  rw [List.filter_eq_self]
  intro p hp
  have := hL p hp
  simp [eqv, this]

theorem from_append (L M : List (K × V)) (s : K) :
    «from» lt (L ++ M) s = «from» lt L s ++ «from» lt M s := by
  simp [«from»]

theorem from_of_allLt (L : List (K × V)) (s : K) (hL : AllLt lt L s) : «from» lt L s = [] := by
  unfold «from»
  rw [List.filter_eq_nil_iff]
  intro p hp
  simp [hL p hp]

theorem from_of_allGe (L : List (K × V)) (s : K) (hL : ∀ p ∈ L, lt p.1 s = false) : «from» lt L s = L := by
  unfold «from»
  rw [List.filter_eq_self]
  intro p hp
  simp [hL p hp]

end Spec
end Gobptree
