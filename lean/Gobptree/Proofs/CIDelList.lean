/-
  Separator invariant for Delete, part 1: list-level facts about the clamped search
  `searchLE` on concatenations — routing through a window of adjacent separators, and
  routing over two levels as routing in the concatenated separator list.
-/
import Gobptree.Proofs.CIDefs
import Gobptree.Proofs.CKDel

namespace Gobptree.Conc
open Gobptree

variable {K V : Type} {lt : K → K → Bool}

/-! ### characterisation of `searchLE` -/

/-- the index of the last separator not above the key — or 0 when there is none -/
theorem searchLE_spec (h : SWO lt) (key : K) (rA rB : List K) (k : K)
    (hs : Sorted lt (rA ++ k :: rB)) (h1 : rA ≠ [] → lt key k = false) (h2 : ∀ x ∈ rB, lt key x = true) :
    searchLE lt key (rA ++ k :: rB) = rA.length := by
  cases hk : lt key k with
  | false => exact searchLE_eq_of h key rA rB k hs hk h2
  | true =>
    cases rA with
    | nil => exact searchLE_zero_of_lt h key _ hs k rfl hk
    | cons a rA' =>
      have := h1 (by simp)
      rw [hk] at this
      cases this

theorem searchLE_decomp (key : K) (l : List K) (hne : l ≠ []) :
    ∃ a x b, l = a ++ x :: b ∧ a.length = searchLE lt key l :=
  split_at l _ (searchLE_lt_length key l hne)

theorem sorted_append_left {l r : List K} (hs : Sorted lt (l ++ r)) : Sorted lt l :=
  (List.pairwise_append.1 hs).1

theorem sorted_append_right {l r : List K} (hs : Sorted lt (l ++ r)) : Sorted lt r :=
  (List.pairwise_append.1 hs).2.1

theorem sorted_cross {l r : List K} (hs : Sorted lt (l ++ r)) : ∀ x ∈ l, ∀ y ∈ r, lt x y = true :=
  (List.pairwise_append.1 hs).2.2

/-- separators to the right that are all above the key do not matter -/
theorem searchLE_append_left (h : SWO lt) (key : K) (l r : List K) (hs : Sorted lt (l ++ r))
    (hne : l ≠ []) (hr : ∀ x ∈ r, lt key x = true) :
    searchLE lt key (l ++ r) = searchLE lt key l := by
  obtain ⟨a, x, b, e, ha⟩ := searchLE_decomp (lt := lt) key l hne
  have hsl : Sorted lt (a ++ x :: b) := by rw [← e]; exact sorted_append_left hs
  obtain ⟨f1, f2⟩ := searchLE_split_facts h key a b x hsl (by rw [← e]; exact ha.symm)
  rw [← ha]
  have e2 : l ++ r = a ++ x :: (b ++ r) := by rw [e]; simp
  rw [e2]
  apply searchLE_spec h key a (b ++ r) x (by rw [← e2]; exact hs) f1
  intro y hy
  rcases List.mem_append.1 hy with hy | hy
  · exact f2 y hy
  · exact hr y hy

/-- separators to the left of one that is not above the key only shift the index -/
theorem searchLE_append_right (h : SWO lt) (key : K) (l : List K) (r0 : K) (r : List K)
    (hs : Sorted lt (l ++ r0 :: r)) (h0 : lt key r0 = false) :
    searchLE lt key (l ++ r0 :: r) = l.length + searchLE lt key (r0 :: r) := by
  obtain ⟨a, x, b, e, ha⟩ := searchLE_decomp (lt := lt) key (r0 :: r) (by simp)
  have hsr : Sorted lt (a ++ x :: b) := by rw [← e]; exact sorted_append_right hs
  obtain ⟨f1, f2⟩ := searchLE_split_facts h key a b x hsr (by rw [← e]; exact ha.symm)
  rw [← ha]
  have e2 : l ++ r0 :: r = (l ++ a) ++ x :: b := by rw [e]; simp
  rw [e2]
  have := searchLE_spec h key (l ++ a) b x (by rw [← e2]; exact hs) ?_ f2
  · rw [this]; simp
  · intro _
    cases a with
    | nil =>
      have : r0 = x := by
        have := e
        simp only [List.nil_append, List.cons.injEq] at this
        exact this.1
      rw [← this]; exact h0
    | cons a0 a' => exact f1 (by simp)

/-- a key below the head of a sorted list is below all of it -/
theorem lt_all_of_lt_head (h : SWO lt) (key : K) (r0 : K) (r : List K) (hs : Sorted lt (r0 :: r))
    (h0 : lt key r0 = true) : ∀ x ∈ r0 :: r, lt key x = true := by
  intro x hx
  rcases List.mem_cons.1 hx with rfl | hx
  · exact h0
  · exact h.trans _ _ _ h0 ((List.pairwise_cons.1 hs).1 x hx)

/-! ### a window of separators inside a parent -/

/-- where a key goes relative to a window that starts at separator `k1` and is followed by
    the separators `rB`, in a parent whose separators before the window are `rA` -/
inductive WinCase (lt : K → K → Bool) (key : K) (rA : List K) (k1 : K) (rB : List K) : Prop where
  | before (hne : rA ≠ []) (hk : lt key k1 = true)
  | after (b0 : K) (rB' : List K) (e : rB = b0 :: rB') (hk : lt key b0 = false)
  | inside (h1 : rA ≠ [] → lt key k1 = false) (h2 : ∀ x ∈ rB, lt key x = true)

theorem winCase (h : SWO lt) (key : K) (rA : List K) (k1 : K) (rB : List K) (hs : Sorted lt rB) :
    WinCase lt key rA k1 rB := by
  by_cases c1 : rA ≠ [] ∧ lt key k1 = true
  · exact .before c1.1 c1.2
  · cases rB with
    | nil =>
      refine .inside ?_ (by intro x hx; cases hx)
      intro hne
      cases hk : lt key k1 with
      | false => rfl
      | true => exact absurd ⟨hne, hk⟩ c1
    | cons b0 rB' =>
      cases hb : lt key b0 with
      | false => exact .after b0 rB' rfl hb
      | true =>
        refine .inside ?_ (lt_all_of_lt_head h key b0 rB' hs hb)
        intro hne
        cases hk : lt key k1 with
        | false => rfl
        | true => exact absurd ⟨hne, hk⟩ c1

/-- before the window: the index is the one in `rA`, whatever the window holds -/
theorem searchLE_before (h : SWO lt) (key : K) (rA : List K) (k1 : K) (rW rB : List K)
    (hs : Sorted lt (rA ++ (k1 :: rW) ++ rB)) (hne : rA ≠ []) (hk : lt key k1 = true) :
    searchLE lt key (rA ++ (k1 :: rW) ++ rB) = searchLE lt key rA ∧ searchLE lt key rA < rA.length := by
  refine ⟨?_, searchLE_lt_length key rA hne⟩
  rw [List.append_assoc]
  apply searchLE_append_left h key rA _ (by rw [← List.append_assoc]; exact hs) hne
  have hs' : Sorted lt (rA ++ (k1 :: (rW ++ rB))) := by
    have := hs
    rw [List.append_assoc] at this
    exact this
  exact lt_all_of_lt_head h key k1 (rW ++ rB) (sorted_append_right hs') hk

/-- after the window: the index is the one in `rB`, shifted -/
theorem searchLE_after_win (h : SWO lt) (key : K) (rA : List K) (rW : List K) (b0 : K) (rB' : List K)
    (hs : Sorted lt (rA ++ rW ++ b0 :: rB')) (hk : lt key b0 = false) :
    searchLE lt key (rA ++ rW ++ b0 :: rB') = rA.length + rW.length + searchLE lt key (b0 :: rB') := by
  rw [searchLE_append_right h key (rA ++ rW) b0 rB' hs hk]
  simp

/-- inside the window: the index is the one in the window, shifted -/
theorem searchLE_inside (h : SWO lt) (key : K) (rA : List K) (k1 : K) (rW rB : List K)
    (hs : Sorted lt (rA ++ (k1 :: rW) ++ rB))
    (h1 : rA ≠ [] → lt key k1 = false) (h2 : ∀ x ∈ rB, lt key x = true) :
    searchLE lt key (rA ++ (k1 :: rW) ++ rB) = rA.length + searchLE lt key (k1 :: rW) ∧
      searchLE lt key (k1 :: rW) < (k1 :: rW).length := by
  refine ⟨?_, searchLE_lt_length key _ (by simp)⟩
  have hs' : Sorted lt (rA ++ ((k1 :: rW) ++ rB)) := by
    have := hs
    rw [List.append_assoc] at this
    exact this
  have e1 : searchLE lt key ((k1 :: rW) ++ rB) = searchLE lt key (k1 :: rW) :=
    searchLE_append_left h key (k1 :: rW) rB (sorted_append_right hs') (by simp) h2
  rw [List.append_assoc]
  cases rA with
  | nil => simpa using e1
  | cons a rA' =>
    have hk := h1 (by simp)
    have := searchLE_append_right h key (a :: rA') k1 (rW ++ rB) hs' hk
    rw [show (k1 :: rW) ++ rB = k1 :: (rW ++ rB) from rfl, this]
    rw [show k1 :: (rW ++ rB) = (k1 :: rW) ++ rB from rfl, e1]

/-! ### kids reached through a window -/

/-- the kid a key is routed to, before and after a window `W` (separators `k1 :: rW`) has
    been replaced by `W2` (separators `k1 :: rW2`): either the same kid outside the window,
    or the kids the two windows route the key to -/
theorem window_kid {C : Type} (h : SWO lt) (key : K) (rA rB : List K) (k1 : K) (rW rW2 : List K)
    (A B : List C) (c1 c1' : C) (W W2 : List C)
    (hl : rA.length = A.length) (hlW : rW.length = W.length) (hlW2 : rW2.length = W2.length)
    (hs : Sorted lt (rA ++ (k1 :: rW) ++ rB)) (hs2 : Sorted lt (rA ++ (k1 :: rW2) ++ rB)) :
    ((A ++ (c1 :: W) ++ B)[searchLE lt key (rA ++ (k1 :: rW) ++ rB)]? =
        (A ++ (c1' :: W2) ++ B)[searchLE lt key (rA ++ (k1 :: rW2) ++ rB)]? ∧
      ∀ x, (A ++ (c1 :: W) ++ B)[searchLE lt key (rA ++ (k1 :: rW) ++ rB)]? = some x → x ∈ A ∨ x ∈ B) ∨
    ((A ++ (c1 :: W) ++ B)[searchLE lt key (rA ++ (k1 :: rW) ++ rB)]? = (c1 :: W)[searchLE lt key (k1 :: rW)]? ∧
      (A ++ (c1' :: W2) ++ B)[searchLE lt key (rA ++ (k1 :: rW2) ++ rB)]? = (c1' :: W2)[searchLE lt key (k1 :: rW2)]? ∧
      (rA ≠ [] → lt key k1 = false) ∧ ∀ x ∈ rB, lt key x = true) := by
  have hsB : Sorted lt rB := sorted_append_right hs
  rcases winCase h key rA k1 rB hsB with ⟨hne, hk⟩ | ⟨b0, rB', e, hk⟩ | ⟨h1, h2⟩
  · left
    obtain ⟨e1, l1⟩ := searchLE_before h key rA k1 rW rB hs hne hk
    obtain ⟨e2, _⟩ := searchLE_before h key rA k1 rW2 rB hs2 hne hk
    rw [e1, e2]
    have hA : searchLE lt key rA < A.length := by omega
    rw [List.append_assoc, List.append_assoc, List.getElem?_append_left hA, List.getElem?_append_left hA]
    refine ⟨rfl, ?_⟩
    intro x hx
    exact Or.inl (List.mem_of_getElem? hx)
  · left
    subst e
    rw [searchLE_after_win h key rA (k1 :: rW) b0 rB' hs hk,
      searchLE_after_win h key rA (k1 :: rW2) b0 rB' hs2 hk]
    have g1 : (A ++ (c1 :: W)).length ≤ rA.length + (k1 :: rW).length + searchLE lt key (b0 :: rB') := by
      simp; omega
    have g2 : (A ++ (c1' :: W2)).length ≤ rA.length + (k1 :: rW2).length + searchLE lt key (b0 :: rB') := by
      simp; omega
    rw [List.getElem?_append_right g1, List.getElem?_append_right g2]
    have i1 : rA.length + (k1 :: rW).length + searchLE lt key (b0 :: rB') - (A ++ (c1 :: W)).length =
        searchLE lt key (b0 :: rB') := by simp; omega
    have i2 : rA.length + (k1 :: rW2).length + searchLE lt key (b0 :: rB') - (A ++ (c1' :: W2)).length =
        searchLE lt key (b0 :: rB') := by simp; omega
    rw [i1, i2]
    refine ⟨rfl, ?_⟩
    intro x hx
    exact Or.inr (List.mem_of_getElem? hx)
  · right
    obtain ⟨e1, l1⟩ := searchLE_inside h key rA k1 rW rB hs h1 h2
    obtain ⟨e2, l2⟩ := searchLE_inside h key rA k1 rW2 rB hs2 h1 h2
    rw [e1, e2]
    refine ⟨?_, ?_, h1, h2⟩
    · rw [List.append_assoc, List.getElem?_append_right (by omega)]
      have : rA.length + searchLE lt key (k1 :: rW) - A.length = searchLE lt key (k1 :: rW) := by omega
      rw [this, List.getElem?_append_left (by simp at l1 ⊢; omega)]
    · rw [List.append_assoc, List.getElem?_append_right (by omega)]
      have : rA.length + searchLE lt key (k1 :: rW2) - A.length = searchLE lt key (k1 :: rW2) := by omega
      rw [this, List.getElem?_append_left (by simp at l2 ⊢; omega)]

/-- a window of two separators -/
theorem searchLE_two (h : SWO lt) (key : K) (k1 k2 : K) (h12 : lt k1 k2 = true) :
    searchLE lt key [k1, k2] = if lt key k2 then 0 else 1 := by
  have hs : Sorted lt [k1, k2] := by
    apply List.pairwise_cons.2
    refine ⟨?_, List.pairwise_singleton _ _⟩
    intro x hx
    simp only [List.mem_singleton] at hx
    rw [hx]; exact h12
  cases hk : lt key k2 with
  | true =>
    simp only [if_true]
    exact searchLE_spec h key [] [k2] k1 hs (fun hne => absurd rfl hne)
      (by intro x hx; simp only [List.mem_singleton] at hx; rw [hx]; exact hk)
  | false =>
    simp only [Bool.false_eq_true, if_false]
    exact searchLE_spec h key [k1] [] k2 hs (fun _ => hk) (by intro x hx; cases hx)

theorem searchLE_one (key : K) (k1 : K) : searchLE lt key [k1] = 0 := by
  have := searchLE_lt_length (lt := lt) key [k1] (by simp)
  simpa using this

/-! ### two levels as one -/

/-- routing first among two adjacent siblings (boundary `k2`, equivalent to the right
    sibling's first separator `r0`) and then inside the sibling chosen reaches the same kid as
    routing in the concatenation of the siblings' separators -/
theorem two_level {C : Type} (h : SWO lt) (key : K) (k2 r0 : K) (R1 R2' : List K) (K1 K2 : List C)
    (hs : Sorted lt (R1 ++ r0 :: R2')) (hne : R1 ≠ []) (hl : R1.length = K1.length)
    (he : eqv lt k2 r0 = true) :
    (lt key k2 = true → K1[searchLE lt key R1]? = (K1 ++ K2)[searchLE lt key (R1 ++ r0 :: R2')]?) ∧
    (lt key k2 = false → K2[searchLE lt key (r0 :: R2')]? = (K1 ++ K2)[searchLE lt key (R1 ++ r0 :: R2')]?) := by
  constructor
  · intro hk
    have hk' : lt key r0 = true := by rw [← h.lt_congr_right he]; exact hk
    rw [searchLE_append_left h key R1 (r0 :: R2') hs hne
      (lt_all_of_lt_head h key r0 R2' (sorted_append_right hs) hk')]
    have := searchLE_lt_length (lt := lt) key R1 hne
    rw [List.getElem?_append_left (by omega)]
  · intro hk
    have hk' : lt key r0 = false := by rw [← h.lt_congr_right he]; exact hk
    rw [searchLE_append_right h key R1 r0 R2' hs hk']
    rw [List.getElem?_append_right (by omega)]
    congr 1
    omega

end Gobptree.Conc
