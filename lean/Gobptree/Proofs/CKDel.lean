/-
  Delete's continuations keep the key-order invariant and have the expected abstract effect:
  `resume_kpost_D`.
-/
import Gobptree.Proofs.CKDelUnwind

namespace Gobptree.Conc
open Gobptree

variable {K V : Type} {lt : K → K → Bool}

/-- the root is on every route -/
theorem onRoute_root {t : Tree K V} (hids : t.ids.Nodup) (hpar : ParTree t) (key : K) :
    OnRoute lt t key t.rootId := by
  obtain ⟨_, _, _, _, _, _, hhead, _⟩ := Tree.route_shape (lt := lt) hids hpar key
  exact ⟨none, none, List.mem_of_mem_head? hhead⟩

/-- the kid at the routing index of a node on the route is on the route -/
theorem onRoute_kid {t : Tree K V} (hids : t.ids.Nodup) (hpar : ParTree t) (key : K) {node index child : Nat}
    (hon : OnRoute lt t key node) (hidx : index = searchLE lt key (keysOf t node))
    (hkid : t.kidAt node index = some child) : OnRoute lt t key child := by
  obtain ⟨d, i, hf, _, kc, hkc, hkcid⟩ := inner_of_kidAt hkid
  obtain ⟨a, b, hab⟩ := hon
  obtain ⟨s0, c0, _, hc0, hmem⟩ := Tree.route_kid hf hids hpar key a b hab
  rw [keysOf_find hf] at hidx
  rw [← hidx, hkc] at hc0
  injection hc0 with hc0
  subst hc0
  rw [hkcid] at hmem
  exact ⟨_, _, hmem⟩

theorem kd_finish (h : SWO lt) {H : List Lk} {s s' : St K V} {fl : Flow K V} {k : Kont K V} {t : Nat}
    (hidsF : s'.tree.ids.Nodup) (hparF : ParTree s'.tree)
    (hids : s.tree.ids.Nodup) (hpar : ParTree s.tree) (hO : OrdTree lt s.tree)
    (ord : OrdTree lt s'.tree) (eff : AbsEffect lt t k s s' fl)
    (kpos : ∀ p, fl = .park p → parkKPos lt s'.tree p)
    (widen : Widen lt (fun x => Lk.node x ∈ H) s.tree s'.tree) :
    KPost lt t k s s' fl ∧ StableBounds lt H s.tree s'.tree :=
  ⟨⟨ord, eff, kpos⟩, stableBounds_of_widen h widen hids hpar hO hidsF hparF ord⟩

/-- **Delete's continuations, key-order level.** -/
theorem resume_kpost_D : ResumeKD K V := by
  intro lt P t s k H hd h4 hkp hpre hk hkpre hcov hO hpos
  have hpost := resume_post_D P t s k H hd h4 hpre hk hkpre hcov
  have h := hkp.swo
  have hidsF := hpost.tree.ids.1
  have hparF := parTree_of_treeOk hpost.tree
  have hids : s.tree.ids.Nodup := hpre.tree.ids.1
  have hpar : ParTree s.tree := parTree_of_treeOk hpre.tree
  obtain ⟨hheld, hlock, _⟩ := hcov
  cases k with
  | roTree _ _ => simp [isDelK] at hd
  | roNode _ _ _ _ => simp [isDelK] at hd
  | upTree _ _ _ => simp [isDelK] at hd
  | upRoot _ _ _ _ => simp [isDelK] at hd
  | upRootSib _ _ _ _ _ => simp [isDelK] at hd
  | upChild _ _ _ _ _ _ => simp [isDelK] at hd
  | upSib _ _ _ _ _ _ => simp [isDelK] at hd
  | upCallback _ _ _ _ => simp [isDelK] at hd
  | hop _ _ => simp [isDelK] at hd
  | paused => simp [isDelK] at hd
  | delTree key =>
    refine kd_finish h hidsF hparF hids hpar hO ?_ ?_ ?_ ?_
    · exact hO
    · show (resume P t s (.delTree key)).1.tree.abs = s.tree.abs
      rfl
    · intro p hp
      simp only [resume] at hp
      cases hp
      trivial
    · exact Widen.refl h _ _
  | delRoot key r =>
    have hr : Lk.node r ∈ H := hlock _ rfl
    have hk' : r = s.tree.rootId := hk
    have hon : OnRoute lt s.tree key r := by rw [hk']; exact onRoute_root hids hpar key
    have go := delGo_k h P hkp.lt hpre.pad t key r H hr (s.acq t (.node r)) [] r hpre.tree h4 hpre.order hk' rfl
      (by intro l hl; cases hl) hO hon
    exact kd_finish h hidsF hparF hids hpar hO go.ord ⟨go.eff1, go.eff2⟩ go.kpos go.widen
  | delLeft key frames node index left root =>
    obtain ⟨hroot, hfr, hposi, hl, c, hc⟩ := hk
    obtain ⟨d, i, hf, _, kc, hkc, hkcid⟩ := inner_of_kidAt hc
    have hres : resume P t s (.delLeft key frames node index left root) =
        (s.acq t (.node left), .park (.want (.node (Node.id kc))
          (.delChild key frames node index (some left) (Node.id kc) root))) := by
      simp only [resume, acq_tree, hf, innerKidId?, hkc, Option.map_some]
    rw [hres] at hidsF hparF ⊢
    refine kd_finish h hidsF hparF hids hpar hO hO rfl ?_ (Widen.refl h _ _)
    intro p hp
    cases hp
    exact hpos
  | delChild key frames node index left child root =>
    have hrootH : Lk.node root ∈ H := hheld _ (by simp [kontHeld])
    obtain ⟨hroot, hfr, hfrm⟩ := hk
    have hon : OnRoute lt s.tree key child := onRoute_kid hids hpar key hpos.1 hpos.2 hfrm.1
    have go := delGo_k h P hkp.lt hpre.pad t key root H hrootH (s.acq t (.node child))
      (⟨node, index, left, child⟩ :: frames) child hpre.tree h4 hpre.order hroot ⟨rfl, hfrm, hfr⟩ (by
        intro l hl
        simp only [framesHeld, List.mem_append, List.mem_singleton] at hl
        rcases hl with hl | hl | hl
        · exact hheld _ (by simp [kontHeld, hl])
        · exact hheld _ (by simp [kontHeld, hl])
        · rw [hl]; exact hlock _ rfl) hO hon
    exact kd_finish h hidsF hparF hids hpar hO go.ord ⟨go.eff1, go.eff2⟩ go.kpos go.widen
  | delRight key rest fr right root =>
    have hrootH : Lk.node root ∈ H := hheld _ (by simp [kontHeld])
    obtain ⟨hroot, hfr, hr, hsm⟩ := hk
    have hok : TreeOk (some fr.child) s.tree := hpre.tree
    have out := delRightArrive_k h P hpre.pad t key root H hrootH (s.acq t (.node right)) rest fr right
      ⟨by simpa using hok.prime h4, hpre.order, hroot, hfr, fun _ => hsm⟩ (by
        intro l hl
        exact hheld _ (by simp only [kontHeld, List.mem_cons]; right; right; exact hl)) hr (hlock _ rfl) hO
    exact kd_finish h hidsF hparF hids hpar hO out.ord out.abs (kpos_of_postLeaf _ out.post) out.widen

end Gobptree.Conc

open Gobptree.Conc in
#print axioms resume_kpost_D
