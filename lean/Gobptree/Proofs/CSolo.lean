/-
  **Single-thread agreement of the two models.**

  A single-threaded run of the concurrent small-step model (`Conc.lean`) computes exactly
  what the sequential big-step model (`Ops.lean`, `Run.lean`) computes: the same tree
  (same node identities, same allocation counter, same depth and order) and the same
  results.

  * `solo_op` / `solo_step'` / `solo_step`: one operation;
  * `solo_hist` / `solo_run'` / `solo_run` / `solo_run_new`: a whole history;
  * `solo_refines_spec`: with `RunOk.lean`, a lone thread of the concurrent model refines the
    map specification.

  The only hypothesis on the tree is `IdsOk` (node identities pairwise distinct and below the
  allocation counter — what `find`/`modify` need to address the right node); it is preserved
  by the sequential model (`Tree.step_idsOk`, `CSoloIds.lean`).  The hypothesis that the
  sequential model returns `.ok` is what excludes Go panics (e.g. Delete at order 2).
-/
import Gobptree.Proofs.CSoloIds
import Gobptree.Proofs.RunOk

namespace Gobptree.Conc
open Gobptree

variable {K V : Type}

theorem idInv_of_idsOk {t : Tree K V} (h : IdsOk t) : IdInv Ctx.top t.root t.nextId := by
  intro a
  have hn : (nids t.root).count a ≤ 1 := List.nodup_iff_count.1 h.1 a
  rw [count_ids_top]
  refine ⟨by omega, ?_⟩
  intro hp
  have hp' : 0 < (nids t.root).count a := by omega
  exact h.2 a (List.count_pos_iff.1 hp')

/-! ### the thread loop at the end of an operation -/

theorem threadLoop_done_some (th : Thread K V) (s' : St K V) (r : Res K V) (pc : Nat) (op2 : Op K V)
    (hop : th.prog[pc + 1]? = some (copOf op2)) (hcur : s'.cursor = none) :
    threadLoop 0 th th.prog.length s' (.done r) pc =
      ({ th with pc := pc + 1, park := .want .tree (kontOf op2), held := s'.held, cursor := s'.cursor,
                 exhausted := s'.exhausted },
        (s'.note 0 (.ret pc r)).note 0 (.inv (pc + 1)), false) := by
  have hlen : pc + 1 < th.prog.length := (List.getElem?_eq_some_iff.1 hop).1
  obtain ⟨n, hn⟩ : ∃ n, th.prog.length = n + 1 := ⟨th.prog.length - 1, by omega⟩
  rw [hn]
  unfold threadLoop
  simp only [hop]
  rw [startOp_copOf _ op2 (by exact hcur)]
  cases n <;> rfl

theorem threadLoop_done_none (th : Thread K V) (s' : St K V) (r : Res K V) (pc : Nat)
    (hop : th.prog[pc + 1]? = none) :
    threadLoop 0 th th.prog.length s' (.done r) pc =
      ({ th with pc := pc + 1, park := .finished, held := s'.held, cursor := s'.cursor, exhausted := s'.exhausted },
        s'.note 0 (.ret pc r), false) := by
  cases th.prog.length <;> simp [threadLoop, hop] <;> rfl

/-! ### one operation, configuration level -/

/-- a one-thread configuration whose thread has just started `op` -/
structure Ready (c : Config K V) (th : Thread K V) (op : Op K V) : Prop where
  threads : c.threads = [th]
  park : th.park = .want .tree (kontOf op)
  held : th.held = []
  owner : c.owner = []
  cursor : th.cursor = none

/-- **one operation.** From a one-thread configuration whose thread stands at the start of
    `copOf op`, scheduling the thread until the operation returns yields exactly the tree the
    sequential model computes; `s'` is the thread-local state at the return. -/
theorem solo_op (c : Config K V) (th : Thread K V) (op : Op K V) (t' : Tree K V) (out : Out V)
    (hr : Ready c th op) (hids : IdsOk c.tree) (hord : c.tree.order = c.P.order)
    (hseq : Tree.step c.P c.tree op = .ok (t', out)) :
    ∃ n s' r cbs, c.run (List.replicate (n + 1) 0) =
        (cfgOf c (threadLoop 0 th th.prog.length s' (.done r) th.pc), none) ∧
      SoloPost (sOf c th) s' t' cbs ∧ ResMatches out r cbs := by
  have ho : OwnOk (sOf c th) := by
    unfold OwnOk sOf
    simp only [hr.owner, hr.held]
    exact List.Perm.nil
  obtain ⟨s', r, cbs, hf, hp, hm⟩ := op_fin c.P op c.tree t' out (sOf c th) rfl hr.held ho (idInv_of_idsOk hids) hord hseq
  obtain ⟨n, hn⟩ := fin_run c th .tree (kontOf op) s' r hr.threads hr.park hf
  exact ⟨n, s', r, cbs, hn, hp, hm⟩

/-! ### the first step of a program -/

/-- the thread after its first step -/
def startThread (op : Op K V) (rest : List (COp K V)) : Thread K V :=
  { prog := copOf op :: rest, pc := 0, park := .want .tree (kontOf op), held := [], cursor := none, exhausted := false }

/-- the configuration after the first step of a one-thread program -/
def startCfg (P : Params K) (t : Tree K V) (op : Op K V) (rest : List (COp K V)) : Config K V :=
  { P := P, tree := t, owner := [], threads := [startThread op rest],
    log := [Ev.note 0 (.inv 0), Ev.dec 0 [0]], dead := false }

theorem init_step (P : Params K) (t : Tree K V) (op : Op K V) (rest : List (COp K V)) :
    (Config.init P t [copOf op :: rest]).step 0 = some (startCfg P t op rest) := by
  have hes : (Config.init P t [copOf op :: rest]).enabledSet = [0] := by
    simp [Config.enabledSet, Config.init, List.range_succ, Thread.enabled]
  unfold Config.step
  rw [hes]
  simp only [Config.init, List.map_cons, List.map_nil, List.getElem?_cons_zero, Thread.enabled, Bool.not_true,
    Bool.false_eq_true, if_false]
  unfold runThread
  simp only [List.getElem?_cons_zero]
  rw [startOp_copOf _ op rfl]
  simp [threadLoop, St.note, startCfg, startThread]

/-! ### results and callback notes -/

/-- the result the client sees -/
def ResOk : Out V → Res K V → Prop
  | .done, .ok => True
  | .callback _, .ok => True
  | .found v, .found v' => v' = v
  | _, _ => False

/-- the callback argument an operation notes, if any -/
def outCb : Out V → List (Option V)
  | .callback a => [a]
  | _ => []

theorem ResMatches.split {out : Out V} {r : Res K V} {cbs : List (Option V)} (h : ResMatches out r cbs) :
    ResOk out r ∧ cbs = outCb out := by
  cases out <;> cases r <;> simp_all [ResMatches, ResOk, outCb]

/-- results correspond position by position -/
def ResAll : List (Out V) → List (Res K V) → Prop
  | [], [] => True
  | o :: os, r :: rs => ResOk o r ∧ ResAll os rs
  | _, _ => False

/-- `ret` notes of consecutive operations, oldest first -/
def numbered : Nat → List (Res K V) → List (Nat × Res K V)
  | _, [] => []
  | i, r :: rs => (i, r) :: numbered (i + 1) rs

/-! ### runs -/

theorem solo_run_append (a b : List Nat) : ∀ (c c1 c2 : Config K V), c.run a = (c1, none) → c1.run b = (c2, none) →
    c.run (a ++ b) = (c2, none) := by
  induction a with
  | nil =>
    intro c c1 c2 h1 h2
    have : c = c1 := by
      have : (c, (none : Option Nat)) = (c1, none) := h1
      injection this
    subst this
    exact h2
  | cons t ts ih =>
    intro c c1 c2 h1 h2
    rw [List.cons_append]
    unfold Config.run at h1 ⊢
    cases hs : c.step t with
    | none => rw [hs] at h1; cases h1
    | some c' =>
      rw [hs] at h1
      simp only at h1 ⊢
      exact ih c' c1 c2 h1 h2

theorem reachable_run (c0 : Config K V) : ∀ (sched : List Nat) (c c' : Config K V), Reachable c0 c →
    c.run sched = (c', none) → Reachable c0 c' := by
  intro sched
  induction sched with
  | nil =>
    intro c c' hr h
    have : (c, (none : Option Nat)) = (c', none) := h
    injection this with this
    subst this
    exact hr
  | cons t ts ih =>
    intro c c' hr h
    unfold Config.run at h
    cases hs : c.step t with
    | none => rw [hs] at h; cases h
    | some c1 =>
      rw [hs] at h
      exact ih c1 c' (Reachable.step t hr hs) h

/-- the final configuration of an operation, when another one follows -/
theorem after_op_some (c : Config K V) (th : Thread K V) (s' : St K V) (r : Res K V) (op2 : Op K V)
    (hop : th.prog[th.pc + 1]? = some (copOf op2)) (hcur : s'.cursor = none) (hheld : s'.held = []) (hown : s'.owner = []) :
    ∃ th', Ready (cfgOf c (threadLoop 0 th th.prog.length s' (.done r) th.pc)) th' op2 ∧
      th'.prog = th.prog ∧ th'.pc = th.pc + 1 ∧
      (cfgOf c (threadLoop 0 th th.prog.length s' (.done r) th.pc)).tree = s'.tree ∧
      (cfgOf c (threadLoop 0 th th.prog.length s' (.done r) th.pc)).P = c.P ∧
      (cfgOf c (threadLoop 0 th th.prog.length s' (.done r) th.pc)).dead = c.dead ∧
      (cfgOf c (threadLoop 0 th th.prog.length s' (.done r) th.pc)).log =
        Ev.note 0 (.inv (th.pc + 1)) :: Ev.note 0 (.ret th.pc r) :: s'.evs := by
  rw [threadLoop_done_some th s' r th.pc op2 hop hcur]
  refine ⟨_, ⟨rfl, rfl, hheld, hown, hcur⟩, rfl, rfl, rfl, rfl, ?_, rfl⟩
  show (c.dead || false) = c.dead
  simp

/-- the final configuration of the last operation -/
theorem after_op_none (c : Config K V) (th : Thread K V) (s' : St K V) (r : Res K V)
    (hop : th.prog[th.pc + 1]? = none) :
    (cfgOf c (threadLoop 0 th th.prog.length s' (.done r) th.pc)).unfinished = false ∧
      (cfgOf c (threadLoop 0 th th.prog.length s' (.done r) th.pc)).tree = s'.tree ∧
      (cfgOf c (threadLoop 0 th th.prog.length s' (.done r) th.pc)).owner = s'.owner ∧
      (cfgOf c (threadLoop 0 th th.prog.length s' (.done r) th.pc)).dead = c.dead ∧
      (cfgOf c (threadLoop 0 th th.prog.length s' (.done r) th.pc)).log = Ev.note 0 (.ret th.pc r) :: s'.evs := by
  rw [threadLoop_done_none th s' r th.pc hop]
  refine ⟨?_, rfl, rfl, ?_, rfl⟩
  · simp [Config.unfinished, cfgOf]
  · show (c.dead || false) = c.dead
    simp

theorem Tree.run_cons_inv (P : Params K) (t t' : Tree K V) (op : Op K V) (rest : List (Op K V)) (outs : List (Out V))
    (h : Tree.run P t (op :: rest) = .ok (t', outs)) :
    ∃ t1 o os, Tree.step P t op = .ok (t1, o) ∧ Tree.run P t1 rest = .ok (t', os) ∧ outs = o :: os := by
  simp only [Tree.run, bind, Except.bind, pure, Except.pure] at h
  split at h
  · cases h
  · rename_i v1 h1
    obtain ⟨t1, o⟩ := v1
    simp only at h
    split at h
    · cases h
    · rename_i v2 h2
      obtain ⟨t2, os⟩ := v2
      injection h with h; injection h with e1 e2
      subst e1; subst e2
      exact ⟨t1, o, os, h1, h2, rfl⟩

/-- the callback notes of a history, oldest first -/
def outCbs (outs : List (Out V)) : List (Option V) := outs.flatMap outCb

theorem outCb_reverse (o : Out V) : (outCb o).reverse = outCb o := by
  cases o <;> rfl

/-- **a whole history**, from a one-thread configuration whose thread stands at the start of the
    first operation -/
theorem solo_hist :
    ∀ (rest : List (Op K V)) (op : Op K V) (c : Config K V) (th : Thread K V) (t' : Tree K V) (outs : List (Out V)),
      Ready c th op → c.dead = false → IdsOk c.tree → c.tree.order = c.P.order →
      (∀ j, th.prog[th.pc + j]? = ((op :: rest).map copOf)[j]?) →
      Tree.run c.P c.tree (op :: rest) = .ok (t', outs) →
      ∃ n c', c.run (List.replicate n 0) = (c', none) ∧ c'.unfinished = false ∧ c'.dead = false ∧
        c'.tree = t' ∧ c'.owner = [] ∧
        ∃ rs, retNotes c'.log = (numbered th.pc rs).reverse ++ retNotes c.log ∧ ResAll outs rs ∧
          cbNotes c'.log = (outCbs outs).reverse ++ cbNotes c.log := by
  intro rest
  induction rest with
  | nil =>
    intro op c th t' outs hr hdead hids hord hprog hseq
    obtain ⟨t1, o, os, hstep, hrun, houts⟩ := Tree.run_cons_inv c.P c.tree t' op [] outs hseq
    have : (Except.ok (t1, []) : R (Tree K V × List (Out V))) = .ok (t', os) := hrun
    injection this with this; injection this with e1 e2
    subst e1; subst e2; subst houts
    obtain ⟨n, s', r, cbs, hn, hp, hm⟩ := solo_op c th op t1 o hr hids hord hstep
    obtain ⟨hres, hcbs⟩ := hm.split
    have hop : th.prog[th.pc + 1]? = none := by
      have := hprog 1
      simpa using this
    obtain ⟨hunf, htr, hown, hd, hlog⟩ := after_op_none c th s' r hop
    obtain ⟨pre, hevs, hcb, hret⟩ := hp.evs
    refine ⟨n + 1, _, hn, hunf, by rw [hd]; exact hdead, by rw [htr]; exact hp.tree, by rw [hown]; exact hp.own.nil hp.held,
      [r], ?_, ⟨hres, trivial⟩, ?_⟩
    · rw [hlog, hevs]
      show (th.pc, r) :: retNotes (pre ++ c.log) = _
      rw [retNotes_append, hret]
      rfl
    · rw [hlog, hevs]
      show cbNotes (pre ++ c.log) = _
      rw [cbNotes_append, hcb, hcbs]
      simp [outCbs, outCb_reverse]
  | cons op2 rest ih =>
    intro op c th t' outs hr hdead hids hord hprog hseq
    obtain ⟨t1, o, os, hstep, hrun, houts⟩ := Tree.run_cons_inv c.P c.tree t' op (op2 :: rest) outs hseq
    subst houts
    obtain ⟨hids1, hord1⟩ := Tree.step_idsOk c.P c.tree t1 op o hids hstep
    obtain ⟨n, s', r, cbs, hn, hp, hm⟩ := solo_op c th op t1 o hr hids hord hstep
    obtain ⟨hres, hcbs⟩ := hm.split
    have hop : th.prog[th.pc + 1]? = some (copOf op2) := by
      have := hprog 1
      simpa using this
    have hcur : s'.cursor = none := hp.cursor.trans hr.cursor
    obtain ⟨th', hr', hprog', hpc', htr, hP, hd, hlog⟩ :=
      after_op_some c th s' r op2 hop hcur hp.held (hp.own.nil hp.held)
    generalize hc1 : cfgOf c (threadLoop 0 th th.prog.length s' (.done r) th.pc) = c1 at hn hr' htr hP hd hlog
    have htree1 : c1.tree = t1 := by rw [htr, hp.tree]
    obtain ⟨pre, hevs, hcb, hret⟩ := hp.evs
    obtain ⟨n2, c2, hn2, hunf, hdead2, htree2, hown2, rs, hrets, hall, hcbs2⟩ := ih op2 c1 th' t' os hr'
      (by rw [hd]; exact hdead) (by rw [htree1]; exact hids1) (by rw [htree1, hP, hord1]; exact hord)
      (by
        intro j
        rw [hprog', hpc']
        have := hprog (j + 1)
        rw [show th.pc + 1 + j = th.pc + (j + 1) by omega, this]
        simp)
      (by rw [hP, htree1]; exact hrun)
    refine ⟨(n + 1) + n2, c2, ?_, hunf, hdead2, htree2, hown2, r :: rs, ?_, ⟨hres, hall⟩, ?_⟩
    · rw [← List.replicate_append_replicate]
      exact solo_run_append _ _ c c1 c2 hn hn2
    · rw [hrets, hlog, hevs, hpc']
      show (numbered (th.pc + 1) rs).reverse ++ (th.pc, r) :: retNotes (pre ++ c.log) = _
      rw [retNotes_append, hret]
      simp [numbered]
    · rw [hcbs2, hlog, hevs]
      show (outCbs os).reverse ++ cbNotes (pre ++ c.log) = _
      rw [cbNotes_append, hcb, hcbs]
      simp [outCbs, outCb_reverse]

/-! ### the main theorems -/

/-- **one operation from the initial configuration.**  If the sequential model performs `op` on
    `t` (distinct identities below the counter) without a Go panic, giving `t'` and `out`, then the
    concurrent model, running the single client call `copOf op` alone, finishes without panic with
    EXACTLY the tree `t'` (same identities, same counter, same depth, same order); the call returns
    the corresponding result and the callback notes of the run are those of the operation. -/
theorem solo_step' (P : Params K) (t : Tree K V) (op : Op K V) (t' : Tree K V) (out : Out V)
    (hids : IdsOk t) (ho : t.order = P.order)
    (hseq : Tree.step P t op = .ok (t', out)) :
    ∃ n c', (Config.init P t [[copOf op]]).run (List.replicate n 0) = (c', none) ∧
      c'.unfinished = false ∧ c'.dead = false ∧ c'.tree = t' ∧ c'.owner = [] ∧
      ∃ r, Ev.note 0 (.ret 0 r) ∈ c'.log ∧ retNotes c'.log = [(0, r)] ∧ ResMatches out r (cbNotes c'.log) := by
  have hstep := init_step P t op []
  generalize hc1 : startCfg P t op [] = c1 at hstep
  have hr : Ready c1 (startThread op []) op := by
    subst hc1; exact ⟨rfl, rfl, rfl, rfl, rfl⟩
  have htree1 : c1.tree = t := by subst hc1; rfl
  have hP1 : c1.P = P := by subst hc1; rfl
  have hdead1 : c1.dead = false := by subst hc1; rfl
  have hlog1 : c1.log = [Ev.note 0 (.inv 0), Ev.dec 0 [0]] := by subst hc1; rfl
  obtain ⟨n, s', r, cbs, hn, hp, hm⟩ := solo_op c1 _ op t' out hr (by rw [htree1]; exact hids)
    (by rw [htree1, hP1]; exact ho) (by rw [htree1, hP1]; exact hseq)
  obtain ⟨hunf, htr, hown, hd, hlog⟩ := after_op_none c1 (startThread op []) s' r (show ([copOf op] : List (COp K V))[0 + 1]? = none from rfl)
  obtain ⟨pre, hevs, hcb, hret⟩ := hp.evs
  refine ⟨(n + 1) + 1, _, ?_, hunf, by rw [hd]; exact hdead1, by rw [htr]; exact hp.tree,
    by rw [hown]; exact hp.own.nil hp.held, r, ?_, ?_, ?_⟩
  · rw [List.replicate_succ]
    show Config.run (Config.init P t [[copOf op]]) (0 :: List.replicate (n + 1) 0) = _
    unfold Config.run
    rw [show (Config.init P t [[copOf op]]).step 0 = some c1 from hstep]
    exact hn
  · rw [hlog]; exact List.mem_cons_self
  · rw [hlog, hevs]
    show (0, r) :: retNotes (pre ++ c1.log) = _
    rw [retNotes_append, hret, hlog1]
    rfl
  · rw [hlog, hevs]
    show ResMatches out r (cbNotes (pre ++ c1.log))
    rw [cbNotes_append, hcb, hlog1]
    show ResMatches out r (cbs ++ [])
    rw [List.append_nil]
    exact hm

/-- `solo_step'` under the structural invariant of the concurrent development -/
theorem solo_step (P : Params K) (t : Tree K V) (op : Op K V) (t' : Tree K V) (out : Out V)
    (hok : TreeOk none t) (ho : t.order = P.order)
    (hseq : Tree.step P t op = .ok (t', out)) :
    ∃ n c', (Config.init P t [[copOf op]]).run (List.replicate n 0) = (c', none) ∧
      c'.unfinished = false ∧ c'.dead = false ∧ c'.tree = t' ∧ c'.owner = [] ∧
      ∃ r, Ev.note 0 (.ret 0 r) ∈ c'.log ∧ retNotes c'.log = [(0, r)] ∧ ResMatches out r (cbNotes c'.log) :=
  solo_step' P t op t' out hok.ids ho hseq

/-- the configuration after the only step of the empty program -/
def emptyCfg (P : Params K) (t : Tree K V) : Config K V :=
  { P := P, tree := t, owner := [],
    threads := [{ prog := [], pc := 0, park := .finished, held := [], cursor := none, exhausted := false }],
    log := [Ev.dec 0 [0]], dead := false }

/-- **whole histories.**  If the sequential model runs the history `ops` from `t` (distinct
    identities below the counter) without a Go panic, giving `t'` and the outputs `outs`, then the
    concurrent model, running the program `ops.map copOf` alone, finishes without panic with EXACTLY
    the tree `t'`; the `ret` notes of the log are, oldest first, `(0, r₀), (1, r₁), …` with `rᵢ` the
    result corresponding to `outsᵢ`, and the callback notes are, oldest first, the callback
    arguments of the Updates. -/
theorem solo_run' (P : Params K) (t : Tree K V) (ops : List (Op K V)) (t' : Tree K V) (outs : List (Out V))
    (hids : IdsOk t) (ho : t.order = P.order)
    (hseq : Tree.run P t ops = .ok (t', outs)) :
    ∃ n c', (Config.init P t [ops.map copOf]).run (List.replicate n 0) = (c', none) ∧
      c'.unfinished = false ∧ c'.dead = false ∧ c'.tree = t' ∧ c'.owner = [] ∧
      ∃ rs, (retNotes c'.log).reverse = numbered 0 rs ∧ ResAll outs rs ∧ (cbNotes c'.log).reverse = outCbs outs := by
  cases ops with
  | nil =>
    have : (Except.ok (t, []) : R (Tree K V × List (Out V))) = .ok (t', outs) := hseq
    injection this with this; injection this with e1 e2
    subst e1; subst e2
    refine ⟨1, emptyCfg P t, ?_, ?_, rfl, rfl, rfl, [], rfl, trivial, rfl⟩
    · have hes : (Config.init P t [([] : List (COp K V))]).enabledSet = [0] := by
        simp [Config.enabledSet, Config.init, List.range_succ, Thread.enabled]
      show Config.run (Config.init P t [[]]) [0] = _
      unfold Config.run Config.step
      rw [hes]
      simp [Config.init, Thread.enabled, runThread, Config.run, emptyCfg]
    · simp [Config.unfinished, emptyCfg]
  | cons op rest =>
    have hstep := init_step P t op (rest.map copOf)
    generalize hc1 : startCfg P t op (rest.map copOf) = c1 at hstep
    have hr : Ready c1 (startThread op (rest.map copOf)) op := by
      subst hc1; exact ⟨rfl, rfl, rfl, rfl, rfl⟩
    have htree1 : c1.tree = t := by subst hc1; rfl
    have hP1 : c1.P = P := by subst hc1; rfl
    have hdead1 : c1.dead = false := by subst hc1; rfl
    have hlog1 : c1.log = [Ev.note 0 (.inv 0), Ev.dec 0 [0]] := by subst hc1; rfl
    obtain ⟨n, c', hn, hunf, hdead, htree, hown, rs, hrets, hall, hcbs⟩ :=
      solo_hist rest op c1 (startThread op (rest.map copOf)) t' outs hr hdead1 (by rw [htree1]; exact hids)
        (by rw [htree1, hP1]; exact ho)
        (by intro j; simp [startThread])
        (by rw [htree1, hP1]; exact hseq)
    refine ⟨n + 1, c', ?_, hunf, hdead, htree, hown, rs, ?_, hall, ?_⟩
    · rw [List.replicate_succ]
      show Config.run (Config.init P t [copOf op :: rest.map copOf]) (0 :: List.replicate n 0) = _
      unfold Config.run
      rw [hstep]
      exact hn
    · rw [hrets, hlog1]
      show ((numbered 0 rs).reverse ++ []).reverse = _
      simp
    · rw [hcbs, hlog1]
      show ((outCbs outs).reverse ++ []).reverse = _
      simp

/-- `solo_run'` under the structural invariant of the concurrent development -/
theorem solo_run (P : Params K) (t : Tree K V) (ops : List (Op K V)) (t' : Tree K V) (outs : List (Out V))
    (hok : TreeOk none t) (ho : t.order = P.order)
    (hseq : Tree.run P t ops = .ok (t', outs)) :
    ∃ n c', (Config.init P t [ops.map copOf]).run (List.replicate n 0) = (c', none) ∧
      c'.unfinished = false ∧ c'.dead = false ∧ c'.tree = t' ∧ c'.owner = [] ∧
      ∃ rs, (retNotes c'.log).reverse = numbered 0 rs ∧ ResAll outs rs ∧ (cbNotes c'.log).reverse = outCbs outs :=
  solo_run' P t ops t' outs hok.ids ho hseq

/-- from a fresh tree: every history the sequential model runs without panic is computed
    identically by a lone thread of the concurrent model -/
theorem solo_run_new (P : Params K) (ops : List (Op K V)) (t' : Tree K V) (outs : List (Out V))
    (hseq : Tree.run P (Tree.new P.order) ops = .ok (t', outs)) :
    ∃ n c', (Config.init P (Tree.new P.order) [ops.map copOf]).run (List.replicate n 0) = (c', none) ∧
      c'.unfinished = false ∧ c'.dead = false ∧ c'.tree = t' ∧ c'.owner = [] ∧
      ∃ rs, (retNotes c'.log).reverse = numbered 0 rs ∧ ResAll outs rs ∧ (cbNotes c'.log).reverse = outCbs outs := by
  refine solo_run' P _ ops t' outs ?_ rfl hseq
  refine ⟨?_, ?_⟩
  · show ([0] : List Nat).Nodup
    simp
  · intro i hi
    have : i = 0 := by simpa [Tree.ids, Tree.flat, Tree.new, flat] using hi
    subst this
    show 0 < 1
    omega

/-- Corollary (with the sequential refinement theorem `run_ok`): a lone thread of the CONCURRENT
    model, started on a fresh tree, never panics and refines the map specification — final
    contents, results and callback arguments are those of `Spec.run`. -/
theorem solo_refines_spec (lt : K → K → Bool) (P : Params K) (hp : ParamsOk lt P) (ops : List (Op K V))
    (hdel : ∀ op ∈ ops, op.isDelete = true → 4 ≤ P.order) :
    ∃ n c', (Config.init P (Tree.new P.order) [ops.map copOf]).run (List.replicate n 0) = (c', none) ∧
      c'.unfinished = false ∧ c'.dead = false ∧ c'.owner = [] ∧
      Node.pairs c'.tree.root = (Spec.run lt [] ops).1 ∧
      ∃ rs, (retNotes c'.log).reverse = numbered 0 rs ∧ ResAll (Spec.run lt ([] : List (K × V)) ops).2 rs ∧
        (cbNotes c'.log).reverse = outCbs (Spec.run lt ([] : List (K × V)) ops).2 := by
  obtain ⟨hinv0, hpairs0⟩ := new_ok (lt := lt) (K := K) (V := V) P.order
  obtain ⟨t', hrun, _, _, hpairs⟩ := run_ok hp ops (Tree.new P.order : Tree K V) rfl hinv0 hdel
  rw [hpairs0] at hrun hpairs
  obtain ⟨n, c', hn, hunf, hdead, htree, hown, rs, hrets, hall, hcbs⟩ := solo_run_new P ops t' _ hrun
  exact ⟨n, c', hn, hunf, hdead, hown, by rw [htree]; exact hpairs, rs, hrets, hall, hcbs⟩

end Gobptree.Conc
