/-
  Starting a client operation (`startOp`) never writes the tree; it does not panic unless
  the client misuses the API (`opFault`), and the continuation it parks with is consistent.
-/
import Gobptree.Proofs.CSUpNode
import Gobptree.Proofs.CSDisc

namespace Gobptree.Conc
open Gobptree

variable {K V : Type}

theorem noLocks_of_misuse {s : St K V} (h : misuse s = false) : cursorLocks s.cursor = [] := by
  simpa [misuse] using h

/-- the leaf an open cursor rests on, as `find` returns it -/
theorem cursor_leaf {t : Tree K V} {leaf : Nat} {sh : Shallow K V} (hl : t.look leaf = some sh) (h0 : sh.height = 0) :
    ∃ l : Leaf K V, (t.find leaf).bind leafOf? = some l ∧ sh = shallow (d := 0) l := by
  obtain ⟨a, hfind, hsh, _⟩ := find_some_of_look hl
  obtain ⟨l, rfl, hleaf⟩ := any_leaf a (by rw [hsh]; exact h0)
  exact ⟨l, by rw [hfind]; exact hleaf, hsh.symm⟩

/-- what `startOp` guarantees (kept opaque for `simp`) -/
def StartPost (s s' : St K V) (fl : Flow K V) : Prop :=
  s'.tree = s.tree ∧ fl ≠ .panic ∧
    (∀ p, fl = .park p → parkKontOk s.tree p ∧ ParkPre s'.cursor p ∧ parkExtra s.tree p = [] ∧ parkHole p = none) ∧
    CursorOk s.tree (flowIsHop fl) s'.cursor

theorem startOp_post_aux (t : Nat) (s : St K V) (op : COp K V) (hole : Option Nat) (htree : TreeOk hole s.tree)
    (hc : CursorOk s.tree false s.cursor) (hnf : opFault s op = false) :
    StartPost s (startOp t s op).1 (startOp t s op).2 := by
  cases op with
  | ins k v =>
    have hm : misuse s = false := hnf
    simp only [startOp, hm, Bool.false_eq_true, if_false]
    refine ⟨rfl, by simp, ?_, hc⟩
    intro p hp; cases hp
    exact ⟨trivial, noLocks_of_misuse hm, rfl, rfl⟩
  | upd k f y =>
    have hm : misuse s = false := hnf
    simp only [startOp, hm, Bool.false_eq_true, if_false]
    refine ⟨rfl, by simp, ?_, hc⟩
    intro p hp; cases hp
    exact ⟨trivial, noLocks_of_misuse hm, rfl, rfl⟩
  | del k =>
    have hm : misuse s = false := hnf
    simp only [startOp, hm, Bool.false_eq_true, if_false]
    refine ⟨rfl, by simp, ?_, hc⟩
    intro p hp; cases hp
    exact ⟨trivial, noLocks_of_misuse hm, rfl, rfl⟩
  | get k =>
    have hm : misuse s = false := hnf
    simp only [startOp, hm, Bool.false_eq_true, if_false]
    refine ⟨rfl, by simp, ?_, hc⟩
    intro p hp; cases hp
    exact ⟨trivial, noLocks_of_misuse hm, rfl, rfl⟩
  | ns k =>
    have hm : misuse s = false := hnf
    simp only [startOp, hm, Bool.false_eq_true, if_false]
    refine ⟨rfl, by simp, ?_, hc⟩
    intro p hp; cases hp
    exact ⟨trivial, noLocks_of_misuse hm, rfl, rfl⟩
  | pause =>
    simp only [startOp]
    refine ⟨rfl, by simp, ?_, hc⟩
    intro p hp; cases hp
    exact ⟨trivial, trivial, rfl, rfl⟩
  | scan =>
    simp only [startOp]
    split
    · rename_i leaf i hcur hex
      rw [hcur] at hc
      obtain ⟨sh, hl, h0, hlo, hhi⟩ := hc
      simp only [Bool.false_eq_true, if_false] at hhi
      obtain ⟨l, hfl, rfl⟩ := cursor_leaf hl h0
      have hkeys : (shallow (d := 0) l).keys = l.keys := rfl
      rw [hkeys] at hhi
      rw [hfl]
      simp only
      split
      · rename_i heq
        split
        · refine ⟨rfl, by simp, (by intro p hp; cases hp), trivial⟩
        · rename_i nx hnx
          refine ⟨rfl, by simp, ?_, ?_⟩
          · intro p hp; cases hp
            exact ⟨⟨_, hl, h0, hnx⟩, rfl, rfl, rfl⟩
          · refine ⟨_, hl, h0, by omega, ?_⟩
            show (if (true : Bool) = true then i + 1 = ((shallow (d := 0) l).keys.length : Int) else _)
            rw [if_pos rfl, hkeys]; exact heq
      · rename_i hne
        refine ⟨rfl, by simp, (by intro p hp; cases hp), ?_⟩
        refine ⟨_, hl, h0, by omega, ?_⟩
        show (if (false : Bool) = true then _ else i + 1 < ((shallow (d := 0) l).keys.length : Int))
        rw [if_neg (by simp), hkeys]; omega
    · exact ⟨rfl, by simp, (by intro p hp; cases hp), hc⟩
  | pair =>
    simp only [startOp]
    split
    · rename_i leaf i hcur hex
      have hi0 : ¬ i < 0 := by
        have : opFault s .pair = false := hnf
        simp only [opFault, hcur, hex] at this
        simpa using this
      rw [hcur] at hc
      obtain ⟨sh, hl, h0, hlo, hhi⟩ := hc
      simp only [Bool.false_eq_true, if_false] at hhi
      obtain ⟨l, hfl, rfl⟩ := cursor_leaf hl h0
      have hocc := occ_of_look htree.occ hl
      have hpar : l.keys.length = l.vals.length := (hocc.2.2.1 rfl).1
      have hkeys : (shallow (d := 0) l).keys = l.keys := rfl
      rw [hkeys] at hhi
      rw [hfl]
      simp only
      rw [if_neg hi0]
      have hk : i.toNat < l.keys.length := by omega
      rw [List.getElem?_eq_getElem hk, List.getElem?_eq_getElem (by omega : i.toNat < l.vals.length)]
      simp only
      refine ⟨rfl, by simp, (by intro p hp; cases hp), ?_⟩
      rw [hcur]
      refine ⟨_, hl, h0, hlo, ?_⟩
      show (if (false : Bool) = true then _ else i < ((shallow (d := 0) l).keys.length : Int))
      rw [if_neg (by simp), hkeys]; exact hhi
    · exact ⟨rfl, by simp, (by intro p hp; cases hp), hc⟩
  | close =>
    simp only [startOp]
    split
    · exact ⟨rfl, by simp, (by intro p hp; cases hp), hc⟩
    · exact ⟨by split <;> rfl, by simp, (by intro p hp; cases hp), trivial⟩

theorem startOp_post (t : Nat) (s : St K V) (op : COp K V) (hole : Option Nat) (htree : TreeOk hole s.tree)
    (hc : CursorOk s.tree false s.cursor) (hnf : opFault s op = false) :
    (startOp t s op).1.tree = s.tree ∧ (startOp t s op).2 ≠ .panic ∧
    (∀ p, (startOp t s op).2 = .park p →
        parkKontOk s.tree p ∧ ParkPre (startOp t s op).1.cursor p ∧ parkExtra s.tree p = [] ∧ parkHole p = none) ∧
    CursorOk s.tree (flowIsHop (startOp t s op).2) (startOp t s op).1.cursor :=
  startOp_post_aux t s op hole htree hc hnf

end Gobptree.Conc
