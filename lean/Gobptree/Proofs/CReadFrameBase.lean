/-
  READ FRAME (non-interference), part 1: the relation between two runs of one thread on two
  trees that agree on the own fields of the nodes it holds; the primitives the blocks use to
  read the tree map related trees to equal results.
-/
import Gobptree.Proofs.CSFinal

namespace Gobptree.Conc
open Gobptree

variable {K V : Type}

/-- two trees look the same to a thread holding the mutexes `H` -/
def SameView (H : List Lk) (T1 T2 : Tree K V) : Prop :=
  T1.order = T2.order ∧ T1.nextId = T2.nextId ∧
  (∀ id, Lk.node id ∈ H → T1.look id = T2.look id) ∧
  (Lk.tree ∈ H → T1.rootId = T2.rootId ∧ T1.depth = T2.depth)

/-- the same, for an arbitrary set `S` of node identities (held, or allocated by the step)
    and a proposition `R` (`rootMutex` is held) -/
structure TRel (S : Nat → Prop) (R : Prop) (T1 T2 : Tree K V) : Prop where
  order  : T1.order = T2.order
  nextId : T1.nextId = T2.nextId
  look   : ∀ id, S id → T1.look id = T2.look id
  root   : R → T1.rootId = T2.rootId ∧ T1.depth = T2.depth

/-- the states of the two runs: same bookkeeping, related trees, the same events emitted so far
    (`b1`, `b2`: the logs the two runs started from); the cursor's leaf is in `S` -/
structure SRel (S : Nat → Prop) (R : Prop) (b1 b2 : List (Ev K V)) (s1 s2 : St K V) : Prop where
  tree      : TRel S R s1.tree s2.tree
  held      : s1.held = s2.held
  cursor    : s1.cursor = s2.cursor
  exhausted : s1.exhausted = s2.exhausted
  evs       : ∃ e, s1.evs = e ++ b1 ∧ s2.evs = e ++ b2
  curS      : ∀ leaf i, s1.cursor = some (some leaf, i) → S leaf

/-- outcome of a block in the two runs: related states, the same flow -/
def BRel (S : Nat → Prop) (R : Prop) (b1 b2 : List (Ev K V)) (r1 r2 : St K V × Flow K V) : Prop :=
  SRel S R b1 b2 r1.1 r2.1 ∧ r1.2 = r2.2

section
variable {S : Nat → Prop} {R : Prop} {b1 b2 : List (Ev K V)} {s1 s2 : St K V}

theorem SRel.acq (h : SRel S R b1 b2 s1 s2) (t : Nat) (l : Lk) : SRel S R b1 b2 (s1.acq t l) (s2.acq t l) := by
  obtain ⟨e, h1, h2⟩ := h.evs
  refine ⟨h.tree, ?_, h.cursor, h.exhausted, ⟨Ev.acq t l :: e, ?_, ?_⟩, h.curS⟩
  · show s1.held ++ [l] = s2.held ++ [l]
    rw [h.held]
  · show Ev.acq t l :: s1.evs = _
    rw [h1]; rfl
  · show Ev.acq t l :: s2.evs = _
    rw [h2]; rfl

theorem SRel.rel (h : SRel S R b1 b2 s1 s2) (t : Nat) (l : Lk) : SRel S R b1 b2 (s1.rel t l) (s2.rel t l) := by
  obtain ⟨e, h1, h2⟩ := h.evs
  refine ⟨h.tree, ?_, h.cursor, h.exhausted, ⟨Ev.rel t l :: e, ?_, ?_⟩, h.curS⟩
  · show s1.held.erase l = s2.held.erase l
    rw [h.held]
  · show Ev.rel t l :: s1.evs = _
    rw [h1]; rfl
  · show Ev.rel t l :: s2.evs = _
    rw [h2]; rfl

theorem SRel.note (h : SRel S R b1 b2 s1 s2) (t : Nat) (n : Note K V) :
    SRel S R b1 b2 (s1.note t n) (s2.note t n) := by
  obtain ⟨e, h1, h2⟩ := h.evs
  refine ⟨h.tree, h.held, h.cursor, h.exhausted, ⟨Ev.note t n :: e, ?_, ?_⟩, h.curS⟩
  · show Ev.note t n :: s1.evs = _
    rw [h1]; rfl
  · show Ev.note t n :: s2.evs = _
    rw [h2]; rfl

theorem SRel.withTree (h : SRel S R b1 b2 s1 s2) {T1 T2 : Tree K V} (ht : TRel S R T1 T2) :
    SRel S R b1 b2 { s1 with tree := T1 } { s2 with tree := T2 } :=
  ⟨ht, h.held, h.cursor, h.exhausted, h.evs, h.curS⟩

theorem SRel.withCursor (h : SRel S R b1 b2 s1 s2) (c : Option (Option Nat × Int)) (e : Bool)
    (hc : ∀ leaf i, c = some (some leaf, i) → S leaf) :
    SRel S R b1 b2 { s1 with cursor := c, exhausted := e } { s2 with cursor := c, exhausted := e } :=
  ⟨h.tree, h.held, rfl, rfl, h.evs, hc⟩

theorem SRel.withCursor' (h : SRel S R b1 b2 s1 s2) (c : Option (Option Nat × Int))
    (hc : ∀ leaf i, c = some (some leaf, i) → S leaf) :
    SRel S R b1 b2 { s1 with cursor := c } { s2 with cursor := c } :=
  ⟨h.tree, h.held, rfl, h.exhausted, h.evs, hc⟩

theorem SRel.relOpt (h : SRel S R b1 b2 s1 s2) (t : Nat) (o : Option Nat) :
    SRel S R b1 b2 (relOpt t s1 o) (relOpt t s2 o) := by
  cases o with
  | none => exact h
  | some r => exact h.rel t _

theorem SRel.frameUnlock (h : SRel S R b1 b2 s1 s2) (t : Nat) (fr : Frame) (r : Option Nat) :
    SRel S R b1 b2 (frameUnlock t s1 fr r) (frameUnlock t s2 fr r) :=
  (((h.relOpt t r).rel t _).relOpt t fr.left)

end

/-! ### reading a node both runs hold -/

theorem leaf_eq_of_shallow {l1 l2 : Leaf K V} (hid : l1.id = l2.id)
    (h : shallow (d := 0) l1 = shallow (d := 0) l2) : l1 = l2 := by
  cases l1; cases l2
  simp only [shallow, Shallow.mk.injEq] at h
  simp only at hid
  obtain ⟨_, h1, h2, h3, _⟩ := h
  subst hid h1 h2 h3
  rfl

theorem inner_of_shallow {d : Nat} {i1 i2 : Inner K (Node K V d)}
    (h : shallow (d := d + 1) i1 = shallow (d := d + 1) i2) :
    i1.runts = i2.runts ∧ i1.kids.map (Node.id (d := d)) = i2.kids.map (Node.id (d := d)) := by
  simp only [shallow, Shallow.mk.injEq] at h
  exact ⟨h.2.1, h.2.2.2.2⟩

/-- a held identity is found in both trees or in neither; the two nodes found have the same
    own fields (they may differ below) -/
theorem find_rel {S : Nat → Prop} {R : Prop} {T1 T2 : Tree K V} (h : TRel S R T1 T2) {id : Nat} (hs : S id) :
    (T1.find id = none ∧ T2.find id = none) ∨
    ∃ (d : Nat) (n1 n2 : Node K V d), T1.find id = some ⟨d, n1⟩ ∧ T2.find id = some ⟨d, n2⟩ ∧
      Node.id n1 = id ∧ Node.id n2 = id ∧ shallow n1 = shallow n2 := by
  have hl := h.look id hs
  rw [look_eq_find, look_eq_find] at hl
  cases h1 : T1.find id with
  | none =>
    cases h2 : T2.find id with
    | none => exact Or.inl ⟨rfl, rfl⟩
    | some a2 => rw [h1, h2] at hl; cases hl
  | some a1 =>
    cases h2 : T2.find id with
    | none => rw [h1, h2] at hl; cases hl
    | some a2 =>
      rw [h1, h2] at hl
      obtain ⟨d1, n1⟩ := a1
      obtain ⟨d2, n2⟩ := a2
      have hl' : shallow n1 = shallow n2 := by simpa using hl
      have hd : d1 = d2 := by
        have := congrArg Shallow.height hl'
        rwa [shallow_height, shallow_height] at this
      subst hd
      exact Or.inr ⟨d1, n1, n2, rfl, rfl, (find_facts h1).1, (find_facts h2).1, hl'⟩

/-- what the accessor functions of the blocks see of a node -/
def ARel (a1 a2 : AnyNode K V) : Prop :=
  leafOf? a1 = leafOf? a2 ∧ innerRunts? a1 = innerRunts? a2 ∧ ∀ i, innerKidId? a1 i = innerKidId? a2 i

theorem arel_of_shallow {d : Nat} {n1 n2 : Node K V d} (hid : Node.id n1 = Node.id n2)
    (hsh : shallow n1 = shallow n2) : ARel (⟨d, n1⟩ : AnyNode K V) ⟨d, n2⟩ := by
  cases d with
  | zero =>
    have : n1 = n2 := leaf_eq_of_shallow (l1 := n1) (l2 := n2) hid hsh
    subst this
    exact ⟨rfl, rfl, fun _ => rfl⟩
  | succ d =>
    obtain ⟨hr, hk⟩ := inner_of_shallow (i1 := n1) (i2 := n2) hsh
    refine ⟨rfl, ?_, ?_⟩
    · show some (n1 : Inner K (Node K V d)).runts = some (n2 : Inner K (Node K V d)).runts
      rw [hr]
    · intro i
      show ((n1 : Inner K (Node K V d)).kids[i]?).map Node.id = ((n2 : Inner K (Node K V d)).kids[i]?).map Node.id
      rw [← List.getElem?_map, ← List.getElem?_map, hk]

theorem find_arel {S : Nat → Prop} {R : Prop} {T1 T2 : Tree K V} (h : TRel S R T1 T2) {id : Nat} (hs : S id) :
    (T1.find id = none ∧ T2.find id = none) ∨
    ∃ a1 a2, T1.find id = some a1 ∧ T2.find id = some a2 ∧ ARel a1 a2 := by
  rcases find_rel h hs with h0 | ⟨d, n1, n2, h1, h2, i1, i2, hsh⟩
  · exact Or.inl h0
  · exact Or.inr ⟨_, _, h1, h2, arel_of_shallow (i1.trans i2.symm) hsh⟩

theorem leafOf?_some {a : AnyNode K V} {l : Leaf K V} (h : leafOf? a = some l) : a = ⟨0, l⟩ := by
  obtain ⟨d, n⟩ := a
  cases d with
  | zero =>
    have : some (n : Leaf K V) = some l := h
    cases this
    rfl
  | succ d => cases h

end Gobptree.Conc
