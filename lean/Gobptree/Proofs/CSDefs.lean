/-
  Concurrent STRUCTURAL invariant of the small-step model (no key order involved).

  Everything is phrased over the *flat view* of the tree: the pre-order list of
  `(identity, own fields)` pairs, where a node's own fields (`Shallow`) are what the Go
  struct holds — its keys/separators, its values, its `next` pointer and the identities
  of its children.  A block of the model rewrites a window of the tree; on the flat view
  that is a local list surgery, and every invariant below is a predicate on the flat
  view, so one context lemma (`modify_flat`) carries all of them.

  Invariant `SInv`:
    * node identities pairwise distinct and below the allocation counter      (`IdsOk`)
    * per node: parallel arrays, capacity `≤ order`, minimum occupancy
      (`order/2`; root leaf 0; inner root 2; the node a running Delete is about
      to rebalance — the *hole* — `order/2 − 1`)                              (`OccOk`)
    * the order is even and at least 2; it is at least 4 whenever there is a hole
      (a Delete needs `4 ≤ order`; without Delete order 2 is fine: a full node of
      2 entries splits into halves of `order/2 = 1`)                 (`order2`, `big`, `even`)
    * the leaf chain: each leaf's `next` is the following leaf, the last none  (`ChainOk`)
    * per thread: the identities its continuation carries are where it thinks
      they are, stated ONLY in terms of the own fields of nodes the thread holds
      (and the root pointer when it holds `rootMutex`)                         (`ParkOk`)
-/
import Gobptree.Proofs.ConcReach
import Gobptree.Proofs.ConcOwner

namespace Gobptree.Conc
open Gobptree

variable {K V : Type}

/-! ### flat view -/

/-- a node's own fields -/
structure Shallow (K V : Type) where
  height : Nat
  keys   : List K
  vals   : List V
  next   : Option Nat
  kids   : List Nat

def shallow : {d : Nat} → Node K V d → Shallow K V
  | 0, (l : Leaf K V) => ⟨0, l.keys, l.vals, l.next, []⟩
  | d + 1, (i : Inner K (Node K V d)) => ⟨d + 1, i.runts, [], none, i.kids.map (Node.id (d := d))⟩

/-- pre-order list of `(identity, own fields)` -/
def flat : {d : Nat} → Node K V d → List (Nat × Shallow K V)
  | 0, (l : Leaf K V) => [(l.id, shallow (d := 0) l)]
  | d + 1, (i : Inner K (Node K V d)) => (i.id, shallow (d := d + 1) i) :: i.kids.flatMap (flat (d := d))

def _root_.Gobptree.Tree.flat (t : Tree K V) : List (Nat × Shallow K V) := Conc.flat t.root

def _root_.Gobptree.Tree.ids (t : Tree K V) : List Nat := t.flat.map Prod.fst

/-- own fields of the node with identity `id` -/
def _root_.Gobptree.Tree.look (t : Tree K V) (id : Nat) : Option (Shallow K V) := t.flat.lookup id

def _root_.Gobptree.Tree.kidAt (t : Tree K V) (p i : Nat) : Option Nat :=
  (t.look p).bind fun sh => sh.kids[i]?

/-! ### tree-level structural invariant -/

def IdsOk (t : Tree K V) : Prop := t.ids.Nodup ∧ ∀ i ∈ t.ids, i < t.nextId

/-- minimum occupancy demanded of node `id` -/
def minOf (o rootId : Nat) (hole : Option Nat) (id : Nat) (height : Nat) : Nat :=
  if id = rootId then (if height = 0 then 0 else 2)
  else if hole = some id then o / 2 - 1 else o / 2

def NodeOcc (o m : Nat) (sh : Shallow K V) : Prop :=
  sh.keys.length ≤ o ∧ m ≤ sh.keys.length ∧
  (sh.height = 0 → sh.keys.length = sh.vals.length ∧ sh.kids = []) ∧
  (0 < sh.height → sh.keys.length = sh.kids.length ∧ 1 ≤ sh.keys.length ∧ sh.next = none)

def OccOk (hole : Option Nat) (t : Tree K V) : Prop :=
  ∀ p ∈ t.flat, NodeOcc t.order (minOf t.order t.rootId hole p.1 p.2.height) p.2

/-- the leaves of the flat view, in order -/
def flatLeaves (l : List (Nat × Shallow K V)) : List (Nat × Shallow K V) :=
  l.filter fun p => p.2.height == 0

/-- each entry's `next` names the following entry; the last one's is `none` -/
def Chain : List (Nat × Shallow K V) → Prop
  | [] => True
  | [p] => p.2.next = none
  | p :: q :: rest => p.2.next = some q.1 ∧ Chain (q :: rest)

def ChainOk (t : Tree K V) : Prop := Chain (flatLeaves t.flat)

structure TreeOk (hole : Option Nat) (t : Tree K V) : Prop where
  ids   : IdsOk t
  occ   : OccOk hole t
  chain : ChainOk t
  order2 : 2 ≤ t.order
  /-- a hole exists only while a Delete runs, and a Delete needs `4 ≤ order` -/
  big   : hole ≠ none → 4 ≤ t.order
  even  : t.order % 2 = 0

theorem TreeOk.half_pos {hole : Option Nat} {t : Tree K V} (h : TreeOk hole t) : 1 ≤ t.order / 2 := by
  have := h.order2; omega

/-- every node other than the root holds at least one entry (`order/2 ≥ 1`; the hole's
    `order/2 − 1 ≥ 1` because a hole exists only at orders `≥ 4`) -/
theorem TreeOk.min_pos {hole : Option Nat} {t : Tree K V} (h : TreeOk hole t) {id : Nat}
    (hne : id ≠ t.rootId) (ht : Nat) : 1 ≤ minOf t.order t.rootId hole id ht := by
  unfold minOf
  rw [if_neg hne]
  have h2 := h.order2
  split
  · rename_i hh
    have := h.big (by rw [hh]; simp)
    omega
  · omega

/-! ### per-thread invariant -/

def FrameOk (t : Tree K V) (fr : Frame) : Prop :=
  t.kidAt fr.node fr.index = some fr.child ∧
  match fr.left with
  | some l => 0 < fr.index ∧ t.kidAt fr.node (fr.index - 1) = some l
  | none => fr.index = 0

/-- frames innermost first; `top` is the node the innermost activation descended into -/
def FramesOk (t : Tree K V) (root : Nat) : List Frame → Nat → Prop
  | [], top => top = root
  | fr :: rest, top => fr.child = top ∧ FrameOk t fr ∧ FramesOk t root rest fr.node

def isInner (t : Tree K V) (id : Nat) : Prop := ∃ sh, t.look id = some sh ∧ 0 < sh.height
def isLeaf (t : Tree K V) (id : Nat) : Prop := ∃ sh, t.look id = some sh ∧ sh.height = 0

/-- number of entries of node `id` is below the order (it was split-checked) -/
def notFull (t : Tree K V) (id : Nat) : Prop := ∃ sh, t.look id = some sh ∧ sh.keys.length < t.order

/-- node `id` has fewer than `order/2` entries (a Delete just made it under-full) -/
def isSmall (t : Tree K V) (id : Nat) : Prop := ∃ sh, t.look id = some sh ∧ sh.keys.length < t.order / 2

def KontOk (t : Tree K V) : Kont K V → Prop
  | .roTree _ _ => True
  | .roNode _ _ hold want =>
    match hold with
    | .tree => want = t.rootId
    | .node p => ∃ i, t.kidAt p i = some want
  | .upTree _ _ _ => True
  | .upRoot _ _ _ r => r = t.rootId
  | .upRootSib _ _ _ root sib =>
    (∃ sh, t.look t.rootId = some sh ∧ sh.kids = [root, sib]) ∧ notFull t sib ∧
    (∀ sh, t.look root = some sh → sh.height = 0 → sh.next = some sib)
  | .upChild _ _ _ parent index child => t.kidAt parent index = some child ∧ notFull t parent
  | .upSib _ _ _ parent child sib =>
    (∃ i, t.kidAt parent i = some child ∧ t.kidAt parent (i + 1) = some sib) ∧ notFull t sib ∧
    (∀ sh, t.look child = some sh → sh.height = 0 → sh.next = some sib)
  | .upCallback _ _ leaf _ => isLeaf t leaf ∧ notFull t leaf
  | .delTree _ => True
  | .delRoot _ r => r = t.rootId
  | .delLeft _ frames node index left root =>
    root = t.rootId ∧ FramesOk t root frames node ∧ 0 < index ∧ t.kidAt node (index - 1) = some left ∧
    (∃ c, t.kidAt node index = some c)
  | .delChild _ frames node index left child root =>
    root = t.rootId ∧ FramesOk t root frames node ∧ FrameOk t ⟨node, index, left, child⟩
  | .delRight _ rest fr right root =>
    root = t.rootId ∧ FramesOk t root (fr :: rest) fr.child ∧ t.kidAt fr.node (fr.index + 1) = some right ∧
    isSmall t fr.child
  | .hop cur next => ∃ sh, t.look cur = some sh ∧ sh.height = 0 ∧ sh.next = some next
  | .paused => True

/-- identities a continuation relies on WITHOUT holding their mutex: the sibling a split
    just allocated (reachable only through nodes the thread holds), and the new root -/
def kontExtra (t : Tree K V) : Kont K V → List Nat
  | .upRootSib _ _ _ _ sib => [t.rootId, sib]
  | .upSib _ _ _ _ _ sib => [sib]
  | _ => []

def parkExtra (t : Tree K V) : Park K V → List Nat
  | .want _ k => kontExtra t k
  | .yielded k => kontExtra t k
  | _ => []

def parkWant : Park K V → Option Lk
  | .want l _ => some l
  | _ => none

/-- the cursor hop is the one park position at which the index has run past the leaf -/
def isHop : Park K V → Bool
  | .want _ (.hop _ _) => true
  | _ => false

/-- an open cursor rests on a leaf of the tree, its index inside that leaf (or one before);
    while it waits for the next leaf the index equals the leaf's length -/
def CursorOk (t : Tree K V) (hopping : Bool) : Option (Option Nat × Int) → Prop
  | some (some leaf, i) => ∃ sh, t.look leaf = some sh ∧ sh.height = 0 ∧ -1 ≤ i ∧
      (if hopping then i = (sh.keys.length : Int) else i < (sh.keys.length : Int))
  | _ => True

def parkKontOk (t : Tree K V) : Park K V → Prop
  | .want _ k => KontOk t k
  | .yielded k => KontOk t k
  | _ => True

def ThreadSOk (t : Tree K V) (th : Thread K V) : Prop :=
  parkKontOk t th.park ∧ CursorOk t (isHop th.park) th.cursor

/-- the node a parked Delete is about to rebalance -/
def parkHole : Park K V → Option Nat
  | .want _ (.delRight _ _ fr _ _) => some fr.child
  | _ => none

def holeOf (ths : List (Thread K V)) : Option Nat :=
  ths.findSome? fun th => parkHole th.park

/-- parameters: padding never fails on a present key (true of all six instantiations) -/
def PadOk (P : Params K) : Prop := ∀ k, P.pad (some k) ≠ none

/-- the structural invariant of a configuration -/
structure SInv (c : Config K V) : Prop where
  tree    : TreeOk (holeOf c.threads) c.tree
  threads : ∀ th ∈ c.threads, ThreadSOk c.tree th
  order   : c.tree.order = c.P.order
  pad     : PadOk c.P
  cfg     : ConfigOk c
  owner   : OwnerOk c
  /-- nobody else holds or waits for a node another thread relies on without holding it -/
  extra   : ∀ (i j : Nat) (a b : Thread K V), c.threads[i]? = some a → c.threads[j]? = some b → i ≠ j →
              ∀ x ∈ parkExtra c.tree a.park, Lk.node x ∉ b.held ∧ parkWant b.park ≠ some (Lk.node x)

/-! ### the frame of a step -/

/-- the two flat views agree on every node whose identity satisfies `keep` -/
def FrameEq (keep : Nat → Bool) (l l' : List (Nat × Shallow K V)) : Prop :=
  l.filter (fun p => keep p.1) = l'.filter (fun p => keep p.1)

/-- identities a step of a thread may write: nodes whose mutex is in `H`, and nodes
    allocated by the step (identity at least the old allocation counter) -/
def keepOf (H : List Lk) (nextId : Nat) (id : Nat) : Bool :=
  decide (id < nextId) && !(H.contains (Lk.node id))

/-! ### a ranking of the mutexes for which every reachable configuration is ranked -/

/-- `rootMutex` lowest; nodes by level (root first), then by pre-order position -/
def posRank (t : Tree K V) : Lk → Nat
  | .tree => 0
  | .node id =>
    match t.look id with
    | none => 0
    | some sh => 1 + (t.depth - sh.height) * (t.ids.length + 1) + t.ids.idxOf id

end Gobptree.Conc
