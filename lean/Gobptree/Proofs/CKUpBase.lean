/-
  Key-order block lemmas for the non-Delete continuations, part 1: helpers.
  The tail of a route below a node, the routing index characterised (`Picks`), `find` after a
  rewrite, the effect record `UpEff` of the final stretch of an Insert/Update block, and
  bookkeeping about the event log.
-/
import Gobptree.Proofs.CKBlock
import Gobptree.Proofs.CKPar
import Gobptree.Proofs.CSUp

namespace Gobptree.Conc
open Gobptree

variable {K V : Type} {lt : K → K → Bool}

/-! ### the route below a node -/

/-- the route of `key` from node `n`, without the entry of `n` itself -/
def rtail (lt : K → K → Bool) (key : K) : (d : Nat) → Option K → Node K V d → List (Nat × Option K × Option K)
  | 0, _, _ => []
  | _ + 1, hi, (i : Inner K _) => routeKid lt key hi i

theorem routeB_eq_cons (key : K) : ∀ (d : Nat) (lo hi : Option K) (n : Node K V d),
    routeB lt key d lo hi n = (Node.id n, lo, hi) :: rtail lt key d hi n
  | 0, _, _, _ => rfl
  | _ + 1, _, _, _ => rfl

theorem rtail_zero (key : K) (hi : Option K) (l : Leaf K V) : rtail (V := V) lt key 0 hi l = [] := rfl

theorem rtail_succ (key : K) {d : Nat} (hi : Option K) (i : Inner K (Node K V d)) :
    rtail lt key (d + 1) hi i = routeKid lt key hi i := rfl

/-- the route below an inner node, by the routing index -/
theorem routeKid_eq (key : K) {d : Nat} (hi : Option K) (i : Inner K (Node K V d)) (j : Nat) (s : K) (c : Node K V d)
    (hj : searchLE lt key i.runts = j) (hs : i.runts[j]? = some s) (hc : i.kids[j]? = some c) :
    routeKid lt key hi i = routeB lt key d (some s) (hiAt i.runts j hi) c := by
  unfold routeKid
  rw [hj, hs, hc]

/-! ### the routing index, characterised -/

/-- index `j` is where the clamped search for `key` ends in the ascending list `L` -/
def Picks (lt : K → K → Bool) (key : K) (L : List K) (j : Nat) : Prop :=
  (∃ a, L[j]? = some a ∧ (0 < j → lt key a = false)) ∧
  ∀ j' a, j < j' → L[j']? = some a → lt key a = true

theorem searchLE_picks (h : SWO lt) (key : K) (L : List K) (hs : Sorted lt L) (hne : L ≠ []) :
    Picks lt key L (searchLE lt key L) := by
  have hj := searchLE_lt_length (lt := lt) key L hne
  refine ⟨⟨L[searchLE lt key L], List.getElem?_eq_getElem hj, fun h0 => searchLE_at h key L hs h0 hj⟩, ?_⟩
  intro j' a hlt ha
  obtain ⟨hj', e⟩ := List.getElem?_eq_some_iff.1 ha
  rw [← e]
  exact searchLE_after h key L hs j' hlt hj'

theorem picks_unique (h : SWO lt) (key : K) (L : List K) (hs : Sorted lt L) (j : Nat)
    (hp : Picks lt key L j) : searchLE lt key L = j := by
  obtain ⟨⟨a, ha, h1⟩, h2⟩ := hp
  obtain ⟨hj, e⟩ := List.getElem?_eq_some_iff.1 ha
  have hne : L ≠ [] := by intro e; subst e; simp at hj
  obtain ⟨⟨b, hb, g1⟩, g2⟩ := searchLE_picks h key L hs hne
  apply Classical.byContradiction
  intro hne'
  rcases Nat.lt_or_gt_of_ne hne' with hlt | hgt
  · -- the search ended before `j`
    have := g2 j a hlt ha
    rw [h1 (by omega)] at this
    cases this
  · have := h2 _ b hgt hb
    rw [g1 (by omega)] at this
    cases this

/-! ### `find` after a rewrite -/

theorem findNode_zero_eq (id : Nat) (l : Leaf K V) (he : l.id = id) :
    findNode (V := V) id 0 l = some ⟨0, l⟩ := by
  show (if l.id = id then some (⟨0, l⟩ : AnyNode K V) else none) = _
  simp only [he, ↓reduceIte]

theorem findNode_succ_eq (id : Nat) {d : Nat} (i : Inner K (Node K V d)) (he : i.id = id) :
    findNode id (d + 1) i = some ⟨d + 1, i⟩ := by
  show (if i.id = id then some (⟨d + 1, i⟩ : AnyNode K V) else i.kids.findSome? (findNode id d)) = _
  simp only [he, ↓reduceIte]

theorem findNode_self : ∀ {d : Nat} (n : Node K V d), findNode (Node.id n) d n = some ⟨d, n⟩
  | 0, n => findNode_zero_eq _ n rfl
  | _ + 1, n => findNode_succ_eq _ n rfl

/-- the rewritten node is what `find` returns afterwards -/
theorem findNode_modify_self (id : Nat) (f : (d : Nat) → Node K V d → Node K V d) :
    ∀ (d : Nat) (n : Node K V d) (d' : Nat) (m : Node K V d'),
      findNode id d n = some ⟨d', m⟩ → (idsOf n).Nodup → Node.id (f d' m) = id →
      findNode id d (modifyNode id f d n) = some ⟨d', f d' m⟩ := by
  intro d
  induction d with
  | zero =>
    intro (n : Leaf K V) d' m hf _ hfid
    have hf' : (if n.id = id then some (⟨0, n⟩ : AnyNode K V) else none) = some ⟨d', m⟩ := hf
    by_cases hid : n.id = id
    · simp only [hid, if_true, Option.some.injEq] at hf'
      cases hf'
      rw [modifyNode_zero_eq id f n hid]
      have := findNode_self (f 0 n)
      rw [hfid] at this
      exact this
    · simp [hid] at hf'
  | succ d ih =>
    intro (n : Inner K (Node K V d)) d' m hf hnd hfid
    by_cases hid : n.id = id
    · have hf' : (if n.id = id then some (⟨d + 1, n⟩ : AnyNode K V)
          else n.kids.findSome? (findNode id d)) = some ⟨d', m⟩ := hf
      simp only [hid, if_true, Option.some.injEq] at hf'
      cases hf'
      rw [modifyNode_succ_eq id f n hid]
      have := findNode_self (f (d + 1) n)
      rw [hfid] at this
      exact this
    · have hf0 := hf
      rw [findNode_succ_ne id n hid] at hf
      obtain ⟨A, c, B, hk, hc, hA⟩ := findSome?_split _ _ _ hf
      obtain ⟨hndc, hx⟩ := nodup_kid n A B c hk hnd
      have hidc : id ∈ idsOf c := findNode_some_mem hc
      have hA' : ∀ a ∈ A, id ∉ idsOf a := fun a ha => (findNode_none' id a).1 (hA a ha)
      rw [modifyNode_kid id f n A B c hid hk hA' (hx id hidc).2.2]
      rw [findNode_succ_ne id (Inner.mk n.id n.runts (A ++ modifyNode id f d c :: B) : Inner K (Node K V d)) hid]
      show (A ++ modifyNode id f d c :: B).findSome? (findNode id d) = _
      rw [List.findSome?_append]
      have : A.findSome? (findNode id d) = none := by
        rw [List.findSome?_eq_none_iff]
        exact hA
      rw [this]
      simp only [Option.none_or, List.findSome?_cons]
      rw [ih c d' m hc hndc hfid]

theorem Tree.find_modify_self {t : Tree K V} {id d' : Nat} {m : Node K V d'}
    (hf : t.find id = some ⟨d', m⟩) (hids : t.ids.Nodup) (f : (d : Nat) → Node K V d → Node K V d)
    (hfid : Node.id (f d' m) = id) : (t.modify id f).find id = some ⟨d', f d' m⟩ :=
  findNode_modify_self id f t.depth t.root d' m hf hids hfid

theorem find_putInner {t : Tree K V} {d : Nat} {p : Node K V (d + 1)} (p' : Inner K (Node K V d))
    (hf : t.find p'.id = some ⟨d + 1, p⟩) (hids : t.ids.Nodup) :
    (putInner t p').find p'.id = some ⟨d + 1, p'⟩ := by
  have := Tree.find_modify_self hf hids
    (fun d' n => if h : d' = d + 1 then h ▸ (p' : Node K V (d + 1)) else n)
    (by simp; rfl)
  rw [dif_pos rfl] at this
  exact this

/-- a leaf is determined by its identity and its own fields -/
theorem find_leaf_look {t : Tree K V} {n : Nat} {l : Leaf K V} (hf : t.find n = some ⟨0, l⟩) :
    l.id = n ∧ t.look n = some (shallow (d := 0) l) := by
  refine ⟨findNode_id hf, ?_⟩
  rw [look_eq_find, hf]
  rfl

theorem leafOf?_some {a : AnyNode K V} {l : Leaf K V} (h : leafOf? a = some l) : a = ⟨0, l⟩ := by
  obtain ⟨d, n⟩ := a
  cases d with
  | zero =>
    have : some (n : Leaf K V) = some l := h
    cases this
    rfl
  | succ d => cases h

theorem leafOf?_none {a : AnyNode K V} (h : leafOf? a = none) :
    ∃ (d : Nat) (p : Inner K (Node K V d)), a = ⟨d + 1, p⟩ := by
  obtain ⟨d, n⟩ := a
  cases d with
  | zero => cases h
  | succ d => exact ⟨d, n, rfl⟩

/-! ### the event log -/

/-- the callback notes of thread `t` in a log -/
def CbIn (t : Nat) (arg : Option V) (evs : List (Ev K V)) : Prop := Ev.note t (Note.cb arg) ∈ evs

theorem cbIn_acq (t t' : Nat) (arg : Option V) (l : Lk) (evs : List (Ev K V)) :
    CbIn t arg (Ev.acq t' l :: evs) ↔ CbIn t arg evs := by
  unfold CbIn
  simp

theorem cbIn_rel (t t' : Nat) (arg : Option V) (l : Lk) (evs : List (Ev K V)) :
    CbIn t arg (Ev.rel t' l :: evs) ↔ CbIn t arg evs := by
  unfold CbIn
  simp

theorem cbIn_note_cb (t : Nat) (arg arg' : Option V) (evs : List (Ev K V)) :
    CbIn t arg (Ev.note t (Note.cb arg') :: evs) ↔ arg = arg' ∨ CbIn t arg evs := by
  unfold CbIn
  simp

/-! ### the effect of the last stretch of an Insert/Update block -/

/-- what the rest of an Insert/Update block (from the state `s1` reached after the structural
    rewrite of the block) does -/
structure UpEff (lt : K → K → Bool) (t : Nat) (key : K) (f : Option V → V) (s1 s' : St K V) (fl : Flow K V) :
    Prop where
  ord    : OrdTree lt s'.tree
  done   : ∀ r, fl = .done r → s'.tree.abs = Spec.update lt s1.tree.abs key f
  park   : ∀ p, fl = .park p → s'.tree.abs = s1.tree.abs
  cb     : ∀ arg, CbIn t arg s'.evs → CbIn t arg s1.evs ∨ arg = Spec.lookup lt s1.tree.abs key
  kpos   : ∀ p, fl = .park p → parkKPos lt s'.tree p
  routes : ∀ key', s'.tree.routeB lt key' = s1.tree.routeB lt key'

/-- the abstract effect of the four descending continuations of Insert/Update -/
def UpAbs (lt : K → K → Bool) (t : Nat) (key : K) (f : Option V → V) (s s' : St K V) (fl : Flow K V) : Prop :=
  (∀ r, fl = .done r → s'.tree.abs = Spec.update lt s.tree.abs key f) ∧
  (∀ p, fl = .park p → s'.tree.abs = s.tree.abs) ∧
  (∀ arg, Ev.note t (.cb arg) ∈ s'.evs → Ev.note t (.cb arg) ∈ s.evs ∨ arg = Spec.lookup lt s.tree.abs key)

theorem StableRoutes.of_routes {H : List Lk} {t t' : Tree K V}
    (h : ∀ key, t'.routeB lt key = t.routeB lt key) : StableRoutes lt H t t' := by
  intro key id _ _
  unfold OnRoute InBounds
  rw [h key]
  exact ⟨fun h => h, fun h => h⟩

theorem StableRoutes.refl (H : List Lk) (t : Tree K V) : StableRoutes lt H t t :=
  StableRoutes.of_routes (fun _ => rfl)

/-- stability of the positions of the other threads, without the side conditions -/
def Stable (lt : K → K → Bool) (H : List Lk) (t t' : Tree K V) : Prop :=
  ∀ key id, Lk.node id ∉ H →
    (OnRoute lt t key id → OnRoute lt t' key id) ∧ (InBounds lt t key id → InBounds lt t' key id)

/-- composition: a structural rewrite `s → s1` that keeps the abstract map, then the last stretch -/
theorem UpEff.compose {H : List Lk} {t : Nat} {key : K} {f : Option V → V} {s s1 s' : St K V} {fl : Flow K V}
    (he : UpEff lt t key f s1 s' fl) (habs : s1.tree.abs = s.tree.abs)
    (hevs : ∀ arg, CbIn t arg s1.evs → CbIn t arg s.evs)
    (hst : Stable lt H s.tree s1.tree) :
    OrdTree lt s'.tree ∧ UpAbs lt t key f s s' fl ∧ (∀ p, fl = .park p → parkKPos lt s'.tree p) ∧
    StableRoutes lt H s.tree s'.tree := by
  refine ⟨he.ord, ⟨?_, ?_, ?_⟩, he.kpos, ?_⟩
  · intro r hr; rw [he.done r hr, habs]
  · intro p hp; rw [he.park p hp, habs]
  · intro arg ha
    rcases he.cb arg ha with h | h
    · exact Or.inl (hevs arg h)
    · exact Or.inr (by rw [h, habs])
  · intro key' id _ hH
    obtain ⟨h1, h2⟩ := hst key' id hH
    unfold OnRoute InBounds at *
    rw [he.routes key']
    exact ⟨h1, h2⟩

end Gobptree.Conc
