/-
  Key-order block lemmas for the non-Delete continuations, part 5: what `maybeSplit` does to
  an `Ord` node — the two halves, their intervals, their pairs and the routes below them.
-/
import Gobptree.Proofs.CKUpList

namespace Gobptree.Conc
open Gobptree

variable {K V : Type} {lt : K → K → Bool}

/-! ### the two halves, concretely -/

/-- `l`, `r` are the halves `maybeSplit` makes of a node with `hh + hh` entries -/
def IsSplit (hh fresh : Nat) : {d : Nat} → Node K V d → Node K V d → Node K V d → Prop
  | 0, (n : Leaf K V), (l : Leaf K V), (r : Leaf K V) =>
    l = (Leaf.mk n.id (n.keys.take hh) (n.vals.take hh) (some fresh) : Leaf K V) ∧
    r = (Leaf.mk fresh (n.keys.drop hh) (n.vals.drop hh) n.next : Leaf K V) ∧
    n.keys.length = hh + hh ∧ n.vals.length = hh + hh
  | d + 1, (n : Inner K (Node K V d)), (l : Inner K (Node K V d)), (r : Inner K (Node K V d)) =>
    l = (Inner.mk n.id (n.runts.take hh) (n.kids.take hh) : Inner K (Node K V d)) ∧
    r = (Inner.mk fresh (n.runts.drop hh) (n.kids.drop hh) : Inner K (Node K V d)) ∧
    n.runts.length = hh + hh ∧ n.kids.length = hh + hh

theorem maybeSplit_isSplit (o fresh : Nat) (hev : o % 2 = 0) : ∀ {d : Nat} (n l r : Node K V d) {m : Nat},
    NodeOcc o m (shallow n) → Node.maybeSplit o fresh n = .ok (l, some r) → IsSplit (o / 2) fresh n l r
  | 0, n, l, r, m, hocc, hms => by
    obtain ⟨c1, _, c3, _⟩ := hocc
    have hle : (n : Leaf K V).keys.length ≤ o := c1
    have hv : (n : Leaf K V).keys.length = (n : Leaf K V).vals.length := (c3 rfl).1
    have hh : o >>> 1 = o / 2 := shiftRight_one_eq o
    by_cases hlt : (n : Leaf K V).keys.length < o
    · exfalso
      have : Node.maybeSplit o fresh n = .ok (n, none) := by
        simp only [Node.maybeSplit, hlt, if_true]
        rfl
      rw [this] at hms
      cases hms
    · have h2 : (n : Leaf K V).keys.length = o / 2 + o / 2 := by omega
      have h2v : (n : Leaf K V).vals.length = o / 2 + o / 2 := by omega
      have : Node.maybeSplit o fresh n = .ok
          ((Leaf.mk (n : Leaf K V).id ((n : Leaf K V).keys.take (o / 2)) ((n : Leaf K V).vals.take (o / 2))
              (some fresh) : Leaf K V),
           some (Leaf.mk fresh ((n : Leaf K V).keys.drop (o / 2)) ((n : Leaf K V).vals.drop (o / 2))
              (n : Leaf K V).next : Leaf K V)) := by
        simp only [Node.maybeSplit, hlt, if_false, hh]
        rw [if_neg (by omega), take_drop_half _ _ h2, take_drop_half _ _ h2v]
        rfl
      rw [this] at hms
      injection hms with hms
      injection hms with e1 e2
      injection e2 with e2
      exact ⟨e1.symm, e2.symm, h2, h2v⟩
  | d + 1, n, l, r, m, hocc, hms => by
    obtain ⟨c1, _, _, c4⟩ := hocc
    have hle : (n : Inner K (Node K V d)).runts.length ≤ o := c1
    have hv : (n : Inner K (Node K V d)).runts.length = ((n : Inner K (Node K V d)).kids.map (Node.id (d := d))).length :=
      (c4 (Nat.succ_pos _)).1
    rw [List.length_map] at hv
    have hh : o >>> 1 = o / 2 := shiftRight_one_eq o
    by_cases hlt : (n : Inner K (Node K V d)).runts.length < o
    · exfalso
      have : Node.maybeSplit o fresh n = .ok (n, none) := by
        simp only [Node.maybeSplit, hlt, if_true]
        rfl
      rw [this] at hms
      cases hms
    · have h2 : (n : Inner K (Node K V d)).runts.length = o / 2 + o / 2 := by omega
      have h2v : (n : Inner K (Node K V d)).kids.length = o / 2 + o / 2 := by omega
      have : Node.maybeSplit o fresh n = .ok
          ((Inner.mk (n : Inner K (Node K V d)).id ((n : Inner K (Node K V d)).runts.take (o / 2))
              ((n : Inner K (Node K V d)).kids.take (o / 2)) : Inner K (Node K V d)),
           some (Inner.mk fresh ((n : Inner K (Node K V d)).runts.drop (o / 2))
              ((n : Inner K (Node K V d)).kids.drop (o / 2)) : Inner K (Node K V d))) := by
        simp only [Node.maybeSplit, hlt, if_false, hh]
        rw [if_neg (by omega), take_drop_half _ _ h2, take_drop_half _ _ h2v]
        rfl
      rw [this] at hms
      injection hms with hms
      injection hms with e1 e2
      injection e2 with e2
      exact ⟨e1.symm, e2.symm, h2, h2v⟩

/-- no split: the node is returned as it is -/
theorem maybeSplit_none (o fresh : Nat) : ∀ {d : Nat} (n l : Node K V d),
    Node.maybeSplit o fresh n = .ok (l, none) → l = n
  | 0, n, l, hms => by
    by_cases hlt : (n : Leaf K V).keys.length < o
    · have : Node.maybeSplit o fresh n = .ok (n, none) := by
        simp only [Node.maybeSplit, hlt, if_true]
        rfl
      rw [this] at hms
      injection hms with hms
      injection hms with e1 _
      exact e1.symm
    · exfalso
      simp only [Node.maybeSplit, hlt, if_false] at hms
      split at hms
      · cases hms
      · injection hms with hms
        injection hms with _ e2
        cases e2
  | d + 1, n, l, hms => by
    by_cases hlt : (n : Inner K (Node K V d)).runts.length < o
    · have : Node.maybeSplit o fresh n = .ok (n, none) := by
        simp only [Node.maybeSplit, hlt, if_true]
        rfl
      rw [this] at hms
      injection hms with hms
      injection hms with e1 _
      exact e1.symm
    · exfalso
      simp only [Node.maybeSplit, hlt, if_false] at hms
      split at hms
      · cases hms
      · injection hms with hms
        injection hms with _ e2
        cases e2

/-! ### ordering of the halves -/

theorem take_head {α : Type} : ∀ (L : List α) (h0 : 0 < L.length) (hh : Nat), 1 ≤ hh →
    L.take hh = L[0] :: (L.drop 1).take (hh - 1)
  | [], h0, _, _ => by simp at h0
  | a :: L, _, hh, hpos => by
    obtain ⟨m, rfl⟩ : ∃ m, hh = m + 1 := ⟨hh - 1, by omega⟩
    simp

theorem head?_getElem {α : Type} : ∀ (L : List α) (h0 : 0 < L.length), L.head? = some L[0]
  | [], h0 => by simp at h0
  | a :: L, _ => by simp

theorem loLe_of_leO {lo : Option K} {k : K} (h : leO lt lo k) : loLe lt lo (some k) := by
  cases lo with
  | none => trivial
  | some l => exact h

/-- what the split of an `Ord` node provides -/
structure SplitOrd (lt : K → K → Bool) (d : Nat) (lo hi : Option K) (n l r : Node K V d) (fresh : Nat) (s s0 : K) :
    Prop where
  smr : Node.smallest r = .ok s
  sml : Node.smallest l = .ok s0
  lo_s0 : leO lt lo s0
  s0_s : lt s0 s = true
  s_hi : ltO lt s hi
  ordl : Ord lt d (some s0) (some s) l
  ordr : Ord lt d (some s) hi r
  parl : ParN d l
  parr : ParN d r
  pairs : Node.pairs n = Node.pairs l ++ Node.pairs r
  idl : Node.id l = Node.id n
  idr : Node.id r = fresh
  route : ∀ key, rtail lt key d hi n =
    if lt key s = true then rtail lt key d (some s) l else rtail lt key d hi r

theorem SplitOrd.ordl' (h : SWO lt) {d : Nat} {lo hi : Option K} {n l r : Node K V d} {fresh : Nat} {s s0 : K}
    (sp : SplitOrd lt d lo hi n l r fresh s s0) : Ord lt d lo (some s) l :=
  Ord_mono_lo h (loLe_of_leO sp.lo_s0) sp.ordl

theorem split_ord_leaf (h : SWO lt) {lo hi : Option K} {n l r : Leaf K V} {hh fresh : Nat} (hpos : 1 ≤ hh)
    (hs : IsSplit (d := 0) hh fresh n l r) (hw : Ord lt 0 lo hi n) :
    ∃ s s0, SplitOrd lt 0 lo hi n l r fresh s s0 := by
  obtain ⟨rfl, rfl, hk, hv⟩ := hs
  obtain ⟨hsort, hb⟩ := hw
  have hhlt : hh < n.keys.length := by omega
  have h0lt : 0 < n.keys.length := by omega
  have hdropk : n.keys.drop hh = n.keys[hh] :: n.keys.drop (hh + 1) := List.drop_eq_getElem_cons hhlt
  have htake : n.keys.take hh = n.keys[0] :: (n.keys.drop 1).take (hh - 1) := take_head _ h0lt hh hpos
  refine ⟨n.keys[hh], n.keys[0], ?_, ?_, (hb _ (List.getElem_mem _)).1, sorted_getElem_lt hsort (by omega) hhlt,
    (hb _ (List.getElem_mem _)).2, ⟨sorted_take hsort _, ?_⟩, ⟨sorted_drop hsort _, ?_⟩, trivial, trivial, ?_,
    rfl, rfl, fun _ => by simp [rtail]⟩
  · show (match n.keys.drop hh with | [] => throw Panic.noChildren | k :: _ => pure k) = _
    rw [hdropk]; rfl
  · show (match n.keys.take hh with | [] => throw Panic.noChildren | k :: _ => pure k) = _
    rw [htake]; rfl
  · intro k hkm
    obtain ⟨i, hi, e'⟩ := List.getElem_of_mem hkm
    rw [List.length_take] at hi
    rw [List.getElem_take] at e'
    rw [← e']
    refine ⟨?_, sorted_getElem_lt hsort (by omega) hhlt⟩
    show lt n.keys[i] n.keys[0] = false
    by_cases e : i = 0
    · subst e; exact h.irrefl _
    · exact h.le_of_lt (sorted_getElem_lt hsort (by omega) (by omega))
  · intro k hkm
    refine ⟨?_, (hb k (List.mem_of_mem_drop hkm)).2⟩
    show lt k n.keys[hh] = false
    rw [hdropk] at hkm
    cases List.mem_cons.mp hkm with
    | inl e' => rw [e']; exact h.irrefl _
    | inr hm =>
      obtain ⟨i, hi, e'⟩ := List.getElem_of_mem hm
      rw [List.length_drop] at hi
      rw [List.getElem_drop] at e'
      rw [← e']
      exact h.le_of_lt (sorted_getElem_lt hsort (by omega) (by omega))
  · show n.keys.zip n.vals = (n.keys.take hh).zip (n.vals.take hh) ++ (n.keys.drop hh).zip (n.vals.drop hh)
    rw [← zip_surgery _ _ _ _ (by simp [List.length_take]; omega), List.take_append_drop, List.take_append_drop]

theorem split_ord_inner (h : SWO lt) {d : Nat} {lo hi : Option K} {n l r : Inner K (Node K V d)} {hh fresh : Nat}
    (hpos : 1 ≤ hh) (hs : IsSplit (d := d + 1) hh fresh n l r) (hw : Ord lt (d + 1) lo hi n)
    (hpar : ParN (d + 1) n) :
    ∃ s s0, SplitOrd lt (d + 1) lo hi n l r fresh s s0 := by
  obtain ⟨rfl, rfl, hk, hv⟩ := hs
  have hsort := Ord_sorted h n hw hpar
  obtain ⟨hlo, g⟩ := hw
  obtain ⟨_, _, hpk⟩ := hpar
  have hhlt : hh < n.runts.length := by omega
  have hhltk : hh < n.kids.length := by omega
  have h0lt : 0 < n.runts.length := by omega
  have hdropk : n.runts.drop hh = n.runts[hh] :: n.runts.drop (hh + 1) := List.drop_eq_getElem_cons hhlt
  have hdropc : n.kids.drop hh = n.kids[hh] :: n.kids.drop (hh + 1) := List.drop_eq_getElem_cons hhltk
  have htake : n.runts.take hh = n.runts[0] :: (n.runts.drop 1).take (hh - 1) := take_head _ h0lt hh hpos
  have hz : n.runts.zip n.kids =
      (n.runts.take hh).zip (n.kids.take hh) ++ (n.runts.drop hh).zip (n.kids.drop hh) := by
    rw [← zip_surgery _ _ _ _ (by simp [List.length_take]; omega), List.take_append_drop, List.take_append_drop]
  rw [hz, Kids_append] at g
  have hnl : nextLo hi ((n.runts.drop hh).zip (n.kids.drop hh)) = some n.runts[hh] := by
    rw [hdropk, hdropc]; rfl
  rw [hnl] at g
  have hsm : n.runts[hh]? = some n.runts[hh] := List.getElem?_eq_getElem hhlt
  have hs0 : leO lt lo n.runts[0] := hlo _ (head?_getElem _ h0lt)
  refine ⟨n.runts[hh], n.runts[0], ?_, ?_, hs0, sorted_getElem_lt hsort (by omega) hhlt, ?_,
    ⟨?_, g.1⟩, ⟨?_, g.2⟩, ⟨?_, ?_, ?_⟩, ⟨?_, ?_, ?_⟩, ?_, rfl, rfl, ?_⟩
  · show (match n.runts.drop hh with | [] => throw Panic.noChildren | k :: _ => pure k) = _
    rw [hdropk]; rfl
  · show (match n.runts.take hh with | [] => throw Panic.noChildren | k :: _ => pure k) = _
    rw [htake]; rfl
  · have hkeys := Kids_keys_lt h hi _ g.2
    rw [hdropk, hdropc] at hkeys
    exact hkeys (n.runts[hh], n.kids[hh]) (by rw [List.zip_cons_cons]; exact List.mem_cons_self ..)
  · intro k hkh
    have hkh' : (n.runts.take hh).head? = some k := hkh
    rw [htake] at hkh'
    simp only [List.head?_cons, Option.some.injEq] at hkh'
    subst hkh'
    exact h.irrefl _
  · intro k hkh
    have hkh' : (n.runts.drop hh).head? = some k := hkh
    rw [hdropk] at hkh'
    simp only [List.head?_cons, Option.some.injEq] at hkh'
    subst hkh'
    exact h.irrefl _
  · show (n.runts.take hh).length = (n.kids.take hh).length
    simp [List.length_take]; omega
  · show 1 ≤ (n.runts.take hh).length
    simp [List.length_take]; omega
  · intro c hc
    exact hpk c (List.mem_of_mem_take hc)
  · show (n.runts.drop hh).length = (n.kids.drop hh).length
    simp [List.length_drop]; omega
  · show 1 ≤ (n.runts.drop hh).length
    simp [List.length_drop]; omega
  · intro c hc
    exact hpk c (List.mem_of_mem_drop hc)
  · show n.kids.flatMap (Node.pairs (d := d)) =
      (n.kids.take hh).flatMap (Node.pairs (d := d)) ++ (n.kids.drop hh).flatMap (Node.pairs (d := d))
    rw [← List.flatMap_append, List.take_append_drop]
  · -- routes
    intro key
    have hne : n.runts ≠ [] := by intro e; rw [e] at h0lt; simp at h0lt
    have hp := searchLE_picks h key n.runts hsort hne
    have hj := searchLE_lt_length (lt := lt) key n.runts hne
    have hsj : n.runts[searchLE lt key n.runts]? = some n.runts[searchLE lt key n.runts] :=
      List.getElem?_eq_getElem hj
    have hcj : n.kids[searchLE lt key n.runts]? = some (n.kids[searchLE lt key n.runts]'(by omega)) :=
      List.getElem?_eq_getElem (by omega)
    show routeKid lt key hi n = _
    rw [routeKid_eq key hi n _ _ _ rfl hsj hcj]
    by_cases c : lt key n.runts[hh] = true
    · rw [if_pos c]
      obtain ⟨hjl, hpt⟩ := picks_take h key n.runts hh _ hpos hsort hsm c _ hp
      have e := picks_unique h key _ (sorted_take hsort hh) _ hpt
      show _ = routeKid lt key (some n.runts[hh]) (Inner.mk n.id (n.runts.take hh) (n.kids.take hh) : Inner K (Node K V d))
      rw [routeKid_eq key (some n.runts[hh]) (Inner.mk n.id (n.runts.take hh) (n.kids.take hh) : Inner K (Node K V d))
        _ _ _ e (by show (n.runts.take hh)[_]? = _; rw [List.getElem?_take, if_pos hjl]; exact hsj)
        (by show (n.kids.take hh)[_]? = _; rw [List.getElem?_take, if_pos hjl]; exact hcj)]
      show _ = routeB lt key d _ (hiAt (n.runts.take hh) _ (some n.runts[hh])) _
      rw [hiAt_take n.runts hh _ hi hsm _ hjl]
    · rw [if_neg c]
      have c' : lt key n.runts[hh] = false := by simpa using c
      obtain ⟨hjl, hpt⟩ := picks_drop key n.runts hh _ hsm c' _ hp
      have e := picks_unique h key _ (sorted_drop hsort hh) _ hpt
      have hadd : hh + (searchLE lt key n.runts - hh) = searchLE lt key n.runts := by omega
      show _ = routeKid lt key hi (Inner.mk fresh (n.runts.drop hh) (n.kids.drop hh) : Inner K (Node K V d))
      rw [routeKid_eq key hi (Inner.mk fresh (n.runts.drop hh) (n.kids.drop hh) : Inner K (Node K V d))
        _ _ _ e (by show (n.runts.drop hh)[_]? = _; rw [List.getElem?_drop, hadd]; exact hsj)
        (by show (n.kids.drop hh)[_]? = _; rw [List.getElem?_drop, hadd]; exact hcj)]
      show _ = routeB lt key d _ (hiAt (n.runts.drop hh) _ hi) _
      rw [hiAt_drop, hadd]

theorem split_ord (h : SWO lt) : ∀ {d : Nat} {lo hi : Option K} {n l r : Node K V d} {hh fresh : Nat},
    1 ≤ hh → IsSplit hh fresh n l r → Ord lt d lo hi n → ParN d n →
    ∃ s s0, SplitOrd lt d lo hi n l r fresh s s0
  | 0, _, _, _, _, _, _, _, hpos, hs, hw, _ => split_ord_leaf h hpos hs hw
  | _ + 1, _, _, _, _, _, _, _, hpos, hs, hw, hpar => split_ord_inner h hpos hs hw hpar

end Gobptree.Conc
