/-
  The leaf chain: `Linked d after n` says the leaves beneath `n` are linked in
  order through `next` and the last one points to `after`.
-/
import Gobptree.Proofs.WFLemmas2

namespace Gobptree

variable {K V : Type} {lt : K → K → Bool}

/-- identity of the leftmost leaf beneath a node (0 for a childless inner node) -/
def Node.firstId : {d : Nat} → Node K V d → Nat
  | 0, (l : Leaf K V) => l.id
  | d + 1, (i : Inner K (Node K V d)) =>
    match i.kids with
    | [] => 0
    | c :: _ => Node.firstId (d := d) c

/-- what the entry in front of `rest` must point to -/
def afterOf {C : Type} (first : C → Nat) (after : Option Nat) : List C → Option Nat
  | [] => after
  | c :: _ => some (first c)

def LinkedKids {C : Type} (L : Option Nat → C → Prop) (first : C → Nat) (after : Option Nat) :
    List C → Prop
  | [] => True
  | c :: rest => L (afterOf first after rest) c ∧ LinkedKids L first after rest

def Linked : (d : Nat) → Option Nat → Node K V d → Prop
  | 0, after, (l : Leaf K V) => l.next = after
  | d + 1, after, (i : Inner K (Node K V d)) => LinkedKids (Linked d) (Node.firstId (d := d)) after i.kids

theorem LinkedKids_append {C : Type} (L : Option Nat → C → Prop) (first : C → Nat) (after : Option Nat)
    (l r : List C) :
    LinkedKids L first after (l ++ r) ↔ LinkedKids L first (afterOf first after r) l ∧ LinkedKids L first after r := by
  induction l with
  | nil => simp [LinkedKids]
  | cons c l ih =>
    have hn : afterOf first after (l ++ r) = afterOf first (afterOf first after r) l := by
      cases l <;> rfl
    simp only [List.cons_append, LinkedKids, ih, hn]
    constructor
    · rintro ⟨a, b, c⟩; exact ⟨⟨a, b⟩, c⟩
    · rintro ⟨⟨a, b⟩, c⟩; exact ⟨a, b, c⟩

theorem LinkedKids_cons {C : Type} (L : Option Nat → C → Prop) (first : C → Nat) (after : Option Nat)
    (c : C) (rest : List C) :
    LinkedKids L first after (c :: rest) ↔ L (afterOf first after rest) c ∧ LinkedKids L first after rest :=
  Iff.rfl

theorem firstId_mk_cons {d : Nat} (id : Nat) (runts : List K) (c : Node K V d) (rest : List (Node K V d)) :
    Node.firstId (d := d + 1) (Inner.mk id runts (c :: rest) : Inner K (Node K V d)) = Node.firstId c := rfl

theorem firstId_mk_append {d : Nat} (id : Nat) (runts : List K) (a : List (Node K V d)) (c : Node K V d)
    (b : List (Node K V d)) (x : Node K V d) (hx : Node.firstId x = Node.firstId c) (runts' : List K) (id' : Nat)
    (y : List (Node K V d)) :
    Node.firstId (d := d + 1) (Inner.mk id' runts' (a ++ x :: y) : Inner K (Node K V d)) =
    Node.firstId (d := d + 1) (Inner.mk id runts (a ++ c :: b) : Inner K (Node K V d)) := by
  cases a with
  | nil => exact hx
  | cons a0 a' => rfl

end Gobptree
