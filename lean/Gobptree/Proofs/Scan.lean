/-
  Scanning: the leaf chain as a list, the cursor loop on a chained list of leaves,
  the landing leaf of `NewScanner`, and `scanFrom = Spec.from`.
-/
import Gobptree.Proofs.RunOk

namespace Gobptree

variable {K V : Type} {lt : K → K → Bool}

/-- the chain over an in-order list of leaves: each `next` is the identity of the
    following leaf, the last one's is `after` -/
def ChainList : List (Leaf K V) → Option Nat → Prop
  | [], _ => True
  | [l], after => l.next = after
  | l :: l2 :: rest, after => l.next = some l2.id ∧ ChainList (l2 :: rest) after

def leafPairs (l : Leaf K V) : List (K × V) := l.keys.zip l.vals

/-- `Node.pairs` is the concatenation of the leaves' pairs -/
theorem pairs_eq_leaves : ∀ {d : Nat} (n : Node K V d),
    Node.pairs n = (Node.leaves n).flatMap leafPairs := by
  intro d
  induction d with
  | zero => intro n; exact (List.append_nil _).symm
  | succ d ih =>
    intro n
    show (n : Inner K (Node K V d)).kids.flatMap (Node.pairs (d := d)) = _
    simp only [Node.leaves, List.flatMap_assoc]
    congr 1
    funext c
    exact ih c

/-- every entry of a `Kids` list satisfies `R` for some bounds -/
theorem Kids_mem {C : Type} {R : Option K → Option K → C → Prop} (hi : Option K) :
    ∀ (es : List (K × C)), Kids lt R hi es → ∀ e ∈ es, ∃ a b, R a b e.2 := by
  intro es
  induction es with
  | nil => intro _ e he; cases he
  | cons x rest ih =>
    obtain ⟨k, c⟩ := x
    intro hk e he
    obtain ⟨h1, _, h3⟩ := hk
    rcases List.mem_cons.1 he with rfl | he
    · exact ⟨_, _, h1⟩
    · exact ih h3 e he

/-- every kid of a well-formed inner node is well formed (with minimum `o / 2`) -/
theorem WF_kid {o : Nat} {d : Nat} {m : Nat} {lo hi : Option K} {i : Inner K (Node K V d)}
    (hw : WF lt o (d + 1) m lo hi (i : Node K V (d + 1))) :
    ∀ c ∈ i.kids, ∃ a b, WF lt o d (o / 2) a b c := by
  obtain ⟨hlen, _, _, _, _, hk⟩ := hw
  intro c hc
  rw [← map_snd_zip_eq i.runts i.kids hlen] at hc
  obtain ⟨e, he, rfl⟩ := List.mem_map.1 hc
  exact Kids_mem hi _ hk e he

theorem firstId_of_kids {d : Nat} (i : Inner K (Node K V d)) (c : Node K V d)
    (cs : List (Node K V d)) (hk : i.kids = c :: cs) :
    Node.firstId (d := d + 1) i = Node.firstId c := by
  cases i; cases hk; rfl

theorem ChainList_append : ∀ (l1 : List (Leaf K V)) (x : Leaf K V) (l2 : List (Leaf K V))
    (after : Option Nat),
    ChainList l1 (some x.id) → ChainList (x :: l2) after → ChainList (l1 ++ x :: l2) after := by
  intro l1
  induction l1 with
  | nil => intro x l2 after _ h2; exact h2
  | cons a l1 ih =>
    intro x l2 after h1 h2
    cases l1 with
    | nil => exact ⟨h1, h2⟩
    | cons b l1' => exact ⟨h1.1, ih x l2 after h1.2 h2⟩

/-- the chain over the leaves of a list of linked kids, each of which has a chained,
    non-empty leaf list starting with its `firstId` -/
theorem LinkedKids_chainList {d : Nat} :
    ∀ (kids : List (Node K V d)) (after : Option Nat),
      (∀ k ∈ kids, ∀ aft, Linked d aft k →
        ChainList (Node.leaves k) aft ∧
        ∃ l rest, Node.leaves k = l :: rest ∧ l.id = Node.firstId k) →
      LinkedKids (Linked d) (Node.firstId (d := d)) after kids →
      ChainList (kids.flatMap (Node.leaves (d := d))) after ∧
      ∀ c cs, kids = c :: cs →
        ∃ l rest, kids.flatMap (Node.leaves (d := d)) = l :: rest ∧ l.id = Node.firstId c := by
  intro kids
  induction kids with
  | nil => intro after _ _; exact ⟨trivial, fun c cs e => by cases e⟩
  | cons c cs ih =>
    intro after hall hlk
    obtain ⟨hc, hcs⟩ := hlk
    have ihcs := ih after (fun k hk => hall k (List.mem_cons_of_mem _ hk)) hcs
    obtain ⟨hchain, l, rest, hl, hid⟩ := hall c List.mem_cons_self _ hc
    have hhead : ∀ c' cs', c :: cs = c' :: cs' →
        ∃ l rest, (c :: cs).flatMap (Node.leaves (d := d)) = l :: rest ∧ l.id = Node.firstId c' := by
      intro c' cs' e
      cases e
      exact ⟨l, rest ++ cs.flatMap (Node.leaves (d := d)), by rw [List.flatMap_cons, hl]; rfl, hid⟩
    refine ⟨?_, hhead⟩
    rw [List.flatMap_cons]
    cases cs with
    | nil =>
      rw [List.flatMap_nil, List.append_nil]
      exact hchain
    | cons c2 cs' =>
      obtain ⟨l2, rest2, hl2, hid2⟩ := ihcs.2 c2 cs' rfl
      rw [hl2]
      apply ChainList_append
      · have : afterOf (Node.firstId (d := d)) after (c2 :: cs') = some l2.id := by
          show some _ = some _
          rw [hid2]
        rw [← this]; exact hchain
      · rw [← hl2]; exact ihcs.1

/-- (1) the `Linked` chain of a well-formed node, read off its in-order leaf list -/
theorem Linked_chainList (h : SWO lt) {o : Nat} :
    ∀ {d : Nat} {m : Nat} {lo hi : Option K} {n : Node K V d} {after : Option Nat},
      WF lt o d m lo hi n → Linked d after n →
      ChainList (Node.leaves n) after ∧
      ∃ l rest, Node.leaves n = l :: rest ∧ l.id = Node.firstId n := by
  intro d
  induction d with
  | zero =>
    intro m lo hi n after _ hl
    exact ⟨hl, n, [], rfl, rfl⟩
  | succ d ih =>
    intro m lo hi n after hw hl
    have hkid := WF_kid (i := n) hw
    have hne : 1 ≤ (n : Inner K (Node K V d)).kids.length := by
      have h4 := hw.2.2.2.1
      have h1 := hw.1
      omega
    have hl' : LinkedKids (Linked d) (Node.firstId (d := d)) after (n : Inner K (Node K V d)).kids := hl
    have key := LinkedKids_chainList (n : Inner K (Node K V d)).kids after
      (fun k hk aft hlk => by
        obtain ⟨a, b, hwk⟩ := hkid k hk
        exact ih hwk hlk) hl'
    refine ⟨key.1, ?_⟩
    cases hkids : (n : Inner K (Node K V d)).kids with
    | nil => rw [hkids] at hne; simp at hne
    | cons c cs =>
      obtain ⟨l, rest, e1, e2⟩ := key.2 c cs hkids
      refine ⟨l, rest, e1, ?_⟩
      rw [e2]
      exact (firstId_of_kids (n : Inner K (Node K V d)) c cs hkids).symm

theorem WF_leaves_aux {o : Nat} :
    ∀ (d : Nat) (m : Nat) (lo hi : Option K) (n : Node K V d),
      WF lt o d m lo hi n →
      ∀ l ∈ Node.leaves n, Sorted lt l.keys ∧ l.keys.length = l.vals.length ∧
        (d = 0 → m ≤ l.keys.length) ∧ (d ≠ 0 → o / 2 ≤ l.keys.length) := by
  intro d
  induction d with
  | zero =>
    intro m lo hi n hw l hl
    have hl' : l ∈ [(n : Leaf K V)] := hl
    have : l = n := List.mem_singleton.1 hl'
    subst this
    obtain ⟨h1, h2, _, h4, _⟩ := hw
    exact ⟨h1, h2, fun _ => h4, fun h => absurd rfl h⟩
  | succ d ih =>
    intro m lo hi n hw l hl
    have hl' : l ∈ (n : Inner K (Node K V d)).kids.flatMap (Node.leaves (d := d)) := hl
    obtain ⟨c, hc, hlc⟩ := List.mem_flatMap.1 hl'
    obtain ⟨a, b, hwc⟩ := WF_kid (i := n) hw c hc
    obtain ⟨h1, h2, h3, h4⟩ := ih (o / 2) a b c hwc l hlc
    refine ⟨h1, h2, fun h0 => absurd h0 (Nat.succ_ne_zero d), fun _ => ?_⟩
    cases d with
    | zero => exact h3 rfl
    | succ d' => exact h4 (by omega)

/-- every leaf of a well-formed non-root node is sorted, has as many values as keys and,
    if `1 ≤ o / 2`, is non-empty; for the root leaf only the first two -/
theorem WF_leaves (h : SWO lt) {o : Nat} :
    ∀ {d : Nat} {m : Nat} {lo hi : Option K} {n : Node K V d},
      WF lt o d m lo hi n →
      ∀ l ∈ Node.leaves n, Sorted lt l.keys ∧ l.keys.length = l.vals.length ∧ (d ≠ 0 → o / 2 ≤ l.keys.length) := by
  intro d m lo hi n hw l hl
  obtain ⟨h1, h2, _, h4⟩ := WF_leaves_aux (lt := lt) (o := o) d m lo hi n hw l hl
  exact ⟨h1, h2, h4⟩

/-- the cursor loop of `Tree.scanFrom` (its local function `go`) -/
def scanLoop (t : Tree K V) : Nat → Cursor → List (K × V) → R (List (K × V) × Bool)
  | 0, _, acc => pure (acc.reverse, false)
  | fuel + 1, c, acc => do
    let (c', more) ← t.scan c
    if !more then pure (acc.reverse, true)
    else
      let kv ← t.pair c'
      scanLoop t fuel c' (kv :: acc)

/-- (a) looking a leaf up by its identity finds it when the identities are distinct -/
theorem find?_id_of_nodup : ∀ (ls : List (Leaf K V)), (ls.map (·.id)).Nodup →
    ∀ (j : Nat) (hj : j < ls.length), ls.find? (fun l => l.id == ls[j].id) = some ls[j]
  | [], _, j, hj => absurd hj (by simp)
  | l :: rest, _, 0, _ => by simp
  | l :: rest, hnd, j + 1, hj => by
    have hnd' : l.id ∉ rest.map (·.id) ∧ (rest.map (·.id)).Nodup :=
      List.nodup_cons.mp (by simpa using hnd)
    have hj' : j < rest.length := by simpa using hj
    have hne : (l.id == rest[j].id) = false := by
      apply beq_false_of_ne
      intro h
      apply hnd'.1
      rw [h]
      exact List.mem_map.mpr ⟨rest[j], List.getElem_mem _, rfl⟩
    simp only [List.getElem_cons_succ, List.find?_cons, hne]
    exact find?_id_of_nodup rest hnd'.2 j hj'

/-- (b) the `next` of the `j`-th leaf of a chained list -/
theorem ChainList_next : ∀ (ls : List (Leaf K V)) (after : Option Nat), ChainList ls after →
    ∀ (j : Nat) (hj : j < ls.length),
      (∀ h : j + 1 < ls.length, ls[j].next = some ls[j + 1].id) ∧
      (j + 1 = ls.length → ls[j].next = after)
  | [], _, _, j, hj => absurd hj (by simp)
  | [l], after, hc, 0, _ => ⟨fun h => absurd h (by simp), fun _ => hc⟩
  | [l], _, _, j + 1, hj => absurd hj (by simp)
  | l :: l2 :: rest, after, hc, 0, _ => ⟨fun _ => hc.1, fun h => absurd h (by simp)⟩
  | l :: l2 :: rest, after, hc, j + 1, hj => by
    have hj' : j < (l2 :: rest).length := by simpa using hj
    have ih := ChainList_next (l2 :: rest) after hc.2 j hj'
    refine ⟨fun h => ?_, fun h => ?_⟩
    · have h' : j + 1 < (l2 :: rest).length := by simpa using h
      simpa using ih.1 h'
    · have h' : j + 1 = (l2 :: rest).length := by simpa using h
      simpa using ih.2 h'

theorem leafPairs_length (l : Leaf K V) (h : l.keys.length = l.vals.length) :
    (leafPairs l).length = l.keys.length := by
  simp [leafPairs, List.length_zip, h]

theorem scan_found (t : Tree K V) (id : Nat) (l : Leaf K V) (i : Int)
    (h : t.findLeaf id = some l) :
    t.scan { leaf := some id, i := i } =
      if i + 1 = (l.keys.length : Int) then
        match l.next with
        | none => pure ({ leaf := none, i := i + 1 }, false)
        | some n => pure ({ leaf := some n, i := 0 }, true)
      else pure ({ leaf := some id, i := i + 1 }, true) := by
  simp only [Tree.scan, h]
  rfl

theorem pair_found (t : Tree K V) (id : Nat) (l : Leaf K V) (n : Nat)
    (h : t.findLeaf id = some l) (hlen : l.keys.length = l.vals.length)
    (hn : n < (leafPairs l).length) :
    t.pair { leaf := some id, i := (n : Int) } = .ok ((leafPairs l)[n]) := by
  have hk : n < l.keys.length := by rw [leafPairs_length l hlen] at hn; exact hn
  have hv : n < l.vals.length := by omega
  have h0 : ¬ ((n : Int) < 0) := by omega
  simp only [Tree.pair, h, h0, if_false, Int.toNat_natCast, List.getElem?_eq_getElem hk,
    List.getElem?_eq_getElem hv, leafPairs, List.getElem_zip]
  rfl

/-- (2) the loop on a chained, duplicate-free list of non-empty leaves: started on leaf
    number `j` at index `i`, it yields the rest of that leaf and all following leaves -/
theorem scanLoop_ok (t : Tree K V) (ls : List (Leaf K V)) (hls : Node.leaves t.root = ls)
    (hchain : ChainList ls none) (hnodup : (ls.map (·.id)).Nodup)
    (hlen : ∀ l ∈ ls, l.keys.length = l.vals.length)
    (hne : ∀ (j : Nat) (hj : j < ls.length), 0 < j → 0 < ls[j].keys.length) :
    ∀ (fuel : Nat) (j : Nat) (hj : j < ls.length) (i : Int) (acc : List (K × V)),
      -1 ≤ i → i + 1 ≤ (ls[j].keys.length : Int) →
      ((leafPairs ls[j]).drop (i + 1).toNat ++ (ls.drop (j + 1)).flatMap leafPairs).length < fuel →
      scanLoop t fuel { leaf := some ls[j].id, i := i } acc =
        .ok (acc.reverse ++ ((leafPairs ls[j]).drop (i + 1).toNat ++ (ls.drop (j + 1)).flatMap leafPairs), true) := by
  intro fuel
  induction fuel with
  | zero => intro j hj i acc _ _ hf; exact absurd hf (Nat.not_lt_zero _)
  | succ fuel ih =>
    intro j hj i acc hi1 hi2 hf
    obtain ⟨n, hn⟩ : ∃ n : Nat, i + 1 = (n : Int) := ⟨(i + 1).toNat, by omega⟩
    have hfind : t.findLeaf ls[j].id = some ls[j] := by
      unfold Tree.findLeaf; rw [hls]; exact find?_id_of_nodup ls hnodup j hj
    have hlenj := hlen ls[j] (List.getElem_mem hj)
    have hpl := leafPairs_length ls[j] hlenj
    rw [hn, Int.toNat_natCast] at hf ⊢
    have hnle : n ≤ ls[j].keys.length := by omega
    unfold scanLoop
    rw [scan_found t _ _ i hfind, hn]
    by_cases hend : n = ls[j].keys.length
    · have hend' : (n : Int) = (ls[j].keys.length : Int) := by omega
      rw [if_pos hend']
      have hdrop : (leafPairs ls[j]).drop n = [] := List.drop_eq_nil_of_le (by omega)
      rw [hdrop] at hf ⊢
      by_cases hlast : j + 1 < ls.length
      · have hnext := (ChainList_next ls none hchain j hj).1 hlast
        rw [hnext]
        have hfind' : t.findLeaf ls[j + 1].id = some ls[j + 1] := by
          unfold Tree.findLeaf; rw [hls]; exact find?_id_of_nodup ls hnodup (j + 1) hlast
        have hlen' := hlen ls[j + 1] (List.getElem_mem hlast)
        have hpl' := leafPairs_length ls[j + 1] hlen'
        have hpos := hne (j + 1) hlast (by omega)
        have hpos' : 0 < (leafPairs ls[j + 1]).length := by omega
        have hpair : t.pair { leaf := some ls[j + 1].id, i := 0 } =
            .ok ((leafPairs ls[j + 1])[0]) := pair_found t _ _ 0 hfind' hlen' hpos'
        have hd1 : ls.drop (j + 1) = ls[j + 1] :: ls.drop (j + 1 + 1) :=
          List.drop_eq_getElem_cons hlast
        have hd2 : leafPairs ls[j + 1] =
            (leafPairs ls[j + 1])[0] :: (leafPairs ls[j + 1]).drop 1 := by
          have := List.drop_eq_getElem_cons (l := leafPairs ls[j + 1]) (i := 0) hpos'
          simpa using this
        have hrem : ([] : List (K × V)) ++ (ls.drop (j + 1)).flatMap leafPairs =
            (leafPairs ls[j + 1])[0] ::
              ((leafPairs ls[j + 1]).drop 1 ++ (ls.drop (j + 1 + 1)).flatMap leafPairs) := by
          rw [hd1, List.flatMap_cons, List.nil_append]
          conv => lhs; rw [hd2]
          rfl
        rw [hrem] at hf ⊢
        have hih := ih (j + 1) hlast 0 ((leafPairs ls[j + 1])[0] :: acc) (by omega) (by omega)
          (by
            have : ((0 : Int) + 1).toNat = 1 := rfl
            rw [this]
            simp only [List.length_cons] at hf
            omega)
        have h1 : ((0 : Int) + 1).toNat = 1 := rfl
        rw [h1] at hih
        simp only [pure, Except.pure, bind, Except.bind, Bool.not_true, hpair, hih,
          List.reverse_cons, List.append_assoc, List.singleton_append]
        rfl
      · have hnext := (ChainList_next ls none hchain j hj).2 (by omega)
        rw [hnext]
        have hd : ls.drop (j + 1) = [] := List.drop_eq_nil_of_le (by omega)
        rw [hd]
        simp only [List.flatMap_nil, List.append_nil]
        rfl
    · have hend' : ¬ ((n : Int) = (ls[j].keys.length : Int)) := by omega
      rw [if_neg hend']
      have hnlt : n < (leafPairs ls[j]).length := by omega
      have hpair : t.pair { leaf := some ls[j].id, i := (n : Int) } =
          .ok ((leafPairs ls[j])[n]) := pair_found t _ _ n hfind hlenj hnlt
      have hd : (leafPairs ls[j]).drop n =
          (leafPairs ls[j])[n] :: (leafPairs ls[j]).drop (n + 1) :=
        List.drop_eq_getElem_cons hnlt
      rw [hd] at hf ⊢
      have h1 : ((n : Int) + 1).toNat = n + 1 := by omega
      have hih := ih j hj (n : Int) ((leafPairs ls[j])[n] :: acc) (by omega) (by omega)
        (by
          rw [h1]
          simp only [List.cons_append, List.length_cons] at hf
          omega)
      rw [h1] at hih
      simp only [pure, Except.pure, bind, Except.bind, Bool.not_true, hpair, hih,
        List.reverse_cons, List.append_assoc, List.cons_append]
      rfl

end Gobptree
