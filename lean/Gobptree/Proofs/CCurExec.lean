/-
  C04 at the level of scheduler steps.  One step of a thread is a first stretch (a `resume`, or
  the first `startOp`) followed by the operations it starts until it parks.  `StepExec c t s1 op n`
  says that the step of thread `t` in `c` starts operation `op` (number `n` of its program) in
  state `s1`.  In a reachable configuration every such `s1` carries the tree of the configuration
  the step ends in, and the cursor invariant — so the block lemmas of `CCurStep` apply to every
  `Scan` / `Pair` call that is ever executed.  Likewise for the two resumed stretches that belong
  to cursor calls (`NewScanner`'s arrival at the leaf, the hop).
-/
import Gobptree.Proofs.CCurInv

namespace Gobptree.Conc
open Gobptree

variable {K V : Type} {lt : K → K → Bool}

/-- `threadLoop t th fuel s fl pc` starts operation `op` (number `n`) in state `s1` -/
inductive LoopExec (t : Nat) (th : Thread K V) : Nat → St K V → Flow K V → Nat → St K V → COp K V → Nat → Prop
  | here (fuel : Nat) (s : St K V) (r : Res K V) (pc : Nat) (op : COp K V) (h : th.prog[pc + 1]? = some op) :
      LoopExec t th (fuel + 1) s (.done r) pc ((s.note t (.ret pc r)).note t (.inv (pc + 1))) op (pc + 1)
  | later (fuel : Nat) (s : St K V) (r : Res K V) (pc : Nat) (op : COp K V) (s1 : St K V) (op1 : COp K V) (n : Nat)
      (h : th.prog[pc + 1]? = some op)
      (hl : LoopExec t th fuel (startOp t ((s.note t (.ret pc r)).note t (.inv (pc + 1))) op).1
              (startOp t ((s.note t (.ret pc r)).note t (.inv (pc + 1))) op).2 (pc + 1) s1 op1 n) :
      LoopExec t th (fuel + 1) s (.done r) pc s1 op1 n

/-- the step of thread `t` in `c` starts operation `op` (number `n` of its program) in state `s1` -/
def StepExec (c : Config K V) (t : Nat) (s1 : St K V) (op : COp K V) (n : Nat) : Prop :=
  ∃ th, c.threads[t]? = some th ∧
    match th.park with
    | .start =>
      ∃ op0, th.prog[0]? = some op0 ∧
        ((op = op0 ∧ s1 = (stepSt c t th).note t (.inv 0) ∧ n = 0) ∨
          LoopExec t th th.prog.length (startOp t ((stepSt c t th).note t (.inv 0)) op0).1
            (startOp t ((stepSt c t th).note t (.inv 0)) op0).2 0 s1 op n)
    | .want _ k =>
      LoopExec t th th.prog.length (resume c.P t (stepSt c t th) k).1 (resume c.P t (stepSt c t th) k).2 th.pc s1 op n
    | .yielded k =>
      LoopExec t th th.prog.length (resume c.P t (stepSt c t th) k).1 (resume c.P t (stepSt c t th) k).2 th.pc s1 op n
    | .finished => False

theorem loopExec_inv (h : SWO lt) (t : Nat) (th : Thread K V) (T : Tree K V) {hole : Option Nat}
    (hok : TreeOk hole T) (hord : OrdTree lt T) :
    ∀ (fuel : Nat) (s : St K V) (fl : Flow K V) (pc : Nat) (s1 : St K V) (op : COp K V) (n : Nat),
      LoopExec t th fuel s fl pc s1 op n → s.tree = T →
      CursorOk T (flowIsHop fl) s.cursor → CurW lt T s.cursor →
      s1.tree = T ∧ CursorOk T false s1.cursor ∧ CurW lt T s1.cursor ∧ th.prog[n]? = some op := by
  intro fuel s fl pc s1 op n hx
  induction hx with
  | here fuel s r pc op hop =>
    intro hT hc hw
    exact ⟨hT, hc, hw, hop⟩
  | later fuel s r pc op s1 op1 n hop _ ih =>
    intro hT hc hw
    have hs1 : ((s.note t (.ret pc r)).note t (.inv (pc + 1))).tree = T := hT
    have hst := startOp_curW h t ((s.note t (.ret pc r)).note t (.inv (pc + 1))) op
      (by rw [hs1]; exact hok) (by rw [hs1]; exact hord) (by rw [hs1]; exact hc) (by rw [hs1]; exact hw)
    rw [hs1] at hst
    exact ih (by rw [startOp_tree]; exact hs1) hst.1 hst.2

/-- what holds of the state after the first stretch of a resumed thread -/
theorem resumed_state (lt : K → K → Bool) (c c' : Config K V) (t : Nat)
    (hstep : c.step t = some c') (h : KFInv lt c) (hw : ∀ th ∈ c.threads, CursorPosW lt c.tree th)
    {th : Thread K V} (ht : c.threads[t]? = some th) {k : Kont K V}
    (hp : (∃ l, th.park = .want l k) ∨ th.park = .yielded k) :
    (resume c.P t (stepSt c t th) k).1.tree = c'.tree ∧
    CursorOk c'.tree false (resume c.P t (stepSt c t th) k).1.cursor ∧
    CurW lt c'.tree (resume c.P t (stepSt c t th) k).1.cursor ∧
    flowIsHop (resume c.P t (stepSt c t th) k).2 = false := by
  have hinv := h.cinv
  have hk := h.kinv
  have hkp := h.kp
  obtain ⟨th1, ht1, hen, r, hr, hc'⟩ := step_shape hstep
  rw [ht] at ht1
  cases ht1
  have htm : th ∈ c.threads := List.mem_of_getElem? ht
  have hS := hinv.s
  have hok := hS.cfg th htm
  have hsok := hS.threads th htm
  have htree' : c'.tree = r.2.1.tree := by rw [hc']
  have hw0 : CurW lt c.tree th.cursor := (cursorPosW_iff _ _).1 (hw th htm)
  have hT : r.2.1.tree = (resume c.P t (stepSt c t th) k).1.tree := by
    rw [hr]
    unfold runThread
    rcases hp with ⟨l, hp⟩ | hp
    · simp only [hp]; rw [threadLoop_tree]
    · simp only [hp]; rw [threadLoop_tree]
  have hkpos : KPos lt c.tree k := by
    have := hk.pos th htm
    rcases hp with ⟨l, hp⟩ | hp <;> rw [hp] at this <;> exact this
  have hko : KontOk c.tree k := by
    have := hsok.1
    rcases hp with ⟨l, hp⟩ | hp <;> rw [hp] at this <;> exact this
  have hkpre : KontPre th.cursor k := by
    have := hok.2.1
    rcases hp with ⟨l, hp⟩ | hp <;> rw [hp] at this <;> exact this
  have hcur : CursorOk c.tree (isHopK k) th.cursor := by
    have := hsok.2
    rcases hp with ⟨l, hp⟩ | hp
    · rw [hp, isHop_want] at this; exact this
    · have hlock : kontLock k = none := by have := hok.2.2; rw [hp] at this; exact this
      have hhop : isHopK k = false := by
        cases k <;> first | rfl | (simp [kontLock] at hlock)
      rw [hp, isHop_yielded] at this; rw [hhop]; exact this
  have hcov : Covers (stepHeld th) (stepSt c t th).cursor k := by
    rcases hp with ⟨l, hp⟩ | hp
    · exact covers_of_ok (s0 := stepSt c t th) rfl hok k (Or.inr ⟨l, hp⟩)
    · exact covers_of_ok (s0 := stepSt c t th) rfl hok k (Or.inl hp)
  have hres := resume_curW c.P hkp t (stepSt c t th) k (stepHeld th) ⟨hS.tree, hS.order, hS.pad⟩ hk.ord hko hcur
    hkpre hcov hkpos hw0
  rw [htree', hT]
  exact ⟨rfl, hres.1, hres.2, resume_not_hop c.P t (stepSt c t th) k⟩

/-- **every operation a step starts runs on the tree the step ends in, with the cursor invariant** -/
theorem stepExec_inv (B : KBlocks K V) (lt : K → K → Bool) (c c' : Config K V) (t : Nat)
    (hstep : c.step t = some c') (h : KFInv lt c) (hw : ∀ th ∈ c.threads, CursorPosW lt c.tree th)
    {s1 : St K V} {op : COp K V} {n : Nat} (hx : StepExec c t s1 op n) :
    KFInv lt c' ∧ s1.tree = c'.tree ∧ CursorOk c'.tree false s1.cursor ∧ CurW lt c'.tree s1.cursor := by
  have h' : KFInv lt c' := step_kfinv B lt c c' t hstep h
  refine ⟨h', ?_⟩
  obtain ⟨th, ht, hx⟩ := hx
  have hinv := h.cinv
  have hk := h.kinv
  have hswo := h.kp.swo
  obtain ⟨th1, ht1, hen, r, hr, hc'⟩ := step_shape hstep
  rw [ht] at ht1
  cases ht1
  have htm : th ∈ c.threads := List.mem_of_getElem? ht
  have hS := hinv.s
  have hsok := hS.threads th htm
  have htree' : c'.tree = r.2.1.tree := by rw [hc']
  have hw0 : CurW lt c.tree th.cursor := (cursorPosW_iff _ _).1 (hw th htm)
  have hok' := h'.cinv.s.tree
  have hord' := h'.kinv.ord
  cases hp : th.park with
  | finished => rw [hp] at hx; exact absurd hx id
  | start =>
    rw [hp] at hx
    obtain ⟨op0, hop0, hx⟩ := hx
    have hc0 : CursorOk c.tree false th.cursor := by
      have := hsok.2; rw [hp] at this; exact this
    have hT : c'.tree = c.tree := by
      rw [htree', hr]
      unfold runThread
      simp only [hp, hop0]
      rw [threadLoop_tree, startOp_tree]; rfl
    rw [hT]
    rcases hx with ⟨_, e2, _⟩ | hx
    · rw [e2]; exact ⟨rfl, hc0, hw0⟩
    · have hs1 : ((stepSt c t th).note t (.inv 0)).tree = c.tree := rfl
      have hsto := startOp_curW hswo t ((stepSt c t th).note t (.inv 0)) op0
        (by rw [hs1]; exact hS.tree) (by rw [hs1]; exact hk.ord) hc0 hw0
      rw [hs1] at hsto
      obtain ⟨g1, g2, g3, _⟩ := loopExec_inv hswo t th c.tree hS.tree hk.ord _ _ _ _ _ _ _ hx
        (by rw [startOp_tree]; rfl) hsto.1 hsto.2
      exact ⟨g1, g2, g3⟩
  | want l k =>
    rw [hp] at hx
    obtain ⟨g0, g1, g2, g3⟩ := resumed_state lt c c' t hstep h hw ht (k := k) (Or.inl ⟨l, hp⟩)
    obtain ⟨q1, q2, q3, _⟩ := loopExec_inv hswo t th c'.tree hok' hord' _ _ _ _ _ _ _ hx g0 (by rw [g3]; exact g1) g2
    exact ⟨q1, q2, q3⟩
  | yielded k =>
    rw [hp] at hx
    obtain ⟨g0, g1, g2, g3⟩ := resumed_state lt c c' t hstep h hw ht (k := k) (Or.inr hp)
    obtain ⟨q1, q2, q3, _⟩ := loopExec_inv hswo t th c'.tree hok' hord' _ _ _ _ _ _ _ hx g0 (by rw [g3]; exact g1) g2
    exact ⟨q1, q2, q3⟩

/-! ### steps that do not write the tree -/

/-- continuations of Search / NewScanner, the cursor hop and the client pause -/
def readKont : Kont K V → Bool
  | .roTree _ _ => true
  | .roNode _ _ _ _ => true
  | .hop _ _ => true
  | .paused => true
  | _ => false

theorem roArrive_tree (P : Params K) (t : Nat) (s : St K V) (sc : Bool) (key : K) (hold : Lk) (n : Nat) :
    (roArrive P t s sc key hold n).1.tree = s.tree := by
  unfold roArrive
  simp only
  split
  · rfl
  · split
    · split
      · rfl
      · split <;> rfl
    · split
      · rfl
      · split <;> rfl

theorem resume_tree_read (P : Params K) (t : Nat) (s : St K V) (k : Kont K V) (h : readKont k = true) :
    (resume P t s k).1.tree = s.tree := by
  cases k with
  | roTree sc key => rfl
  | roNode sc key hold want => exact roArrive_tree P t (s.acq t (.node want)) sc key hold want
  | hop cur next => rfl
  | paused => rfl
  | _ => simp [readKont] at h

/-- a step of a thread that starts its program or continues a Search / NewScanner / cursor hop /
    pause leaves the tree alone -/
theorem step_tree_read {c c' : Config K V} {t : Nat} (hstep : c.step t = some c')
    {th : Thread K V} (ht : c.threads[t]? = some th)
    (hp : match th.park with
      | .want _ k => readKont k = true
      | .yielded k => readKont k = true
      | _ => True) : c'.tree = c.tree := by
  obtain ⟨th1, ht1, _, r, hr, hc'⟩ := step_shape hstep
  rw [ht] at ht1
  cases ht1
  have htree' : c'.tree = r.2.1.tree := by rw [hc']
  rw [htree', hr]
  unfold runThread
  cases hpk : th.park with
  | finished => rfl
  | start =>
    simp only
    cases hop : th.prog[0]? with
    | none => rfl
    | some op => simp only; rw [threadLoop_tree, startOp_tree]; rfl
  | want l k =>
    rw [hpk] at hp
    simp only
    rw [threadLoop_tree, resume_tree_read _ _ _ _ hp]; rfl
  | yielded k =>
    rw [hpk] at hp
    simp only
    rw [threadLoop_tree, resume_tree_read _ _ _ _ hp]; rfl

/-! ### the cursor calls, as they occur in reachable executions -/

section reach

variable (B : KBlocks K V) (lt : K → K → Bool) (P : Params K) (tree : Tree K V) (progs : List (List (COp K V)))
  (hkp : KParams lt P) (ht : TreeOk none tree) (hord : OrdTree lt tree) (hsep : SepTree lt tree)
  (ho : tree.order = P.order) (hp : PadOk P) (hd : Disciplined progs)
  (hdel : 4 ≤ tree.order ∨ NoDelete progs)
include B hkp ht hord hsep ho hp hd hdel

/-- **a `Scan` executed in a reachable step.**  On the tree `c'.tree` the step ends in (no
    operation started after the first stretch touches the tree), with `(leaf, i)` the cursor
    before the call: either it returns `true` inside the leaf and has consumed the first pair
    ahead (the cursor now rests on it); or it returns `false` and nothing lay ahead; or it parks
    for the next leaf, with the same pairs ahead. -/
theorem exec_scan (c c' : Config K V) (hr : Reachable (Config.init P tree progs) c) (t : Nat)
    (hstep : c.step t = some c') {s1 : St K V} {n : Nat} (hx : StepExec c t s1 .scan n)
    {leaf : Nat} {i : Int} (hcur : s1.cursor = some (some leaf, i)) (hex : s1.exhausted = false) :
    ∃ sh, c'.tree.look leaf = some sh ∧ sh.height = 0 ∧ (∃ b, CurPos lt c'.tree b leaf i) ∧
      ((startOp t s1 .scan = ({ s1 with cursor := some (some leaf, i + 1) }, .done (.bool true)) ∧
          ∃ k v, sh.keys[(i + 1).toNat]? = some k ∧ sh.vals[(i + 1).toNat]? = some v ∧
            c'.tree.ahead leaf i = (k, v) :: c'.tree.ahead leaf (i + 1) ∧
            CurPos lt c'.tree (.gt k) leaf (i + 1)) ∨
        (startOp t s1 .scan =
            ({ (s1.rel t (.node leaf)) with cursor := some (none, i + 1), exhausted := true }, .done (.bool false)) ∧
          c'.tree.ahead leaf i = []) ∨
        (∃ nx, startOp t s1 .scan =
            ({ s1 with cursor := some (some leaf, i + 1) }, .park (.want (.node nx) (.hop leaf nx))) ∧
          c'.tree.ahead leaf (i + 1) = c'.tree.ahead leaf i)) := by
  obtain ⟨hinv, hw⟩ := reachable_cursorPosW B lt P tree progs hkp ht hord hsep ho hp hd hdel c hr
  obtain ⟨h', hT, hc, hcw⟩ := stepExec_inv B lt c c' t hstep hinv hw hx
  have hok' := h'.cinv.s.tree
  have hord' := h'.kinv.ord
  have hswo := h'.kp.swo
  rw [hcur] at hc hcw
  obtain ⟨sh, hl, h0, hi, hlt⟩ := hc
  have hlt' : i < (sh.keys.length : Int) := hlt
  obtain ⟨b, hb⟩ := hcw
  have hstrong : CurPos lt c'.tree b leaf i := hb.strengthen hswo hok' hord' (by
    intro sh' hl'; rw [hl] at hl'; cases hl'; exact hlt')
  refine ⟨sh, hl, h0, ⟨b, hstrong⟩, ?_⟩
  have hok1 : TreeOk (holeOf c'.threads) s1.tree := by rw [hT]; exact hok'
  have hl1 : s1.tree.look leaf = some sh := by rw [hT]; exact hl
  rcases scan_cases hlt' with h1 | ⟨h1, h2⟩ | ⟨h1, nx, h2⟩
  · left
    obtain ⟨e, k, v, hk, hv, ha⟩ := scan_inleaf t s1 hok1 hcur hex hl1 h0 hi h1
    rw [hT] at ha
    have hcp := curPos_gt hswo hok' hord' hl h0 hk
    have e' : (((i + 1).toNat : Nat) : Int) = i + 1 := by omega
    rw [e'] at hcp
    exact ⟨e, k, v, hk, hv, ha, hcp⟩
  · right; left
    obtain ⟨e, ha⟩ := scan_exhaust t s1 hok1 hcur hex hl1 h0 h1 h2
    rw [hT] at ha
    exact ⟨e, ha⟩
  · right; right
    obtain ⟨e, ha⟩ := scan_park t s1 hok1 hcur hex hl1 h0 h1 h2
    rw [hT] at ha
    exact ⟨nx, e, ha⟩

/-- **a `Pair` executed in a reachable step** (after a `Scan` has returned `true`, i.e. `0 ≤ i`)
    returns the entry the cursor rests on, an entry of the current map -/
theorem exec_pair (c c' : Config K V) (hr : Reachable (Config.init P tree progs) c) (t : Nat)
    (hstep : c.step t = some c') {s1 : St K V} {n : Nat} (hx : StepExec c t s1 .pair n)
    {leaf : Nat} {i : Int} (hcur : s1.cursor = some (some leaf, i)) (hex : s1.exhausted = false) (hi : 0 ≤ i) :
    ∃ sh k v, c'.tree.look leaf = some sh ∧ startOp t s1 .pair = (s1, .done (.pair k v)) ∧
      sh.keys[i.toNat]? = some k ∧ sh.vals[i.toNat]? = some v ∧ (k, v) ∈ c'.tree.abs ∧
      Spec.lookup lt c'.tree.abs k = some v := by
  obtain ⟨hinv, hw⟩ := reachable_cursorPosW B lt P tree progs hkp ht hord hsep ho hp hd hdel c hr
  obtain ⟨h', hT, hc, _⟩ := stepExec_inv B lt c c' t hstep hinv hw hx
  have hok' := h'.cinv.s.tree
  rw [hcur] at hc
  obtain ⟨sh, hl, h0, _, hlt⟩ := hc
  have hlt' : i < (sh.keys.length : Int) := hlt
  have hok1 : TreeOk (holeOf c'.threads) s1.tree := by rw [hT]; exact hok'
  have hl1 : s1.tree.look leaf = some sh := by rw [hT]; exact hl
  obtain ⟨k, v, e, hk, hv, hm⟩ := pair_spec t s1 hok1 hcur hex hl1 h0 hi hlt'
  rw [hT] at hm
  exact ⟨sh, k, v, hl, e, hk, hv, hm,
    lookup_of_mem_sorted h'.kp.swo _ (Tree.abs_sorted h'.kp.swo (parTree_of_treeOk hok') h'.kinv.ord) k v hm⟩

/-- **`NewScanner` returns** (the step that resumes `roNode true start hold want` with `want` a
    leaf): the tree is not touched by the step, the stretch returns with the cursor at
    `(want, startIndex − 1)`, positioned for the inclusive bound `start`, and what lies ahead of
    it is `Spec.from … start` of the current map -/
theorem step_newScanner (c c' : Config K V) (hr : Reachable (Config.init P tree progs) c) (t : Nat)
    (hstep : c.step t = some c') {th : Thread K V} (hth : c.threads[t]? = some th)
    {l : Lk} {start : K} {hold : Lk} {want : Nat} (hpk : th.park = .want l (.roNode true start hold want))
    {sh : Shallow K V} (hl : c.tree.look want = some sh) (h0 : sh.height = 0) :
    c'.tree = c.tree ∧
    ∃ lf : Leaf K V, c.tree.find want = some ⟨0, lf⟩ ∧
      (resume c.P t (stepSt c t th) (.roNode true start hold want)).2 = .done .ok ∧
      (resume c.P t (stepSt c t th) (.roNode true start hold want)).1.cursor =
        some (some want, (startIndex c.P {} start lf : Int) - 1) ∧
      CurPos lt c'.tree (.ge start) want ((startIndex c.P {} start lf : Int) - 1) ∧
      c'.tree.ahead want ((startIndex c.P {} start lf : Int) - 1) = Spec.from lt c'.tree.abs start := by
  obtain ⟨hinv, hw⟩ := reachable_cursorPosW B lt P tree progs hkp ht hord hsep ho hp hd hdel c hr
  have htm : th ∈ c.threads := List.mem_of_getElem? hth
  have hS := hinv.cinv.s
  have hkpos : KPos lt c.tree (.roNode true start hold want) := by
    have := hinv.kinv.pos th htm; rw [hpk] at this; exact this
  have hko : KontOk c.tree (.roNode true start hold want) := by
    have := (hS.threads th htm).1; rw [hpk] at this; exact this
  obtain ⟨lf, hf, h2, h3, h4, h5, h6⟩ := resume_newScanner c.P hinv.kp t (stepSt c t th) start hold want
    (hole := holeOf c.threads) hS.tree hinv.kinv.ord hko hkpos hl h0
  obtain ⟨g0, _⟩ := resumed_state lt c c' t hstep hinv hw hth (k := .roNode true start hold want) (Or.inl ⟨l, hpk⟩)
  have hT : c'.tree = c.tree := by rw [← g0, h3]; rfl
  rw [hT]
  exact ⟨rfl, lf, hf, h2, h4, h5, h6⟩

/-- **`Scan` returns `true` by the hop** (the step that resumes `hop cur next`): the tree is not
    touched by the step, the cursor moves to the first entry of `next`, which is the first pair
    that lay ahead; it is then positioned for the bound "greater than that key" -/
theorem step_hop (c c' : Config K V) (hr : Reachable (Config.init P tree progs) c) (t : Nat)
    (hstep : c.step t = some c') {th : Thread K V} (hth : c.threads[t]? = some th)
    {l : Lk} {cur next : Nat} (hpk : th.park = .want l (.hop cur next)) :
    c'.tree = c.tree ∧
    (resume c.P t (stepSt c t th) (.hop cur next)).2 = .done (.bool true) ∧
    (resume c.P t (stepSt c t th) (.hop cur next)).1.cursor = some (some next, 0) ∧
    ∃ i shn k v, th.cursor = some (some cur, i) ∧ (∃ b, CurPosW lt c.tree b cur i) ∧
      c'.tree.look next = some shn ∧ shn.height = 0 ∧ shn.keys[0]? = some k ∧ shn.vals[0]? = some v ∧
      c.tree.ahead cur i = (k, v) :: c'.tree.ahead next 0 ∧ CurPos lt c'.tree (.gt k) next 0 := by
  obtain ⟨hinv, hw⟩ := reachable_cursorPosW B lt P tree progs hkp ht hord hsep ho hp hd hdel c hr
  have htm : th ∈ c.threads := List.mem_of_getElem? hth
  have hS := hinv.cinv.s
  have hko : KontOk c.tree (.hop cur next) := by
    have := (hS.threads th htm).1; rw [hpk] at this; exact this
  have hkpre : cursorLocks th.cursor = [.node cur] := by
    have := (hS.cfg th htm).2.1; rw [hpk] at this; exact this
  have hcok : CursorOk c.tree true th.cursor := by
    have := (hS.threads th htm).2; rw [hpk] at this; exact this
  obtain ⟨g0, _⟩ := resumed_state lt c c' t hstep hinv hw hth (k := .hop cur next) (Or.inl ⟨l, hpk⟩)
  have hT : c'.tree = c.tree := by rw [← g0]; rfl
  obtain ⟨h1, _, h3, shn, k, v, hln, hn0, hk0, hv0, hcp, hah⟩ :=
    resume_hop hinv.kp.swo c.P t (stepSt c t th) cur next (hole := holeOf c.threads) hS.tree hinv.kinv.ord hko
  refine ⟨hT, h1, h3, ?_⟩
  have hwt := hw th htm
  unfold CursorPosW at hwt
  match hc : th.cursor, hkpre with
  | none, hk' => simp [cursorLocks] at hk'
  | some (none, _), hk' => simp [cursorLocks] at hk'
  | some (some cur', i), hk' =>
    have e : cur' = cur := by simpa [cursorLocks] using hk'
    subst e
    rw [hc] at hwt hcok
    obtain ⟨sh, hl, _, _, hlen⟩ := hcok
    have hlen' : i = (sh.keys.length : Int) := hlen
    rw [hT]
    refine ⟨i, shn, k, v, rfl, hwt, hln, hn0, hk0, hv0, hah i ?_, hcp⟩
    intro sh' hl'
    have hl0 : c.tree.look cur' = some sh := hl
    have hl1 : c.tree.look cur' = some sh' := hl'
    rw [hl0] at hl1
    cases hl1
    omega

end reach

end Gobptree.Conc
