/-
  READ FRAME (non-interference of a step with what the thread does not hold).

  Run the same thread for one scheduler step in two configurations whose trees agree on the
  own fields of the nodes whose mutex the thread holds during the step (`stepHeld`: what it
  held when it parked plus the mutex it is granted), and on the root pointer if it holds
  `rootMutex`.  Then the thread ends in the same state, emits the same events, has the same
  panic outcome, and the two resulting trees again agree on every node it held and on every
  node it created.  Everything else in the two trees — every node the thread does not hold,
  the whole shape of the tree around the held nodes — has no influence on the step.

  Together with the WRITE frame (`C07_write_frame`: the step changes only nodes in `stepHeld`)
  this is the locking discipline: a step reads and writes own fields of held nodes only.

  Proof: a logical relation.  `TRel S R` relates two trees that agree on the own fields (`look`)
  of the identities in `S` (held or freshly allocated) and, under `R`, on the root pointer.
  The blocks take DEEP nodes from `find`; two deep nodes found under a held identity have the
  same own fields (`find_rel`) but differ below.  Every primitive the blocks apply to nodes
  maps nodes with the same own fields to equal results or to nodes with the same own fields
  (`CReadFrameReb`), children of a held node that are themselves held are related (`KRel`),
  and a write-back replaces, in the flat view, exactly the entries of the node and of its
  children, carrying along unchanged whatever is below the children (`putInner_rf`).
-/
import Gobptree.Proofs.CReadFrameDel

namespace Gobptree.Conc
open Gobptree

variable {K V : Type}

/-- the outcome of the step in the two runs, in the terms of `runThread` -/
theorem step_rf (c1 c2 c1' c2' : Config K V) (t : Nat) (th : Thread K V)
    (h1 : c1.threads[t]? = some th) (h2 : c2.threads[t]? = some th) (hP : c1.P = c2.P)
    (hi1 : CInv c1) (hi2 : CInv c2) (hv : SameView (stepHeld th) c1.tree c2.tree)
    (hs1 : c1.step t = some c1') (hs2 : c2.step t = some c2') :
    TRes (stepIds th c1.tree.nextId) (Lk.tree ∈ stepHeld th) (Ev.dec t c1.enabledSet :: c1.log)
      (Ev.dec t c2.enabledSet :: c2.log) (runThread c1.P t th (stepSt c1 t th)) (runThread c1.P t th (stepSt c2 t th)) ∧
    c1' = { c1 with tree := (runThread c1.P t th (stepSt c1 t th)).2.1.tree,
                    owner := (runThread c1.P t th (stepSt c1 t th)).2.1.owner,
                    threads := c1.threads.set t (runThread c1.P t th (stepSt c1 t th)).1,
                    log := (runThread c1.P t th (stepSt c1 t th)).2.1.evs,
                    dead := c1.dead || (runThread c1.P t th (stepSt c1 t th)).2.2 } ∧
    c2' = { c2 with tree := (runThread c1.P t th (stepSt c2 t th)).2.1.tree,
                    owner := (runThread c1.P t th (stepSt c2 t th)).2.1.owner,
                    threads := c2.threads.set t (runThread c1.P t th (stepSt c2 t th)).1,
                    log := (runThread c1.P t th (stepSt c2 t th)).2.1.evs,
                    dead := c2.dead || (runThread c1.P t th (stepSt c2 t th)).2.2 } :=
  step_rf_of resume_rf_D c1 c2 c1' c2' t th h1 h2 hP hi1 hi2 hv hs1 hs2

/-- **READ FRAME.** Run the same thread (same program, program counter, park, held list, cursor)
    for one step in two configurations (both satisfying the structural invariant `CInv`, as every
    reachable configuration does) whose trees agree on the own fields of the nodes the thread
    holds during the step (and on the root pointer if it holds `rootMutex`; the allocation
    counter `nextId` stands for Go's `new` and is taken equal).  Then:
    the thread ends in the same state `th'`; it emits the same events `evs`; the panic outcome
    `d` is the same; and the two resulting trees again agree — same order and allocation counter,
    same own fields of every node the thread held during the step and of every node it created,
    same root pointer if it held `rootMutex`.
    Whatever else differs between the two trees has no influence on the step.  (That the step is
    DEFINED in both, `hs1`/`hs2`, covers the one legitimate dependence on other threads: whether
    the wanted mutex is free.) -/
theorem read_frame (c1 c2 c1' c2' : Config K V) (t : Nat) (th : Thread K V)
    (h1 : c1.threads[t]? = some th) (h2 : c2.threads[t]? = some th) (hP : c1.P = c2.P)
    (hi1 : CInv c1) (hi2 : CInv c2) (hv : SameView (stepHeld th) c1.tree c2.tree)
    (hs1 : c1.step t = some c1') (hs2 : c2.step t = some c2') :
    (∃ th', c1'.threads[t]? = some th' ∧ c2'.threads[t]? = some th') ∧
    (∃ evs, c1'.log = evs ++ Ev.dec t c1.enabledSet :: c1.log ∧
            c2'.log = evs ++ Ev.dec t c2.enabledSet :: c2.log) ∧
    (∃ d, c1'.dead = (c1.dead || d) ∧ c2'.dead = (c2.dead || d)) ∧
    c1'.tree.order = c2'.tree.order ∧ c1'.tree.nextId = c2'.tree.nextId ∧
    (∀ id, (Lk.node id ∈ stepHeld th ∨ c1.tree.nextId ≤ id) → c1'.tree.look id = c2'.tree.look id) ∧
    (Lk.tree ∈ stepHeld th → c1'.tree.rootId = c2'.tree.rootId ∧ c1'.tree.depth = c2'.tree.depth) := by
  obtain ⟨⟨hth, hsr, hd⟩, e1, e2⟩ := step_rf c1 c2 c1' c2' t th h1 h2 hP hi1 hi2 hv hs1 hs2
  obtain ⟨evs, hev1, hev2⟩ := hsr.evs
  have hlt1 : t < c1.threads.length := (List.getElem?_eq_some_iff.1 h1).1
  have hlt2 : t < c2.threads.length := (List.getElem?_eq_some_iff.1 h2).1
  refine ⟨⟨(runThread c1.P t th (stepSt c1 t th)).1, ?_, ?_⟩, ⟨evs, ?_, ?_⟩,
    ⟨(runThread c1.P t th (stepSt c1 t th)).2.2, ?_, ?_⟩, ?_, ?_, ?_, ?_⟩
  · rw [e1]
    show (c1.threads.set t _)[t]? = _
    rw [List.getElem?_set_self hlt1]
  · rw [e2]
    show (c2.threads.set t _)[t]? = _
    rw [List.getElem?_set_self hlt2, hth]
  · rw [e1]; exact hev1
  · rw [e2]; exact hev2
  · rw [e1]
  · rw [e2, hd]
  · rw [e1, e2]; exact hsr.tree.order
  · rw [e1, e2]; exact hsr.tree.nextId
  · intro id hid
    rw [e1, e2]
    exact hsr.tree.look id hid
  · intro hR
    rw [e1, e2]
    exact hsr.tree.root hR

/-- the two resulting trees look the same again to the thread (for the mutexes it held during
    the step, hence for those it holds afterwards) -/
theorem read_frame_view (c1 c2 c1' c2' : Config K V) (t : Nat) (th : Thread K V)
    (h1 : c1.threads[t]? = some th) (h2 : c2.threads[t]? = some th) (hP : c1.P = c2.P)
    (hi1 : CInv c1) (hi2 : CInv c2) (hv : SameView (stepHeld th) c1.tree c2.tree)
    (hs1 : c1.step t = some c1') (hs2 : c2.step t = some c2') :
    SameView (stepHeld th) c1'.tree c2'.tree ∧
    ∀ th', c1'.threads[t]? = some th' → SameView th'.held c1'.tree c2'.tree := by
  obtain ⟨⟨th', ht1, ht2⟩, _, _, ho, hn, hl, hr⟩ := read_frame c1 c2 c1' c2' t th h1 h2 hP hi1 hi2 hv hs1 hs2
  have hsv : SameView (stepHeld th) c1'.tree c2'.tree := ⟨ho, hn, fun id hid => hl id (Or.inl hid), hr⟩
  refine ⟨hsv, ?_⟩
  intro th'' ht
  rw [ht1] at ht
  cases ht
  obtain ⟨th0, ht0, hen, r, hr0, hc'⟩ := step_shape hs1
  rw [h1] at ht0
  cases ht0
  have hsub : ∀ x ∈ th'.held, x ∈ stepHeld th := by
    have := newHeld_sub c1.P t th (stepSt c1 t th) rfl (hi1.s.cfg th (List.mem_of_getElem? h1)) (enabled_not_finished hen)
    have e : th' = (runThread c1.P t th (stepSt c1 t th)).1 := by
      rw [hc'] at ht1
      have hlt1 : t < c1.threads.length := (List.getElem?_eq_some_iff.1 h1).1
      have : (c1.threads.set t r.1)[t]? = some th' := ht1
      rw [List.getElem?_set_self hlt1] at this
      rw [← hr0]
      exact (Option.some.inj this).symm
    rw [e]
    exact this
  exact ⟨ho, hn, fun id hid => hl id (Or.inl (hsub _ hid)), fun h => hr (hsub _ h)⟩

end Gobptree.Conc

#print axioms Gobptree.Conc.read_frame
#print axioms Gobptree.Conc.read_frame_view
