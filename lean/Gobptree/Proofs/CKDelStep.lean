/-
  Key-order proofs for Delete, part 4: the tree-level steps — the rebalancing of one
  activation, the deletion in the leaf, the root collapse — keep `OrdTree`, have the expected
  effect on the abstract map, and only widen the intervals of nodes they do not write.
-/
import Gobptree.Proofs.CKDelReb

namespace Gobptree.Conc
open Gobptree

variable {K V : Type} {lt : K → K → Bool}

theorem parTree_of_treeOk' {hole : Option Nat} {t : Tree K V} (h : TreeOk' hole t) : ParTree t := by
  apply parN_of_flat
  intro p hp hpos
  have := (h.occ p hp).2.2.2 hpos
  exact ⟨this.1, this.2.1⟩

/-! ### one rebalancing step -/

theorem rebalance_kstep (h : SWO lt) (P : Params K) (hp : PadOk P) {t : Tree K V} {n c index d : Nat}
    {i : Inner K (Node K V d)} (W : Nat → Prop)
    (hok : TreeOk' (some c) t) (hord : t.order = P.order) (hf : t.find n = some ⟨d + 1, i⟩)
    (hkid : t.kidAt n index = some c) (hsmall : isSmall t c) (hO : OrdTree lt t)
    (hWn : W n) (hWk : ∀ j x, t.kidAt n j = some x → index ≤ j + 1 → j ≤ index + 1 → W x)
    {child : Node K V d} {i' : Inner K (Node K V d)} {small' : Bool}
    (hc : i.kids[index]? = some child)
    (heval : rebalance P {} (P.order >>> 1) i index child = .ok (i', small')) :
    OrdTree lt (putInner t i') ∧ (putInner t i').abs = t.abs ∧ Widen lt W t (putInner t i') := by
  have hids := hok.ids.1
  have hpar : ParTree t := parTree_of_treeOk' hok
  obtain ⟨child0, hc0, hcid, hin, occI⟩ := rebIn_of_tree hok hf hkid hsmall
  rw [hc] at hc0
  injection hc0 with hc0
  subst hc0
  obtain ⟨hidn, _, _⟩ := find_facts hf
  have hidn' : i.id = n := hidn
  obtain ⟨lo', hi', PL, PR, z⟩ := Tree.zoom h hf hids hpar hO
  rw [shiftRight_one_eq, ← hord] at heval
  obtain ⟨hid, hO', hP', hpairs, hb⟩ := rebalance_node h P hp t.order i index child hin lo' hi' z.ord z.par i' small' heval
  have hid' : i'.id = n := hid.trans hidn'
  -- identities of the rewritten node
  obtain ⟨i'', small'', wr, new, heval2, out⟩ := rebalance_rw P hp t.order i index child hin
  rw [heval] at heval2
  injection heval2 with heval2
  injection heval2 with e1 _
  subst e1
  have hsub : ∀ x, x ∈ idsOf (d := d + 1) i' → x ∈ idsOf (d := d + 1) i := fun x hx => out.rw.idmem x hx
  have z' : Zoom lt i'.id t.depth none none t.root (d + 1) i lo' hi' PL PR := by rw [hid']; exact z
  obtain ⟨h1, _, h3⟩ := z'.putInner i' hO' hP'
  refine ⟨h1, ?_, ?_⟩
  · rw [h3, z.abs, hpairs]
  · intro x hx
    have hf' : t.find i'.id = some ⟨d + 1, i⟩ := by rw [hid']; exact hf
    obtain ⟨f, hfdef, hfm⟩ : ∃ f : (d' : Nat) → Node K V d' → Node K V d',
        putInner t i' = t.modify i'.id f ∧ f (d + 1) i = i' := ⟨_, rfl, putInner_apply i' i⟩
    obtain ⟨hm1, hm2⟩ := Tree.boundsOf_modify hf' hids hpar z'.tree_bounds f x
    rw [hfm, ← hfdef] at hm1 hm2
    show OW lt (t.boundsOf x) ((putInner t i').boundsOf x)
    by_cases hxi : x ∈ idsOf (d := d + 1) i
    · obtain ⟨e1, e2⟩ := hm1 hxi
      rw [e1, e2]
      apply hb x
      · intro e
        apply hx
        rw [e, hidn']
        exact hWn
      · intro j k hk h1 h2 e
        apply hx
        rw [e]
        apply hWk j _ _ h1 h2
        rw [kidAt_find hf, hk]
        rfl
    · have hxi' : x ∉ idsOf (d := d + 1) i' := fun hh => hxi (hsub x hh)
      exact OW.of_eq h (hm2 hxi hxi')

/-! ### the leaf -/

theorem leaf_kstep (h : SWO lt) (P : Params K) (hP : P.lt = lt) {t : Tree K V} {n : Nat} {l : Leaf K V}
    (W : Nat → Prop) (hok : TreeOk' none t) (hf : t.find n = some ⟨0, l⟩) (hO : OrdTree lt t)
    (key : K) (hon : OnRoute lt t key n) (hW : W n) (minSize : Nat)
    {l' : Leaf K V} {small : Bool} (hd : Leaf.deleteKey P l minSize key = .ok (l', small)) :
    OrdTree lt (putLeaf t l') ∧ (putLeaf t l').abs = Spec.erase lt t.abs key ∧
      Widen lt W t (putLeaf t l') := by
  have hids := hok.ids.1
  have hpar : ParTree t := parTree_of_treeOk' hok
  obtain ⟨hid, hlook, _⟩ := find_facts hf
  have hidn : l.id = n := hid
  have occ := hok.occ (n, shallow (d := 0) l) (look_mem hlook)
  have hlen : l.keys.length = l.vals.length := (par_leaf l).1 occ.par
  have hf0 : t.find l.id = some ⟨0, l⟩ := by rw [hidn]; exact hf
  obtain ⟨h1, _, h3, _, hid', _⟩ := putLeaf_delete h P hP l hf0 hids hpar hO hlen minSize key
    (by rw [hidn]; exact hon) l' small hd
  refine ⟨h1, h3, ?_⟩
  intro x hx
  have hf' : t.find l'.id = some ⟨0, l⟩ := by rw [hid']; exact hf0
  obtain ⟨lo', hi', hb⟩ := Tree.boundsOf_find hf' hpar
  obtain ⟨_, hm2⟩ := Tree.boundsOf_modify hf' hids hpar hb (leafFn l') x
  have hxn : x ≠ n := fun e => hx (e ▸ hW)
  have hx1 : x ∉ idsOf (d := 0) l := by
    rw [idsOf_zero l, List.mem_singleton, hidn]; exact hxn
  have hx2 : x ∉ idsOf (leafFn l' 0 l) := by
    rw [putLeaf_apply l' l, idsOf_zero l', List.mem_singleton, hid', hidn]; exact hxn
  have := hm2 hx1 hx2
  rw [← putLeaf_eq] at this
  exact OW.of_eq h this

/-! ### the root collapse -/

theorem finish_kstep (h : SWO lt) {t : Tree K V} {small : Bool} (W : Nat → Prop)
    (hok : TreeOk' (if small then some t.rootId else none) t) (hO : OrdTree lt t) (hW : W t.rootId) :
    OrdTree lt (finishTree t small) ∧ (finishTree t small).abs = t.abs ∧
      Widen lt W t (finishTree t small) := by
  cases small with
  | false =>
    have e : finishTree t false = t := by simp [finishTree]
    rw [e]
    exact ⟨hO, rfl, Widen.refl h W t⟩
  | true =>
    simp only [if_true] at hok
    by_cases hcnt : Node.count t.root > 1
    · have e : finishTree t true = t := by simp [finishTree, hcnt]
      rw [e]
      exact ⟨hO, rfl, Widen.refl h W t⟩
    · obtain ⟨o, d, r, nid⟩ := t
      cases d with
      | zero =>
        have e : finishTree (K := K) (V := V) ⟨o, 0, r, nid⟩ true = ⟨o, 0, r, nid⟩ := by
          simp [finishTree, hcnt, collapseRoot, pure, Except.pure]
        rw [e]
        exact ⟨hO, rfl, Widen.refl h W _⟩
      | succ d =>
        have occ := hok.occ ((r : Inner K (Node K V d)).id, shallow (d := d + 1) r)
          (self_mem_flat (d := d + 1) r)
        have hp := (par_inner (r : Inner K (Node K V d))).1 occ.par
        have hc1 : (r : Inner K (Node K V d)).runts.length = 1 := by
          have : Node.count (d := d + 1) r = (r : Inner K (Node K V d)).runts.length := rfl
          simp only at hcnt
          omega
        obtain ⟨k, hk⟩ : ∃ k, (r : Inner K (Node K V d)).kids = [k] := by
          have hl : (r : Inner K (Node K V d)).kids.length = 1 := by omega
          match h : (r : Inner K (Node K V d)).kids, hl with
          | [k], _ => exact ⟨k, rfl⟩
        obtain ⟨s, hs⟩ : ∃ s, (r : Inner K (Node K V d)).runts = [s] := by
          match h : (r : Inner K (Node K V d)).runts, hc1 with
          | [s], _ => exact ⟨s, rfl⟩
        have e : finishTree (K := K) (V := V) ⟨o, d + 1, r, nid⟩ true = ⟨o, d, k, nid⟩ := by
          simp [finishTree, hcnt, collapseRoot, hk, pure, Except.pure]
        rw [e]
        have hO' : Ord lt (d + 1) none none (r : Inner K (Node K V d)) := hO
        have hK := hO'.2
        rw [hs, hk] at hK
        have hK' : Kids lt (fun a b c => Ord lt d a b c) none [(s, k)] := hK
        have hOk : Ord lt d (some s) none k := hK'.1
        refine ⟨Ord_mono_lo h (lo' := none) trivial hOk, ?_, ?_⟩
        · rw [Tree.abs_eq_pairs, Tree.abs_eq_pairs]
          show Node.pairs k = (r : Inner K (Node K V d)).kids.flatMap (Node.pairs (d := d))
          rw [hk]
          simp
        · intro x hx
          have hne : (r : Inner K (Node K V d)).id ≠ x := by
            intro e
            apply hx
            rw [← e]
            exact hW
          show OW lt (boundsOf x (d + 1) none none (r : Inner K (Node K V d))) (boundsOf x d none none k)
          rw [boundsOf_succ_ne x none none (r : Inner K (Node K V d)) hne, hs, hk]
          show OW lt (firstE (boundsOf x d) none [(s, k)]) (boundsOf x d none none k)
          rw [firstE_cons_or, firstE_nil, Option.or_none]
          exact boundsOf_mono h x d k (some s) none none none trivial trivial

end Gobptree.Conc
