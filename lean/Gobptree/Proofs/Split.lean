/-
  `maybeSplit`, `smallest` and `count` on well-formed nodes.
-/
import Gobptree.Proofs.Leaf
import Gobptree.Proofs.Linked

namespace Gobptree

variable {K V : Type} {lt : K → K → Bool}

theorem count_leaf (l : Leaf K V) : Node.count (d := 0) l = l.keys.length := rfl
theorem count_inner {d : Nat} (i : Inner K (Node K V d)) : Node.count (d := d + 1) i = i.runts.length := rfl

theorem WF_count_le {o d m : Nat} {lo hi : Option K} {n : Node K V d} (hw : WF lt o d m lo hi n) :
    Node.count n ≤ o ∧ m ≤ Node.count n := by
  cases d with
  | zero => obtain ⟨_, _, c, e, _⟩ := hw; exact ⟨c, e⟩
  | succ d => obtain ⟨_, b, c, _, _, _⟩ := hw; exact ⟨b, c⟩

/-- `smallest()` of a non-empty well-formed node is a lower bound of its pairs,
    not below `lo`, and the node is well formed with `smallest` as lower bound -/
theorem WF_smallest (h : SWO lt) {o d m : Nat} {lo hi : Option K} {n : Node K V d}
    (hw : WF lt o d m lo hi n) (hne : 0 < Node.count n) :
    ∃ s, Node.smallest n = .ok s ∧ leO lt lo s ∧ ltO lt s hi ∧ WF lt o d m (some s) hi n := by
  cases d with
  | zero =>
    obtain ⟨a, b, c, e, f⟩ := hw
    have hn : (n : Leaf K V).keys ≠ [] := by
      intro hnil
      have hne' : 0 < (n : Leaf K V).keys.length := hne
      rw [hnil] at hne'; simp at hne'
    cases hk : (n : Leaf K V).keys with
    | nil => exact absurd hk hn
    | cons s rest =>
      refine ⟨s, ?_, ?_, ?_, ?_⟩
      · show (match (n : Leaf K V).keys with | [] => throw Panic.noChildren | k :: _ => pure k) = _
        rw [hk]; rfl
      · exact (f s (by rw [hk]; simp)).1
      · exact (f s (by rw [hk]; simp)).2
      · refine ⟨a, b, c, e, fun k hkm => ⟨?_, (f k hkm).2⟩⟩
        rw [hk] at hkm a
        cases List.mem_cons.mp hkm with
        | inl e' => subst e'; exact h.irrefl _
        | inr hm =>
          have := (List.pairwise_cons.mp a).1 k hm
          exact h.le_of_lt this
  | succ d =>
    obtain ⟨a, b, c, e, f, g⟩ := hw
    cases hk : (n : Inner K (Node K V d)).runts with
    | nil =>
      have hne' : 0 < (n : Inner K (Node K V d)).runts.length := hne
      rw [hk] at hne'; simp at hne'
    | cons s rest =>
      have hkeys := Kids_keys_lt h hi _ g
      refine ⟨s, ?_, ?_, ?_, ?_⟩
      · show (match (n : Inner K (Node K V d)).runts with | [] => throw Panic.noChildren | k :: _ => pure k) = _
        rw [hk]; rfl
      · exact f s (by rw [hk]; rfl)
      · -- s is the first separator, below hi
        have hlen : (n : Inner K (Node K V d)).runts.length = (n : Inner K (Node K V d)).kids.length := a
        cases hkk : (n : Inner K (Node K V d)).kids with
        | nil => rw [hk, hkk] at hlen; simp at hlen
        | cons c0 crest =>
          exact hkeys (s, c0) (by rw [hk, hkk]; simp)
      · refine ⟨a, b, c, e, fun k hkm => ?_, g⟩
        rw [hk] at hkm; simp at hkm; subst hkm; exact h.irrefl _

theorem take_drop_half {α : Type} (l : List α) (hh : Nat) (hl : l.length = hh + hh) :
    (l.drop hh).take hh = l.drop hh := by
  apply List.take_of_length_le
  simp [List.length_drop]; omega

theorem nextLo_zip_cons {C : Type} (hi : Option K) (k : K) (c : C) (rest : List (K × C)) :
    nextLo hi ((k, c) :: rest) = some k := rfl

/-- what `maybeSplit` does to a well-formed node -/
theorem maybeSplit_ok (h : SWO lt) {o d m : Nat} {lo hi : Option K} {n : Node K V d}
    (ho : 2 ≤ o) (hev : o % 2 = 0) (fresh : Nat) (hw : WF lt o d m lo hi n)
    (after : Option Nat) (hL : Linked d after n) :
    (Node.count n < o ∧ Node.maybeSplit o fresh n = .ok (n, none)) ∨
    (Node.count n = o ∧ ∃ (l r : Node K V d) (s : K),
      Node.maybeSplit o fresh n = .ok (l, some r) ∧ Node.smallest r = .ok s ∧
      WF lt o d (o / 2) lo (some s) l ∧ WF lt o d (o / 2) (some s) hi r ∧
      Node.count l = o / 2 ∧ Node.count r = o / 2 ∧
      Node.pairs n = Node.pairs l ++ Node.pairs r ∧
      Node.smallest l = Node.smallest n ∧ ltO lt s hi ∧
      Linked d (some (Node.firstId r)) l ∧ Linked d after r ∧ Node.firstId l = Node.firstId n) := by
  have hcnt := WF_count_le hw
  have h2 : o / 2 + o / 2 = o := by omega
  have hshift : o >>> 1 = o / 2 := by rw [Nat.shiftRight_eq_div_pow]
  by_cases hfull : Node.count n < o
  · left
    refine ⟨hfull, ?_⟩
    cases d with
    | zero =>
      have : (n : Leaf K V).keys.length < o := hfull
      simp [Node.maybeSplit, this]; rfl
    | succ d =>
      have : (n : Inner K (Node K V d)).runts.length < o := hfull
      simp [Node.maybeSplit, this]; rfl
  · right
    have hceq : Node.count n = o := by omega
    refine ⟨hceq, ?_⟩
    cases d with
    | zero =>
      obtain ⟨a, b, c, e, f⟩ := hw
      have hk : (n : Leaf K V).keys.length = o := hceq
      have hv : (n : Leaf K V).vals.length = o := by omega
      have hnf : ¬ (n : Leaf K V).keys.length < o := by omega
      have hhlt : o / 2 < (n : Leaf K V).keys.length := by omega
      let s := (n : Leaf K V).keys[o / 2]
      have hdropk : (n : Leaf K V).keys.drop (o / 2) = s :: (n : Leaf K V).keys.drop (o / 2 + 1) :=
        List.drop_eq_getElem_cons hhlt
      refine ⟨({ (n : Leaf K V) with keys := (n : Leaf K V).keys.take (o / 2), vals := (n : Leaf K V).vals.take (o / 2), next := some fresh } : Leaf K V),
        ({ id := fresh, keys := (n : Leaf K V).keys.drop (o / 2), vals := (n : Leaf K V).vals.drop (o / 2), next := (n : Leaf K V).next } : Leaf K V),
        s, ?_, ?_, ?_, ?_, ?_, ?_, ?_, ?_, ?_, rfl, hL, rfl⟩
      · simp only [Node.maybeSplit, hnf, if_false, hshift]
        have : ¬ ((n : Leaf K V).keys.length < o / 2 + o / 2 ∨ (n : Leaf K V).vals.length < o / 2 + o / 2) := by omega
        simp only [this, if_false]
        rw [take_drop_half _ _ (by omega), take_drop_half _ _ (by omega)]
        rfl
      · show (match (n : Leaf K V).keys.drop (o / 2) with | [] => throw Panic.noChildren | k :: _ => pure k) = _
        rw [hdropk]; rfl
      · refine ⟨sorted_take a _, by simp [List.length_take]; omega, by simp [List.length_take]; omega,
          by simp [List.length_take]; omega, fun k hkm => ⟨(f k (List.mem_of_mem_take hkm)).1, ?_⟩⟩
        obtain ⟨i, hi, e'⟩ := List.getElem_of_mem hkm
        rw [List.length_take] at hi
        rw [List.getElem_take] at e'
        rw [← e']
        exact sorted_getElem_lt a (by omega) hhlt
      · refine ⟨sorted_drop a _, by simp [List.length_drop]; omega, by simp [List.length_drop]; omega,
          by simp [List.length_drop]; omega, fun k hkm => ⟨?_, (f k (List.mem_of_mem_drop hkm)).2⟩⟩
        show lt k s = false
        rw [hdropk] at hkm
        cases List.mem_cons.mp hkm with
        | inl e' => rw [e']; exact h.irrefl _
        | inr hm =>
          obtain ⟨i, hi, e'⟩ := List.getElem_of_mem hm
          rw [List.length_drop] at hi
          rw [List.getElem_drop] at e'
          rw [← e']
          exact h.le_of_lt (sorted_getElem_lt a (by omega) (by omega))
      · show ((n : Leaf K V).keys.take (o / 2)).length = o / 2
        simp [List.length_take]; omega
      · show ((n : Leaf K V).keys.drop (o / 2)).length = o / 2
        simp [List.length_drop]; omega
      · show (n : Leaf K V).keys.zip (n : Leaf K V).vals = ((n : Leaf K V).keys.take (o / 2)).zip ((n : Leaf K V).vals.take (o / 2)) ++ ((n : Leaf K V).keys.drop (o / 2)).zip ((n : Leaf K V).vals.drop (o / 2))
        rw [← zip_surgery _ _ _ _ (by simp [List.length_take]; omega), List.take_append_drop, List.take_append_drop]
      · show (match (n : Leaf K V).keys.take (o / 2) with | [] => throw Panic.noChildren | k :: _ => pure k) =
             (match (n : Leaf K V).keys with | [] => throw Panic.noChildren | k :: _ => pure k)
        cases hkk : (n : Leaf K V).keys with
        | nil => rw [hkk] at hk; simp at hk; omega
        | cons k0 rest =>
          have : 0 < o / 2 := by omega
          obtain ⟨hh, hhe⟩ : ∃ hh, o / 2 = hh + 1 := ⟨o / 2 - 1, by omega⟩
          rw [hhe]; rfl
      · exact (f s (List.getElem_mem _)).2
    | succ d =>
      obtain ⟨a, b, c, e, f, g⟩ := hw
      have hk : (n : Inner K (Node K V d)).runts.length = o := hceq
      have hv : (n : Inner K (Node K V d)).kids.length = o := by omega
      have hnf : ¬ (n : Inner K (Node K V d)).runts.length < o := by omega
      have hhlt : o / 2 < (n : Inner K (Node K V d)).runts.length := by omega
      have hhltk : o / 2 < (n : Inner K (Node K V d)).kids.length := by omega
      let s := (n : Inner K (Node K V d)).runts[o / 2]
      have hdropk : (n : Inner K (Node K V d)).runts.drop (o / 2) = s :: (n : Inner K (Node K V d)).runts.drop (o / 2 + 1) :=
        List.drop_eq_getElem_cons hhlt
      have hdropc := List.drop_eq_getElem_cons hhltk
      -- split the zipped chain
      have hz : (n : Inner K (Node K V d)).runts.zip (n : Inner K (Node K V d)).kids =
          ((n : Inner K (Node K V d)).runts.take (o / 2)).zip ((n : Inner K (Node K V d)).kids.take (o / 2)) ++
          ((n : Inner K (Node K V d)).runts.drop (o / 2)).zip ((n : Inner K (Node K V d)).kids.drop (o / 2)) := by
        rw [← zip_surgery _ _ _ _ (by simp [List.length_take]; omega), List.take_append_drop, List.take_append_drop]
      rw [hz, Kids_append] at g
      have hnl : nextLo hi (((n : Inner K (Node K V d)).runts.drop (o / 2)).zip ((n : Inner K (Node K V d)).kids.drop (o / 2))) = some s := by
        rw [hdropk, hdropc]; rfl
      rw [hnl] at g
      refine ⟨({ (n : Inner K (Node K V d)) with runts := (n : Inner K (Node K V d)).runts.take (o / 2), kids := (n : Inner K (Node K V d)).kids.take (o / 2) } : Inner K (Node K V d)),
        ({ id := fresh, runts := (n : Inner K (Node K V d)).runts.drop (o / 2), kids := (n : Inner K (Node K V d)).kids.drop (o / 2) } : Inner K (Node K V d)),
        s, ?_, ?_, ?_, ?_, ?_, ?_, ?_, ?_, ?_, ?_, ?_, ?_⟩
      · simp only [Node.maybeSplit, hnf, if_false, hshift]
        have : ¬ ((n : Inner K (Node K V d)).runts.length < o / 2 + o / 2 ∨ (n : Inner K (Node K V d)).kids.length < o / 2 + o / 2) := by omega
        simp only [this, if_false]
        rw [take_drop_half _ _ (by omega), take_drop_half _ _ (by omega)]
        rfl
      · show (match (n : Inner K (Node K V d)).runts.drop (o / 2) with | [] => throw Panic.noChildren | k :: _ => pure k) = _
        rw [hdropk]; rfl
      · refine ⟨by simp [List.length_take]; omega, by simp [List.length_take]; omega, by simp [List.length_take]; omega,
          by simp [List.length_take]; omega, ?_, g.1⟩
        intro k hkh
        apply f k
        rw [List.head?_take] at hkh
        have : o / 2 ≠ 0 := by omega
        simpa [this] using hkh
      · refine ⟨by simp [List.length_drop]; omega, by simp [List.length_drop]; omega, by simp [List.length_drop]; omega,
          by simp [List.length_drop]; omega, ?_, g.2⟩
        intro k hkh
        rw [hdropk] at hkh; simp at hkh; subst hkh
        exact h.irrefl _
      · show ((n : Inner K (Node K V d)).runts.take (o / 2)).length = o / 2
        simp [List.length_take]; omega
      · show ((n : Inner K (Node K V d)).runts.drop (o / 2)).length = o / 2
        simp [List.length_drop]; omega
      · show (n : Inner K (Node K V d)).kids.flatMap (Node.pairs (d := d)) =
            ((n : Inner K (Node K V d)).kids.take (o / 2)).flatMap (Node.pairs (d := d)) ++
            ((n : Inner K (Node K V d)).kids.drop (o / 2)).flatMap (Node.pairs (d := d))
        rw [← List.flatMap_append, List.take_append_drop]
      · show (match (n : Inner K (Node K V d)).runts.take (o / 2) with | [] => throw Panic.noChildren | k :: _ => pure k) =
             (match (n : Inner K (Node K V d)).runts with | [] => throw Panic.noChildren | k :: _ => pure k)
        cases hkk : (n : Inner K (Node K V d)).runts with
        | nil => rw [hkk] at hk; simp at hk; omega
        | cons k0 rest =>
          obtain ⟨hh, hhe⟩ : ∃ hh, o / 2 = hh + 1 := ⟨o / 2 - 1, by omega⟩
          rw [hhe]; rfl
      · have hkeys := Kids_keys_lt h hi _ g.2
        rw [hdropk, hdropc] at hkeys
        exact hkeys (s, (n : Inner K (Node K V d)).kids[o / 2]) (by rw [List.zip_cons_cons]; exact List.mem_cons_self ..)
      · show LinkedKids (Linked d) (Node.firstId (d := d)) _ ((n : Inner K (Node K V d)).kids.take (o / 2))
        have hL' : LinkedKids (Linked d) (Node.firstId (d := d)) after
            ((n : Inner K (Node K V d)).kids.take (o / 2) ++ (n : Inner K (Node K V d)).kids.drop (o / 2)) := by
          rw [List.take_append_drop]; exact hL
        rw [LinkedKids_append] at hL'
        have h2 := hL'.1
        rw [hdropc] at h2
        have hfi : Node.firstId (d := d + 1) (Inner.mk fresh ((n : Inner K (Node K V d)).runts.drop (o / 2))
              ((n : Inner K (Node K V d)).kids.drop (o / 2)) : Inner K (Node K V d)) =
            Node.firstId ((n : Inner K (Node K V d)).kids[o / 2]) := by
          show (match (n : Inner K (Node K V d)).kids.drop (o / 2) with | [] => 0 | c :: _ => Node.firstId c) = _
          rw [hdropc]
        show LinkedKids (Linked d) (Node.firstId (d := d)) (some (Node.firstId (d := d + 1) (Inner.mk fresh ((n : Inner K (Node K V d)).runts.drop (o / 2))
              ((n : Inner K (Node K V d)).kids.drop (o / 2)) : Inner K (Node K V d)))) _
        rw [hfi]
        exact h2
      · show LinkedKids (Linked d) (Node.firstId (d := d)) after ((n : Inner K (Node K V d)).kids.drop (o / 2))
        have hL' : LinkedKids (Linked d) (Node.firstId (d := d)) after
            ((n : Inner K (Node K V d)).kids.take (o / 2) ++ (n : Inner K (Node K V d)).kids.drop (o / 2)) := by
          rw [List.take_append_drop]; exact hL
        rw [LinkedKids_append] at hL'
        exact hL'.2
      · show (match (n : Inner K (Node K V d)).kids.take (o / 2) with | [] => 0 | c :: _ => Node.firstId c) =
             (match (n : Inner K (Node K V d)).kids with | [] => 0 | c :: _ => Node.firstId c)
        cases hkk : (n : Inner K (Node K V d)).kids with
        | nil => rw [hkk] at hv; simp at hv; omega
        | cons k0 rest =>
          obtain ⟨hh', hhe⟩ : ∃ hh', o / 2 = hh' + 1 := ⟨o / 2 - 1, by omega⟩
          rw [hhe]; rfl

end Gobptree
