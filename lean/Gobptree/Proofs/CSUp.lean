/-
  Every continuation except Delete's: resuming it keeps the structural invariant
  (`resume_post_U`).  Starting an operation: `startOp_post` (CSUpStart).
-/
import Gobptree.Proofs.CSUpArrive
import Gobptree.Proofs.CSUpRO
import Gobptree.Proofs.CSUpStart

namespace Gobptree.Conc
open Gobptree

variable {K V : Type}

/-- Search / NewScanner / Insert / Update / cursor hop / pause continuations -/
theorem resume_post_U (P : Params K) (t : Nat) (s : St K V) (k : Kont K V) (H : List Lk) (hole : Option Nat)
    (hnd : isDelK k = false)
    (hpre : Pre P hole s)
    (hk : KontOk s.tree k) (hc : CursorOk s.tree (isHopK k) s.cursor) (hkp : KontPre s.cursor k)
    (hcov : Covers H s.cursor k) :
    Post H hole s (resume P t s k).1 (resume P t s k).2 ∧ flowHole (resume P t s k).2 = none := by
  obtain ⟨hheld, hlock, _⟩ := hcov
  cases k with
  | roTree sc key =>
    have hcur : cursorLocks s.cursor = [] := hkp
    simp only [resume]
    refine ⟨Post.of_unchanged hpre.tree rfl (by simp) ?_ (cursorOk_of_noLocks _ false _ hcur), rfl⟩
    intro p hp
    cases hp
    exact ⟨rfl, hcur, rfl⟩
  | roNode sc key hold want =>
    have hcur : cursorLocks s.cursor = [] := hkp
    have h := roArrive_post P t (s.acq t (.node want)) sc key hold want H hole ⟨hpre.tree, hpre.order, hpre.pad⟩ hk hcur
    exact ⟨Post.of_tree_eq (by rfl) h.1, h.2⟩
  | upTree key f y =>
    have hcur : cursorLocks s.cursor = [] := hkp
    simp only [resume]
    refine ⟨Post.of_unchanged hpre.tree rfl (by simp) ?_ (cursorOk_of_noLocks _ false _ hcur), rfl⟩
    intro p hp
    cases hp
    exact ⟨rfl, hcur, rfl⟩
  | upRoot key f y r =>
    have hcur : cursorLocks s.cursor = [] := hkp
    have h := upRootArrive_post P t (s.acq t (.node r)) key f y r H hole ⟨hpre.tree, hpre.order, hpre.pad⟩ hk
      (hheld _ (by simp [kontHeld])) (hlock _ rfl) hcur
    exact ⟨Post.of_tree_eq (by rfl) h.1, h.2⟩
  | upRootSib key f y root sib =>
    have hcur : cursorLocks s.cursor = [] := hkp
    obtain ⟨_, hnf, _⟩ := hk
    have h := upContinue_post P t (((s.acq t (.node sib)).rel t (.node root)).rel t .tree) key f y sib H hole
      ⟨hpre.tree, hpre.order, hpre.pad⟩ hnf (hlock _ rfl) hcur
    exact ⟨Post.of_tree_eq (by rfl) h.1, h.2⟩
  | upChild key f y parent index child =>
    have hcur : cursorLocks s.cursor = [] := hkp
    have h := upChildArrive_post P t (s.acq t (.node child)) key f y parent index child H hole
      ⟨hpre.tree, hpre.order, hpre.pad⟩ hk (hheld _ (by simp [kontHeld])) (hlock _ rfl) hcur
    exact ⟨Post.of_tree_eq (by rfl) h.1, h.2⟩
  | upSib key f y parent child sib =>
    have hcur : cursorLocks s.cursor = [] := hkp
    obtain ⟨_, hnf, _⟩ := hk
    have h := upContinue_post P t (((s.acq t (.node sib)).rel t (.node child)).rel t (.node parent)) key f y sib H hole
      ⟨hpre.tree, hpre.order, hpre.pad⟩ hnf (hlock _ rfl) hcur
    exact ⟨Post.of_tree_eq (by rfl) h.1, h.2⟩
  | upCallback key f leaf arg =>
    have hcur : cursorLocks s.cursor = [] := hkp
    exact upCallback_post P t s key f leaf arg H hole hpre hk (hheld _ (by simp [kontHeld])) hcur
  | delTree key => simp [isDelK] at hnd
  | delRoot key r => simp [isDelK] at hnd
  | delLeft key frames node index left root => simp [isDelK] at hnd
  | delChild key frames node index left child root => simp [isDelK] at hnd
  | delRight key rest fr right root => simp [isDelK] at hnd
  | hop cur next => exact hop_post P t s cur next H hole hpre hk
  | paused =>
    simp only [resume]
    exact ⟨Post.of_unchanged hpre.tree rfl (by simp) (by intro p hp; cases hp) hc, rfl⟩

end Gobptree.Conc

#print axioms Gobptree.Conc.resume_post_U
#print axioms Gobptree.Conc.startOp_post
