/-
  Key-order proofs for Delete, part 3: `rebalance` on an `Ord` inner node yields an `Ord` inner
  node in the same interval with the same pairs, and every identity below it other than the
  node itself and the two siblings involved keeps its interval or gets a wider one.
-/
import Gobptree.Proofs.CKDelNode

namespace Gobptree.Conc
open Gobptree

variable {K V : Type} {lt : K → K → Bool}

/-! ### the parent around two adjacent kids -/

theorem parent_split2 {d : Nat} (i : Inner K (Node K V d)) (lo hi : Option K)
    (rA rB : List K) (A B : List (Node K V d)) (k1 k2 : K) (c1 c2 : Node K V d)
    (hr : i.runts = rA ++ k1 :: k2 :: rB) (hk : i.kids = A ++ c1 :: c2 :: B)
    (hl : rA.length = A.length) (hO : Ord lt (d + 1) lo hi i) :
    Kids lt (fun a b c => Ord lt d a b c) (some k1) (rA.zip A) ∧
    Ord lt d (some k1) (some k2) c1 ∧ lt k1 k2 = true ∧
    Ord lt d (some k2) (nextLo hi (rB.zip B)) c2 ∧ ltO lt k2 (nextLo hi (rB.zip B)) ∧
    Kids lt (fun a b c => Ord lt d a b c) hi (rB.zip B) := by
  have hK := hO.2
  rw [hr, hk, Kids_decomp hi rA (k2 :: rB) k1 A (c2 :: B) c1 hl] at hK
  obtain ⟨hKA, hO1, h12, hK2⟩ := hK
  have hK2' : Kids lt (fun a b c => Ord lt d a b c) hi ((k2, c2) :: rB.zip B) := hK2
  obtain ⟨hO2, h2n, hKB⟩ := hK2'
  exact ⟨hKA, hO1, h12, hO2, h2n, hKB⟩

theorem pair_setup {d : Nat} (i : Inner K (Node K V d)) (hPar : ParN (d + 1) i) (j : Nat)
    (c1 c2 : Node K V d) (h1 : i.kids[j]? = some c1) (h2 : i.kids[j + 1]? = some c2) :
    ∃ (rA rB : List K) (A B : List (Node K V d)) (k1 k2 : K),
      i.runts = rA ++ k1 :: k2 :: rB ∧ i.kids = A ++ c1 :: c2 :: B ∧
      rA.length = A.length ∧ rB.length = B.length ∧ A.length = j := by
  obtain ⟨A, B, hk, hA⟩ := split_two i.kids j c1 c2 h1 h2
  have hlen := hPar.1
  have hj : j + 1 < i.runts.length := by
    rw [hlen, hk]; simp; omega
  obtain ⟨rA, rB, hr, hrA⟩ := split_two i.runts j (i.runts[j]'(by omega)) (i.runts[j + 1]'hj)
    (List.getElem?_eq_getElem _) (List.getElem?_eq_getElem _)
  refine ⟨rA, rB, A, B, _, _, hr, hk, by omega, ?_, hA⟩
  have e1 := congrArg List.length hr
  have e2 := congrArg List.length hk
  simp only [List.length_append, List.length_cons] at e1 e2
  omega

theorem parent_borrow (h : SWO lt) {d : Nat} (i : Inner K (Node K V d)) (lo hi : Option K)
    (rA rB : List K) (A B : List (Node K V d)) (k1 k2 s : K) (c1 c2 c1' c2' : Node K V d)
    (hr : i.runts = rA ++ k1 :: k2 :: rB) (hk : i.kids = A ++ c1 :: c2 :: B)
    (hl : rA.length = A.length) (hlB : rB.length = B.length)
    (hO : Ord lt (d + 1) lo hi i) (hP : ParN (d + 1) i)
    (out : BorrowOut lt k1 k2 s (nextLo hi (rB.zip B)) c1 c2 c1' c2')
    (i' : Inner K (Node K V d))
    (hi' : i' = (Inner.mk i.id (rA ++ k1 :: s :: rB) (A ++ c1' :: c2' :: B) : Inner K (Node K V d))) :
    i'.id = i.id ∧ Ord lt (d + 1) lo hi i' ∧ ParN (d + 1) i' ∧
    Node.pairs (d := d + 1) i' = Node.pairs (d := d + 1) i ∧
    ∀ x, x ≠ i.id → x ≠ Node.id c1 → x ≠ Node.id c2 →
      OW lt (boundsOf x (d + 1) lo hi i) (boundsOf x (d + 1) lo hi i') := by
  subst hi'
  obtain ⟨hKA, hO1, h12, hO2, h2n, hKB⟩ := parent_split2 i lo hi rA rB A B k1 k2 c1 c2 hr hk hl hO
  have hself : i = (Inner.mk i.id (rA ++ k1 :: k2 :: rB) (A ++ c1 :: c2 :: B) : Inner K (Node K V d)) := by
    rw [← hr, ← hk]
  refine ⟨rfl, ⟨?_, ?_⟩, ⟨?_, ?_, ?_⟩, ?_, ?_⟩
  · intro k hk'
    apply hO.1 k
    rw [hr, head?_append_cons rA k1 (k2 :: rB) (s :: rB)]
    exact hk'
  · show Kids lt (fun a b c => Ord lt d a b c) hi ((rA ++ k1 :: s :: rB).zip (A ++ c1' :: c2' :: B))
    rw [Kids_decomp hi rA (s :: rB) k1 A (c2' :: B) c1' hl]
    exact ⟨hKA, out.ord1, out.lt1, out.ord2, out.lt2, hKB⟩
  · show (rA ++ k1 :: s :: rB).length = (A ++ c1' :: c2' :: B).length
    simp only [List.length_append, List.length_cons, hl, hlB]
  · show 1 ≤ (rA ++ k1 :: s :: rB).length
    simp only [List.length_append, List.length_cons]
    omega
  · intro y hy
    have hy' : y ∈ A ++ c1' :: c2' :: B := hy
    rcases List.mem_append.1 hy' with hy' | hy'
    · exact hP.2.2 y (by rw [hk]; simp [hy'])
    · rcases List.mem_cons.1 hy' with rfl | hy'
      · exact out.par1
      · rcases List.mem_cons.1 hy' with rfl | hy'
        · exact out.par2
        · exact hP.2.2 y (by rw [hk]; simp [hy'])
  · show (A ++ c1' :: c2' :: B).flatMap (Node.pairs (d := d)) = i.kids.flatMap (Node.pairs (d := d))
    rw [hk]
    simp only [List.flatMap_append, List.flatMap_cons]
    rw [← List.append_assoc (Node.pairs c1'), out.pairs, List.append_assoc]
  · intro x hx hx1 hx2
    have hne : i.id ≠ x := fun e => hx e.symm
    rw [(congrArg (boundsOf x (d + 1) lo hi) hself).trans
        (boundsOf_decomp x lo hi i.id rA (k2 :: rB) k1 A (c2 :: B) c1 hne hl),
      boundsOf_decomp x lo hi i.id rA (s :: rB) k1 A (c2' :: B) c1' hne hl]
    apply OW.or (OW.refl h _)
    show OW lt ((boundsOf x d (some k1) (some k2) c1).or (firstE (boundsOf x d) hi ((k2, c2) :: rB.zip B)))
      ((boundsOf x d (some k1) (some s) c1').or (firstE (boundsOf x d) hi ((s, c2') :: rB.zip B)))
    rw [firstE_cons_or, firstE_cons_or, ← Option.or_assoc, ← Option.or_assoc]
    exact OW.or (out.bnd x hx1 hx2) (OW.refl h _)

theorem parent_merge (h : SWO lt) {d : Nat} (i : Inner K (Node K V d)) (lo hi : Option K)
    (rA rB : List K) (A B : List (Node K V d)) (k1 k2 : K) (c1 c2 m : Node K V d)
    (hr : i.runts = rA ++ k1 :: k2 :: rB) (hk : i.kids = A ++ c1 :: c2 :: B)
    (hl : rA.length = A.length) (hlB : rB.length = B.length)
    (hO : Ord lt (d + 1) lo hi i) (hP : ParN (d + 1) i)
    (out : MergeOut lt k1 k2 (nextLo hi (rB.zip B)) c1 c2 m)
    (i' : Inner K (Node K V d))
    (hi' : i' = (Inner.mk i.id (rA ++ k1 :: rB) (A ++ m :: B) : Inner K (Node K V d))) :
    i'.id = i.id ∧ Ord lt (d + 1) lo hi i' ∧ ParN (d + 1) i' ∧
    Node.pairs (d := d + 1) i' = Node.pairs (d := d + 1) i ∧
    ∀ x, x ≠ i.id → x ≠ Node.id c1 → x ≠ Node.id c2 →
      OW lt (boundsOf x (d + 1) lo hi i) (boundsOf x (d + 1) lo hi i') := by
  subst hi'
  obtain ⟨hKA, hO1, h12, hO2, h2n, hKB⟩ := parent_split2 i lo hi rA rB A B k1 k2 c1 c2 hr hk hl hO
  have hself : i = (Inner.mk i.id (rA ++ k1 :: k2 :: rB) (A ++ c1 :: c2 :: B) : Inner K (Node K V d)) := by
    rw [← hr, ← hk]
  refine ⟨rfl, ⟨?_, ?_⟩, ⟨?_, ?_, ?_⟩, ?_, ?_⟩
  · intro k hk'
    apply hO.1 k
    rw [hr, head?_append_cons rA k1 (k2 :: rB) rB]
    exact hk'
  · show Kids lt (fun a b c => Ord lt d a b c) hi ((rA ++ k1 :: rB).zip (A ++ m :: B))
    rw [Kids_decomp hi rA rB k1 A B m hl]
    refine ⟨hKA, out.ord, ?_, hKB⟩
    exact ltO_of_lt h h12 h2n
  · show (rA ++ k1 :: rB).length = (A ++ m :: B).length
    simp only [List.length_append, List.length_cons, hl, hlB]
  · show 1 ≤ (rA ++ k1 :: rB).length
    simp only [List.length_append, List.length_cons]
    omega
  · intro y hy
    have hy' : y ∈ A ++ m :: B := hy
    rcases List.mem_append.1 hy' with hy' | hy'
    · exact hP.2.2 y (by rw [hk]; simp [hy'])
    · rcases List.mem_cons.1 hy' with rfl | hy'
      · exact out.par
      · exact hP.2.2 y (by rw [hk]; simp [hy'])
  · show (A ++ m :: B).flatMap (Node.pairs (d := d)) = i.kids.flatMap (Node.pairs (d := d))
    rw [hk]
    simp only [List.flatMap_append, List.flatMap_cons]
    rw [out.pairs, List.append_assoc]
  · intro x hx hx1 hx2
    have hne : i.id ≠ x := fun e => hx e.symm
    rw [(congrArg (boundsOf x (d + 1) lo hi) hself).trans
        (boundsOf_decomp x lo hi i.id rA (k2 :: rB) k1 A (c2 :: B) c1 hne hl),
      boundsOf_decomp x lo hi i.id rA rB k1 A B m hne hl]
    apply OW.or (OW.refl h _)
    show OW lt ((boundsOf x d (some k1) (some k2) c1).or (firstE (boundsOf x d) hi ((k2, c2) :: rB.zip B)))
      ((boundsOf x d (some k1) (nextLo hi (rB.zip B)) m).or (firstE (boundsOf x d) hi (rB.zip B)))
    rw [firstE_cons_or, ← Option.or_assoc]
    exact OW.or (out.bnd x hx1 hx2) (OW.refl h _)

/-! ### `rebalance` -/

/-- what the key-order layer needs of a rebalanced node -/
def RebK (lt : K → K → Bool) {d : Nat} (i : Inner K (Node K V d)) (index : Nat) (lo hi : Option K)
    (i' : Inner K (Node K V d)) : Prop :=
  i'.id = i.id ∧ Ord lt (d + 1) lo hi i' ∧ ParN (d + 1) i' ∧
  Node.pairs (d := d + 1) i' = Node.pairs (d := d + 1) i ∧
  ∀ x, x ≠ i.id → (∀ j k, i.kids[j]? = some k → index ≤ j + 1 → j ≤ index + 1 → x ≠ Node.id k) →
    OW lt (boundsOf x (d + 1) lo hi i) (boundsOf x (d + 1) lo hi i')

theorem count_child_pos {o : Nat} {d : Nat} {i : Inner K (Node K V d)} {index : Nat} {child : Node K V d}
    (hin : RebIn o i index child) : 1 ≤ Node.count child := by
  obtain ⟨_, _, hh2, _, hcc⟩ := hin.lens
  rw [count_eqD]
  omega

theorem rebalance_node_left (h : SWO lt) (P : Params K) (hp : PadOk P) (o : Nat) {d : Nat}
    (i : Inner K (Node K V d)) (index : Nat) (child : Node K V d) (hin : RebIn o i index child)
    (lo hi : Option K) (hO : Ord lt (d + 1) lo hi i) (hPar : ParN (d + 1) i)
    (hnoR : index + 1 < i.runts.length → ∃ right, i.kids[index + 1]? = some right ∧ Node.count right ≤ o / 2)
    (hL : 0 < index)
    (i' : Inner K (Node K V d)) (small' : Bool)
    (heval : rebalance P {} (o / 2) i index child = .ok (i', small')) : RebK lt i index lo hi i' := by
  obtain ⟨hlen, hidk, hh2, hoo, hcc⟩ := hin.lens
  obtain ⟨j, rfl⟩ : ∃ j, index = j + 1 := ⟨index - 1, by omega⟩
  obtain ⟨left, hleft⟩ : ∃ l, i.kids[j]? = some l := ⟨i.kids[j]'(by omega), List.getElem?_eq_getElem _⟩
  have hlo := hin.kocc j left hleft (by omega)
  obtain ⟨rA, rB, A, B, k1, k2, hr, hk, hl, hlB, hA⟩ := pair_setup i hPar j left child hleft hin.hc
  obtain ⟨hKA, hO1, h12, hO2, h2n, hKB⟩ := parent_split2 i lo hi rA rB A B k1 k2 left child hr hk hl hO
  have hPl : ParN d left := hPar.2.2 left (List.mem_of_getElem? hleft)
  have hPc : ParN d child := hPar.2.2 child (List.mem_of_getElem? hin.hc)
  have hlc1 := hlo.1
  have hlc2 := hlo.2.1
  subst hA
  have hfinal : ∀ (x : Nat),
      (∀ j k, i.kids[j]? = some k → A.length + 1 ≤ j + 1 → j ≤ A.length + 1 + 1 → x ≠ Node.id k) →
      x ≠ Node.id left ∧ x ≠ Node.id child :=
    fun x hx => ⟨hx A.length left hleft (by omega) (by omega), hx (A.length + 1) child hin.hc (by omega) (by omega)⟩
  by_cases hLc : Node.count left > o / 2
  · obtain ⟨l', c', sm, hadopt, hsm, out⟩ :=
      adoptFromLeft_pair h P hp left child k1 k2 (nextLo hi (rB.zip B)) hO1 hO2 h2n hlo.par hin.cocc.par hPl hPc
        (by omega) (count_child_pos hin)
    have hev := reb_borrowL P (o / 2) i (A.length + 1) child left l' c' sm hnoR hL (by simpa using hleft) hLc
      hadopt hsm (by omega)
    rw [hev] at heval
    injection heval with heval
    injection heval with e1 _
    have hshape : i' = (Inner.mk i.id (rA ++ k1 :: sm :: rB) (A ++ l' :: c' :: B) : Inner K (Node K V d)) := by
      rw [← e1, Nat.add_sub_cancel, hr, hk, ← hl, form_set_next, hl, form_set_pivot, form_set_next]
    obtain ⟨r1, r2, r3, r4, r5⟩ := parent_borrow h i lo hi rA rB A B k1 k2 sm left child l' c' hr hk hl hlB hO hPar out i' hshape
    exact ⟨r1, r2, r3, r4, fun x hx hx' => r5 x hx (hfinal x hx').1 (hfinal x hx').2⟩
  · obtain ⟨m, habs, out⟩ :=
      absorbRight_pair h left child k1 k2 (nextLo hi (rB.zip B)) hO1 hO2 h12 h2n hlo.par hin.cocc.par hPl hPc
        (hin.chain_window A B left child hk)
    have hev := reb_mergeL P (o / 2) i (A.length + 1) child left m hnoR hL (by simpa using hleft) (by omega)
      (by rw [count_eqD]; omega) habs (by omega) (by omega)
    rw [hev] at heval
    injection heval with heval
    injection heval with e1 _
    have hshape : i' = (Inner.mk i.id (rA ++ k1 :: rB) (A ++ m :: B) : Inner K (Node K V d)) := by
      rw [← e1, Nat.add_sub_cancel, hr, hk, ← hl, form_delete_next, hl, form_set_pivot, form_delete_next]
    obtain ⟨r1, r2, r3, r4, r5⟩ := parent_merge h i lo hi rA rB A B k1 k2 left child m hr hk hl hlB hO hPar out i' hshape
    exact ⟨r1, r2, r3, r4, fun x hx hx' => r5 x hx (hfinal x hx').1 (hfinal x hx').2⟩

/-- **`rebalance` at the key-order level** -/
theorem rebalance_node (h : SWO lt) (P : Params K) (hp : PadOk P) (o : Nat) {d : Nat}
    (i : Inner K (Node K V d)) (index : Nat) (child : Node K V d) (hin : RebIn o i index child)
    (lo hi : Option K) (hO : Ord lt (d + 1) lo hi i) (hPar : ParN (d + 1) i)
    (i' : Inner K (Node K V d)) (small' : Bool)
    (heval : rebalance P {} (o / 2) i index child = .ok (i', small')) : RebK lt i index lo hi i' := by
  obtain ⟨hlen, hidk, hh2, hoo, hcc⟩ := hin.lens
  by_cases hR : index + 1 < i.runts.length
  · obtain ⟨right, hright⟩ : ∃ r, i.kids[index + 1]? = some r :=
      ⟨i.kids[index + 1]'(by omega), List.getElem?_eq_getElem _⟩
    have hro := hin.kocc (index + 1) right hright (by omega)
    by_cases hRc : Node.count right > o / 2
    · obtain ⟨rA, rB, A, B, k1, k2, hr, hk, hl, hlB, hA⟩ := pair_setup i hPar index child right hin.hc hright
      obtain ⟨hKA, hO1, h12, hO2, h2n, hKB⟩ := parent_split2 i lo hi rA rB A B k1 k2 child right hr hk hl hO
      have hPc : ParN d child := hPar.2.2 child (List.mem_of_getElem? hin.hc)
      have hPr : ParN d right := hPar.2.2 right (List.mem_of_getElem? hright)
      subst hA
      obtain ⟨c', r', sm, hadopt, hsm, out⟩ :=
        adoptFromRight_pair h child right k1 k2 (nextLo hi (rB.zip B)) hO1 hO2 h12 hin.cocc.par hro.par hPc hPr
          (by omega)
      have hev := reb_borrowR P (o / 2) i A.length child right c' r' sm hR hright hRc hadopt hsm
      rw [hev] at heval
      injection heval with heval
      injection heval with e1 _
      have hshape : i' = (Inner.mk i.id (rA ++ k1 :: sm :: rB) (A ++ c' :: r' :: B) : Inner K (Node K V d)) := by
        rw [← e1, hr, hk, ← hl, form_set_next, hl, form_set_pivot, form_set_next]
      obtain ⟨r1, r2, r3, r4, r5⟩ :=
        parent_borrow h i lo hi rA rB A B k1 k2 sm child right c' r' hr hk hl hlB hO hPar out i' hshape
      exact ⟨r1, r2, r3, r4, fun x hx hx' => r5 x hx (hx' A.length child hin.hc (by omega) (by omega))
        (hx' (A.length + 1) right hright (by omega) (by omega))⟩
    · by_cases hL : 0 < index
      · exact rebalance_node_left h P hp o i index child hin lo hi hO hPar
          (fun _ => ⟨right, hright, by omega⟩) hL i' small' heval
      · obtain ⟨rA, rB, A, B, k1, k2, hr, hk, hl, hlB, hA⟩ := pair_setup i hPar index child right hin.hc hright
        obtain ⟨hKA, hO1, h12, hO2, h2n, hKB⟩ := parent_split2 i lo hi rA rB A B k1 k2 child right hr hk hl hO
        have hPc : ParN d child := hPar.2.2 child (List.mem_of_getElem? hin.hc)
        have hPr : ParN d right := hPar.2.2 right (List.mem_of_getElem? hright)
        subst hA
        obtain ⟨m, habs, out⟩ :=
          absorbRight_pair h child right k1 k2 (nextLo hi (rB.zip B)) hO1 hO2 h12 h2n hin.cocc.par hro.par hPc hPr
            (hin.chain_window A B child right hk)
        have hrc := hro.2.1
        have hev := reb_mergeR P (o / 2) i A.length child right m hR hright (by omega)
          (by rw [count_eqD]; omega) (by omega) habs (by omega)
        rw [hev] at heval
        injection heval with heval
        injection heval with e1 _
        have hshape : i' = (Inner.mk i.id (rA ++ k1 :: rB) (A ++ m :: B) : Inner K (Node K V d)) := by
          rw [← e1, hr, hk, ← hl, form_delete_next, hl, form_set_pivot, form_delete_next]
        obtain ⟨r1, r2, r3, r4, r5⟩ :=
          parent_merge h i lo hi rA rB A B k1 k2 child right m hr hk hl hlB hO hPar out i' hshape
        exact ⟨r1, r2, r3, r4, fun x hx hx' => r5 x hx (hx' A.length child hin.hc (by omega) (by omega))
          (hx' (A.length + 1) right hright (by omega) (by omega))⟩
  · have := hin.two
    exact rebalance_node_left h P hp o i index child hin lo hi hO hPar (fun h' => absurd h' hR) (by omega)
      i' small' heval

end Gobptree.Conc
