/-
  Step equations of `rebalance` (the four ways Delete repairs an under-full child).
-/
import Gobptree.Proofs.Context

namespace Gobptree

variable {K V : Type}

theorem rebalance_borrowRight_eq (P : Params K) (vr : Variant) (minSize : Nat) {d : Nat}
    (i : Inner K (Node K V d)) (index : Nat) (child right c'' r' : Node K V d) (s : K)
    (hidx : index + 1 < i.runts.length)
    (hright : i.kids[index + 1]? = some right)
    (hcount : minSize < Node.count right)
    (hadopt : Node.adoptFromRight child right = .ok (c'', r'))
    (hs : Node.smallest r' = .ok s) :
    rebalance P vr minSize i index child =
      .ok ((Inner.mk i.id (i.runts.set (index + 1) s) ((i.kids.set index c'').set (index + 1) r') :
        Inner K (Node K V d)), false) := by
  unfold rebalance
  simp only [hidx, decide_true, if_true, hright, Option.isNone_some, and_false, if_false, hcount, gt_iff_lt,
    bind, Except.bind, pure, Except.pure, hadopt, hs, Bool.false_eq_true]
  have : ¬ i.runts.length ≤ index + 1 := by omega
  simp [this]

theorem rebalance_borrowLeft_eq (P : Params K) (vr : Variant) (hvr : vr.noRefreshLeft = false) (minSize : Nat) {d : Nat}
    (i : Inner K (Node K V d)) (index : Nat) (child left l' c'' : Node K V d) (s : K)
    (hpos : index > 0) (hidx : index < i.runts.length)
    (hnoright : ∀ right, index + 1 < i.runts.length → i.kids[index + 1]? = some right → ¬ minSize < Node.count right)
    (hrightok : index + 1 < i.runts.length → ∃ right, i.kids[index + 1]? = some right)
    (hleft : i.kids[index - 1]? = some left)
    (hcount : minSize < Node.count left)
    (hadopt : Node.adoptFromLeft P left child = .ok (l', c''))
    (hs : Node.smallest c'' = .ok s) :
    rebalance P vr minSize i index child =
      .ok ((Inner.mk i.id (i.runts.set index s) ((i.kids.set (index - 1) l').set index c'') :
        Inner K (Node K V d)), false) := by
  unfold rebalance
  by_cases hr : index + 1 < i.runts.length
  · obtain ⟨right, hright⟩ := hrightok hr
    have hnc := hnoright right hr hright
    simp only [hr, decide_true, if_true, hright, Option.isNone_some, and_false, if_false, hnc,
      bind, Except.bind, pure, Except.pure, hpos, hleft, hcount, hadopt, hs, Bool.false_eq_true, gt_iff_lt, hvr]
    have : ¬ i.runts.length ≤ index := by omega
    simp [this, hcount, hadopt, hs, hvr]
  · simp only [hr, decide_false, Bool.false_eq_true, if_false, Option.isNone_none, false_and,
      bind, Except.bind, pure, Except.pure, hpos, hleft, hcount, hadopt, hs, gt_iff_lt, hvr]
    have : ¬ i.runts.length ≤ index := by omega
    simp [this, hcount, hadopt, hs, hvr]

theorem rebalance_mergeLeft_eq (P : Params K) (vr : Variant) (minSize : Nat) {d : Nat}
    (i : Inner K (Node K V d)) (index : Nat) (child left merged : Node K V d)
    (hpos : index > 0) (hidx : index < i.runts.length) (hidxk : index < i.kids.length)
    (hnoright : ∀ right, index + 1 < i.runts.length → i.kids[index + 1]? = some right → ¬ minSize < Node.count right)
    (hrightok : index + 1 < i.runts.length → ∃ right, i.kids[index + 1]? = some right)
    (hleft : i.kids[index - 1]? = some left)
    (hcount : ¬ minSize < Node.count left) (hcount0 : 0 < Node.count left)
    (habsorb : Node.absorbRight left child = .ok merged) :
    rebalance P vr minSize i index child =
      .ok ((Inner.mk i.id (deleteIdiom i.runts index) (deleteIdiom (i.kids.set (index - 1) merged) index) :
        Inner K (Node K V d)), decide ((deleteIdiom i.runts index).length < minSize)) := by
  unfold rebalance
  by_cases hr : index + 1 < i.runts.length
  · obtain ⟨right, hright⟩ := hrightok hr
    have hnc := hnoright right hr hright
    simp only [hr, decide_true, if_true, hright, Option.isNone_some, and_false, if_false, hnc,
      bind, Except.bind, pure, Except.pure, hpos, hleft, hcount, hcount0, habsorb, Bool.false_eq_true, gt_iff_lt]
    have : ¬ (i.runts.length ≤ index ∨ i.kids.length ≤ index) := by omega
    simp [this, hcount, hcount0, habsorb]
  · simp only [hr, decide_false, Bool.false_eq_true, if_false, Option.isNone_none, false_and,
      bind, Except.bind, pure, Except.pure, hpos, hleft, hcount, hcount0, habsorb, gt_iff_lt]
    have : ¬ (i.runts.length ≤ index ∨ i.kids.length ≤ index) := by omega
    simp [this, hcount, hcount0, habsorb]

theorem rebalance_mergeRight_eq (P : Params K) (vr : Variant) (minSize : Nat) {d : Nat}
    (i : Inner K (Node K V d)) (child right merged : Node K V d)
    (hidx : 1 < i.runts.length) (hidxk : 1 < i.kids.length)
    (hright : i.kids[1]? = some right)
    (hcount : ¬ minSize < Node.count right) (hcount0 : Node.count right ≠ 0)
    (habsorb : Node.absorbRight child right = .ok merged) :
    rebalance P vr minSize i 0 child =
      .ok ((Inner.mk i.id (deleteIdiom i.runts 1) (deleteIdiom (i.kids.set 0 merged) 1) :
        Inner K (Node K V d)), decide ((deleteIdiom i.runts 1).length < minSize)) := by
  unfold rebalance
  simp only [Nat.zero_add, hidx, decide_true, if_true, hright, Option.isNone_some, and_false, if_false, hcount,
    bind, Except.bind, pure, Except.pure, Nat.lt_irrefl, gt_iff_lt, habsorb, Bool.false_eq_true]
  have : ¬ (i.runts.length ≤ 1 ∨ i.kids.length ≤ 1) := by omega
  simp [this, hcount0]

end Gobptree
