/-
  A thread whose program contains no `Delete` never reaches a Delete continuation:
  the blocks of Search/NewScanner, Insert/Update, the cursor hop and the pause only park
  with continuations of their own kind, and `startOp` parks with a Delete continuation
  only for `.del`.
-/
import Gobptree.Proofs.CSParkKind

namespace Gobptree.Conc
open Gobptree

variable {K V : Type}

def COp.isDel : COp K V → Bool
  | .del _ => true
  | _ => false

/-- a block's outcome, if it is a park, is not a park of Delete -/
def noDelFlow : Flow K V → Prop
  | .park p => isDelPark p = false
  | _ => True

/-- closes `noDelFlow fl` for an explicit `fl` -/
macro "nodel" : tactic => `(tactic| first | exact True.intro | exact rfl)

/-! ### the blocks (Delete's are unreachable from a non-Delete continuation) -/

theorem roArrive_nodel (P : Params K) (t : Nat) (s : St K V) (sc : Bool) (key : K) (hold : Lk) (n : Nat) :
    noDelFlow (roArrive P t s sc key hold n).2 := by
  unfold roArrive
  simp only
  split
  · nodel
  · split
    · split
      · nodel
      · split
        · nodel
        · nodel
    · split
      · nodel
      · split <;> nodel

theorem upLeaf_nodel (P : Params K) (t : Nat) (s : St K V) (key : K) (f : Option V → V) (y : Option Bool) (n : Nat)
    (l : Leaf K V) : noDelFlow (upLeaf P t s key f y n l).2 := by
  unfold upLeaf
  split
  · nodel
  · split
    · nodel
    · nodel
    · nodel

theorem upContinue_nodel (P : Params K) (t : Nat) (s : St K V) (key : K) (f : Option V → V) (y : Option Bool) (n : Nat) :
    noDelFlow (upContinue P t s key f y n).2 := by
  unfold upContinue
  split
  · nodel
  · split
    · exact upLeaf_nodel P t s key f y n _
    · split
      · nodel
      · simp only
        split <;> nodel

theorem upChildArrive_nodel (P : Params K) (t : Nat) (s : St K V) (key : K) (f : Option V → V) (y : Option Bool)
    (parent index child : Nat) : noDelFlow (upChildArrive P t s key f y parent index child).2 := by
  unfold upChildArrive
  split
  · split
    · nodel
    · split
      · nodel
      · split
        · nodel
        · exact upContinue_nodel P t _ key f y child
        · split
          · split
            · nodel
            · exact upContinue_nodel P t _ key f y child
          · nodel
  · nodel

theorem upRootArrive_nodel (P : Params K) (t : Nat) (s : St K V) (key : K) (f : Option V → V) (y : Option Bool)
    (root : Nat) : noDelFlow (upRootArrive P t s key f y root).2 := by
  unfold upRootArrive
  simp only
  split
  · nodel
  · exact upContinue_nodel P t _ key f y root
  · split
    · split
      · nodel
      · exact upContinue_nodel P t _ key f y root
    · nodel

/-! ### resume / startOp -/

theorem resume_nodelFlow (P : Params K) (t : Nat) (s : St K V) (k : Kont K V) (h : isDelK k = false) :
    noDelFlow (resume P t s k).2 := by
  cases k with
  | roTree sc key => simp only [resume]; nodel
  | roNode sc key hold want => simp only [resume]; exact roArrive_nodel P t _ sc key hold want
  | upTree key f y => simp only [resume]; nodel
  | upRoot key f y r => simp only [resume]; exact upRootArrive_nodel P t _ key f y r
  | upRootSib key f y root sib => simp only [resume]; exact upContinue_nodel P t _ key f y sib
  | upChild key f y parent index child =>
    simp only [resume]; exact upChildArrive_nodel P t _ key f y parent index child
  | upSib key f y parent child sib => simp only [resume]; exact upContinue_nodel P t _ key f y sib
  | upCallback key f leaf arg =>
    simp only [resume]
    split
    · split
      · split <;> nodel
      · nodel
    · nodel
  | delTree key => simp [isDelK] at h
  | delRoot key r => simp [isDelK] at h
  | delLeft key frames node index left root => simp [isDelK] at h
  | delChild key frames node index left child root => simp [isDelK] at h
  | delRight key rest fr right root => simp [isDelK] at h
  | hop cur next => simp only [resume]; nodel
  | paused => simp only [resume]; nodel

theorem startOp_nodelFlow (t : Nat) (s : St K V) (op : COp K V) (h : op.isDel = false) :
    noDelFlow (startOp t s op).2 := by
  cases op with
  | ins k v => simp only [startOp]; split <;> nodel
  | upd k f y => simp only [startOp]; split <;> nodel
  | del k => simp [COp.isDel] at h
  | get k => simp only [startOp]; split <;> nodel
  | ns k => simp only [startOp]; split <;> nodel
  | pause => simp only [startOp]; nodel
  | scan =>
    simp only [startOp]
    split
    · split
      · nodel
      · split
        · split <;> nodel
        · nodel
    · nodel
  | pair =>
    simp only [startOp]
    split
    · split
      · nodel
      · split
        · nodel
        · split <;> nodel
    · nodel
  | close =>
    simp only [startOp]
    split
    · nodel
    · nodel

theorem resume_nodel (P : Params K) (t : Nat) (s : St K V) (k : Kont K V) (h : isDelK k = false) (p : Park K V)
    (hp : (resume P t s k).2 = .park p) : isDelPark p = false := by
  have := resume_nodelFlow P t s k h
  rw [hp] at this
  exact this

theorem startOp_nodel (t : Nat) (s : St K V) (op : COp K V) (h : op.isDel = false) (p : Park K V)
    (hp : (startOp t s op).2 = .park p) : isDelPark p = false := by
  have := startOp_nodelFlow t s op h
  rw [hp] at this
  exact this

/-! ### a whole scheduler step of one thread -/

theorem threadLoop_nodel (t : Nat) (th : Thread K V) (hprog : ∀ op ∈ th.prog, op.isDel = false) :
    ∀ (fuel : Nat) (s : St K V) (fl : Flow K V) (pc : Nat), noDelFlow fl →
      isDelPark (threadLoop t th fuel s fl pc).1.park = false ∧ (threadLoop t th fuel s fl pc).1.prog = th.prog := by
  intro fuel
  induction fuel with
  | zero =>
    intro s fl pc hf
    cases fl with
    | panic => exact ⟨rfl, rfl⟩
    | park p => exact ⟨hf, rfl⟩
    | done r => exact ⟨rfl, rfl⟩
  | succ fuel ih =>
    intro s fl pc hf
    cases fl with
    | panic => exact ⟨rfl, rfl⟩
    | park p => exact ⟨hf, rfl⟩
    | done r =>
      unfold threadLoop
      cases hop : th.prog[pc + 1]? with
      | none => exact ⟨rfl, rfl⟩
      | some op =>
        simp only []
        apply ih
        exact startOp_nodelFlow t _ op (hprog op (List.mem_of_getElem? hop))

/-- one scheduler step of a thread whose program has no Delete -/
theorem runThread_nodel (P : Params K) (t : Nat) (th : Thread K V) (s0 : St K V)
    (hprog : ∀ op ∈ th.prog, op.isDel = false) (hpark : isDelPark th.park = false) :
    isDelPark (runThread P t th s0).1.park = false ∧ (runThread P t th s0).1.prog = th.prog := by
  unfold runThread
  cases hp : th.park with
  | start =>
    simp only []
    cases hop : th.prog[0]? with
    | none => exact ⟨rfl, rfl⟩
    | some op =>
      simp only []
      apply threadLoop_nodel t th hprog
      exact startOp_nodelFlow t _ op (hprog op (List.mem_of_getElem? hop))
  | want l k =>
    simp only []
    rw [hp] at hpark
    exact threadLoop_nodel t th hprog _ _ _ _ (resume_nodelFlow P t s0 k hpark)
  | yielded k =>
    simp only []
    rw [hp] at hpark
    exact threadLoop_nodel t th hprog _ _ _ _ (resume_nodelFlow P t s0 k hpark)
  | finished =>
    exact ⟨hpark, rfl⟩

end Gobptree.Conc
