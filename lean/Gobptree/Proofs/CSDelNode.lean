/-
  Node-level operations of Delete (`adoptFromRight`, `adoptFromLeft`, `absorbRight`) on
  nodes with parallel arrays: they do not panic, and the flat views of the results arise
  from those of the arguments by a local rewrite (`Rw`).
-/
import Gobptree.Proofs.CSDelTree
import Gobptree.Proofs.IdsDelete

namespace Gobptree.Conc
open Gobptree

variable {K V : Type}

/-- the shape part of `NodeOcc`: parallel arrays -/
def Par (sh : Shallow K V) : Prop :=
  (sh.height = 0 → sh.keys.length = sh.vals.length ∧ sh.kids = []) ∧
  (0 < sh.height → sh.keys.length = sh.kids.length ∧ 1 ≤ sh.keys.length ∧ sh.next = none)

theorem NodeOcc.par {o m : Nat} {sh : Shallow K V} (h : NodeOcc o m sh) : Par sh := h.2.2

theorem NodeOcc.of_par {o m : Nat} {sh : Shallow K V} (h : Par sh) (h1 : sh.keys.length ≤ o)
    (h2 : m ≤ sh.keys.length) : NodeOcc o m sh := ⟨h1, h2, h⟩

theorem count_eqD : ∀ {d : Nat} (n : Node K V d), Node.count n = (shallow n).keys.length
  | 0, _ => rfl
  | _ + 1, _ => rfl

theorem par_leaf (l : Leaf K V) : Par (shallow (d := 0) l) ↔ l.keys.length = l.vals.length := by
  simp [Par, shallow]

theorem par_inner {d : Nat} (i : Inner K (Node K V d)) :
    Par (shallow (d := d + 1) i) ↔ i.runts.length = i.kids.length ∧ 1 ≤ i.runts.length := by
  simp [Par, shallow]

@[simp] theorem id_mk_inner {d : Nat} (id : Nat) (runts : List K) (kids : List (Node K V d)) :
    Node.id (d := d + 1) (Inner.mk id runts kids : Inner K (Node K V d)) = id := rfl

@[simp] theorem id_mk_leaf (id : Nat) (keys : List K) (vals : List V) (next : Option Nat) :
    Node.id (d := 0) (Leaf.mk id keys vals next : Leaf K V) = id := rfl

/-! ### adoptFromRight -/

theorem adoptFromRight_rw : ∀ {d : Nat} (c r : Node K V d), Par (shallow c) → Par (shallow r) →
    2 ≤ Node.count r → ((flat c ++ flat r).map Prod.fst).Nodup →
    ∃ c' r' sm, Node.adoptFromRight c r = .ok (c', r') ∧ Node.smallest r' = .ok sm ∧
      Node.id c' = Node.id c ∧ Node.id r' = Node.id r ∧
      Node.count c' = Node.count c + 1 ∧ Node.count r' + 1 = Node.count r ∧
      Par (shallow c') ∧ Par (shallow r') ∧
      Rw [Node.id c, Node.id r] [(Node.id c', shallow c'), (Node.id r', shallow r')]
        (flat c ++ flat r) (flat c' ++ flat r') := by
  intro d
  cases d with
  | zero =>
    intro c r hc hr h2 hn
    obtain ⟨cid, ckeys, cvals, cnext⟩ := (c : Leaf K V)
    obtain ⟨rid, rkeys, rvals, rnext⟩ := (r : Leaf K V)
    rw [par_leaf] at hr hc
    simp only at hr hc
    have h2' : 2 ≤ rkeys.length := h2
    match rkeys, rvals, hr, h2' with
    | k :: k2 :: ks, v :: v2 :: vs, hr, _ =>
      refine ⟨({ id := cid, keys := ckeys ++ [k], vals := cvals ++ [v], next := cnext } : Leaf K V),
        ({ id := rid, keys := k2 :: ks, vals := v2 :: vs, next := rnext } : Leaf K V), k2, ?_, rfl, rfl, rfl, ?_, rfl, ?_, ?_, ?_⟩
      · simp [Node.adoptFromRight, popFrontIdiom_eq]; rfl
      · show (ckeys ++ [k]).length = ckeys.length + 1
        simp
      · rw [par_leaf]
        simp [hc]
      · rw [par_leaf]
        simpa using hr
      · have h1 := Rw.single (K := K) (V := V) cid
          (shallow (d := 0) ({ id := cid, keys := ckeys, vals := cvals, next := cnext } : Leaf K V))
          (shallow (d := 0) ({ id := cid, keys := ckeys ++ [k], vals := cvals ++ [v], next := cnext } : Leaf K V)) rfl (fun _ => rfl)
        have h2 := Rw.single (K := K) (V := V) rid
          (shallow (d := 0) ({ id := rid, keys := k :: k2 :: ks, vals := v :: v2 :: vs, next := rnext } : Leaf K V))
          (shallow (d := 0) ({ id := rid, keys := k2 :: ks, vals := v2 :: vs, next := rnext } : Leaf K V)) rfl (fun _ => rfl)
        exact h1.append h2 hn
  | succ d =>
    intro c r hc hr h2 hn
    obtain ⟨cid, crunts, ckids⟩ := (c : Inner K (Node K V d))
    obtain ⟨rid, rrunts, rkids⟩ := (r : Inner K (Node K V d))
    rw [par_inner] at hr hc
    simp only at hr hc
    have h2' : 2 ≤ rrunts.length := h2
    match rrunts, rkids, hr, h2' with
    | k :: k2 :: ks, x :: x2 :: xs, hr, _ =>
      refine ⟨({ id := cid, runts := crunts ++ [k], kids := ckids ++ [x] } : Inner K (Node K V d)),
        ({ id := rid, runts := k2 :: ks, kids := x2 :: xs } : Inner K (Node K V d)), k2, ?_, rfl, rfl, rfl, ?_, rfl, ?_, ?_, ?_⟩
      · simp [Node.adoptFromRight, popFrontIdiom_eq]; rfl
      · show (crunts ++ [k]).length = crunts.length + 1
        simp
      · rw [par_inner]
        simp [hc.1]
      · rw [par_inner]
        simpa using hr.1
      · have := Rw.rotR (K := K) (V := V) cid rid
          (shallow (d := d + 1) ({ id := cid, runts := crunts, kids := ckids } : Inner K (Node K V d)))
          (shallow (d := d + 1) ({ id := cid, runts := crunts ++ [k], kids := ckids ++ [x] } : Inner K (Node K V d)))
          (shallow (d := d + 1) ({ id := rid, runts := k :: k2 :: ks, kids := x :: x2 :: xs } : Inner K (Node K V d)))
          (shallow (d := d + 1) ({ id := rid, runts := k2 :: ks, kids := x2 :: xs } : Inner K (Node K V d)))
          (ckids.flatMap flat) (flat x) ((x2 :: xs).flatMap flat)
          (Nat.succ_ne_zero _) (Nat.succ_ne_zero _) (Nat.succ_ne_zero _) (Nat.succ_ne_zero _)
          (by simpa [flat_mk] using hn)
        simpa [flat_mk] using this

/-! ### adoptFromLeft -/

theorem snoc_of_pos {α : Type} (l : List α) (h : 0 < l.length) : ∃ L b, l = L ++ [b] := by
  have hne : l ≠ [] := by intro e; rw [e] at h; simp at h
  exact ⟨l.dropLast, l.getLast hne, (List.dropLast_concat_getLast hne).symm⟩

theorem adoptFromLeft_rw (P : Params K) (hp : PadOk P) : ∀ {d : Nat} (l c : Node K V d),
    Par (shallow l) → Par (shallow c) → 2 ≤ Node.count l → 1 ≤ Node.count c →
    ((flat l ++ flat c).map Prod.fst).Nodup →
    ∃ l' c' sm, Node.adoptFromLeft P l c = .ok (l', c') ∧ Node.smallest c' = .ok sm ∧
      Node.id l' = Node.id l ∧ Node.id c' = Node.id c ∧
      Node.count l' + 1 = Node.count l ∧ Node.count c' = Node.count c + 1 ∧
      Par (shallow l') ∧ Par (shallow c') ∧
      Rw [Node.id l, Node.id c] [(Node.id l', shallow l'), (Node.id c', shallow c')]
        (flat l ++ flat c) (flat l' ++ flat c') := by
  intro d
  cases d with
  | zero =>
    intro l c hl hc h2 h1 hn
    obtain ⟨lid, lkeys, lvals, lnext⟩ := (l : Leaf K V)
    obtain ⟨cid, ckeys, cvals, cnext⟩ := (c : Leaf K V)
    rw [par_leaf] at hl hc
    simp only at hl hc
    have h2' : 2 ≤ lkeys.length := h2
    have h1' : 1 ≤ ckeys.length := h1
    obtain ⟨lk0, k, rfl⟩ := snoc_of_pos lkeys (by omega)
    obtain ⟨lv0, v, rfl⟩ := snoc_of_pos lvals (by omega)
    have hlen : lk0.length = lv0.length := by simpa using hl
    match ckeys, h1' with
    | ck :: cks, _ =>
      cases hpad : P.pad (some ck) with
      | none => exact absurd hpad (hp ck)
      | some pad =>
        refine ⟨({ id := lid, keys := lk0, vals := lv0, next := lnext } : Leaf K V),
          ({ id := cid, keys := k :: ck :: cks, vals := v :: cvals, next := cnext } : Leaf K V), k,
          ?_, rfl, rfl, rfl, ?_, ?_, ?_, ?_, ?_⟩
        · simp [Node.adoptFromLeft, hpad, pushFrontIdiom_eq, hlen]; rfl
        · show lk0.length + 1 = (lk0 ++ [k]).length
          simp
        · show (k :: ck :: cks).length = (ck :: cks).length + 1
          simp
        · rw [par_leaf]; exact hlen
        · rw [par_leaf]; simpa using hc
        · have r1 := Rw.single (K := K) (V := V) lid
            (shallow (d := 0) ({ id := lid, keys := lk0 ++ [k], vals := lv0 ++ [v], next := lnext } : Leaf K V))
            (shallow (d := 0) ({ id := lid, keys := lk0, vals := lv0, next := lnext } : Leaf K V)) rfl (fun _ => rfl)
          have r2 := Rw.single (K := K) (V := V) cid
            (shallow (d := 0) ({ id := cid, keys := ck :: cks, vals := cvals, next := cnext } : Leaf K V))
            (shallow (d := 0) ({ id := cid, keys := k :: ck :: cks, vals := v :: cvals, next := cnext } : Leaf K V)) rfl (fun _ => rfl)
          exact r1.append r2 hn
  | succ d =>
    intro l c hl hc h2 h1 hn
    obtain ⟨lid, lrunts, lkids⟩ := (l : Inner K (Node K V d))
    obtain ⟨cid, crunts, ckids⟩ := (c : Inner K (Node K V d))
    rw [par_inner] at hl hc
    simp only at hl hc
    have h2' : 2 ≤ lrunts.length := h2
    have h1' : 1 ≤ crunts.length := h1
    obtain ⟨lr0, k, rfl⟩ := snoc_of_pos lrunts (by omega)
    obtain ⟨lk0, x, rfl⟩ := snoc_of_pos lkids (by omega)
    have hlen : lr0.length = lk0.length := by simpa using hl.1
    have hpos : 1 ≤ lr0.length := by simp at h2'; omega
    match crunts, h1' with
    | ck :: cks, _ =>
      cases hpad : P.pad (some ck) with
      | none => exact absurd hpad (hp ck)
      | some pad =>
        refine ⟨({ id := lid, runts := lr0, kids := lk0 } : Inner K (Node K V d)),
          ({ id := cid, runts := k :: ck :: cks, kids := x :: ckids } : Inner K (Node K V d)), k,
          ?_, rfl, rfl, rfl, ?_, ?_, ?_, ?_, ?_⟩
        · simp [Node.adoptFromLeft, hpad, pushFrontIdiom_eq, hlen]; rfl
        · show lr0.length + 1 = (lr0 ++ [k]).length
          simp
        · show (k :: ck :: cks).length = (ck :: cks).length + 1
          simp
        · rw [par_inner]; exact ⟨hlen, hpos⟩
        · rw [par_inner]; simpa using hc.1
        · have := Rw.rotL (K := K) (V := V) lid cid
            (shallow (d := d + 1) ({ id := lid, runts := lr0 ++ [k], kids := lk0 ++ [x] } : Inner K (Node K V d)))
            (shallow (d := d + 1) ({ id := lid, runts := lr0, kids := lk0 } : Inner K (Node K V d)))
            (shallow (d := d + 1) ({ id := cid, runts := ck :: cks, kids := ckids } : Inner K (Node K V d)))
            (shallow (d := d + 1) ({ id := cid, runts := k :: ck :: cks, kids := x :: ckids } : Inner K (Node K V d)))
            (lk0.flatMap flat) (flat x) (ckids.flatMap flat)
            (Nat.succ_ne_zero _) (Nat.succ_ne_zero _) (Nat.succ_ne_zero _) (Nat.succ_ne_zero _)
            (by simpa [flat_mk] using hn)
          simpa [flat_mk] using this

/-! ### absorbRight -/

theorem absorbRight_rw : ∀ {d : Nat} (a b : Node K V d), Par (shallow a) → Par (shallow b) →
    ((shallow a).height = 0 → (shallow a).next = some (Node.id b)) →
    ((flat a ++ flat b).map Prod.fst).Nodup →
    ∃ m, Node.absorbRight a b = .ok m ∧ Node.id m = Node.id a ∧
      Node.count m = Node.count a + Node.count b ∧ Par (shallow m) ∧
      Rw [Node.id a, Node.id b] [(Node.id m, shallow m)] (flat a ++ flat b) (flat m) := by
  intro d
  cases d with
  | zero =>
    intro a b ha hb hnx hn
    obtain ⟨aid, akeys, avals, anext⟩ := (a : Leaf K V)
    obtain ⟨bid, bkeys, bvals, bnext⟩ := (b : Leaf K V)
    rw [par_leaf] at ha hb
    simp only at ha hb
    have hnx' : anext = some bid := hnx rfl
    refine ⟨({ id := aid, keys := akeys ++ bkeys, vals := avals ++ bvals, next := bnext } : Leaf K V),
      ?_, rfl, ?_, ?_, ?_⟩
    · simp [Node.absorbRight, hnx']; rfl
    · show (akeys ++ bkeys).length = akeys.length + bkeys.length
      simp
    · rw [par_leaf]; simp [ha, hb]
    · exact Rw.mergeLeaf (K := K) (V := V) aid bid
        (shallow (d := 0) ({ id := aid, keys := akeys, vals := avals, next := anext } : Leaf K V))
        (shallow (d := 0) ({ id := aid, keys := akeys ++ bkeys, vals := avals ++ bvals, next := bnext } : Leaf K V))
        (shallow (d := 0) ({ id := bid, keys := bkeys, vals := bvals, next := bnext } : Leaf K V)) rfl rfl rfl rfl
  | succ d =>
    intro a b ha hb _ hn
    obtain ⟨aid, arunts, akids⟩ := (a : Inner K (Node K V d))
    obtain ⟨bid, brunts, bkids⟩ := (b : Inner K (Node K V d))
    rw [par_inner] at ha hb
    simp only at ha hb
    refine ⟨({ id := aid, runts := arunts ++ brunts, kids := akids ++ bkids } : Inner K (Node K V d)),
      rfl, rfl, ?_, ?_, ?_⟩
    · show (arunts ++ brunts).length = arunts.length + brunts.length
      simp
    · rw [par_inner]; simp [ha.1, hb.1]; omega
    · have := Rw.mergeInner (K := K) (V := V) aid bid
        (shallow (d := d + 1) ({ id := aid, runts := arunts, kids := akids } : Inner K (Node K V d)))
        (shallow (d := d + 1) ({ id := aid, runts := arunts ++ brunts, kids := akids ++ bkids } : Inner K (Node K V d)))
        (shallow (d := d + 1) ({ id := bid, runts := brunts, kids := bkids } : Inner K (Node K V d)))
        (akids.flatMap flat) (bkids.flatMap flat)
        (Nat.succ_ne_zero _) (Nat.succ_ne_zero _) (Nat.succ_ne_zero _)
        (by simpa [flat_mk] using hn)
      simpa [flat_mk] using this

end Gobptree.Conc
