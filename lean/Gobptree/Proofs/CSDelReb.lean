/-
  `rebalance` on an inner node whose child at `index` is one entry short and whose other
  children are at full occupancy: it does not panic, and the flat view of the result
  arises from that of the node by a local rewrite.
-/
import Gobptree.Proofs.CSDelNode

namespace Gobptree.Conc
open Gobptree

variable {K V : Type}

/-! ### evaluating `rebalance` branch by branch -/

theorem reb_borrowR (P : Params K) (h : Nat) {d : Nat} (i : Inner K (Node K V d)) (index : Nat)
    (child right c' r' : Node K V d) (sm : K)
    (hR : index + 1 < i.runts.length) (hright : i.kids[index + 1]? = some right) (hRc : Node.count right > h)
    (hadopt : Node.adoptFromRight child right = .ok (c', r')) (hsm : Node.smallest r' = .ok sm) :
    rebalance P {} h i index child = .ok ((Inner.mk i.id (i.runts.set (index + 1) sm)
      ((i.kids.set index c').set (index + 1) r') : Inner K (Node K V d)), false) := by
  simp [rebalance, hR, hright, hRc, hadopt, hsm, bind, Except.bind, Nat.not_le.2 hR, pure, Except.pure]

theorem reb_borrowL (P : Params K) (h : Nat) {d : Nat} (i : Inner K (Node K V d)) (index : Nat)
    (child left l' c' : Node K V d) (sm : K)
    (hnoR : index + 1 < i.runts.length → ∃ right, i.kids[index + 1]? = some right ∧ Node.count right ≤ h)
    (hL : 0 < index) (hleft : i.kids[index - 1]? = some left) (hLc : Node.count left > h)
    (hadopt : Node.adoptFromLeft P left child = .ok (l', c')) (hsm : Node.smallest c' = .ok sm)
    (hidx : index < i.runts.length) :
    rebalance P {} h i index child = .ok ((Inner.mk i.id (i.runts.set index sm)
      ((i.kids.set (index - 1) l').set index c') : Inner K (Node K V d)), false) := by
  by_cases hR : index + 1 < i.runts.length
  · obtain ⟨right, hright, hRc⟩ := hnoR hR
    simp [rebalance, hR, hright, Nat.not_lt.2 hRc, hL, hleft, hLc, hadopt, hsm, bind, Except.bind,
      Nat.not_le.2 hidx, pure, Except.pure]
  · simp [rebalance, hR, hL, hleft, hLc, hadopt, hsm, bind, Except.bind,
      Nat.not_le.2 hidx, pure, Except.pure]

theorem reb_mergeL (P : Params K) (h : Nat) {d : Nat} (i : Inner K (Node K V d)) (index : Nat)
    (child left l' : Node K V d)
    (hnoR : index + 1 < i.runts.length → ∃ right, i.kids[index + 1]? = some right ∧ Node.count right ≤ h)
    (hL : 0 < index) (hleft : i.kids[index - 1]? = some left) (hLc : Node.count left ≤ h)
    (hLpos : 0 < Node.count left)
    (habs : Node.absorbRight left child = .ok l')
    (hidx : index < i.runts.length) (hidk : index < i.kids.length) :
    rebalance P {} h i index child = .ok ((Inner.mk i.id (deleteIdiom i.runts index)
      (deleteIdiom (i.kids.set (index - 1) l') index) : Inner K (Node K V d)),
      decide ((deleteIdiom i.runts index).length < h)) := by
  by_cases hR : index + 1 < i.runts.length
  · obtain ⟨right, hright, hRc⟩ := hnoR hR
    simp [rebalance, hR, hright, Nat.not_lt.2 hRc, hL, hleft, Nat.not_lt.2 hLc, hLpos, habs, bind, Except.bind,
      Nat.not_le.2 hidx, Nat.not_le.2 hidk, pure, Except.pure]
  · simp [rebalance, hR, hL, hleft, Nat.not_lt.2 hLc, hLpos, habs, bind, Except.bind,
      Nat.not_le.2 hidx, Nat.not_le.2 hidk, pure, Except.pure]

theorem reb_mergeR (P : Params K) (h : Nat) {d : Nat} (i : Inner K (Node K V d)) (index : Nat)
    (child right c' : Node K V d)
    (hR : index + 1 < i.runts.length) (hright : i.kids[index + 1]? = some right) (hRc : Node.count right ≤ h)
    (hRpos : 0 < Node.count right) (hL : index = 0)
    (habs : Node.absorbRight child right = .ok c') (hidk : index + 1 < i.kids.length) :
    rebalance P {} h i index child = .ok ((Inner.mk i.id (deleteIdiom i.runts (index + 1))
      (deleteIdiom (i.kids.set index c') (index + 1)) : Inner K (Node K V d)),
      decide ((deleteIdiom i.runts (index + 1)).length < h)) := by
  subst hL
  have hRpos' : Node.count right ≠ 0 := by omega
  simp [rebalance, hR, hright, Nat.not_lt.2 hRc, hRpos', habs, bind, Except.bind,
    Nat.not_le.2 hR, Nat.not_le.2 hidk, pure, Except.pure]

/-! ### the window of an inner node -/

theorem rw_inner_window {d : Nat} (i i' : Inner K (Node K V d)) (A B ws ws' : List (Node K V d))
    {wr : List Nat} {new : List (Nat × Shallow K V)}
    (hk : i.kids = A ++ ws ++ B) (hk' : i'.kids = A ++ ws' ++ B) (hid : i'.id = i.id)
    (hrw : Rw wr new (ws.flatMap flat) (ws'.flatMap flat))
    (hn : ((flat (d := d + 1) i).map Prod.fst).Nodup) :
    Rw (i.id :: wr) ((i.id, shallow (d := d + 1) i') :: new) (flat (d := d + 1) i) (flat (d := d + 1) i') := by
  have e1 : flat (d := d + 1) i = [(i.id, shallow (d := d + 1) i)] ++
      (A.flatMap flat ++ ws.flatMap flat ++ B.flatMap flat) := by
    rw [flat_inner, hk]; simp [List.flatMap_append]
  have e2 : flat (d := d + 1) i' = [(i.id, shallow (d := d + 1) i')] ++
      (A.flatMap flat ++ ws'.flatMap flat ++ B.flatMap flat) := by
    rw [flat_inner, hk', hid]; simp [List.flatMap_append]
  rw [e1] at hn ⊢
  rw [e2]
  have hs := Rw.single (K := K) (V := V) i.id (shallow (d := d + 1) i) (shallow (d := d + 1) i') rfl
    (fun h => by cases h)
  have hn2 : ((A.flatMap flat ++ ws.flatMap flat ++ B.flatMap flat).map Prod.fst).Nodup := by
    rw [List.map_append, List.nodup_append] at hn
    exact hn.2.1
  exact hs.append (hrw.context _ _ hn2) hn

/-- a chain through the leaves below two adjacent children links them -/
theorem next_of_chain : ∀ {d : Nat} (a b : Node K V d) (L R X Y : List (Nat × Shallow K V)),
    Chain (X ++ flatLeaves (L ++ (flat a ++ flat b) ++ R) ++ Y) →
    (shallow a).height = 0 → (shallow a).next = some (Node.id b) := by
  intro d
  cases d with
  | succ d => intro a b L R X Y _ h0; cases h0
  | zero =>
    intro a b L R X Y hch _
    have e : X ++ flatLeaves (L ++ (flat a ++ flat b) ++ R) ++ Y =
        (X ++ flatLeaves L) ++ (Node.id a, shallow a) :: (Node.id b, shallow b) :: (flatLeaves R ++ Y) := by
      rw [flatLeaves_append, flatLeaves_append, flat_zero a, flat_zero b]
      have : flatLeaves ([((a : Leaf K V).id, shallow a)] ++ [((b : Leaf K V).id, shallow b)]) =
          [((a : Leaf K V).id, shallow a), ((b : Leaf K V).id, shallow b)] := by
        show flatLeaves [((a : Leaf K V).id, shallow a), ((b : Leaf K V).id, shallow b)] = _
        rw [flatLeaves_cons_leaf _ _ rfl, flatLeaves_cons_leaf _ _ rfl]; rfl
      rw [this]
      simp [List.append_assoc]
    rw [e] at hch
    exact chain_adjacent _ _ _ _ hch

theorem flat_window {d : Nat} (i : Inner K (Node K V d)) (A B : List (Node K V d)) (x y : Node K V d)
    (hk : i.kids = A ++ x :: y :: B) :
    flat (d := d + 1) i = ((i.id, shallow (d := d + 1) i) :: A.flatMap flat) ++ (flat x ++ flat y) ++ B.flatMap flat := by
  rw [flat_inner, hk]; simp [List.flatMap_append]

theorem nodup_window {d : Nat} (i : Inner K (Node K V d)) (A B : List (Node K V d)) (x y : Node K V d)
    (hk : i.kids = A ++ x :: y :: B) (hn : ((flat (d := d + 1) i).map Prod.fst).Nodup) :
    ((flat x ++ flat y).map Prod.fst).Nodup := by
  rw [flat_window i A B x y hk] at hn
  refine hn.sublist (List.Sublist.map _ ?_)
  exact (List.sublist_append_right _ _).trans (List.sublist_append_left _ _)

theorem deleteIdiom_length {α : Type} (l : List α) (i : Nat) (h : i < l.length) :
    (deleteIdiom l i).length + 1 = l.length := by
  rw [deleteIdiom_eq _ _ h]
  simp
  omega

/-! ### the rebalancing step -/

/-- what `rebalance` may assume -/
structure RebIn (o : Nat) {d : Nat} (i : Inner K (Node K V d)) (index : Nat) (child : Node K V d) : Prop where
  o4 : 4 ≤ o
  even : o % 2 = 0
  par : Par (shallow (d := d + 1) i)
  two : 2 ≤ i.runts.length
  hc : i.kids[index]? = some child
  cocc : NodeOcc o (o / 2 - 1) (shallow child)
  csmall : Node.count child < o / 2
  kocc : ∀ j k, i.kids[j]? = some k → j ≠ index → NodeOcc o (o / 2) (shallow k)
  nodup : ((flat (d := d + 1) i).map Prod.fst).Nodup
  chain : ∃ X Y, Chain (X ++ flatLeaves (flat (d := d + 1) i) ++ Y)

/-- what `rebalance` guarantees -/
structure RebOut (o : Nat) {d : Nat} (i : Inner K (Node K V d)) (index : Nat) (child : Node K V d)
    (i' : Inner K (Node K V d)) (small' : Bool) (wr : List Nat) (new : List (Nat × Shallow K V)) : Prop where
  id : i'.id = i.id
  rw : Rw wr new (flat (d := d + 1) i) (flat (d := d + 1) i')
  wr_sub : ∀ x ∈ wr, x = i.id ∨ ∃ (j : Nat) (k : Node K V d), i.kids[j]? = some k ∧ Node.id k = x ∧ index ≤ j + 1 ∧ j ≤ index + 1
  child_wr : Node.id child ∈ wr
  new_occ : ∀ e ∈ new, e = (i.id, shallow (d := d + 1) i') ∨
    ((∃ (j : Nat) (k : Node K V d), i.kids[j]? = some k ∧ Node.id k = e.1) ∧ NodeOcc o (o / 2) e.2)
  par : Par (shallow (d := d + 1) i')
  cnt : (small' = false ∧ i'.runts.length = i.runts.length) ∨
    (i'.runts.length + 1 = i.runts.length ∧ small' = decide (i'.runts.length < o / 2))

theorem RebIn.lens {o : Nat} {d : Nat} {i : Inner K (Node K V d)} {index : Nat} {child : Node K V d}
    (h : RebIn o i index child) :
    i.runts.length = i.kids.length ∧ index < i.kids.length ∧ 2 ≤ o / 2 ∧ o / 2 + o / 2 = o ∧
      (shallow child).keys.length + 1 = o / 2 := by
  have hp := (par_inner i).1 h.par
  have hidk : index < i.kids.length := (List.getElem?_eq_some_iff.1 h.hc).1
  have h4 := h.o4
  have he := h.even
  have hc1 := h.cocc.2.1
  have hc2 := h.csmall
  rw [count_eqD] at hc2
  refine ⟨hp.1, hidk, by omega, by omega, by omega⟩

theorem rebalance_borrowR (P : Params K) (o : Nat) {d : Nat} (i : Inner K (Node K V d)) (index : Nat)
    (child right : Node K V d) (hin : RebIn o i index child)
    (hR : index + 1 < i.runts.length) (hright : i.kids[index + 1]? = some right)
    (hRc : Node.count right > o / 2) :
    ∃ i' small' wr new, rebalance P {} (o / 2) i index child = .ok (i', small') ∧
      RebOut o i index child i' small' wr new := by
  obtain ⟨hlen, hidk, hh2, hoo, hcc⟩ := hin.lens
  have hro := hin.kocc (index + 1) right hright (by omega)
  obtain ⟨a, b, hab, ha⟩ := split_two i.kids index child right hin.hc hright
  have hnd := nodup_window i a b child right hab hin.nodup
  obtain ⟨c', r', sm, hadopt, hsm, hidc, hidr, hcc', hcr', hpc, hpr, hrw⟩ :=
    adoptFromRight_rw child right hin.cocc.par hro.par (by omega) hnd
  have hrc := hro.1
  simp only [count_eqD] at hRc hcc' hcr'
  have hk' : (i.kids.set index c').set (index + 1) r' = a ++ [c', r'] ++ b := by
    rw [hab, ← ha, form_set_pivot, form_set_next]; simp
  have hrw' : Rw [Node.id child, Node.id right] [(Node.id c', shallow c'), (Node.id r', shallow r')]
      ([child, right].flatMap flat) ([c', r'].flatMap flat) := by simpa using hrw
  have hW := rw_inner_window i
    (Inner.mk i.id (i.runts.set (index + 1) sm) ((i.kids.set index c').set (index + 1) r'))
    a b [child, right] [c', r'] (by rw [hab]; simp) hk' rfl hrw' hin.nodup
  refine ⟨_, false, _, _,
    reb_borrowR P _ i index child right c' r' sm hR hright (by rw [count_eqD]; exact hRc) hadopt hsm,
    rfl, hW, ?_, by simp, ?_, ?_, Or.inl ⟨rfl, by simp⟩⟩
  · intro x hx
    simp only [List.mem_cons, List.not_mem_nil, or_false] at hx
    rcases hx with rfl | rfl | rfl
    · exact Or.inl rfl
    · exact Or.inr ⟨index, child, hin.hc, rfl, by omega, by omega⟩
    · exact Or.inr ⟨index + 1, right, hright, rfl, by omega, by omega⟩
  · intro e he
    simp only [List.mem_cons, List.not_mem_nil, or_false] at he
    rcases he with rfl | rfl | rfl
    · exact Or.inl rfl
    · exact Or.inr ⟨⟨index, child, hin.hc, hidc.symm⟩, NodeOcc.of_par (sh := shallow c') hpc (by omega) (by omega)⟩
    · exact Or.inr ⟨⟨index + 1, right, hright, hidr.symm⟩, NodeOcc.of_par (sh := shallow r') hpr (by omega) (by omega)⟩
  · rw [par_inner]
    have hp := (par_inner i).1 hin.par
    simp only [List.length_set]
    exact hp

theorem RebIn.chain_window {o : Nat} {d : Nat} {i : Inner K (Node K V d)} {index : Nat} {child : Node K V d}
    (hin : RebIn o i index child) (A B : List (Node K V d)) (x y : Node K V d)
    (hk : i.kids = A ++ x :: y :: B) : (shallow x).height = 0 → (shallow x).next = some (Node.id y) := by
  obtain ⟨X, Y, hch⟩ := hin.chain
  rw [flat_window i A B x y hk] at hch
  exact next_of_chain x y _ _ X Y hch

theorem rebalance_mergeR (P : Params K) (o : Nat) {d : Nat} (i : Inner K (Node K V d)) (index : Nat)
    (child right : Node K V d) (hin : RebIn o i index child)
    (hR : index + 1 < i.runts.length) (hright : i.kids[index + 1]? = some right)
    (hRc : Node.count right ≤ o / 2) (hL : index = 0) :
    ∃ i' small' wr new, rebalance P {} (o / 2) i index child = .ok (i', small') ∧
      RebOut o i index child i' small' wr new := by
  obtain ⟨hlen, hidk, hh2, hoo, hcc⟩ := hin.lens
  have hro := hin.kocc (index + 1) right hright (by omega)
  obtain ⟨a, b, hab, ha⟩ := split_two i.kids index child right hin.hc hright
  have hnd := nodup_window i a b child right hab hin.nodup
  obtain ⟨m, habs, hidm, hcm, hpm, hrw⟩ :=
    absorbRight_rw child right hin.cocc.par hro.par (hin.chain_window a b child right hab) hnd
  have hrc := hro.2.1
  simp only [count_eqD] at hRc hcm
  have hk' : deleteIdiom (i.kids.set index m) (index + 1) = a ++ [m] ++ b := by
    rw [hab, ← ha, form_set_pivot, form_delete_next]; simp
  have hrw' : Rw [Node.id child, Node.id right] [(Node.id m, shallow m)]
      ([child, right].flatMap flat) ([m].flatMap flat) := by simpa using hrw
  have hW := rw_inner_window i
    (Inner.mk i.id (deleteIdiom i.runts (index + 1)) (deleteIdiom (i.kids.set index m) (index + 1)))
    a b [child, right] [m] (by rw [hab]; simp) hk' rfl hrw' hin.nodup
  have hl1 := deleteIdiom_length i.runts (index + 1) hR
  refine ⟨_, _, _, _,
    reb_mergeR P _ i index child right m hR hright (by rw [count_eqD]; exact hRc) (by rw [count_eqD]; omega) hL habs
      (by omega),
    rfl, hW, ?_, by simp, ?_, ?_, Or.inr ⟨hl1, rfl⟩⟩
  · intro x hx
    simp only [List.mem_cons, List.not_mem_nil, or_false] at hx
    rcases hx with rfl | rfl | rfl
    · exact Or.inl rfl
    · exact Or.inr ⟨index, child, hin.hc, rfl, by omega, by omega⟩
    · exact Or.inr ⟨index + 1, right, hright, rfl, by omega, by omega⟩
  · intro e he
    simp only [List.mem_cons, List.not_mem_nil, or_false] at he
    rcases he with rfl | rfl
    · exact Or.inl rfl
    · exact Or.inr ⟨⟨index, child, hin.hc, hidm.symm⟩, NodeOcc.of_par (sh := shallow m) hpm (by omega) (by omega)⟩
  · rw [par_inner]
    have hk2 : (deleteIdiom (i.kids.set index m) (index + 1)).length + 1 = i.kids.length := by
      have := deleteIdiom_length (i.kids.set index m) (index + 1) (by simp; omega)
      simpa using this
    show (deleteIdiom i.runts (index + 1)).length = (deleteIdiom (i.kids.set index m) (index + 1)).length ∧
      1 ≤ (deleteIdiom i.runts (index + 1)).length
    have := hin.two
    constructor <;> omega

theorem rebalance_left (P : Params K) (hp : PadOk P) (o : Nat) {d : Nat} (i : Inner K (Node K V d)) (index : Nat)
    (child : Node K V d) (hin : RebIn o i index child)
    (hnoR : index + 1 < i.runts.length → ∃ right, i.kids[index + 1]? = some right ∧ Node.count right ≤ o / 2)
    (hL : 0 < index) :
    ∃ i' small' wr new, rebalance P {} (o / 2) i index child = .ok (i', small') ∧
      RebOut o i index child i' small' wr new := by
  obtain ⟨hlen, hidk, hh2, hoo, hcc⟩ := hin.lens
  obtain ⟨j, rfl⟩ : ∃ j, index = j + 1 := ⟨index - 1, by omega⟩
  obtain ⟨left, hleft⟩ : ∃ l, i.kids[j]? = some l := ⟨i.kids[j]'(by omega), List.getElem?_eq_getElem _⟩
  have hlo := hin.kocc j left hleft (by omega)
  obtain ⟨a, b, hab, ha⟩ := split_two i.kids j left child hleft hin.hc
  have hnd := nodup_window i a b left child hab hin.nodup
  have hlc1 := hlo.1
  have hlc2 := hlo.2.1
  by_cases hLc : Node.count left > o / 2
  · obtain ⟨l', c', sm, hadopt, hsm, hidl, hidc, hcl', hcc', hpl, hpc, hrw⟩ :=
      adoptFromLeft_rw P hp left child hlo.par hin.cocc.par (by omega) (by rw [count_eqD]; omega) hnd
    simp only [count_eqD] at hLc hcl' hcc'
    have hk' : (i.kids.set (j + 1 - 1) l').set (j + 1) c' = a ++ [l', c'] ++ b := by
      rw [Nat.add_sub_cancel, hab, ← ha, form_set_pivot, form_set_next]; simp
    have hrw' : Rw [Node.id left, Node.id child] [(Node.id l', shallow l'), (Node.id c', shallow c')]
        ([left, child].flatMap flat) ([l', c'].flatMap flat) := by simpa using hrw
    have hW := rw_inner_window i
      (Inner.mk i.id (i.runts.set (j + 1) sm) ((i.kids.set (j + 1 - 1) l').set (j + 1) c'))
      a b [left, child] [l', c'] (by rw [hab]; simp) hk' rfl hrw' hin.nodup
    refine ⟨_, false, _, _,
      reb_borrowL P _ i (j + 1) child left l' c' sm hnoR hL (by simpa using hleft) (by rw [count_eqD]; exact hLc)
        hadopt hsm (by omega),
      rfl, hW, ?_, by simp, ?_, ?_, Or.inl ⟨rfl, by simp⟩⟩
    · intro x hx
      simp only [List.mem_cons, List.not_mem_nil, or_false] at hx
      rcases hx with rfl | rfl | rfl
      · exact Or.inl rfl
      · exact Or.inr ⟨j, left, hleft, rfl, by omega, by omega⟩
      · exact Or.inr ⟨j + 1, child, hin.hc, rfl, by omega, by omega⟩
    · intro e he
      simp only [List.mem_cons, List.not_mem_nil, or_false] at he
      rcases he with rfl | rfl | rfl
      · exact Or.inl rfl
      · exact Or.inr ⟨⟨j, left, hleft, hidl.symm⟩, NodeOcc.of_par (sh := shallow l') hpl (by omega) (by omega)⟩
      · exact Or.inr ⟨⟨j + 1, child, hin.hc, hidc.symm⟩, NodeOcc.of_par (sh := shallow c') hpc (by omega) (by omega)⟩
    · rw [par_inner]
      have hp := (par_inner i).1 hin.par
      simp only [List.length_set]
      exact hp
  · obtain ⟨m, habs, hidm, hcm, hpm, hrw⟩ :=
      absorbRight_rw left child hlo.par hin.cocc.par (hin.chain_window a b left child hab) hnd
    simp only [count_eqD] at hLc hcm
    have hk' : deleteIdiom (i.kids.set (j + 1 - 1) m) (j + 1) = a ++ [m] ++ b := by
      rw [Nat.add_sub_cancel, hab, ← ha, form_set_pivot, form_delete_next]; simp
    have hrw' : Rw [Node.id left, Node.id child] [(Node.id m, shallow m)]
        ([left, child].flatMap flat) ([m].flatMap flat) := by simpa using hrw
    have hW := rw_inner_window i
      (Inner.mk i.id (deleteIdiom i.runts (j + 1)) (deleteIdiom (i.kids.set (j + 1 - 1) m) (j + 1)))
      a b [left, child] [m] (by rw [hab]; simp) hk' rfl hrw' hin.nodup
    have hl1 := deleteIdiom_length i.runts (j + 1) (by omega)
    refine ⟨_, _, _, _,
      reb_mergeL P _ i (j + 1) child left m hnoR hL (by simpa using hleft) (by rw [count_eqD]; omega)
        (by rw [count_eqD]; omega) habs (by omega) (by omega),
      rfl, hW, ?_, by simp, ?_, ?_, Or.inr ⟨hl1, rfl⟩⟩
    · intro x hx
      simp only [List.mem_cons, List.not_mem_nil, or_false] at hx
      rcases hx with rfl | rfl | rfl
      · exact Or.inl rfl
      · exact Or.inr ⟨j, left, hleft, rfl, by omega, by omega⟩
      · exact Or.inr ⟨j + 1, child, hin.hc, rfl, by omega, by omega⟩
    · intro e he
      simp only [List.mem_cons, List.not_mem_nil, or_false] at he
      rcases he with rfl | rfl
      · exact Or.inl rfl
      · exact Or.inr ⟨⟨j, left, hleft, hidm.symm⟩, NodeOcc.of_par (sh := shallow m) hpm (by omega) (by omega)⟩
    · rw [par_inner]
      have hk2 : (deleteIdiom (i.kids.set (j + 1 - 1) m) (j + 1)).length + 1 = i.kids.length := by
        have := deleteIdiom_length (i.kids.set (j + 1 - 1) m) (j + 1) (by simp; omega)
        simpa using this
      show (deleteIdiom i.runts (j + 1)).length = (deleteIdiom (i.kids.set (j + 1 - 1) m) (j + 1)).length ∧
        1 ≤ (deleteIdiom i.runts (j + 1)).length
      have := hin.two
      constructor <;> omega

/-- **the rebalancing step does not panic and is a local rewrite** -/
theorem rebalance_rw (P : Params K) (hp : PadOk P) (o : Nat) {d : Nat} (i : Inner K (Node K V d)) (index : Nat)
    (child : Node K V d) (hin : RebIn o i index child) :
    ∃ i' small' wr new, rebalance P {} (o / 2) i index child = .ok (i', small') ∧
      RebOut o i index child i' small' wr new := by
  obtain ⟨hlen, hidk, hh2, hoo, hcc⟩ := hin.lens
  by_cases hR : index + 1 < i.runts.length
  · obtain ⟨right, hright⟩ : ∃ r, i.kids[index + 1]? = some r :=
      ⟨i.kids[index + 1]'(by omega), List.getElem?_eq_getElem _⟩
    by_cases hRc : Node.count right > o / 2
    · exact rebalance_borrowR P o i index child right hin hR hright hRc
    · by_cases hL : 0 < index
      · exact rebalance_left P hp o i index child hin (fun _ => ⟨right, hright, by omega⟩) hL
      · exact rebalance_mergeR P o i index child right hin hR hright (by omega) (by omega)
  · have := hin.two
    exact rebalance_left P hp o i index child hin (fun h => absurd h hR) (by omega)

end Gobptree.Conc
