/-
  Separator invariant for Delete, part 7: the tree-level steps — the rebalancing of one
  activation, the deletion in the leaf, the root collapse — keep the separator invariant (with
  the same witnesses) and the search paths of all nodes the thread does not hold.
-/
import Gobptree.Proofs.CIDelReb

namespace Gobptree.Conc
open Gobptree

variable {K V : Type} {lt : K → K → Bool}

/-- outcome of one tree-level step -/
structure IStep (lt : K → K → Bool) (Wit : Nat → K → Prop) (W : Nat → Prop) (t t' : Tree K V) : Prop where
  sep : SepTreeN lt Wit t'
  routes : RStab lt W t t'

theorem IStep.trans {Wit : Nat → K → Prop} {W : Nat → Prop} {t1 t2 t3 : Tree K V}
    (h1 : IStep lt Wit W t1 t2) (h2 : IStep lt Wit W t2 t3) : IStep lt Wit W t1 t3 :=
  ⟨h2.sep, h1.routes.trans h2.routes⟩

/-! ### one rebalancing step -/

theorem rebalance_istep (h : SWO lt) (P : Params K) (hp : PadOk P) {t : Tree K V} {n c index d : Nat}
    {i : Inner K (Node K V d)} (W : Nat → Prop) (Wit : Nat → K → Prop)
    (hok : TreeOk' (some c) t) (hord : t.order = P.order) (hf : t.find n = some ⟨d + 1, i⟩)
    (hkid : t.kidAt n index = some c) (hsmall : isSmall t c) (hO : OrdTree lt t)
    (hWn : W n) (hWk : ∀ j x, t.kidAt n j = some x → index ≤ j + 1 → j ≤ index + 1 → W x)
    (hWit : ∀ r x, Wit r x → ¬ W r) (hsep : SepTreeN lt Wit t)
    {child : Node K V d} {i' : Inner K (Node K V d)} {small' : Bool}
    (hc : i.kids[index]? = some child)
    (heval : rebalance P {} (P.order >>> 1) i index child = .ok (i', small')) :
    IStep lt Wit W t (putInner t i') := by
  have hids := hok.ids.1
  have hpar : ParTree t := parTree_of_treeOk' hok
  obtain ⟨child0, hc0, hcid, hin, occI⟩ := rebIn_of_tree hok hf hkid hsmall
  rw [hc] at hc0
  injection hc0 with hc0
  subst hc0
  obtain ⟨hidn, _, _⟩ := find_facts hf
  have hidn' : i.id = n := hidn
  obtain ⟨lo', hi', PL, PR, z⟩ := Tree.zoom h hf hids hpar hO
  rw [shiftRight_one_eq, ← hord] at heval
  obtain ⟨hid, hO', hP', _, _⟩ := rebalance_node h P hp t.order i index child hin lo' hi' z.ord z.par i' small' heval
  have hid' : i'.id = n := hid.trans hidn'
  have hsi : SepN lt Wit (d + 1) i := Tree.sep_find hf hsep
  have hWk' : ∀ j k, i.kids[j]? = some k → index ≤ j + 1 → j ≤ index + 1 → ∀ x, ¬ Wit (Node.id k) x := by
    intro j k hk h1 h2 x hw
    apply hWit _ x hw
    apply hWk j _ _ h1 h2
    rw [kidAt_find hf, hk]
    rfl
  obtain ⟨r1, r2, r3⟩ := rebalance_inode h P hp t.order i index child hin lo' hi' z.ord z.par Wit hsi hWk'
    i' small' heval
  have z' : Zoom lt i'.id t.depth none none t.root (d + 1) i lo' hi' PL PR := by rw [hid']; exact z
  obtain ⟨_, hpar', _⟩ := z'.putInner i' hO' hP'
  have hf' : t.find i'.id = some ⟨d + 1, i⟩ := by rw [hid']; exact hf
  obtain ⟨f, hfdef, hfm⟩ : ∃ f : (d' : Nat) → Node K V d' → Node K V d',
      putInner t i' = t.modify i'.id f ∧ f (d + 1) i = i' := ⟨_, rfl, putInner_apply i' i⟩
  rw [hfdef] at hpar' ⊢
  refine ⟨?_, ?_⟩
  · apply Tree.sep_modify hf' hids hpar hsep f
    · rw [hfm]; exact r2
    · rw [hfm]; rfl
    · rw [hfm]; exact r1
  · apply Tree.rstab_modify hf' hids hpar f hpar' W
    intro key x hW hx
    rw [hfm]
    apply r3 key x hx
    · intro e
      apply hW
      rw [e, hidn']
      exact hWn
    · intro j k hk h1 h2 e
      apply hW
      rw [e]
      apply hWk j _ _ h1 h2
      rw [kidAt_find hf, hk]
      rfl

/-! ### the leaf -/

theorem leaf_istep (h : SWO lt) (P : Params K) (hP : P.lt = lt) {t : Tree K V} {n : Nat} {l : Leaf K V}
    (W : Nat → Prop) (Wit : Nat → K → Prop) (hok : TreeOk' none t) (hf : t.find n = some ⟨0, l⟩)
    (hO : OrdTree lt t) (key : K) (hon : OnRoute lt t key n) (minSize : Nat) (hsep : SepTreeN lt Wit t)
    {l' : Leaf K V} {small : Bool} (hd : Leaf.deleteKey P l minSize key = .ok (l', small)) :
    IStep lt Wit W t (putLeaf t l') := by
  have hids := hok.ids.1
  have hpar : ParTree t := parTree_of_treeOk' hok
  obtain ⟨hid, hlook, _⟩ := find_facts hf
  have hidn : l.id = n := hid
  have occ := hok.occ (n, shallow (d := 0) l) (look_mem hlook)
  have hlen : l.keys.length = l.vals.length := (par_leaf l).1 occ.par
  have hf0 : t.find l.id = some ⟨0, l⟩ := by rw [hidn]; exact hf
  obtain ⟨_, hpar', _, _, hid', _⟩ := putLeaf_delete h P hP l hf0 hids hpar hO hlen minSize key
    (by rw [hidn]; exact hon) l' small hd
  have hf' : t.find l'.id = some ⟨0, l⟩ := by rw [hid']; exact hf0
  rw [putLeaf_eq] at hpar' ⊢
  refine ⟨?_, ?_⟩
  · apply Tree.sep_modify hf' hids hpar hsep (leafFn l')
    · trivial
    · rw [putLeaf_apply l' l]; rfl
    · rw [putLeaf_apply l' l]; rfl
  · apply Tree.rstab_modify hf' hids hpar (leafFn l') hpar' W
    intro key' x _ hx
    rw [putLeaf_apply l' l]
    have hx' : x ∈ [l.id] := hx
    show x ∈ [l'.id]
    rw [hid']
    exact hx'

/-! ### the root collapse -/

theorem finish_istep {t : Tree K V} {small : Bool} (W : Nat → Prop) (Wit : Nat → K → Prop)
    (hok : TreeOk' (if small then some t.rootId else none) t) (hW : W t.rootId) (hsep : SepTreeN lt Wit t) :
    IStep lt Wit W t (finishTree t small) := by
  cases small with
  | false =>
    have e : finishTree t false = t := by simp [finishTree]
    rw [e]
    exact ⟨hsep, RStab.refl W t⟩
  | true =>
    simp only [if_true] at hok
    by_cases hcnt : Node.count t.root > 1
    · have e : finishTree t true = t := by simp [finishTree, hcnt]
      rw [e]
      exact ⟨hsep, RStab.refl W t⟩
    · have hpar : ParTree t := parTree_of_treeOk' hok
      obtain ⟨o, d, r, nid⟩ := t
      cases d with
      | zero =>
        have e : finishTree (K := K) (V := V) ⟨o, 0, r, nid⟩ true = ⟨o, 0, r, nid⟩ := by
          simp [finishTree, hcnt, collapseRoot, pure, Except.pure]
        rw [e]
        exact ⟨hsep, RStab.refl W _⟩
      | succ d =>
        have occ := hok.occ ((r : Inner K (Node K V d)).id, shallow (d := d + 1) r)
          (self_mem_flat (d := d + 1) r)
        have hp := (par_inner (r : Inner K (Node K V d))).1 occ.par
        have hc1 : (r : Inner K (Node K V d)).runts.length = 1 := by
          have : Node.count (d := d + 1) r = (r : Inner K (Node K V d)).runts.length := rfl
          simp only at hcnt
          omega
        obtain ⟨k, hk⟩ : ∃ k, (r : Inner K (Node K V d)).kids = [k] := by
          have hl : (r : Inner K (Node K V d)).kids.length = 1 := by omega
          match h : (r : Inner K (Node K V d)).kids, hl with
          | [k], _ => exact ⟨k, rfl⟩
        obtain ⟨s, hs⟩ : ∃ s, (r : Inner K (Node K V d)).runts = [s] := by
          match h : (r : Inner K (Node K V d)).runts, hc1 with
          | [s], _ => exact ⟨s, rfl⟩
        have e : finishTree (K := K) (V := V) ⟨o, d + 1, r, nid⟩ true = ⟨o, d, k, nid⟩ := by
          simp [finishTree, hcnt, collapseRoot, hk, pure, Except.pure]
        rw [e]
        have hsep' : SepN lt Wit (d + 1) (r : Inner K (Node K V d)) := hsep
        have hpar' : ParN (d + 1) (r : Inner K (Node K V d)) := hpar
        have hkm : k ∈ (r : Inner K (Node K V d)).kids := by rw [hk]; exact List.mem_cons_self
        have hpk : ParTree (⟨o, d, k, nid⟩ : Tree K V) := hpar'.2.2 k hkm
        refine ⟨hsep'.2 k hkm, ?_⟩
        intro key x hx hon
        rw [onRoute_iff hpar] at hon
        rw [onRoute_iff hpk]
        have hon' : x ∈ rids lt key (d + 1) (r : Inner K (Node K V d)) := hon
        have hne : x ≠ (r : Inner K (Node K V d)).id := by
          intro e
          apply hx
          rw [e]
          exact hW
        obtain ⟨c, hc, hxc⟩ := mem_rids_succ key (r : Inner K (Node K V d)) x hon' hne
        rw [hs, hk, searchLE_one] at hc
        have : k = c := by simpa using hc
        rw [this]
        exact hxc

end Gobptree.Conc
