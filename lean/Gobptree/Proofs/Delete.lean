/-
  Correctness of Delete: `deleteNode` performs `Spec.erase` on the pairs beneath
  the node and keeps it well formed up to its own occupancy; `Tree.delete`
  (with the root collapse) preserves the tree invariant.
-/
import Gobptree.Proofs.Rebalance
import Gobptree.Proofs.SearchTree
import Gobptree.Proofs.TreeUpsert

namespace Gobptree

variable {K V : Type} {lt : K → K → Bool}

theorem deleteNode_succ_eq (P : Params K) (vr : Variant) (minSize : Nat) (key : K) (d : Nat)
    (i : Inner K (Node K V d)) (index : Nat) (hindex : searchLE P.lt key i.runts = index)
    (child child' : Node K V d) (small : Bool)
    (hchild : i.kids[index]? = some child)
    (hrec : deleteNode P vr minSize key d child = .ok (child', small)) :
    deleteNode P vr minSize key (d + 1) i =
      if small = false then .ok ((Inner.mk i.id i.runts (i.kids.set index child') : Inner K (Node K V d)), false)
      else rebalance P vr minSize i index child' := by
  subst hindex
  cases small
  · simp only [deleteNode, hchild, hrec, bind, Except.bind, pure, Except.pure]
    rfl
  · simp only [deleteNode, hchild, hrec, bind, Except.bind, pure, Except.pure]
    rfl

theorem erase_mid (h : SWO lt) (A M B : List (K × V)) (key : K) (hA : AllLt lt A key) (hB : AllGt lt B key) :
    Spec.erase lt (A ++ (M ++ B)) key = A ++ (Spec.erase lt M key ++ B) := by
  rw [Spec.erase_append, Spec.erase_append, Spec.erase_of_allLt h A key hA, Spec.erase_of_allGt h B key hB]

theorem deleteNode_ok (h : SWO lt) (P : Params K) (hP : P.lt = lt) (hpad : ∀ k, P.pad (some k) ≠ none)
    (ho : 4 ≤ P.order) (hev : P.order % 2 = 0) (vr : Variant) (hvr : vr.noRefreshLeft = false) (key : K) :
    ∀ (d : Nat) (n : Node K V d) (m : Nat) (lo hi : Option K) (after : Option Nat),
      WF lt P.order d m lo hi n → (d ≠ 0 → 2 ≤ Node.count n) → Linked d after n →
      ∃ (n' : Node K V d) (small : Bool),
        deleteNode P vr (P.order / 2) key d n = .ok (n', small) ∧
        WF lt P.order d 0 lo hi n' ∧
        (small = true → Node.count n' < P.order / 2) ∧
        (small = false → Node.count n' = Node.count n ∨ P.order / 2 ≤ Node.count n') ∧
        Node.count n ≤ Node.count n' + 1 ∧ Node.count n' ≤ Node.count n ∧
        Node.pairs n' = Spec.erase lt (Node.pairs n) key ∧
        Linked d after n' ∧ Node.firstId n' = Node.firstId n := by
  intro d
  induction d with
  | zero =>
    intro n m lo hi after hw _ hL
    obtain ⟨a, b, c, e, fb⟩ := hw
    obtain ⟨l', small, heq, hs1, hs2, hid, hnext, hsorted, hlen', hzip, hle1, hle2, hmem⟩ :=
      Leaf.deleteKey_ok h P hP (n : Leaf K V) (P.order / 2) key a b
    refine ⟨l', small, heq, ?_, hs1, ?_, hle2, hle1, hzip, ?_, hid⟩
    · exact ⟨hsorted, hlen', by omega, Nat.zero_le _, fun k hk => fb k (hmem k hk)⟩
    · intro hsf
      cases hs2 hsf with
      | inl e' => left; rw [e']
      | inr e' => right; exact e'
    · show l'.next = after; rw [hnext]; exact hL
  | succ d ih =>
    intro n m lo hi after hw hc2 hL
    have hc2' : 2 ≤ (n : Inner K (Node K V d)).runts.length := hc2 (by omega)
    obtain ⟨rA, rB, k, cA, cB, c, hr, hc, hidx, hcl, hlB, hA, hcW, hkhi, hB, hF1, hF2, hpA, hpB, hpairs⟩ :=
      route_facts h key (n : Inner K (Node K V d)) hw
    obtain ⟨hlen, hle, hm, hne, hlo, _⟩ := hw
    obtain ⟨pid, runts, kids⟩ := (n : Inner K (Node K V d))
    simp only at hr hc hidx hlen hle hm hne hlo hc2' hpairs
    subst hr; subst hc
    subst hP
    have hL0 : LinkedKids (Linked d) (Node.firstId (d := d)) after (cA ++ c :: cB) := hL
    rw [LinkedKids_append, LinkedKids_cons] at hL0
    obtain ⟨hLA, hLc, hLB⟩ := hL0
    have hccnt := WF_count_le hcW
    obtain ⟨c', small, hrec, hWc', hs1, hs2, hcnt1, hcnt2, hpc', hLc', hfc'⟩ :=
      ih c (P.order / 2) (some k) _ _ hcW (fun _ => by omega) hLc
    have hchild : (cA ++ c :: cB)[rA.length]? = some c := by rw [← hcl]; exact form_getElem_pivot cA cB c
    have hstep := deleteNode_succ_eq P vr (P.order / 2) key d (Inner.mk pid (rA ++ k :: rB) (cA ++ c :: cB))
      rA.length hidx c c' small hchild hrec
    -- pairs of the parent with the rewritten child are the erased pairs
    have hbase : (cA ++ c' :: cB).flatMap (Node.pairs (d := d)) =
        Spec.erase P.lt (Node.pairs (d := d + 1) (Inner.mk pid (rA ++ k :: rB) (cA ++ c :: cB) : Inner K (Node K V d))) key := by
      rw [hpairs, erase_mid h _ _ _ key hpA hpB, ← hpc']
      simp
    have hLnew : LinkedKids (Linked d) (Node.firstId (d := d)) after (cA ++ c' :: cB) := by
      rw [LinkedKids_append, LinkedKids_cons]
      refine ⟨?_, hLc', hLB⟩
      have : afterOf (Node.firstId (d := d)) after (c' :: cB) = afterOf (Node.firstId (d := d)) after (c :: cB) := by
        show some (Node.firstId c') = some (Node.firstId c); rw [hfc']
      rw [this]; exact hLA
    have hfnew : Node.firstId (d := d + 1) (Inner.mk pid (rA ++ k :: rB) (cA ++ c' :: cB) : Inner K (Node K V d)) =
        Node.firstId (d := d + 1) (Inner.mk pid (rA ++ k :: rB) (cA ++ c :: cB) : Inner K (Node K V d)) :=
      firstId_mk_append _ _ cA c cB c' hfc' _ _ cB
    cases hsm : small with
    | false =>
      refine ⟨(Inner.mk pid (rA ++ k :: rB) (cA ++ c' :: cB) : Inner K (Node K V d)), false, ?_, ?_, by simp, fun _ => Or.inl rfl,
        Nat.le_succ _, Nat.le_refl _, ?_, hLnew, hfnew⟩
      · rw [hstep, hsm]
        simp only [if_true]
        have : (cA ++ c :: cB).set rA.length c' = cA ++ c' :: cB := by rw [← hcl]; exact form_set_pivot cA cB c c'
        rw [this]
        rfl
      · refine WF_inner_of_entries h pid _ _ (by simp; omega) hle (by omega) hne hlo ?_
        rw [zip_surgery _ _ _ _ hcl.symm, List.zip_cons_cons, Kids_append, Kids_cons]
        refine ⟨hA, WF_set_m hWc' ?_, hkhi, hB⟩
        cases hs2 hsm with
        | inl e' => omega
        | inr e' => exact e'
      · rw [pairs_mk]; exact hbase
    | true =>
      have hc'cnt : Node.count c' + 1 = P.order / 2 := by
        have := hs1 hsm; omega
      rw [hsm] at hstep
      simp only [Bool.true_eq_false, if_false] at hstep
      -- which repair applies
      cases hrB : rB with
      | nil =>
        subst hrB
        have hcBnil : cB = [] := List.eq_nil_of_length_eq_zero (by simpa using hlB.symm)
        subst hcBnil
        have hrApos : 1 ≤ rA.length := by simp at hc2'; omega
        obtain ⟨rA', kl, hrA', _⟩ := afl_snoc rA hrApos
        obtain ⟨cA', cl, hcA', _⟩ := afl_snoc cA (by omega)
        subst hrA'; subst hcA'
        have hcl' : cA'.length = rA'.length := by simp at hcl; omega
        rw [zip_surgery _ _ _ _ hcl'.symm] at hA
        simp only [List.zip_cons_cons, List.zip_nil_right] at hA
        rw [Kids_append] at hA
        obtain ⟨hA', hclW, hklk, _⟩ := hA
        simp only [List.append_assoc, List.singleton_append] at hstep hle hlo hLnew hbase hfnew hc2' ⊢
        obtain ⟨p', small', heq, hWp, hsm1, hsm2, hl1, hl2, hpp, hLp, hfp⟩ :=
          rebalance_left_ok h P rfl hpad ho hev vr hvr pid rA' [] kl k cA' [] cl c c' lo hi after hcl' rfl hle hlo hA' hclW hklk
            hWc' hc'cnt hkhi trivial (fun right hr => by simp at hr) hLnew
        have hlen1 : (rA' ++ [kl]).length = rA'.length + 1 := by simp
        rw [hlen1] at hstep
        refine ⟨p', small', by rw [hstep]; exact heq, hWp, hsm1, hsm2, hl1, hl2, by rw [hpp]; exact hbase, hLp, hfp.trans hfnew⟩
      | cons kr rB' =>
        subst hrB
        cases hcB : cB with
        | nil => rw [hcB] at hlB; simp at hlB
        | cons cr cB' =>
        subst hcB
        have hlB' : rB'.length = cB'.length := by simpa using hlB
        rw [List.zip_cons_cons, Kids_cons] at hB
        obtain ⟨hcrW, hkrhi, hB'⟩ := hB
        have hnl : nextLo hi ((kr, cr) :: rB'.zip cB') = some kr := rfl
        rw [List.zip_cons_cons, hnl] at hWc' hkhi
        by_cases hrc : P.order / 2 < Node.count cr
        · obtain ⟨p', heq, hWp, hl1, hpp, hLp, hfp⟩ :=
            rebalance_right_ok h P rfl ho vr pid rA rB' k kr cA cB' c c' cr lo hi after hcl hlB' hle hlo hA hkhi hcrW hkrhi hB'
              hWc' hc'cnt hrc hLnew
          refine ⟨p', false, by rw [hstep]; exact heq, hWp, by simp, fun _ => Or.inl hl1,
            by show (rA ++ k :: kr :: rB').length ≤ p'.runts.length + 1; omega,
            by show p'.runts.length ≤ (rA ++ k :: kr :: rB').length; omega, by rw [hpp]; exact hbase, hLp, hfp.trans hfnew⟩
        · cases hrA : rA with
          | nil =>
            subst hrA
            have hcAnil : cA = [] := List.eq_nil_of_length_eq_zero (by simpa using hcl)
            subst hcAnil
            simp only [List.nil_append, List.length_nil] at hstep hle hlo hLnew hbase hfnew ⊢
            obtain ⟨p', small', heq, hWp, hsm1, hsm2, hl1, hl2, hpp, hLp, hfp⟩ :=
              rebalance_mergeRight_ok h P rfl ho hev vr pid rB' k kr cB' c c' cr lo hi after hlB' hle (hlo k rfl) hkhi hcrW hkrhi hB'
                hWc' hc'cnt hrc hLnew
            refine ⟨p', small', by rw [hstep]; exact heq, hWp, hsm1, hsm2, hl1, hl2, by rw [hpp]; exact hbase, hLp, hfp.trans hfnew⟩
          | cons a0 rA0 =>
            have hrApos : 1 ≤ rA.length := by rw [hrA]; simp
            obtain ⟨rA', kl, hrA', _⟩ := afl_snoc rA hrApos
            obtain ⟨cA', cl, hcA', _⟩ := afl_snoc cA (by omega)
            rw [← hrA] at *
            subst hrA'; subst hcA'
            have hcl' : cA'.length = rA'.length := by simp at hcl; omega
            rw [zip_surgery _ _ _ _ hcl'.symm] at hA
            simp only [List.zip_cons_cons, List.zip_nil_right] at hA
            rw [Kids_append] at hA
            obtain ⟨hA', hclW, hklk, _⟩ := hA
            simp only [List.append_assoc, List.singleton_append] at hstep hle hlo hLnew hbase hfnew hc2' ⊢
            obtain ⟨p', small', heq, hWp, hsm1, hsm2, hl1, hl2, hpp, hLp, hfp⟩ :=
              rebalance_left_ok h P rfl hpad ho hev vr hvr pid rA' (kr :: rB') kl k cA' (cr :: cB') cl c c' lo hi after hcl' hlB hle hlo hA' hclW hklk
                (by rw [List.zip_cons_cons, hnl]; exact hWc') hc'cnt (by rw [List.zip_cons_cons, hnl]; exact hkhi)
                (by rw [List.zip_cons_cons, Kids_cons]; exact ⟨hcrW, hkrhi, hB'⟩)
                (fun right hr => by simp at hr; subst hr; exact hrc) hLnew
            have hlen1 : (rA' ++ [kl]).length = rA'.length + 1 := by simp
            rw [hlen1] at hstep
            refine ⟨p', small', by rw [hstep]; exact heq, hWp, hsm1, hsm2, hl1, hl2, by rw [hpp]; exact hbase, hLp, hfp.trans hfnew⟩

theorem rootMin_le (d : Nat) {o : Nat} (ho : 4 ≤ o) : rootMin d ≤ o / 2 := by
  cases d with
  | zero => simp [rootMin]
  | succ d => simp only [rootMin]; omega

theorem Tree.delete_ok (h : SWO lt) (P : Params K) (hP : P.lt = lt) (hpad : ∀ k, P.pad (some k) ≠ none)
    (ho : 4 ≤ P.order) (hev : P.order % 2 = 0) (t : Tree K V) (hto : t.order = P.order)
    (hinv : TreeInv lt t) (key : K) :
    ∃ t' : Tree K V, t.delete P {} key = .ok t' ∧ TreeInv lt t' ∧ t'.order = t.order ∧
      Node.pairs t'.root = Spec.erase lt (Node.pairs t.root) key := by
  obtain ⟨hw, hL⟩ := hinv
  obtain ⟨order, depth, root, nextId⟩ := t
  simp only at hto; subst hto
  unfold TreeWF at hw; simp only at hw hL
  have hshift : P.order >>> 1 = P.order / 2 := by rw [Nat.shiftRight_eq_div_pow]
  have hc2 : depth ≠ 0 → 2 ≤ Node.count root := by
    intro hd
    have := (WF_count_le hw).2
    cases depth with
    | zero => exact absurd rfl hd
    | succ d => simpa [rootMin] using this
  obtain ⟨root', small, heq, hW', hs1, hs2, hcnt1, hcnt2, hp', hL', _⟩ :=
    deleteNode_ok h P hP hpad ho hev {} rfl key depth root (rootMin depth) none none none hw hc2 hL
  by_cases hkeep : small = false ∨ Node.count root' > 1
  · refine ⟨{ order := P.order, depth := depth, root := root', nextId := nextId }, ?_, ⟨?_, hL'⟩, rfl, hp'⟩
    · simp only [Tree.delete, hshift, bind, Except.bind, pure, Except.pure, Bool.false_eq_true, if_false]
      rw [heq]
      simp only
      have hk2 : (!small) = true ∨ Node.count root' > 1 := by
        cases hkeep with
        | inl e => left; rw [e]; rfl
        | inr e => right; exact e
      rw [if_pos hk2]
    · unfold TreeWF
      apply WF_set_m hW'
      cases depth with
      | zero => simp [rootMin]
      | succ d =>
        simp only [rootMin]
        cases hkeep with
        | inl e =>
          cases hs2 e with
          | inl e' => rw [e']; exact hc2 (by omega)
          | inr e' => omega
        | inr e => omega
  · have hsm : small = true := by
      cases small with
      | true => rfl
      | false => exact absurd (Or.inl rfl) hkeep
    have hc1 : ¬ Node.count root' > 1 := fun e => hkeep (Or.inr e)
    have hcollapse : Tree.delete P {} { order := P.order, depth := depth, root := root, nextId := nextId } key =
        collapseRoot P.order nextId depth root' := by
      simp only [Tree.delete, hshift, bind, Except.bind, pure, Except.pure, Bool.false_eq_true, if_false]
      rw [heq]
      simp only
      have hk2 : ¬ ((!small) = true ∨ Node.count root' > 1) := by
        intro e
        cases e with
        | inl e => rw [hsm] at e; exact absurd e (by decide)
        | inr e => exact hc1 e
      rw [if_neg hk2]
    cases depth with
    | zero =>
      refine ⟨{ order := P.order, depth := 0, root := root', nextId := nextId }, ?_, ⟨?_, hL'⟩, rfl, hp'⟩
      · rw [hcollapse]; rfl
      · unfold TreeWF; exact WF_set_m hW' (by simp [rootMin])
    | succ d =>
      obtain ⟨hlen, hle, _, hne, _, hkids⟩ := hW'
      have hcnt : (root' : Inner K (Node K V d)).runts.length = 1 := by
        have : ¬ (root' : Inner K (Node K V d)).runts.length > 1 := hc1
        omega
      obtain ⟨rid, runts, kids⟩ := (root' : Inner K (Node K V d))
      simp only at hlen hcnt hkids hL' hp' hcollapse
      match runts, kids, hlen, hcnt with
      | [k], [c], _, _ =>
        simp only [List.zip_cons_cons, List.zip_nil_right, Kids, nextLo] at hkids
        obtain ⟨hcW, _, _⟩ := hkids
        refine ⟨{ order := P.order, depth := d, root := c, nextId := nextId }, ?_, ⟨?_, ?_⟩, rfl, ?_⟩
        · rw [hcollapse]; rfl
        · unfold TreeWF
          exact WF_mono_m (rootMin_le d ho) (WF_mono_lo h trivial hcW)
        · exact hL'.1
        · rw [← hp']; show Node.pairs c = [c].flatMap (Node.pairs (d := d)); simp

end Gobptree
