/-
  Leaf-level correctness: on a sorted leaf, `Leaf.search`, `Leaf.upsert` and
  `Leaf.deleteKey` are the specification's operations on the leaf's pairs.
-/
import Gobptree.Proofs.WFLemmas2
import Gobptree.Proofs.Search
import Gobptree.Proofs.Slice

namespace Gobptree

variable {K V : Type} {lt : K → K → Bool}

theorem sorted_take {l : List K} (hs : Sorted lt l) (n : Nat) : Sorted lt (l.take n) :=
  List.Pairwise.sublist (List.take_sublist n l) hs

theorem sorted_drop {l : List K} (hs : Sorted lt l) (n : Nat) : Sorted lt (l.drop n) :=
  List.Pairwise.sublist (List.drop_sublist n l) hs

theorem sorted_getElem_lt {l : List K} (hs : Sorted lt l) {i j : Nat} (hij : i < j) (hj : j < l.length) :
    lt (l[i]'(by omega)) l[j] = true := by
  have := List.pairwise_iff_getElem.mp hs i j (by omega) hj hij
  exact this

/-- pairs of a leaf split at index `g` -/
theorem leaf_zip_split (keys : List K) (vals : List V) (hlen : keys.length = vals.length)
    (g : Nat) (hg : g < keys.length) :
    keys.zip vals = (keys.take g).zip (vals.take g) ++
      (keys[g], vals[g]'(by omega)) :: (keys.drop (g + 1)).zip (vals.drop (g + 1)) := by
  have := zip_split keys vals hlen g (by omega)
  exact this

theorem allLt_zip_take (h : SWO lt) (keys : List K) (vals : List V) (key : K) (g : Nat)
    (hb : ∀ i (hi : i < g) (hl : i < keys.length), lt keys[i] key = true) :
    AllLt lt ((keys.take g).zip (vals.take g)) key := by
  intro p hp
  have hm := (List.of_mem_zip hp).1
  obtain ⟨i, hi, e⟩ := List.getElem_of_mem hm
  rw [List.length_take] at hi
  rw [List.getElem_take] at e
  rw [← e]
  exact hb i (by omega) (by omega)

theorem allGt_zip_drop (h : SWO lt) (keys : List K) (vals : List V) (key : K) (g : Nat)
    (hb : ∀ i (hi : g ≤ i) (hl : i < keys.length), lt key keys[i] = true) :
    AllGt lt ((keys.drop g).zip (vals.drop g)) key := by
  intro p hp
  have hm := (List.of_mem_zip hp).1
  obtain ⟨i, hi, e⟩ := List.getElem_of_mem hm
  rw [List.length_drop] at hi
  rw [List.getElem_drop] at e
  rw [← e]
  exact hb (g + i) (by omega) (by omega)

/-- the facts about `g = searchGE key keys` on a non-empty sorted list used below -/
theorem searchGE_facts (h : SWO lt) (key : K) (keys : List K) (hs : Sorted lt keys) (hne : keys ≠ []) :
    let g := searchGE lt key keys
    ∃ hg : g < keys.length,
      (∀ i (hi : i < g) (hl : i < keys.length), lt keys[i] key = true) ∧
      (lt key keys[g] = true → ∀ i (hi : g ≤ i) (hl : i < keys.length), lt key keys[i] = true) ∧
      (eqv lt key keys[g] = true → ∀ i (hi : g + 1 ≤ i) (hl : i < keys.length), lt key keys[i] = true) := by
  intro g
  have hg : g < keys.length := searchGE_lt_length key keys hne
  refine ⟨hg, fun i hi hl => searchGE_before h key keys hs i hi hl, ?_, ?_⟩
  · intro hgt i hi hl
    rcases Nat.lt_or_eq_of_le hi with hlt | heq
    · exact h.trans _ _ _ hgt (sorted_getElem_lt hs hlt hl)
    · subst heq; exact hgt
  · intro he i hi hl
    have hlt : g < i := by omega
    have := sorted_getElem_lt hs hlt hl
    rw [h.lt_congr_left he]
    exact this

/-- Trichotomy for `g = searchGE key keys` on a non-empty sorted leaf, phrased on
    the leaf's pairs `A ++ (keys[g], vals[g]) :: B`. -/
theorem searchGE_cases (h : SWO lt) (key : K) (keys : List K) (vals : List V)
    (hs : Sorted lt keys) (hlen : keys.length = vals.length) (hne : keys ≠ []) :
    ∃ (hg : searchGE lt key keys < keys.length) (A B : List (K × V)),
      A = (keys.take (searchGE lt key keys)).zip (vals.take (searchGE lt key keys)) ∧
      B = (keys.drop (searchGE lt key keys + 1)).zip (vals.drop (searchGE lt key keys + 1)) ∧
      keys.zip vals = A ++ (keys[searchGE lt key keys], vals[searchGE lt key keys]'(by omega)) :: B ∧
      AllLt lt A key ∧
      ((eqv lt key keys[searchGE lt key keys] = true ∧ AllGt lt B key) ∨
       (lt key keys[searchGE lt key keys] = true ∧ AllGt lt B key) ∨
       (lt keys[searchGE lt key keys] key = true ∧ searchGE lt key keys + 1 = keys.length ∧ B = [])) := by
  obtain ⟨hg, hbefore, hgt, heq⟩ := searchGE_facts h key keys hs hne
  refine ⟨hg, _, _, rfl, rfl, leaf_zip_split keys vals hlen _ hg, allLt_zip_take h keys vals key _ hbefore, ?_⟩
  cases hkl : lt keys[searchGE lt key keys] key with
  | true =>
    right; right
    have hlast : searchGE lt key keys + 1 = keys.length := by
      by_cases hh : searchGE lt key keys + 1 < keys.length
      · have := searchGE_at h key keys hs hh
        rw [hkl] at this; exact absurd this (by decide)
      · omega
    refine ⟨rfl, hlast, ?_⟩
    rw [List.drop_eq_nil_of_le (by omega)]
    rfl
  | false =>
    cases hlk : lt key keys[searchGE lt key keys] with
    | true =>
      right; left
      exact ⟨rfl, allGt_zip_drop h keys vals key _ (fun i hi hl => hgt hlk i (by omega) hl)⟩
    | false =>
      left
      have he : eqv lt key keys[searchGE lt key keys] = true := by simp [eqv, hkl, hlk]
      exact ⟨he, allGt_zip_drop h keys vals key _ (fun i hi hl => heq he i hi hl)⟩

theorem lookup_mid_eqv (h : SWO lt) (A B : List (K × V)) (k key : K) (v : V)
    (hA : AllLt lt A key) (he : eqv lt key k = true) :
    Spec.lookup lt (A ++ (k, v) :: B) key = some v := by
  rw [Spec.lookup_append_left h _ _ _ hA]
  simp [Spec.lookup, he]

theorem lookup_mid_gt (h : SWO lt) (A B : List (K × V)) (k key : K) (v : V)
    (hA : AllLt lt A key) (hk : lt key k = true) (hB : AllGt lt B key) :
    Spec.lookup lt (A ++ (k, v) :: B) key = none := by
  rw [Spec.lookup_append_left h _ _ _ hA]
  have : AllGt lt ((k, v) :: B) key := by
    intro p hp
    cases List.mem_cons.mp hp with
    | inl e => subst e; exact hk
    | inr hm => exact hB p hm
  have h2 := Spec.lookup_append_right h [] ((k, v) :: B) key this
  simpa [Spec.lookup] using h2

theorem lookup_all_lt (h : SWO lt) (L : List (K × V)) (key : K) (hL : AllLt lt L key) :
    Spec.lookup lt L key = none := by
  have := Spec.lookup_append_left h L [] key hL
  simpa [Spec.lookup] using this

theorem Leaf.search_ok (h : SWO lt) (P : Params K) (hP : P.lt = lt) (l : Leaf K V) (key : K)
    (hs : Sorted lt l.keys) (hlen : l.keys.length = l.vals.length) :
    Leaf.search P l key = .ok (Spec.lookup lt (l.keys.zip l.vals) key) := by
  subst hP
  unfold Leaf.search
  by_cases hz : l.keys.length = 0
  · have : l.keys = [] := List.eq_nil_of_length_eq_zero hz
    simp [hz, this, Spec.lookup]
    rfl
  · have hne : l.keys ≠ [] := fun e => hz (by simp [e])
    obtain ⟨hg, A, B, _, _, hsplit, hA, hcase⟩ := searchGE_cases h key l.keys l.vals hs hlen hne
    simp only [hz, if_false]
    rw [List.getElem?_eq_getElem hg]
    simp only
    have hgv : searchGE P.lt key l.keys < l.vals.length := by omega
    rcases hcase with ⟨he, hB⟩ | ⟨hk, hB⟩ | ⟨hk, hlast, hBnil⟩
    · simp only [he, if_true]
      rw [List.getElem?_eq_getElem hgv]
      simp only
      rw [hsplit, lookup_mid_eqv h A B _ key _ hA he]
      rfl
    · have he : eqv P.lt key l.keys[searchGE P.lt key l.keys] = false := by simp [eqv, hk]
      simp only [he]
      rw [hsplit, lookup_mid_gt h A B _ key _ hA hk hB]
      rfl
    · have he : eqv P.lt key l.keys[searchGE P.lt key l.keys] = false := by simp [eqv, hk]
      simp only [he]
      have hall : AllLt P.lt (l.keys.zip l.vals) key := by
        rw [hsplit, hBnil]
        intro p hp
        cases List.mem_append.mp hp with
        | inl hm => exact hA p hm
        | inr hm => simp at hm; subst hm; exact hk
      rw [lookup_all_lt h _ key hall]
      rfl

theorem sorted_append_singleton {l : List K} {key : K} (hs : Sorted lt l)
    (hall : ∀ k ∈ l, lt k key = true) : Sorted lt (l ++ [key]) := by
  unfold Sorted
  rw [List.pairwise_append]
  refine ⟨hs, List.pairwise_singleton _ _, ?_⟩
  intro a ha b hb
  simp at hb; subst hb
  exact hall a ha

theorem sorted_insert_mid {l : List K} {key : K} {g : Nat} (hs : Sorted lt l)
    (hb : ∀ k ∈ l.take g, lt k key = true) (ha : ∀ k ∈ l.drop g, lt key k = true) (h : SWO lt) :
    Sorted lt (l.take g ++ key :: l.drop g) := by
  unfold Sorted
  rw [List.pairwise_append]
  refine ⟨sorted_take hs g, ?_, ?_⟩
  · rw [List.pairwise_cons]
    exact ⟨ha, sorted_drop hs g⟩
  · intro a haa b hbb
    cases List.mem_cons.mp hbb with
    | inl e => subst e; exact hb a haa
    | inr hm => exact h.trans _ _ _ (hb a haa) (ha b hm)

theorem mem_take_zip_fst {keys : List K} {vals : List V} {g : Nat} {key : K}
    (hA : AllLt lt ((keys.take g).zip (vals.take g)) key) (hlen : keys.length = vals.length) :
    ∀ k ∈ keys.take g, lt k key = true := by
  intro k hk
  obtain ⟨i, hi, e⟩ := List.getElem_of_mem hk
  have hi' : i < (vals.take g).length := by simp [List.length_take] at hi ⊢; omega
  have : (k, (vals.take g)[i]) ∈ (keys.take g).zip (vals.take g) := by
    rw [← e]
    have hz : i < ((keys.take g).zip (vals.take g)).length := by simp [List.length_zip]; simp [List.length_take] at hi hi'; omega
    have := List.getElem_mem hz
    rw [List.getElem_zip] at this
    exact this
  exact hA _ this

theorem mem_drop_zip_fst {keys : List K} {vals : List V} {g : Nat} {key : K}
    (hB : AllGt lt ((keys.drop g).zip (vals.drop g)) key) (hlen : keys.length = vals.length) :
    ∀ k ∈ keys.drop g, lt key k = true := by
  intro k hk
  obtain ⟨i, hi, e⟩ := List.getElem_of_mem hk
  have hi' : i < (vals.drop g).length := by simp [List.length_drop] at hi ⊢; omega
  have : (k, (vals.drop g)[i]) ∈ (keys.drop g).zip (vals.drop g) := by
    rw [← e]
    have hz : i < ((keys.drop g).zip (vals.drop g)).length := by simp [List.length_zip]; simp [List.length_drop] at hi hi'; omega
    have := List.getElem_mem hz
    rw [List.getElem_zip] at this
    exact this
  exact hB _ this

theorem zip_set_right (keys : List K) (vals : List V) (g : Nat) (hg : g < keys.length)
    (hlen : keys.length = vals.length) (v : V) :
    keys.zip (vals.set g v) = (keys.take g).zip (vals.take g) ++
      (keys[g], v) :: (keys.drop (g + 1)).zip (vals.drop (g + 1)) := by
  have h1 := leaf_zip_split keys (vals.set g v) (by simp [hlen]) g hg
  rw [h1]
  simp [List.take_set_of_le, List.drop_set_of_lt]

/-- result of the leaf part of `Insert`/`Update` -/
theorem Leaf.upsert_ok (h : SWO lt) (P : Params K) (hP : P.lt = lt) (hpad : ∀ k, P.pad (some k) ≠ none)
    (l : Leaf K V) (key : K) (f : Option V → V)
    (hs : Sorted lt l.keys) (hlen : l.keys.length = l.vals.length) :
    ∃ l' : Leaf K V, Leaf.upsert P l key f = .ok (l', Spec.lookup lt (l.keys.zip l.vals) key) ∧
      l'.id = l.id ∧ l'.next = l.next ∧
      Sorted lt l'.keys ∧ l'.keys.length = l'.vals.length ∧
      l'.keys.zip l'.vals = Spec.insert lt (l.keys.zip l.vals) key (f (Spec.lookup lt (l.keys.zip l.vals) key)) ∧
      l.keys.length ≤ l'.keys.length ∧ l'.keys.length ≤ l.keys.length + 1 ∧
      (∀ k ∈ l'.keys, k ∈ l.keys ∨ k = key) := by
  subst hP
  unfold Leaf.upsert
  by_cases hnil : l.keys = []
  · -- empty leaf: append path
    have hv : l.vals = [] := List.eq_nil_of_length_eq_zero (by rw [← hlen, hnil]; rfl)
    simp only [hnil, List.getLast?_nil, if_true]
    refine ⟨{ l with keys := [] ++ [key], vals := l.vals ++ [f none] }, ?_, rfl, rfl, ?_, ?_, ?_, ?_, ?_, ?_⟩
    · simp [Spec.lookup]; rfl
    · simp [Sorted]
    · simp [hv]
    · simp [hv, Spec.insert, Spec.lookup]
    · simp
    · simp
    · intro k hk; simp at hk; right; exact hk
  · obtain ⟨hg, A, B, hAdef, hBdef, hsplit, hA, hcase⟩ := searchGE_cases h key l.keys l.vals hs hlen hnil
    have hgv : searchGE P.lt key l.keys < l.vals.length := by omega
    have hpos : 0 < l.keys.length := List.length_pos_iff.mpr hnil
    have hlast : l.keys.getLast? = some (l.keys[l.keys.length - 1]'(by omega)) := by
      rw [List.getLast?_eq_getElem?]
      exact List.getElem?_eq_getElem _
    rw [hlast]
    simp only
    rcases hcase with ⟨he, hB⟩ | ⟨hk, hB⟩ | ⟨hk, hlastidx, hBnil⟩
    · -- replace path: key is equivalent to keys[g]; the last key is not smaller than key
      have he' := he
      simp only [eqv, Bool.and_eq_true, Bool.not_eq_true'] at he'
      have hnotapp : P.lt (l.keys[l.keys.length - 1]'(by omega)) key = false := by
        by_cases hgl : searchGE P.lt key l.keys = l.keys.length - 1
        · simp only [← hgl]; exact he'.2
        · have hlt : searchGE P.lt key l.keys < l.keys.length - 1 := by omega
          have h1 := sorted_getElem_lt hs hlt (by omega)
          exact h.le_of_lt (h.lt_of_le_of_lt he'.2 h1)
      simp only [hnotapp, Bool.false_eq_true, if_false]
      rw [List.getElem?_eq_getElem hg]
      simp only [he, if_true]
      rw [List.getElem?_eq_getElem hgv]
      simp only
      have hlook : Spec.lookup P.lt (l.keys.zip l.vals) key = some (l.vals[searchGE P.lt key l.keys]) := by
        rw [hsplit]; exact lookup_mid_eqv h A B _ key _ hA he
      refine ⟨{ l with vals := l.vals.set (searchGE P.lt key l.keys) (f (some l.vals[searchGE P.lt key l.keys])) },
        ?_, rfl, rfl, hs, by simp [hlen], ?_, by simp, by simp, fun k hk => Or.inl hk⟩
      · rw [hlook]; rfl
      simp only
      rw [hlook]
      conv => rhs; rw [hsplit, Spec.insert_append_left h _ _ _ _ hA]
      have hins : Spec.insert P.lt ((l.keys[searchGE P.lt key l.keys], l.vals[searchGE P.lt key l.keys]) :: B) key
            (f (some l.vals[searchGE P.lt key l.keys])) =
          (l.keys[searchGE P.lt key l.keys], f (some l.vals[searchGE P.lt key l.keys])) :: B := by
        simp [Spec.insert, he'.1, he'.2]
      rw [hins]
      -- zip keys (vals.set g v) = A ++ (keys[g], v) :: B
      rw [zip_set_right _ _ _ hg hlen, hAdef, hBdef]
    · -- insert-in-the-middle path
      have hnotapp : P.lt (l.keys[l.keys.length - 1]'(by omega)) key = false := by
        by_cases hgl : searchGE P.lt key l.keys = l.keys.length - 1
        · simp only [← hgl]; exact h.le_of_lt hk
        · have hlt : searchGE P.lt key l.keys < l.keys.length - 1 := by omega
          have h1 := sorted_getElem_lt hs hlt (by omega)
          exact h.le_of_lt (h.trans _ _ _ hk h1)
      simp only [hnotapp, Bool.false_eq_true, if_false]
      rw [List.getElem?_eq_getElem hg]
      have he : eqv P.lt key l.keys[searchGE P.lt key l.keys] = false := by simp [eqv, hk]
      simp only [he, Bool.false_eq_true, if_false]
      cases hp : P.pad (some key) with
      | none => exact absurd hp (hpad key)
      | some pad =>
        simp only
        have hnl : ¬ l.vals.length < searchGE P.lt key l.keys := by omega
        simp only [hnl, if_false]
        have hlook : Spec.lookup P.lt (l.keys.zip l.vals) key = none := by
          rw [hsplit]; exact lookup_mid_gt h A B _ key _ hA hk hB
        rw [insertIdiom_eq _ _ _ _ (by omega), insertIdiom_eq _ _ _ _ (by omega)]
        have hbefore := mem_take_zip_fst (by rw [← hAdef]; exact hA) hlen
        have hafter : ∀ k ∈ l.keys.drop (searchGE P.lt key l.keys), P.lt key k = true := by
          intro k hkm
          rw [List.drop_eq_getElem_cons hg] at hkm
          cases List.mem_cons.mp hkm with
          | inl e => subst e; exact hk
          | inr hm => exact mem_drop_zip_fst (by rw [← hBdef]; exact hB) hlen k hm
        refine ⟨{ l with keys := l.keys.take (searchGE P.lt key l.keys) ++ key :: l.keys.drop (searchGE P.lt key l.keys),
                         vals := l.vals.take (searchGE P.lt key l.keys) ++ f none :: l.vals.drop (searchGE P.lt key l.keys) },
          ?_, rfl, rfl, sorted_insert_mid hs hbefore hafter h, ?_, ?_, ?_, ?_, ?_⟩
        · rw [hlook]; rfl
        · simp only [List.length_append, List.length_cons, List.length_take, List.length_drop]; omega
        · simp only
          rw [hlook]
          conv => rhs; rw [hsplit, Spec.insert_append_left h _ _ _ _ hA]
          have hins : Spec.insert P.lt ((l.keys[searchGE P.lt key l.keys], l.vals[searchGE P.lt key l.keys]) :: B) key (f none) =
              (key, f none) :: (l.keys[searchGE P.lt key l.keys], l.vals[searchGE P.lt key l.keys]) :: B := by
            simp [Spec.insert, hk]
          rw [hins, zip_surgery _ _ _ _ (by simp only [List.length_take]; omega), List.zip_cons_cons,
            List.drop_eq_getElem_cons hg, List.drop_eq_getElem_cons hgv, List.zip_cons_cons, hAdef, hBdef]
        · simp only [List.length_append, List.length_cons, List.length_take, List.length_drop]; omega
        · simp only [List.length_append, List.length_cons, List.length_take, List.length_drop]; omega
        · intro k hkm
          simp only [List.mem_append, List.mem_cons] at hkm
          rcases hkm with hm | hm | hm
          · exact Or.inl (List.mem_of_mem_take hm)
          · exact Or.inr hm
          · exact Or.inl (List.mem_of_mem_drop hm)
    · -- append path: every key is smaller
      have happ : P.lt (l.keys[l.keys.length - 1]'(by omega)) key = true := by
        have : l.keys.length - 1 = searchGE P.lt key l.keys := by omega
        simp only [this]; exact hk
      simp only [happ, if_true]
      have hall : AllLt P.lt (l.keys.zip l.vals) key := by
        rw [hsplit, hBnil]
        intro p hp
        cases List.mem_append.mp hp with
        | inl hm => exact hA p hm
        | inr hm => simp at hm; subst hm; exact hk
      have hallk : ∀ k ∈ l.keys, P.lt k key = true := by
        have h1 := mem_take_zip_fst (keys := l.keys) (vals := l.vals) (g := l.keys.length) (key := key)
          (by rw [List.take_length, hlen, List.take_length]; exact hall) hlen
        rw [List.take_length] at h1
        exact h1
      have hlook : Spec.lookup P.lt (l.keys.zip l.vals) key = none := lookup_all_lt h _ key hall
      refine ⟨{ l with keys := l.keys ++ [key], vals := l.vals ++ [f none] },
        ?_, rfl, rfl, sorted_append_singleton hs hallk, by simp [hlen], ?_, by simp, by simp, ?_⟩
      · rw [hlook]; rfl
      · simp only
        rw [hlook]
        have := Spec.insert_append_left h (l.keys.zip l.vals) [] key (f none) hall
        simp only [List.append_nil] at this
        rw [this, zip_surgery _ _ _ _ hlen]
        rfl
      · intro k hkm
        simp only [List.mem_append, List.mem_singleton] at hkm
        exact hkm

theorem erase_mid_eqv (h : SWO lt) (A B : List (K × V)) (k key : K) (v : V)
    (hA : AllLt lt A key) (he : eqv lt key k = true) (hB : AllGt lt B key) :
    Spec.erase lt (A ++ (k, v) :: B) key = A ++ B := by
  rw [Spec.erase_append, Spec.erase_of_allLt h A key hA]
  have : Spec.erase lt ((k, v) :: B) key = Spec.erase lt B key := by
    simp [Spec.erase, he]
  rw [this, Spec.erase_of_allGt h B key hB]

theorem erase_none (h : SWO lt) (L : List (K × V)) (key : K)
    (hL : ∀ p ∈ L, eqv lt key p.1 = false) : Spec.erase lt L key = L := by
  unfold Spec.erase
  rw [List.filter_eq_self]
  intro p hp
  simp [hL p hp]

theorem sorted_delete_mid {l : List K} (hs : Sorted lt l) (g : Nat) :
    Sorted lt (l.take g ++ l.drop (g + 1)) := by
  rw [← List.eraseIdx_eq_take_drop_succ]
  exact List.Pairwise.sublist (List.eraseIdx_sublist l g) hs

/-- result of the leaf `deleteKey` -/
theorem Leaf.deleteKey_ok (h : SWO lt) (P : Params K) (hP : P.lt = lt)
    (l : Leaf K V) (minSize : Nat) (key : K)
    (hs : Sorted lt l.keys) (hlen : l.keys.length = l.vals.length) :
    ∃ (l' : Leaf K V) (small : Bool), Leaf.deleteKey P l minSize key = .ok (l', small) ∧
      (small = true → l'.keys.length < minSize) ∧
      (small = false → l' = l ∨ minSize ≤ l'.keys.length) ∧
      l'.id = l.id ∧ l'.next = l.next ∧
      Sorted lt l'.keys ∧ l'.keys.length = l'.vals.length ∧
      l'.keys.zip l'.vals = Spec.erase lt (l.keys.zip l.vals) key ∧
      l'.keys.length ≤ l.keys.length ∧ l.keys.length ≤ l'.keys.length + 1 ∧
      (∀ k ∈ l'.keys, k ∈ l.keys) := by
  subst hP
  unfold Leaf.deleteKey
  by_cases hnil : l.keys = []
  · refine ⟨l, false, ?_, by simp, fun _ => Or.inl rfl, rfl, rfl, hs, hlen, ?_, Nat.le_refl _, by omega,
      fun k hk => hk⟩
    · simp only [hnil, searchGE_nil]
      rfl
    · simp [hnil, Spec.erase]
  · obtain ⟨hg, A, B, hAdef, hBdef, hsplit, hA, hcase⟩ := searchGE_cases h key l.keys l.vals hs hlen hnil
    have hgv : searchGE P.lt key l.keys < l.vals.length := by omega
    simp only []
    rw [List.getElem?_eq_getElem hg]
    simp only
    rcases hcase with ⟨he, hB⟩ | ⟨hk, hB⟩ | ⟨hk, hlastidx, hBnil⟩
    · -- the key is present at index g: it is removed
      have hnl : ¬ l.vals.length ≤ searchGE P.lt key l.keys := by omega
      simp only [he, Bool.not_true, Bool.false_eq_true, if_false, hnl]
      rw [deleteIdiom_eq _ _ hg, deleteIdiom_eq _ _ hgv]
      refine ⟨{ l with keys := l.keys.take (searchGE P.lt key l.keys) ++ l.keys.drop (searchGE P.lt key l.keys + 1),
                       vals := l.vals.take (searchGE P.lt key l.keys) ++ l.vals.drop (searchGE P.lt key l.keys + 1) },
        _, rfl, ?_, ?_, rfl, rfl, ?_, ?_, ?_, ?_, ?_, ?_⟩
      · intro hsm
        exact of_decide_eq_true hsm
      · intro hsm
        right
        exact Nat.le_of_not_lt (of_decide_eq_false hsm)
      · exact sorted_delete_mid hs _
      · simp only [List.length_append, List.length_take, List.length_drop]; omega
      · simp only
        rw [hsplit, erase_mid_eqv h A B _ key _ hA he hB,
          zip_surgery _ _ _ _ (by simp only [List.length_take]; omega), hAdef, hBdef]
      · simp only [List.length_append, List.length_take, List.length_drop]; omega
      · simp only [List.length_append, List.length_take, List.length_drop]; omega
      · intro k hkm
        simp only [List.mem_append] at hkm
        rcases hkm with hm | hm
        · exact List.mem_of_mem_take hm
        · exact List.mem_of_mem_drop hm
    · -- key is strictly below keys[g]: absent
      have he : eqv P.lt key l.keys[searchGE P.lt key l.keys] = false := by simp [eqv, hk]
      simp only [he, Bool.not_false, if_true]
      refine ⟨l, false, rfl, by simp, fun _ => Or.inl rfl, rfl, rfl, hs, hlen, ?_, Nat.le_refl _, by omega,
        fun k hk => hk⟩
      rw [erase_none h]
      rw [hsplit]
      intro p hp
      rcases List.mem_append.mp hp with hm | hm
      · have := hA p hm
        simp [eqv, this]
      · rcases List.mem_cons.mp hm with e | hm
        · subst e; exact he
        · have := hB p hm
          simp [eqv, this]
    · -- every key is strictly below key: absent
      have he : eqv P.lt key l.keys[searchGE P.lt key l.keys] = false := by simp [eqv, hk]
      simp only [he, Bool.not_false, if_true]
      refine ⟨l, false, rfl, by simp, fun _ => Or.inl rfl, rfl, rfl, hs, hlen, ?_, Nat.le_refl _, by omega,
        fun k hk => hk⟩
      rw [erase_none h]
      rw [hsplit, hBnil]
      intro p hp
      rcases List.mem_append.mp hp with hm | hm
      · have := hA p hm
        simp [eqv, this]
      · simp only [List.mem_singleton] at hm
        subst hm; exact he

end Gobptree
