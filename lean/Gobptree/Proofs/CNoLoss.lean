/-
  C03, the three "in particular" clauses, for every reachable execution of disciplined programs
  (hypotheses of `linearizable_full'`), every number of threads, every schedule:

    "no completed Insert or Update is lost, no deleted key reappears, and a Search never misses
     a key that is present throughout the Search."

  The proofs are in
    `CNoLossSpec`    last write wins, on the specification;
    `CNoLossLin`     real-time order forces linearization order, on decorated histories;
    `CNoLossWrites`  the write clauses on reachable configurations, in terms of `history c`
                     (`insert_not_lost`, `update_not_lost`, `delete_not_undone`, `lookup_last_write`);
    `CNoLossSearch`  the Search clause on runs (`search_reads_run_config`, `search_finds_present`,
                     `search_reports_absent`); the log and the history of a run only grow;
    `CNoLossSeq`     program order is real-time order (the history is thread-sequential).
  This file states the write clauses on RUNS, with the real-time hypothesis in its plainest form
  (`OutOfTheWay`), relates `CallInvoked` / `CallReturned` to the notes of the log and to the program
  counters, gives the forms "at the end of an execution", and a worked instance.

  Vocabulary.  `CallAt progs t i cop`: call `i` of thread `t` is `cop`.  `CallInvoked d t i` /
  `CallReturned d t i`: the history of configuration `d` holds the invocation / the response of the
  map operation `(t, i)`.  `RetBeforeInv run t' i' t i`: some configuration of the run shows
  `(t', i')` returned and `(t, i)` not invoked.  `OutOfTheWay run c t' i' t i`: `(t', i')` is not
  invoked in `c`, or `RetBeforeInv`, or it is an earlier call of the same thread.  `cWrites lt k cop`:
  `cop` is an Insert, Update or Delete on a key equivalent to `k`; `cPuts`: an Insert or Update.
-/
import Gobptree.Proofs.CNoLossWrites
import Gobptree.Proofs.CNoLossSearch
import Gobptree.Proofs.CNoLossSeq

namespace Gobptree.Conc
open Gobptree Gobptree.Lin

variable {K V : Type}

/-- the history of `d` holds the invocation of the map operation `(t, i)` -/
def CallInvoked (d : Config K V) (t i : Nat) : Prop := ∃ op, HEv.inv t i op ∈ history d

/-- the history of `d` holds the response of the map operation `(t, i)` -/
def CallReturned (d : Config K V) (t i : Nat) : Prop := ∃ out, HEv.ret t i out ∈ history d

/-- at some moment of the run, `(t', i')` had returned and `(t, i)` had not been invoked -/
def RetBeforeInv (run : List (Config K V)) (t' i' t i : Nat) : Prop :=
  ∃ d ∈ run, CallReturned d t' i' ∧ ¬ CallInvoked d t i

/-- the call `(t', i')` is out of the way of the call `(t, i)` in the run ending in `c`: it has not
    been invoked so far; or at some moment of the run it had returned while `(t, i)` had not been
    invoked; or it is an earlier call of the same thread (program order: the `ret` note of a call and
    the `inv` note of the thread's next call are logged in the same scheduler step, so no
    configuration separates them) -/
def OutOfTheWay (run : List (Config K V)) (c : Config K V) (t' i' t i : Nat) : Prop :=
  ¬ CallInvoked c t' i' ∨ RetBeforeInv run t' i' t i ∨ (t' = t ∧ i' < i)

theorem opOf_of_cWrites {lt : K → K → Bool} {k : K} {cop : COp K V} (h : cWrites lt k cop = true) :
    ∃ op, opOf cop = some op := by
  cases cop <;> first | exact ⟨_, rfl⟩ | cases h

theorem opOf_of_cPuts {lt : K → K → Bool} {k : K} {cop : COp K V} (h : cPuts lt k cop = true) :
    ∃ op, opOf cop = some op := by
  cases cop <;> first | exact ⟨_, rfl⟩ | cases h

/-! ### `CallInvoked` / `CallReturned`, the notes of the log, the program counters -/

theorem hx_inv_of_note (progs : Nat → List (COp K V)) {t i : Nat} {cop : COp K V} {op : Op K V}
    (hc : (progs t)[i]? = some cop) (ho : opOf cop = some op) :
    ∀ (evs : List (Ev K V)), Ev.note t (.inv i) ∈ evs → HEv.inv t i op ∈ (hx progs evs).evs := by
  intro evs
  induction evs with
  | nil => intro h; cases h
  | cons e rest ih =>
    intro h
    rw [hx_cons]
    rcases List.mem_cons.1 h with h1 | h1
    · subst h1
      simp only [hxStep, hc, Option.bind_some, ho]
      exact List.mem_append_right _ List.mem_cons_self
    · exact hxStep_mono progs _ e _ (ih h1)

/-- for a map operation of the programs, `CallInvoked` is: its `inv` note is in the log -/
theorem invoked_iff_note {d : Config K V} {t i : Nat} {cop : COp K V} {op : Op K V}
    (hc : (progOf d t)[i]? = some cop) (ho : opOf cop = some op) :
    CallInvoked d t i ↔ Ev.note t (.inv i) ∈ d.log :=
  ⟨fun ⟨_, h⟩ => history_inv_note h, fun h => ⟨op, hx_inv_of_note (progOf d) hc ho d.log h⟩⟩

/-- a call that has returned has logged its `ret` note -/
theorem note_of_returned {d : Config K V} {t i : Nat} (h : CallReturned d t i) : ∃ r, Ev.note t (.ret i r) ∈ d.log :=
  let ⟨_, h'⟩ := h
  history_ret_note h'

/-- an Insert whose `ret _ ok` note is in the log has `CallReturned` -/
theorem returned_of_note_ins {d : Config K V} {t i : Nat} {k : K} {v : V} (hc : (progOf d t)[i]? = some (.ins k v))
    (h : Ev.note t (.ret i .ok) ∈ d.log) : CallReturned d t i :=
  ⟨.done, hx_ret_of_note (progOf d) hc (fun _ => rfl) d.log h⟩

/-- a Delete whose `ret _ ok` note is in the log has `CallReturned` -/
theorem returned_of_note_del {d : Config K V} {t i : Nat} {k : K} (hc : (progOf d t)[i]? = some (.del k))
    (h : Ev.note t (.ret i .ok) ∈ d.log) : CallReturned d t i :=
  ⟨.done, hx_ret_of_note (progOf d) hc (fun _ => rfl) d.log h⟩

/-- a Search whose `ret _ (found r)` note is in the log has `CallReturned` -/
theorem returned_of_note_get {d : Config K V} {t i : Nat} {k : K} {r : Option V} (hc : (progOf d t)[i]? = some (.get k))
    (h : Ev.note t (.ret i (.found r)) ∈ d.log) : CallReturned d t i :=
  ⟨.found r, hx_ret_of_note (progOf d) hc (fun _ => rfl) d.log h⟩

/-- the response `found r` of a Search in the history comes from its `ret _ (found r)` note -/
theorem hx_found_note (progs : Nat → List (COp K V)) {t i : Nat} {k : K} {r : Option V}
    (hc : (progs t)[i]? = some (.get k)) :
    ∀ (evs : List (Ev K V)), HEv.ret t i (.found r) ∈ (hx progs evs).evs → Ev.note t (.ret i (.found r)) ∈ evs := by
  intro evs
  induction evs with
  | nil => intro h; simp [hx] at h
  | cons e rest ih =>
    intro h
    rw [hx_cons] at h
    cases e with
    | note t' n =>
      cases n with
      | inv idx =>
        simp only [hxStep] at h
        split at h
        · rcases List.mem_append.1 h with h1 | h1
          · exact List.mem_cons_of_mem _ (ih h1)
          · simp at h1
        · exact List.mem_cons_of_mem _ (ih h)
      | cb a => exact List.mem_cons_of_mem _ (ih h)
      | ret idx r' =>
        simp only [hxStep] at h
        split at h
        · rename_i op hop
          split at h
          · rename_i out hout
            rcases List.mem_append.1 h with h1 | h1
            · exact List.mem_cons_of_mem _ (ih h1)
            · simp only [List.mem_singleton, HEv.ret.injEq] at h1
              obtain ⟨rfl, rfl, rfl⟩ := h1
              rw [hc] at hop
              cases hop
              cases r' with
              | found r'' =>
                have : r'' = r := by simpa [outOf] using hout
                subst this
                exact List.mem_cons_self
              | ok => simp [outOf] at hout
              | bool b => simp [outOf] at hout
              | pair a b => simp [outOf] at hout
              | skip => simp [outOf] at hout
              | panic => simp [outOf] at hout
          · exact List.mem_cons_of_mem _ (ih h)
        · exact List.mem_cons_of_mem _ (ih h)
    | acq t' l => exact List.mem_cons_of_mem _ (ih h)
    | rel t' l => exact List.mem_cons_of_mem _ (ih h)
    | dec t' l => exact List.mem_cons_of_mem _ (ih h)

section Main

variable (lt : K → K → Bool) (P : Params K) (tree : Tree K V) (progs : List (List (COp K V)))

/-- every map operation a thread has moved past has `CallReturned` (`reachable_retok`) -/
theorem returned_of_past
    (ht : TreeOk none tree) (ho : tree.order = P.order) (hp : PadOk P) (hd : Disciplined progs)
    (hdel : 4 ≤ tree.order ∨ NoDelete progs)
    (c : Config K V) (hr : Reachable (Config.init P tree progs) c)
    {t i : Nat} {th : Thread K V} {cop : COp K V} {op : Op K V} (hth : c.threads[t]? = some th)
    (hi : i < th.pc) (hc : th.prog[i]? = some cop) (hop : opOf cop = some op) : CallReturned c t i :=
  (reachable_retok P tree progs ht ho hp hd hdel c hr t th hth).past i cop op hi hc hop

/-- once every thread has finished, every map operation of the programs has `CallReturned` -/
theorem returned_at_end
    (ht : TreeOk none tree) (ho : tree.order = P.order) (hp : PadOk P) (hd : Disciplined progs)
    (hdel : 4 ≤ tree.order ∨ NoDelete progs)
    (c : Config K V) (hr : Reachable (Config.init P tree progs) c) (hu : c.unfinished = false)
    {t i : Nat} {cop : COp K V} {op : Op K V} (hcall : CallAt progs t i cop) (hop : opOf cop = some op) :
    CallReturned c t i := by
  obtain ⟨p, h1, h2⟩ := hcall
  exact finished_all_returned P tree progs ht ho hp hd hdel c hr hu t p i cop op h1 h2 hop

/-- a call that has returned had been invoked -/
theorem invoked_of_returned
    (hkp : KParams lt P) (ht : TreeOk none tree) (hord : OrdTree lt tree) (hsep : SepTree lt tree)
    (ho : tree.order = P.order) (hp : PadOk P) (hd : Disciplined progs)
    (hdel : 4 ≤ tree.order ∨ NoDelete progs)
    (c : Config K V) (hr : Reachable (Config.init P tree progs) c) {t i : Nat} (hret : CallReturned c t i) :
    CallInvoked c t i := by
  obtain ⟨out, hout⟩ := hret
  obtain ⟨h, hl⟩ := reachable_lininv lt P tree progs hkp ht hord hsep ho hp hd hdel c hr
  rw [← hl.vis] at hout
  obtain ⟨L, hL⟩ := List.mem_iff_getElem?.1 (lin_of_ret hl.pts.wf (mem_visible.1 hout).1)
  obtain ⟨q, op, _, hq⟩ := hl.pts.wf.lin_after_inv L t i hL
  exact ⟨op, by rw [← hl.vis]; exact mem_visible.2 ⟨List.mem_of_getElem? hq, rfl⟩⟩

/-- the real-time hypothesis on a run, in its plainest form, gives `SettledBefore` -/
theorem settled_of_run
    (ht : TreeOk none tree) (ho : tree.order = P.order) (hp : PadOk P) (hd : Disciplined progs)
    (hdel : 4 ≤ tree.order ∨ NoDelete progs)
    {c : Config K V} {hist : List (Config K V)}
    (hrun : RunFrom (Config.init P tree progs) (c :: hist)) {t' i' t i : Nat} (hinv : CallInvoked c t i)
    {cop' : COp K V} {op' : Op K V} (hcall : CallAt progs t' i' cop') (hop : opOf cop' = some op')
    (h : OutOfTheWay (c :: hist) c t' i' t i) :
    SettledBefore (history c) t' i' t i := by
  rcases h with h | ⟨d, hd', ⟨out, hout⟩, hni⟩ | ⟨rfl, hlt⟩
  · exact .inl (fun op hop => h ⟨op, hop⟩)
  · obtain ⟨op, hop⟩ := hinv
    exact settledBefore_of_moment hrun hd' hout (fun op' h' => hni ⟨op', h'⟩) hop
  · obtain ⟨op, hop'⟩ := hinv
    obtain ⟨p, h1, h2⟩ := hcall
    exact settled_of_program_order P tree progs ht ho hp hd hdel c hrun.reachable hlt h1 h2 hop hop'

/-! ### the write clauses on runs -/

/-- **C03: no completed Insert is lost.**  Along every run: `ins k v` (call `i` of thread `t`) has
    returned, and every OTHER call of the programs that writes a key equivalent to `k` is out of the
    way: it has not been invoked so far, or it had returned at a moment of the run when `(t, i)` had
    not been invoked yet, or it is an earlier call of the same thread.  Then the map holds `v` at `k`
    — in the configuration where the Insert returns and in every later one, until another writer of
    `k` is invoked. -/
theorem no_completed_insert_lost
    (hkp : KParams lt P) (ht : TreeOk none tree) (hord : OrdTree lt tree) (hsep : SepTree lt tree)
    (ho : tree.order = P.order) (hp : PadOk P) (hd : Disciplined progs)
    (hdel : 4 ≤ tree.order ∨ NoDelete progs)
    {c : Config K V} {hist : List (Config K V)} (hrun : RunFrom (Config.init P tree progs) (c :: hist))
    {t i : Nat} {k : K} {v : V} (hcall : CallAt progs t i (.ins k v)) (hret : CallReturned c t i)
    (hothers : ∀ t' i' cop, CallAt progs t' i' cop → (t', i') ≠ (t, i) → cWrites lt k cop = true →
      OutOfTheWay (c :: hist) c t' i' t i) :
    Spec.lookup lt c.tree.abs k = some v := by
  have hinv := invoked_of_returned lt P tree progs hkp ht hord hsep ho hp hd hdel c hrun.reachable hret
  obtain ⟨out, hout⟩ := hret
  refine insert_not_lost lt P tree progs hkp ht hord hsep ho hp hd hdel c hrun.reachable hcall hout ?_
  intro t' i' cop hc hne hw
  obtain ⟨op', hop'⟩ := opOf_of_cWrites hw
  exact settled_of_run P tree progs ht ho hp hd hdel hrun hinv hc hop' (hothers t' i' cop hc hne hw)

/-- **C03: no completed Update is lost.**  Along every run: `upd k f` (call `i` of thread `t`) has
    returned — its response in the history carries the argument `arg` its callback received — and
    every other call of the programs that writes a key equivalent to `k` is out of the way (not
    invoked so far / returned at a moment when `(t, i)` was not invoked yet / an earlier call of the
    same thread).  Then the map holds `f arg` at `k`. -/
theorem no_completed_update_lost
    (hkp : KParams lt P) (ht : TreeOk none tree) (hord : OrdTree lt tree) (hsep : SepTree lt tree)
    (ho : tree.order = P.order) (hp : PadOk P) (hd : Disciplined progs)
    (hdel : 4 ≤ tree.order ∨ NoDelete progs)
    {c : Config K V} {hist : List (Config K V)} (hrun : RunFrom (Config.init P tree progs) (c :: hist))
    {t i : Nat} {k : K} {f : Option V → V} {y : Bool} (hcall : CallAt progs t i (.upd k f y))
    {arg : Option V} (hret : HEv.ret t i (.callback arg) ∈ history c)
    (hothers : ∀ t' i' cop, CallAt progs t' i' cop → (t', i') ≠ (t, i) → cWrites lt k cop = true →
      OutOfTheWay (c :: hist) c t' i' t i) :
    Spec.lookup lt c.tree.abs k = some (f arg) := by
  have hinv := invoked_of_returned lt P tree progs hkp ht hord hsep ho hp hd hdel c hrun.reachable ⟨_, hret⟩
  refine update_not_lost lt P tree progs hkp ht hord hsep ho hp hd hdel c hrun.reachable hcall hret ?_
  intro t' i' cop hc hne hw
  obtain ⟨op', hop'⟩ := opOf_of_cWrites hw
  exact settled_of_run P tree progs ht ho hp hd hdel hrun hinv hc hop' (hothers t' i' cop hc hne hw)

/-- **C03: no deleted key reappears.**  Along every run: `del k` (call `i` of thread `t`) has
    returned, and every call of the programs that STORES a value at a key equivalent to `k` (Insert
    or Update) is out of the way: it has not been invoked so far, or it had returned at a moment of
    the run when `(t, i)` had not been invoked yet, or it is an earlier call of the same thread.
    Then `k` is absent from the map — in the configuration where the Delete returns and in every
    later one, until such a call is invoked. -/
theorem no_deleted_key_reappears
    (hkp : KParams lt P) (ht : TreeOk none tree) (hord : OrdTree lt tree) (hsep : SepTree lt tree)
    (ho : tree.order = P.order) (hp : PadOk P) (hd : Disciplined progs)
    (hdel : 4 ≤ tree.order ∨ NoDelete progs)
    {c : Config K V} {hist : List (Config K V)} (hrun : RunFrom (Config.init P tree progs) (c :: hist))
    {t i : Nat} {k : K} (hcall : CallAt progs t i (.del k)) (hret : CallReturned c t i)
    (hothers : ∀ t' i' cop, CallAt progs t' i' cop → cPuts lt k cop = true →
      OutOfTheWay (c :: hist) c t' i' t i) :
    Spec.lookup lt c.tree.abs k = none := by
  have hinv := invoked_of_returned lt P tree progs hkp ht hord hsep ho hp hd hdel c hrun.reachable hret
  obtain ⟨out, hout⟩ := hret
  refine delete_not_undone lt P tree progs hkp ht hord hsep ho hp hd hdel c hrun.reachable hcall hout ?_
  intro t' i' cop hc hw
  obtain ⟨op', hop'⟩ := opOf_of_cPuts hw
  exact settled_of_run P tree progs ht ho hp hd hdel hrun hinv hc hop' (hothers t' i' cop hc hw)

/-! ### at the end of an execution -/

/-- once every thread has finished: the only call of the programs that writes `k` is `ins k v` ⟹
    the map holds `v` at `k` (the hypotheses `CallReturned …` of the theorems above are then automatic:
    `finished_all_returned`; for programs that close their cursors every maximal execution ends
    that way: `all_operations_return_closing`) -/
theorem insert_present_at_end
    (hkp : KParams lt P) (ht : TreeOk none tree) (hord : OrdTree lt tree) (hsep : SepTree lt tree)
    (ho : tree.order = P.order) (hp : PadOk P) (hd : Disciplined progs)
    (hdel : 4 ≤ tree.order ∨ NoDelete progs)
    (c : Config K V) (hr : Reachable (Config.init P tree progs) c) (hu : c.unfinished = false)
    {t i : Nat} {k : K} {v : V} (hcall : CallAt progs t i (.ins k v)) (hno : NoOtherWrites lt k progs t i) :
    Spec.lookup lt c.tree.abs k = some v := by
  obtain ⟨out, hout⟩ := returned_at_end P tree progs ht ho hp hd hdel c hr hu hcall rfl
  exact insert_not_lost_alone lt P tree progs hkp ht hord hsep ho hp hd hdel c hr hcall hout hno

/-- once every thread has finished: the only call that writes `k` is `upd k f` ⟹ the map holds
    `f (initial value)` at `k` -/
theorem update_present_at_end
    (hkp : KParams lt P) (ht : TreeOk none tree) (hord : OrdTree lt tree) (hsep : SepTree lt tree)
    (ho : tree.order = P.order) (hp : PadOk P) (hd : Disciplined progs)
    (hdel : 4 ≤ tree.order ∨ NoDelete progs)
    (c : Config K V) (hr : Reachable (Config.init P tree progs) c) (hu : c.unfinished = false)
    {t i : Nat} {k : K} {f : Option V → V} {y : Bool} (hcall : CallAt progs t i (.upd k f y))
    (hno : NoOtherWrites lt k progs t i) :
    Spec.lookup lt c.tree.abs k = some (f (Spec.lookup lt tree.abs k)) := by
  obtain ⟨out, hout⟩ := returned_at_end P tree progs ht ho hp hd hdel c hr hu hcall rfl
  exact update_not_lost_alone lt P tree progs hkp ht hord hsep ho hp hd hdel c hr hcall hout hno

/-- once every thread has finished: some call is `del k` and no call stores at `k` ⟹ `k` is absent -/
theorem deleted_absent_at_end
    (hkp : KParams lt P) (ht : TreeOk none tree) (hord : OrdTree lt tree) (hsep : SepTree lt tree)
    (ho : tree.order = P.order) (hp : PadOk P) (hd : Disciplined progs)
    (hdel : 4 ≤ tree.order ∨ NoDelete progs)
    (c : Config K V) (hr : Reachable (Config.init P tree progs) c) (hu : c.unfinished = false)
    {t i : Nat} {k : K} (hcall : CallAt progs t i (.del k))
    (hno : ∀ t' i' cop, CallAt progs t' i' cop → cPuts lt k cop = false) :
    Spec.lookup lt c.tree.abs k = none := by
  obtain ⟨out, hout⟩ := returned_at_end P tree progs ht ho hp hd hdel c hr hu hcall rfl
  exact delete_not_undone_alone lt P tree progs hkp ht hord hsep ho hp hd hdel c hr hcall hout hno

end Main

/-! ## a worked instance: the hypotheses are satisfiable -/

namespace NoLossExample

def ltN : Nat → Nat → Bool := fun a b => decide (a < b)
def PN : Params Nat := Params.mk ltN (fun _ => some 0) 4

/-- thread 0 inserts 7 and then deletes it; thread 1 searches 7 and inserts 3; thread 2 updates 5
    (absent counts as 10) with a yield inside the callback -/
def progs : List (List (COp Nat Nat)) :=
  [[.ins 7 1, .del 7], [.get 7, .ins 3 3], [.upd 5 (fun o => o.getD 10 + 1) true]]

theorem callAt_cases {t i : Nat} {cop : COp Nat Nat} (h : CallAt progs t i cop) :
    (t = 0 ∧ i = 0 ∧ cop = .ins 7 1) ∨ (t = 0 ∧ i = 1 ∧ cop = .del 7) ∨ (t = 1 ∧ i = 0 ∧ cop = .get 7) ∨
      (t = 1 ∧ i = 1 ∧ cop = .ins 3 3) ∨ (t = 2 ∧ i = 0 ∧ cop = .upd 5 (fun o => o.getD 10 + 1) true) := by
  obtain ⟨p, h1, h2⟩ := h
  match t, i with
  | 0, 0 => simp [progs] at h1; subst h1; simp at h2; simp [h2]
  | 0, 1 => simp [progs] at h1; subst h1; simp at h2; simp [h2]
  | 0, i + 2 => simp [progs] at h1; subst h1; simp at h2
  | 1, 0 => simp [progs] at h1; subst h1; simp at h2; simp [h2]
  | 1, 1 => simp [progs] at h1; subst h1; simp at h2; simp [h2]
  | 1, i + 2 => simp [progs] at h1; subst h1; simp at h2
  | 2, 0 => simp [progs] at h1; subst h1; simp at h2; simp [h2]
  | 2, i + 1 => simp [progs] at h1; subst h1; simp at h2
  | t + 3, i => simp [progs] at h1

/-- under EVERY schedule, once all three threads have finished: 7 is absent (the Delete came after
    the Insert in program order, and nothing else stores at 7), 3 holds 3, and 5 holds 11 -/
theorem at_end (c : Config Nat Nat) (hr : Reachable (Config.init PN (Tree.new 4) progs) c)
    (hu : c.unfinished = false) :
    Spec.lookup ltN c.tree.abs 7 = none ∧ Spec.lookup ltN c.tree.abs 3 = some 3 ∧
      Spec.lookup ltN c.tree.abs 5 = some 11 := by
  have hkp : KParams ltN PN := by
    refine ⟨⟨?_, ?_, ?_⟩, rfl⟩
    · intro a; simp [ltN]
    · intro a b c h1 h2; simp [ltN] at *; omega
    · intro a b c h1; simp [ltN] at *; omega
  have hpad : PadOk PN := by intro k h; simp [PN] at h
  have hd : Disciplined progs := by
    intro p hp; simp [progs] at hp; rcases hp with rfl | rfl | rfl <;> rfl
  have ht := new_treeOk (K := Nat) (V := Nat) 4 (by omega) (by omega)
  have hord := new_ordTree (K := Nat) (V := Nat) ltN 4
  have hsep := new_sepTree (K := Nat) (V := Nat) ltN 4
  have hdel : 4 ≤ (Tree.new 4 : Tree Nat Nat).order ∨ NoDelete progs := Or.inl (Nat.le_refl 4)
  refine ⟨?_, ?_, ?_⟩
  · -- key 7: deleted by call 1 of thread 0; the only call that stores at 7 is call 0 of thread 0
    have hcall : CallAt progs 0 1 (.del 7) := ⟨_, rfl, rfl⟩
    obtain ⟨out, hout⟩ := returned_at_end PN (Tree.new 4) progs ht rfl hpad hd hdel c hr hu hcall rfl
    obtain ⟨op, hop⟩ := invoked_of_returned ltN PN (Tree.new 4) progs hkp ht hord hsep rfl hpad hd hdel c hr ⟨out, hout⟩
    refine delete_not_undone ltN PN (Tree.new 4) progs hkp ht hord hsep rfl hpad hd hdel c hr hcall hout ?_
    intro t' i' cop hc hput
    rcases callAt_cases hc with ⟨rfl, rfl, rfl⟩ | ⟨rfl, rfl, rfl⟩ | ⟨rfl, rfl, rfl⟩ | ⟨rfl, rfl, rfl⟩ | ⟨rfl, rfl, rfl⟩
    · exact settled_of_program_order PN (Tree.new 4) progs ht rfl hpad hd hdel c hr (by omega)
        (p := [.ins 7 1, .del 7]) rfl rfl rfl hop
    all_goals simp [cPuts, eqv, ltN] at hput
  · -- key 3: only call 1 of thread 1 writes it
    refine insert_present_at_end ltN PN (Tree.new 4) progs hkp ht hord hsep rfl hpad hd hdel c hr hu
      (t := 1) (i := 1) ⟨_, rfl, rfl⟩ ?_
    intro t' i' cop hc hne
    rcases callAt_cases hc with ⟨rfl, rfl, rfl⟩ | ⟨rfl, rfl, rfl⟩ | ⟨rfl, rfl, rfl⟩ | ⟨rfl, rfl, rfl⟩ | ⟨rfl, rfl, rfl⟩
    all_goals first | exact absurd rfl hne | simp [cWrites, eqv, ltN]
  · -- key 5: only call 0 of thread 2 writes it; the initial tree is empty
    have := update_present_at_end ltN PN (Tree.new 4) progs hkp ht hord hsep rfl hpad hd hdel c hr hu
      (t := 2) (i := 0) (k := 5) (f := fun o => o.getD 10 + 1) (y := true) ⟨_, rfl, rfl⟩ (by
        intro t' i' cop hc hne
        rcases callAt_cases hc with ⟨rfl, rfl, rfl⟩ | ⟨rfl, rfl, rfl⟩ | ⟨rfl, rfl, rfl⟩ | ⟨rfl, rfl, rfl⟩ | ⟨rfl, rfl, rfl⟩
        all_goals first | exact absurd rfl hne | simp [cWrites, eqv, ltN])
    rw [this]
    have habs : (Tree.new 4 : Tree Nat Nat).abs = [] := rfl
    rw [habs]
    simp [Spec.lookup]

end NoLossExample

end Gobptree.Conc

#print axioms Gobptree.Conc.reachable_seq
#print axioms Gobptree.Conc.settled_of_program_order
#print axioms Gobptree.Conc.search_reads_run_config
#print axioms Gobptree.Conc.search_finds_present
#print axioms Gobptree.Conc.search_reports_absent
#print axioms Gobptree.Conc.split_at_returned
#print axioms Gobptree.Conc.lookup_last_write
#print axioms Gobptree.Conc.insert_not_lost
#print axioms Gobptree.Conc.update_not_lost
#print axioms Gobptree.Conc.delete_not_undone
#print axioms Gobptree.Conc.insert_not_lost_alone
#print axioms Gobptree.Conc.update_not_lost_alone
#print axioms Gobptree.Conc.delete_not_undone_alone
#print axioms Gobptree.Conc.no_completed_insert_lost
#print axioms Gobptree.Conc.no_completed_update_lost
#print axioms Gobptree.Conc.no_deleted_key_reappears
#print axioms Gobptree.Conc.insert_present_at_end
#print axioms Gobptree.Conc.update_present_at_end
#print axioms Gobptree.Conc.deleted_absent_at_end
#print axioms Gobptree.Conc.NoLossExample.at_end
