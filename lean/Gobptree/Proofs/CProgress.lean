/-
  Variant argument for "every operation eventually returns".

  `opMeasure c.tree th.park` (CProgressDefs) bounds the number of own steps the current
  operation of a parked thread still takes:

    * `own_step_progress`   — an own step completes the current operation (the thread's `pc`
                              grows, or the thread finishes) or strictly decreases the measure;
    * `other_step_measure`  — steps of OTHER threads leave the measure unchanged, at every park
                              except the very first one of an operation, `want .tree _`
                              (the thread holds nothing yet, so the depth may grow under it);
    * `tree_park_leaves`    — at that first park the next own step acquires `rootMutex` and
                              moves the thread on to `want (.node root) _`; it never returns to
                              a `want .tree _` park within the same operation;
    * `opMeasure_le`        — the measure is at most `3 * depth + 6`.

  Together with deadlock freedom (C06): between two own steps the measure of a thread does
  not move (after its first step), each own step decreases it, so an operation that acquired
  `rootMutex` in a tree of depth `d` returns after at most `3 * d + 6` further own steps.
-/
import Gobptree.Proofs.CProgressBlocks
import Gobptree.Proofs.CProgressPark

namespace Gobptree.Conc
open Gobptree

variable {K V : Type}

/-! ### the loop after a stretch -/

theorem threadLoop_pc_le (t : Nat) (th : Thread K V) :
    ∀ (fuel : Nat) (s : St K V) (fl : Flow K V) (pc : Nat), pc ≤ (threadLoop t th fuel s fl pc).1.pc := by
  intro fuel
  induction fuel with
  | zero =>
    intro s fl pc
    cases fl <;> simp [threadLoop]
  | succ fuel ih =>
    intro s fl pc
    cases fl with
    | panic => simp [threadLoop]
    | park p => simp [threadLoop]
    | done r =>
      unfold threadLoop
      cases hop : th.prog[pc + 1]? with
      | none => simp
      | some op =>
        simp only
        exact Nat.le_trans (Nat.le_succ pc) (ih _ _ (pc + 1))

/-- after a stretch that ended with `fl`: the operation returned (the `pc` grew or the thread
    is finished), or `fl` was a park and the thread sits there, same `pc` -/
theorem threadLoop_progress (t : Nat) (th : Thread K V) :
    ∀ (fuel : Nat) (s : St K V) (fl : Flow K V) (pc : Nat),
      (pc < (threadLoop t th fuel s fl pc).1.pc ∨ (threadLoop t th fuel s fl pc).1.park = .finished) ∨
      (fl = .park (threadLoop t th fuel s fl pc).1.park ∧ (threadLoop t th fuel s fl pc).1.pc = pc) := by
  intro fuel s fl pc
  cases fl with
  | panic => left; right; cases fuel <;> simp [threadLoop]
  | park p => right; cases fuel <;> simp [threadLoop]
  | done r =>
    left
    cases fuel with
    | zero => right; simp [threadLoop]
    | succ fuel =>
      unfold threadLoop
      cases hop : th.prog[pc + 1]? with
      | none => right; simp
      | some op =>
        left
        simp only
        exact Nat.lt_of_lt_of_le (Nat.lt_succ_self pc) (threadLoop_pc_le t th fuel _ _ (pc + 1))

/-- where the park of the thread after the loop comes from (as `threadLoop_park` in CKStep) -/
theorem threadLoop_park_src (t : Nat) (th : Thread K V) :
    ∀ (fuel : Nat) (s : St K V) (fl : Flow K V) (pc : Nat),
      let p' := (threadLoop t th fuel s fl pc).1.park
      fl = .park p' ∨ p' = .finished ∨ ∃ s1 op, (startOp t s1 op).2 = .park p' := by
  intro fuel
  induction fuel with
  | zero =>
    intro s fl pc
    cases fl with
    | panic => right; left; simp [threadLoop]
    | park p => left; simp [threadLoop]
    | done r => right; left; simp [threadLoop]
  | succ fuel ih =>
    intro s fl pc
    cases fl with
    | panic => right; left; simp [threadLoop]
    | park p => left; simp [threadLoop]
    | done r =>
      unfold threadLoop
      cases hop : th.prog[pc + 1]? with
      | none => right; left; simp
      | some op =>
        simp only
        rcases ih (startOp t ((s.note t (.ret pc r)).note t (.inv (pc + 1))) op).1
          (startOp t ((s.note t (.ret pc r)).note t (.inv (pc + 1))) op).2 (pc + 1) with h | h | h
        · right; right; exact ⟨_, op, h⟩
        · right; left; exact h
        · right; right; exact h

/-! ### own steps -/

/-- the thread record a step leaves at the stepping thread's index -/
theorem step_own {c c' : Config K V} {t : Nat} (hstep : c.step t = some c') {th th' : Thread K V}
    (ht : c.threads[t]? = some th) (ht' : c'.threads[t]? = some th') :
    th.enabled c = true ∧ th' = (runThread c.P t th (stepSt c t th)).1 ∧
      c'.tree = (runThread c.P t th (stepSt c t th)).2.1.tree := by
  obtain ⟨th0, ht0, hen, r, hr, hc'⟩ := step_shape hstep
  rw [ht] at ht0
  cases ht0
  have hnewt : c'.threads[t]? = some r.1 := by
    rw [hc']
    show (c.threads.set t r.1)[t]? = some r.1
    rw [List.getElem?_set_self']; rw [ht]; rfl
  rw [hnewt] at ht'
  cases ht'
  refine ⟨hen, by rw [hr], by rw [hc', hr]⟩

/-- an own step either completes the current operation, or stays inside it — same `pc`, parked
    at a node's mutex or at a yield (never again at `rootMutex`) — with a strictly smaller
    measure -/
theorem own_step_cases (c c' : Config K V) (t : Nat) (hstep : c.step t = some c') (hinv : CInv c)
    (th th' : Thread K V) (ht : c.threads[t]? = some th) (ht' : c'.threads[t]? = some th')
    (hp : th.park ≠ .start) :
    th.pc < th'.pc ∨ th'.park = .finished ∨
      (opMeasure c'.tree th'.park < opMeasure c.tree th.park ∧ th'.pc = th.pc ∧ parkNT th'.park = true) := by
  obtain ⟨hen, hth', htree'⟩ := step_own hstep ht ht'
  have htm : th ∈ c.threads := List.mem_of_getElem? ht
  have hks := (hinv.s.threads th htm).1
  have hi := hinv.s.tree.ids
  have hnf := enabled_not_finished hen
  rw [hth', htree']
  have key : ∀ k, parkKontOk c.tree th.park = KontOk c.tree k → opMeasure c.tree th.park = kMeasure c.tree k →
      let r := threadLoop t th th.prog.length (resume c.P t (stepSt c t th) k).1 (resume c.P t (stepSt c t th) k).2 th.pc
      th.pc < r.1.pc ∨ r.1.park = .finished ∨
        (opMeasure r.2.1.tree r.1.park < opMeasure c.tree th.park ∧ r.1.pc = th.pc ∧ parkNT r.1.park = true) := by
    intro k e1 e2
    have hk : KontOk c.tree k := by rw [← e1]; exact hks
    have hm := resume_meas c.P t (stepSt c t th) k hi hk
    have hnt := resume_nt c.P t (stepSt c t th) k
    simp only
    rcases threadLoop_progress t th th.prog.length (resume c.P t (stepSt c t th) k).1
      (resume c.P t (stepSt c t th) k).2 th.pc with h | ⟨hfl, hpc⟩
    · rcases h with h | h
      · exact Or.inl h
      · exact Or.inr (Or.inl h)
    · right; right
      refine ⟨?_, hpc, ?_⟩
      · rw [threadLoop_tree, e2]
        exact hm.park hfl
      · rw [hfl] at hnt
        exact hnt
  unfold runThread
  cases hpk : th.park with
  | start => exact absurd hpk hp
  | finished => exact absurd hpk hnf
  | want l k =>
    simp only
    have := key k (by rw [hpk]; rfl) (by rw [hpk]; rfl)
    rw [hpk] at this
    exact this
  | yielded k =>
    simp only
    have := key k (by rw [hpk]; rfl) (by rw [hpk]; rfl)
    rw [hpk] at this
    exact this

/-- **an own step either completes the current operation or strictly decreases the measure** -/
theorem own_step_progress (c c' : Config K V) (t : Nat) (hstep : c.step t = some c') (hinv : CInv c)
    (th th' : Thread K V) (ht : c.threads[t]? = some th) (ht' : c'.threads[t]? = some th')
    (hp : th.park ≠ .start) :
    th.pc < th'.pc ∨ th'.park = .finished ∨ opMeasure c'.tree th'.park < opMeasure c.tree th.park := by
  rcases own_step_cases c c' t hstep hinv th th' ht ht' hp with h | h | h
  · exact Or.inl h
  · exact Or.inr (Or.inl h)
  · exact Or.inr (Or.inr h.1)

/-- the very first park of an operation: the next own step acquires `rootMutex`, leaves the
    tree alone and parks at the root's mutex, within the same operation -/
theorem tree_park_leaves (c c' : Config K V) (t : Nat) (hstep : c.step t = some c') (hinv : CInv c)
    (th th' : Thread K V) (ht : c.threads[t]? = some th) (ht' : c'.threads[t]? = some th')
    (k : Kont K V) (hp : th.park = .want .tree k) :
    th'.pc = th.pc ∧ c'.tree = c.tree ∧ ∃ k', th'.park = .want (.node c.tree.rootId) k' := by
  obtain ⟨hen, hth', htree'⟩ := step_own hstep ht ht'
  have htm : th ∈ c.threads := List.mem_of_getElem? ht
  have hlock : kontLock k = some .tree := by
    have := (hinv.s.cfg th htm).2.2
    rw [hp] at this
    exact this
  rw [hth', htree']
  unfold runThread
  rw [hp]
  simp only
  cases k with
  | roTree sc key =>
    simp only [resume]
    cases th.prog.length <;> exact ⟨rfl, rfl, _, rfl⟩
  | upTree key f y =>
    simp only [resume]
    cases th.prog.length <;> exact ⟨rfl, rfl, _, rfl⟩
  | delTree key =>
    simp only [resume]
    cases th.prog.length <;> exact ⟨rfl, rfl, _, rfl⟩
  | _ => simp [kontLock] at hlock

/-! ### steps of other threads -/

/-- the measure of a continuation reads the tree only where the continuation's held mutexes
    protect it -/
theorem kMeasure_congr {T T' : Tree K V} (k : Kont K V) (hnt : kontLock k ≠ some Lk.tree)
    (hd : Lk.tree ∈ kontHeld k → T'.depth = T.depth)
    (hl : ∀ id, Lk.node id ∈ kontHeld k → T'.look id = T.look id) :
    kMeasure T' k = kMeasure T k := by
  cases k with
  | roTree sc key => simp [kontLock] at hnt
  | upTree key f y => simp [kontLock] at hnt
  | delTree key => simp [kontLock] at hnt
  | roNode sc key hold want =>
    cases hold with
    | tree =>
      show 3 * T'.depth + 5 = 3 * T.depth + 5
      rw [hd (by simp [kontHeld])]
    | node p =>
      show 3 * hgt T' p = 3 * hgt T p
      rw [hgt_congr (hl p (by simp [kontHeld]))]
  | upRoot key f y r =>
    show 3 * T'.depth + 5 = 3 * T.depth + 5
    rw [hd (by simp [kontHeld])]
  | upRootSib key f y root sib =>
    show 3 * hgt T' root + 4 = 3 * hgt T root + 4
    rw [hgt_congr (hl root (by simp [kontHeld]))]
  | upChild key f y parent index child =>
    show 3 * hgt T' parent = 3 * hgt T parent
    rw [hgt_congr (hl parent (by simp [kontHeld]))]
  | upSib key f y parent child sib =>
    show 3 * hgt T' child + 2 = 3 * hgt T child + 2
    rw [hgt_congr (hl child (by simp [kontHeld]))]
  | upCallback key f leaf arg => rfl
  | delRoot key r =>
    show 3 * T'.depth + 5 = 3 * T.depth + 5
    rw [hd (by simp [kontHeld])]
  | delLeft key frames node index left root =>
    show T'.depth + 2 + 2 * (T'.depth - frames.length) + 1 = T.depth + 2 + 2 * (T.depth - frames.length) + 1
    rw [hd (by simp [kontHeld])]
  | delChild key frames node index left child root =>
    show T'.depth + 2 + 2 * (T'.depth - frames.length) = T.depth + 2 + 2 * (T.depth - frames.length)
    rw [hd (by simp [kontHeld])]
  | delRight key rest fr right root => rfl
  | hop cur next => rfl
  | paused => rfl

/-- **steps of other threads leave a parked thread's measure unchanged** (at every park but
    the first one of an operation, where the thread waits for `rootMutex`) -/
theorem other_step_measure_eq (c c' : Config K V) (t j : Nat) (hstep : c.step t = some c') (hinv : CInv c)
    (b : Thread K V) (hj : c.threads[j]? = some b) (hne : j ≠ t)
    (hnt : parkWant b.park ≠ some Lk.tree) :
    opMeasure c'.tree b.park = opMeasure c.tree b.park := by
  obtain ⟨_, th, ht, hframe⟩ := step_cinv blocks_ok c c' t hstep hinv
  obtain ⟨th0, ht0, hen, _⟩ := step_shape hstep
  rw [ht] at ht0
  cases ht0
  have hS := hinv.s
  have hbm : b ∈ c.threads := List.mem_of_getElem? hj
  have hok := hS.cfg b hbm
  have hsok := hS.threads b hbm
  have hheld : ∀ l ∈ parkHeld b.park, l ∈ b.held :=
    fun l hl => parkHeld_sub_held hok l (List.mem_append_left _ hl)
  have hd : Lk.tree ∈ parkHeld b.park → c'.tree.depth = c.tree.depth :=
    fun h => (hframe.root (stepHeld_excl hS.owner ht hj hne hen (hheld _ h))).2
  have hl : ∀ id, Lk.node id ∈ parkHeld b.park → c'.tree.look id = c.tree.look id := by
    intro id h
    obtain ⟨sh, hsh⟩ := thread_present hS.tree.ids hS.tree.chain hok hsok id (Or.inl (hheld _ h))
    exact hframe.nodes id (look_lt_nextId hS.tree.ids hsh) (stepHeld_excl hS.owner ht hj hne hen (hheld _ h))
  have hlock := hok.2.2
  cases hp : b.park with
  | start => rfl
  | finished => rfl
  | want l k =>
    rw [hp] at hd hl hlock hnt
    have hlk : kontLock k = some l := hlock
    refine kMeasure_congr k ?_ hd hl
    rw [hlk]
    intro e
    apply hnt
    show some l = some Lk.tree
    exact e
  | yielded k =>
    rw [hp] at hd hl hlock
    have hlk : kontLock k = none := hlock
    refine kMeasure_congr k ?_ hd hl
    rw [hlk]
    intro e
    cases e

/-- steps of OTHER threads never increase a parked thread's measure -/
theorem other_step_measure (c c' : Config K V) (t j : Nat) (hstep : c.step t = some c') (hinv : CInv c)
    (b : Thread K V) (hj : c.threads[j]? = some b) (hne : j ≠ t)
    (hnt : parkWant b.park ≠ some Lk.tree) :
    opMeasure c'.tree b.park ≤ opMeasure c.tree b.park :=
  Nat.le_of_eq (other_step_measure_eq c c' t j hstep hinv b hj hne hnt)

/-! ### the bound -/

/-- the measure is bounded in terms of the depth of the tree -/
theorem opMeasure_le (c : Config K V) (hinv : CInv c) (th : Thread K V) (hth : th ∈ c.threads) :
    opMeasure c.tree th.park ≤ 3 * c.tree.depth + 6 := by
  have hi := hinv.s.tree.ids
  have hks := (hinv.s.threads th hth).1
  have key : ∀ k, KontOk c.tree k → kMeasure c.tree k ≤ 3 * c.tree.depth + 6 := by
    intro k hk
    cases k with
    | roTree sc key => exact Nat.le_refl _
    | upTree key f y => exact Nat.le_refl _
    | delTree key => exact Nat.le_refl _
    | roNode sc key hold want =>
      cases hold with
      | tree => show 3 * c.tree.depth + 5 ≤ _; omega
      | node p =>
        have := hgt_le_depth c.tree p
        show 3 * hgt c.tree p ≤ _
        omega
    | upRoot key f y r => show 3 * c.tree.depth + 5 ≤ _; omega
    | upRootSib key f y root sib =>
      have := hgt_le_depth c.tree root
      show 3 * hgt c.tree root + 4 ≤ _
      omega
    | upChild key f y parent index child =>
      have := hgt_le_depth c.tree parent
      show 3 * hgt c.tree parent ≤ _
      omega
    | upSib key f y parent child sib =>
      have := hgt_le_depth c.tree child
      show 3 * hgt c.tree child + 2 ≤ _
      omega
    | upCallback key f leaf arg => exact Nat.zero_le _
    | delRoot key r => show 3 * c.tree.depth + 5 ≤ _; omega
    | delLeft key frames node index left root =>
      show c.tree.depth + 2 + 2 * (c.tree.depth - frames.length) + 1 ≤ _
      omega
    | delChild key frames node index left child root =>
      show c.tree.depth + 2 + 2 * (c.tree.depth - frames.length) ≤ _
      omega
    | delRight key rest fr right root =>
      obtain ⟨hr, ⟨_, _, hrest⟩, _, _⟩ := hk
      subst hr
      have := frames_len hi rest fr.node hrest
      show rest.length + 1 ≤ _
      omega
    | hop cur next => exact Nat.zero_le _
    | paused => exact Nat.zero_le _
  cases hp : th.park with
  | start => exact Nat.zero_le _
  | finished => exact Nat.zero_le _
  | want l k => rw [hp] at hks; exact key k hks
  | yielded k => rw [hp] at hks; exact key k hks

/-! ### along a schedule -/

/-- one step, seen from an arbitrary thread that has started: its `pc` never decreases,
    `.finished` is final, it never returns to `.start` -/
theorem step_thread (c c' : Config K V) (t : Nat) (hstep : c.step t = some c') (j : Nat) (b : Thread K V)
    (hj : c.threads[j]? = some b) (hns : b.park ≠ .start) :
    ∃ b', c'.threads[j]? = some b' ∧ b.pc ≤ b'.pc ∧ (b.park = .finished → b'.park = .finished) ∧
      b'.park ≠ .start ∧ (j ≠ t → b' = b) := by
  obtain ⟨th, ht, hen, r, hr, hc'⟩ := step_shape hstep
  have hths' : c'.threads = c.threads.set t r.1 := by rw [hc']
  by_cases e : j = t
  · subst e
    rw [hj] at ht
    cases ht
    have hnf := enabled_not_finished hen
    have hnew : c'.threads[j]? = some r.1 := by
      rw [hths', List.getElem?_set_self']; rw [hj]; rfl
    refine ⟨r.1, hnew, ?_, fun h => absurd h hnf, ?_, fun h => absurd rfl h⟩
    · rw [hr]
      unfold runThread
      cases hpk : b.park with
      | start => exact absurd hpk hns
      | finished => exact absurd hpk hnf
      | want l k => exact threadLoop_pc_le j b _ _ _ _
      | yielded k => exact threadLoop_pc_le j b _ _ _ _
    · have live_ne : ∀ p : Park K V, p.live → p ≠ .start := by
        intro p hp e; rw [e] at hp; exact hp
      have fin : ∀ (s : St K V) (k : Kont K V),
          (threadLoop j b b.prog.length (resume c.P j s k).1 (resume c.P j s k).2 b.pc).1.park ≠ .start := by
        intro s k
        rcases threadLoop_park_src j b b.prog.length (resume c.P j s k).1 (resume c.P j s k).2 b.pc with h | h | ⟨s1, op, h⟩
        · exact live_ne _ (resume_park_live c.P j s k _ h)
        · rw [h]; intro e; cases e
        · exact live_ne _ (startOp_park_live j s1 op _ h)
      rw [hr]
      unfold runThread
      cases hpk : b.park with
      | start => exact absurd hpk hns
      | finished => exact absurd hpk hnf
      | want l k => exact fin _ k
      | yielded k => exact fin _ k
  · refine ⟨b, ?_, Nat.le_refl _, id, hns, fun _ => rfl⟩
    rw [hths', List.getElem?_set_ne (Ne.symm e)]
    exact hj

/-- the same along a whole schedule -/
theorem run_thread (j : Nat) : ∀ (ts : List Nat) (c c' : Config K V), c.run ts = (c', none) →
    ∀ b, c.threads[j]? = some b → b.park ≠ .start →
      ∃ b', c'.threads[j]? = some b' ∧ b.pc ≤ b'.pc ∧ (b.park = .finished → b'.park = .finished) := by
  intro ts
  induction ts with
  | nil =>
    intro c c' hrun b hj _
    have : c' = c := by
      have := congrArg Prod.fst hrun
      exact this.symm
    subst this
    exact ⟨b, hj, Nat.le_refl _, id⟩
  | cons t ts ih =>
    intro c c' hrun b hj hns
    unfold Config.run at hrun
    cases hs : c.step t with
    | none => rw [hs] at hrun; cases hrun
    | some c1 =>
      rw [hs] at hrun
      obtain ⟨b1, hj1, hpc1, hfin1, hns1, _⟩ := step_thread c c1 t hs j b hj hns
      obtain ⟨b', hj', hpc', hfin'⟩ := ih c1 c' hrun b1 hj1 hns1
      exact ⟨b', hj', Nat.le_trans hpc1 hpc', fun h => hfin' (hfin1 h)⟩

/-- **an operation takes boundedly many own steps.**  Along every schedule from a configuration
    satisfying the invariant, as long as thread `j` (past its acquisition of `rootMutex`) is
    still inside the same operation, the number of its own steps so far plus its current
    measure is at most its initial measure. -/
theorem own_steps_bounded (j : Nat) : ∀ (ts : List Nat) (c c' : Config K V), CInv c → c.run ts = (c', none) →
    ∀ b b', c.threads[j]? = some b → c'.threads[j]? = some b' →
      parkWant b.park ≠ some Lk.tree → b.park ≠ .start →
      b'.pc = b.pc → b'.park ≠ .finished →
      ts.count j + opMeasure c'.tree b'.park ≤ opMeasure c.tree b.park := by
  intro ts
  induction ts with
  | nil =>
    intro c c' _ hrun b b' hj hj' _ _ _ _
    have : c' = c := by
      have := congrArg Prod.fst hrun
      exact this.symm
    subst this
    rw [hj] at hj'
    cases hj'
    simp
  | cons t ts ih =>
    intro c c' hinv hrun b b' hj hj' hnt hns hpc hnf
    unfold Config.run at hrun
    cases hs : c.step t with
    | none => rw [hs] at hrun; cases hrun
    | some c1 =>
      rw [hs] at hrun
      have hinv1 := (step_cinv blocks_ok c c1 t hs hinv).1
      obtain ⟨b1, hj1, hpc1, _, hns1, hsame⟩ := step_thread c c1 t hs j b hj hns
      obtain ⟨b2, hj2, hpc2, hfin2⟩ := run_thread j ts c1 c' hrun b1 hj1 hns1
      rw [hj'] at hj2
      cases hj2
      by_cases e : j = t
      · subst e
        rcases own_step_cases c c1 j hs hinv b b1 hj hj1 hns with h | h | ⟨hlt, hpceq, hnt1⟩
        · omega
        · exact absurd (hfin2 h) hnf
        · obtain ⟨hnt1', hns1', _⟩ := parkNT_spec hnt1
          have := ih c1 c' hinv1 hrun b1 b' hj1 hj' hnt1' hns1' (by omega) hnf
          simp only [List.count_cons_self]
          omega
      · have hb1 : b1 = b := hsame e
        subst hb1
        have heq := other_step_measure_eq c c1 t j hs hinv b1 hj e hnt
        have := ih c1 c' hinv1 hrun b1 b' hj1 hj' hnt hns hpc hnf
        rw [List.count_cons_of_ne (Ne.symm e)]
        omega

/-- in terms of the depth: past the acquisition of `rootMutex`, an operation takes at most
    `3 * depth + 6` further own steps -/
theorem own_steps_le (j : Nat) (ts : List Nat) (c c' : Config K V) (hinv : CInv c) (hrun : c.run ts = (c', none))
    (b b' : Thread K V) (hj : c.threads[j]? = some b) (hj' : c'.threads[j]? = some b')
    (hnt : parkWant b.park ≠ some Lk.tree) (hns : b.park ≠ .start)
    (hpc : b'.pc = b.pc) (hnf : b'.park ≠ .finished) :
    ts.count j ≤ 3 * c.tree.depth + 6 := by
  have h1 := own_steps_bounded j ts c c' hinv hrun b b' hj hj' hnt hns hpc hnf
  have h2 := opMeasure_le c hinv b (List.mem_of_getElem? hj)
  omega

end Gobptree.Conc


#print axioms Gobptree.Conc.own_step_cases
#print axioms Gobptree.Conc.own_step_progress
#print axioms Gobptree.Conc.tree_park_leaves
#print axioms Gobptree.Conc.other_step_measure_eq
#print axioms Gobptree.Conc.other_step_measure
#print axioms Gobptree.Conc.opMeasure_le
#print axioms Gobptree.Conc.own_steps_bounded
#print axioms Gobptree.Conc.own_steps_le
