/-
  Key-order zoom machinery, part 1: the parallel-lengths predicate `ParN`, the interval
  `boundsOf` the tree assigns to an identity, decomposition of an inner node at a kid
  (by `findNode`, and by the routing index), and key bounds of `pairs` under `Ord`.
-/
import Gobptree.Proofs.CKDefs

namespace Gobptree.Conc
open Gobptree

variable {K V : Type} {lt : K → K → Bool}

/-! ### parallel lengths -/

/-- every inner node has as many separators as kids, and at least one -/
def ParN : (d : Nat) → Node K V d → Prop
  | 0, _ => True
  | d + 1, (i : Inner K (Node K V d)) =>
    i.runts.length = i.kids.length ∧ 1 ≤ i.runts.length ∧ ∀ c ∈ i.kids, ParN d c

def ParTree (t : Tree K V) : Prop := ParN t.depth t.root

theorem Par_zero (l : Leaf K V) : ParN (K := K) (V := V) 0 l := trivial

theorem Par_succ {d : Nat} (i : Inner K (Node K V d)) :
    ParN (d + 1) i ↔ i.runts.length = i.kids.length ∧ 1 ≤ i.runts.length ∧ ∀ c ∈ i.kids, ParN d c := Iff.rfl

theorem Ord_zero (lo hi : Option K) (l : Leaf K V) :
    Ord lt 0 lo hi l ↔ Sorted lt l.keys ∧ ∀ k ∈ l.keys, leO lt lo k ∧ ltO lt k hi := Iff.rfl

theorem Ord_succ {d : Nat} (lo hi : Option K) (i : Inner K (Node K V d)) :
    Ord lt (d + 1) lo hi i ↔
      (∀ k, i.runts.head? = some k → leO lt lo k) ∧
      Kids lt (fun a b c => Ord lt d a b c) hi (i.runts.zip i.kids) := Iff.rfl

/-! ### identities below a node -/

/-- the identities of a subtree, pre-order -/
def idsOf {d : Nat} (n : Node K V d) : List Nat := (flat n).map Prod.fst

theorem idsOf_zero (l : Leaf K V) : idsOf (d := 0) l = [l.id] := rfl

theorem idsOf_succ {d : Nat} (i : Inner K (Node K V d)) :
    idsOf (d := d + 1) i = i.id :: i.kids.flatMap (idsOf (d := d)) := by
  show (flat (d := d + 1) i).map Prod.fst = _
  rw [flat_succ (d := d) i, List.map_cons, List.map_flatMap]
  rfl

theorem id_mem_idsOf {d : Nat} (n : Node K V d) : Node.id n ∈ idsOf n := id_mem_flat n

theorem findNode_none' (id : Nat) {d : Nat} (n : Node K V d) : findNode id d n = none ↔ id ∉ idsOf n :=
  findNode_none id d n

theorem findNode_some_mem {id d d' : Nat} {n : Node K V d} {m : Node K V d'}
    (h : findNode id d n = some ⟨d', m⟩) : id ∈ idsOf n := by
  apply Classical.byContradiction
  intro hc
  rw [(findNode_none' id n).2 hc] at h
  cases h

theorem findNode_id {id d d' : Nat} {n : Node K V d} {m : Node K V d'}
    (h : findNode id d n = some ⟨d', m⟩) : Node.id m = id :=
  (find_modify_flat id d n d' m h).1

/-- distinct identities below an inner node, seen from one of its kids -/
theorem nodup_kid {d : Nat} (i : Inner K (Node K V d)) (A B : List (Node K V d)) (c : Node K V d)
    (hk : i.kids = A ++ c :: B) (hnd : (idsOf (d := d + 1) i).Nodup) :
    (idsOf c).Nodup ∧ ∀ x ∈ idsOf c, x ≠ i.id ∧ (∀ a ∈ A, x ∉ idsOf a) ∧ (∀ b ∈ B, x ∉ idsOf b) := by
  rw [idsOf_succ, hk, List.flatMap_append, List.flatMap_cons, List.nodup_cons] at hnd
  obtain ⟨h0, h1⟩ := hnd
  rw [List.nodup_append] at h1
  obtain ⟨_, h2, h3⟩ := h1
  rw [List.nodup_append] at h2
  obtain ⟨h4, _, h5⟩ := h2
  refine ⟨h4, ?_⟩
  intro x hx
  refine ⟨?_, ?_, ?_⟩
  · intro e
    apply h0
    rw [← e]
    simp only [List.mem_append]
    exact Or.inr (Or.inl hx)
  · intro a ha hxa
    exact h3 x (List.mem_flatMap.2 ⟨a, ha, hxa⟩) x (List.mem_append.2 (Or.inl hx)) rfl
  · intro b hb hxb
    exact h5 x hx x (List.mem_flatMap.2 ⟨b, hb, hxb⟩) rfl

/-! ### `modifyNode` / `findNode` one level down -/

theorem modifyNode_succ_ne (id : Nat) (f : (d : Nat) → Node K V d → Node K V d) {d : Nat}
    (i : Inner K (Node K V d)) (hne : i.id ≠ id) :
    modifyNode id f (d + 1) i =
      (Inner.mk i.id i.runts (i.kids.map (modifyNode id f d)) : Inner K (Node K V d)) := by
  show (if i.id = id then f (d + 1) i
        else ({ i with kids := i.kids.map (modifyNode id f d) } : Inner K (Node K V d))) = _
  simp only [hne, ↓reduceIte]
  rfl

theorem modifyNode_succ_eq (id : Nat) (f : (d : Nat) → Node K V d → Node K V d) {d : Nat}
    (i : Inner K (Node K V d)) (he : i.id = id) :
    modifyNode id f (d + 1) i = f (d + 1) i := by
  show (if i.id = id then f (d + 1) i
        else ({ i with kids := i.kids.map (modifyNode id f d) } : Inner K (Node K V d))) = _
  simp only [he, ↓reduceIte]

theorem modifyNode_zero_eq (id : Nat) (f : (d : Nat) → Node K V d → Node K V d)
    (l : Leaf K V) (he : l.id = id) : modifyNode id f 0 l = f 0 l := by
  show (if l.id = id then f 0 l else l) = _
  simp only [he, ↓reduceIte]

theorem map_modify_absent (id : Nat) (f : (d : Nat) → Node K V d → Node K V d) {d : Nat}
    (A : List (Node K V d)) (hA : ∀ a ∈ A, id ∉ idsOf a) : A.map (modifyNode id f d) = A := by
  conv => rhs; rw [← List.map_id A]
  apply List.map_congr_left
  intro a ha
  exact modifyNode_absent id f d a (hA a ha)

/-- rewriting below an inner node with another identity rewrites inside the one kid that
    holds the identity -/
theorem modifyNode_kid (id : Nat) (f : (d : Nat) → Node K V d → Node K V d) {d : Nat}
    (i : Inner K (Node K V d)) (A B : List (Node K V d)) (c : Node K V d)
    (hne : i.id ≠ id) (hk : i.kids = A ++ c :: B)
    (hA : ∀ a ∈ A, id ∉ idsOf a) (hB : ∀ b ∈ B, id ∉ idsOf b) :
    modifyNode id f (d + 1) i =
      (Inner.mk i.id i.runts (A ++ modifyNode id f d c :: B) : Inner K (Node K V d)) := by
  rw [modifyNode_succ_ne id f i hne, hk, List.map_append, List.map_cons,
    map_modify_absent id f A hA, map_modify_absent id f B hB]

theorem findNode_succ_ne (id : Nat) {d : Nat} (i : Inner K (Node K V d)) (hne : i.id ≠ id) :
    findNode id (d + 1) i = i.kids.findSome? (findNode id d) := by
  show (if i.id = id then some (⟨d + 1, i⟩ : AnyNode K V) else i.kids.findSome? (findNode id d)) = _
  simp only [hne, ↓reduceIte]

/-- lists split in parallel -/
theorem split_parallel {α β : Type} (r : List α) (A B : List β) (c : β) (hlen : r.length = (A ++ c :: B).length) :
    ∃ rA k rB, r = rA ++ k :: rB ∧ rA.length = A.length ∧ rB.length = B.length := by
  have hA : A.length < r.length := by rw [hlen]; simp
  refine ⟨r.take A.length, r[A.length], r.drop (A.length + 1), self_form r _ hA, length_take_of_lt r _ hA, ?_⟩
  rw [List.length_drop, hlen]; simp; omega

/-- the decomposition of an inner node at the kid that holds identity `id` -/
theorem find_step (id : Nat) {d d' : Nat} (i : Inner K (Node K V d)) {m : Node K V d'}
    (hf : findNode id (d + 1) i = some ⟨d', m⟩) (hne : i.id ≠ id)
    (hnd : (idsOf (d := d + 1) i).Nodup) (hpar : ParN (d + 1) i) :
    ∃ (rA : List K) (k : K) (rB : List K) (A : List (Node K V d)) (c : Node K V d) (B : List (Node K V d)),
      i.runts = rA ++ k :: rB ∧ i.kids = A ++ c :: B ∧ rA.length = A.length ∧ rB.length = B.length ∧
      findNode id d c = some ⟨d', m⟩ ∧ (idsOf c).Nodup ∧ ParN d c ∧
      (∀ a ∈ A, id ∉ idsOf a) ∧ (∀ b ∈ B, id ∉ idsOf b) ∧ (∀ a ∈ A, ParN d a) ∧ (∀ b ∈ B, ParN d b) := by
  rw [findNode_succ_ne id i hne] at hf
  obtain ⟨A, c, B, hk, hc, hA⟩ := findSome?_split _ _ _ hf
  obtain ⟨hlen, _, hkids⟩ := hpar
  obtain ⟨rA, k, rB, hr, hlA, hlB⟩ := split_parallel i.runts A B c (by rw [hlen, hk])
  obtain ⟨hndc, hx⟩ := nodup_kid i A B c hk hnd
  have hidc : id ∈ idsOf c := findNode_some_mem hc
  refine ⟨rA, k, rB, A, c, B, hr, hk, hlA, hlB, hc, hndc, hkids c (by rw [hk]; simp), ?_, ?_, ?_, ?_⟩
  · exact fun a ha => (findNode_none' id a).1 (hA a ha)
  · exact (hx id hidc).2.2
  · exact fun a ha => hkids a (by rw [hk]; simp [ha])
  · exact fun b hb => hkids b (by rw [hk]; simp [hb])

/-- parallel lengths are inherited by the node found under an identity -/
theorem ParN_find (id : Nat) : ∀ (d : Nat) (n : Node K V d) (d' : Nat) (m : Node K V d'),
    findNode id d n = some ⟨d', m⟩ → ParN d n → ParN d' m := by
  intro d
  induction d with
  | zero =>
    intro (n : Leaf K V) d' m hf hpar
    have hf' : (if n.id = id then some (⟨0, n⟩ : AnyNode K V) else none) = some ⟨d', m⟩ := hf
    by_cases hid : n.id = id
    · simp only [hid, if_true, Option.some.injEq] at hf'
      cases hf'
      exact hpar
    · simp [hid] at hf'
  | succ d ih =>
    intro (n : Inner K (Node K V d)) d' m hf hpar
    by_cases hid : n.id = id
    · have hf' : (if n.id = id then some (⟨d + 1, n⟩ : AnyNode K V)
          else n.kids.findSome? (findNode id d)) = some ⟨d', m⟩ := hf
      simp only [hid, if_true, Option.some.injEq] at hf'
      cases hf'
      exact hpar
    · rw [findNode_succ_ne id n hid] at hf
      obtain ⟨A, c, B, hk, hc, _⟩ := findSome?_split _ _ _ hf
      exact ih c d' m hc (hpar.2.2 c (by rw [hk]; simp))

/-! ### zipped entries at a decomposition -/

theorem zip_decomp {α β : Type} (rA rB : List α) (k : α) (A B : List β) (c : β) (hl : rA.length = A.length) :
    (rA ++ k :: rB).zip (A ++ c :: B) = rA.zip A ++ (k, c) :: rB.zip B := by
  rw [zip_surgery _ _ _ _ hl, List.zip_cons_cons]

theorem hiAt_decomp {C : Type} (rA rB : List K) (k : K) (B : List C) (hi : Option K)
    (hlB : rB.length = B.length) :
    hiAt (rA ++ k :: rB) rA.length hi = nextLo hi (rB.zip B) := by
  unfold hiAt
  cases rB with
  | nil =>
    have : B = [] := List.eq_nil_of_length_eq_zero (by simpa using hlB.symm)
    subst this
    simp [nextLo]
  | cons s rB =>
    cases B with
    | nil => simp at hlB
    | cons b B =>
      have : (rA ++ k :: s :: rB)[rA.length + 1]? = some s := form_getElem_next rA rB k s
      rw [this]
      rfl

/-- `Kids` at a decomposition -/
theorem Kids_decomp {C : Type} {R : Option K → Option K → C → Prop} (hi : Option K)
    (rA rB : List K) (k : K) (A B : List C) (c : C) (hl : rA.length = A.length) :
    Kids lt R hi ((rA ++ k :: rB).zip (A ++ c :: B)) ↔
      Kids lt R (some k) (rA.zip A) ∧ R (some k) (nextLo hi (rB.zip B)) c ∧
      ltO lt k (nextLo hi (rB.zip B)) ∧ Kids lt R hi (rB.zip B) := by
  rw [zip_decomp _ _ _ _ _ _ hl, Kids_append, Kids_cons]
  rfl

/-! ### the interval of an identity -/

/-- first success over the entries of an inner node, each kid seen with its interval -/
def firstE {C β : Type} (g : Option K → Option K → C → Option β) (hi : Option K) : List (K × C) → Option β
  | [] => none
  | (k, c) :: rest =>
    match g (some k) (nextLo hi rest) c with
    | some b => some b
    | none => firstE g hi rest

/-- the interval the tree assigns to the node with identity `id` -/
def boundsOf (id : Nat) : (d : Nat) → Option K → Option K → Node K V d → Option (Option K × Option K)
  | 0, lo, hi, (l : Leaf K V) => if l.id = id then some (lo, hi) else none
  | d + 1, lo, hi, (i : Inner K (Node K V d)) =>
    if i.id = id then some (lo, hi) else firstE (boundsOf id d) hi (i.runts.zip i.kids)

def _root_.Gobptree.Tree.boundsOf (t : Tree K V) (id : Nat) : Option (Option K × Option K) :=
  Conc.boundsOf id t.depth none none t.root

theorem firstE_append {C β : Type} (g : Option K → Option K → C → Option β) (hi : Option K)
    (l r : List (K × C)) (hl : ∀ e ∈ l, ∀ a b, g a b e.2 = none) :
    firstE g hi (l ++ r) = firstE g hi r := by
  induction l with
  | nil => rfl
  | cons e l ih =>
    obtain ⟨k, c⟩ := e
    simp only [List.cons_append, firstE]
    rw [hl (k, c) (by simp)]
    exact ih (fun e he => hl e (by simp [he]))

theorem boundsOf_absent (id : Nat) : ∀ (d : Nat) (lo hi : Option K) (n : Node K V d),
    id ∉ idsOf n → boundsOf id d lo hi n = none := by
  intro d
  induction d with
  | zero =>
    intro lo hi n h
    have : (n : Leaf K V).id ≠ id := by
      intro e; apply h; rw [idsOf_zero n]; exact List.mem_singleton.2 e.symm
    show (if (n : Leaf K V).id = id then some (lo, hi) else none) = none
    simp [this]
  | succ d ih =>
    intro lo hi n h
    rw [idsOf_succ n] at h
    simp only [List.mem_cons, not_or] at h
    have h1 : (n : Inner K (Node K V d)).id ≠ id := fun e => h.1 e.symm
    show (if (n : Inner K (Node K V d)).id = id then some (lo, hi)
      else firstE (boundsOf id d) hi ((n : Inner K (Node K V d)).runts.zip (n : Inner K (Node K V d)).kids)) = none
    simp only [h1, ↓reduceIte]
    have := firstE_append (boundsOf id d) hi ((n : Inner K (Node K V d)).runts.zip (n : Inner K (Node K V d)).kids) [] ?_
    · rw [List.append_nil] at this; rw [this]; rfl
    · intro e he a b
      apply ih
      intro hm
      apply h.2
      exact List.mem_flatMap.2 ⟨e.2, (List.of_mem_zip he).2, hm⟩

theorem boundsOf_succ_eq (id : Nat) {d : Nat} (lo hi : Option K) (i : Inner K (Node K V d)) (he : i.id = id) :
    boundsOf id (d + 1) lo hi i = some (lo, hi) := by
  show (if i.id = id then some (lo, hi) else firstE (boundsOf id d) hi (i.runts.zip i.kids)) = _
  simp only [he, ↓reduceIte]

theorem boundsOf_zero_eq (id : Nat) (lo hi : Option K) (l : Leaf K V) (he : l.id = id) :
    boundsOf (V := V) id 0 lo hi l = some (lo, hi) := by
  show (if l.id = id then some (lo, hi) else none) = _
  simp only [he, ↓reduceIte]

/-- `boundsOf` one level down, at the kid that holds the identity -/
theorem boundsOf_kid (id : Nat) {d : Nat} (lo hi : Option K) (i : Inner K (Node K V d))
    (rA rB : List K) (k : K) (A B : List (Node K V d)) (c : Node K V d) (bd : Option K × Option K)
    (hne : i.id ≠ id) (hr : i.runts = rA ++ k :: rB) (hk : i.kids = A ++ c :: B) (hl : rA.length = A.length)
    (hA : ∀ a ∈ A, id ∉ idsOf a) (hc : boundsOf id d (some k) (nextLo hi (rB.zip B)) c = some bd) :
    boundsOf id (d + 1) lo hi i = some bd := by
  show (if i.id = id then some (lo, hi) else firstE (boundsOf id d) hi (i.runts.zip i.kids)) = _
  simp only [hne, ↓reduceIte]
  rw [hr, hk, zip_decomp _ _ _ _ _ _ hl, firstE_append]
  · simp only [firstE, hc]
  · intro e he a b
    exact boundsOf_absent id d a b e.2 (hA e.2 (List.of_mem_zip he).2)

end Gobptree.Conc
