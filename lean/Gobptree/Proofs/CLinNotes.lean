/-
  Event lemmas for the linearizability proof: which `note` events the blocks of the
  small-step model append to the log, and that the code of a block does not depend on the
  log it appends to.
-/
import Gobptree.Proofs.CLDefs

namespace Gobptree.Conc
open Gobptree

variable {K V : Type}

/-! ### the extraction, one event at a time -/

/-- history extraction from a log kept newest first -/
def hx (progs : Nat → List (COp K V)) (evs : List (Ev K V)) : HxSt K V :=
  evs.reverse.foldl (hxStep progs) ⟨[], fun _ => none⟩

theorem hx_cons (progs : Nat → List (COp K V)) (e : Ev K V) (evs : List (Ev K V)) :
    hx progs (e :: evs) = hxStep progs (hx progs evs) e := by
  simp [hx, List.foldl_append]

theorem hxRun_eq (c : Config K V) : hxRun c = hx (progOf c) c.log := rfl

/-- events that leave no trace in the history except possibly a callback note of thread `t` -/
def quietB (t : Nat) : Ev K V → Bool
  | .note t' (.cb _) => decide (t' = t)
  | .note _ _ => false
  | _ => true

/-- events that leave no trace at all -/
def silentB : Ev K V → Bool
  | .note _ _ => false
  | _ => true

/-- the argument of the newest callback note of thread `t` -/
def lastCb (t : Nat) : List (Ev K V) → Option (Option V)
  | [] => none
  | .note t' (.cb a) :: rest => if t' = t then some a else lastCb t rest
  | _ :: rest => lastCb t rest

theorem lastCb_mem (t : Nat) : ∀ (new : List (Ev K V)) (a : Option V), lastCb t new = some a → Ev.note t (.cb a) ∈ new := by
  intro new
  induction new with
  | nil => intro a h; cases h
  | cons e rest ih =>
    intro a h
    cases e with
    | note t' n =>
      cases n with
      | cb a' =>
        simp only [lastCb] at h
        split at h
        · rename_i e; cases h; subst e; exact List.mem_cons_self
        · exact List.mem_cons_of_mem _ (ih a h)
      | inv i => exact List.mem_cons_of_mem _ (ih a h)
      | ret i r => exact List.mem_cons_of_mem _ (ih a h)
    | acq t' l => exact List.mem_cons_of_mem _ (ih a h)
    | rel t' l => exact List.mem_cons_of_mem _ (ih a h)
    | dec t' l => exact List.mem_cons_of_mem _ (ih a h)

theorem lastCb_append (t : Nat) (new pre : List (Ev K V)) :
    lastCb t (new ++ pre) = match lastCb t new with | some a => some a | none => lastCb t pre := by
  induction new with
  | nil => simp [lastCb]
  | cons e rest ih =>
    cases e with
    | note t' n =>
      cases n with
      | cb a' =>
        simp only [List.cons_append, lastCb]
        split
        · rfl
        · exact ih
      | inv i => exact ih
      | ret i r => exact ih
    | acq t' l => exact ih
    | rel t' l => exact ih
    | dec t' l => exact ih

/-- a stretch of quiet events: the history is unchanged, the other threads' last callback
    arguments are unchanged, the thread's own is the newest one of the stretch, if any -/
theorem hx_quiet (progs : Nat → List (COp K V)) (t : Nat) (evs : List (Ev K V)) :
    ∀ (new : List (Ev K V)), new.all (quietB t) = true →
      (hx progs (new ++ evs)).evs = (hx progs evs).evs ∧
      (∀ t', t' ≠ t → (hx progs (new ++ evs)).cb t' = (hx progs evs).cb t') ∧
      (hx progs (new ++ evs)).cb t = (match lastCb t new with | some a => some a | none => (hx progs evs).cb t) := by
  intro new
  induction new with
  | nil => intro _; exact ⟨rfl, fun _ _ => rfl, rfl⟩
  | cons e rest ih =>
    intro hq
    simp only [List.all_cons, Bool.and_eq_true] at hq
    obtain ⟨h1, h2, h3⟩ := ih hq.2
    rw [List.cons_append, hx_cons]
    cases e with
    | note t' n =>
      cases n with
      | cb a' =>
        have e : t' = t := by simpa [quietB] using hq.1
        subst e
        refine ⟨h1, ?_, ?_⟩
        · intro t'' hne
          simp only [hxStep, if_neg hne]
          exact h2 t'' hne
        · simp [hxStep, lastCb]
      | inv i => simp [quietB] at hq
      | ret i r => simp [quietB] at hq
    | acq t' l => exact ⟨h1, h2, h3⟩
    | rel t' l => exact ⟨h1, h2, h3⟩
    | dec t' l => exact ⟨h1, h2, h3⟩

theorem hx_silent (progs : Nat → List (COp K V)) (evs : List (Ev K V)) :
    ∀ (new : List (Ev K V)), new.all silentB = true → hx progs (new ++ evs) = hx progs evs := by
  intro new
  induction new with
  | nil => intro _; rfl
  | cons e rest ih =>
    intro hq
    simp only [List.all_cons, Bool.and_eq_true] at hq
    rw [List.cons_append, hx_cons, ih hq.2]
    cases e with
    | note t' n => simp [silentB] at hq
    | acq t' l => rfl
    | rel t' l => rfl
    | dec t' l => rfl

/-! ### the code of a block does not read the log -/

def St.addEvs (s : St K V) (es : List (Ev K V)) : St K V := { s with evs := s.evs ++ es }

@[simp] theorem addEvs_tree (s : St K V) (es : List (Ev K V)) : (s.addEvs es).tree = s.tree := rfl
@[simp] theorem addEvs_cursor (s : St K V) (es : List (Ev K V)) : (s.addEvs es).cursor = s.cursor := rfl
@[simp] theorem addEvs_evs (s : St K V) (es : List (Ev K V)) : (s.addEvs es).evs = s.evs ++ es := rfl
theorem addEvs_acq (s : St K V) (es : List (Ev K V)) (t : Nat) (l : Lk) : (s.addEvs es).acq t l = (s.acq t l).addEvs es := rfl
theorem addEvs_rel (s : St K V) (es : List (Ev K V)) (t : Nat) (l : Lk) : (s.addEvs es).rel t l = (s.rel t l).addEvs es := rfl
theorem addEvs_note (s : St K V) (es : List (Ev K V)) (t : Nat) (n : Note K V) : (s.addEvs es).note t n = (s.note t n).addEvs es := rfl

/-- the result of a block run on a longer log -/
def addR (r : St K V × Flow K V) (es : List (Ev K V)) : St K V × Flow K V := (r.1.addEvs es, r.2)

theorem roArrive_addEvs (P : Params K) (t : Nat) (s : St K V) (es : List (Ev K V)) (sc : Bool) (key : K) (hold : Lk) (n : Nat) :
    roArrive P t (s.addEvs es) sc key hold n = addR (roArrive P t s sc key hold n) es := by
  unfold roArrive
  simp only [addEvs_rel, addEvs_tree]
  split
  · rfl
  · split
    · split
      · rfl
      · split
        · rfl
        · rfl
    · split
      · rfl
      · split <;> rfl

theorem upLeaf_addEvs (P : Params K) (t : Nat) (s : St K V) (es : List (Ev K V)) (key : K) (f : Option V → V)
    (y : Option Bool) (n : Nat) (l : Leaf K V) :
    upLeaf P t (s.addEvs es) key f y n l = addR (upLeaf P t s key f y n l) es := by
  unfold upLeaf
  split
  · rfl
  · split
    · rfl
    · rfl
    · rfl

theorem upContinue_addEvs (P : Params K) (t : Nat) (s s2 : St K V) (es : List (Ev K V)) (key : K) (f : Option V → V)
    (y : Option Bool) (n : Nat) (h2 : s2 = s.addEvs es) :
    upContinue P t s2 key f y n = addR (upContinue P t s key f y n) es := by
  subst h2
  unfold upContinue
  simp only [addEvs_tree]
  split
  · rfl
  · split
    · exact upLeaf_addEvs P t s es key f y n _
    · split
      · rfl
      · split <;> rfl

theorem upChildArrive_addEvs (P : Params K) (t : Nat) (s : St K V) (es : List (Ev K V)) (key : K) (f : Option V → V)
    (y : Option Bool) (parent index child : Nat) :
    upChildArrive P t (s.addEvs es) key f y parent index child = addR (upChildArrive P t s key f y parent index child) es := by
  unfold upChildArrive
  simp only [addEvs_tree]
  split
  · split
    · rfl
    · split
      · rfl
      · split
        · rfl
        · exact upContinue_addEvs P t _ _ es key f y child rfl
        · split
          · split
            · rfl
            · exact upContinue_addEvs P t _ _ es key f y child rfl
          · rfl
  · rfl

theorem upRootArrive_addEvs (P : Params K) (t : Nat) (s : St K V) (es : List (Ev K V)) (key : K) (f : Option V → V)
    (y : Option Bool) (root : Nat) :
    upRootArrive P t (s.addEvs es) key f y root = addR (upRootArrive P t s key f y root) es := by
  unfold upRootArrive
  simp only [addEvs_tree]
  split
  · rfl
  · exact upContinue_addEvs P t _ _ es key f y root rfl
  · split
    · split
      · rfl
      · exact upContinue_addEvs P t _ _ es key f y root rfl
    · rfl

/-! #### Delete -/

theorem relOpt_addEvs (t : Nat) (s : St K V) (es : List (Ev K V)) (o : Option Nat) :
    relOpt t (s.addEvs es) o = (relOpt t s o).addEvs es := by
  cases o <;> rfl

theorem frameUnlock_addEvs (t : Nat) (s : St K V) (es : List (Ev K V)) (fr : Frame) (right : Option Nat) :
    frameUnlock t (s.addEvs es) fr right = (frameUnlock t s fr right).addEvs es := by
  unfold frameUnlock
  rw [relOpt_addEvs, addEvs_rel, relOpt_addEvs]

theorem delFinish_eq (t : Nat) (s : St K V) (small : Bool) (root : Nat) :
    delFinish t s small root =
      ((({ s with tree := finishTree s.tree small } : St K V).rel t (.node root)).rel t .tree, .done .ok) := by
  by_cases hc : (!small) = true ∨ Node.count s.tree.root > 1
  · simp only [delFinish, finishTree, hc, if_true]
  · simp only [delFinish, finishTree, hc, if_false]
    cases collapseRoot s.tree.order s.tree.nextId s.tree.depth s.tree.root <;> rfl

theorem delFinish_addEvs (t : Nat) (s s2 : St K V) (es : List (Ev K V)) (small : Bool) (root : Nat)
    (h2 : s2 = s.addEvs es) : delFinish t s2 small root = addR (delFinish t s small root) es := by
  subst h2
  rw [delFinish_eq, delFinish_eq]
  rfl

theorem delUnwind_addEvs (P : Params K) (t : Nat) (es : List (Ev K V)) (key : K) (root : Nat) :
    ∀ (frames : List Frame) (s s2 : St K V) (small : Bool), s2 = s.addEvs es →
      delUnwind P t s2 key frames small root = addR (delUnwind P t s key frames small root) es := by
  intro frames
  induction frames with
  | nil =>
    intro s s2 small h2
    unfold delUnwind
    exact delFinish_addEvs t s s2 es small root h2
  | cons fr rest ih =>
    intro s s2 small h2
    subst h2
    unfold delUnwind
    simp only [addEvs_tree]
    split
    · exact ih _ _ false (frameUnlock_addEvs t s es fr none)
    · split
      · split
        · split <;> rfl
        · split
          · rfl
          · split
            · rfl
            · rename_i i' small' _
              exact ih _ _ small' (frameUnlock_addEvs t { s with tree := putInner s.tree i' } es fr none)
      · rfl

theorem delRightArrive_addEvs (P : Params K) (t : Nat) (s s2 : St K V) (es : List (Ev K V)) (key : K)
    (rest : List Frame) (fr : Frame) (right root : Nat) (h2 : s2 = s.addEvs es) :
    delRightArrive P t s2 key rest fr right root = addR (delRightArrive P t s key rest fr right root) es := by
  subst h2
  unfold delRightArrive
  simp only [addEvs_tree]
  split
  · split
    · rfl
    · split
      · rfl
      · rename_i i' small' _
        exact delUnwind_addEvs P t es key root rest _ _ small'
          (frameUnlock_addEvs t { s with tree := putInner s.tree i' } es fr (some right))
  · rfl

theorem delEnter_addEvs (P : Params K) (t : Nat) (s : St K V) (es : List (Ev K V)) (key : K) (frames : List Frame)
    (n root : Nat) :
    delEnter P t (s.addEvs es) key frames n root =
      ((delEnter P t s key frames n root).1.addEvs es, (delEnter P t s key frames n root).2) := by
  unfold delEnter
  simp only [addEvs_tree]
  split
  · rfl
  · split
    · split <;> rfl
    · split
      · rfl
      · split
        · split <;> rfl
        · split <;> rfl

theorem delGo_addEvs (P : Params K) (t : Nat) (s s2 : St K V) (es : List (Ev K V)) (key : K) (frames : List Frame)
    (n root : Nat) (h2 : s2 = s.addEvs es) :
    delGo P t s2 key frames n root = addR (delGo P t s key frames n root) es := by
  subst h2
  unfold delGo
  rw [delEnter_addEvs]
  cases h : delEnter P t s key frames n root with
  | mk s1 r =>
    obtain ⟨fl, o⟩ := r
    cases o with
    | none => rfl
    | some fs =>
      obtain ⟨frames', small⟩ := fs
      exact delUnwind_addEvs P t es key root frames' s1 _ small rfl

theorem resume_addEvs (P : Params K) (t : Nat) (s : St K V) (es : List (Ev K V)) (k : Kont K V) :
    resume P t (s.addEvs es) k = addR (resume P t s k) es := by
  cases k with
  | roTree sc key => rfl
  | roNode sc key hold want => simp only [resume, addEvs_acq]; exact roArrive_addEvs P t _ es sc key hold want
  | upTree key f y => rfl
  | upRoot key f y r => simp only [resume, addEvs_acq]; exact upRootArrive_addEvs P t _ es key f y r
  | upRootSib key f y root sib =>
    simp only [resume, addEvs_acq, addEvs_rel]; exact upContinue_addEvs P t _ _ es key f y sib rfl
  | upChild key f y parent index child =>
    simp only [resume, addEvs_acq]; exact upChildArrive_addEvs P t _ es key f y parent index child
  | upSib key f y parent child sib =>
    simp only [resume, addEvs_acq, addEvs_rel]; exact upContinue_addEvs P t _ _ es key f y sib rfl
  | upCallback key f leaf arg =>
    simp only [resume, addEvs_tree]
    split
    · split
      · split <;> rfl
      · rfl
    · rfl
  | hop cur next => rfl
  | paused => rfl
  | delTree key => rfl
  | delRoot key r => simp only [resume]; exact delGo_addEvs P t _ _ es key [] r r rfl
  | delLeft key frames node index left root =>
    simp only [resume, addEvs_acq, addEvs_tree]
    split
    · split <;> rfl
    · rfl
  | delChild key frames node index left child root =>
    simp only [resume]; exact delGo_addEvs P t _ _ es key _ child root rfl
  | delRight key rest fr right root =>
    simp only [resume]; exact delRightArrive_addEvs P t _ _ es key rest fr right root rfl

/-! ### which operation a continuation belongs to -/

/-- the client-visible signature of a continuation: kind of operation, key, callback -/
inductive KSig (K V : Type) where
  | ro (sc : Bool) (key : K)
  | up (key : K) (f : Option V → V) (y : Option Bool)
  | del (key : K)
  | other

def kontSig : Kont K V → KSig K V
  | .roTree sc key => .ro sc key
  | .roNode sc key _ _ => .ro sc key
  | .upTree key f y => .up key f y
  | .upRoot key f y _ => .up key f y
  | .upRootSib key f y _ _ => .up key f y
  | .upChild key f y _ _ _ => .up key f y
  | .upSib key f y _ _ _ => .up key f y
  | .upCallback key f _ _ => .up key f (some true)
  | .delTree key => .del key
  | .delRoot key _ => .del key
  | .delLeft key _ _ _ _ _ => .del key
  | .delChild key _ _ _ _ _ _ => .del key
  | .delRight key _ _ _ _ => .del key
  | _ => .other

/-- continuations of a Delete whose key has already been removed from its leaf -/
def postK : Kont K V → Bool
  | .delRight _ _ _ _ _ => true
  | _ => false

def postP : Park K V → Bool
  | .want _ k => postK k
  | _ => false

theorem postLeaf_park (p : Park K V) : postLeaf (.park p) ↔ postP p = true := by
  cases p with
  | want l k => cases k <;> simp [postLeaf, postP, postK]
  | _ => simp [postLeaf, postP]

theorem postK_sig {k : Kont K V} (h : postK k = true) : ∃ key, kontSig k = .del key := by
  cases k <;> first | exact ⟨_, rfl⟩ | cases h

/-- the callback argument a thread yielded inside its callback remembers -/
def cbArg : Kont K V → Option (Option V)
  | .upCallback _ _ _ arg => some arg
  | _ => none

def parkKont : Park K V → Option (Kont K V)
  | .want _ k => some k
  | .yielded k => some k
  | _ => none

/-- a block parks inside the same operation; if inside the callback, the callback note with
    the remembered argument is the newest one of the stretch -/
def ParkTr (t : Nat) (sg : KSig K V) (new : List (Ev K V)) (p : Park K V) : Prop :=
  ∃ k', parkKont p = some k' ∧ kontSig k' = sg ∧ ∀ arg, cbArg k' = some arg → lastCb t new = some arg

theorem ParkTr.mono {t : Nat} {sg : KSig K V} {new : List (Ev K V)} {p : Park K V} (pre : List (Ev K V))
    (h : ParkTr t sg new p) : ParkTr t sg (new ++ pre) p := by
  obtain ⟨k', h1, h2, h3⟩ := h
  refine ⟨k', h1, h2, ?_⟩
  intro arg ha
  rw [lastCb_append, h3 arg ha]

/-- outcome of an Insert/Update block -/
def FlowU (t : Nat) (key : K) (f : Option V → V) (y : Option Bool) (new : List (Ev K V)) : Flow K V → Prop
  | .panic => True
  | .park p => ParkTr t (.up key f y) new p
  | .done res => res = .ok ∧ (y.isSome = true → (lastCb t new).isSome = true)

theorem FlowU.mono {t : Nat} {key : K} {f : Option V → V} {y : Option Bool} {new : List (Ev K V)} {fl : Flow K V}
    (pre : List (Ev K V)) (h : FlowU t key f y new fl) : FlowU t key f y (new ++ pre) fl := by
  cases fl with
  | panic => trivial
  | park p => exact ParkTr.mono pre h
  | done res =>
    refine ⟨h.1, ?_⟩
    intro hy
    have := h.2 hy
    rw [lastCb_append]
    cases hl : lastCb t new with
    | none => rw [hl] at this; cases this
    | some a => rfl

/-- the events an Insert/Update block appends -/
def TrU (t : Nat) (key : K) (f : Option V → V) (y : Option Bool) (s : St K V) (r : St K V × Flow K V) : Prop :=
  ∃ new, r.1.evs = new ++ s.evs ∧ new.all (quietB t) = true ∧ FlowU t key f y new r.2

theorem TrU.of_pre {t : Nat} {key : K} {f : Option V → V} {y : Option Bool} {s s1 : St K V} {r : St K V × Flow K V}
    (pre : List (Ev K V)) (h1 : s1.evs = pre ++ s.evs) (hq : pre.all (quietB t) = true)
    (h : TrU t key f y s1 r) : TrU t key f y s r := by
  obtain ⟨new, e, q, fl⟩ := h
  refine ⟨new ++ pre, ?_, ?_, fl.mono pre⟩
  · rw [e, h1, List.append_assoc]
  · rw [List.all_append, q, hq]; rfl

theorem upLeaf_tr (P : Params K) (t : Nat) (s : St K V) (key : K) (f : Option V → V) (y : Option Bool) (n : Nat)
    (l : Leaf K V) : TrU t key f y s (upLeaf P t s key f y n l) := by
  unfold upLeaf
  split
  · exact ⟨[], rfl, rfl, trivial⟩
  · rename_i l' arg _
    split
    · refine ⟨[Ev.note t (.cb arg)], rfl, by simp [quietB], ?_⟩
      refine ⟨.upCallback key f n arg, rfl, rfl, ?_⟩
      intro a ha
      simp only [cbArg, Option.some.injEq] at ha
      simp [lastCb, ha]
    · exact ⟨[Ev.rel t (.node n), Ev.note t (.cb arg)], rfl, by simp [quietB], rfl, by simp [lastCb]⟩
    · exact ⟨[Ev.rel t (.node n)], rfl, by simp [quietB], rfl, by simp⟩

theorem upContinue_tr (P : Params K) (t : Nat) (s : St K V) (key : K) (f : Option V → V) (y : Option Bool) (n : Nat) :
    TrU t key f y s (upContinue P t s key f y n) := by
  unfold upContinue
  split
  · exact ⟨[], rfl, rfl, trivial⟩
  · split
    · exact upLeaf_tr P t s key f y n _
    · split
      · exact ⟨[], rfl, rfl, trivial⟩
      · simp only
        split
        · exact ⟨[], rfl, rfl, trivial⟩
        · exact ⟨[], rfl, rfl, _, rfl, rfl, by intro a ha; cases ha⟩

theorem upChildArrive_tr (P : Params K) (t : Nat) (s : St K V) (key : K) (f : Option V → V) (y : Option Bool)
    (parent index child : Nat) : TrU t key f y s (upChildArrive P t s key f y parent index child) := by
  unfold upChildArrive
  split
  · split
    · exact ⟨[], rfl, rfl, trivial⟩
    · split
      · exact ⟨[], rfl, rfl, trivial⟩
      · split
        · exact ⟨[], rfl, rfl, trivial⟩
        · exact TrU.of_pre [Ev.rel t (.node parent)] rfl (by simp [quietB]) (upContinue_tr P t _ key f y child)
        · split
          · split
            · exact ⟨[], rfl, rfl, _, rfl, rfl, by intro a ha; cases ha⟩
            · exact TrU.of_pre [Ev.rel t (.node parent)] rfl (by simp [quietB]) (upContinue_tr P t _ key f y child)
          · exact ⟨[], rfl, rfl, trivial⟩
  · exact ⟨[], rfl, rfl, trivial⟩

theorem upRootArrive_tr (P : Params K) (t : Nat) (s : St K V) (key : K) (f : Option V → V) (y : Option Bool)
    (root : Nat) : TrU t key f y s (upRootArrive P t s key f y root) := by
  unfold upRootArrive
  simp only
  split
  · exact ⟨[], rfl, rfl, trivial⟩
  · exact TrU.of_pre [Ev.rel t .tree] rfl (by simp [quietB]) (upContinue_tr P t _ key f y root)
  · split
    · split
      · exact ⟨[], rfl, rfl, _, rfl, rfl, by intro a ha; cases ha⟩
      · exact TrU.of_pre [Ev.rel t .tree] rfl (by simp [quietB]) (upContinue_tr P t _ key f y root)
    · exact ⟨[], rfl, rfl, trivial⟩

/-- outcome of a Search / NewScanner block -/
def FlowRO (t : Nat) (sc : Bool) (key : K) (new : List (Ev K V)) : Flow K V → Prop
  | .panic => True
  | .park p => ParkTr t (.ro sc key) new p
  | .done res => sc = false → ∃ v, res = .found v

theorem roArrive_tr (P : Params K) (t : Nat) (s : St K V) (sc : Bool) (key : K) (hold : Lk) (n : Nat) :
    ∃ new, (roArrive P t s sc key hold n).1.evs = new ++ s.evs ∧ new.all (quietB t) = true ∧
      FlowRO t sc key new (roArrive P t s sc key hold n).2 := by
  unfold roArrive
  simp only
  split
  · exact ⟨[Ev.rel t hold], rfl, by simp [quietB], trivial⟩
  · split
    · split
      · rename_i hsc
        exact ⟨[Ev.rel t hold], rfl, by simp [quietB], by intro h; rw [h] at hsc; cases hsc⟩
      · split
        · rename_i v _
          exact ⟨[Ev.rel t (.node n), Ev.rel t hold], rfl, by simp [quietB], fun _ => ⟨v, rfl⟩⟩
        · exact ⟨[Ev.rel t hold], rfl, by simp [quietB], trivial⟩
    · split
      · exact ⟨[Ev.rel t hold], rfl, by simp [quietB], trivial⟩
      · split
        · exact ⟨[Ev.rel t hold], rfl, by simp [quietB], trivial⟩
        · exact ⟨[Ev.rel t hold], rfl, by simp [quietB], _, rfl, rfl, by intro a ha; cases ha⟩

/-- what the result of a completed stretch looks like, by the kind of the continuation -/
def DoneR (t : Nat) (k : Kont K V) (new : List (Ev K V)) (res : Res K V) : Prop :=
  match kontSig k with
  | .ro false _ => ∃ v, res = .found v
  | .ro true _ => True
  | .up _ _ y =>
    res = .ok ∧
      match cbArg k with
      | none => y.isSome = true → (lastCb t new).isSome = true
      | some _ => lastCb t new = none
  | .del _ => res = .ok
  | .other => True

/-- outcome of a stretch of continuation `k` -/
def FlowR (t : Nat) (k : Kont K V) (new : List (Ev K V)) : Flow K V → Prop
  | .panic => True
  | .park p => (postK k = true → postP p = true) ∧ (kontSig k = .other → False) ∧ cbArg k = none ∧
      ParkTr t (kontSig k) new p
  | .done res => DoneR t k new res

theorem FlowR.of_U {t : Nat} {k : Kont K V} {key : K} {f : Option V → V} {y : Option Bool} {new : List (Ev K V)}
    {fl : Flow K V} (hs : kontSig k = .up key f y) (hc : cbArg k = none) (h : FlowU t key f y new fl) :
    FlowR t k new fl := by
  cases fl with
  | panic => trivial
  | park p =>
    refine ⟨?_, (by rw [hs]; intro h; cases h), hc, (by rw [hs]; exact h)⟩
    intro hp
    obtain ⟨key', hk'⟩ := postK_sig hp
    rw [hs] at hk'; cases hk'
  | done res =>
    show DoneR t k new res
    unfold DoneR
    rw [hs, hc]
    exact h

/-! #### Delete blocks -/

/-- the log grows by quiet events -/
def Grow (t : Nat) (s s' : St K V) : Prop := ∃ pre, s'.evs = pre ++ s.evs ∧ pre.all (quietB t) = true

theorem Grow.refl (t : Nat) (s : St K V) : Grow t s s := ⟨[], rfl, rfl⟩

theorem Grow.trans {t : Nat} {s s1 s2 : St K V} (h1 : Grow t s s1) (h2 : Grow t s1 s2) : Grow t s s2 := by
  obtain ⟨p1, e1, q1⟩ := h1
  obtain ⟨p2, e2, q2⟩ := h2
  exact ⟨p2 ++ p1, by rw [e2, e1, List.append_assoc], by rw [List.all_append, q1, q2]; rfl⟩

theorem Grow.rel (t : Nat) (s : St K V) (t' : Nat) (l : Lk) : Grow t s (s.rel t' l) := ⟨[Ev.rel t' l], rfl, rfl⟩

theorem Grow.acq (t : Nat) (s : St K V) (t' : Nat) (l : Lk) : Grow t s (s.acq t' l) := ⟨[Ev.acq t' l], rfl, rfl⟩

theorem relOpt_grow (t : Nat) (s : St K V) (o : Option Nat) : Grow t s (relOpt t s o) := by
  cases o with
  | none => exact Grow.refl t s
  | some r => exact Grow.rel t s t _

theorem frameUnlock_grow (t : Nat) (s : St K V) (fr : Frame) (right : Option Nat) : Grow t s (frameUnlock t s fr right) := by
  unfold frameUnlock
  exact ((relOpt_grow t s right).trans (Grow.rel t _ t _)).trans (relOpt_grow t _ fr.left)

/-- outcome of a Delete block; `post`: the key has been removed, the block only unwinds -/
def FlowD (key : K) (post : Bool) : Flow K V → Prop
  | .panic => True
  | .park p => (post = true → postP p = true) ∧ ∃ k', parkKont p = some k' ∧ kontSig k' = .del key
  | .done res => res = .ok

def TrD (t : Nat) (key : K) (post : Bool) (s : St K V) (r : St K V × Flow K V) : Prop :=
  Grow t s r.1 ∧ FlowD key post r.2

theorem TrD.of_grow {t : Nat} {key : K} {post : Bool} {s s1 : St K V} {r : St K V × Flow K V}
    (h1 : Grow t s s1) (h : TrD t key post s1 r) : TrD t key post s r := ⟨h1.trans h.1, h.2⟩

theorem TrD.weaken {t : Nat} {key : K} {s : St K V} {r : St K V × Flow K V}
    (h : TrD t key true s r) : TrD t key false s r := by
  refine ⟨h.1, ?_⟩
  have h2 := h.2
  revert h2
  cases r.2 with
  | panic => intro _; trivial
  | done res => intro h2; exact h2
  | park p => intro h2; exact ⟨(fun hp => by cases hp), h2.2⟩

theorem delFinish_tr (t : Nat) (key : K) (s : St K V) (small : Bool) (root : Nat) :
    TrD t key true s (delFinish t s small root) := by
  rw [delFinish_eq]
  exact ⟨⟨[Ev.rel t .tree, Ev.rel t (.node root)], rfl, rfl⟩, rfl⟩

theorem delUnwind_tr (P : Params K) (t : Nat) (key : K) (root : Nat) :
    ∀ (frames : List Frame) (s : St K V) (small : Bool), TrD t key true s (delUnwind P t s key frames small root) := by
  intro frames
  induction frames with
  | nil => intro s small; unfold delUnwind; exact delFinish_tr t key s small root
  | cons fr rest ih =>
    intro s small
    unfold delUnwind
    split
    · exact TrD.of_grow (frameUnlock_grow t s fr none) (ih _ false)
    · split
      · split
        · split
          · exact ⟨Grow.refl t s, trivial⟩
          · exact ⟨Grow.refl t s, fun _ => rfl, _, rfl, rfl⟩
        · split
          · exact ⟨Grow.refl t s, trivial⟩
          · split
            · exact ⟨Grow.refl t s, trivial⟩
            · rename_i i' small' _
              exact TrD.of_grow ((show Grow t s { s with tree := putInner s.tree i' } from ⟨[], rfl, rfl⟩).trans
                (frameUnlock_grow t _ fr none)) (ih _ small')
      · exact ⟨Grow.refl t s, trivial⟩

theorem delRightArrive_tr (P : Params K) (t : Nat) (s : St K V) (key : K) (rest : List Frame) (fr : Frame)
    (right root : Nat) : TrD t key true s (delRightArrive P t s key rest fr right root) := by
  unfold delRightArrive
  split
  · split
    · exact ⟨Grow.refl t s, trivial⟩
    · split
      · exact ⟨Grow.refl t s, trivial⟩
      · rename_i i' small' _
        exact TrD.of_grow ((show Grow t s { s with tree := putInner s.tree i' } from ⟨[], rfl, rfl⟩).trans
          (frameUnlock_grow t _ fr (some right)))
          (delUnwind_tr P t key root rest _ small')
  · exact ⟨Grow.refl t s, trivial⟩

theorem delEnter_tr (P : Params K) (t : Nat) (s : St K V) (key : K) (frames : List Frame) (n root : Nat) :
    Grow t s (delEnter P t s key frames n root).1 ∧
      ((delEnter P t s key frames n root).2.2 = none → FlowD key false (delEnter P t s key frames n root).2.1) := by
  unfold delEnter
  split
  · exact ⟨Grow.refl t s, fun _ => trivial⟩
  · split
    · split
      · exact ⟨Grow.refl t s, fun _ => trivial⟩
      · exact ⟨Grow.refl t s, fun h => by cases h⟩
    · split
      · exact ⟨Grow.refl t s, fun _ => trivial⟩
      · simp only
        split
        · split
          · exact ⟨Grow.refl t s, fun _ => trivial⟩
          · exact ⟨Grow.refl t s, fun _ => ⟨(fun h => by cases h), _, rfl, rfl⟩⟩
        · split
          · exact ⟨Grow.refl t s, fun _ => trivial⟩
          · exact ⟨Grow.refl t s, fun _ => ⟨(fun h => by cases h), _, rfl, rfl⟩⟩

theorem delGo_tr (P : Params K) (t : Nat) (s : St K V) (key : K) (frames : List Frame) (n root : Nat) :
    TrD t key false s (delGo P t s key frames n root) := by
  have henter := delEnter_tr P t s key frames n root
  unfold delGo
  split
  · rename_i s1 fl heq
    rw [heq] at henter
    exact ⟨henter.1, henter.2 rfl⟩
  · rename_i s1 fl frames' small heq
    rw [heq] at henter
    exact TrD.of_grow henter.1 (delUnwind_tr P t key root frames' s1 small).weaken

theorem FlowR.of_D {t : Nat} {k : Kont K V} {key : K} {post : Bool} {new : List (Ev K V)}
    {fl : Flow K V} (hs : kontSig k = .del key) (hc : cbArg k = none) (hp : postK k = true → post = true)
    (h : FlowD key post fl) : FlowR t k new fl := by
  cases fl with
  | panic => trivial
  | park p =>
    obtain ⟨h1, k', h2, h3⟩ := h
    refine ⟨fun hk => h1 (hp hk), (by rw [hs]; intro h; cases h), hc, k', h2, (by rw [hs]; exact h3), ?_⟩
    intro arg ha
    cases k' <;> first | (cases ha; done) | (cases h3; done)
  | done res =>
    show DoneR t k new res
    unfold DoneR
    rw [hs]
    exact h

/-- the events a stretch of a continuation appends (every kind, Delete included) -/
theorem resume_tr (P : Params K) (t : Nat) (s : St K V) (k : Kont K V) :
    ∃ new, (resume P t s k).1.evs = new ++ s.evs ∧ new.all (quietB t) = true ∧ FlowR t k new (resume P t s k).2 := by
  have up : ∀ {s1 : St K V} {r : St K V × Flow K V} {key : K} {f : Option V → V} {y : Option Bool},
      kontSig k = .up key f y → cbArg k = none → TrU t key f y s1 r → ∀ pre, s1.evs = pre ++ s.evs →
      pre.all (quietB t) = true →
      ∃ new, r.1.evs = new ++ s.evs ∧ new.all (quietB t) = true ∧ FlowR t k new r.2 := by
    intro s1 r key f y hs hc htr pre h1 hq
    obtain ⟨new, e, q, fl⟩ := TrU.of_pre pre h1 hq htr
    exact ⟨new, e, q, FlowR.of_U hs hc fl⟩
  have dl : ∀ {s1 : St K V} {r : St K V × Flow K V} {key : K} {post : Bool},
      kontSig k = .del key → cbArg k = none → (postK k = true → post = true) → TrD t key post s1 r → Grow t s s1 →
      ∃ new, r.1.evs = new ++ s.evs ∧ new.all (quietB t) = true ∧ FlowR t k new r.2 := by
    intro s1 r key post hs hc hp htr hg
    obtain ⟨⟨new, e, q⟩, fl⟩ := TrD.of_grow hg htr
    exact ⟨new, e, q, FlowR.of_D hs hc hp fl⟩
  cases k with
  | roTree sc key =>
    refine ⟨[Ev.acq t .tree], rfl, by simp [quietB], ?_⟩
    refine ⟨(by intro h; cases h), (by intro h; cases h), rfl, _, rfl, rfl, by intro a ha; cases ha⟩
  | roNode sc key hold want =>
    simp only [resume]
    obtain ⟨new, e, q, fl⟩ := roArrive_tr P t (s.acq t (.node want)) sc key hold want
    refine ⟨new ++ [Ev.acq t (.node want)], by rw [e]; simp [St.acq], by rw [List.all_append, q]; simp [quietB], ?_⟩
    revert fl
    cases (roArrive P t (s.acq t (.node want)) sc key hold want).2 with
    | panic => intro _; trivial
    | park p => intro fl; exact ⟨(by intro h; cases h), (by intro h; cases h), rfl, ParkTr.mono _ fl⟩
    | done res =>
      intro fl
      show DoneR t _ _ res
      unfold DoneR
      cases sc with
      | true => trivial
      | false => exact fl rfl
  | upTree key f y =>
    refine ⟨[Ev.acq t .tree], rfl, by simp [quietB], ?_⟩
    refine ⟨(by intro h; cases h), (by intro h; cases h), rfl, _, rfl, rfl, by intro a ha; cases ha⟩
  | upRoot key f y r =>
    simp only [resume]
    exact up rfl rfl (upRootArrive_tr P t _ key f y r) [Ev.acq t (.node r)] rfl (by simp [quietB])
  | upRootSib key f y root sib =>
    simp only [resume]
    exact up rfl rfl (upContinue_tr P t _ key f y sib) [Ev.rel t .tree, Ev.rel t (.node root), Ev.acq t (.node sib)] rfl
      (by simp [quietB])
  | upChild key f y parent index child =>
    simp only [resume]
    exact up rfl rfl (upChildArrive_tr P t _ key f y parent index child) [Ev.acq t (.node child)] rfl (by simp [quietB])
  | upSib key f y parent child sib =>
    simp only [resume]
    exact up rfl rfl (upContinue_tr P t _ key f y sib)
      [Ev.rel t (.node parent), Ev.rel t (.node child), Ev.acq t (.node sib)] rfl (by simp [quietB])
  | upCallback key f leaf arg =>
    simp only [resume]
    split
    · split
      · split
        · exact ⟨[Ev.rel t (.node leaf)], rfl, by simp [quietB], rfl, rfl⟩
        · exact ⟨[], rfl, rfl, trivial⟩
      · exact ⟨[], rfl, rfl, trivial⟩
    · exact ⟨[], rfl, rfl, trivial⟩
  | hop cur next =>
    exact ⟨[Ev.rel t (.node cur), Ev.acq t (.node next)], rfl, by simp [quietB], trivial⟩
  | paused => exact ⟨[], rfl, rfl, trivial⟩
  | delTree key =>
    refine ⟨[Ev.acq t .tree], rfl, by simp [quietB], ?_⟩
    refine ⟨(by intro h; cases h), (by intro h; cases h), rfl, _, rfl, rfl, by intro a ha; cases ha⟩
  | delRoot key r =>
    simp only [resume]
    exact dl rfl rfl (by intro h; cases h) (delGo_tr P t _ key [] r r) (Grow.acq t s t _)
  | delLeft key frames node index left root =>
    simp only [resume]
    split
    · split
      · exact ⟨[Ev.acq t (.node left)], rfl, by simp [quietB], (by intro h; cases h), (by intro h; cases h), rfl,
          _, rfl, rfl, by intro a ha; cases ha⟩
      · exact ⟨[Ev.acq t (.node left)], rfl, by simp [quietB], trivial⟩
    · exact ⟨[Ev.acq t (.node left)], rfl, by simp [quietB], trivial⟩
  | delChild key frames node index left child root =>
    simp only [resume]
    exact dl rfl rfl (by intro h; cases h) (delGo_tr P t _ key _ child root) (Grow.acq t s t _)
  | delRight key rest fr right root =>
    simp only [resume]
    exact dl rfl rfl (fun _ => rfl) (delRightArrive_tr P t _ key rest fr right root) (Grow.acq t s t _)

/-! ### starting an operation -/

/-- continuation `k` belongs to the client call `cop` -/
def KontFor : COp K V → Kont K V → Prop
  | .ins key v, k => kontSig k = .up key (fun _ => v) none
  | .upd key g b, k => kontSig k = .up key g (some b)
  | .get key, k => kontSig k = .ro false key
  | .ns key, k => kontSig k = .ro true key
  | .del key, k => kontSig k = .del key
  | _, k => kontSig k = .other

/-- outcome of the first stretch of a client call -/
def FlowStart (cop : COp K V) : Flow K V → Prop
  | .panic => True
  | .park p => ∃ k, parkKont p = some k ∧ KontFor cop k ∧ cbArg k = none ∧ postP p = false
  | .done _ => opOf cop = none

theorem startOp_tr (t : Nat) (s : St K V) (op : COp K V) :
    ∃ new, (startOp t s op).1.evs = new ++ s.evs ∧ new.all silentB = true ∧ FlowStart op (startOp t s op).2 := by
  cases op with
  | ins k v =>
    simp only [startOp]
    split
    · exact ⟨[], rfl, rfl, trivial⟩
    · exact ⟨[], rfl, rfl, _, rfl, rfl, rfl, rfl⟩
  | upd k f y =>
    simp only [startOp]
    split
    · exact ⟨[], rfl, rfl, trivial⟩
    · exact ⟨[], rfl, rfl, _, rfl, rfl, rfl, rfl⟩
  | del k =>
    simp only [startOp]
    split
    · exact ⟨[], rfl, rfl, trivial⟩
    · exact ⟨[], rfl, rfl, _, rfl, rfl, rfl, rfl⟩
  | get k =>
    simp only [startOp]
    split
    · exact ⟨[], rfl, rfl, trivial⟩
    · exact ⟨[], rfl, rfl, _, rfl, rfl, rfl, rfl⟩
  | ns k =>
    simp only [startOp]
    split
    · exact ⟨[], rfl, rfl, trivial⟩
    · exact ⟨[], rfl, rfl, _, rfl, rfl, rfl, rfl⟩
  | pause => exact ⟨[], rfl, rfl, _, rfl, rfl, rfl, rfl⟩
  | scan =>
    simp only [startOp]
    split
    · split
      · exact ⟨[], rfl, rfl, trivial⟩
      · split
        · split
          · exact ⟨[Ev.rel t (.node _)], rfl, rfl, rfl⟩
          · exact ⟨[], rfl, rfl, _, rfl, rfl, rfl, rfl⟩
        · exact ⟨[], rfl, rfl, rfl⟩
    · exact ⟨[], rfl, rfl, rfl⟩
  | pair =>
    simp only [startOp]
    split
    · split
      · exact ⟨[], rfl, rfl, trivial⟩
      · split
        · exact ⟨[], rfl, rfl, trivial⟩
        · split
          · exact ⟨[], rfl, rfl, rfl⟩
          · exact ⟨[], rfl, rfl, trivial⟩
    · exact ⟨[], rfl, rfl, rfl⟩
  | close =>
    simp only [startOp]
    split
    · exact ⟨[], rfl, rfl, rfl⟩
    · rename_i leaf? i _
      cases leaf? with
      | none => exact ⟨[], rfl, rfl, rfl⟩
      | some leaf => exact ⟨[Ev.rel t (.node leaf)], rfl, rfl, rfl⟩

/-- a panic in the first stretch is reported by the loop -/
theorem threadLoop_panic (t : Nat) (th : Thread K V) (fuel : Nat) (s : St K V) (pc : Nat) :
    (threadLoop t th fuel s .panic pc).2.2 = true := by
  cases fuel <;> simp [threadLoop]

theorem threadLoop_prog (t : Nat) (th : Thread K V) :
    ∀ (fuel : Nat) (s : St K V) (fl : Flow K V) (pc : Nat), (threadLoop t th fuel s fl pc).1.prog = th.prog := by
  intro fuel
  induction fuel with
  | zero => intro s fl pc; cases fl <;> rfl
  | succ fuel ih =>
    intro s fl pc
    cases fl with
    | panic => rfl
    | park p => rfl
    | done r =>
      unfold threadLoop
      cases hop : th.prog[pc + 1]? with
      | none => rfl
      | some op => exact ih _ _ _

theorem runThread_prog (P : Params K) (t : Nat) (th : Thread K V) (s : St K V) :
    (runThread P t th s).1.prog = th.prog := by
  unfold runThread
  cases th.park with
  | start =>
    simp only
    cases th.prog[0]? with
    | none => rfl
    | some op => exact threadLoop_prog t th _ _ _ _
  | want l k => exact threadLoop_prog t th _ _ _ _
  | yielded k => exact threadLoop_prog t th _ _ _ _
  | finished => rfl

end Gobptree.Conc
