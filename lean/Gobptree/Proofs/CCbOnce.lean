/-
  Property C05, every schedule: the callback of an Update is invoked exactly once.

  Counting invariant over the log of every reachable configuration of disciplined clients:
  the number of callback notes of a thread equals the number of its Updates that have
  returned, plus one if the thread is currently parked inside an Update's callback.
  (An Insert runs the same code with `yields = none` and logs no callback note; an Update
  that has not reached its leaf has not invoked its callback yet.)

  Purely structural: needs only `CInv` (no operation panics), no key-order results.
-/
import Gobptree.Proofs.CLinDel

namespace Gobptree.Conc
open Gobptree

variable {K V : Type}

/-! ### the statement's counters -/

/-- callback notes of thread `t` in the log -/
def cbCount (c : Config K V) (t : Nat) : Nat :=
  (c.log.filter fun e => match e with | .note t' (.cb _) => t' == t | _ => false).length

/-- returned Updates of thread `t` (ret notes whose operation, `progOf c t`[idx], is an `upd`) -/
def updReturned (c : Config K V) (t : Nat) : Nat :=
  (c.log.filter fun e => match e with
    | .note t' (.ret idx _) => t' == t && (match (progOf c t)[idx]? with | some (.upd _ _ _) => true | _ => false)
    | _ => false).length

/-- the thread is parked inside an Update whose callback has already been invoked (it yielded
    inside the callback) -/
def inCallback (th : Thread K V) : Nat :=
  match th.park with
  | .yielded (.upCallback _ _ _ _) => 1
  | _ => 0

/-! ### recursive forms of the counters -/

def b2n (b : Bool) : Nat := if b then 1 else 0

def cbN (t : Nat) : List (Ev K V) → Nat
  | [] => 0
  | .note t' (.cb _) :: rest => b2n (t' == t) + cbN t rest
  | _ :: rest => cbN t rest

def isUpdB : Option (COp K V) → Bool
  | some (.upd _ _ _) => true
  | _ => false

def retU (progs : Nat → List (COp K V)) (t : Nat) : List (Ev K V) → Nat
  | [] => 0
  | .note t' (.ret idx _) :: rest => b2n (t' == t && isUpdB (progs t)[idx]?) + retU progs t rest
  | _ :: rest => retU progs t rest

theorem cbCount_eq (c : Config K V) (t : Nat) : cbCount c t = cbN t c.log := by
  unfold cbCount
  induction c.log with
  | nil => rfl
  | cons e rest ih =>
    cases e with
    | note t' n =>
      cases n with
      | cb a =>
        simp only [List.filter_cons, cbN]
        by_cases h : (t' == t) = true
        · rw [if_pos h, h, List.length_cons, ih]; simp [b2n]; omega
        · rw [if_neg h]
          have h' : (t' == t) = false := by simpa using h
          rw [h', ih]; simp [b2n]
      | inv i => simpa [List.filter_cons, cbN] using ih
      | ret i r => simpa [List.filter_cons, cbN] using ih
    | acq t' l => simpa [List.filter_cons, cbN] using ih
    | rel t' l => simpa [List.filter_cons, cbN] using ih
    | dec t' l => simpa [List.filter_cons, cbN] using ih

theorem updReturned_eq (c : Config K V) (t : Nat) : updReturned c t = retU (progOf c) t c.log := by
  unfold updReturned
  induction c.log with
  | nil => rfl
  | cons e rest ih =>
    cases e with
    | note t' n =>
      cases n with
      | ret i r =>
        have hb : (match (progOf c t)[i]? with | some (.upd _ _ _) => true | _ => false) = isUpdB (progOf c t)[i]? := by
          cases (progOf c t)[i]? with
          | none => rfl
          | some op => cases op <;> rfl
        simp only [List.filter_cons, retU, hb]
        by_cases h : (t' == t && isUpdB (progOf c t)[i]?) = true
        · rw [if_pos h, h, List.length_cons, ih]; simp [b2n]; omega
        · rw [if_neg h]
          have h' : (t' == t && isUpdB (progOf c t)[i]?) = false := by simpa using h
          rw [h', ih]; simp [b2n]
      | inv i => simpa [List.filter_cons, retU] using ih
      | cb a => simpa [List.filter_cons, retU] using ih
    | acq t' l => simpa [List.filter_cons, retU] using ih
    | rel t' l => simpa [List.filter_cons, retU] using ih
    | dec t' l => simpa [List.filter_cons, retU] using ih

/-! ### quiet and silent stretches -/

theorem cbN_silent (t : Nat) (evs : List (Ev K V)) :
    ∀ new : List (Ev K V), new.all silentB = true → cbN t (new ++ evs) = cbN t evs := by
  intro new
  induction new with
  | nil => intro _; rfl
  | cons e rest ih =>
    intro hq
    simp only [List.all_cons, Bool.and_eq_true] at hq
    cases e with
    | note t' n => simp [silentB] at hq
    | acq t' l => exact ih hq.2
    | rel t' l => exact ih hq.2
    | dec t' l => exact ih hq.2

theorem retU_silent (progs : Nat → List (COp K V)) (t : Nat) (evs : List (Ev K V)) :
    ∀ new : List (Ev K V), new.all silentB = true → retU progs t (new ++ evs) = retU progs t evs := by
  intro new
  induction new with
  | nil => intro _; rfl
  | cons e rest ih =>
    intro hq
    simp only [List.all_cons, Bool.and_eq_true] at hq
    cases e with
    | note t' n => simp [silentB] at hq
    | acq t' l => exact ih hq.2
    | rel t' l => exact ih hq.2
    | dec t' l => exact ih hq.2

/-- a quiet stretch of thread `t` has no `ret` note and callback notes of `t` only -/
theorem retU_quiet (progs : Nat → List (COp K V)) (t t' : Nat) (evs : List (Ev K V)) :
    ∀ new : List (Ev K V), new.all (quietB t) = true → retU progs t' (new ++ evs) = retU progs t' evs := by
  intro new
  induction new with
  | nil => intro _; rfl
  | cons e rest ih =>
    intro hq
    simp only [List.all_cons, Bool.and_eq_true] at hq
    cases e with
    | note t'' n =>
      cases n with
      | cb a => exact ih hq.2
      | inv i => simp [quietB] at hq
      | ret i r => simp [quietB] at hq
    | acq t'' l => exact ih hq.2
    | rel t'' l => exact ih hq.2
    | dec t'' l => exact ih hq.2

theorem cbN_quiet_other (t t' : Nat) (hne : t' ≠ t) (evs : List (Ev K V)) :
    ∀ new : List (Ev K V), new.all (quietB t) = true → cbN t' (new ++ evs) = cbN t' evs := by
  intro new
  induction new with
  | nil => intro _; rfl
  | cons e rest ih =>
    intro hq
    simp only [List.all_cons, Bool.and_eq_true] at hq
    cases e with
    | note t'' n =>
      cases n with
      | cb a =>
        have e : t'' = t := by simpa [quietB] using hq.1
        subst e
        have hb : (t'' == t') = false := by simpa using (Ne.symm hne)
        simp only [List.cons_append, cbN, hb, b2n]
        rw [ih hq.2]; simp
      | inv i => simp [quietB] at hq
      | ret i r => simp [quietB] at hq
    | acq t'' l => exact ih hq.2
    | rel t'' l => exact ih hq.2
    | dec t'' l => exact ih hq.2

/-! ### which stretch logs the callback note -/

def parkCb : Park K V → Nat
  | .yielded (.upCallback _ _ _ _) => 1
  | _ => 0

def kCb : Kont K V → Nat
  | .upCallback _ _ _ _ => 1
  | _ => 0

/-- the continuation belongs to an Update -/
def updK (k : Kont K V) : Bool :=
  match kontSig k with
  | .up _ _ (some _) => true
  | _ => false

/-- a block that logs no callback note and does not park inside a callback -/
def Plain (t : Nat) (s : St K V) (r : St K V × Flow K V) : Prop :=
  cbN t r.1.evs = cbN t s.evs ∧ ∀ p, r.2 = .park p → parkCb p = 0

theorem Plain.of_same {t : Nat} {s s1 : St K V} {r : St K V × Flow K V} (h1 : cbN t s1.evs = cbN t s.evs)
    (h : Plain t s1 r) : Plain t s r := ⟨h.1.trans h1, h.2⟩

/-- closes `Plain t s (s', fl)` for `s'` built from `s` by acq / rel / tree updates, explicit `fl` -/
macro "plain" : tactic => `(tactic| exact ⟨rfl, fun p h => by cases h <;> rfl⟩)

theorem roArrive_plain (P : Params K) (t : Nat) (s : St K V) (sc : Bool) (key : K) (hold : Lk) (n : Nat) :
    Plain t s (roArrive P t s sc key hold n) := by
  unfold roArrive
  simp only
  split
  · plain
  · split
    · split
      · plain
      · split
        · plain
        · plain
    · split
      · plain
      · split <;> plain

theorem relOpt_cbsame (t t' : Nat) (s : St K V) (o : Option Nat) : cbN t (relOpt t' s o).evs = cbN t s.evs := by
  cases o <;> rfl

theorem frameUnlock_cbsame (t t' : Nat) (s : St K V) (fr : Frame) (right : Option Nat) :
    cbN t (frameUnlock t' s fr right).evs = cbN t s.evs := by
  unfold frameUnlock
  rw [relOpt_cbsame]
  show cbN t (relOpt t' s right).evs = cbN t s.evs
  exact relOpt_cbsame t t' s right

theorem delFinish_plain (t : Nat) (s : St K V) (small : Bool) (root : Nat) :
    Plain t s (delFinish t s small root) := by
  rw [delFinish_eq]
  plain

theorem delUnwind_plain (P : Params K) (t : Nat) (key : K) (root : Nat) :
    ∀ (frames : List Frame) (s : St K V) (small : Bool), Plain t s (delUnwind P t s key frames small root) := by
  intro frames
  induction frames with
  | nil => intro s small; unfold delUnwind; exact delFinish_plain t s small root
  | cons fr rest ih =>
    intro s small
    unfold delUnwind
    split
    · exact Plain.of_same (frameUnlock_cbsame t t s fr none) (ih _ false)
    · split
      · split
        · split <;> plain
        · split
          · plain
          · split
            · plain
            · rename_i i' small' _
              exact Plain.of_same (frameUnlock_cbsame t t { s with tree := putInner s.tree i' } fr none) (ih _ small')
      · plain

theorem delRightArrive_plain (P : Params K) (t : Nat) (s : St K V) (key : K) (rest : List Frame) (fr : Frame)
    (right root : Nat) : Plain t s (delRightArrive P t s key rest fr right root) := by
  unfold delRightArrive
  split
  · split
    · plain
    · split
      · plain
      · rename_i i' small' _
        exact Plain.of_same (frameUnlock_cbsame t t { s with tree := putInner s.tree i' } fr (some right))
          (delUnwind_plain P t key root rest _ small')
  · plain

theorem delEnter_plain (P : Params K) (t : Nat) (s : St K V) (key : K) (frames : List Frame) (n root : Nat) :
    cbN t (delEnter P t s key frames n root).1.evs = cbN t s.evs ∧
      ∀ p, (delEnter P t s key frames n root).2.1 = .park p → parkCb p = 0 := by
  unfold delEnter
  split
  · plain
  · split
    · split <;> plain
    · split
      · plain
      · simp only
        split
        · split <;> plain
        · split <;> plain

theorem delGo_plain (P : Params K) (t : Nat) (s : St K V) (key : K) (frames : List Frame) (n root : Nat) :
    Plain t s (delGo P t s key frames n root) := by
  have henter := delEnter_plain P t s key frames n root
  unfold delGo
  split
  · rename_i s1 fl heq
    rw [heq] at henter
    exact henter
  · rename_i s1 fl frames' small heq
    rw [heq] at henter
    exact Plain.of_same henter.1 (delUnwind_plain P t key root frames' s1 small)

/-- outcome of an Insert/Update block: the callback note is logged by the stretch that runs
    the leaf step, iff the operation is an Update (`y = some _`) -/
def UpCb (t : Nat) (y : Option Bool) (s : St K V) (r : St K V × Flow K V) : Prop :=
  match r.2 with
  | .panic => True
  | .done _ => cbN t r.1.evs = cbN t s.evs + b2n y.isSome
  | .park p => cbN t r.1.evs = cbN t s.evs + parkCb p

theorem UpCb.of_same {t : Nat} {y : Option Bool} {s s1 : St K V} {r : St K V × Flow K V}
    (h1 : cbN t s1.evs = cbN t s.evs) (h : UpCb t y s1 r) : UpCb t y s r := by
  unfold UpCb at h ⊢
  rw [h1] at h
  exact h

theorem upLeaf_cb (P : Params K) (t : Nat) (s : St K V) (key : K) (f : Option V → V) (y : Option Bool) (n : Nat)
    (l : Leaf K V) : UpCb t y s (upLeaf P t s key f y n l) := by
  unfold upLeaf
  split
  · trivial
  · split
    · show cbN t (Ev.note t (.cb _) :: s.evs) = cbN t s.evs + 1
      simp [cbN, b2n]; omega
    · show cbN t (Ev.rel t _ :: Ev.note t (.cb _) :: s.evs) = cbN t s.evs + 1
      simp [cbN, b2n]; omega
    · show cbN t (Ev.rel t _ :: s.evs) = cbN t s.evs + 0
      rfl

theorem upContinue_cb (P : Params K) (t : Nat) (s : St K V) (key : K) (f : Option V → V) (y : Option Bool) (n : Nat) :
    UpCb t y s (upContinue P t s key f y n) := by
  unfold upContinue
  split
  · trivial
  · split
    · exact upLeaf_cb P t s key f y n _
    · split
      · trivial
      · simp only
        split
        · trivial
        · exact (rfl : cbN t s.evs = cbN t s.evs + 0)

theorem upChildArrive_cb (P : Params K) (t : Nat) (s : St K V) (key : K) (f : Option V → V) (y : Option Bool)
    (parent index child : Nat) : UpCb t y s (upChildArrive P t s key f y parent index child) := by
  unfold upChildArrive
  split
  · split
    · trivial
    · split
      · trivial
      · split
        · trivial
        · exact UpCb.of_same rfl (upContinue_cb P t _ key f y child)
        · split
          · split
            · exact (rfl : cbN t s.evs = cbN t s.evs + 0)
            · exact UpCb.of_same rfl (upContinue_cb P t _ key f y child)
          · trivial
  · trivial

theorem upRootArrive_cb (P : Params K) (t : Nat) (s : St K V) (key : K) (f : Option V → V) (y : Option Bool)
    (root : Nat) : UpCb t y s (upRootArrive P t s key f y root) := by
  unfold upRootArrive
  simp only
  split
  · trivial
  · exact UpCb.of_same rfl (upContinue_cb P t _ key f y root)
  · split
    · split
      · exact (rfl : cbN t s.evs = cbN t s.evs + 0)
      · exact UpCb.of_same rfl (upContinue_cb P t _ key f y root)
    · trivial

/-- the callback notes of one stretch of continuation `k`: one exactly when the stretch leaves
    the state "callback not yet invoked" (it completes an Update, or parks inside the callback) -/
def ResCb (t : Nat) (k : Kont K V) (s : St K V) (r : St K V × Flow K V) : Prop :=
  match r.2 with
  | .panic => True
  | .done _ => cbN t r.1.evs + kCb k = cbN t s.evs + b2n (updK k)
  | .park p => cbN t r.1.evs + kCb k = cbN t s.evs + parkCb p

theorem ResCb.of_plain {t : Nat} {k : Kont K V} {s s1 : St K V} {r : St K V × Flow K V}
    (hk : kCb k = 0) (hu : updK k = false) (h1 : cbN t s1.evs = cbN t s.evs) (h : Plain t s1 r) :
    ResCb t k s r := by
  obtain ⟨h2, h3⟩ := h
  unfold ResCb
  cases hfl : r.2 with
  | panic => trivial
  | done res => simp only [hk, hu, b2n]; rw [h2, h1]; rfl
  | park p => simp only [hk, h3 p hfl]; rw [h2, h1]

theorem ResCb.of_up {t : Nat} {k : Kont K V} {y : Option Bool} {s s1 : St K V} {r : St K V × Flow K V}
    (hk : kCb k = 0) (hu : updK k = y.isSome) (h1 : cbN t s1.evs = cbN t s.evs) (h : UpCb t y s1 r) :
    ResCb t k s r := by
  unfold ResCb
  unfold UpCb at h
  cases hfl : r.2 with
  | panic => trivial
  | done res => rw [hfl] at h; simp only [hk, hu]; rw [h, h1]; rfl
  | park p => rw [hfl] at h; simp only [hk]; rw [h, h1]; rfl

theorem updK_y (key : K) (f : Option V → V) (y : Option Bool) :
    (match (KSig.up key f y : KSig K V) with | .up _ _ (some _) => true | _ => false) = y.isSome := by
  cases y <;> rfl

theorem resume_cb (P : Params K) (t : Nat) (s : St K V) (k : Kont K V) : ResCb t k s (resume P t s k) := by
  cases k with
  | roTree sc key => exact ResCb.of_plain (s1 := s) rfl rfl rfl (by simp only [resume]; plain)
  | roNode sc key hold want =>
    simp only [resume]
    exact ResCb.of_plain rfl rfl rfl (roArrive_plain P t _ sc key hold want)
  | upTree key f y =>
    exact ResCb.of_up (s1 := s) (y := y) rfl (updK_y key f y) rfl
      (by simp only [resume]; exact (rfl : cbN t s.evs = cbN t s.evs + 0))
  | upRoot key f y r =>
    simp only [resume]
    exact ResCb.of_up rfl (updK_y key f y) rfl (upRootArrive_cb P t _ key f y r)
  | upRootSib key f y root sib =>
    simp only [resume]
    exact ResCb.of_up rfl (updK_y key f y) rfl (upContinue_cb P t _ key f y sib)
  | upChild key f y parent index child =>
    simp only [resume]
    exact ResCb.of_up rfl (updK_y key f y) rfl (upChildArrive_cb P t _ key f y parent index child)
  | upSib key f y parent child sib =>
    simp only [resume]
    exact ResCb.of_up rfl (updK_y key f y) rfl (upContinue_cb P t _ key f y sib)
  | upCallback key f leaf arg =>
    simp only [resume]
    split
    · split
      · split
        · exact (rfl : cbN t s.evs + 1 = cbN t s.evs + 1)
        · trivial
      · trivial
    · trivial
  | hop cur next => exact ResCb.of_plain (s1 := s) rfl rfl rfl (by simp only [resume]; plain)
  | paused => exact ResCb.of_plain (s1 := s) rfl rfl rfl (by simp only [resume]; plain)
  | delTree key => exact ResCb.of_plain (s1 := s) rfl rfl rfl (by simp only [resume]; plain)
  | delRoot key r =>
    simp only [resume]
    exact ResCb.of_plain rfl rfl rfl (delGo_plain P t _ key [] r r)
  | delLeft key frames node index left root =>
    refine ResCb.of_plain (s1 := s) rfl rfl rfl ?_
    simp only [resume]
    split
    · split <;> plain
    · plain
  | delChild key frames node index left child root =>
    simp only [resume]
    exact ResCb.of_plain rfl rfl rfl (delGo_plain P t _ key _ child root)
  | delRight key rest fr right root =>
    simp only [resume]
    exact ResCb.of_plain rfl rfl rfl (delRightArrive_plain P t _ key rest fr right root)

/-! ### bookkeeping: the continuation a thread is parked with belongs to its current operation -/

def ParkForP (prog : List (COp K V)) (pc : Nat) : Park K V → Prop
  | .start => pc = 0
  | .finished => True
  | .want _ k => ∃ cop, prog[pc]? = some cop ∧ KontFor cop k
  | .yielded k => ∃ cop, prog[pc]? = some cop ∧ KontFor cop k

theorem updK_for {cop : COp K V} {k : Kont K V} (h : KontFor cop k) : updK k = isUpdB (some cop) := by
  unfold updK
  cases cop with
  | ins key v => rw [show kontSig k = .up key (fun _ => v) none from h]; rfl
  | upd key g b => rw [show kontSig k = .up key g (some b) from h]; rfl
  | get key => rw [show kontSig k = .ro false key from h]; rfl
  | ns key => rw [show kontSig k = .ro true key from h]; rfl
  | del key => rw [show kontSig k = .del key from h]; rfl
  | scan => rw [show kontSig k = .other from h]; rfl
  | pair => rw [show kontSig k = .other from h]; rfl
  | close => rw [show kontSig k = .other from h]; rfl
  | pause => rw [show kontSig k = .other from h]; rfl

theorem parkCb_zero_of {p : Park K V} {k : Kont K V} (h1 : parkKont p = some k) (h2 : cbArg k = none) :
    parkCb p = 0 := by
  cases p with
  | start => rfl
  | finished => rfl
  | want l k' => rfl
  | yielded k' =>
    cases h1
    cases k <;> first | rfl | cases h2

theorem retU_ret (progs : Nat → List (COp K V)) (t pc : Nat) (r : Res K V) (evs : List (Ev K V)) :
    retU progs t (Ev.note t (.ret pc r) :: evs) = b2n (isUpdB (progs t)[pc]?) + retU progs t evs := by
  simp [retU]

theorem retU_ret_other (progs : Nat → List (COp K V)) (t t' pc : Nat) (hne : t' ≠ t) (r : Res K V)
    (evs : List (Ev K V)) : retU progs t' (Ev.note t (.ret pc r) :: evs) = retU progs t' evs := by
  have hb : (t == t') = false := by simpa using (Ne.symm hne)
  simp [retU, hb, b2n]

/-! ### the loop of a step -/

section Loop

variable (progs : Nat → List (COp K V)) (t : Nat)

/-- counting invariant after a stretch that ended with `fl` -/
def LoopC (prog : List (COp K V)) (s : St K V) (fl : Flow K V) (pc : Nat) : Prop :=
  match fl with
  | .panic => True
  | .park p => cbN t s.evs = retU progs t s.evs + parkCb p ∧ ParkForP prog pc p
  | .done _ => cbN t s.evs = retU progs t s.evs + b2n (isUpdB prog[pc]?)

variable {progs t}

theorem begin_cb {prog : List (COp K V)} {s : St K V} {j : Nat} {cop : COp K V}
    (hcb : cbN t s.evs = retU progs t s.evs) (hcop : prog[j]? = some cop) :
    LoopC progs t prog (startOp t (s.note t (.inv j)) cop).1 (startOp t (s.note t (.inv j)) cop).2 j := by
  obtain ⟨new, e, q, fl⟩ := startOp_tr t (s.note t (.inv j)) cop
  have h1 : cbN t (startOp t (s.note t (.inv j)) cop).1.evs = cbN t s.evs := by
    rw [e, cbN_silent _ _ _ q]; rfl
  have h2 : retU progs t (startOp t (s.note t (.inv j)) cop).1.evs = retU progs t s.evs := by
    rw [e, retU_silent _ _ _ _ q]; rfl
  unfold LoopC
  revert fl
  cases (startOp t (s.note t (.inv j)) cop).2 with
  | panic => intro _; trivial
  | done r =>
    intro fl
    have hn : opOf cop = none := fl
    have : isUpdB (some cop) = false := by cases cop <;> first | rfl | cases hn
    simp only [h1, h2, hcop, this, b2n]
    exact hcb
  | park p =>
    intro fl
    obtain ⟨k, hk, hkf, hcn, _⟩ := fl
    refine ⟨by simp only [h1, h2, parkCb_zero_of hk hcn]; exact hcb, ?_⟩
    cases p with
    | start => cases hk
    | finished => cases hk
    | want l k' => cases hk; exact ⟨cop, hcop, hkf⟩
    | yielded k' => cases hk; exact ⟨cop, hcop, hkf⟩

theorem begin_others {s : St K V} {j : Nat} {cop : COp K V} (t' : Nat) :
    cbN t' (startOp t (s.note t (.inv j)) cop).1.evs = cbN t' s.evs ∧
      retU progs t' (startOp t (s.note t (.inv j)) cop).1.evs = retU progs t' s.evs := by
  obtain ⟨new, e, q, _⟩ := startOp_tr t (s.note t (.inv j)) cop
  constructor
  · rw [e, cbN_silent _ _ _ q]; rfl
  · rw [e, retU_silent _ _ _ _ q]; rfl

theorem loop_cb (th : Thread K V) (hprog : th.prog = progs t) :
    ∀ (fuel : Nat) (s : St K V) (fl : Flow K V) (pc : Nat), LoopC progs t th.prog s fl pc →
      (threadLoop t th fuel s fl pc).2.2 = false →
      cbN t (threadLoop t th fuel s fl pc).2.1.evs =
          retU progs t (threadLoop t th fuel s fl pc).2.1.evs + parkCb (threadLoop t th fuel s fl pc).1.park ∧
        ParkForP th.prog (threadLoop t th fuel s fl pc).1.pc (threadLoop t th fuel s fl pc).1.park := by
  have hret : ∀ (s : St K V) (r : Res K V) (pc : Nat), LoopC progs t th.prog s (.done r) pc →
      cbN t (s.note t (.ret pc r)).evs = retU progs t (s.note t (.ret pc r)).evs := by
    intro s r pc hl
    show cbN t s.evs = retU progs t (Ev.note t (.ret pc r) :: s.evs)
    rw [retU_ret, ← hprog]
    have : cbN t s.evs = retU progs t s.evs + b2n (isUpdB th.prog[pc]?) := hl
    omega
  intro fuel
  induction fuel with
  | zero =>
    intro s fl pc hl hd
    cases fl with
    | panic => rw [threadLoop_panic] at hd; cases hd
    | park p => exact hl
    | done r => exact ⟨by simp only [threadLoop, parkCb]; exact hret s r pc hl, trivial⟩
  | succ fuel ih =>
    intro s fl pc hl hd
    cases fl with
    | panic => rw [threadLoop_panic] at hd; cases hd
    | park p => exact hl
    | done r =>
      unfold threadLoop at hd ⊢
      cases hop : th.prog[pc + 1]? with
      | none =>
        simp only [hop] at hd ⊢
        exact ⟨hret s r pc hl, trivial⟩
      | some cop =>
        simp only [hop] at hd ⊢
        exact ih _ _ _ (begin_cb (s := s.note t (.ret pc r)) (hret s r pc hl) hop) hd

theorem loop_others (th : Thread K V) (t' : Nat) (hne : t' ≠ t) :
    ∀ (fuel : Nat) (s : St K V) (fl : Flow K V) (pc : Nat),
      cbN t' (threadLoop t th fuel s fl pc).2.1.evs = cbN t' s.evs ∧
        retU progs t' (threadLoop t th fuel s fl pc).2.1.evs = retU progs t' s.evs := by
  intro fuel
  induction fuel with
  | zero =>
    intro s fl pc
    cases fl with
    | panic => exact ⟨rfl, retU_ret_other progs t t' pc hne _ _⟩
    | park p => exact ⟨rfl, rfl⟩
    | done r => exact ⟨rfl, retU_ret_other progs t t' pc hne _ _⟩
  | succ fuel ih =>
    intro s fl pc
    cases fl with
    | panic => exact ⟨rfl, retU_ret_other progs t t' pc hne _ _⟩
    | park p => exact ⟨rfl, rfl⟩
    | done r =>
      unfold threadLoop
      cases hop : th.prog[pc + 1]? with
      | none => exact ⟨rfl, retU_ret_other progs t t' pc hne _ _⟩
      | some cop =>
        simp only
        obtain ⟨h1, h2⟩ := ih (startOp t ((s.note t (.ret pc r)).note t (.inv (pc + 1))) cop).1
          (startOp t ((s.note t (.ret pc r)).note t (.inv (pc + 1))) cop).2 (pc + 1)
        obtain ⟨h3, h4⟩ := begin_others (progs := progs) (s := s.note t (.ret pc r)) (j := pc + 1) (cop := cop) t'
        exact ⟨h1.trans h3, h2.trans (h4.trans (retU_ret_other progs t t' pc hne _ _))⟩

/-- the first stretch of a step that resumes continuation `k` of the operation `cop` -/
theorem resume_loopc (P : Params K) {prog : List (COp K V)} {s : St K V} {k : Kont K V} {pc : Nat} {cop : COp K V}
    (hcnt : cbN t s.evs = retU progs t s.evs + kCb k) (hcop : prog[pc]? = some cop) (hkf : KontFor cop k) :
    LoopC progs t prog (resume P t s k).1 (resume P t s k).2 pc := by
  obtain ⟨new, e, q, hfl⟩ := resume_tr P t s k
  have hcb := resume_cb P t s k
  have hret : retU progs t (resume P t s k).1.evs = retU progs t s.evs := by
    rw [e, retU_quiet _ _ _ _ _ q]
  unfold ResCb at hcb
  unfold LoopC
  revert hfl hcb
  cases (resume P t s k).2 with
  | panic => intro _ _; trivial
  | done r =>
    intro _ hcb
    simp only [hcop, ← updK_for hkf, hret]
    simp only at hcb
    omega
  | park p =>
    intro hfl hcb
    obtain ⟨_, _, _, k', hk', hsig, _⟩ := hfl
    simp only at hcb
    refine ⟨by rw [hret]; omega, ?_⟩
    cases p with
    | start => cases hk'
    | finished => cases hk'
    | want l k'' => cases hk'; exact ⟨cop, hcop, hkf.of_sig hsig⟩
    | yielded k'' => cases hk'; exact ⟨cop, hcop, hkf.of_sig hsig⟩

theorem resume_others (P : Params K) (s : St K V) (k : Kont K V) (t' : Nat) (hne : t' ≠ t) :
    cbN t' (resume P t s k).1.evs = cbN t' s.evs ∧
      retU progs t' (resume P t s k).1.evs = retU progs t' s.evs := by
  obtain ⟨new, e, q, _⟩ := resume_tr P t s k
  exact ⟨by rw [e, cbN_quiet_other t t' hne _ _ q], by rw [e, retU_quiet _ _ _ _ _ q]⟩

end Loop

/-! ### the invariant of configurations -/

structure CbOk (c : Config K V) (t : Nat) (th : Thread K V) : Prop where
  cnt : cbN t c.log = retU (progOf c) t c.log + parkCb th.park
  pf  : ParkForP th.prog th.pc th.park

theorem step_cb (c c' : Config K V) (t : Nat) (hstep : c.step t = some c') (hinv : CInv c)
    (hI : ∀ j b, c.threads[j]? = some b → CbOk c j b) :
    ∀ j b, c'.threads[j]? = some b → CbOk c' j b := by
  obtain ⟨th, ht, hen, r, hr, hc'⟩ := step_shape hstep
  have halive' : c'.dead = false := (step_cinv blocks_ok c c' t hstep hinv).1.alive
  have hdied : r.2.2 = false := by
    rw [hc'] at halive'
    simp only [Bool.or_eq_false_iff] at halive'
    exact halive'.2
  have htm : th ∈ c.threads := List.mem_of_getElem? ht
  have hok := hinv.s.cfg th htm
  have hnf := enabled_not_finished hen
  have hprog : th.prog = progOf c t := (progOf_of_get ht).symm
  have hths' : c'.threads = c.threads.set t r.1 := by rw [hc']
  have hlog' : c'.log = r.2.1.evs := by rw [hc']
  have hrprog : r.1.prog = th.prog := by rw [hr]; exact runThread_prog _ _ _ _
  have hprogs' : progOf c' = progOf c := by
    funext j
    unfold progOf
    rw [hths']
    by_cases e : j = t
    · subst e
      rw [List.getElem?_set_self', ht]
      simp [hrprog]
    · rw [List.getElem?_set_ne (Ne.symm e)]
  have hme := hI t th ht
  have main : (cbN t r.2.1.evs = retU (progOf c) t r.2.1.evs + parkCb r.1.park ∧
        ParkForP th.prog r.1.pc r.1.park) ∧
      ∀ t', t' ≠ t → cbN t' r.2.1.evs = cbN t' c.log ∧ retU (progOf c) t' r.2.1.evs = retU (progOf c) t' c.log := by
    have resumed : ∀ k, (th.park = .yielded k ∨ ∃ l, th.park = .want l k) →
        r = threadLoop t th th.prog.length (resume c.P t (stepSt c t th) k).1 (resume c.P t (stepSt c t th) k).2 th.pc →
        (cbN t r.2.1.evs = retU (progOf c) t r.2.1.evs + parkCb r.1.park ∧ ParkForP th.prog r.1.pc r.1.park) ∧
        ∀ t', t' ≠ t → cbN t' r.2.1.evs = cbN t' c.log ∧ retU (progOf c) t' r.2.1.evs = retU (progOf c) t' c.log := by
      intro k hpk hrk
      have hkcb : parkCb th.park = kCb k := by
        rcases hpk with hp | ⟨l, hp⟩
        · rw [hp]; cases k <;> rfl
        · have hlock : kontLock k = some l := by have := hok.2.2; rw [hp] at this; exact this
          rw [hp]
          cases k <;> first | rfl | (simp [kontLock] at hlock)
      obtain ⟨cop, hcop, hkf⟩ : ∃ cop, th.prog[th.pc]? = some cop ∧ KontFor cop k := by
        have := hme.pf
        rcases hpk with hp | ⟨l, hp⟩ <;> rw [hp] at this <;> exact this
      have hcnt : cbN t (stepSt c t th).evs = retU (progOf c) t (stepSt c t th).evs + kCb k := by
        rw [← hkcb]; exact hme.cnt
      have hl := resume_loopc (progs := progOf c) (t := t) c.P hcnt hcop hkf
      constructor
      · rw [hrk] at hdied ⊢
        exact loop_cb th hprog _ _ _ _ hl hdied
      · intro t' hne
        rw [hrk]
        obtain ⟨h1, h2⟩ := loop_others (progs := progOf c) th t' hne th.prog.length
          (resume c.P t (stepSt c t th) k).1 (resume c.P t (stepSt c t th) k).2 th.pc
        obtain ⟨h3, h4⟩ := resume_others (progs := progOf c) c.P (stepSt c t th) k t' hne
        exact ⟨h1.trans h3, h2.trans h4⟩
    cases hp : th.park with
    | finished => exact absurd hp hnf
    | start =>
      have hpc : th.pc = 0 := by have := hme.pf; rw [hp] at this; exact this
      have hcnt0 : cbN t (stepSt c t th).evs = retU (progOf c) t (stepSt c t th).evs := by
        have := hme.cnt; rw [hp] at this; exact this
      have hr' := hr
      unfold runThread at hr'
      rw [hp] at hr'
      simp only at hr'
      cases hop : th.prog[0]? with
      | none =>
        rw [hop] at hr'
        simp only at hr'
        rw [hr']
        exact ⟨⟨hcnt0, trivial⟩, fun t' _ => ⟨rfl, rfl⟩⟩
      | some op =>
        rw [hop] at hr'
        simp only at hr'
        have hl := begin_cb (progs := progOf c) (t := t) (prog := th.prog) (s := stepSt c t th) (j := 0) hcnt0 hop
        constructor
        · rw [hr'] at hdied ⊢
          exact loop_cb th hprog _ _ _ _ hl hdied
        · intro t' hne
          rw [hr']
          obtain ⟨h1, h2⟩ := loop_others (progs := progOf c) th t' hne th.prog.length
            (startOp t ((stepSt c t th).note t (.inv 0)) op).1 (startOp t ((stepSt c t th).note t (.inv 0)) op).2 0
          obtain ⟨h3, h4⟩ := begin_others (progs := progOf c) (s := stepSt c t th) (j := 0) (cop := op) t'
          exact ⟨h1.trans h3, h2.trans h4⟩
    | want l k => exact resumed k (Or.inr ⟨l, hp⟩) (by rw [hr]; unfold runThread; rw [hp])
    | yielded k => exact resumed k (Or.inl hp) (by rw [hr]; unfold runThread; rw [hp])
  obtain ⟨⟨hcnt, hpf⟩, hoth⟩ := main
  intro j b hj
  rw [hths'] at hj
  rcases getElem?_set_cases _ _ _ _ _ hj with ⟨ej, eb⟩ | ⟨hne, hjo⟩
  · subst ej; subst eb
    exact ⟨by rw [hprogs', hlog']; exact hcnt, by rw [hrprog]; exact hpf⟩
  · obtain ⟨h1, h2⟩ := hoth j hne
    have := hI j b hjo
    exact ⟨by rw [hprogs', hlog', h1, h2]; exact this.cnt, this.pf⟩

/-- **the Update callback is invoked exactly once** (C05), in every schedule: at every moment
    the callback notes of a thread are as many as its returned Updates, plus one if it is
    parked inside an Update's callback -/
theorem callback_exactly_once (P : Params K) (tree : Tree K V) (progs : List (List (COp K V)))
    (ht : TreeOk none tree) (ho : tree.order = P.order) (hp : PadOk P) (hd : Disciplined progs)
    (hdel : 4 ≤ tree.order ∨ NoDelete progs)
    (c : Config K V) (hr : Reachable (Config.init P tree progs) c) :
    ∀ t th, c.threads[t]? = some th → cbCount c t = updReturned c t + inCallback th := by
  have key : ∀ j b, c.threads[j]? = some b → CbOk c j b := by
    induction hr with
    | refl =>
      intro j b hj
      have hm : b ∈ (Config.init P tree progs).threads := List.mem_of_getElem? hj
      simp only [Config.init, List.mem_map] at hm
      obtain ⟨p, _, e⟩ := hm
      subst e
      exact ⟨rfl, rfl⟩
    | @step c1 c2 t hr1 hs ih =>
      exact step_cb c1 c2 t hs (reachable_cinv P tree progs ht ho hp hd hdel c1 hr1) ih
  intro t th hth
  rw [cbCount_eq, updReturned_eq]
  exact (key t th hth).cnt

#print axioms callback_exactly_once

end Gobptree.Conc
