/-
  `rebalance`: repairing an under-full child keeps the parent well formed (up to
  its own occupancy), keeps the pairs and the leaf chain.
-/
import Gobptree.Proofs.RebalanceEq
import Gobptree.Proofs.Siblings
import Gobptree.Proofs.Upsert

namespace Gobptree

variable {K V : Type} {lt : K → K → Bool}

abbrev RWF (lt : K → K → Bool) (o d : Nat) : Option K → Option K → Node K V d → Prop :=
  fun a b c => WF lt o d (o / 2) a b c

theorem firstId_mk_nil_cons {d : Nat} (id id' : Nat) (r r' : List K) (x y : Node K V d) (b b' : List (Node K V d))
    (hxy : Node.firstId x = Node.firstId y) :
    Node.firstId (d := d + 1) (Inner.mk id r (x :: b) : Inner K (Node K V d)) =
    Node.firstId (d := d + 1) (Inner.mk id' r' (y :: b') : Inner K (Node K V d)) := hxy

theorem firstId_mk_cons_cons {d : Nat} (id id' : Nat) (r r' : List K) (a0 : Node K V d) (a a' : List (Node K V d)) :
    Node.firstId (d := d + 1) (Inner.mk id r (a0 :: a) : Inner K (Node K V d)) =
    Node.firstId (d := d + 1) (Inner.mk id' r' (a0 :: a') : Inner K (Node K V d)) := rfl

/-- borrow from the right sibling -/
theorem rebalance_right_ok (h : SWO lt) (P : Params K) (hP : P.lt = lt) (ho : 4 ≤ P.order)
    (vr : Variant) {d : Nat} (pid : Nat) (rA rB' : List K) (k kr : K)
    (cA cB' : List (Node K V d)) (c c' cr : Node K V d) (lo hi : Option K) (after : Option Nat)
    (hcl : cA.length = rA.length) (hlB : rB'.length = cB'.length)
    (hle : (rA ++ k :: kr :: rB').length ≤ P.order)
    (hlo : ∀ k0, (rA ++ k :: kr :: rB').head? = some k0 → leO lt lo k0)
    (hA : Kids lt (RWF lt P.order d) (some k) (rA.zip cA))
    (hkkr : lt k kr = true)
    (hcr : WF lt P.order d (P.order / 2) (some kr) (nextLo hi (rB'.zip cB')) cr)
    (hkrhi : ltO lt kr (nextLo hi (rB'.zip cB')))
    (hB : Kids lt (RWF lt P.order d) hi (rB'.zip cB'))
    (hc' : WF lt P.order d 0 (some k) (some kr) c') (hc'cnt : Node.count c' + 1 = P.order / 2)
    (hrc : P.order / 2 < Node.count cr)
    (hL : LinkedKids (Linked d) (Node.firstId (d := d)) after (cA ++ c' :: cr :: cB')) :
    ∃ (p' : Inner K (Node K V d)),
      rebalance P vr (P.order / 2) (Inner.mk pid (rA ++ k :: kr :: rB') (cA ++ c :: cr :: cB')) rA.length c' = .ok (p', false) ∧
      WF lt P.order (d + 1) 0 lo hi p' ∧
      p'.runts.length = (rA ++ k :: kr :: rB').length ∧
      Node.pairs (d := d + 1) p' = (cA ++ c' :: cr :: cB').flatMap (Node.pairs (d := d)) ∧
      Linked (d + 1) after p' ∧
      Node.firstId (d := d + 1) p' = Node.firstId (d := d + 1) (Inner.mk pid (rA ++ k :: kr :: rB') (cA ++ c' :: cr :: cB')) := by
  subst hP
  rw [LinkedKids_append, LinkedKids_cons, LinkedKids_cons] at hL
  obtain ⟨hLA, hLc', hLcr, hLB⟩ := hL
  have hc'le := (WF_count_le hc').1
  obtain ⟨c'', cr', s, hadopt, hs, hWc'', hWcr', hcnt1, hcnt2, hpairs, hskr, hshi, hLc'', hLcr', hfc''⟩ :=
    adoptFromRight_ok_of_nonempty h c' cr (by omega) hc' hcr (by omega) (by omega) _ hLc' hLcr
  have heq := rebalance_borrowRight_eq P vr (P.order / 2) (Inner.mk pid (rA ++ k :: kr :: rB') (cA ++ c :: cr :: cB'))
    rA.length c' cr c'' cr' s (by simp) (by rw [← hcl]; exact form_getElem_next cA cB' c cr) hrc hadopt hs
  refine ⟨Inner.mk pid (rA ++ k :: s :: rB') (cA ++ c'' :: cr' :: cB'), ?_, ?_, by simp, ?_, ?_, ?_⟩
  · rw [heq]
    have e1 : (rA ++ k :: kr :: rB').set (rA.length + 1) s = rA ++ k :: s :: rB' := form_set_next rA rB' k kr s
    have e2 : ((cA ++ c :: cr :: cB').set rA.length c'').set (rA.length + 1) cr' = cA ++ c'' :: cr' :: cB' := by
      rw [← hcl, form_set_pivot, form_set_next]
    simp only [e1, e2]
  · refine WF_inner_of_entries h pid _ _ (by simp; omega) (by simp at hle ⊢; omega) (by omega) (by simp; omega) ?_ ?_
    · intro k0 hk0
      apply hlo k0
      cases rA <;> simpa using hk0
    · rw [zip_surgery _ _ _ _ hcl.symm, List.zip_cons_cons, List.zip_cons_cons, Kids_append, Kids_cons, Kids_cons]
      refine ⟨hA, WF_set_m hWc'' (by omega), h.lt_of_lt_of_le hkkr hskr, WF_set_m hWcr' (by omega), hshi, hB⟩
  · rw [pairs_mk]
    simp only [List.flatMap_append, List.flatMap_cons]
    rw [← List.append_assoc (Node.pairs c''), hpairs, List.append_assoc]
  · show LinkedKids (Linked d) (Node.firstId (d := d)) after (cA ++ c'' :: cr' :: cB')
    rw [LinkedKids_append, LinkedKids_cons, LinkedKids_cons]
    refine ⟨?_, hLc'', hLcr', hLB⟩
    have : afterOf (Node.firstId (d := d)) after (c'' :: cr' :: cB') = afterOf (Node.firstId (d := d)) after (c' :: cr :: cB') := by
      show some (Node.firstId c'') = some (Node.firstId c'); rw [hfc'']
    rw [this]; exact hLA
  · exact firstId_mk_append _ _ cA c' (cr :: cB') c'' hfc'' _ _ (cr' :: cB')

theorem getElem?_after_two {α : Type} (a b : List α) (x y : α) :
    (a ++ x :: y :: b)[a.length + 1 + 1]? = b[0]? := by
  rw [List.getElem?_append_right (by omega)]
  have : a.length + 1 + 1 - a.length = 2 := by omega
  rw [this]; rfl

/-- borrow from, or merge into, the left sibling (the right sibling, if any, cannot lend) -/
theorem rebalance_left_ok (h : SWO lt) (P : Params K) (hP : P.lt = lt) (hpad : ∀ k, P.pad (some k) ≠ none)
    (ho : 4 ≤ P.order) (hev : P.order % 2 = 0)
    (vr : Variant) (hvr : vr.noRefreshLeft = false) {d : Nat} (pid : Nat) (rA' rB : List K) (kl k : K)
    (cA' cB : List (Node K V d)) (cl c c' : Node K V d) (lo hi : Option K) (after : Option Nat)
    (hcl : cA'.length = rA'.length) (hlB : rB.length = cB.length)
    (hle : (rA' ++ kl :: k :: rB).length ≤ P.order)
    (hlo : ∀ k0, (rA' ++ kl :: k :: rB).head? = some k0 → leO lt lo k0)
    (hA' : Kids lt (RWF lt P.order d) (some kl) (rA'.zip cA'))
    (hclW : WF lt P.order d (P.order / 2) (some kl) (some k) cl) (hklk : lt kl k = true)
    (hc' : WF lt P.order d 0 (some k) (nextLo hi (rB.zip cB)) c') (hc'cnt : Node.count c' + 1 = P.order / 2)
    (hkhi : ltO lt k (nextLo hi (rB.zip cB)))
    (hB : Kids lt (RWF lt P.order d) hi (rB.zip cB))
    (hnoright : ∀ right, cB[0]? = some right → ¬ P.order / 2 < Node.count right)
    (hL : LinkedKids (Linked d) (Node.firstId (d := d)) after (cA' ++ cl :: c' :: cB)) :
    ∃ (p' : Inner K (Node K V d)) (small : Bool),
      rebalance P vr (P.order / 2) (Inner.mk pid (rA' ++ kl :: k :: rB) (cA' ++ cl :: c :: cB)) (rA'.length + 1) c' = .ok (p', small) ∧
      WF lt P.order (d + 1) 0 lo hi p' ∧
      (small = true → p'.runts.length < P.order / 2) ∧
      (small = false → p'.runts.length = (rA' ++ kl :: k :: rB).length ∨ P.order / 2 ≤ p'.runts.length) ∧
      (rA' ++ kl :: k :: rB).length ≤ p'.runts.length + 1 ∧ p'.runts.length ≤ (rA' ++ kl :: k :: rB).length ∧
      Node.pairs (d := d + 1) p' = (cA' ++ cl :: c' :: cB).flatMap (Node.pairs (d := d)) ∧
      Linked (d + 1) after p' ∧
      Node.firstId (d := d + 1) p' = Node.firstId (d := d + 1) (Inner.mk pid (rA' ++ kl :: k :: rB) (cA' ++ cl :: c' :: cB)) := by
  subst hP
  rw [LinkedKids_append, LinkedKids_cons, LinkedKids_cons] at hL
  obtain ⟨hLA, hLcl, hLc', hLB⟩ := hL
  have hc'le := (WF_count_le hc').1
  have hclcnt := WF_count_le hclW
  -- node-level facts for the step equations
  have hidx : rA'.length + 1 < (Inner.mk pid (rA' ++ kl :: k :: rB) (cA' ++ cl :: c :: cB) : Inner K (Node K V d)).runts.length := by simp
  have hidxk : rA'.length + 1 < (Inner.mk pid (rA' ++ kl :: k :: rB) (cA' ++ cl :: c :: cB) : Inner K (Node K V d)).kids.length := by simp; omega
  have hleft : (Inner.mk pid (rA' ++ kl :: k :: rB) (cA' ++ cl :: c :: cB) : Inner K (Node K V d)).kids[rA'.length + 1 - 1]? = some cl := by
    simp only [Nat.add_sub_cancel]; rw [← hcl]; exact form_getElem_prev cA' cB cl c
  have hnr : ∀ right, rA'.length + 1 + 1 < (Inner.mk pid (rA' ++ kl :: k :: rB) (cA' ++ cl :: c :: cB) : Inner K (Node K V d)).runts.length →
      (Inner.mk pid (rA' ++ kl :: k :: rB) (cA' ++ cl :: c :: cB) : Inner K (Node K V d)).kids[rA'.length + 1 + 1]? = some right →
      ¬ P.order / 2 < Node.count right := by
    intro right _ hr
    apply hnoright right
    rw [← hr]; simp only; rw [← hcl]; exact (getElem?_after_two cA' cB cl c).symm
  have hrok : rA'.length + 1 + 1 < (Inner.mk pid (rA' ++ kl :: k :: rB) (cA' ++ cl :: c :: cB) : Inner K (Node K V d)).runts.length →
      ∃ right, (Inner.mk pid (rA' ++ kl :: k :: rB) (cA' ++ cl :: c :: cB) : Inner K (Node K V d)).kids[rA'.length + 1 + 1]? = some right := by
    intro hlt
    simp only at hlt ⊢
    rw [← hcl, getElem?_after_two]
    have : 0 < cB.length := by simp at hlt; omega
    exact ⟨cB[0], List.getElem?_eq_getElem this⟩
  by_cases hlc : P.order / 2 < Node.count cl
  · -- borrow from the left
    obtain ⟨cl', c'', s, hadopt, hs, hWcl', hWc'', hcnt1, hcnt2, hpairs, hsk, hkls, hLcl', hLc'', hfcl'⟩ :=
      adoptFromLeft_ok h P rfl hpad cl c' hclW hc' (by omega) (by omega) (by omega) _ hLcl hLc'
    have heq := rebalance_borrowLeft_eq P vr hvr (P.order / 2) (Inner.mk pid (rA' ++ kl :: k :: rB) (cA' ++ cl :: c :: cB))
      (rA'.length + 1) c' cl cl' c'' s (by omega) hidx hnr hrok hleft hlc hadopt hs
    refine ⟨Inner.mk pid (rA' ++ kl :: s :: rB) (cA' ++ cl' :: c'' :: cB), false, ?_, ?_, by simp, by simp, by simp, by simp, ?_, ?_, ?_⟩
    · rw [heq]
      have e1 : (rA' ++ kl :: k :: rB).set (rA'.length + 1) s = rA' ++ kl :: s :: rB := form_set_next rA' rB kl k s
      have e2 : ((cA' ++ cl :: c :: cB).set (rA'.length + 1 - 1) cl').set (rA'.length + 1) c'' = cA' ++ cl' :: c'' :: cB := by
        simp only [Nat.add_sub_cancel]
        rw [← hcl, form_set_pivot, form_set_next]
      simp only [e1, e2]
    · refine WF_inner_of_entries h pid _ _ (by simp; omega) (by simp at hle ⊢; omega) (by omega) (by simp; omega) ?_ ?_
      · intro k0 hk0
        apply hlo k0
        cases rA' <;> simpa using hk0
      · rw [zip_surgery _ _ _ _ hcl.symm, List.zip_cons_cons, List.zip_cons_cons, Kids_append, Kids_cons, Kids_cons]
        refine ⟨hA', WF_set_m hWcl' (by omega), hkls kl rfl, WF_set_m hWc'' (by omega), ltO_of_lt h hsk hkhi, hB⟩
    · rw [pairs_mk]
      simp only [List.flatMap_append, List.flatMap_cons]
      rw [← List.append_assoc (Node.pairs cl'), hpairs, List.append_assoc]
    · show LinkedKids (Linked d) (Node.firstId (d := d)) after (cA' ++ cl' :: c'' :: cB)
      rw [LinkedKids_append, LinkedKids_cons, LinkedKids_cons]
      refine ⟨?_, hLcl', hLc'', hLB⟩
      have : afterOf (Node.firstId (d := d)) after (cl' :: c'' :: cB) = afterOf (Node.firstId (d := d)) after (cl :: c' :: cB) := by
        show some (Node.firstId cl') = some (Node.firstId cl); rw [hfcl']
      rw [this]; exact hLA
    · exact firstId_mk_append _ _ cA' cl (c' :: cB) cl' hfcl' _ _ (c'' :: cB)
  · -- merge into the left
    have hclc : Node.count cl = P.order / 2 := by omega
    obtain ⟨merged, habsorb, hWm, hcntm, hpm, hLm, hfm⟩ :=
      absorbRight_ok h cl c' hclW hc' (by omega) (by omega) (by omega) _ hLcl hLc'
    have heq := rebalance_mergeLeft_eq P vr (P.order / 2) (Inner.mk pid (rA' ++ kl :: k :: rB) (cA' ++ cl :: c :: cB))
      (rA'.length + 1) c' cl merged (by omega) hidx hidxk hnr hrok hleft hlc (by omega) habsorb
    have e1 : deleteIdiom (rA' ++ kl :: k :: rB) (rA'.length + 1) = rA' ++ kl :: rB := form_delete_next rA' rB kl k
    have e2 : deleteIdiom ((cA' ++ cl :: c :: cB).set (rA'.length + 1 - 1) merged) (rA'.length + 1) = cA' ++ merged :: cB := by
      simp only [Nat.add_sub_cancel]
      rw [← hcl, form_set_pivot, form_delete_next]
    refine ⟨Inner.mk pid (rA' ++ kl :: rB) (cA' ++ merged :: cB), decide ((rA' ++ kl :: rB).length < P.order / 2), ?_, ?_, ?_, ?_,
      by simp; omega, by simp, ?_, ?_, ?_⟩
    · rw [heq]; simp only [e1, e2]
    · refine WF_inner_of_entries h pid _ _ (by simp; omega) (by simp at hle ⊢; omega) (by omega) (by simp; omega) ?_ ?_
      · intro k0 hk0
        apply hlo k0
        cases rA' <;> simpa using hk0
      · rw [zip_surgery _ _ _ _ hcl.symm, List.zip_cons_cons, Kids_append, Kids_cons]
        refine ⟨hA', WF_set_m hWm (by omega), ltO_of_lt h hklk hkhi, hB⟩
    · intro hs; exact of_decide_eq_true hs
    · intro hs; right; have := of_decide_eq_false hs; simp at this ⊢; omega
    · rw [pairs_mk]
      simp only [List.flatMap_append, List.flatMap_cons]
      rw [hpm, List.append_assoc]
    · show LinkedKids (Linked d) (Node.firstId (d := d)) after (cA' ++ merged :: cB)
      rw [LinkedKids_append, LinkedKids_cons]
      refine ⟨?_, hLm, hLB⟩
      have : afterOf (Node.firstId (d := d)) after (merged :: cB) = afterOf (Node.firstId (d := d)) after (cl :: c' :: cB) := by
        show some (Node.firstId merged) = some (Node.firstId cl); rw [hfm]
      rw [this]; exact hLA
    · exact firstId_mk_append _ _ cA' cl (c' :: cB) merged hfm _ _ cB

/-- the leftmost child absorbs its right sibling -/
theorem rebalance_mergeRight_ok (h : SWO lt) (P : Params K) (hP : P.lt = lt)
    (ho : 4 ≤ P.order) (hev : P.order % 2 = 0)
    (vr : Variant) {d : Nat} (pid : Nat) (rB' : List K) (k kr : K)
    (cB' : List (Node K V d)) (c c' cr : Node K V d) (lo hi : Option K) (after : Option Nat)
    (hlB : rB'.length = cB'.length)
    (hle : (k :: kr :: rB').length ≤ P.order)
    (hlo : leO lt lo k)
    (hkkr : lt k kr = true)
    (hcr : WF lt P.order d (P.order / 2) (some kr) (nextLo hi (rB'.zip cB')) cr)
    (hkrhi : ltO lt kr (nextLo hi (rB'.zip cB')))
    (hB : Kids lt (RWF lt P.order d) hi (rB'.zip cB'))
    (hc' : WF lt P.order d 0 (some k) (some kr) c') (hc'cnt : Node.count c' + 1 = P.order / 2)
    (hrc : ¬ P.order / 2 < Node.count cr)
    (hL : LinkedKids (Linked d) (Node.firstId (d := d)) after (c' :: cr :: cB')) :
    ∃ (p' : Inner K (Node K V d)) (small : Bool),
      rebalance P vr (P.order / 2) (Inner.mk pid (k :: kr :: rB') (c :: cr :: cB')) 0 c' = .ok (p', small) ∧
      WF lt P.order (d + 1) 0 lo hi p' ∧
      (small = true → p'.runts.length < P.order / 2) ∧
      (small = false → p'.runts.length = (k :: kr :: rB').length ∨ P.order / 2 ≤ p'.runts.length) ∧
      (k :: kr :: rB').length ≤ p'.runts.length + 1 ∧ p'.runts.length ≤ (k :: kr :: rB').length ∧
      Node.pairs (d := d + 1) p' = (c' :: cr :: cB').flatMap (Node.pairs (d := d)) ∧
      Linked (d + 1) after p' ∧
      Node.firstId (d := d + 1) p' = Node.firstId (d := d + 1) (Inner.mk pid (k :: kr :: rB') (c' :: cr :: cB')) := by
  subst hP
  rw [LinkedKids_cons, LinkedKids_cons] at hL
  obtain ⟨hLc', hLcr, hLB⟩ := hL
  have hcrcnt := WF_count_le hcr
  have hcrc : Node.count cr = P.order / 2 := by omega
  obtain ⟨merged, habsorb, hWm, hcntm, hpm, hLm, hfm⟩ :=
    absorbRight_ok h c' cr hc' hcr (by omega) (by omega) (by omega) _ hLc' hLcr
  have heq := rebalance_mergeRight_eq P vr (P.order / 2) (Inner.mk pid (k :: kr :: rB') (c :: cr :: cB'))
    c' cr merged (by simp) (by simp) rfl hrc (by omega) habsorb
  have e1 : deleteIdiom (k :: kr :: rB') 1 = k :: rB' := by
    have := form_delete_next ([] : List K) rB' k kr
    simpa using this
  have e2 : deleteIdiom ((c :: cr :: cB').set 0 merged) 1 = merged :: cB' := by
    have := form_delete_next ([] : List (Node K V d)) cB' merged cr
    simpa using this
  refine ⟨Inner.mk pid (k :: rB') (merged :: cB'), decide ((k :: rB').length < P.order / 2), ?_, ?_, ?_, ?_,
    by simp, by simp, ?_, ?_, ?_⟩
  · rw [heq]; simp only [e1, e2]
  · refine WF_inner_of_entries h pid _ _ (by simp; omega) (by simp at hle ⊢; omega) (by omega) (by simp) ?_ ?_
    · intro k0 hk0; simp at hk0; subst hk0; exact hlo
    · rw [List.zip_cons_cons, Kids_cons]
      exact ⟨WF_set_m hWm (by omega), ltO_of_lt h hkkr hkrhi, hB⟩
  · intro hs; exact of_decide_eq_true hs
  · intro hs; right; have := of_decide_eq_false hs; simp at this ⊢; omega
  · rw [pairs_mk]
    simp only [List.flatMap_cons]
    rw [hpm, List.append_assoc]
  · show LinkedKids (Linked d) (Node.firstId (d := d)) after (merged :: cB')
    rw [LinkedKids_cons]
    exact ⟨hLm, hLB⟩
  · exact hfm

end Gobptree
