/-
  "Free theorems" about the flat view of a typed node: the pre-order list starts with the
  node itself, heights are bounded by the depth index, a node's children occur in the
  flat view one level below it, and siblings occur in the order of the `kids` array.
  "Occurs before" is phrased as a two-element sublist `[x, y] <+ l`.
-/
import Gobptree.Proofs.CSDefs

namespace Gobptree.Conc
open Gobptree

variable {K V : Type}

/-! ### lists -/

theorem getElem?_sublist_flatMap {α β : Type} (f : α → List β) :
    ∀ (l : List α) (j : Nat) (a : α), l[j]? = some a → (f a).Sublist (l.flatMap f) := by
  intro l
  induction l with
  | nil => intro j a h; simp at h
  | cons c rest ih =>
    intro j a h
    rw [List.flatMap_cons]
    cases j with
    | zero =>
      simp only [List.getElem?_cons_zero, Option.some.injEq] at h
      subst h
      exact List.sublist_append_left _ _
    | succ j =>
      simp only [List.getElem?_cons_succ] at h
      exact (ih j a h).trans (List.sublist_append_right _ _)

theorem getElem?_pair_sublist_flatMap {α β : Type} (f : α → List β) :
    ∀ (l : List α) (j j' : Nat) (a a' : α), l[j]? = some a → l[j']? = some a' → j < j' →
      (f a ++ f a').Sublist (l.flatMap f) := by
  intro l
  induction l with
  | nil => intro j j' a a' h; simp at h
  | cons c rest ih =>
    intro j j' a a' h h' hlt
    rw [List.flatMap_cons]
    cases j' with
    | zero => omega
    | succ j' =>
      simp only [List.getElem?_cons_succ] at h'
      cases j with
      | zero =>
        simp only [List.getElem?_cons_zero, Option.some.injEq] at h
        subst h
        exact List.Sublist.append (List.Sublist.refl _) (getElem?_sublist_flatMap f rest j' a' h')
      | succ j =>
        simp only [List.getElem?_cons_succ] at h
        exact (ih j j' a a' h h' (by omega)).trans (List.sublist_append_right _ _)

theorem idxOf_cons_ne' {c a : Nat} (l : List Nat) (h : c ≠ a) : (c :: l).idxOf a = l.idxOf a + 1 := by
  rw [List.idxOf_cons]
  have : (c == a) = false := by simpa using h
  rw [this]
  rfl

/-- `[a, b] <+ l` in a duplicate-free list: `a` sits strictly before `b` -/
theorem idxOf_lt_of_pair_sublist {l : List Nat} :
    ∀ {a b : Nat}, [a, b].Sublist l → l.Nodup → l.idxOf a < l.idxOf b := by
  induction l with
  | nil => intro a b h; cases h
  | cons c l ih =>
    intro a b h hn
    rw [List.nodup_cons] at hn
    cases h with
    | cons _ h' =>
      have ha : a ∈ l := h'.subset (by simp)
      have hb : b ∈ l := h'.subset (by simp)
      have hca : c ≠ a := fun e => hn.1 (e ▸ ha)
      have hcb : c ≠ b := fun e => hn.1 (e ▸ hb)
      rw [idxOf_cons_ne' _ hca, idxOf_cons_ne' _ hcb]
      exact Nat.succ_lt_succ (ih h' hn.2)
    | cons_cons _ h' =>
      have hb : b ∈ l := h'.subset (by simp)
      have hcb : c ≠ b := fun e => hn.1 (e ▸ hb)
      rw [List.idxOf_cons_self, idxOf_cons_ne' _ hcb]
      exact Nat.succ_pos _

theorem mem_of_lookup {β : Type} : ∀ (l : List (Nat × β)) (a : Nat) (b : β),
    l.lookup a = some b → (a, b) ∈ l := by
  intro l
  induction l with
  | nil => intro a b h; simp at h
  | cons p l ih =>
    intro a b h
    obtain ⟨x, y⟩ := p
    rw [List.lookup_cons] at h
    by_cases hx : a = x
    · subst hx
      simp only [beq_self_eq_true, Option.some.injEq] at h
      subst h
      exact List.mem_cons_self
    · have : (a == x) = false := by simpa using hx
      rw [this] at h
      exact List.mem_cons_of_mem _ (ih a b h)

theorem lookup_of_mem {β : Type} : ∀ (l : List (Nat × β)) (a : Nat) (b : β),
    (l.map Prod.fst).Nodup → (a, b) ∈ l → l.lookup a = some b := by
  intro l
  induction l with
  | nil => intro a b _ h; cases h
  | cons p l ih =>
    intro a b hn h
    obtain ⟨x, y⟩ := p
    simp only [List.map_cons, List.nodup_cons] at hn
    rw [List.lookup_cons]
    rcases List.mem_cons.mp h with h1 | h1
    · simp only [Prod.mk.injEq] at h1
      obtain ⟨rfl, rfl⟩ := h1
      simp
    · have hax : a ≠ x := by
        intro e
        subst e
        exact hn.1 (List.mem_map.mpr ⟨(a, b), h1, rfl⟩)
      have : (a == x) = false := by simpa using hax
      rw [this]
      exact ih a b hn.2 h1

/-! ### the flat view of a typed node -/

theorem shallow_height : ∀ {d : Nat} (n : Node K V d), (shallow n).height = d
  | 0, _ => rfl
  | _ + 1, _ => rfl

theorem flat_inner {d : Nat} (i : Inner K (Node K V d)) :
    flat (d := d + 1) i = (i.id, shallow (d := d + 1) i) :: i.kids.flatMap (flat (d := d)) := rfl

theorem shallow_inner_kids {d : Nat} (i : Inner K (Node K V d)) :
    (shallow (d := d + 1) i).kids = i.kids.map (Node.id (d := d)) := rfl

theorem flat_leaf (l : Leaf K V) : flat (d := 0) l = [(l.id, shallow (d := 0) l)] := rfl

theorem shallow_leaf_kids (l : Leaf K V) : (shallow (d := 0) l).kids = [] := rfl

theorem flat_head : ∀ {d : Nat} (n : Node K V d), ∃ tl, flat n = (Node.id n, shallow n) :: tl
  | 0, _ => ⟨[], rfl⟩
  | _ + 1, _ => ⟨_, rfl⟩

theorem self_mem_flat {d : Nat} (n : Node K V d) : (Node.id n, shallow n) ∈ flat n := by
  obtain ⟨tl, h⟩ := flat_head n
  rw [h]
  exact List.mem_cons_self

theorem flat_height_le : ∀ {d : Nat} (n : Node K V d) (p : Nat × Shallow K V), p ∈ flat n → p.2.height ≤ d := by
  intro d
  induction d with
  | zero =>
    intro n p hp
    rw [flat_leaf (n : Leaf K V)] at hp
    simp only [List.mem_singleton] at hp
    subst hp
    exact Nat.le_refl _
  | succ d ih =>
    intro n p hp
    rw [flat_inner (n : Inner K (Node K V d))] at hp
    rcases List.mem_cons.mp hp with h | h
    · subst h
      exact Nat.le_refl _
    · obtain ⟨k, _, hk⟩ := List.mem_flatMap.mp h
      exact Nat.le_succ_of_le (ih k p hk)

/-- a node's `j`-th child occurs in the flat view, one level below it -/
theorem flat_kid : ∀ {d : Nat} (n : Node K V d) (p : Nat) (sh : Shallow K V) (j c : Nat),
    (p, sh) ∈ flat n → sh.kids[j]? = some c →
    ∃ shc, (c, shc) ∈ flat n ∧ shc.height + 1 = sh.height := by
  intro d
  induction d with
  | zero =>
    intro n p sh j c hp hj
    rw [flat_leaf (n : Leaf K V)] at hp
    simp only [List.mem_singleton, Prod.mk.injEq] at hp
    rw [hp.2, shallow_leaf_kids (n : Leaf K V)] at hj
    simp at hj
  | succ d ih =>
    intro n p sh j c hp hj
    rw [flat_inner (n : Inner K (Node K V d))] at hp ⊢
    rcases List.mem_cons.mp hp with h | h
    · simp only [Prod.mk.injEq] at h
      obtain ⟨_, rfl⟩ := h
      rw [shallow_inner_kids (n : Inner K (Node K V d)), List.getElem?_map] at hj
      cases hk : (n : Inner K (Node K V d)).kids[j]? with
      | none => rw [hk] at hj; simp at hj
      | some k =>
        rw [hk] at hj
        simp only [Option.map_some, Option.some.injEq] at hj
        subst hj
        refine ⟨shallow k, List.mem_cons_of_mem _ ?_, ?_⟩
        · exact List.mem_flatMap.mpr ⟨k, List.mem_of_getElem? hk, self_mem_flat k⟩
        · rw [shallow_height, shallow_height]
    · obtain ⟨k, hk, hpk⟩ := List.mem_flatMap.mp h
      obtain ⟨shc, hc, hh⟩ := ih k p sh j c hpk hj
      exact ⟨shc, List.mem_cons_of_mem _ (List.mem_flatMap.mpr ⟨k, hk, hc⟩), hh⟩

/-- two children of a node occur in the flat view in the order of the `kids` array -/
theorem flat_siblings : ∀ {d : Nat} (n : Node K V d) (p : Nat) (sh : Shallow K V) (j j' c c' : Nat),
    (p, sh) ∈ flat n → sh.kids[j]? = some c → sh.kids[j']? = some c' → j < j' →
    ∃ shc shc', [(c, shc), (c', shc')].Sublist (flat n) ∧
      shc.height + 1 = sh.height ∧ shc'.height + 1 = sh.height := by
  intro d
  induction d with
  | zero =>
    intro n p sh j j' c c' hp hj
    rw [flat_leaf (n : Leaf K V)] at hp
    simp only [List.mem_singleton, Prod.mk.injEq] at hp
    rw [hp.2, shallow_leaf_kids (n : Leaf K V)] at hj
    simp at hj
  | succ d ih =>
    intro n p sh j j' c c' hp hj hj' hlt
    rw [flat_inner (n : Inner K (Node K V d))] at hp ⊢
    rcases List.mem_cons.mp hp with h | h
    · simp only [Prod.mk.injEq] at h
      obtain ⟨_, rfl⟩ := h
      rw [shallow_inner_kids (n : Inner K (Node K V d)), List.getElem?_map] at hj hj'
      cases hk : (n : Inner K (Node K V d)).kids[j]? with
      | none => rw [hk] at hj; simp at hj
      | some k =>
        cases hk' : (n : Inner K (Node K V d)).kids[j']? with
        | none => rw [hk'] at hj'; simp at hj'
        | some k' =>
          rw [hk] at hj
          rw [hk'] at hj'
          simp only [Option.map_some, Option.some.injEq] at hj hj'
          subst hj
          subst hj'
          refine ⟨shallow k, shallow k', List.Sublist.cons _ ?_, ?_, ?_⟩
          · refine List.Sublist.trans ?_
              (getElem?_pair_sublist_flatMap (flat (d := d)) _ j j' k k' hk hk' hlt)
            obtain ⟨tl, e⟩ := flat_head k
            obtain ⟨tl', e'⟩ := flat_head k'
            rw [e, e']
            refine List.Sublist.cons_cons _ ?_
            refine List.Sublist.trans ?_ (List.sublist_append_right _ _)
            exact List.Sublist.cons_cons _ (List.nil_sublist _)
          · rw [shallow_height, shallow_height]
          · rw [shallow_height, shallow_height]
    · obtain ⟨k, hk, hpk⟩ := List.mem_flatMap.mp h
      obtain ⟨shc, shc', hs, hh, hh'⟩ := ih k p sh j j' c c' hpk hj hj' hlt
      obtain ⟨i, hi⟩ := List.getElem?_of_mem hk
      exact ⟨shc, shc', List.Sublist.cons _
        (hs.trans (getElem?_sublist_flatMap (flat (d := d)) _ i k hi)), hh, hh'⟩

/-! ### the leaf chain -/

/-- in a chain, an entry whose `next` is `some nx` is directly followed by the entry `nx` -/
theorem chain_next : ∀ (l : List (Nat × Shallow K V)) (p : Nat × Shallow K V) (nx : Nat),
    Chain l → p ∈ l → p.2.next = some nx → ∃ q, q.1 = nx ∧ [p, q].Sublist l := by
  intro l
  induction l with
  | nil => intro p nx _ h; cases h
  | cons a l ih =>
    intro p nx hc hp hn
    cases l with
    | nil =>
      simp only [List.mem_singleton] at hp
      subst hp
      simp only [Chain] at hc
      rw [hc] at hn
      cases hn
    | cons b rest =>
      simp only [Chain] at hc
      rcases List.mem_cons.mp hp with h | h
      · subst h
        rw [hc.1] at hn
        simp only [Option.some.injEq] at hn
        exact ⟨b, hn, List.Sublist.cons_cons _ (List.Sublist.cons_cons _ (List.nil_sublist _))⟩
      · obtain ⟨q, hq, hs⟩ := ih p nx hc.2 h hn
        exact ⟨q, hq, List.Sublist.cons _ hs⟩

end Gobptree.Conc
