/-
  The structural invariant holds in every reachable configuration of every family of
  disciplined client programs, from every initial tree satisfying it (in particular a
  fresh tree of any even order ≥ 2), provided the order is at least 4 or no program
  contains a Delete (`hdel`).  Consequences: no thread ever panics, every reachable configuration is
  ranked (hence not deadlocked), every step respects the write frame.
-/
import Gobptree.Proofs.CSStep2
import Gobptree.Proofs.CSUp
import Gobptree.Proofs.CSDel

namespace Gobptree.Conc
open Gobptree

variable {K V : Type}

theorem parkLive_of_live {p : Park K V} (h : p.live) : parkLive p := by
  cases p <;> first | exact h | trivial

/-- the per-block results, assembled -/
theorem blocks_ok : Blocks K V where
  start := fun t s op hole ht hc hf => startOp_post t s op hole ht hc hf
  startLive := fun t s op p h => parkLive_of_live (startOp_park_live t s op p h)
  resU := fun P t s k H hole hnd hpre hk hc hkp hcov => resume_post_U P t s k H hole hnd hpre hk hc hkp hcov
  resD := fun P t s k H hd h4 hpre hk hkp hcov => resume_post_D P t s k H hd h4 hpre hk hkp hcov
  resLive := fun P t s k p h => parkLive_of_live (resume_park_live P t s k p h)

/-- client programs respect the cursor discipline -/
def Disciplined (progs : List (List (COp K V))) : Prop := ∀ p ∈ progs, disciplined .N p = true

theorem init_cinv (P : Params K) (tree : Tree K V) (progs : List (List (COp K V)))
    (ht : TreeOk none tree) (ho : tree.order = P.order) (hp : PadOk P) (hd : Disciplined progs)
    (hdel : 4 ≤ tree.order ∨ NoDelete progs) :
    CInv (Config.init P tree progs) := by
  have hths : ∀ th ∈ (Config.init P tree progs).threads,
      ∃ p ∈ progs, th = { prog := p, pc := 0, park := .start, held := [], cursor := none, exhausted := false } := by
    intro th hth
    simp only [Config.init, List.mem_map] at hth
    obtain ⟨p, hp, e⟩ := hth
    exact ⟨p, hp, e.symm⟩
  have hhole : holeOf (Config.init P tree progs).threads = none := by
    apply holeOf_all_none
    intro b hb
    obtain ⟨p, _, e⟩ := hths b hb
    rw [e]; rfl
  refine ⟨⟨by rw [hhole]; exact ht, ?_, ho, hp, init_ok P tree progs, init_owner P tree progs, ?_⟩, ?_, rfl, ?_⟩
  · intro th hth
    obtain ⟨p, _, e⟩ := hths th hth
    rw [e]; exact ⟨trivial, trivial⟩
  · intro i j a b hi hj hij x hx
    have ham : a ∈ (Config.init P tree progs).threads := List.mem_of_getElem? hi
    obtain ⟨p, _, e⟩ := hths a ham
    rw [e] at hx; cases hx
  · intro th hth
    obtain ⟨p, hpm, e⟩ := hths th hth
    rw [e]
    exact ⟨hd p hpm, rfl⟩
  · rcases hdel with h4 | hnd
    · exact Or.inl h4
    · right
      intro th hth
      obtain ⟨p, hpm, e⟩ := hths th hth
      rw [e]
      exact ⟨rfl, hnd p hpm⟩

/-- **the structural invariant holds in every reachable configuration** -/
theorem reachable_cinv (P : Params K) (tree : Tree K V) (progs : List (List (COp K V)))
    (ht : TreeOk none tree) (ho : tree.order = P.order) (hp : PadOk P) (hd : Disciplined progs)
    (hdel : 4 ≤ tree.order ∨ NoDelete progs)
    (c : Config K V) (hr : Reachable (Config.init P tree progs) c) : CInv c := by
  induction hr with
  | refl => exact init_cinv P tree progs ht ho hp hd hdel
  | @step c1 c2 t _ hs ih => exact (step_cinv blocks_ok c1 c2 t hs ih).1

/-- a fresh tree satisfies the structural invariant -/
theorem new_treeOk (o : Nat) (h2 : 2 ≤ o) (he : o % 2 = 0) : TreeOk none (Tree.new o : Tree K V) := by
  refine ⟨⟨?_, ?_⟩, ?_, ?_, h2, fun h => absurd rfl h, he⟩
  · show ([0] : List Nat).Nodup
    simp
  · intro i hi
    have : i = 0 := by simpa [Tree.ids, Tree.flat, Tree.new, flat] using hi
    subst this
    show 0 < 1
    omega
  · intro p hp
    have : p = (0, shallow (d := 0) ({ id := 0, keys := [], vals := [], next := none } : Leaf K V)) := by
      simpa [Tree.flat, Tree.new, flat] using hp
    subst this
    refine ⟨by simp [shallow, Tree.new], ?_, ?_, ?_⟩
    · simp [minOf, Tree.rootId, Tree.new, Node.id, shallow]
    · intro _; simp [shallow]
    · intro h; simp [shallow] at h
  · show Chain (flatLeaves [(0, shallow (d := 0) ({ id := 0, keys := [], vals := [], next := none } : Leaf K V))])
    simp [flatLeaves, shallow, Chain]

end Gobptree.Conc
