/-
  Delete's continuations keep the structural invariant: `resume_post_D`.
-/
import Gobptree.Proofs.CSDelUnwind

namespace Gobptree.Conc
open Gobptree

variable {K V : Type}

theorem keepOf_heldD (H : List Lk) (n x : Nat) (h : Lk.node x ∈ H) : keepOf H n x = false := by
  simp [keepOf, h]

theorem cursorOk_of_closed (t : Tree K V) (cur : Option (Option Nat × Int)) (h : cursorLocks cur = []) :
    CursorOk t false cur := by
  match cur, h with
  | none, _ => trivial
  | some (none, _), _ => trivial
  | some (some leaf, i), h => simp [cursorLocks] at h

theorem kontPre_of_del {cur : Option (Option Nat × Int)} {k : Kont K V} (hk : isDelK k = true)
    (h : cursorLocks cur = []) : KontPre cur k ∧ ∀ t : Tree K V, kontExtra t k = [] := by
  cases k <;> simp [isDelK] at hk <;> exact ⟨h, fun _ => rfl⟩

theorem closed_of_kontPre {cur : Option (Option Nat × Int)} {k : Kont K V} (hk : isDelK k = true)
    (h : KontPre cur k) : cursorLocks cur = [] := by
  cases k <;> simp [isDelK] at hk <;> exact h

/-- from the outcome of a stretch of Delete's code to the interface `Post` -/
theorem post_of_dpost {H : List Lk} {s s0 s' : St K V} {fl : Flow K V}
    (h0t : s0.tree = s.tree) (h0c : s0.cursor = s.cursor)
    (hcur : cursorLocks s.cursor = []) (htree : Lk.tree ∈ H)
    (h : DPost (keepOf H s.tree.nextId) s0 s' fl) : Post H (flowHole fl) s s' fl := by
  have hc' : cursorLocks s'.cursor = [] := by rw [h.cursor, h0c]; exact hcur
  have hf := h.frame
  have hn := h.nextId
  have ho := h.order
  rw [h0t] at hf hn ho
  refine ⟨h.nopanic, h.tree, hf, by rw [hn]; exact Nat.le_refl _,
    Or.inl htree, ho, ?_, cursorOk_of_closed _ _ hc'⟩
  intro p hp
  obtain ⟨l, k, rfl, hk, hko⟩ := h.kont p hp
  obtain ⟨h1, h2⟩ := kontPre_of_del (cur := s'.cursor) hk hc'
  refine ⟨hko, h1, ?_⟩
  intro x hx
  simp only [parkExtra, h2] at hx
  cases hx

/-- **Delete's continuations**: resuming a parked Delete from a state that satisfies the
    tree invariant (with the thread's own hole) runs without panic up to the next park and
    re-establishes the invariant with the hole the new park prescribes. -/
theorem resume_post_D (P : Params K) (t : Nat) (s : St K V) (k : Kont K V) (H : List Lk)
    (hd : isDelK k = true) (h4 : 4 ≤ s.tree.order)
    (hpre : Pre P (kontHole k) s) (hk : KontOk s.tree k) (hkp : KontPre s.cursor k)
    (hcov : Covers H s.cursor k) :
    Post H (flowHole (resume P t s k).2) s (resume P t s k).1 (resume P t s k).2 := by
  have hcur : cursorLocks s.cursor = [] := closed_of_kontPre hd hkp
  have hkeep : ∀ x, Lk.node x ∈ H → keepOf H s.tree.nextId x = false := fun x hx => keepOf_heldD H _ x hx
  obtain ⟨hheld, hlock, _⟩ := hcov
  cases k with
  | roTree _ _ => simp [isDelK] at hd
  | roNode _ _ _ _ => simp [isDelK] at hd
  | upTree _ _ _ => simp [isDelK] at hd
  | upRoot _ _ _ _ => simp [isDelK] at hd
  | upRootSib _ _ _ _ _ => simp [isDelK] at hd
  | upChild _ _ _ _ _ _ => simp [isDelK] at hd
  | upSib _ _ _ _ _ _ => simp [isDelK] at hd
  | upCallback _ _ _ _ => simp [isDelK] at hd
  | hop _ _ => simp [isDelK] at hd
  | paused => simp [isDelK] at hd
  | delTree key =>
    have htree : Lk.tree ∈ H := hlock _ rfl
    apply post_of_dpost (s := s) (s0 := s) rfl rfl hcur htree
    simp only [resume]
    refine ⟨by simp, hpre.tree, FrameEq.refl _ _, rfl, rfl, rfl, ?_⟩
    intro p hp
    cases hp
    exact ⟨_, _, rfl, rfl, rfl⟩
  | delRoot key r =>
    have htree : Lk.tree ∈ H := hheld _ (by simp [kontHeld])
    have hr : Lk.node r ∈ H := hlock _ rfl
    apply post_of_dpost (s := s) (s0 := s.acq t (.node r)) rfl rfl hcur htree
    simp only [resume]
    have hk' : r = s.tree.rootId := hk
    exact delGo_post P hpre.pad t key r H _ hkeep hr (s.acq t (.node r)) [] r hpre.tree h4 hpre.order hk' rfl
      (by intro l hl; cases hl)
  | delLeft key frames node index left root =>
    have htree : Lk.tree ∈ H := hheld _ (by simp [kontHeld])
    obtain ⟨hroot, hfr, hpos, hl, c, hc⟩ := hk
    obtain ⟨d, i, hf, _, kc, hkc, hkcid⟩ := inner_of_kidAt hc
    apply post_of_dpost (s := s) (s0 := s) rfl rfl hcur htree
    simp only [resume, acq_tree, hf, innerKidId?, hkc, Option.map_some]
    refine ⟨by simp, hpre.tree, FrameEq.refl _ _, rfl, rfl, rfl, ?_⟩
    intro p hp
    cases hp
    refine ⟨_, _, rfl, rfl, hroot, hfr, ?_, hpos, hl⟩
    show s.tree.kidAt node index = some (Node.id kc)
    rw [hkcid]; exact hc
  | delChild key frames node index left child root =>
    have htree : Lk.tree ∈ H := hheld _ (by simp [kontHeld])
    have hrootH : Lk.node root ∈ H := hheld _ (by simp [kontHeld])
    obtain ⟨hroot, hfr, hfrm⟩ := hk
    apply post_of_dpost (s := s) (s0 := s.acq t (.node child)) rfl rfl hcur htree
    simp only [resume]
    refine delGo_post P hpre.pad t key root H _ hkeep hrootH (s.acq t (.node child))
      (⟨node, index, left, child⟩ :: frames) child hpre.tree h4 hpre.order hroot ⟨rfl, hfrm, hfr⟩ ?_
    intro l hl
    simp only [framesHeld, List.mem_append, List.mem_singleton] at hl
    rcases hl with hl | hl | hl
    · exact hheld _ (by simp [kontHeld, hl])
    · exact hheld _ (by simp [kontHeld, hl])
    · rw [hl]; exact hlock _ rfl
  | delRight key rest fr right root =>
    have htree : Lk.tree ∈ H := hheld _ (by simp [kontHeld])
    have hrootH : Lk.node root ∈ H := hheld _ (by simp [kontHeld])
    obtain ⟨hroot, hfr, hr, hsm⟩ := hk
    apply post_of_dpost (s := s) (s0 := s.acq t (.node right)) rfl rfl hcur htree
    simp only [resume]
    have hok : TreeOk (some fr.child) s.tree := hpre.tree
    refine delRightArrive_post P hpre.pad t key root H _ hkeep hrootH (s.acq t (.node right)) rest fr right
      ⟨by simpa using hok.prime h4, hpre.order, hroot, hfr, fun _ => hsm⟩ ?_ hr (hlock _ rfl)
    intro l hl
    exact hheld _ (by simp only [kontHeld, List.mem_cons]; right; right; exact hl)

end Gobptree.Conc
