/-
  From the first stretch of a step (a `resume` or the first `startOp`) to the thread's next
  park: the operations started afterwards do not touch the tree; what has to be carried
  is the thread's own invariant (continuation facts, cursor, client discipline).
-/
import Gobptree.Proofs.CSFrame
import Gobptree.Proofs.CSDiscLemmas

namespace Gobptree.Conc
open Gobptree

variable {K V : Type}

/-- what the assembly needs from `startOp` (proved in `CSUp`) -/
def StartOpPost (K V : Type) : Prop :=
  ∀ (t : Nat) (s : St K V) (op : COp K V) (hole : Option Nat),
    TreeOk hole s.tree → CursorOk s.tree false s.cursor → opFault s op = false →
    (startOp t s op).1.tree = s.tree ∧ (startOp t s op).2 ≠ .panic ∧
    (∀ p, (startOp t s op).2 = .park p →
        parkKontOk s.tree p ∧ ParkPre (startOp t s op).1.cursor p ∧ parkExtra s.tree p = [] ∧ parkHole p = none) ∧
    CursorOk s.tree (flowIsHop (startOp t s op).2) (startOp t s op).1.cursor

def StartOpLive (K V : Type) : Prop :=
  ∀ (t : Nat) (s : St K V) (op : COp K V) (p : Park K V), (startOp t s op).2 = .park p → parkLive p

structure LoopInv (T : Tree K V) (N0 : Nat) (th : Thread K V) (s : St K V) (fl : Flow K V) (pc : Nat) : Prop where
  tree    : s.tree = T
  nopanic : fl ≠ .panic
  kont    : ∀ p, fl = .park p → parkKontOk T p ∧ ParkPre s.cursor p ∧ (∀ x ∈ parkExtra T p, N0 ≤ x) ∧ parkLive p
  cursor  : CursorOk T (flowIsHop fl) s.cursor
  disc    : ∃ st', disciplined st' (th.prog.drop (pc + 1)) = true ∧ flowAbs st' fl s.cursor s.exhausted

structure LoopOut (T : Tree K V) (N0 : Nat) (th : Thread K V) (fl0 : Flow K V) (r : Thread K V × St K V × Bool) : Prop where
  alive : r.2.2 = false
  tree  : r.2.1.tree = T
  sok   : ThreadSOk T r.1
  disc  : DiscOk r.1
  extra : ∀ x ∈ parkExtra T r.1.park, N0 ≤ x
  hole  : parkHole r.1.park = flowHole fl0
  prog  : r.1.prog = th.prog

theorem cursor_ge_of_ok {T : Tree K V} {b : Bool} {c : Option (Option Nat × Int)} (h : CursorOk T b c) :
    ∀ leaf i, c = some (some leaf, i) → -1 ≤ i := by
  intro leaf i e
  subst e
  obtain ⟨_, _, _, h3, _⟩ := h
  exact h3

theorem disciplined_cons {st : CSt} {op : COp K V} {rest : List (COp K V)}
    (h : disciplined st (op :: rest) = true) : ∃ st', discStep st op = some st' ∧ disciplined st' rest = true := by
  unfold disciplined at h
  cases hs : discStep st op with
  | none => rw [hs] at h; cases h
  | some st' => rw [hs] at h; exact ⟨st', rfl, h⟩

theorem loop_sinv (hS : StartOpPost K V) (hL : StartOpLive K V) (t : Nat) (th : Thread K V) (T : Tree K V)
    (hole : Option Nat) (N0 : Nat) (hT : TreeOk hole T) :
    ∀ (fuel : Nat) (s : St K V) (fl : Flow K V) (pc : Nat), LoopInv T N0 th s fl pc →
      LoopOut T N0 th fl (threadLoop t th fuel s fl pc) := by
  intro fuel
  induction fuel with
  | zero =>
    intro s fl pc hi
    cases fl with
    | panic => exact absurd rfl hi.nopanic
    | park p =>
      obtain ⟨h1, h2, h3, h4⟩ := hi.kont p rfl
      obtain ⟨st', hd1, hd2⟩ := hi.disc
      refine ⟨rfl, hi.tree, ⟨h1, hi.cursor⟩, ?_, h3, rfl, rfl⟩
      cases p with
      | start => exact absurd h4 id
      | finished => trivial
      | want l k => exact ⟨st', hd1, hd2⟩
      | yielded k => exact ⟨st', hd1, hd2⟩
    | done r =>
      refine ⟨rfl, hi.tree, ⟨trivial, hi.cursor⟩, trivial, ?_, rfl, rfl⟩
      intro x hx; cases hx
  | succ fuel ih =>
    intro s fl pc hi
    cases fl with
    | panic => exact absurd rfl hi.nopanic
    | park p =>
      obtain ⟨h1, h2, h3, h4⟩ := hi.kont p rfl
      obtain ⟨st', hd1, hd2⟩ := hi.disc
      refine ⟨rfl, hi.tree, ⟨h1, hi.cursor⟩, ?_, h3, rfl, rfl⟩
      cases p with
      | start => exact absurd h4 id
      | finished => trivial
      | want l k => exact ⟨st', hd1, hd2⟩
      | yielded k => exact ⟨st', hd1, hd2⟩
    | done r =>
      unfold threadLoop
      cases hop : th.prog[pc + 1]? with
      | none =>
        simp only [hop]
        refine ⟨rfl, hi.tree, ⟨trivial, hi.cursor⟩, trivial, ?_, rfl, rfl⟩
        intro x hx; cases hx
      | some op =>
        simp only [hop]
        obtain ⟨st', hd1, hd2⟩ := hi.disc
        -- the rest of the program starts with `op`
        have hdrop : th.prog.drop (pc + 1) = op :: th.prog.drop (pc + 1 + 1) := by
          have hlt : pc + 1 < th.prog.length := by
            rcases Nat.lt_or_ge (pc + 1) th.prog.length with h | h
            · exact h
            · rw [List.getElem?_eq_none h] at hop; cases hop
          rw [List.drop_eq_getElem_cons hlt]
          congr 1
          rw [List.getElem?_eq_getElem hlt] at hop
          exact Option.some.inj hop
        rw [hdrop] at hd1
        obtain ⟨st'', hstep, hrest⟩ := disciplined_cons hd1
        let s1 := (s.note t (.ret pc r)).note t (.inv (pc + 1))
        have hs1t : s1.tree = T := hi.tree
        have hs1c : s1.cursor = s.cursor := rfl
        have hs1e : s1.exhausted = s.exhausted := rfl
        have hcur : CursorOk s1.tree false s1.cursor := by rw [hs1t, hs1c]; exact hi.cursor
        have habs := startOp_abs t s1 op st' st'' (by rw [hs1c, hs1e]; exact hd2) hstep
          (by rw [hs1c]; exact cursor_ge_of_ok hi.cursor)
        obtain ⟨hs_tree, hs_np, hs_park, hs_cur⟩ := hS t s1 op hole (by rw [hs1t]; exact hT) hcur habs.1
        have hres := ih (startOp t s1 op).1 (startOp t s1 op).2 (pc + 1)
          { tree := by rw [hs_tree, hs1t]
            nopanic := hs_np
            kont := by
              intro p hp
              obtain ⟨a, b, c, _⟩ := hs_park p hp
              refine ⟨by rw [← hs1t]; exact a, b, ?_, hL t s1 op p hp⟩
              rw [← hs1t, c]; intro x hx; cases hx
            cursor := by rw [← hs1t]; exact hs_cur
            disc := ⟨st'', hrest, habs.2⟩ }
        refine ⟨hres.alive, hres.tree, hres.sok, hres.disc, hres.extra, ?_, hres.prog⟩
        rw [hres.hole]
        cases hfl : (startOp t s1 op).2 with
        | panic => rfl
        | done _ => rfl
        | park p => exact (hs_park p hfl).2.2.2

end Gobptree.Conc
