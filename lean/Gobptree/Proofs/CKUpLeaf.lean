/-
  Key-order block lemmas for the non-Delete continuations, part 2: the last stretch of an
  Insert/Update block (`upLeaf`, `upContinue`) and the return of the update callback.
-/
import Gobptree.Proofs.CKUpBase

namespace Gobptree.Conc
open Gobptree

variable {K V : Type} {lt : K → K → Bool}

/-- a stretch that changes neither the tree nor the log -/
theorem UpEff.unchanged {t : Nat} {key : K} {f : Option V → V} {s s' : St K V} {fl : Flow K V}
    (hord : OrdTree lt s.tree) (htree : s'.tree = s.tree) (hevs : s'.evs = s.evs)
    (hdone : ∀ r, fl ≠ .done r) (hk : ∀ p, fl = .park p → parkKPos lt s.tree p) :
    UpEff lt t key f s s' fl where
  ord := by rw [htree]; exact hord
  done := fun r hr => absurd hr (hdone r)
  park := fun _ _ => by rw [htree]
  cb := fun arg ha => Or.inl (by rw [hevs] at ha; exact ha)
  kpos := fun p hp => by rw [htree]; exact hk p hp
  routes := fun _ => by rw [htree]

/-- parallel arrays of a leaf of a structurally sound tree -/
theorem leaf_par {hole : Option Nat} {t : Tree K V} (hok : TreeOk hole t) {n : Nat} {l : Leaf K V}
    (hf : t.find n = some ⟨0, l⟩) : l.keys.length = l.vals.length := by
  obtain ⟨_, hl⟩ := find_leaf_look hf
  exact ((occ_of_look hok.occ hl).2.2.1 rfl).1

/-- the leaf part of Insert/Update -/
theorem upLeaf_keff (P : Params K) (hK : KParams lt P) (hpad : PadOk P) (t : Nat) (s : St K V) (key : K)
    (f : Option V → V) (y : Option Bool) (n : Nat) (l : Leaf K V) {hole : Option Nat}
    (hok : TreeOk hole s.tree) (hord : OrdTree lt s.tree)
    (hfind : s.tree.find n = some ⟨0, l⟩) (hin : InBounds lt s.tree key n) :
    UpEff lt t key f s (upLeaf P t s key f y n l).1 (upLeaf P t s key f y n l).2 := by
  obtain ⟨hid, hlook⟩ := find_leaf_look hfind
  have hlen := leaf_par hok hfind
  have hids := hok.ids.1
  have hpar := parTree_of_treeOk hok
  have hfind' : s.tree.find l.id = some ⟨0, l⟩ := by rw [hid]; exact hfind
  have hin' : InBounds lt s.tree key l.id := by rw [hid]; exact hin
  unfold upLeaf
  cases hu : Leaf.upsert P l key f with
  | error e =>
    simp only
    exact UpEff.unchanged hord rfl rfl (by intro r; simp) (by intro p hp; cases hp)
  | ok r =>
    obtain ⟨l', arg⟩ := r
    obtain ⟨harg, hO, _, habs, hroutes, _⟩ :=
      putLeaf_upsert hK.swo P hK.lt hpad l hfind' hids hpar hord hlen key f hin' l' arg hu
    simp only
    cases y with
    | none =>
      simp only
      refine ⟨hO, fun _ _ => habs, (fun p hp => by cases hp), ?_, (fun p hp => by cases hp), hroutes⟩
      intro a ha
      have ha' : CbIn t a (Ev.rel t (Lk.node n) :: s.evs) := ha
      rw [cbIn_rel] at ha'
      exact Or.inl ha'
    | some b =>
      cases b with
      | false =>
        simp only
        refine ⟨hO, fun _ _ => habs, (fun p hp => by cases hp), ?_, (fun p hp => by cases hp), hroutes⟩
        intro a ha
        have ha' : CbIn t a (Ev.rel t (Lk.node n) :: Ev.note t (Note.cb arg) :: s.evs) := ha
        rw [cbIn_rel, cbIn_note_cb] at ha'
        rcases ha' with e | h
        · exact Or.inr (by rw [e, harg])
        · exact Or.inl h
      | true =>
        simp only
        refine ⟨hord, (fun r hr => by cases hr), fun _ _ => rfl, ?_, ?_, fun _ => rfl⟩
        · intro a ha
          have ha' : CbIn t a (Ev.note t (Note.cb arg) :: s.evs) := ha
          rw [cbIn_note_cb] at ha'
          rcases ha' with e | h
          · exact Or.inr (by rw [e, harg])
          · exact Or.inl h
        · intro p hp
          cases hp
          refine ⟨hin, _, hlook, ?_⟩
          rw [harg]
          obtain ⟨a, b, hab, _⟩ := hin'
          exact lookup_of_find hK.swo hfind' hids hpar hord key ⟨a, b, hab⟩

/-- continue the Insert/Update descent at node `n`, which is `InBounds` for the key -/
theorem upContinue_keff (P : Params K) (hK : KParams lt P) (hpad : PadOk P) (t : Nat) (s : St K V) (key : K)
    (f : Option V → V) (y : Option Bool) (n : Nat) {hole : Option Nat}
    (hok : TreeOk hole s.tree) (hord : OrdTree lt s.tree) (hin : InBounds lt s.tree key n) :
    UpEff lt t key f s (upContinue P t s key f y n).1 (upContinue P t s key f y n).2 := by
  unfold upContinue
  cases hfind : s.tree.find n with
  | none =>
    simp only
    exact UpEff.unchanged hord rfl rfl (by intro r; simp) (by intro p hp; cases hp)
  | some a =>
    simp only
    cases hleaf : leafOf? a with
    | some l =>
      simp only
      rw [leafOf?_some hleaf] at hfind
      exact upLeaf_keff P hK hpad t s key f y n l hok hord hfind hin
    | none =>
      simp only
      obtain ⟨d, p, rfl⟩ := leafOf?_none hleaf
      have hr : innerRunts? (⟨d + 1, p⟩ : AnyNode K V) = some p.runts := rfl
      rw [hr]
      simp only
      cases hkid : innerKidId? (⟨d + 1, p⟩ : AnyNode K V) (searchLE P.lt key p.runts) with
      | none =>
        simp only
        exact UpEff.unchanged hord rfl rfl (by intro r; simp) (by intro p hp; cases hp)
      | some c =>
        simp only
        refine UpEff.unchanged hord rfl rfl (by intro r; simp) ?_
        intro q hq
        cases hq
        refine ⟨hin, ?_⟩
        rw [keysOf_find hfind, hK.lt]

/-- the update callback returned: the leaf is written -/
theorem upCallback_kpost (P : Params K) (hK : KParams lt P) (hpad : PadOk P) (t : Nat) (s : St K V) (key : K)
    (f : Option V → V) (leaf : Nat) (arg : Option V) (H : List Lk) {hole : Option Nat}
    (hok : TreeOk hole s.tree) (hord : OrdTree lt s.tree)
    (hk : KontOk s.tree (.upCallback key f leaf arg))
    (hpos : KPos lt s.tree (.upCallback key f leaf arg)) :
    KPost lt t (.upCallback key f leaf arg) s (resume P t s (.upCallback key f leaf arg)).1
        (resume P t s (.upCallback key f leaf arg)).2 ∧
      StableRoutes lt H s.tree (resume P t s (.upCallback key f leaf arg)).1.tree := by
  obtain ⟨hin, sh, hlook, harg⟩ := hpos
  obtain ⟨⟨sh0, hl0, h0⟩, _⟩ := hk
  obtain ⟨a, hfind, hsh, _⟩ := find_some_of_look hl0
  obtain ⟨l, rfl, hleaf⟩ := any_leaf a (by rw [hsh]; exact h0)
  have hids := hok.ids.1
  have hpar := parTree_of_treeOk hok
  have hon : OnRoute lt s.tree key leaf := by
    obtain ⟨a, b, hab, _⟩ := hin
    exact ⟨a, b, hab⟩
  obtain ⟨hid, hl⟩ := find_leaf_look hfind
  have hlen := leaf_par hok hfind
  have hfind' : s.tree.find l.id = some ⟨0, l⟩ := by rw [hid]; exact hfind
  have hin' : InBounds lt s.tree key l.id := by rw [hid]; exact hin
  -- what the callback saw is what the map holds
  have harg' : arg = Spec.lookup lt s.tree.abs key := by
    rw [hlook] at hl
    cases hl
    rw [harg]
    exact (lookup_of_find hK.swo hfind hids hpar hord key hon).symm
  obtain ⟨l', arg', hup, _⟩ := Leaf.upsert_spec P hpad l key f hlen
  obtain ⟨_, hO, _, habs, hroutes, _⟩ :=
    putLeaf_upsert hK.swo P hK.lt hpad l hfind' hids hpar hord hlen key f hin' l' arg' hup
  simp only [resume]
  rw [hfind]
  simp only
  rw [hleaf]
  simp only
  rw [hup]
  simp only
  exact ⟨⟨hO, ⟨habs, harg'⟩, fun p hp => by cases hp⟩, StableRoutes.of_routes hroutes⟩

end Gobptree.Conc
