/-
  The linearizability invariant: a decorated history (with linearization points) whose
  visible part is the history extracted from the log, whose `lin` events replay to the
  abstract map of the current tree, and the bookkeeping of every thread's current operation.
  This file: the definitions and the loop of a scheduler step after its first stretch.
-/
import Gobptree.Proofs.CLinNotes

namespace Gobptree.Conc
open Gobptree Gobptree.Lin

variable {K V : Type}

/-! ### small facts on decorated histories -/

theorem visible_append_lin (h : List (HEv K V)) (t i : Nat) : visible (h ++ [HEv.lin t i]) = visible h := by
  simp [visible, List.filter_append, HEv.isLin]

theorem visible_append_inv (h : List (HEv K V)) (t i : Nat) (op : Op K V) :
    visible (h ++ [HEv.inv t i op]) = visible h ++ [HEv.inv t i op] := by
  simp [visible, List.filter_append, HEv.isLin]

theorem visible_append_ret (h : List (HEv K V)) (t i : Nat) (out : Out V) :
    visible (h ++ [HEv.ret t i out]) = visible h ++ [HEv.ret t i out] := by
  simp [visible, List.filter_append, HEv.isLin]

theorem outOf_panic (cop : COp K V) (cb : Option (Option V)) : outOf cop (.panic : Res K V) cb = none := by
  cases cop <;> rfl

theorem outOf_none_of_opOf (cop : COp K V) (r : Res K V) (cb : Option (Option V)) (h : opOf cop = none) :
    outOf cop r cb = none := by
  cases cop <;> first | rfl | cases h

/-! ### bookkeeping -/

/-- an operation in progress with continuation `k`: invoked, not yet linearized (`post = false`)
    or, for a Delete that has removed its key and is unwinding (`post = true`), linearized;
    `k` belongs to it; inside the callback, the callback note has been logged with the
    remembered argument -/
def KBk (st : LinState K V) (cbt : Option (Option V)) (t pc : Nat) (cop : COp K V) (k : Kont K V) (post : Bool) : Prop :=
  (∀ op, opOf cop = some op → st.status t pc = if post then .linearized op .done else .invoked op) ∧ KontFor cop k ∧
    (∀ arg, cbArg k = some arg → cbt = some arg)

def ParkBk (st : LinState K V) (cbt : Option (Option V)) (t pc : Nat) (ocop : Option (COp K V)) : Park K V → Prop
  | .start => pc = 0 ∧ st.status t 0 = .fresh
  | .finished => True
  | .want _ k => ∃ cop, ocop = some cop ∧ KBk st cbt t pc cop k (postK k)
  | .yielded k => ∃ cop, ocop = some cop ∧ KBk st cbt t pc cop k false

structure ThreadBk (st : LinState K V) (cbt : Option (Option V)) (t : Nat) (th : Thread K V) : Prop where
  fresh : ∀ i, th.pc < i → st.status t i = .fresh
  park  : ParkBk st cbt t th.pc th.prog[th.pc]? th.park

/-- bookkeeping at the end of a stretch -/
def FlowBk (st : LinState K V) (cbt : Option (Option V)) (t pc : Nat) (ocop : Option (COp K V)) : Flow K V → Prop
  | .panic => True
  | .park p => ParkBk st cbt t pc ocop p
  | .done r => ∀ cop op, ocop = some cop → opOf cop = some op →
      ∃ out, st.status t pc = .linearized op out ∧ outOf cop r cbt = some out

section Step

variable (lt : K → K → Bool) (init : List (K × V)) (progs : Nat → List (COp K V)) (t : Nat)
  (st0 : LinState K V) (cb0 : Nat → Option (Option V))

/-- what holds of the decorated history all along a step of thread `t` -/
structure Base (m : List (K × V)) (evs : List (Ev K V)) (h : List (HEv K V)) : Prop where
  pts : Points lt init h m
  vis : visible h = (hx progs evs).evs
  oth : ∀ t' i, t' ≠ t → (linState lt init h).status t' i = st0.status t' i
  ocb : ∀ t', t' ≠ t → (hx progs evs).cb t' = cb0 t'

variable {lt init progs t st0 cb0}

theorem Base.quiet {m : List (K × V)} {evs : List (Ev K V)} {h : List (HEv K V)}
    (b : Base lt init progs t st0 cb0 m evs h) (new : List (Ev K V)) (hq : new.all (quietB t) = true) :
    Base lt init progs t st0 cb0 m (new ++ evs) h := by
  obtain ⟨h1, h2, _⟩ := hx_quiet progs t evs new hq
  exact ⟨b.pts, by rw [h1]; exact b.vis, b.oth, fun t' hne => by rw [h2 t' hne]; exact b.ocb t' hne⟩

theorem Base.silent {m : List (K × V)} {evs : List (Ev K V)} {h : List (HEv K V)}
    (b : Base lt init progs t st0 cb0 m evs h) (new : List (Ev K V)) (hq : new.all silentB = true) :
    Base lt init progs t st0 cb0 m (new ++ evs) h := by
  have := hx_silent progs evs new hq
  exact ⟨b.pts, by rw [this]; exact b.vis, b.oth, fun t' hne => by rw [this]; exact b.ocb t' hne⟩

/-- the linearization point -/
theorem Base.lin {m : List (K × V)} {evs : List (Ev K V)} {h : List (HEv K V)}
    (b : Base lt init progs t st0 cb0 m evs h) {pc : Nat} {op : Op K V}
    (hs : (linState lt init h).status t pc = .invoked op) :
    Base lt init progs t st0 cb0 (Spec.step lt m op).1 evs (h ++ [HEv.lin t pc]) ∧
      (linState lt init (h ++ [HEv.lin t pc])).status t pc = .linearized op (Spec.step lt m op).2 ∧
      (∀ i, i ≠ pc → (linState lt init (h ++ [HEv.lin t pc])).status t i = (linState lt init h).status t i) := by
  have hst := linState_append_lin hs
  refine ⟨⟨points_append_lin b.pts hs, by rw [visible_append_lin]; exact b.vis, ?_, b.ocb⟩, ?_, ?_⟩
  · intro t' i hne
    rw [hst, LinState.set_status_of_ne _ _ _ (fun h => hne h.1)]
    exact b.oth t' i hne
  · rw [hst, LinState.set_status_self, b.pts.state_map]
  · intro i hne
    rw [hst, LinState.set_status_of_ne _ _ _ (fun h => hne h.2)]

/-- the `ret` note of a linearized map operation -/
theorem Base.ret {m : List (K × V)} {evs : List (Ev K V)} {h : List (HEv K V)}
    (b : Base lt init progs t st0 cb0 m evs h) {pc : Nat} {cop : COp K V} {r : Res K V} {op : Op K V} {out : Out V}
    (hcop : (progs t)[pc]? = some cop) (hout : outOf cop r ((hx progs evs).cb t) = some out)
    (hs : (linState lt init h).status t pc = .linearized op out) :
    Base lt init progs t st0 cb0 m (Ev.note t (.ret pc r) :: evs) (h ++ [HEv.ret t pc out]) ∧
      (∀ i, i ≠ pc → (linState lt init (h ++ [HEv.ret t pc out])).status t i = (linState lt init h).status t i) := by
  have hst := linState_append_ret out hs
  have hxe : hx progs (Ev.note t (.ret pc r) :: evs) =
      { hx progs evs with evs := (hx progs evs).evs ++ [HEv.ret t pc out] } := by
    rw [hx_cons]; simp only [hxStep, hcop, hout]
  refine ⟨⟨points_append_ret b.pts hs, ?_, ?_, ?_⟩, ?_⟩
  · rw [visible_append_ret, hxe, b.vis]
  · intro t' i hne
    rw [hst, LinState.set_status_of_ne _ _ _ (fun h => hne h.1)]
    exact b.oth t' i hne
  · intro t' hne; rw [hxe]; exact b.ocb t' hne
  · intro i hne
    rw [hst, LinState.set_status_of_ne _ _ _ (fun h => hne h.2)]

/-- a `ret` note that leaves no event -/
theorem Base.ret_none {m : List (K × V)} {evs : List (Ev K V)} {h : List (HEv K V)}
    (b : Base lt init progs t st0 cb0 m evs h) {pc : Nat} {r : Res K V}
    (hno : ∀ cop, (progs t)[pc]? = some cop → outOf cop r ((hx progs evs).cb t) = none) :
    Base lt init progs t st0 cb0 m (Ev.note t (.ret pc r) :: evs) h := by
  have hxe : hx progs (Ev.note t (.ret pc r) :: evs) = hx progs evs := by
    rw [hx_cons]
    simp only [hxStep]
    cases hc : (progs t)[pc]? with
    | none => rfl
    | some cop => simp only [hno cop hc]
  exact ⟨b.pts, by rw [hxe]; exact b.vis, b.oth, fun t' hne => by rw [hxe]; exact b.ocb t' hne⟩

/-- the `inv` note -/
theorem Base.inv {m : List (K × V)} {evs : List (Ev K V)} {h : List (HEv K V)}
    (b : Base lt init progs t st0 cb0 m evs h) {j : Nat} {cop : COp K V}
    (hcop : (progs t)[j]? = some cop) (hs : (linState lt init h).status t j = .fresh) :
    ∃ h', Base lt init progs t st0 cb0 m (Ev.note t (.inv j) :: evs) h' ∧
      (∀ op, opOf cop = some op → (linState lt init h').status t j = .invoked op) ∧
      (∀ i, i ≠ j → (linState lt init h').status t i = (linState lt init h).status t i) ∧
      (hx progs (Ev.note t (.inv j) :: evs)).cb = (hx progs evs).cb := by
  cases hop : opOf cop with
  | none =>
    have hxe : hx progs (Ev.note t (.inv j) :: evs) = hx progs evs := by
      rw [hx_cons]; simp only [hxStep, hcop, Option.bind_some, hop]
    refine ⟨h, ⟨b.pts, by rw [hxe]; exact b.vis, b.oth, fun t' hne => by rw [hxe]; exact b.ocb t' hne⟩, ?_, ?_, by rw [hxe]⟩
    · intro op h; cases h
    · intro i _; rfl
  | some op =>
    have hxe : hx progs (Ev.note t (.inv j) :: evs) =
        { hx progs evs with evs := (hx progs evs).evs ++ [HEv.inv t j op] } := by
      rw [hx_cons]; simp only [hxStep, hcop, Option.bind_some, hop]
    have hst := linState_append_inv (lt := lt) (init := init) op hs
    refine ⟨h ++ [HEv.inv t j op], ⟨points_append_inv b.pts op hs, ?_, ?_, ?_⟩, ?_, ?_, by rw [hxe]⟩
    · rw [visible_append_inv, hxe, b.vis]
    · intro t' i hne
      rw [hst, LinState.set_status_of_ne _ _ _ (fun h => hne h.1)]
      exact b.oth t' i hne
    · intro t' hne; rw [hxe]; exact b.ocb t' hne
    · intro op' h; cases h
      rw [hst, LinState.set_status_self]
    · intro i hne
      rw [hst, LinState.set_status_of_ne _ _ _ (fun h => hne h.2)]

variable (lt init progs t st0 cb0)

/-- invariant of the loop of a step: after a stretch that ended with `fl` -/
structure LoopI (s : St K V) (fl : Flow K V) (pc : Nat) (h : List (HEv K V)) : Prop where
  base  : Base lt init progs t st0 cb0 s.tree.abs s.evs h
  fresh : ∀ i, pc < i → (linState lt init h).status t i = .fresh
  cur   : FlowBk (linState lt init h) ((hx progs s.evs).cb t) t pc (progs t)[pc]? fl

/-- what a step of thread `t` establishes -/
structure FinalI (r : Thread K V × St K V × Bool) (h : List (HEv K V)) : Prop where
  base : Base lt init progs t st0 cb0 r.2.1.tree.abs r.2.1.evs h
  bk   : ThreadBk (linState lt init h) ((hx progs r.2.1.evs).cb t) t r.1

variable {lt init progs t st0 cb0}

/-- invoke the operation at index `j` and run its first stretch -/
theorem begin_op {s : St K V} {h : List (HEv K V)} {j : Nat} {cop : COp K V}
    (b : Base lt init progs t st0 cb0 s.tree.abs s.evs h)
    (hfresh : ∀ i, j ≤ i → (linState lt init h).status t i = .fresh)
    (hcop : (progs t)[j]? = some cop) :
    ∃ h', LoopI lt init progs t st0 cb0 (startOp t (s.note t (.inv j)) cop).1 (startOp t (s.note t (.inv j)) cop).2 j h' := by
  obtain ⟨h', b', hinv, hoth, _⟩ := b.inv hcop (hfresh j (Nat.le_refl _))
  obtain ⟨new, e, q, fl⟩ := startOp_tr t (s.note t (.inv j)) cop
  have hsil := hx_silent progs (s.note t (.inv j)).evs new q
  refine ⟨h', ⟨?_, ?_, ?_⟩⟩
  · rw [startOp_tree, e]
    exact b'.silent new q
  · intro i hi
    rw [hoth i (by omega)]
    exact hfresh i (by omega)
  · rw [hcop]
    revert fl
    cases (startOp t (s.note t (.inv j)) cop).2 with
    | panic => intro _; trivial
    | done r =>
      intro fl cop' op hc ho
      cases hc
      have : opOf cop = none := fl
      rw [this] at ho; cases ho
    | park p =>
      intro fl
      obtain ⟨k, hk, hkf, hcb, hpp⟩ := fl
      have hb : KBk (linState lt init h') ((hx progs (startOp t (s.note t (.inv j)) cop).1.evs).cb t) t j cop k false :=
        ⟨hinv, hkf, by intro arg ha; rw [hcb] at ha; cases ha⟩
      cases p with
      | start => cases hk
      | finished => cases hk
      | want l k' =>
        cases hk
        have hpk : postK k = false := hpp
        exact ⟨cop, rfl, by rw [hpk]; exact hb⟩
      | yielded k' => cases hk; exact ⟨cop, rfl, hb⟩

/-- the `ret` note of the stretch that just ended -/
theorem ret_step {s : St K V} {r : Res K V} {pc : Nat} {h : List (HEv K V)}
    (hl : LoopI lt init progs t st0 cb0 s (.done r) pc h) :
    ∃ h', Base lt init progs t st0 cb0 s.tree.abs (Ev.note t (.ret pc r) :: s.evs) h' ∧
      ∀ i, pc < i → (linState lt init h').status t i = .fresh := by
  cases hc : (progs t)[pc]? with
  | none =>
    exact ⟨h, hl.base.ret_none (by intro cop h'; rw [hc] at h'; cases h'), hl.fresh⟩
  | some cop =>
    cases ho : opOf cop with
    | none =>
      refine ⟨h, hl.base.ret_none ?_, hl.fresh⟩
      intro cop' h'
      rw [hc] at h'; cases h'
      exact outOf_none_of_opOf cop r _ ho
    | some op =>
      have := hl.cur
      rw [hc] at this
      obtain ⟨out, hs, hout⟩ := this cop op rfl ho
      obtain ⟨b', hoth⟩ := hl.base.ret hc hout hs
      refine ⟨_, b', ?_⟩
      intro i hi
      rw [hoth i (by omega)]
      exact hl.fresh i hi

/-- **the loop of a step**: `ret` notes, `inv` notes and first stretches of the following
    operations keep the decorated history in step with the log -/
theorem loop_lin (th : Thread K V) (hprog : th.prog = progs t) :
    ∀ (fuel : Nat) (s : St K V) (fl : Flow K V) (pc : Nat) (h : List (HEv K V)),
      LoopI lt init progs t st0 cb0 s fl pc h →
      ∃ h', FinalI lt init progs t st0 cb0 (threadLoop t th fuel s fl pc) h' := by
  have hpanic : ∀ (fuel : Nat) (s : St K V) (pc : Nat) (h : List (HEv K V)),
      LoopI lt init progs t st0 cb0 s .panic pc h →
      ∃ h', FinalI lt init progs t st0 cb0 (threadLoop t th fuel s .panic pc) h' := by
    intro fuel s pc h hl
    have hb : Base lt init progs t st0 cb0 s.tree.abs (Ev.note t (.ret pc .panic) :: s.evs) h :=
      hl.base.ret_none (fun cop _ => outOf_panic cop _)
    refine ⟨h, ?_⟩
    cases fuel <;> exact ⟨hb, hl.fresh, trivial⟩
  have hpark : ∀ (fuel : Nat) (s : St K V) (p : Park K V) (pc : Nat) (h : List (HEv K V)),
      LoopI lt init progs t st0 cb0 s (.park p) pc h →
      ∃ h', FinalI lt init progs t st0 cb0 (threadLoop t th fuel s (.park p) pc) h' := by
    intro fuel s p pc h hl
    refine ⟨h, ?_⟩
    have hbk : ParkBk (linState lt init h) ((hx progs s.evs).cb t) t pc th.prog[pc]? p := by
      rw [hprog]; exact hl.cur
    cases fuel <;> exact ⟨hl.base, hl.fresh, hbk⟩
  have hend : ∀ (s : St K V) (r : Res K V) (pc : Nat) (h : List (HEv K V)),
      LoopI lt init progs t st0 cb0 s (.done r) pc h →
      ∃ h', FinalI lt init progs t st0 cb0
        ({ th with pc := pc + 1, park := .finished, held := (s.note t (.ret pc r)).held,
                   cursor := (s.note t (.ret pc r)).cursor, exhausted := (s.note t (.ret pc r)).exhausted },
          s.note t (.ret pc r), false) h' := by
    intro s r pc h hl
    obtain ⟨h1, b1, hf1⟩ := ret_step hl
    exact ⟨h1, b1, fun i hi => hf1 i (by simp only at hi; omega), trivial⟩
  intro fuel
  induction fuel with
  | zero =>
    intro s fl pc h hl
    cases fl with
    | panic => exact hpanic 0 s pc h hl
    | park p => exact hpark 0 s p pc h hl
    | done r => exact hend s r pc h hl
  | succ fuel ih =>
    intro s fl pc h hl
    cases fl with
    | panic => exact hpanic _ s pc h hl
    | park p => exact hpark _ s p pc h hl
    | done r =>
      unfold threadLoop
      cases hop : th.prog[pc + 1]? with
      | none => exact hend s r pc h hl
      | some cop =>
        simp only
        obtain ⟨h1, b1, hf1⟩ := ret_step hl
        have hcop : (progs t)[pc + 1]? = some cop := by rw [← hprog]; exact hop
        obtain ⟨h2, hl2⟩ := begin_op (s := s.note t (.ret pc r)) b1 (fun i hi => hf1 i (by omega)) hcop
        exact ih _ _ _ h2 hl2

end Step

end Gobptree.Conc
