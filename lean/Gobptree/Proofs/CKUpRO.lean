/-
  Key-order block lemmas for the non-Delete continuations, part 3: the blocks that do not
  write the tree (Search / NewScanner descent).
-/
import Gobptree.Proofs.CKUpLeaf

namespace Gobptree.Conc
open Gobptree

variable {K V : Type} {lt : K → K → Bool}

/-- the root is on every route -/
theorem root_onRoute {t : Tree K V} (hids : t.ids.Nodup) (hpar : ParTree t) (key : K) :
    (t.rootId, none, none) ∈ t.routeB lt key := by
  obtain ⟨l, pre, a, b, _, _, hhead, _⟩ := Tree.route_shape (lt := lt) hids hpar key
  exact List.mem_of_mem_head? hhead

theorem root_inBounds {t : Tree K V} (hids : t.ids.Nodup) (hpar : ParTree t) (key : K) :
    InBounds lt t key t.rootId :=
  ⟨none, none, root_onRoute hids hpar key, trivial⟩

/-- the abstract effect of a read-only arrival -/
theorem roAbs_intro (t : Nat) (sc : Bool) (key : K) (hold : Lk) (want : Nat) (s s' : St K V) (fl : Flow K V)
    (habs : s'.tree.abs = s.tree.abs)
    (hv : sc = false → ∀ v, fl = .done (.found v) → v = Spec.lookup lt s.tree.abs key) :
    AbsEffect lt t (.roNode sc key hold want) s s' fl := by
  cases sc with
  | true => exact habs
  | false => exact ⟨habs, hv rfl⟩

/-- the node a read-only descent waits for is on the route of its key -/
theorem roNode_onRoute {t : Tree K V} {hole : Option Nat} (hok : TreeOk hole t) (sc : Bool) (key : K) (hold : Lk)
    (want : Nat) (hk : KontOk t (.roNode sc key hold want)) (hpos : KPos lt t (.roNode sc key hold want)) :
    OnRoute lt t key want := by
  have hids := hok.ids.1
  have hpar := parTree_of_treeOk hok
  cases hold with
  | tree =>
    have : want = t.rootId := hk
    subst this
    exact ⟨none, none, root_onRoute hids hpar key⟩
  | node p =>
    obtain ⟨⟨a, b, hab⟩, hkid⟩ : OnRoute lt t key p ∧ t.kidAt p (searchLE lt key (keysOf t p)) = some want := hpos
    obtain ⟨shp, hlp, hkidx⟩ := kidAt_look hkid
    obtain ⟨an, hfind, hsh, _⟩ := find_some_of_look hlp
    obtain ⟨d, pn, k, rfl, hpk, hkid'⟩ := any_kid an _ want (by rw [hsh]; exact hkidx)
    obtain ⟨s, c, hs, hc, hm⟩ := Tree.route_kid hfind hids hpar key a b hab
    rw [keysOf_find hfind, hc] at hpk
    cases hpk
    rw [← hkid']
    exact ⟨_, _, hm⟩

/-- Search / NewScanner after acquiring node `want` -/
theorem roNode_kpost (P : Params K) (hK : KParams lt P) (t : Nat) (s : St K V) (sc : Bool) (key : K) (hold : Lk)
    (want : Nat) (H : List Lk) {hole : Option Nat} (hok : TreeOk hole s.tree) (hord : OrdTree lt s.tree)
    (hk : KontOk s.tree (.roNode sc key hold want)) (hpos : KPos lt s.tree (.roNode sc key hold want)) :
    KPost lt t (.roNode sc key hold want) s (resume P t s (.roNode sc key hold want)).1
        (resume P t s (.roNode sc key hold want)).2 ∧
      StableRoutes lt H s.tree (resume P t s (.roNode sc key hold want)).1.tree := by
  have hids := hok.ids.1
  have hpar := parTree_of_treeOk hok
  have hon := roNode_onRoute hok sc key hold want hk hpos
  -- every outcome leaves the tree alone
  suffices h : (resume P t s (.roNode sc key hold want)).1.tree = s.tree ∧
      (sc = false → ∀ v, (resume P t s (.roNode sc key hold want)).2 = .done (.found v) →
        v = Spec.lookup lt s.tree.abs key) ∧
      (∀ p, (resume P t s (.roNode sc key hold want)).2 = .park p → parkKPos lt s.tree p) by
    obtain ⟨h1, h2, h3⟩ := h
    refine ⟨⟨by rw [h1]; exact hord, roAbs_intro t sc key hold want _ _ _ (by rw [h1]) h2,
      fun p hp => by rw [h1]; exact h3 p hp⟩, by rw [h1]; exact StableRoutes.refl H _⟩
  have hres : resume P t s (.roNode sc key hold want) =
      roArrive P t (s.acq t (.node want)) sc key hold want := rfl
  rw [hres]
  unfold roArrive
  have htree : ((s.acq t (.node want)).rel t hold).tree = s.tree := rfl
  simp only
  rw [htree]
  cases hfind : s.tree.find want with
  | none =>
    simp only
    exact ⟨rfl, (by intro _ v hv; cases hv), (by intro p hp; cases hp)⟩
  | some a =>
    simp only
    cases hleaf : leafOf? a with
    | some l =>
      simp only
      rw [leafOf?_some hleaf] at hfind
      obtain ⟨hid, _⟩ := find_leaf_look hfind
      cases sc with
      | true =>
        simp only [if_true]
        exact ⟨trivial, (by intro h; cases h), (by intro p hp; cases hp)⟩
      | false =>
        simp only [Bool.false_eq_true, if_false]
        have hfind' : s.tree.find l.id = some ⟨0, l⟩ := by rw [hid]; exact hfind
        rw [leaf_search_tree hK.swo P hK.lt l hfind' hids hpar hord (leaf_par hok hfind) key
          (by rw [hid]; exact hon)]
        simp only
        refine ⟨rfl, ?_, (by intro p hp; cases hp)⟩
        intro _ v hv
        cases hv
        rfl
    | none =>
      simp only
      obtain ⟨d, p, rfl⟩ := leafOf?_none hleaf
      have hr : innerRunts? (⟨d + 1, p⟩ : AnyNode K V) = some p.runts := rfl
      rw [hr]
      simp only
      cases hkid : innerKidId? (⟨d + 1, p⟩ : AnyNode K V) (searchLE P.lt key p.runts) with
      | none =>
        simp only
        exact ⟨rfl, (by intro _ v hv; cases hv), (by intro p hp; cases hp)⟩
      | some c =>
        simp only
        refine ⟨rfl, (by intro _ v hv; cases hv), ?_⟩
        intro q hq
        cases hq
        refine ⟨hon, ?_⟩
        rw [keysOf_find hfind, kidAt_find hfind, ← hK.lt]
        exact hkid

/-- a block that leaves the tree alone and whose continuation has no position clause -/
theorem kpost_unchanged (t : Nat) (k : Kont K V) (H : List Lk) (s s' : St K V) (fl : Flow K V)
    (hord : OrdTree lt s.tree) (htree : s'.tree = s.tree)
    (heff : s'.tree.abs = s.tree.abs → AbsEffect lt t k s s' fl)
    (hk : ∀ p, fl = .park p → parkKPos lt s.tree p) :
    KPost lt t k s s' fl ∧ StableRoutes lt H s.tree s'.tree :=
  ⟨⟨by rw [htree]; exact hord, heff (by rw [htree]), fun p hp => by rw [htree]; exact hk p hp⟩,
    by rw [htree]; exact StableRoutes.refl H _⟩

end Gobptree.Conc
