/-
  Key-order zoom machinery, part 5: the leaf operations on an `Ord` leaf are the
  specification's operations on the leaf's pairs, and `Spec` operations on
  `PL ++ M ++ PR` act on `M` only when the key separates `PL` from `PR`.
-/
import Gobptree.Proofs.CKZoomFacts

namespace Gobptree.Conc
open Gobptree

variable {K V : Type} {lt : K → K → Bool}

/-! ### leaf operations -/

theorem leaf_search_ord (h : SWO lt) (P : Params K) (hP : P.lt = lt) (l : Leaf K V) (lo hi : Option K)
    (hord : Ord lt 0 lo hi l) (hlen : l.keys.length = l.vals.length) (key : K) :
    Leaf.search P l key = .ok (Spec.lookup lt (l.keys.zip l.vals) key) :=
  Gobptree.Leaf.search_ok h P hP l key hord.1 hlen

/-- the leaf part of Insert/Update on an `Ord` leaf whose interval contains the key -/
theorem leaf_upsert_ord (h : SWO lt) (P : Params K) (hP : P.lt = lt) (hpad : PadOk P)
    (l : Leaf K V) (lo hi : Option K) (hord : Ord lt 0 lo hi l) (hlen : l.keys.length = l.vals.length)
    (key : K) (f : Option V → V) (hlo : leO lt lo key) (hhi : ltO lt key hi)
    (l' : Leaf K V) (arg : Option V) (hu : Leaf.upsert P l key f = .ok (l', arg)) :
    arg = Spec.lookup lt (l.keys.zip l.vals) key ∧
    Ord lt 0 lo hi l' ∧ l'.keys.length = l'.vals.length ∧ l'.id = l.id ∧ l'.next = l.next ∧
    l'.keys.zip l'.vals = Spec.update lt (l.keys.zip l.vals) key f ∧
    l.keys.length ≤ l'.keys.length ∧ l'.keys.length ≤ l.keys.length + 1 := by
  obtain ⟨l0, hu0, hid, hnext, hs, hlen', hzip, hle1, hle2, hmem⟩ :=
    Gobptree.Leaf.upsert_ok h P hP hpad l key f hord.1 hlen
  rw [hu0] at hu
  injection hu with hu
  injection hu with e1 e2
  subst e1
  refine ⟨e2.symm, ⟨hs, ?_⟩, hlen', hid, hnext, hzip, hle1, hle2⟩
  intro k hk
  rcases hmem k hk with hk | rfl
  · exact hord.2 k hk
  · exact ⟨hlo, hhi⟩

/-- the leaf part of Delete on an `Ord` leaf (the key need not lie in the leaf's interval) -/
theorem leaf_delete_ord (h : SWO lt) (P : Params K) (hP : P.lt = lt)
    (l : Leaf K V) (lo hi : Option K) (hord : Ord lt 0 lo hi l) (hlen : l.keys.length = l.vals.length)
    (minSize : Nat) (key : K)
    (l' : Leaf K V) (small : Bool) (hd : Leaf.deleteKey P l minSize key = .ok (l', small)) :
    Ord lt 0 lo hi l' ∧ l'.keys.length = l'.vals.length ∧ l'.id = l.id ∧ l'.next = l.next ∧
    l'.keys.zip l'.vals = Spec.erase lt (l.keys.zip l.vals) key ∧
    (small = true → l'.keys.length < minSize) ∧
    (small = false → l' = l ∨ minSize ≤ l'.keys.length) ∧
    l'.keys.length ≤ l.keys.length ∧ l.keys.length ≤ l'.keys.length + 1 := by
  obtain ⟨l0, small0, hd0, hsm1, hsm2, hid, hnext, hs, hlen', hzip, hle1, hle2, hmem⟩ :=
    Gobptree.Leaf.deleteKey_ok h P hP l minSize key hord.1 hlen
  rw [hd0] at hd
  injection hd with hd
  injection hd with e1 e2
  subst e1; subst e2
  exact ⟨⟨hs, fun k hk => hord.2 k (hmem k hk)⟩, hlen', hid, hnext, hzip, hsm1, hsm2, hle1, hle2⟩

/-! ### `Spec` operations in the middle of `PL ++ M ++ PR` -/

theorem lookup_mid (h : SWO lt) (PL M PR : List (K × V)) (key : K)
    (hL : AllLt lt PL key) (hR : AllGt lt PR key) :
    Spec.lookup lt (PL ++ M ++ PR) key = Spec.lookup lt M key := by
  rw [List.append_assoc, Spec.lookup_append_left h _ _ _ hL, Spec.lookup_append_right h _ _ _ hR]

theorem insert_mid (h : SWO lt) (PL M PR : List (K × V)) (key : K) (v : V)
    (hL : AllLt lt PL key) (hR : AllGt lt PR key) :
    Spec.insert lt (PL ++ M ++ PR) key v = PL ++ Spec.insert lt M key v ++ PR := by
  rw [List.append_assoc, Spec.insert_append_left h _ _ _ _ hL, Spec.insert_append_right h _ _ _ _ hR,
    List.append_assoc]

theorem update_mid (h : SWO lt) (PL M PR : List (K × V)) (key : K) (f : Option V → V)
    (hL : AllLt lt PL key) (hR : AllGt lt PR key) :
    Spec.update lt (PL ++ M ++ PR) key f = PL ++ Spec.update lt M key f ++ PR := by
  unfold Spec.update
  rw [lookup_mid h PL M PR key hL hR, insert_mid h PL M PR key _ hL hR]

theorem erase_mid' (h : SWO lt) (PL M PR : List (K × V)) (key : K)
    (hL : AllLt lt PL key) (hR : AllGt lt PR key) :
    Spec.erase lt (PL ++ M ++ PR) key = PL ++ Spec.erase lt M key ++ PR := by
  rw [Spec.erase_append, Spec.erase_append, Spec.erase_of_allLt h PL key hL, Spec.erase_of_allGt h PR key hR]

end Gobptree.Conc
