/-
  Stage C: the separator invariant `ISep`.

  With repair F7 a node's first separator is only ever lowered, and every separator a parent
  stores for an INNER child equals (up to the order's equivalence) that child's own first
  separator — except for the moment between an Insert/Update lowering a node's first
  separator to its key and lowering the first child's: then the thread is parked at
  `upChild key … r 0 …` holding `r`, and the parent's separator for `r` is that `key`.
  This is what keeps a READER (Search/NewScanner, which does not lower anything) on the
  route of its key when a Delete moves subtrees between siblings: there are no gaps between
  a parent's separator and the child's first separator into which a clamped reader could
  have been routed.
-/
import Gobptree.Proofs.CKReach

namespace Gobptree.Conc
open Gobptree

variable {K V : Type}

/-- some Insert/Update has lowered the separator above `r` to its key `s` and is about to
    lower `r`'s own first separator: it is parked at `upChild s … r 0 …` -/
def Lowering (ths : List (Thread K V)) (r : Nat) (s : K) : Prop :=
  ∃ th ∈ ths, ∃ l f y child, th.park = .want l (.upChild s f y r 0 child)

/-- every separator stored for an inner child is equivalent to that child's first separator,
    unless an Insert/Update is in the middle of lowering both -/
def ISep (lt : K → K → Bool) (c : Config K V) : Prop :=
  ∀ (g j r : Nat) (sg sr : Shallow K V) (s : K), c.tree.look g = some sg → sg.kids[j]? = some r → c.tree.look r = some sr →
    0 < sr.height → sg.keys[j]? = some s →
    (∃ s', sr.keys.head? = some s' ∧ eqv lt s s' = true) ∨ Lowering c.threads r s

end Gobptree.Conc

namespace Gobptree.Conc
open Gobptree

variable {K V : Type}

/-- tree-level form of `ISep` with an abstract set of "lowering in progress" witnesses -/
def ISepW (lt : K → K → Bool) (Wit : Nat → K → Prop) (t : Tree K V) : Prop :=
  ∀ (g j r : Nat) (sg sr : Shallow K V) (s : K), t.look g = some sg → sg.kids[j]? = some r → t.look r = some sr →
    0 < sr.height → sg.keys[j]? = some s →
    (∃ s', sr.keys.head? = some s' ∧ eqv lt s s' = true) ∨ Wit r s

/-- the witness a continuation itself provides -/
def kontWit : Kont K V → Nat → K → Prop
  | .upChild key _ _ r 0 _ => fun r' s => r' = r ∧ s = key
  | _ => fun _ _ => False

def parkWit : Park K V → Nat → K → Prop
  | .want _ k => kontWit k
  | _ => fun _ _ => False

def flowWit : Flow K V → Nat → K → Prop
  | .park p => parkWit p
  | _ => fun _ _ => False

theorem lowering_iff (ths : List (Thread K V)) (r : Nat) (s : K) :
    Lowering ths r s ↔ ∃ th ∈ ths, parkWit th.park r s := by
  constructor
  · rintro ⟨th, hth, l, f, y, child, hp⟩
    exact ⟨th, hth, by rw [hp]; exact ⟨rfl, rfl⟩⟩
  · rintro ⟨th, hth, hw⟩
    cases hp : th.park with
    | want l k =>
      rw [hp] at hw
      cases k with
      | upChild key f y parent index child =>
        cases index with
        | zero =>
          obtain ⟨e1, e2⟩ := hw
          exact ⟨th, hth, l, f, y, child, by rw [hp, e1, e2]⟩
        | succ n => exact absurd hw id
      | _ => exact absurd hw id
    | _ => rw [hp] at hw; exact absurd hw id

theorem isep_iff (lt : K → K → Bool) (c : Config K V) :
    ISep lt c ↔ ISepW lt (fun r s => ∃ th ∈ c.threads, parkWit th.park r s) c.tree := by
  unfold ISep ISepW
  constructor
  · intro h g j r sg sr s a b cc d e
    rcases h g j r sg sr s a b cc d e with h1 | h1
    · exact Or.inl h1
    · exact Or.inr ((lowering_iff _ _ _).1 h1)
  · intro h g j r sg sr s a b cc d e
    rcases h g j r sg sr s a b cc d e with h1 | h1
    · exact Or.inl h1
    · exact Or.inr ((lowering_iff _ _ _).2 h1)

/-- interface of the per-block separator lemmas: with the other threads' witnesses `Wit`
    (all about nodes whose mutex the running thread does not hold) and the running thread's
    own, the separator invariant survives the stretch with the own witness replaced by the
    one of the continuation it parks with -/
def ResumeIU (K V : Type) : Prop :=
  ∀ (lt : K → K → Bool) (P : Params K) (t : Nat) (s : St K V) (k : Kont K V) (H : List Lk) (hole : Option Nat)
    (Wit : Nat → K → Prop),
    isDelK k = false → KParams lt P → Pre P hole s → KontOk s.tree k →
    CursorOk s.tree (isHopK k) s.cursor → KontPre s.cursor k → Covers H s.cursor k →
    OrdTree lt s.tree → KPos lt s.tree k →
    (∀ r x, Wit r x → Lk.node r ∉ H) →
    ISepW lt (fun r x => Wit r x ∨ kontWit k r x) s.tree →
    ISepW lt (fun r x => Wit r x ∨ flowWit (resume P t s k).2 r x) (resume P t s k).1.tree

def ResumeID (K V : Type) : Prop :=
  ∀ (lt : K → K → Bool) (P : Params K) (t : Nat) (s : St K V) (k : Kont K V) (H : List Lk)
    (Wit : Nat → K → Prop),
    isDelK k = true → 4 ≤ s.tree.order → KParams lt P → Pre P (kontHole k) s → KontOk s.tree k →
    KontPre s.cursor k → Covers H s.cursor k →
    OrdTree lt s.tree → KPos lt s.tree k →
    (∀ r x, Wit r x → Lk.node r ∉ H) →
    ISepW lt Wit s.tree →
    ISepW lt Wit (resume P t s k).1.tree ∧ StableRoutes lt H s.tree (resume P t s k).1.tree

end Gobptree.Conc
