/-
  Stage C: the separator invariant `ISep`.

  With repair F7 a node's first separator is only ever lowered, and every separator a parent
  stores for an INNER child equals (up to the order's equivalence) that child's own first
  separator — except for the moment between an Insert/Update lowering a node's first
  separator to its key and lowering the first child's: then the thread is parked at
  `upChild key … r 0 …` holding `r`, and the parent's separator for `r` is that `key`.
  This is what keeps a READER (Search/NewScanner, which does not lower anything) on the
  route of its key when a Delete moves subtrees between siblings: there are no gaps between
  a parent's separator and the child's first separator into which a clamped reader could
  have been routed.
-/
import Gobptree.Proofs.CKReach

namespace Gobptree.Conc
open Gobptree

variable {K V : Type}

/-- some Insert/Update has lowered the separator above `r` to its key `s` and is about to
    lower `r`'s own first separator: it is parked at `upChild s … r 0 …` -/
def Lowering (ths : List (Thread K V)) (r : Nat) (s : K) : Prop :=
  ∃ th ∈ ths, ∃ l f y child, th.park = .want l (.upChild s f y r 0 child)

/-- every separator stored for an inner child is equivalent to that child's first separator,
    unless an Insert/Update is in the middle of lowering both -/
def ISep (lt : K → K → Bool) (c : Config K V) : Prop :=
  ∀ (g j r : Nat) (sg sr : Shallow K V) (s : K), c.tree.look g = some sg → sg.kids[j]? = some r → c.tree.look r = some sr →
    0 < sr.height → sg.keys[j]? = some s →
    (∃ s', sr.keys.head? = some s' ∧ eqv lt s s' = true) ∨ Lowering c.threads r s

end Gobptree.Conc
