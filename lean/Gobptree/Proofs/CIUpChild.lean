/-
  Separator invariant, block lemmas for the non-Delete continuations, part 4: the descent
  block of Insert/Update (`upChildArrive`).
-/
import Gobptree.Proofs.CIUpNode

namespace Gobptree.Conc
open Gobptree

variable {K V : Type} {lt : K → K → Bool}

/-! ### helpers -/

/-- the identities below a found node are distinct -/
theorem nodup_of_find {t : Tree K V} {id d' : Nat} {m : Node K V d'} (hf : t.find id = some ⟨d', m⟩)
    (hids : t.ids.Nodup) : (idsOf m).Nodup := by
  obtain ⟨_, L, R, hflat, _⟩ := Tree.find_modify hf
  have h : ((L ++ flat m ++ R).map Prod.fst).Nodup := by
    have := hids
    unfold Tree.ids at this
    rw [hflat] at this
    exact this
  rw [List.map_append, List.map_append] at h
  exact (List.nodup_append.1 (List.nodup_append.1 h).1).2.1

/-- a kid of the node just written is a node of the new tree -/
theorem kid_mem_putInner {t : Tree K V} {d : Nat} {p : Node K V (d + 1)} (p' : Inner K (Node K V d))
    (hf : t.find p'.id = some ⟨d + 1, p⟩) (hids : t.ids.Nodup) (c : Node K V d) (hc : c ∈ p'.kids) :
    (Node.id c, shallow c) ∈ (putInner t p').flat := by
  obtain ⟨L, R, _, hflat, _⟩ := putInner_flat p' hf hids
  rw [hflat]
  apply List.mem_append_left
  apply List.mem_append_right
  rw [flat_inner p']
  exact List.mem_cons_of_mem _ (List.mem_flatMap.2 ⟨c, hc, self_mem_flat c⟩)

theorem LowN_of_head {key : K} {d : Nat} {c c' : Node K V d} (hh : headN d c' = headN d c)
    (h : LowN lt key d c) : LowN lt key d c' := by
  obtain ⟨s', hs', hlt⟩ := h
  exact ⟨s', hh ▸ hs', hlt⟩

theorem LowN_lt_smallest {key : K} : ∀ {d : Nat} {l : Node K V d} {s0 : K}, Node.smallest l = .ok s0 →
    LowN lt key d l → lt key s0 = true
  | 0, _, _, _, h => by obtain ⟨s', hs', _⟩ := h; cases hs'
  | d + 1, l, s0, hs, h => by
    obtain ⟨s', hs', hlt⟩ := h
    rw [smallest_headN l s0 hs] at hs'
    cases hs'
    exact hlt

theorem sepFact_self (h : SWO lt) (Wit : Nat → K → Prop) : ∀ {d : Nat} (r : Node K V d) (rs : K),
    Node.smallest r = .ok rs → SepFact lt Wit d r rs
  | 0, _, _, _ => trivial
  | d + 1, r, rs, hs => by
    rw [SepFact_iff_headN]
    exact Or.inl ⟨rs, smallest_headN r rs hs, h.eqv_refl rs⟩

/-! ### the block -/

theorem upChildArrive_isep (P : Params K) (hK : KParams lt P) (t : Nat) (s : St K V) (key : K) (f : Option V → V)
    (y : Option Bool) (parent index child : Nat) (H : List Lk) (hole : Option Nat) (hpre : Pre P hole s)
    (hord : OrdTree lt s.tree) (hk : KontOk s.tree (.upChild key f y parent index child))
    (hpos : KPos lt s.tree (.upChild key f y parent index child))
    (hHp : Lk.node parent ∈ H) (hHc : Lk.node child ∈ H) (hcur : cursorLocks s.cursor = [])
    (W : Nat → K → Prop) (hW : ∀ r x, W r x → Lk.node r ∉ H)
    (hI : ISepW lt (fun r x => W r x ∨ kontWit (.upChild key f y parent index child) r x) s.tree) :
    ISepW lt (fun r x => W r x ∨ flowWit (upChildArrive P t s key f y parent index child).2 r x)
      (upChildArrive P t s key f y parent index child).1.tree := by
  have hsw := hK.swo
  have hpost := fun y' => (upChildArrive_post P t s key f y' parent index child H hole hpre hk hHp hHc hcur).1.tree
  obtain ⟨hkid, hnfp⟩ := hk
  obtain ⟨hin, hidx⟩ : InBounds lt s.tree key parent ∧ index = searchLE lt key (keysOf s.tree parent) := hpos
  have hok := hpre.tree
  have hids := hok.ids.1
  have hpar := parTree_of_treeOk hok
  obtain ⟨shp, hlp, hkidx⟩ := kidAt_look hkid
  obtain ⟨an, hfind, hsh, _⟩ := find_some_of_look hlp
  obtain ⟨d, p, c, rfl, hpk, hcid⟩ := any_kid an index child (by rw [hsh]; exact hkidx)
  have hpid : p.id = parent := findNode_id hfind
  have hparp : ParN (d + 1) p := ParTree_find hfind hpar
  rw [keysOf_find hfind] at hidx
  -- the child is a node of the tree
  obtain ⟨_, L0, R0, hf0, _⟩ := Tree.find_modify hfind
  have hmemc : (Node.id c, shallow c) ∈ s.tree.flat := by
    rw [hf0]
    apply List.mem_append_left
    apply List.mem_append_right
    show (Node.id c, shallow c) ∈ flat (d := d + 1) p
    rw [flat_succ (d := d) p]
    exact List.mem_cons_of_mem _ (List.mem_flatMap.2 ⟨c, List.mem_of_getElem? hpk, self_mem_flat c⟩)
  have hoccC : NodeOcc P.order _ (shallow c) := hpre.order ▸ hok.occ _ hmemc
  have heven : P.order % 2 = 0 := hpre.order ▸ hok.even
  have ho4 : 2 ≤ P.order := hpre.order ▸ hok.order2
  -- decompose the parent at the routing index
  have hlenp := hparp.1
  have hidxlt : index < p.kids.length := (List.getElem?_eq_some_iff.1 hpk).1
  have hrk : p.runts[index]? = some (p.runts[index]'(by omega)) := List.getElem?_eq_getElem (by omega)
  obtain ⟨rA, rB, A, B, hr, hkk, hlA, hlA', hlB⟩ := decomp_at_index p hlenp index _ c hrk hpk
  generalize p.runts[index]'(by omega) = k at hr hrk
  obtain ⟨pid, pr, pk⟩ := p
  simp only at hr hkk hpid hlenp hpk hidx
  subst hr
  subst hkk
  subst hpid
  subst hlA'
  have hidx' : searchLE lt key (rA ++ k :: rB) = rA.length := by rw [hlA]; exact hidx.symm
  -- the parent in its interval
  obtain ⟨lo', hi', PL, PR, z⟩ := Tree.zoom hsw hfind hids hpar hord
  obtain ⟨a0, b0, hab, hle⟩ := hin
  have hb := Tree.route_bounds hids hpar key _ a0 b0 hab
  have e := z.tree_bounds
  rw [hb] at e
  injection e with e
  injection e with e1 e2
  subst e1
  subst e2
  have hsorted : Sorted lt (rA ++ k :: rB) := Ord_sorted hsw _ z.ord z.par
  obtain ⟨hF1, hF2⟩ := searchLE_split_facts hsw key rA rB k hsorted hidx'
  -- lowering
  have hlow : lowerFirst P key A.length (rA ++ k :: rB) c = .ok (rA ++ lowKey lt key rA k :: rB) := by
    rw [← hlA, ← hK.lt]
    exact lowerFirst_form P key rA rB k c
  generalize hk1 : lowKey lt key rA k = k1 at hlow
  have hk1le : lt k k1 = false := hk1 ▸ lowKey_le hsw key rA k
  have hk1ne : rA ≠ [] → k1 = k := fun hne => hk1 ▸ lowKey_of_ne key rA k hne
  have hk1lo : rA = [] → leO lt a0 k1 := by
    intro e
    rw [← hk1]
    refine lowKey_lo key rA k a0 hle (z.ord.1 k ?_)
    subst e
    rfl
  have hO1 : Ord lt (d + 1) a0 b0 (Inner.mk pid (rA ++ k1 :: rB) (A ++ c :: B) : Inner K (Node K V d)) :=
    ord_lowered hsw pid rA rB k k1 A B c hlA z.ord hk1le hk1ne hk1lo
  have hP1 : ParN (d + 1) (Inner.mk pid (rA ++ k1 :: rB) (A ++ c :: B) : Inner K (Node K V d)) :=
    par_low pid rA rB k k1 _ z.par
  -- the child in its interval
  have hkids1' : Kids lt (fun a b c => Ord lt d a b c) b0 ((rA ++ k1 :: rB).zip (A ++ c :: B)) := hO1.2
  rw [Kids_decomp b0 rA rB k1 A B c hlA] at hkids1'
  have hOc : Ord lt d (some k1) (nextLo b0 (rB.zip B)) c := hkids1'.2.1
  have hPc : ParN d c := z.par.2.2 c (by show c ∈ A ++ c :: B; simp)
  -- the separator invariant, node level
  have hndp : (idsOf (d := d + 1) (Inner.mk pid (rA ++ k :: rB) (A ++ c :: B) : Inner K (Node K V d))).Nodup :=
    nodup_of_find hfind hids
  have hkid_ne : ∀ c' ∈ A ++ c :: B, ∀ x ∈ idsOf c', x ≠ pid := by
    intro c' hc' x hx e
    rw [idsOf_succ] at hndp
    apply (List.nodup_cons.1 hndp).1
    show pid ∈ (A ++ c :: B).flatMap (idsOf (d := d))
    exact List.mem_flatMap.2 ⟨c', hc', e ▸ hx⟩
  have hIN0 := ISepN_find _ pid _ _ _ _ hfind hpar ((isepW_iff_N _ hids hpar).1 hI)
  rw [isepN_decomp _ pid rA rB k A B c hlA] at hIN0
  obtain ⟨hIA, hIc, hIB⟩ := hIN0
  have hw01 : ∀ r x, r ≠ pid → (W r x ∨ kontWit (.upChild key f y pid A.length child) r x) →
      (W r x ∨ (r = child ∧ x = key ∧ LowN lt key d c)) := by
    intro r x hne hw
    rcases hw with hw | hw
    · exact Or.inl hw
    · exact absurd (kontWit_upChild hw).1 hne
  have hmonoA : ∀ e ∈ rA.zip A, SepEntry lt (fun r x => W r x ∨ (r = child ∧ x = key ∧ LowN lt key d c)) d e :=
    fun e he => SepEntry.mono
      (fun r hr x => hw01 r x (hkid_ne e.2 (List.mem_append_left _ (List.of_mem_zip he).2) r hr)) (hIA e he)
  have hmonoB : ∀ e ∈ rB.zip B, SepEntry lt (fun r x => W r x ∨ (r = child ∧ x = key ∧ LowN lt key d c)) d e :=
    fun e he => SepEntry.mono
      (fun r hr x => hw01 r x
        (hkid_ne e.2 (List.mem_append_right _ (List.mem_cons_of_mem _ (List.of_mem_zip he).2)) r hr)) (hIB e he)
  have hcmem : c ∈ A ++ c :: B := by simp
  have hIc1 : ISepN lt (fun r x => W r x ∨ (r = child ∧ x = key ∧ LowN lt key d c)) d c :=
    ISepN.mono (fun r hr x => hw01 r x (hkid_ne c hcmem r hr)) hIc.2
  have hfactc : SepFact lt (fun _ _ => False) d c k := by
    refine SepFact.mono ?_ hIc.1
    intro hw
    rcases hw with hw | hw
    · exact hW _ _ hw (hcid ▸ hHc)
    · exact hkid_ne c hcmem _ (id_mem_idsOf c) (kontWit_upChild hw).1
  -- the fact about the parent itself
  have hface : ∀ (X : List K) (lo2 hi2 : Option K) (s0 : K), s.tree.boundsOf pid = some (lo2, hi2) → lo2 = some s0 →
      SepFact lt (fun r x => W r x ∨ kontWit (.upChild key f y pid A.length child) r x) (d + 1)
        (Inner.mk pid (rA ++ k :: rB) (A ++ c :: B) : Inner K (Node K V d)) s0 →
      ∃ s', (rA ++ k1 :: X).head? = some s' ∧ eqv lt s0 s' = true := by
    intro X lo2 hi2 s0 hb2 hlo2 hfact
    rw [z.tree_bounds] at hb2
    injection hb2 with hb2
    injection hb2 with e1 _
    subst e1
    subst hlo2
    have hle' : lt key s0 = false := hle
    rw [← hk1]
    apply face_low hsw key s0 k rA rB X hle'
    · intro e
      subst e
      exact z.ord.1 k rfl
    · rcases hfact with h1 | h1 | h1
      · exact Or.inl h1
      · exact absurd hHp (hW _ _ h1)
      · obtain ⟨_, e2, e3⟩ := kontWit_upChild h1
        refine Or.inr ⟨e2, ?_⟩
        apply List.eq_nil_of_length_eq_zero
        rw [hlA]; exact e3
  rcases maybeSplit_cases P.order s.tree.nextId heven c hoccC with ⟨_, hms⟩ | ⟨l, r, hms, _⟩
  · -- no split
    have hcomp := fun y' => upChildArrive_nosplit P t s key f y' pid A.length child
      (Inner.mk pid (rA ++ k :: rB) (A ++ c :: B) : Inner K (Node K V d)) c c _ hfind hpk hlow hms
    have hset : (A ++ c :: B).set A.length c = A ++ c :: B := form_set_pivot A B c c
    simp only [hset] at hcomp
    have hIN1 : ISepN lt (fun r x => W r x ∨ (r = child ∧ x = key ∧ LowN lt key d c)) (d + 1)
        (Inner.mk pid (rA ++ k1 :: rB) (A ++ c :: B) : Inner K (Node K V d)) := by
      rw [isepN_decomp _ pid rA rB k1 A B c hlA]
      refine ⟨hmonoA, ⟨?_, hIc1⟩, hmonoB⟩
      have := sepFact_lowered hsw W c c key k rA child hcid rfl hfactc
      rw [hk1] at this
      exact this
    generalize hp1 : (Inner.mk pid (rA ++ k1 :: rB) (A ++ c :: B) : Inner K (Node K V d)) = p1 at hcomp hO1 hP1 hIN1
    have hp1id : p1.id = pid := by rw [← hp1]
    have hf' : s.tree.find p1.id = some ⟨d + 1, (Inner.mk pid (rA ++ k :: rB) (A ++ c :: B) : Inner K (Node K V d))⟩ := by
      rw [hp1id]; exact hfind
    have z' : Zoom lt p1.id s.tree.depth none none s.tree.root (d + 1)
        (Inner.mk pid (rA ++ k :: rB) (A ++ c :: B) : Inner K (Node K V d)) a0 b0 PL PR := by
      rw [hp1id]; exact z
    obtain ⟨hOt, hPt, _⟩ := z'.putInner p1 hO1 hP1
    have hok1 : TreeOk hole (putInner s.tree p1) := by
      have hp := hpost (some true)
      rw [hcomp (some true), upContinue_tree_yield] at hp
      exact hp
    have hI1 : ISepW lt (fun r x => W r x ∨ (r = child ∧ x = key ∧ LowN lt key d c)) (putInner s.tree p1) := by
      refine isepW_putInner _ _ p1 hf' hids hpar hok1.ids.1 hPt hI ?_ hIN1 ?_
      · intro r x hne
        rw [hp1id] at hne
        exact hw01 r x hne
      · intro lo2 hi2 s0 hb2 hlo2 hfact
        rw [hp1id] at hb2
        rw [← hp1, SepFact_succ]
        exact Or.inl (hface rB lo2 hi2 s0 hb2 hlo2 hfact)
    have hcm : (Node.id c, shallow c) ∈ (putInner s.tree p1).flat :=
      kid_mem_putInner p1 hf' hids c (by rw [← hp1]; exact hcmem)
    rw [hcomp y]
    apply upContinue_isep P hK hpre.pad t _ key f y child (hole := hole) hok1 hOt W
    refine ISepW.mono ?_ hI1
    intro r' x hw
    rcases hw with hw | ⟨e1, e2, hl⟩
    · exact Or.inl hw
    · refine Or.inr ⟨e1, e2, ?_⟩
      have := LowN_lowAt (lt := lt) hok1.ids.1 hcm hl
      rw [hcid] at this
      exact this
  · -- split
    have hsplit := maybeSplit_isSplit P.order s.tree.nextId heven c l r hoccC hms
    obtain ⟨rs, s0, sp⟩ := split_ord hsw (by omega) hsplit hOc hPc
    obtain ⟨pad, hp⟩ : ∃ pad, P.pad (some key) = some pad := by
      cases h : P.pad (some key) with
      | none => exact absurd h (hpre.pad key)
      | some x => exact ⟨x, rfl⟩
    have hcomp := fun y' => upChildArrive_split P t s key f y' pid A.length child
      (Inner.mk pid (rA ++ k :: rB) (A ++ c :: B) : Inner K (Node K V d)) c l r _ pad rs hfind hpk hlow hms hp sp.smr
    have hru : insertIdiom pad (rA ++ k1 :: rB) (A.length + 1) rs = rA ++ k1 :: rs :: rB := by
      rw [← hlA]; exact form_insert_next pad rA rB k1 rs
    have hks : (insertIdiom r (A ++ c :: B) (A.length + 1) r).set A.length l = A ++ l :: r :: B := by
      rw [form_insert_next, form_set_pivot]
    simp only [hru, hks] at hcomp
    rw [hK.lt] at hcomp
    have hO2 : Ord lt (d + 1) a0 b0 (Inner.mk pid (rA ++ k1 :: rs :: rB) (A ++ l :: r :: B) : Inner K (Node K V d)) :=
      ord_ins hsw pid rA rB k1 A B c l r _ rs s0 hlA hO1 sp
    have hP2 : ParN (d + 1) (Inner.mk pid (rA ++ k1 :: rs :: rB) (A ++ l :: r :: B) : Inner K (Node K V d)) :=
      par_ins pid rA rB k k1 rs A B c l r z.par sp.parl sp.parr
    have hhl : headN d l = headN d c := isSplit_headN (by omega) hsplit
    have hidl : Node.id l = child := sp.idl.trans hcid
    obtain ⟨hIl, hIr⟩ := isepN_split _ hsplit hIc1
    have hIN2 : ISepN lt (fun r x => W r x ∨ (r = child ∧ x = key ∧ LowN lt key d c)) (d + 1)
        (Inner.mk pid (rA ++ k1 :: rs :: rB) (A ++ l :: r :: B) : Inner K (Node K V d)) := by
      rw [isepN_decomp _ pid rA (rs :: rB) k1 A (r :: B) l hlA]
      refine ⟨hmonoA, ⟨?_, hIl⟩, ?_⟩
      · have := sepFact_lowered hsw W c l key k rA child hidl hhl hfactc
        rw [hk1] at this
        exact this
      · intro e he
        rw [List.zip_cons_cons] at he
        rcases List.mem_cons.1 he with rfl | he
        · exact ⟨sepFact_self hsw _ r rs sp.smr, hIr⟩
        · exact hmonoB e he
    generalize hp2 : (Inner.mk pid (rA ++ k1 :: rs :: rB) (A ++ l :: r :: B) : Inner K (Node K V d)) = p2
      at hcomp hO2 hP2 hIN2
    have hp2id : p2.id = pid := by rw [← hp2]
    have hf' : s.tree.find p2.id = some ⟨d + 1, (Inner.mk pid (rA ++ k :: rB) (A ++ c :: B) : Inner K (Node K V d))⟩ := by
      rw [hp2id]; exact hfind
    have z' : Zoom lt p2.id s.tree.depth none none s.tree.root (d + 1)
        (Inner.mk pid (rA ++ k :: rB) (A ++ c :: B) : Inner K (Node K V d)) a0 b0 PL PR := by
      rw [hp2id]; exact z
    obtain ⟨hOt, hPt, _⟩ := z'.putInner p2 hO2 hP2
    have hOt' : OrdTree lt (splitState s p2).tree := hOt
    have hok1 : TreeOk hole (splitState s p2).tree := by
      have hp := hpost (some true)
      rw [hcomp (some true)] at hp
      by_cases c : (!lt key rs) = true
      · rw [if_pos c] at hp; exact hp
      · rw [if_neg c, upContinue_tree_yield] at hp; exact hp
    have hids1 : (putInner s.tree p2).ids.Nodup := hok1.ids.1
    have hI2 : ISepW lt (fun r x => W r x ∨ (r = child ∧ x = key ∧ LowN lt key d c)) (putInner s.tree p2) := by
      refine isepW_putInner _ _ p2 hf' hids hpar hids1 hPt hI ?_ hIN2 ?_
      · intro r x hne
        rw [hp2id] at hne
        exact hw01 r x hne
      · intro lo2 hi2 s0 hb2 hlo2 hfact
        rw [hp2id] at hb2
        rw [← hp2, SepFact_succ]
        exact Or.inl (hface (rs :: rB) lo2 hi2 s0 hb2 hlo2 hfact)
    have hI2' : ISepW lt (fun r x => W r x ∨ (r = child ∧ x = key ∧ LowN lt key d c)) (splitState s p2).tree := hI2
    have hlm : (Node.id l, shallow l) ∈ (putInner s.tree p2).flat :=
      kid_mem_putInner p2 hf' hids l (by rw [← hp2]; show l ∈ A ++ l :: r :: B; simp)
    rw [hcomp y]
    by_cases cc : (!lt key rs) = true
    · rw [if_pos cc]
      have cc' : lt key rs = false := by simpa using cc
      refine ISepW.mono ?_ hI2'
      intro r' x hw
      rcases hw with hw | ⟨_, _, hl⟩
      · exact Or.inl hw
      · exfalso
        have h1 := LowN_lt_smallest sp.sml (LowN_of_head hhl hl)
        have := hsw.trans _ _ _ h1 sp.s0_s
        rw [cc'] at this
        cases this
    · rw [if_neg cc]
      apply upContinue_isep P hK hpre.pad t (St.rel (splitState s p2) t (.node pid)) key f y child (hole := hole)
        hok1 hOt' W
      refine ISepW.mono ?_ hI2'
      intro r' x hw
      rcases hw with hw | ⟨e1, e2, hl⟩
      · exact Or.inl hw
      · refine Or.inr ⟨e1, e2, ?_⟩
        have := LowN_lowAt (lt := lt) (t := (splitState s p2).tree) hids1 hlm (LowN_of_head hhl hl)
        rw [hidl] at this
        exact this

end Gobptree.Conc
