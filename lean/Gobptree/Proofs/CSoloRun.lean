/-
  Single-thread agreement, part 2: solo runs.

  `SoloFin P (s, fl) s' r`: a thread that runs alone and whose current piece of code ended in
  state `s` with flow `fl` completes its operation in state `s'` with result `r` (every
  lock it asks for on the way is free).  `fin_run` turns this into a `Config.run` of
  the one-thread configuration.
-/
import Gobptree.Proofs.CSoloCtx

namespace Gobptree.Conc
open Gobptree

variable {K V : Type}

/-- the scheduler's decision event in a one-thread configuration -/
def St.tick (s : St K V) : St K V := { s with evs := Ev.dec 0 [0] :: s.evs }

/-- the owner table lists exactly the locks of the one thread -/
def OwnOk (s : St K V) : Prop := s.owner.Perm (s.held.map (fun l => (l, 0)))

theorem map_erase_pair (h : List Lk) (l : Lk) :
    (h.map (fun l => (l, 0))).erase (l, 0) = (h.erase l).map (fun l => ((l, 0) : Lk × Nat)) := by
  induction h with
  | nil => rfl
  | cons a rest ih =>
    by_cases e : a = l
    · subst e; simp
    · have : ((a, 0) : Lk × Nat) ≠ (l, 0) := by intro h; apply e; injection h
      rw [List.map_cons, List.erase_cons_tail (by simpa using this), List.erase_cons_tail (by simpa using e),
        List.map_cons, ih]

theorem OwnOk.acq {s : St K V} (h : OwnOk s) (l : Lk) : OwnOk (s.acq 0 l) := by
  unfold OwnOk St.acq
  simp only [List.map_append, List.map_cons, List.map_nil]
  exact (List.Perm.cons _ h).trans (List.perm_append_singleton _ _).symm

theorem OwnOk.rel {s : St K V} (h : OwnOk s) (l : Lk) : OwnOk (s.rel 0 l) := by
  unfold OwnOk St.rel
  simp only
  rw [← map_erase_pair]
  exact h.erase _

theorem OwnOk.note {s : St K V} (h : OwnOk s) (n : Note K V) : OwnOk (s.note 0 n) := h
theorem OwnOk.tick {s : St K V} (h : OwnOk s) : OwnOk s.tick := h
theorem OwnOk.setTree {s : St K V} (h : OwnOk s) (tr : Tree K V) : OwnOk { s with tree := tr } := h

theorem OwnOk.relOpt {s : St K V} (h : OwnOk s) (o : Option Nat) : OwnOk (relOpt 0 s o) := by
  cases o with
  | none => exact h
  | some r => exact h.rel _

theorem OwnOk.free {s : St K V} (h : OwnOk s) {l : Lk} (hl : l ∉ s.held) :
    s.owner.find? (fun p => p.1 = l) = none := by
  rw [List.find?_eq_none]
  intro p hp
  have := h.subset hp
  rw [List.mem_map] at this
  obtain ⟨l', hl', e⟩ := this
  subst e
  simp only [decide_eq_true_eq]
  intro e; subst e; exact hl hl'

theorem OwnOk.nil {s : St K V} (h : OwnOk s) (hh : s.held = []) : s.owner = [] := by
  unfold OwnOk at h
  rw [hh] at h
  exact List.Perm.eq_nil h

/-- completion of the current operation by a thread running alone -/
inductive SoloFin (P : Params K) : St K V × Flow K V → St K V → Res K V → Prop where
  | done (s : St K V) (r : Res K V) : SoloFin P (s, .done r) s r
  | park {s : St K V} {l : Lk} {k : Kont K V} {s' : St K V} {r : Res K V} :
      OwnOk s → l ∉ s.held → SoloFin P (resume P 0 s.tick k) s' r → SoloFin P (s, .park (.want l k)) s' r

/-! ### from `SoloFin` to `Config.run` -/

/-- the thread-local state the step function builds (before the decision event) -/
def sOf (c : Config K V) (th : Thread K V) : St K V :=
  { tree := c.tree, owner := c.owner, held := th.held, cursor := th.cursor, exhausted := th.exhausted, evs := c.log }

/-- the configuration after the only thread ran a piece of code -/
def cfgOf (c : Config K V) (r : Thread K V × St K V × Bool) : Config K V :=
  { c with tree := r.2.1.tree, owner := r.2.1.owner, threads := [r.1], log := r.2.1.evs, dead := c.dead || r.2.2 }

theorem threadLoop_congr (t : Nat) (th th' : Thread K V) (h : th'.prog = th.prog) :
    ∀ (fuel : Nat) (s : St K V) (fl : Flow K V) (pc : Nat),
      threadLoop t th' fuel s fl pc = threadLoop t th fuel s fl pc := by
  intro fuel
  induction fuel with
  | zero =>
    intro s fl pc
    cases fl <;> simp [threadLoop, h]
  | succ fuel ih =>
    intro s fl pc
    cases fl with
    | panic => simp [threadLoop, h]
    | park p => simp [threadLoop, h]
    | done r =>
      unfold threadLoop
      rw [h]
      cases hop : th.prog[pc + 1]? with
      | none => simp
      | some op => exact ih _ _ _

theorem step_solo (c : Config K V) (th : Thread K V) (l : Lk) (k : Kont K V)
    (hth : c.threads = [th]) (hp : th.park = .want l k) (ho : OwnOk (sOf c th)) (hl : l ∉ th.held) :
    c.step 0 = some (cfgOf c (threadLoop 0 th th.prog.length
      (resume c.P 0 (sOf c th).tick k).1 (resume c.P 0 (sOf c th).tick k).2 th.pc)) := by
  have hfree : c.holder l = none := by
    unfold Config.holder
    rw [show c.owner = (sOf c th).owner from rfl, ho.free (show l ∉ (sOf c th).held from hl)]
    rfl
  have hen : th.enabled c = true := by
    unfold Thread.enabled
    rw [hp]
    simp [hfree]
  have hes : c.enabledSet = [0] := by
    unfold Config.enabledSet
    rw [hth]
    simp [List.range_succ, hen]
  unfold Config.step
  rw [hth]
  simp only [List.getElem?_cons_zero, hen, Bool.not_true, Bool.false_eq_true, if_false, hes]
  unfold runThread
  rw [hp]
  rfl

/-- a solo completion is a run of the one-thread configuration -/
theorem fin_loop (P : Params K) (x : St K V × Flow K V) (s' : St K V) (r : Res K V) (h : SoloFin P x s' r) :
    ∀ (c : Config K V) (th : Thread K V), c.P = P →
      ∃ n, (cfgOf c (threadLoop 0 th th.prog.length x.1 x.2 th.pc)).run (List.replicate n 0) =
        (cfgOf c (threadLoop 0 th th.prog.length s' (.done r) th.pc), none) := by
  induction h with
  | done s r => intro c th _; exact ⟨0, rfl⟩
  | @park s l k s' r ho hl _ ih =>
    intro c th hP
    have e1 : threadLoop 0 th th.prog.length s (.park (.want l k)) th.pc =
        ({ th with pc := th.pc, park := .want l k, held := s.held, cursor := s.cursor, exhausted := s.exhausted }, s, false) := by
      cases th.prog.length <;> rfl
    simp only [e1]
    let th1 : Thread K V := { th with pc := th.pc, park := .want l k, held := s.held, cursor := s.cursor, exhausted := s.exhausted }
    let c1 : Config K V := cfgOf c (th1, s, false)
    have hs1 : sOf c1 th1 = s := rfl
    have hstep := step_solo c1 th1 l k rfl rfl (by rw [hs1]; exact ho) hl
    rw [hs1] at hstep
    have hP1 : c1.P = P := hP
    rw [hP1] at hstep
    obtain ⟨n, hn⟩ := ih c th hP
    refine ⟨n + 1, ?_⟩
    rw [List.replicate_succ]
    show Config.run c1 (0 :: List.replicate n 0) = _
    unfold Config.run
    rw [hstep]
    simp only
    have hcong := threadLoop_congr 0 th th1 rfl
    have hc1 : ∀ r, cfgOf c1 r = cfgOf c r := by
      intro r
      show ({ c1 with tree := _, owner := _, threads := _, log := _, dead := c1.dead || r.2.2 } : Config K V) = _
      simp [c1, cfgOf]
    rw [hc1, show th1.prog.length = th.prog.length from rfl, show th1.pc = th.pc from rfl, hcong]
    exact hn

theorem fin_run (c : Config K V) (th : Thread K V) (l : Lk) (k : Kont K V) (s' : St K V) (r : Res K V)
    (hth : c.threads = [th]) (hp : th.park = .want l k)
    (h : SoloFin c.P (sOf c th, .park (.want l k)) s' r) :
    ∃ n, c.run (List.replicate (n + 1) 0) =
      (cfgOf c (threadLoop 0 th th.prog.length s' (.done r) th.pc), none) := by
  cases h with
  | park ho hl h =>
    obtain ⟨n, hn⟩ := fin_loop c.P _ s' r h c th rfl
    refine ⟨n, ?_⟩
    rw [List.replicate_succ]
    unfold Config.run
    rw [step_solo c th l k hth hp ho hl]
    exact hn

/-! ### events -/

/-- the callback arguments noted in a stretch of the log (newest first) -/
def cbNotes : List (Ev K V) → List (Option V)
  | [] => []
  | .note _ (.cb a) :: rest => a :: cbNotes rest
  | _ :: rest => cbNotes rest

/-- the `ret` notes in a stretch of the log (newest first) -/
def retNotes : List (Ev K V) → List (Nat × Res K V)
  | [] => []
  | .note _ (.ret i r) :: rest => (i, r) :: retNotes rest
  | _ :: rest => retNotes rest

theorem cbNotes_append (a b : List (Ev K V)) : cbNotes (a ++ b) = cbNotes a ++ cbNotes b := by
  induction a with
  | nil => rfl
  | cons e rest ih =>
    cases e with
    | note t n => cases n <;> simp [cbNotes, ih]
    | acq t l => simpa [cbNotes] using ih
    | rel t l => simpa [cbNotes] using ih
    | dec t l => simpa [cbNotes] using ih

theorem retNotes_append (a b : List (Ev K V)) : retNotes (a ++ b) = retNotes a ++ retNotes b := by
  induction a with
  | nil => rfl
  | cons e rest ih =>
    cases e with
    | note t n => cases n <;> simp [retNotes, ih]
    | acq t l => simpa [retNotes] using ih
    | rel t l => simpa [retNotes] using ih
    | dec t l => simpa [retNotes] using ih

/-- `s'` extends the log of `s` by a stretch with the given callback notes and no `ret` -/
def Grows (s s' : St K V) (cbs : List (Option V)) : Prop :=
  ∃ pre, s'.evs = pre ++ s.evs ∧ cbNotes pre = cbs ∧ retNotes pre = []

theorem Grows.refl (s : St K V) : Grows s s [] := ⟨[], rfl, rfl, rfl⟩

theorem Grows.trans {s s1 s2 : St K V} {a b : List (Option V)} (h1 : Grows s s1 a) (h2 : Grows s1 s2 b) :
    Grows s s2 (b ++ a) := by
  obtain ⟨p1, e1, c1, r1⟩ := h1
  obtain ⟨p2, e2, c2, r2⟩ := h2
  refine ⟨p2 ++ p1, by rw [e2, e1, List.append_assoc], by rw [cbNotes_append, c1, c2], by rw [retNotes_append, r1, r2]; rfl⟩

theorem Grows.of_evs {s s' : St K V} (pre : List (Ev K V)) (cbs : List (Option V))
    (h : s'.evs = pre ++ s.evs) (hc : cbNotes pre = cbs) (hr : retNotes pre = []) : Grows s s' cbs :=
  ⟨pre, h, hc, hr⟩

theorem Grows.tick (s : St K V) : Grows s s.tick [] := ⟨[Ev.dec 0 [0]], rfl, rfl, rfl⟩
theorem Grows.acq (s : St K V) (l : Lk) : Grows s (s.acq 0 l) [] := ⟨[Ev.acq 0 l], rfl, rfl, rfl⟩
theorem Grows.rel (s : St K V) (l : Lk) : Grows s (s.rel 0 l) [] := ⟨[Ev.rel 0 l], rfl, rfl, rfl⟩
theorem Grows.cb (s : St K V) (a : Option V) : Grows s (s.note 0 (.cb a)) [a] := ⟨[Ev.note 0 (.cb a)], rfl, rfl, rfl⟩

theorem Grows.relOpt (s : St K V) (o : Option Nat) : Grows s (relOpt 0 s o) [] := by
  cases o with
  | none => exact Grows.refl s
  | some r => exact Grows.rel s _

/-- what is known at the end of an operation -/
structure SoloPost (s s' : St K V) (T' : Tree K V) (cbs : List (Option V)) : Prop where
  tree : s'.tree = T'
  held : s'.held = []
  own : OwnOk s'
  cursor : s'.cursor = s.cursor
  exhausted : s'.exhausted = s.exhausted
  evs : Grows s s' cbs

end Gobptree.Conc
