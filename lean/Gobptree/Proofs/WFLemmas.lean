/-
  Basic facts about `leO`/`ltO`, `Kids`, `WF` and `pairs`.
-/
import Gobptree.Proofs.WF

namespace Gobptree

variable {K V : Type} {lt : K → K → Bool}

/-! ### bounds -/

theorem leO_none (k : K) : leO lt none k := trivial
theorem ltO_none (k : K) : ltO lt k none := trivial

theorem leO_trans (h : SWO lt) {lo : Option K} {a b : K} (h1 : leO lt lo a) (h2 : lt b a = false) :
    leO lt lo b := by
  cases lo with
  | none => trivial
  | some l => exact h.le_trans h1 h2

theorem ltO_of_le (h : SWO lt) {hi : Option K} {a b : K} (h1 : ltO lt b hi) (h2 : lt b a = false) :
    ltO lt a hi := by
  cases hi with
  | none => trivial
  | some u => exact h.lt_of_le_of_lt h2 h1

/-- weakening an upper bound: `hi ≤ hi'` -/
def hiLe (lt : K → K → Bool) (hi hi' : Option K) : Prop :=
  match hi', hi with
  | none, _ => True
  | some _, none => False
  | some u', some u => lt u' u = false

theorem hiLe_refl (h : SWO lt) (hi : Option K) : hiLe lt hi hi := by
  cases hi with
  | none => trivial
  | some u => exact h.irrefl u

theorem ltO_mono (h : SWO lt) {hi hi' : Option K} {k : K} (hh : hiLe lt hi hi') (h1 : ltO lt k hi) :
    ltO lt k hi' := by
  cases hi' with
  | none => trivial
  | some u' =>
    cases hi with
    | none => exact absurd hh id
    | some u => exact h.lt_of_lt_of_le h1 hh

/-- weakening a lower bound: `lo' ≤ lo` -/
def loLe (lt : K → K → Bool) (lo' lo : Option K) : Prop :=
  match lo', lo with
  | none, _ => True
  | some _, none => False
  | some l', some l => lt l l' = false

theorem leO_mono (h : SWO lt) {lo lo' : Option K} {k : K} (hh : loLe lt lo' lo) (h1 : leO lt lo k) :
    leO lt lo' k := by
  cases lo' with
  | none => trivial
  | some l' =>
    cases lo with
    | none => exact absurd hh id
    | some l => exact h.le_trans hh h1

/-! ### Kids -/

section kids
variable {C : Type} {R : Option K → Option K → C → Prop}

theorem Kids_append (hi : Option K) (l r : List (K × C)) :
    Kids lt R hi (l ++ r) ↔ Kids lt R (nextLo hi r) l ∧ Kids lt R hi r := by
  induction l with
  | nil => simp [Kids]
  | cons p l ih =>
    obtain ⟨k, c⟩ := p
    have hn : nextLo hi (l ++ r) = nextLo (nextLo hi r) l := by
      cases l with
      | nil => rfl
      | cons q l => rfl
    simp only [List.cons_append, Kids, ih, hn]
    constructor
    · rintro ⟨a, b, c, d⟩; exact ⟨⟨a, b, c⟩, d⟩
    · rintro ⟨⟨a, b, c⟩, d⟩; exact ⟨a, b, c, d⟩

theorem Kids_cons (hi : Option K) (k : K) (c : C) (rest : List (K × C)) :
    Kids lt R hi ((k, c) :: rest) ↔
      R (some k) (nextLo hi rest) c ∧ ltO lt k (nextLo hi rest) ∧ Kids lt R hi rest := Iff.rfl

/-- monotonicity in the outer upper bound, given `R` is monotone in its upper bound -/
theorem Kids_mono_hi (h : SWO lt) (hR : ∀ a b b' c, hiLe lt b b' → R a b c → R a b' c)
    {hi hi' : Option K} (hh : hiLe lt hi hi') (l : List (K × C)) :
    Kids lt R hi l → Kids lt R hi' l := by
  induction l with
  | nil => intro _; trivial
  | cons p l ih =>
    obtain ⟨k, c⟩ := p
    cases l with
    | nil =>
      intro ⟨a, b, _⟩
      exact ⟨hR _ _ _ _ hh a, ltO_mono h hh b, trivial⟩
    | cons q l =>
      intro ⟨a, b, c'⟩
      exact ⟨a, b, ih c'⟩

theorem Kids_imp {R' : Option K → Option K → C → Prop} (hR : ∀ a b c, R a b c → R' a b c)
    (hi : Option K) (l : List (K × C)) : Kids lt R hi l → Kids lt R' hi l := by
  induction l with
  | nil => intro _; trivial
  | cons p l ih =>
    obtain ⟨k, c⟩ := p
    intro ⟨a, b, c'⟩
    exact ⟨hR _ _ _ a, b, ih c'⟩

/-- separators of a `Kids` chain are below the outer bound -/
theorem Kids_keys_lt (h : SWO lt) (hi : Option K) (l : List (K × C)) (hk : Kids lt R hi l) :
    ∀ p ∈ l, ltO lt p.1 hi := by
  induction l with
  | nil => intro p hp; cases hp
  | cons q l ih =>
    obtain ⟨k, c⟩ := q
    obtain ⟨_, b, c'⟩ := hk
    intro p hp
    have ihl := ih c'
    cases List.mem_cons.mp hp with
    | inl e =>
      subst e
      cases l with
      | nil => exact b
      | cons r l =>
        obtain ⟨k2, c2⟩ := r
        have h2 : ltO lt k2 hi := ihl (k2, c2) (by simp)
        cases hi with
        | none => trivial
        | some u => exact h.trans _ _ _ b h2
    | inr hm => exact ihl p hm

/-- the first separator is the smallest -/
theorem Kids_head_le (h : SWO lt) (hi : Option K) (k : K) (c : C) (l : List (K × C))
    (hk : Kids lt R hi ((k, c) :: l)) : ∀ p ∈ l, lt k p.1 = true := by
  induction l generalizing k c with
  | nil => intro p hp; cases hp
  | cons q l ih =>
    obtain ⟨k2, c2⟩ := q
    obtain ⟨_, b, c'⟩ := hk
    intro p hp
    cases List.mem_cons.mp hp with
    | inl e => subst e; exact b
    | inr hm => exact h.trans _ _ _ b (ih k2 c2 c' p hm)

end kids

end Gobptree
