/-
  Whole-scan guarantee: the ghost invariant of the session's thread (`ThInv`) through one
  scheduler step — a step of the thread itself (which fuses several calls: `loop_thInv`,
  `step_own_thInv`) and a step of any other thread (`step_other_thInv`: the SAME ghost bound
  stays valid, the log facts are untouched).
-/
import Gobptree.Proofs.CScanSessionOps

namespace Gobptree.Conc
open Gobptree

variable {K V : Type}

/-! ### changing the ghost parameters -/

theorem LogOk.mono {X : SCtx K V} {rs : List (Nat × Res K V)} (h : LogOk X rs)
    (Sd' : Nat → K → V → Prop) (KS' : K → Prop)
    (hsd : ∀ y k v, (y, Res.pair k v) ∈ rs → (X.a, Res.ok) ∈ rs → X.Sd y k v → Sd' y k v)
    (hks : (X.a, Res.ok) ∈ rs → ∀ k, KS' k → X.KS k) :
    LogOk { X with Sd := Sd', KS := KS' } rs where
  s0 := h.s0
  s1 := fun y k v hy hs => ⟨(h.s1 y k v hy hs).1, hsd y k v hy (h.s1 y k v hy hs).1 (h.s1 y k v hy hs).2⟩
  s2a := h.s2a
  s2b := h.s2b
  s2c := h.s2c
  s3 := fun he hf k hk => h.s3 he hf k (hks (h.s0 _ hf he.inSess) k hk)

theorem Open.mono {X : SCtx K V} {T : Tree K V} {hb : Bool} {cur : Option (Option Nat × Int)} {exh : Bool}
    {rs : List (Nat × Res K V)} {n : Nat} {b : Bound K} {leaf : Nat} {i : Int}
    (h : Open X T hb cur exh rs n b leaf i) (Sd' : Nat → K → V → Prop) (KS' : K → Prop)
    (hks : (X.a, Res.ok) ∈ rs → ∀ k, KS' k → X.KS k) :
    Open { X with Sd := Sd', KS := KS' } T hb cur exh rs n b leaf i :=
  ⟨h.an, h.nsret, h.hcur, h.hexh, h.cok, h.pos, h.fresh, h.ord,
    fun he hn k hk => h.cov he hn k (hks h.nsret k hk)⟩

theorem PkSess.mono {X : SCtx K V} {T : Tree K V} {cur : Option (Option Nat × Int)} {exh : Bool}
    {rs : List (Nat × Res K V)} {p : Park K V} {pc : Nat}
    (h : PkSess X T cur exh rs p pc) (Sd' : Nat → K → V → Prop) (KS' : K → Prop)
    (hks : (X.a, Res.ok) ∈ rs → ∀ k, KS' k → X.KS k) :
    PkSess { X with Sd := Sd', KS := KS' } T cur exh rs p pc := by
  refine ⟨h.1, fun h1 h2 => ?_⟩
  rcases h.2 h1 h2 with ⟨hp, hz, sess⟩ | ⟨l, leaf, nx, hp, hs, b, i, ho⟩
  · refine Or.inl ⟨hp, hz, ?_⟩
    rcases sess with ⟨b, leaf, i, ho⟩ | hex
    · exact Or.inl ⟨b, leaf, i, ho.mono Sd' KS' hks⟩
    · exact Or.inr hex
  · exact Or.inr ⟨l, leaf, nx, hp, hs, b, i, ho.mono Sd' KS' hks⟩

theorem ThInv.mono {X : SCtx K V} {T : Tree K V} {th : Thread K V} {rs : List (Nat × Res K V)}
    (h : ThInv X T th rs) (Sd' : Nat → K → V → Prop) (KS' : K → Prop)
    (hsd : ∀ y k v, (y, Res.pair k v) ∈ rs → (X.a, Res.ok) ∈ rs → X.Sd y k v → Sd' y k v)
    (hks : (X.a, Res.ok) ∈ rs → ∀ k, KS' k → X.KS k) :
    ThInv { X with Sd := Sd', KS := KS' } T th rs := by
  obtain ⟨h1, h2, h3⟩ := h
  refine ⟨h1, h2.mono Sd' KS' hsd hks, ?_⟩
  cases hp : th.park with
  | start => rw [hp] at h3; exact h3
  | finished => trivial
  | want l k => rw [hp] at h3; exact ⟨h3.1, h3.2.mono Sd' KS' hks⟩
  | yielded k => rw [hp] at h3; exact ⟨h3.1, h3.2.mono Sd' KS' hks⟩

/-! ### moving to another tree -/

theorem Open.retree {X : SCtx K V} {T T' : Tree K V} {hb : Bool} {cur : Option (Option Nat × Int)} {exh : Bool}
    {rs : List (Nat × Res K V)} {n : Nat} {b : Bound K} {leaf : Nat} {i : Int}
    (h : Open X T hb cur exh rs n b leaf i) (hcok : CursorOk T' hb (some (some leaf, i)))
    (hpos : CurPosW X.lt T' b leaf i) : Open X T' hb cur exh rs n b leaf i :=
  ⟨h.an, h.nsret, h.hcur, h.hexh, hcok, hpos, h.fresh, h.ord, h.cov⟩

theorem PkSess.retree {X : SCtx K V} {T T' : Tree K V} {cur : Option (Option Nat × Int)} {exh : Bool}
    {rs : List (Nat × Res K V)} {p : Park K V} {pc : Nat} (h : PkSess X T cur exh rs p pc)
    (f : ∀ n b leaf i, Open X T (isHop p) cur exh rs n b leaf i → Open X T' (isHop p) cur exh rs n b leaf i) :
    PkSess X T' cur exh rs p pc := by
  refine ⟨h.1, fun h1 h2 => ?_⟩
  rcases h.2 h1 h2 with ⟨hp, hz, sess⟩ | ⟨l, leaf, nx, hp, hs, b, i, ho⟩
  · refine Or.inl ⟨hp, hz, ?_⟩
    rcases sess with ⟨b, leaf, i, ho⟩ | hex
    · subst hp
      exact Or.inl ⟨b, leaf, i, f _ _ _ _ ho⟩
    · exact Or.inr hex
  · subst hp
    exact Or.inr ⟨l, leaf, nx, rfl, hs, b, i, f _ _ _ _ ho⟩

/-! ### the responses of the session's thread are not touched by other threads -/

theorem rets_threadLoop_other {j t : Nat} (hne : t ≠ j) (th : Thread K V) (fuel : Nat) (s : St K V)
    (fl : Flow K V) (pc : Nat) : rets j (threadLoop t th fuel s fl pc).2.1.evs = rets j s.evs := by
  refine threadLoop_induct t th (fun s' _ _ => rets j s'.evs = rets j s.evs)
    (fun r => rets j r.2.1.evs = rets j s.evs) ?_ ?_ ?_ ?_ fuel s fl pc rfl
  · intro s' p pc h; exact h
  · intro s' pc h
    exact (rets_cons_ret_ne hne _ _ _).trans h
  · intro s' r pc h
    exact (rets_cons_ret_ne hne _ _ _).trans h
  · intro s' r pc op h _
    rw [rets_startOp]
    show rets j (Ev.note t (.ret pc r) :: s'.evs) = _
    exact (rets_cons_ret_ne hne _ _ _).trans h

theorem rets_runThread_other {j t : Nat} (hne : t ≠ j) (P : Params K) (th : Thread K V) (s : St K V) :
    rets j (runThread P t th s).2.1.evs = rets j s.evs := by
  unfold runThread
  cases th.park with
  | start =>
    simp only
    cases th.prog[0]? with
    | none => rfl
    | some op =>
      simp only
      rw [rets_threadLoop_other hne, rets_startOp]; rfl
  | want l k => simp only; rw [rets_threadLoop_other hne, rets_resume]
  | yielded k => simp only; rw [rets_threadLoop_other hne, rets_resume]
  | finished => rfl

/-! ### one step of another thread -/

/-- **a step of another thread keeps the session's ghost state** — with the SAME bound -/
theorem step_other_thInv {X : SCtx K V} (c c' : Config K V) (t : Nat) (hne : X.j ≠ t)
    (hstep : c.step t = some c') (hinv : KFInv X.lt c) {th : Thread K V} (hth : c.threads[X.j]? = some th)
    (h : ThInv X c.tree th (rets X.j c.log)) :
    c'.threads[X.j]? = some th ∧ ThInv X c'.tree th (rets X.j c'.log) := by
  have h' : KFInv X.lt c' := step_kfinv kblocks_ok X.lt c c' t hstep hinv
  obtain ⟨_, tht, htt, hframe⟩ := step_cinv blocks_ok c c' t hstep hinv.cinv
  obtain ⟨tht', htt', hen, r, hr, hc'⟩ := step_shape hstep
  rw [htt] at htt'; cases htt'
  have hthr : c'.threads[X.j]? = some th := by
    rw [hc']
    simp only
    rw [List.getElem?_set_ne (Ne.symm hne)]
    exact hth
  have hlog : rets X.j c'.log = rets X.j c.log := by
    rw [hc']
    simp only
    rw [hr, rets_runThread_other (Ne.symm hne)]
    rfl
  have hst := step_stable_routes kblocks_ok X.lt c c' t hstep hinv tht htt
  have hthm' : th ∈ c'.threads := List.mem_of_getElem? hthr
  have hcok' := (h'.cinv.s.threads th hthm').2
  have topen : ∀ n b leaf i, Open X c.tree (isHop th.park) th.cursor th.exhausted (rets X.j c.log) n b leaf i →
      Open X c'.tree (isHop th.park) th.cursor th.exhausted (rets X.j c.log) n b leaf i := by
    intro n b leaf i ho
    have hp := other_curPosW hinv.cinv htt hth hne hen hframe hst ho.hcur ho.pos
    refine ho.retree ?_ hp
    rw [ho.hcur] at hcok'
    exact hcok'
  refine ⟨hthr, ?_⟩
  rw [hlog]
  obtain ⟨h1, h2, h3⟩ := h
  refine ⟨h1, h2, ?_⟩
  cases hp : th.park with
  | start => rw [hp] at h3; exact h3
  | finished => trivial
  | want l k =>
    rw [hp] at h3 topen
    exact ⟨h3.1, h3.2.retree topen⟩
  | yielded k =>
    rw [hp] at h3 topen
    exact ⟨h3.1, h3.2.retree topen⟩

/-! ### one step of the session's own thread -/

theorem LogOk.cons_inert {X : SCtx K V} {rs : List (Nat × Res K V)} (h : LogOk X rs) (n : Nat) {r : Res K V}
    (hp : ∀ k v, r ≠ .pair k v) (hb : ∀ b, r ≠ .bool b) : LogOk X ((n, r) :: rs) := by
  have old : ∀ {y : Nat} {r' : Res K V}, (y, r') ∈ (n, r) :: rs → r' ≠ r → (y, r') ∈ rs := by
    intro y r' hm hne
    rcases mem_cons_ret.1 hm with ⟨_, e⟩ | hm
    · exact absurd e hne
    · exact hm
  have op : ∀ {y : Nat} {k : K} {v : V}, (y, Res.pair k v) ∈ (n, r) :: rs → (y, Res.pair k v) ∈ rs :=
    fun hm => old hm (fun e => hp _ _ e.symm)
  have ob : ∀ {y : Nat} {b : Bool}, (y, Res.bool b) ∈ (n, r) :: rs → (y, Res.bool b) ∈ rs :=
    fun hm => old hm (fun e => hb _ e.symm)
  exact
    { s0 := fun y hy hs => List.mem_cons_of_mem _ (h.s0 y (ob hy) hs)
      s1 := fun y k v hy hs => ⟨List.mem_cons_of_mem _ (h.s1 y k v (op hy) hs).1, (h.s1 y k v (op hy) hs).2⟩
      s2a := fun y k v hy hs => h.s2a y k v (op hy) hs
      s2b := fun x y k v k' v' hx hy => h.s2b x y k v k' v' (op hx) (op hy)
      s2c := fun x z y k v k' v' hx hz hy => h.s2c x z y k v k' v' (op hx) (ob hz) (op hy)
      s3 := fun he hf k hk => (h.s3 he (ob hf) k hk).cons _ }

/-- the loop of calls of one step of the session's thread -/
theorem loop_thInv {X : SCtx K V} {T : Tree K V} {hole : Option Nat} (E : SEnv X T hole)
    (th : Thread K V) (hprog : th.prog = X.prog) :
    ∀ (fuel : Nat) (s : St K V) (fl : Flow K V) (pc : Nat), SLoopI X T s fl pc →
      ThInv X T (threadLoop X.j th fuel s fl pc).1 (rets X.j (threadLoop X.j th fuel s fl pc).2.1.evs) := by
  refine threadLoop_induct X.j th (SLoopI X T) (fun r => ThInv X T r.1 (rets X.j r.2.1.evs)) ?_ ?_ ?_ ?_
  · intro s p pc hi
    obtain ⟨_, hlive, hr1, hlog, hpk⟩ := hi
    cases p with
    | start => exact hlive.elim
    | finished => exact hlive.elim
    | want l k => exact ⟨hprog, hlog, hr1, hpk⟩
    | yielded k => exact ⟨hprog, hlog, hr1, hpk⟩
  · intro s pc hi
    refine ⟨hprog, ?_, trivial⟩
    show LogOk X (rets X.j (Ev.note X.j (.ret pc .panic) :: s.evs))
    rw [rets_cons_ret]
    exact LogOk.cons_inert hi.2 pc (fun _ _ e => by cases e) (fun _ e => by cases e)
  · intro s r pc hi
    refine ⟨hprog, ?_, trivial⟩
    show LogOk X (rets X.j (Ev.note X.j (.ret pc r) :: s.evs))
    rw [rets_cons_ret]
    exact hi.2.log
  · intro s r pc op hi hop
    rw [hprog] at hop
    refine startOp_sloopI E _ (pc + 1) op hi.1 ?_ hop
    have e : rets X.j ((s.note X.j (.ret pc r)).note X.j (.inv (pc + 1))).evs = (pc, r) :: rets X.j s.evs :=
      rets_cons_ret X.j pc r s.evs
    rw [e]
    exact hi.2

/-- **a step of the session's own thread keeps the ghost state** -/
theorem step_own_thInv {X : SCtx K V} (c c' : Config K V) (hstep : c.step X.j = some c')
    (hinv : KFInv X.lt c) (hw : ∀ th ∈ c.threads, CursorPosW X.lt c.tree th)
    (hns : X.prog[X.a]? = some (.ns X.start))
    (hnfp : ∀ y, X.a < y → (∀ x, X.a < x → x < y → X.prog[x]? = some .pause) → X.prog[y]? ≠ some .pair)
    (hks : ∀ k, X.KS k → X.lt k X.start = false ∧ ∃ v, (k, v) ∈ c'.tree.abs)
    (hsd : ∀ y k v, (k, v) ∈ c'.tree.abs → X.Sd y k v)
    {th : Thread K V} (hth : c.threads[X.j]? = some th) (h : ThInv X c.tree th (rets X.j c.log)) :
    ∃ th', c'.threads[X.j]? = some th' ∧ ThInv X c'.tree th' (rets X.j c'.log) := by
  have h' : KFInv X.lt c' := step_kfinv kblocks_ok X.lt c c' X.j hstep hinv
  obtain ⟨th1, ht1, hen, r, hr, hc'⟩ := step_shape hstep
  rw [hth] at ht1; cases ht1
  have htm : th ∈ c.threads := List.mem_of_getElem? hth
  have hS := hinv.cinv.s
  have E : SEnv X c'.tree (holeOf c'.threads) :=
    ⟨hinv.kp.swo, h'.cinv.s.tree, h'.kinv.ord, hns, hnfp, hks, hsd⟩
  have hjl : X.j < c.threads.length := (List.getElem?_eq_some_iff.1 hth).1
  have hthr : c'.threads[X.j]? = some r.1 := by
    rw [hc']
    simp only
    rw [List.getElem?_set_self hjl]
  have htree' : c'.tree = r.2.1.tree := by rw [hc']
  have hlog' : c'.log = r.2.1.evs := by rw [hc']
  refine ⟨r.1, hthr, ?_⟩
  rw [hlog', hr]
  obtain ⟨hprog, hlogok, hpark⟩ := h
  have hnf := enabled_not_finished hen
  unfold runThread
  cases hp : th.park with
  | finished => exact absurd hp hnf
  | start =>
    rw [hp] at hpark
    have hT : c'.tree = c.tree := step_tree_read hstep hth (by rw [hp]; trivial)
    simp only
    cases hop : th.prog[0]? with
    | none => exact ⟨hprog, hlogok, trivial⟩
    | some op =>
      simp only
      rw [hprog] at hop
      refine loop_thInv E th hprog _ _ _ _ (startOp_sloopI E _ 0 op hT.symm ?_ hop)
      exact ⟨fun i r hm => absurd hm (hpark i r), hlogok, fun h => absurd h (Nat.not_lt_zero _)⟩
  | want l k =>
    rw [hp] at hpark
    simp only
    obtain ⟨g0, g1, _, _⟩ := resumed_state X.lt c c' X.j hstep hinv hw hth (k := k) (Or.inl ⟨l, hp⟩)
    have hkpos : KPos X.lt c.tree k := by
      have := hinv.kinv.pos th htm; rw [hp] at this; exact this
    have hko : KontOk c.tree k := by
      have := (hS.threads th htm).1; rw [hp] at this; exact this
    exact loop_thInv E th hprog _ _ _ _
      (resume_sloopI E c.P hinv.kp (stepSt c X.j th) k (.want l k) th.pc (Or.inl ⟨l, rfl⟩) hpark.1 hlogok
        hpark.2 g0 hko hkpos g1)
  | yielded k =>
    rw [hp] at hpark
    simp only
    obtain ⟨g0, g1, _, _⟩ := resumed_state X.lt c c' X.j hstep hinv hw hth (k := k) (Or.inr hp)
    have hkpos : KPos X.lt c.tree k := by
      have := hinv.kinv.pos th htm; rw [hp] at this; exact this
    have hko : KontOk c.tree k := by
      have := (hS.threads th htm).1; rw [hp] at this; exact this
    exact loop_thInv E th hprog _ _ _ _
      (resume_sloopI E c.P hinv.kp (stepSt c X.j th) k (.yielded k) th.pc (Or.inr rfl) hpark.1 hlogok
        hpark.2 g0 hko hkpos g1)

end Gobptree.Conc
