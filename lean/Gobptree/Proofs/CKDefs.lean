/-
  Concurrent KEY-ORDER invariant (on top of the structural invariant `CInv`).

  `Ord` is the ordering half of the sequential shape invariant `WF` (no occupancy clauses:
  those are carried by `CInv`): keys/separators strictly ascending, every key of a subtree
  inside the interval its parent assigns to it, child 0 bounded below by its parent's first
  separator as well.  `routeB` is the search path of a key, annotated with those intervals.
-/
import Gobptree.Proofs.CSFinal
import Gobptree.Proofs.WF

namespace Gobptree.Conc
open Gobptree

variable {K V : Type}

/-- ordering invariant of a node of height `d` whose keys must lie in `[lo, hi)` -/
def Ord (lt : K → K → Bool) : (d : Nat) → Option K → Option K → Node K V d → Prop
  | 0, lo, hi, (l : Leaf K V) =>
    Sorted lt l.keys ∧ ∀ k ∈ l.keys, leO lt lo k ∧ ltO lt k hi
  | d + 1, lo, hi, (i : Inner K (Node K V d)) =>
    (∀ k, i.runts.head? = some k → leO lt lo k) ∧
    Kids lt (fun a b c => Ord lt d a b c) hi (i.runts.zip i.kids)

def OrdTree (lt : K → K → Bool) (t : Tree K V) : Prop := Ord lt t.depth none none t.root

/-- upper end of the interval of kid `j`: the next separator, or the node's own upper end -/
def hiAt (runts : List K) (j : Nat) (hi : Option K) : Option K :=
  match runts[j + 1]? with
  | some s => some s
  | none => hi

/-- the search path of `key` from node `n` (identity and interval of every node visited) -/
def routeB (lt : K → K → Bool) (key : K) : (d : Nat) → Option K → Option K → Node K V d → List (Nat × Option K × Option K)
  | 0, lo, hi, (l : Leaf K V) => [(l.id, lo, hi)]
  | d + 1, lo, hi, (i : Inner K (Node K V d)) =>
    (i.id, lo, hi) ::
      (let j := searchLE lt key i.runts
       match i.runts[j]?, i.kids[j]? with
       | some s, some c => routeB lt key d (some s) (hiAt i.runts j hi) c
       | _, _ => [])

def _root_.Gobptree.Tree.routeB (lt : K → K → Bool) (t : Tree K V) (key : K) : List (Nat × Option K × Option K) :=
  Conc.routeB lt key t.depth none none t.root

/-- node `id` is on the search path of `key` -/
def OnRoute (lt : K → K → Bool) (t : Tree K V) (key : K) (id : Nat) : Prop :=
  ∃ lo hi, (id, lo, hi) ∈ t.routeB lt key

/-- node `id` is on the search path of `key` and `key` is not below the node's interval
    (what an Insert/Update has established of every node it has passed) -/
def InBounds (lt : K → K → Bool) (t : Tree K V) (key : K) (id : Nat) : Prop :=
  ∃ lo hi, (id, lo, hi) ∈ t.routeB lt key ∧ leO lt lo key

/-- the separators of node `id` -/
def keysOf (t : Tree K V) (id : Nat) : List K :=
  match t.look id with
  | some sh => sh.keys
  | none => []

/-- position of a parked thread with respect to the key of its operation -/
def KPos (lt : K → K → Bool) (t : Tree K V) : Kont K V → Prop
  | .roNode _ key (.node p) want =>
    OnRoute lt t key p ∧ t.kidAt p (searchLE lt key (keysOf t p)) = some want
  | .upRootSib key _ _ _ sib => InBounds lt t key sib
  | .upChild key _ _ parent index _ =>
    InBounds lt t key parent ∧ index = searchLE lt key (keysOf t parent)
  | .upSib key _ _ _ _ sib => InBounds lt t key sib
  | .upCallback key _ leaf arg =>
    InBounds lt t key leaf ∧ ∃ sh, t.look leaf = some sh ∧ arg = Spec.lookup lt (sh.keys.zip sh.vals) key
  | .delLeft key _ node index _ _ =>
    OnRoute lt t key node ∧ index = searchLE lt key (keysOf t node)
  | .delChild key _ node index _ _ _ =>
    OnRoute lt t key node ∧ index = searchLE lt key (keysOf t node)
  | _ => True

def parkKPos (lt : K → K → Bool) (t : Tree K V) : Park K V → Prop
  | .want _ k => KPos lt t k
  | .yielded k => KPos lt t k
  | _ => True

/-- parameters: the comparison is the given strict weak order -/
structure KParams (lt : K → K → Bool) (P : Params K) : Prop where
  swo : SWO lt
  lt  : P.lt = lt

/-- the key-order invariant of a configuration -/
structure KInv (lt : K → K → Bool) (c : Config K V) : Prop where
  ord : OrdTree lt c.tree
  pos : ∀ th ∈ c.threads, parkKPos lt c.tree th.park

end Gobptree.Conc
