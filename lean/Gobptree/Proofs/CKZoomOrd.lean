/-
  Key-order zoom machinery, part 3: `Ord` — monotonicity, key bounds of `pairs`, and the
  zoom / context lemma for `Ord` and `pairs`.
-/
import Gobptree.Proofs.CKZoomRoute

namespace Gobptree.Conc
open Gobptree

variable {K V : Type} {lt : K → K → Bool}

/-! ### monotonicity of `Ord` in its interval -/

theorem Ord_mono_hi (h : SWO lt) : ∀ {d : Nat} {lo hi hi' : Option K} {n : Node K V d},
    hiLe lt hi hi' → Ord lt d lo hi n → Ord lt d lo hi' n := by
  intro d
  induction d with
  | zero =>
    intro lo hi hi' n hh hw
    obtain ⟨a, f⟩ := hw
    exact ⟨a, fun k hk => ⟨(f k hk).1, ltO_mono h hh (f k hk).2⟩⟩
  | succ d ih =>
    intro lo hi hi' n hh hw
    obtain ⟨f, g⟩ := hw
    exact ⟨f, Kids_mono_hi (R := fun a b c => Ord lt d a b c) h (fun a b b' c hb hr => ih hb hr) hh _ g⟩

theorem Ord_mono_lo (h : SWO lt) {d : Nat} {lo lo' hi : Option K} {n : Node K V d}
    (hh : loLe lt lo' lo) (hw : Ord lt d lo hi n) : Ord lt d lo' hi n := by
  cases d with
  | zero =>
    obtain ⟨a, f⟩ := hw
    exact ⟨a, fun k hk => ⟨leO_mono h hh (f k hk).1, (f k hk).2⟩⟩
  | succ d =>
    obtain ⟨f, g⟩ := hw
    exact ⟨fun k hk => leO_mono h hh (f k hk), g⟩

/-! ### key bounds of the pairs below a node -/

/-- pairs below a chain of kids: below the outer bound, and not below the separator of some entry -/
theorem Kids_pairsE_bounds (h : SWO lt) {d : Nat} {R : Option K → Option K → Node K V d → Prop}
    (hi : Option K) (es : List (K × Node K V d))
    (hR : ∀ e ∈ es, ∀ a b, R a b e.2 → ∀ p ∈ Node.pairs e.2, leO lt a p.1 ∧ ltO lt p.1 b)
    (hk : Kids lt R hi es) :
    ∀ p ∈ pairsE es, ltO lt p.1 hi ∧ ∃ e ∈ es, lt p.1 e.1 = false := by
  induction es with
  | nil => intro p hp; simp [pairsE] at hp
  | cons e es ih =>
    obtain ⟨k, c⟩ := e
    have hkeys := Kids_keys_lt h hi _ hk
    obtain ⟨hc, hklt, hrest⟩ := hk
    intro p hp
    rw [pairsE_cons] at hp
    cases List.mem_append.mp hp with
    | inl hpc =>
      have hb := hR (k, c) (by simp) _ _ hc p hpc
      refine ⟨?_, (k, c), by simp, hb.1⟩
      cases es with
      | nil => exact hb.2
      | cons e2 es2 =>
        obtain ⟨k2, c2⟩ := e2
        have h2 : ltO lt k2 hi := hkeys (k2, c2) (by simp)
        have hb2 : lt p.1 k2 = true := hb.2
        cases hi with
        | none => trivial
        | some u => exact h.trans _ _ _ hb2 h2
    | inr hpr =>
      obtain ⟨h1, e', he', h2⟩ := ih (fun e he => hR e (by simp [he])) hrest p hpr
      exact ⟨h1, e', by simp [he'], h2⟩

/-- everything below the next separator is below every separator of the chain -/
theorem Kids_next_lt {C : Type} {R : Option K → Option K → C → Prop} (h : SWO lt) (hi : Option K)
    (es : List (K × C)) (hk : Kids lt R hi es) (e : K × C) (he : e ∈ es) (x : K)
    (hx : ltO lt x (nextLo hi es)) : lt x e.1 = true := by
  cases es with
  | nil => cases he
  | cons e0 es =>
    obtain ⟨k0, c0⟩ := e0
    have hx' : lt x k0 = true := hx
    rcases List.mem_cons.1 he with rfl | he
    · exact hx'
    · exact h.trans _ _ _ hx' (Kids_head_le h hi k0 c0 es hk e he)

theorem ltO_nextLo {C : Type} {R : Option K → Option K → C → Prop} (h : SWO lt) (hi : Option K)
    (es : List (K × C)) (hk : Kids lt R hi es) (x : K) (hx : ltO lt x (nextLo hi es)) : ltO lt x hi := by
  cases es with
  | nil => exact hx
  | cons e0 es =>
    obtain ⟨k0, c0⟩ := e0
    have hx' : lt x k0 = true := hx
    have h2 : ltO lt k0 hi := Kids_keys_lt h hi _ hk (k0, c0) (by simp)
    cases hi with
    | none => trivial
    | some u => exact h.trans _ _ _ hx' h2

theorem pairsE_zip' {d : Nat} (r : List K) (c : List (Node K V d)) (hlen : r.length = c.length) :
    pairsE (r.zip c) = c.flatMap (Node.pairs (d := d)) := by
  unfold pairsE
  conv => rhs; rw [← map_snd_zip_eq r c hlen]
  rw [List.flatMap_map]

theorem pairs_succ {d : Nat} (i : Inner K (Node K V d)) :
    Node.pairs (d := d + 1) i = i.kids.flatMap (Node.pairs (d := d)) := rfl

/-- every key stored below a node lies in the node's interval -/
theorem Ord_pairs_bounds (h : SWO lt) : ∀ {d : Nat} {lo hi : Option K} {n : Node K V d},
    Ord lt d lo hi n → ParN d n → ∀ p ∈ Node.pairs n, leO lt lo p.1 ∧ ltO lt p.1 hi := by
  intro d
  induction d with
  | zero =>
    intro lo hi n hw _ p hp
    obtain ⟨_, f⟩ := hw
    exact f p.1 (List.of_mem_zip hp).1
  | succ d ih =>
    intro lo hi (n : Inner K (Node K V d)) hw hpar p hp
    obtain ⟨hlo, hk⟩ := hw
    obtain ⟨hlen, hne, hkids⟩ := hpar
    rw [pairs_inner_eq n hlen] at hp
    obtain ⟨h1, e, he, h2⟩ := Kids_pairsE_bounds h hi _
      (fun e he a b hr => ih hr (hkids e.2 (List.of_mem_zip he).2)) hk p hp
    refine ⟨?_, h1⟩
    cases hz : n.runts.zip n.kids with
    | nil => rw [hz] at he; cases he
    | cons e0 es =>
      obtain ⟨k0, c0⟩ := e0
      have hh : n.runts.head? = some k0 := by
        have := map_fst_zip_eq n.runts n.kids hlen
        rw [hz] at this
        rw [← this]; rfl
      rw [hz] at he hk
      have h0 : lt p.1 k0 = false := by
        rcases List.mem_cons.1 he with rfl | he
        · exact h2
        · exact h.le_of_lt (h.lt_of_lt_of_le (Kids_head_le h hi k0 c0 es hk e he) h2)
      exact leO_trans h (hlo k0 hh) h0

/-- `Kids_pairsE_bounds` for `Ord` kids -/
theorem KidsOrd_pairs_bounds (h : SWO lt) {d : Nat} (hi : Option K) (rs : List K) (cs : List (Node K V d))
    (hpar : ∀ c ∈ cs, ParN d c) (hk : Kids lt (fun a b c => Ord lt d a b c) hi (rs.zip cs)) :
    ∀ p ∈ pairsE (rs.zip cs), ltO lt p.1 hi ∧ ∃ e ∈ rs.zip cs, lt p.1 e.1 = false :=
  Kids_pairsE_bounds h hi _ (fun e he _ _ hr => Ord_pairs_bounds h hr (hpar e.2 (List.of_mem_zip he).2)) hk

/-! ### the zoom lemma -/

/-- what zooming in on identity `id` (found as `m`, of height `d'`) inside `n` provides:
    the interval `[lo', hi')` the tree assigns to it, the pairs `PL` before and `PR` after
    it, and the rewrite rule. -/
structure Zoom (lt : K → K → Bool) (id : Nat) (d : Nat) (lo hi : Option K) (n : Node K V d)
    (d' : Nat) (m : Node K V d') (lo' hi' : Option K) (PL PR : List (K × V)) : Prop where
  bounds : boundsOf id d lo hi n = some (lo', hi')
  /-- the interval lies inside the outer one -/
  lo_le : ∀ x, leO lt lo' x → leO lt lo x
  hi_le : ∀ x, ltO lt x hi' → ltO lt x hi
  ord : Ord lt d' lo' hi' m
  par : ParN d' m
  pairs : Node.pairs n = PL ++ Node.pairs m ++ PR
  /-- everything before the node is below every key not below `lo'` -/
  left : ∀ p ∈ PL, ∀ x, leO lt lo' x → lt p.1 x = true
  /-- everything after the node is above every key below `hi'` -/
  right : ∀ p ∈ PR, ∀ x, ltO lt x hi' → lt x p.1 = true
  /-- a key whose search passes the node separates `PL` from `PR` (even when it is below `lo'`
      because the search was clamped to kid 0, or not below `hi`) -/
  onRoute : ∀ key a b, (id, a, b) ∈ routeB lt key d lo hi n → AllLt lt PL key ∧ AllGt lt PR key
  /-- any replacement that fits the interval can be written back -/
  rewrite : ∀ f : (d : Nat) → Node K V d → Node K V d, Ord lt d' lo' hi' (f d' m) → ParN d' (f d' m) →
    Ord lt d lo hi (modifyNode id f d n) ∧ ParN d (modifyNode id f d n) ∧
    Node.pairs (modifyNode id f d n) = PL ++ Node.pairs (f d' m) ++ PR

theorem Zoom.here (id : Nat) {d : Nat} (lo hi : Option K) (n : Node K V d)
    (hb : boundsOf id d lo hi n = some (lo, hi))
    (hmod : ∀ f : (d : Nat) → Node K V d → Node K V d, modifyNode id f d n = f d n)
    (hord : Ord lt d lo hi n) (hpar : ParN d n) :
    Zoom lt id d lo hi n d n lo hi [] [] where
  bounds := hb
  lo_le := fun _ hx => hx
  hi_le := fun _ hx => hx
  ord := hord
  par := hpar
  pairs := by simp
  left := fun p hp => by cases hp
  right := fun p hp => by cases hp
  onRoute := fun _ _ _ _ => ⟨fun p hp => (by cases hp), fun p hp => (by cases hp)⟩
  rewrite := fun f hO hP => by rw [hmod f]; exact ⟨hO, hP, by simp⟩

/-- **zoom / context lemma for `Ord` and `pairs`.** -/
theorem zoom (h : SWO lt) (id : Nat) : ∀ (d : Nat) (n : Node K V d) (lo hi : Option K) (d' : Nat) (m : Node K V d'),
    findNode id d n = some ⟨d', m⟩ → (idsOf n).Nodup → ParN d n → Ord lt d lo hi n →
    ∃ lo' hi' PL PR, Zoom lt id d lo hi n d' m lo' hi' PL PR := by
  intro d
  induction d with
  | zero =>
    intro (n : Leaf K V) lo hi d' m hf hnd hpar hord
    have hf' : (if n.id = id then some (⟨0, n⟩ : AnyNode K V) else none) = some ⟨d', m⟩ := hf
    by_cases hid : n.id = id
    · simp only [hid, if_true, Option.some.injEq] at hf'
      cases hf'
      exact ⟨lo, hi, [], [], Zoom.here (d := 0) id lo hi n (boundsOf_zero_eq id lo hi n hid)
        (fun f => modifyNode_zero_eq id f n hid) hord hpar⟩
    · simp [hid] at hf'
  | succ d ih =>
    intro (n : Inner K (Node K V d)) lo hi d' m hf hnd hpar hord
    by_cases hid : n.id = id
    · have hf' : (if n.id = id then some (⟨d + 1, n⟩ : AnyNode K V)
          else n.kids.findSome? (findNode id d)) = some ⟨d', m⟩ := hf
      simp only [hid, if_true, Option.some.injEq] at hf'
      cases hf'
      exact ⟨lo, hi, [], [], Zoom.here (d := d + 1) id lo hi n (boundsOf_succ_eq id lo hi n hid)
        (fun f => modifyNode_succ_eq id f n hid) hord hpar⟩
    · obtain ⟨rA, k, rB, A, c, B, hr, hk, hl, hlB, hfc, hndc, hparc, hA, hB, hparA, hparB⟩ :=
        find_step id n hf hid hnd hpar
      obtain ⟨hlo, hkids⟩ := hord
      obtain ⟨hlen, hne, hpkids⟩ := hpar
      have hsorted : Sorted lt n.runts := by
        have := Kids_sorted h hi _ hkids
        rwa [map_fst_zip_eq _ _ hlen] at this
      rw [hr, hk, Kids_decomp hi rA rB k A B c hl] at hkids
      obtain ⟨hKA, hOc, hklt, hKB⟩ := hkids
      obtain ⟨lo', hi', PLc, PRc, z⟩ := ih c (some k) (nextLo hi (rB.zip B)) d' m hfc hndc hparc hOc
      have hbA := KidsOrd_pairs_bounds h (some k) rA A hparA hKA
      have hbB := KidsOrd_pairs_bounds h hi rB B hparB hKB
      rw [pairsE_zip' rA A hl] at hbA
      rw [pairsE_zip' rB B hlB] at hbB
      -- the first separator of the node is not above `k`
      have hlok : leO lt lo k := by
        cases rA with
        | nil => exact hlo k (by rw [hr]; rfl)
        | cons r0 rA' =>
          have h0 : leO lt lo r0 := hlo r0 (by rw [hr]; rfl)
          have hs : Sorted lt (r0 :: (rA' ++ k :: rB)) := by rw [hr] at hsorted; exact hsorted
          have : lt r0 k = true := (List.pairwise_cons.1 hs).1 k (by simp)
          exact leO_trans h h0 (h.le_of_lt this)
      have hpairs : ∀ c2 : Node K V d, Node.pairs (d := d + 1) (Inner.mk n.id n.runts (A ++ c2 :: B) : Inner K (Node K V d)) =
          A.flatMap (Node.pairs (d := d)) ++ (Node.pairs c2 ++ B.flatMap (Node.pairs (d := d))) := by
        intro c2
        rw [pairs_succ]
        simp only [List.flatMap_append, List.flatMap_cons]
      refine ⟨lo', hi', A.flatMap (Node.pairs (d := d)) ++ PLc, PRc ++ B.flatMap (Node.pairs (d := d)), ?_⟩
      refine
        { bounds := boundsOf_kid id lo hi n rA rB k A B c (lo', hi') hid hr hk hl hA z.bounds
          lo_le := ?_, hi_le := ?_, ord := z.ord, par := z.par, pairs := ?_, left := ?_, right := ?_,
          onRoute := ?_, rewrite := ?_ }
      · intro x hx
        exact leO_trans h hlok (z.lo_le x hx)
      · intro x hx
        exact ltO_nextLo h hi _ hKB x (z.hi_le x hx)
      · have : n = (Inner.mk n.id n.runts (A ++ c :: B) : Inner K (Node K V d)) := by rw [← hk]
        rw [this, hpairs c, z.pairs]
        simp only [List.append_assoc]
      · intro p hp x hx
        rcases List.mem_append.1 hp with hp | hp
        · have h1 : lt p.1 k = true := (hbA p hp).1
          have h2 : lt x k = false := z.lo_le x hx
          exact h.lt_of_lt_of_le h1 h2
        · exact z.left p hp x hx
      · intro p hp x hx
        rcases List.mem_append.1 hp with hp | hp
        · exact z.right p hp x hx
        · obtain ⟨_, e, he, h2⟩ := hbB p hp
          have h1 : lt x e.1 = true := Kids_next_lt h hi _ hKB e he x (z.hi_le x hx)
          exact h.lt_of_lt_of_le h1 h2
      · intro key a b hab
        rw [routeB_succ key lo hi n, List.mem_cons] at hab
        have hab' : (id, a, b) ∈ routeKid lt key hi n := by
          rcases hab with h1 | h1
          · exfalso; injection h1 with h1 _; exact hid h1.symm
          · exact h1
        have hj : searchLE lt key n.runts = A.length :=
          route_index_of_mem key hi n A B c id hk hA hB _ hab' rfl
        rw [routeKid_at key hi n rA rB k A B c hr hk hl hlB hj] at hab'
        obtain ⟨zl, zr⟩ := z.onRoute key a b hab'
        obtain ⟨hF1, hF2⟩ := searchLE_split_facts h key rA rB k (by rw [← hr]; exact hsorted)
          (by rw [← hr, hj, hl])
        constructor
        · intro p hp
          rcases List.mem_append.1 hp with hp | hp
          · have hne' : rA ≠ [] := by
              intro e
              subst e
              have : A = [] := List.eq_nil_of_length_eq_zero (by simpa using hl.symm)
              subst this
              simp at hp
            exact h.lt_of_lt_of_le (hbA p hp).1 (hF1 hne')
          · exact zl p hp
        · intro p hp
          rcases List.mem_append.1 hp with hp | hp
          · exact zr p hp
          · obtain ⟨_, e, he, h2⟩ := hbB p hp
            exact h.lt_of_lt_of_le (hF2 e.1 (List.of_mem_zip he).1) h2
      · intro f hO hP
        obtain ⟨hO', hP', hpr⟩ := z.rewrite f hO hP
        rw [modifyNode_kid id f n A B c hid hk hA hB]
        refine ⟨⟨hlo, ?_⟩, ⟨?_, hne, ?_⟩, ?_⟩
        · show Kids lt (fun a b c => Ord lt d a b c) hi (n.runts.zip (A ++ modifyNode id f d c :: B))
          rw [hr, Kids_decomp hi rA rB k A B _ hl]
          exact ⟨hKA, hO', hklt, hKB⟩
        · show n.runts.length = (A ++ modifyNode id f d c :: B).length
          rw [hlen, hk]; simp
        · intro c2 hc2
          have hc2' : c2 ∈ A ++ modifyNode id f d c :: B := hc2
          rcases List.mem_append.1 hc2' with h1 | h1
          · exact hparA c2 h1
          · rcases List.mem_cons.1 h1 with rfl | h1
            · exact hP'
            · exact hparB c2 h1
        · rw [hpairs, hpr]
          simp only [List.append_assoc]

end Gobptree.Conc
