/-
  Key-order block lemmas for the non-Delete continuations, part 7: the parent node in the
  descent loop of Insert/Update — lowering its first separator, inserting the separator of a
  fresh sibling; `Ord`, parallel lengths, pairs and routes of the rewritten node.
-/
import Gobptree.Proofs.CKUpSplit

namespace Gobptree.Conc
open Gobptree

variable {K V : Type} {lt : K → K → Bool}

/-! ### `lowerFirst` -/

/-- the separator at the routing index after the pre-emptive lowering -/
def lowKey (lt : K → K → Bool) (key : K) (rA : List K) (k : K) : K :=
  if rA = [] ∧ lt key k = true then key else k

theorem lowerFirst_form (P : Params K) (key : K) (rA rB : List K) (k : K) {d : Nat} (c : Node K V d) :
    lowerFirst P key rA.length (rA ++ k :: rB) c = .ok (rA ++ lowKey P.lt key rA k :: rB) := by
  unfold lowerFirst lowKey
  cases rA with
  | nil =>
    simp only [List.length_nil, if_true, List.nil_append, List.getElem?_cons_zero, true_and]
    by_cases c : P.lt key k = true
    · rw [if_pos c, if_pos c]; rfl
    · rw [if_neg c, if_neg c]
  | cons a rA =>
    rw [if_neg (by simp), if_neg (by simp)]

theorem lowKey_le (h : SWO lt) (key : K) (rA : List K) (k : K) : lt k (lowKey lt key rA k) = false := by
  unfold lowKey
  split
  · rename_i c; exact h.asymm c.2
  · exact h.irrefl k

theorem lowKey_of_ne (key : K) (rA : List K) (k : K) (hne : rA ≠ []) : lowKey lt key rA k = k := by
  unfold lowKey
  rw [if_neg (fun c => hne c.1)]

/-- the key is not below the lowered separator (at the routing index) -/
theorem lowKey_le_key (h : SWO lt) (key : K) (rA : List K) (k : K) (hk : rA ≠ [] → lt key k = false) :
    lt key (lowKey lt key rA k) = false := by
  unfold lowKey
  by_cases c : rA = [] ∧ lt key k = true
  · rw [if_pos c]; exact h.irrefl key
  · rw [if_neg c]
    by_cases e : rA = []
    · cases hkk : lt key k with
      | false => rfl
      | true => exact absurd ⟨e, hkk⟩ c
    · exact hk e

theorem lowKey_lo (key : K) (rA : List K) (k : K) (lo : Option K) (hkey : leO lt lo key) (hk : leO lt lo k) :
    leO lt lo (lowKey lt key rA k) := by
  unfold lowKey
  split
  · exact hkey
  · exact hk

/-! ### `Ord` of the rewritten parent -/

theorem head?_form {α : Type} (rA rB rB' : List α) (k : α) (hne : rA ≠ []) :
    (rA ++ k :: rB).head? = (rA ++ k :: rB').head? := by
  cases rA with
  | nil => exact absurd rfl hne
  | cons a rA => rfl

theorem ord_lowered (h : SWO lt) {d : Nat} {lo hi : Option K} (id : Nat) (rA rB : List K) (k k1 : K)
    (A B : List (Node K V d)) (c : Node K V d) (hl : rA.length = A.length)
    (hord : Ord lt (d + 1) lo hi (Inner.mk id (rA ++ k :: rB) (A ++ c :: B) : Inner K (Node K V d)))
    (h1 : lt k k1 = false) (h2 : rA ≠ [] → k1 = k) (h4 : rA = [] → leO lt lo k1) :
    Ord lt (d + 1) lo hi (Inner.mk id (rA ++ k1 :: rB) (A ++ c :: B) : Inner K (Node K V d)) := by
  by_cases hne : rA = []
  · subst hne
    have hA : A = [] := List.eq_nil_of_length_eq_zero (by simpa using hl.symm)
    subst hA
    obtain ⟨_, hk⟩ := hord
    have hk' : Kids lt (fun a b c => Ord lt d a b c) hi ((k, c) :: rB.zip B) := hk
    obtain ⟨hc, hlt, hrest⟩ := hk'
    refine ⟨?_, ?_⟩
    · intro x hx
      have : some k1 = some x := hx
      cases this
      exact h4 rfl
    · show Kids lt (fun a b c => Ord lt d a b c) hi ((k1, c) :: rB.zip B)
      exact ⟨Ord_mono_lo h (show loLe lt (some k1) (some k) from h1) hc, ltO_of_le h hlt h1, hrest⟩
  · rw [h2 hne]
    exact hord

theorem ord_ins (h : SWO lt) {d : Nat} {lo hi : Option K} (id : Nat) (rA rB : List K) (k1 : K)
    (A B : List (Node K V d)) (c l r : Node K V d) (fresh : Nat) (s s0 : K)
    (hl : rA.length = A.length)
    (hord : Ord lt (d + 1) lo hi (Inner.mk id (rA ++ k1 :: rB) (A ++ c :: B) : Inner K (Node K V d)))
    (sp : SplitOrd lt d (some k1) (nextLo hi (rB.zip B)) c l r fresh s s0) :
    Ord lt (d + 1) lo hi (Inner.mk id (rA ++ k1 :: s :: rB) (A ++ l :: r :: B) : Inner K (Node K V d)) := by
  obtain ⟨hlo, hk⟩ := hord
  have hk' : Kids lt (fun a b c => Ord lt d a b c) hi ((rA ++ k1 :: rB).zip (A ++ c :: B)) := hk
  rw [Kids_decomp hi rA rB k1 A B c hl] at hk'
  obtain ⟨hKA, hOc, hklt, hKB⟩ := hk'
  refine ⟨?_, ?_⟩
  · intro x hx
    apply hlo x
    have hx' : (rA ++ k1 :: s :: rB).head? = some x := hx
    show (rA ++ k1 :: rB).head? = some x
    cases rA with
    | nil => exact hx'
    | cons a rA => exact hx'
  · show Kids lt (fun a b c => Ord lt d a b c) hi ((rA ++ k1 :: s :: rB).zip (A ++ l :: r :: B))
    rw [Kids_decomp hi rA (s :: rB) k1 A (r :: B) l hl]
    have hlt : lt k1 s = true := h.lt_of_le_of_lt (show lt s0 k1 = false from sp.lo_s0) sp.s0_s
    exact ⟨hKA, sp.ordl' h, hlt, sp.ordr, sp.s_hi, hKB⟩

theorem par_ins {d : Nat} (id : Nat) (rA rB : List K) (k k1 s : K) (A B : List (Node K V d)) (c l r : Node K V d)
    (hpar : ParN (d + 1) (Inner.mk id (rA ++ k :: rB) (A ++ c :: B) : Inner K (Node K V d)))
    (hl : ParN d l) (hr : ParN d r) :
    ParN (d + 1) (Inner.mk id (rA ++ k1 :: s :: rB) (A ++ l :: r :: B) : Inner K (Node K V d)) := by
  obtain ⟨h1, _, h3⟩ := hpar
  have h1' : (rA ++ k :: rB).length = (A ++ c :: B).length := h1
  refine ⟨?_, ?_, ?_⟩
  · show (rA ++ k1 :: s :: rB).length = (A ++ l :: r :: B).length
    simp at h1' ⊢; omega
  · show 1 ≤ (rA ++ k1 :: s :: rB).length
    simp; omega
  · intro x hx
    have hx' : x ∈ A ++ l :: r :: B := hx
    simp only [List.mem_append, List.mem_cons] at hx'
    rcases hx' with hx' | rfl | rfl | hx'
    · exact h3 x (by show x ∈ A ++ c :: B; simp [hx'])
    · exact hl
    · exact hr
    · exact h3 x (by show x ∈ A ++ c :: B; simp [hx'])

theorem par_low {d : Nat} (id : Nat) (rA rB : List K) (k k1 : K) (C : List (Node K V d))
    (hpar : ParN (d + 1) (Inner.mk id (rA ++ k :: rB) C : Inner K (Node K V d))) :
    ParN (d + 1) (Inner.mk id (rA ++ k1 :: rB) C : Inner K (Node K V d)) := by
  obtain ⟨h1, _, h3⟩ := hpar
  have h1' : (rA ++ k :: rB).length = C.length := h1
  refine ⟨?_, ?_, h3⟩
  · show (rA ++ k1 :: rB).length = C.length
    simp at h1' ⊢; omega
  · show 1 ≤ (rA ++ k1 :: rB).length
    simp; omega

theorem pairs_ins {d : Nat} (id : Nat) (R R' : List K) (A B : List (Node K V d)) (c l r : Node K V d)
    (hp : Node.pairs c = Node.pairs l ++ Node.pairs r) :
    Node.pairs (d := d + 1) (Inner.mk id R' (A ++ l :: r :: B) : Inner K (Node K V d)) =
      Node.pairs (d := d + 1) (Inner.mk id R (A ++ c :: B) : Inner K (Node K V d)) := by
  rw [pairs_succ, pairs_succ]
  simp only [List.flatMap_append, List.flatMap_cons, hp, List.append_assoc]

/-! ### routes through the rewritten parent -/

/-- lowering the first separator: every entry other than kid 0 keeps its interval -/
theorem route_low (h : SWO lt) (key : K) {d : Nat} (lo hi : Option K) (id : Nat) (k k1 : K) (rB : List K)
    (c : Node K V d) (B : List (Node K V d)) (hlen : rB.length = B.length)
    (hs : Sorted lt (k :: rB)) (hs' : Sorted lt (k1 :: rB)) (x : Nat) (a b : Option K)
    (hx : (x, a, b) ∈ routeB lt key (d + 1) lo hi (Inner.mk id (k :: rB) (c :: B) : Inner K (Node K V d)))
    (hne : x ≠ Node.id c) :
    (x, a, b) ∈ routeB lt key (d + 1) lo hi (Inner.mk id (k1 :: rB) (c :: B) : Inner K (Node K V d)) := by
  rw [routeB_succ, List.mem_cons] at hx
  rw [routeB_succ, List.mem_cons]
  rcases hx with hx | hx
  · exact Or.inl hx
  · right
    have e := searchLE_low h key k k1 rB hs hs'
    have hj := searchLE_lt_length (lt := lt) key (k :: rB) (by simp)
    cases hjj : searchLE lt key (k :: rB) with
    | zero =>
      rw [routeKid_eq key hi (Inner.mk id (k :: rB) (c :: B) : Inner K (Node K V d)) 0 k c hjj rfl rfl,
        routeB_eq_cons, List.mem_cons] at hx
      rw [routeKid_eq key hi (Inner.mk id (k1 :: rB) (c :: B) : Inner K (Node K V d)) 0 k1 c (e.trans hjj) rfl rfl,
        routeB_eq_cons, List.mem_cons]
      rcases hx with hx | hx
      · exfalso
        injection hx with hx _
        exact hne hx
      · exact Or.inr hx
    | succ j =>
      rw [hjj] at hj
      have hjl : j < rB.length := by simpa using hj
      have hsj : (k :: rB)[j + 1]? = some rB[j] := by simp
      have hsj' : (k1 :: rB)[j + 1]? = some rB[j] := by simp
      have hcj : (c :: B)[j + 1]? = some (B[j]'(by omega)) := by simp
      rw [routeKid_eq key hi (Inner.mk id (k :: rB) (c :: B) : Inner K (Node K V d)) (j + 1) _ _ hjj hsj hcj] at hx
      rw [routeKid_eq key hi (Inner.mk id (k1 :: rB) (c :: B) : Inner K (Node K V d)) (j + 1) _ _ (e.trans hjj) hsj' hcj]
      exact hx

theorem getElem?_kids_gt {α : Type} (A B : List α) (c l r : α) (j : Nat) (hj : A.length < j) :
    (A ++ l :: r :: B)[j + 1]? = (A ++ c :: B)[j]? := by
  rw [getElem?_form_gt _ _ _ _ (by omega), getElem?_form_gt _ _ _ _ hj]
  obtain ⟨n, hn⟩ : ∃ n, j + 1 - A.length - 1 = n + 1 := ⟨j - A.length - 1, by omega⟩
  have hn' : j - A.length - 1 = n := by omega
  rw [hn, hn']
  simp

/-- inserting the separator of the fresh sibling: every entry other than the split kid keeps
    its interval -/
theorem route_ins (h : SWO lt) (key : K) {d : Nat} (lo hi : Option K) (id : Nat) (L1 L2 : List K)
    (A B : List (Node K V d)) (c l r : Node K V d) (s : K)
    (hins : InsAt L1 L2 (A.length + 1) s) (hs1 : Sorted lt L1) (hs2 : Sorted lt L2)
    (hlen : L1.length = (A ++ c :: B).length)
    (hsr : rtail lt key d (hiAt L1 A.length hi) c =
      if lt key s = true then rtail lt key d (some s) l else rtail lt key d (hiAt L1 A.length hi) r)
    (x : Nat) (a b : Option K)
    (hx : (x, a, b) ∈ routeB lt key (d + 1) lo hi (Inner.mk id L1 (A ++ c :: B) : Inner K (Node K V d)))
    (hne : x ≠ Node.id c) :
    (x, a, b) ∈ routeB lt key (d + 1) lo hi (Inner.mk id L2 (A ++ l :: r :: B) : Inner K (Node K V d)) := by
  rw [routeB_succ, List.mem_cons] at hx
  rw [routeB_succ, List.mem_cons]
  rcases hx with hx | hx
  · exact Or.inl hx
  · right
    have hne1 : L1 ≠ [] := by intro e; rw [e] at hlen; simp at hlen
    have hp := searchLE_picks h key L1 hs1 hne1
    have hj := searchLE_lt_length (lt := lt) key L1 hne1
    have hp2 := picks_ins h key L1 L2 (A.length + 1) s (by omega) hins hs2 _ hp
    have e2 := picks_unique h key L2 hs2 _ hp2
    generalize hjj : searchLE lt key L1 = j at *
    have hsj : L1[j]? = some L1[j] := List.getElem?_eq_getElem hj
    have hcj : (A ++ c :: B)[j]? = some ((A ++ c :: B)[j]'(by omega)) := List.getElem?_eq_getElem (by omega)
    rw [routeKid_eq key hi (Inner.mk id L1 (A ++ c :: B) : Inner K (Node K V d)) j _ _ hjj hsj hcj] at hx
    unfold insIdx at e2
    by_cases c1 : j + 1 < A.length + 1
    · rw [if_pos c1] at e2
      have hjA : j < A.length := by omega
      rw [routeKid_eq key hi (Inner.mk id L2 (A ++ l :: r :: B) : Inner K (Node K V d)) j _ _ e2
        (by show L2[j]? = _; rw [hins.lo j (by omega)]; exact hsj)
        (by show (A ++ l :: r :: B)[j]? = _
            rw [getElem?_form_lt _ _ _ _ hjA, ← getElem?_form_lt A B c _ hjA]; exact hcj)]
      have hhi : hiAt L2 j hi = hiAt L1 j hi := by
        unfold hiAt
        rw [hins.lo (j + 1) (by omega)]
      show (x, a, b) ∈ routeB lt key d _ (hiAt L2 j hi) _
      rw [hhi]
      exact hx
    · rw [if_neg c1] at e2
      by_cases c2 : j + 1 = A.length + 1
      · rw [if_pos c2] at e2
        have hjA : j = A.length := by omega
        subst hjA
        have hcc : (A ++ c :: B)[A.length]'(by simp) = c := by simp
        rw [hcc, routeB_eq_cons, List.mem_cons] at hx
        have hx' : (x, a, b) ∈ rtail lt key d (hiAt L1 A.length hi) c := by
          rcases hx with hx | hx
          · exfalso
            injection hx with hx _
            exact hne hx
          · exact hx
        rw [hsr] at hx'
        by_cases c3 : lt key s = true
        · rw [if_pos c3] at e2 hx'
          rw [routeKid_eq key hi (Inner.mk id L2 (A ++ l :: r :: B) : Inner K (Node K V d)) A.length _ l e2
            (by show L2[A.length]? = _; rw [hins.lo A.length (by omega)]; exact hsj)
            (by show (A ++ l :: r :: B)[A.length]? = _; simp)]
          have hhi : hiAt L2 A.length hi = some s := by
            unfold hiAt
            rw [hins.mid]
          show (x, a, b) ∈ routeB lt key d _ (hiAt L2 A.length hi) l
          rw [hhi, routeB_eq_cons]
          exact List.mem_cons_of_mem _ hx'
        · rw [if_neg c3] at e2 hx'
          rw [routeKid_eq key hi (Inner.mk id L2 (A ++ l :: r :: B) : Inner K (Node K V d)) (A.length + 1) s r e2
            hins.mid (by show (A ++ l :: r :: B)[A.length + 1]? = _; exact form_getElem_next A B l r)]
          have hhi : hiAt L2 (A.length + 1) hi = hiAt L1 A.length hi := by
            unfold hiAt
            rw [hins.hi (A.length + 1) (by omega)]
          show (x, a, b) ∈ routeB lt key d _ (hiAt L2 (A.length + 1) hi) r
          rw [hhi, routeB_eq_cons]
          exact List.mem_cons_of_mem _ hx'
      · rw [if_neg c2] at e2
        have hjA : A.length < j := by omega
        rw [routeKid_eq key hi (Inner.mk id L2 (A ++ l :: r :: B) : Inner K (Node K V d)) (j + 1) _ _ e2
          (by show L2[j + 1]? = _; rw [hins.hi j (by omega)]; exact hsj)
          (by show (A ++ l :: r :: B)[j + 1]? = _; rw [getElem?_kids_gt A B c l r j hjA]; exact hcj)]
        have hhi : hiAt L2 (j + 1) hi = hiAt L1 j hi := by
          unfold hiAt
          rw [hins.hi (j + 1) (by omega)]
        show (x, a, b) ∈ routeB lt key d _ (hiAt L2 (j + 1) hi) _
        rw [hhi]
        exact hx

end Gobptree.Conc
