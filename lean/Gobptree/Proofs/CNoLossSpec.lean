/-
  "Last write wins" on the SPECIFICATION.  The value a run of map operations leaves at a key `k`
  depends only on the LAST operation of the run that writes a key equivalent to `k`:

  * operations that do not write (a key equivalent to) `k` leave `lookup k` alone;
  * after `insert k v` the value is `v`; after `update k f` it is `f` of the value before;
    after `delete k` the key is absent — and it stays absent as long as nothing inserts or
    updates it.
-/
import Gobptree.Proofs.CCounterSpec

namespace Gobptree.Conc
open Gobptree

variable {K V : Type} {lt : K → K → Bool}

/-- the operation writes a key equivalent to `k` (Insert, Update or Delete) -/
def writesKey (lt : K → K → Bool) (k : K) : Op K V → Bool
  | .insert k' _ => eqv lt k' k
  | .update k' _ => eqv lt k' k
  | .delete k' => eqv lt k' k
  | .search _ => false

/-- the operation stores a value at a key equivalent to `k` (Insert or Update) -/
def putsKey (lt : K → K → Bool) (k : K) : Op K V → Bool
  | .insert k' _ => eqv lt k' k
  | .update k' _ => eqv lt k' k
  | _ => false

theorem putsKey_le_writesKey {k : K} {op : Op K V} (h : writesKey lt k op = false) : putsKey lt k op = false := by
  cases op <;> first | exact h | rfl

/-! ### one operation -/

theorem lookup_erase_eqv (h : SWO lt) (m : List (K × V)) {k' k : K} (e : eqv lt k' k = true) :
    Spec.lookup lt (Spec.erase lt m k') k = none := by
  unfold Spec.lookup Spec.erase
  rw [Option.map_eq_none_iff, List.find?_eq_none]
  intro p hp
  have hf := (List.mem_filter.1 hp).2
  rw [eqv_congr_left h e] at hf
  simpa using hf

/-- an operation that does not write `k` leaves the value at `k` alone -/
theorem step_lookup_of_not_writes (h : SWO lt) (m : List (K × V)) (k : K) (op : Op K V)
    (hw : writesKey lt k op = false) : Spec.lookup lt (Spec.step lt m op).1 k = Spec.lookup lt m k := by
  cases op with
  | insert k' v =>
    have hne : eqv lt k k' = false := by rw [eqv_comm]; exact hw
    simp only [Spec.step, lookup_insert h, hne]; rfl
  | update k' f =>
    have hne : eqv lt k k' = false := by rw [eqv_comm]; exact hw
    simp only [Spec.step, Spec.update, lookup_insert h, hne]; rfl
  | delete k' =>
    have hne : eqv lt k k' = false := by rw [eqv_comm]; exact hw
    exact lookup_erase_of_ne h m k' k hne
  | search k' => rfl

theorem step_lookup_insert (h : SWO lt) (m : List (K × V)) {k' k : K} (v : V) (e : eqv lt k' k = true) :
    Spec.lookup lt (Spec.step lt m (.insert k' v)).1 k = some v := by
  have e' : eqv lt k k' = true := by rw [eqv_comm]; exact e
  simp only [Spec.step, lookup_insert h, e']; rfl

theorem step_lookup_update (h : SWO lt) (m : List (K × V)) {k' k : K} (f : Option V → V) (e : eqv lt k' k = true) :
    Spec.lookup lt (Spec.step lt m (.update k' f)).1 k = some (f (Spec.lookup lt m k')) := by
  have e' : eqv lt k k' = true := by rw [eqv_comm]; exact e
  simp only [Spec.step, Spec.update, lookup_insert h, e']; rfl

theorem step_lookup_delete (h : SWO lt) (m : List (K × V)) {k' k : K} (e : eqv lt k' k = true) :
    Spec.lookup lt (Spec.step lt m (.delete k')).1 k = none :=
  lookup_erase_eqv h m e

/-- an operation that stores nothing at `k` keeps `k` absent -/
theorem step_lookup_none_of_not_puts (h : SWO lt) (m : List (K × V)) (k : K) (op : Op K V)
    (hp : putsKey lt k op = false) (hn : Spec.lookup lt m k = none) :
    Spec.lookup lt (Spec.step lt m op).1 k = none := by
  cases hw : writesKey lt k op with
  | false => rw [step_lookup_of_not_writes h m k op hw]; exact hn
  | true =>
    cases op with
    | insert k' v => rw [show putsKey lt k (Op.insert k' v) = writesKey lt k (Op.insert k' v) from rfl, hw] at hp; cases hp
    | update k' f => rw [show putsKey lt k (Op.update k' f) = writesKey lt k (Op.update k' f) from rfl, hw] at hp; cases hp
    | delete k' => exact step_lookup_delete h m hw
    | search k' => cases hw

/-! ### runs -/

theorem run_fst_append (lt : K → K → Bool) (m : List (K × V)) (a b : List (Op K V)) :
    (Spec.run lt m (a ++ b)).1 = (Spec.run lt (Spec.run lt m a).1 b).1 := by
  induction a generalizing m with
  | nil => rfl
  | cons o a ih => simp only [List.cons_append, Spec.run]; exact ih _

theorem run_snd_append (lt : K → K → Bool) (m : List (K × V)) (a b : List (Op K V)) :
    (Spec.run lt m (a ++ b)).2 = (Spec.run lt m a).2 ++ (Spec.run lt (Spec.run lt m a).1 b).2 := by
  induction a generalizing m with
  | nil => rfl
  | cons o a ih => simp only [List.cons_append, Spec.run, List.cons_append]; rw [ih]

theorem run_cons_fst (lt : K → K → Bool) (m : List (K × V)) (op : Op K V) (ops : List (Op K V)) :
    (Spec.run lt m (op :: ops)).1 = (Spec.run lt (Spec.step lt m op).1 ops).1 := rfl

theorem run_cons_snd (lt : K → K → Bool) (m : List (K × V)) (op : Op K V) (ops : List (Op K V)) :
    (Spec.run lt m (op :: ops)).2 = (Spec.step lt m op).2 :: (Spec.run lt (Spec.step lt m op).1 ops).2 := rfl

/-- a run none of whose operations writes `k` leaves the value at `k` alone -/
theorem run_lookup_of_not_writes (h : SWO lt) (k : K) :
    ∀ (ops : List (Op K V)) (m : List (K × V)), (∀ op ∈ ops, writesKey lt k op = false) →
      Spec.lookup lt (Spec.run lt m ops).1 k = Spec.lookup lt m k := by
  intro ops
  induction ops with
  | nil => intro m _; rfl
  | cons op ops ih =>
    intro m hok
    rw [run_cons_fst, ih _ (fun o ho => hok o (List.mem_cons_of_mem _ ho)),
      step_lookup_of_not_writes h m k op (hok op List.mem_cons_self)]

/-- a run none of whose operations stores a value at `k` keeps `k` absent -/
theorem run_lookup_none_of_not_puts (h : SWO lt) (k : K) :
    ∀ (ops : List (Op K V)) (m : List (K × V)), (∀ op ∈ ops, putsKey lt k op = false) →
      Spec.lookup lt m k = none → Spec.lookup lt (Spec.run lt m ops).1 k = none := by
  intro ops
  induction ops with
  | nil => intro m _ hn; exact hn
  | cons op ops ih =>
    intro m hok hn
    rw [run_cons_fst]
    exact ih _ (fun o ho => hok o (List.mem_cons_of_mem _ ho))
      (step_lookup_none_of_not_puts h m k op (hok op List.mem_cons_self) hn)

/-- **last write wins**: if no operation after `op` writes `k`, the value at `k` after the whole
    run is the value right after `op` -/
theorem run_lookup_last_write (h : SWO lt) (k : K) (m : List (K × V)) (pre post : List (Op K V)) (op : Op K V)
    (hpost : ∀ o ∈ post, writesKey lt k o = false) :
    Spec.lookup lt (Spec.run lt m (pre ++ op :: post)).1 k =
      Spec.lookup lt (Spec.step lt (Spec.run lt m pre).1 op).1 k := by
  rw [run_fst_append, run_cons_fst, run_lookup_of_not_writes h k post _ hpost]

/-- the response the run gives to the operation at position `pre.length` -/
theorem run_out_at (lt : K → K → Bool) (m : List (K × V)) (pre post : List (Op K V)) (op : Op K V) :
    (Spec.run lt m (pre ++ op :: post)).2[pre.length]? = some (Spec.step lt (Spec.run lt m pre).1 op).2 := by
  rw [run_snd_append, run_cons_snd]
  have : pre.length = (Spec.run lt m pre).2.length := by
    induction pre generalizing m with
    | nil => rfl
    | cons o pre ih => simp only [Spec.run, List.length_cons]; rw [← ih]
  rw [this, List.getElem?_append_right (Nat.le_refl _)]
  simp

end Gobptree.Conc
