/-
  READ FRAME, part 5: the node-level operations of Delete's rebalancing map nodes with the
  same own fields to nodes with the same own fields, and carry along what is below the children.
-/
import Gobptree.Proofs.CReadFrameKids
namespace Gobptree.Conc
open Gobptree
variable {K V : Type}

theorem NRel.rfl' {d : Nat} (n : Node K V d) : NRel n n := ⟨rfl, rfl⟩

theorem nrel_leaf {n1 n2 : Node K V 0} (h : NRel n1 n2) : n1 = n2 :=
  leaf_eq_of_shallow (l1 := n1) (l2 := n2) h.1 h.2

theorem nrel_inner {d : Nat} {i1 i2 : Inner K (Node K V d)} (h : NRel (d := d + 1) i1 i2) :
    i1.id = i2.id ∧ i1.runts = i2.runts ∧ i1.kids.map (Node.id (d := d)) = i2.kids.map (Node.id (d := d)) :=
  ⟨h.1, (inner_of_shallow h.2).1, (inner_of_shallow h.2).2⟩

theorem nrel_mk {d : Nat} {id1 id2 : Nat} {r1 r2 : List K} {k1 k2 : List (Node K V d)}
    (hid : id1 = id2) (hr : r1 = r2) (hk : k1.map (Node.id (d := d)) = k2.map (Node.id (d := d))) :
    NRel (d := d + 1) (Inner.mk id1 r1 k1 : Inner K (Node K V d)) (Inner.mk id2 r2 k2 : Inner K (Node K V d)) := by
  refine ⟨hid, ?_⟩
  show Shallow.mk (d + 1) r1 [] none (k1.map Node.id) = Shallow.mk (d + 1) r2 [] none (k2.map Node.id)
  rw [hr, hk]

theorem getElem?_map_id {d : Nat} {k1 k2 : List (Node K V d)}
    (hk : k1.map (Node.id (d := d)) = k2.map (Node.id (d := d))) (j : Nat) :
    (k1[j]?).map (Node.id (d := d)) = (k2[j]?).map (Node.id (d := d)) := by
  rw [← List.getElem?_map, ← List.getElem?_map, hk]

theorem adoptFromRight_nrel : ∀ {d : Nat} {c1 r1 c2 r2 c1' r1' c2' r2' : Node K V d}, NRel c1 c2 → NRel r1 r2 →
    Node.adoptFromRight c1 r1 = .ok (c1', r1') → Node.adoptFromRight c2 r2 = .ok (c2', r2') →
    NRel c1' c2' ∧ NRel r1' r2'
  | 0, c1, r1, c2, r2, c1', r1', c2', r2', hc, hr, h1, h2 => by
    have e1 := nrel_leaf hc
    have e2 := nrel_leaf hr
    subst e1 e2
    rw [h1] at h2
    cases h2
    exact ⟨NRel.rfl' _, NRel.rfl' _⟩
  | d + 1, c1, r1, c2, r2, c1', r1', c2', r2', hc, hr, h1, h2 => by
    obtain ⟨hcid, hcr, hck⟩ := nrel_inner (i1 := c1) (i2 := c2) hc
    obtain ⟨hrid, hrr, hrk⟩ := nrel_inner (i1 := r1) (i2 := r2) hr
    simp only [Node.adoptFromRight] at h1 h2
    split at h1
    · rename_i k1 x1 hk1 hx1
      split at h2
      · rename_i k2 x2 hk2 hx2
        cases h1
        cases h2
        have hk : k1 = k2 := by
          rw [hrr] at hk1; rw [hk1] at hk2; exact Option.some.inj hk2
        have hx : Node.id x1 = Node.id x2 := by
          have := getElem?_map_id hrk 0
          rw [hx1, hx2] at this
          exact Option.some.inj this
        constructor
        · apply nrel_mk hcid (by rw [hcr, hk])
          rw [List.map_append, List.map_append, hck]
          simp [hx]
        · apply nrel_mk hrid (by rw [hrr])
          rw [popFrontIdiom_eq, popFrontIdiom_eq, List.map_drop, List.map_drop, hrk]
      · cases h2
    · cases h1

theorem adoptFromLeft_nrel (P : Params K) : ∀ {d : Nat} {l1 c1 l2 c2 l1' c1' l2' c2' : Node K V d}, NRel l1 l2 → NRel c1 c2 →
    Node.adoptFromLeft P l1 c1 = .ok (l1', c1') → Node.adoptFromLeft P l2 c2 = .ok (l2', c2') →
    NRel l1' l2' ∧ NRel c1' c2'
  | 0, l1, c1, l2, c2, l1', c1', l2', c2', hl, hc, h1, h2 => by
    have e1 := nrel_leaf hl
    have e2 := nrel_leaf hc
    subst e1 e2
    rw [h1] at h2
    cases h2
    exact ⟨NRel.rfl' _, NRel.rfl' _⟩
  | d + 1, l1, c1, l2, c2, l1', c1', l2', c2', hl, hc, h1, h2 => by
    obtain ⟨hlid, hlr, hlk⟩ := nrel_inner (i1 := l1) (i2 := l2) hl
    obtain ⟨hcid, hcr, hck⟩ := nrel_inner (i1 := c1) (i2 := c2) hc
    simp only [Node.adoptFromLeft] at h1 h2
    rw [← hcr, ← hlr] at h2
    split at h1
    · cases h1
    · rename_i pad hpad
      rw [hpad] at h2
      simp only [] at h2
      split at h1
      · cases h1
      · rename_i hne
        rw [if_neg hne] at h2
        split at h1
        · rename_i k1 x1 hk1 hx1
          split at h2
          · rename_i k2 x2 hk2 hx2
            cases h1
            cases h2
            have hk : k1 = k2 := by
              rw [hk1] at hk2; exact Option.some.inj hk2
            have hx : Node.id x1 = Node.id x2 := by
              have := getElem?_map_id hlk ((l1 : Inner K (Node K V d)).runts.length - 1)
              rw [hx1, hx2] at this
              exact Option.some.inj this
            constructor
            · apply nrel_mk hlid rfl
              rw [List.map_take, List.map_take, hlk]
            · apply nrel_mk hcid (by rw [hk])
              rw [pushFrontIdiom_eq, pushFrontIdiom_eq, List.map_cons, List.map_cons, hck, hx]
          · cases h2
        · cases h1

theorem absorbRight_nrel : ∀ {d : Nat} {a1 b1 a2 b2 m1 m2 : Node K V d}, NRel a1 a2 → NRel b1 b2 →
    Node.absorbRight a1 b1 = .ok m1 → Node.absorbRight a2 b2 = .ok m2 → NRel m1 m2
  | 0, a1, b1, a2, b2, m1, m2, ha, hb, h1, h2 => by
    have e1 := nrel_leaf ha
    have e2 := nrel_leaf hb
    subst e1 e2
    rw [h1] at h2
    cases h2
    exact NRel.rfl' _
  | d + 1, a1, b1, a2, b2, m1, m2, ha, hb, h1, h2 => by
    obtain ⟨haid, har, hak⟩ := nrel_inner (i1 := a1) (i2 := a2) ha
    obtain ⟨hbid, hbr, hbk⟩ := nrel_inner (i1 := b1) (i2 := b2) hb
    simp only [Node.absorbRight] at h1 h2
    cases h1
    cases h2
    apply nrel_mk haid (by rw [har, hbr])
    rw [List.map_append, List.map_append, hak, hbk]

/-! ### what is below the children is carried along -/

theorem adoptFromRight_tails : ∀ {d : Nat} {c r c' r' : Node K V d},
    Node.adoptFromRight c r = .ok (c', r') → ftail c' ++ ftail r' = ftail c ++ ftail r
  | 0, _, _, _, _, _ => rfl
  | d + 1, c, r, c', r', h => by
    simp only [Node.adoptFromRight] at h
    split at h
    · rename_i k x hk hx
      cases h
      show ((c : Inner K (Node K V d)).kids ++ [x]).flatMap flat ++ (popFrontIdiom (r : Inner K (Node K V d)).kids).flatMap flat =
        (c : Inner K (Node K V d)).kids.flatMap flat ++ (r : Inner K (Node K V d)).kids.flatMap flat
      rw [popFrontIdiom_eq]
      cases hrk : (r : Inner K (Node K V d)).kids with
      | nil => rw [hrk] at hx; simp at hx
      | cons y ys =>
        rw [hrk] at hx
        simp only [List.getElem?_cons_zero, Option.some.injEq] at hx
        subst hx
        simp [List.flatMap_append]
    · cases h

theorem adoptFromLeft_tails (P : Params K) : ∀ {d : Nat} {l c l' c' : Node K V d},
    Node.adoptFromLeft P l c = .ok (l', c') → (0 < d → (shallow l).keys.length = (shallow l).kids.length) →
    ftail l' ++ ftail c' = ftail l ++ ftail c
  | 0, _, _, _, _, _, _ => rfl
  | d + 1, l, c, l', c', h, hpar => by
    have hlen : (l : Inner K (Node K V d)).runts.length = (l : Inner K (Node K V d)).kids.length := by
      have := hpar (Nat.succ_pos d)
      simpa [shallow] using this
    simp only [Node.adoptFromLeft] at h
    split at h
    · cases h
    · split at h
      · cases h
      · split at h
        · rename_i k x hk hx
          cases h
          show ((l : Inner K (Node K V d)).kids.take _).flatMap flat ++ (pushFrontIdiom x (c : Inner K (Node K V d)).kids x).flatMap flat =
            (l : Inner K (Node K V d)).kids.flatMap flat ++ (c : Inner K (Node K V d)).kids.flatMap flat
          rw [pushFrontIdiom_eq, hlen]
          have hlt : (l : Inner K (Node K V d)).kids.length - 1 < (l : Inner K (Node K V d)).kids.length :=
            (List.getElem?_eq_some_iff.1 (hlen ▸ hx)).1
          have hx' : (l : Inner K (Node K V d)).kids[(l : Inner K (Node K V d)).kids.length - 1]? = some x := hlen ▸ hx
          have hsplit : (l : Inner K (Node K V d)).kids =
              (l : Inner K (Node K V d)).kids.take ((l : Inner K (Node K V d)).kids.length - 1) ++ [x] := by
            have h1 := self_form (l : Inner K (Node K V d)).kids _ hlt
            have h2 : (l : Inner K (Node K V d)).kids[(l : Inner K (Node K V d)).kids.length - 1] = x := by
              rw [List.getElem?_eq_getElem hlt] at hx'
              exact Option.some.inj hx'
            rw [h2] at h1
            have h3 : (l : Inner K (Node K V d)).kids.drop ((l : Inner K (Node K V d)).kids.length - 1 + 1) = [] := by
              apply List.drop_eq_nil_of_le; omega
            rw [h3] at h1
            exact h1
          conv => rhs; rw [hsplit]
          simp [List.flatMap_append]
        · cases h

theorem absorbRight_tails : ∀ {d : Nat} {a b m : Node K V d},
    Node.absorbRight a b = .ok m → ftail m = ftail a ++ ftail b
  | 0, _, _, _, _ => rfl
  | d + 1, a, b, m, h => by
    simp only [Node.absorbRight] at h
    cases h
    show ((a : Inner K (Node K V d)).kids ++ (b : Inner K (Node K V d)).kids).flatMap flat = _
    rw [List.flatMap_append]
    rfl

/-! ### `rebalance`, case by case -/

theorem reb_formA (P : Params K) (o : Nat) {d : Nat} (i : Inner K (Node K V d)) (index : Nat)
    (child right : Node K V d) (hin : RebIn o i index child)
    (hR : index + 1 < i.runts.length) (hright : i.kids[index + 1]? = some right)
    (hRc : Node.count right > o / 2) :
    ∃ a b c' r' sm, i.kids = a ++ child :: right :: b ∧ a.length = index ∧
      Node.adoptFromRight child right = .ok (c', r') ∧ Node.smallest r' = .ok sm ∧
      rebalance P {} (o / 2) i index child =
        .ok (Inner.mk i.id (i.runts.set (index + 1) sm) (a ++ c' :: r' :: b), false) := by
  obtain ⟨hlen, hidk, hh2, hoo, hcc⟩ := hin.lens
  have hro := hin.kocc (index + 1) right hright (by omega)
  obtain ⟨a, b, hab, ha⟩ := split_two i.kids index child right hin.hc hright
  have hnd := nodup_window i a b child right hab hin.nodup
  obtain ⟨c', r', sm, hadopt, hsm, hidc, hidr, hcc', hcr', hpc, hpr, hrw⟩ :=
    adoptFromRight_rw child right hin.cocc.par hro.par (by omega) hnd
  have hk' : (i.kids.set index c').set (index + 1) r' = a ++ c' :: r' :: b := by
    rw [hab, ← ha, form_set_pivot, form_set_next]
  refine ⟨a, b, c', r', sm, hab, ha, hadopt, hsm, ?_⟩
  rw [← hk']
  exact reb_borrowR P _ i index child right c' r' sm hR hright hRc hadopt hsm

theorem reb_formCR (P : Params K) (o : Nat) {d : Nat} (i : Inner K (Node K V d)) (index : Nat)
    (child right : Node K V d) (hin : RebIn o i index child)
    (hR : index + 1 < i.runts.length) (hright : i.kids[index + 1]? = some right)
    (hRc : Node.count right ≤ o / 2) (hL : index = 0) :
    ∃ a b m, i.kids = a ++ child :: right :: b ∧ a.length = index ∧
      Node.absorbRight child right = .ok m ∧
      rebalance P {} (o / 2) i index child =
        .ok (Inner.mk i.id (deleteIdiom i.runts (index + 1)) (a ++ m :: b),
          decide ((deleteIdiom i.runts (index + 1)).length < o / 2)) := by
  obtain ⟨hlen, hidk, hh2, hoo, hcc⟩ := hin.lens
  have hro := hin.kocc (index + 1) right hright (by omega)
  obtain ⟨a, b, hab, ha⟩ := split_two i.kids index child right hin.hc hright
  have hnd := nodup_window i a b child right hab hin.nodup
  obtain ⟨m, habs, hidm, hcm, hpm, hrw⟩ :=
    absorbRight_rw child right hin.cocc.par hro.par (hin.chain_window a b child right hab) hnd
  have hrc := hro.2.1
  simp only [count_eqD] at hRc hcm
  have hk' : deleteIdiom (i.kids.set index m) (index + 1) = a ++ m :: b := by
    rw [hab, ← ha, form_set_pivot, form_delete_next]
  refine ⟨a, b, m, hab, ha, habs, ?_⟩
  rw [← hk']
  exact reb_mergeR P _ i index child right m hR hright (by rw [count_eqD]; exact hRc) (by rw [count_eqD]; omega) hL habs
      (by omega)

theorem reb_formL (P : Params K) (hp : PadOk P) (o : Nat) {d : Nat} (i : Inner K (Node K V d)) (j : Nat)
    (child left : Node K V d) (hin : RebIn o i (j + 1) child)
    (hnoR : j + 1 + 1 < i.runts.length → ∃ right, i.kids[j + 1 + 1]? = some right ∧ Node.count right ≤ o / 2)
    (hleft : i.kids[j]? = some left) :
    ∃ a b, i.kids = a ++ left :: child :: b ∧ a.length = j ∧
      ((Node.count left > o / 2 ∧ ∃ l' c' sm, Node.adoptFromLeft P left child = .ok (l', c') ∧ Node.smallest c' = .ok sm ∧
          rebalance P {} (o / 2) i (j + 1) child =
            .ok (Inner.mk i.id (i.runts.set (j + 1) sm) (a ++ l' :: c' :: b), false)) ∨
       (Node.count left ≤ o / 2 ∧ ∃ m, Node.absorbRight left child = .ok m ∧
          rebalance P {} (o / 2) i (j + 1) child =
            .ok (Inner.mk i.id (deleteIdiom i.runts (j + 1)) (a ++ m :: b),
              decide ((deleteIdiom i.runts (j + 1)).length < o / 2)))) := by
  obtain ⟨hlen, hidk, hh2, hoo, hcc⟩ := hin.lens
  have hlo := hin.kocc j left hleft (by omega)
  obtain ⟨a, b, hab, ha⟩ := split_two i.kids j left child hleft hin.hc
  have hnd := nodup_window i a b left child hab hin.nodup
  have hlc1 := hlo.1
  have hlc2 := hlo.2.1
  refine ⟨a, b, hab, ha, ?_⟩
  by_cases hLc : Node.count left > o / 2
  · left
    refine ⟨hLc, ?_⟩
    obtain ⟨l', c', sm, hadopt, hsm, hidl, hidc, hcl', hcc', hpl, hpc, hrw⟩ :=
      adoptFromLeft_rw P hp left child hlo.par hin.cocc.par (by omega) (by rw [count_eqD]; omega) hnd
    have hk' : (i.kids.set (j + 1 - 1) l').set (j + 1) c' = a ++ l' :: c' :: b := by
      rw [Nat.add_sub_cancel, hab, ← ha, form_set_pivot, form_set_next]
    refine ⟨l', c', sm, hadopt, hsm, ?_⟩
    rw [← hk']
    exact reb_borrowL P _ i (j + 1) child left l' c' sm hnoR (by omega) (by simpa using hleft) hLc
        hadopt hsm (by omega)
  · right
    refine ⟨by omega, ?_⟩
    obtain ⟨m, habs, hidm, hcm, hpm, hrw⟩ :=
      absorbRight_rw left child hlo.par hin.cocc.par (hin.chain_window a b left child hab) hnd
    simp only [count_eqD] at hLc hcm
    have hk' : deleteIdiom (i.kids.set (j + 1 - 1) m) (j + 1) = a ++ m :: b := by
      rw [Nat.add_sub_cancel, hab, ← ha, form_set_pivot, form_delete_next]
    refine ⟨m, habs, ?_⟩
    rw [← hk']
    exact reb_mergeL P _ i (j + 1) child left m hnoR (by omega) (by simpa using hleft) (by rw [count_eqD]; omega)
        (by rw [count_eqD]; omega) habs (by omega) (by omega)


section
variable {S : Nat → Prop}

theorem adopt_conclude {d : Nat} {i1 i2 : Inner K (Node K V d)} {a1 b1 a2 b2 : List (Node K V d)}
    {x1 y1 x2 y2 x1' y1' x2' y2' : Node K V d} {j : Nat} (ru : List K)
    (hk : KRel S i1.kids i2.kids)
    (hab1 : i1.kids = a1 ++ x1 :: y1 :: b1) (ha1 : a1.length = j)
    (hab2 : i2.kids = a2 ++ x2 :: y2 :: b2) (ha2 : a2.length = j)
    (hx : NRel x1' x2') (hy : NRel y1' y2')
    (ht1 : ftail x1' ++ ftail y1' = ftail x1 ++ ftail y1) (ht2 : ftail x2' ++ ftail y2' = ftail x2 ++ ftail y2) :
    shallow (d := d + 1) (Inner.mk i1.id ru (a1 ++ x1' :: y1' :: b1) : Inner K (Node K V d)) =
      shallow (d := d + 1) (Inner.mk i2.id ru (a2 ++ x2' :: y2' :: b2) : Inner K (Node K V d)) ∧
    KRel S (a1 ++ x1' :: y1' :: b1) (a2 ++ x2' :: y2' :: b2) ∧
    (tails (a1 ++ x1' :: y1' :: b1)).Perm (tails i1.kids) ∧
    (tails (a2 ++ x2' :: y2' :: b2)).Perm (tails i2.kids) := by
  rw [hab1, hab2] at hk
  obtain ⟨hkA, hkR⟩ := hk.split (by rw [ha1, ha2])
  obtain ⟨_, hkR'⟩ := hkR.cons_inv
  obtain ⟨_, hkB⟩ := hkR'.cons_inv
  have hk' : KRel S (a1 ++ x1' :: y1' :: b1) (a2 ++ x2' :: y2' :: b2) :=
    hkA.append (KRel.cons hx.1 (fun _ => hx.2) (KRel.cons hy.1 (fun _ => hy.2) hkB))
  refine ⟨?_, hk', ?_, ?_⟩
  · show Shallow.mk (d + 1) ru [] none ((a1 ++ x1' :: y1' :: b1).map Node.id) =
      Shallow.mk (d + 1) ru [] none ((a2 ++ x2' :: y2' :: b2).map Node.id)
    rw [hk'.ids]
  · rw [hab1]
    unfold tails
    simp only [List.flatMap_append, List.flatMap_cons]
    rw [← List.append_assoc (ftail x1'), ht1, List.append_assoc]
  · rw [hab2]
    unfold tails
    simp only [List.flatMap_append, List.flatMap_cons]
    rw [← List.append_assoc (ftail x2'), ht2, List.append_assoc]

theorem merge_conclude {d : Nat} {i1 i2 : Inner K (Node K V d)} {a1 b1 a2 b2 : List (Node K V d)}
    {x1 y1 x2 y2 m1 m2 : Node K V d} {j : Nat} (ru : List K)
    (hk : KRel S i1.kids i2.kids)
    (hab1 : i1.kids = a1 ++ x1 :: y1 :: b1) (ha1 : a1.length = j)
    (hab2 : i2.kids = a2 ++ x2 :: y2 :: b2) (ha2 : a2.length = j)
    (hm : NRel m1 m2)
    (ht1 : ftail m1 = ftail x1 ++ ftail y1) (ht2 : ftail m2 = ftail x2 ++ ftail y2) :
    shallow (d := d + 1) (Inner.mk i1.id ru (a1 ++ m1 :: b1) : Inner K (Node K V d)) =
      shallow (d := d + 1) (Inner.mk i2.id ru (a2 ++ m2 :: b2) : Inner K (Node K V d)) ∧
    KRel S (a1 ++ m1 :: b1) (a2 ++ m2 :: b2) ∧
    (tails (a1 ++ m1 :: b1)).Perm (tails i1.kids) ∧
    (tails (a2 ++ m2 :: b2)).Perm (tails i2.kids) := by
  rw [hab1, hab2] at hk
  obtain ⟨hkA, hkR⟩ := hk.split (by rw [ha1, ha2])
  obtain ⟨_, hkR'⟩ := hkR.cons_inv
  obtain ⟨_, hkB⟩ := hkR'.cons_inv
  have hk' : KRel S (a1 ++ m1 :: b1) (a2 ++ m2 :: b2) :=
    hkA.append (KRel.cons hm.1 (fun _ => hm.2) hkB)
  refine ⟨?_, hk', ?_, ?_⟩
  · show Shallow.mk (d + 1) ru [] none ((a1 ++ m1 :: b1).map Node.id) =
      Shallow.mk (d + 1) ru [] none ((a2 ++ m2 :: b2).map Node.id)
    rw [hk'.ids]
  · rw [hab1]
    unfold tails
    simp only [List.flatMap_append, List.flatMap_cons]
    rw [ht1, List.append_assoc]
  · rw [hab2]
    unfold tails
    simp only [List.flatMap_append, List.flatMap_cons]
    rw [ht2, List.append_assoc]

/-- two children at the same position of two related children lists, the identity in `S` -/
theorem KRel.nrel_at {d : Nat} {k1 k2 : List (Node K V d)} (h : KRel S k1 k2) {j : Nat} {c1 c2 : Node K V d}
    (h1 : k1[j]? = some c1) (h2 : k2[j]? = some c2) (hs : S (Node.id c1)) : NRel c1 c2 :=
  ⟨(h.2 j c1 c2 h1 h2).1, (h.2 j c1 c2 h1 h2).2 hs⟩

theorem count_of_shallow {d : Nat} {n1 n2 : Node K V d} (h : shallow n1 = shallow n2) :
    Node.count n1 = Node.count n2 := by
  rw [count_eqD, count_eqD, h]

/-- `rebalance` in the two runs: the same outcome, rewritten nodes with the same own fields -/
def RebRel (S : Nat → Prop) (P : Params K) (o : Nat) {d : Nat} (i1 i2 : Inner K (Node K V d)) (index : Nat)
    (child1 child2 : Node K V d) : Prop :=
  ∃ i1' i2' small, rebalance P {} (o / 2) i1 index child1 = .ok (i1', small) ∧
    rebalance P {} (o / 2) i2 index child2 = .ok (i2', small) ∧
    i1'.id = i1.id ∧ i2'.id = i2.id ∧ shallow (d := d + 1) i1' = shallow (d := d + 1) i2' ∧ KRel S i1'.kids i2'.kids ∧
    (tails i1'.kids).Perm (tails i1.kids) ∧ (tails i2'.kids).Perm (tails i2.kids)

theorem par_of_occ {o m : Nat} {d : Nat} {n : Node K V d} (h : NodeOcc o m (shallow n)) :
    0 < d → (shallow n).keys.length = (shallow n).kids.length := by
  intro hd
  exact (h.2.2.2 (by rw [shallow_height]; exact hd)).1

theorem reb_left_rf (P : Params K) (hp : PadOk P) (o : Nat) {d : Nat} {i1 i2 : Inner K (Node K V d)} {j : Nat}
    {child1 child2 : Node K V d}
    (hin1 : RebIn o i1 (j + 1) child1) (hin2 : RebIn o i2 (j + 1) child2)
    (hsh : shallow (d := d + 1) i1 = shallow (d := d + 1) i2) (hk : KRel S i1.kids i2.kids)
    (hwin : ∀ jj c, i1.kids[jj]? = some c → j + 1 ≤ jj + 1 → jj ≤ j + 1 + 1 → S (Node.id c))
    (hnoR1 : j + 1 + 1 < i1.runts.length → ∃ right, i1.kids[j + 1 + 1]? = some right ∧ Node.count right ≤ o / 2)
    (hnoR2 : j + 1 + 1 < i2.runts.length → ∃ right, i2.kids[j + 1 + 1]? = some right ∧ Node.count right ≤ o / 2) :
    RebRel S P o i1 i2 (j + 1) child1 child2 := by
  have hru : i1.runts = i2.runts := (inner_of_shallow hsh).1
  obtain ⟨_, hidk1, _, _, _⟩ := hin1.lens
  obtain ⟨_, hidk2, _, _, _⟩ := hin2.lens
  obtain ⟨left1, hleft1⟩ : ∃ l, i1.kids[j]? = some l := ⟨i1.kids[j]'(by omega), List.getElem?_eq_getElem _⟩
  obtain ⟨left2, hleft2⟩ : ∃ l, i2.kids[j]? = some l := ⟨i2.kids[j]'(by omega), List.getElem?_eq_getElem _⟩
  have hnl : NRel left1 left2 := hk.nrel_at hleft1 hleft2 (hwin j left1 hleft1 (by omega) (by omega))
  have hnc : NRel child1 child2 := hk.nrel_at hin1.hc hin2.hc (hwin (j + 1) child1 hin1.hc (by omega) (by omega))
  have hcnt : Node.count left1 = Node.count left2 := count_of_shallow hnl.2
  obtain ⟨a1, b1, hab1, ha1, cs1⟩ := reb_formL P hp o i1 j child1 left1 hin1 hnoR1 hleft1
  obtain ⟨a2, b2, hab2, ha2, cs2⟩ := reb_formL P hp o i2 j child2 left2 hin2 hnoR2 hleft2
  rcases cs1 with ⟨hLc1, l1', c1', sm1, had1, hsm1, hev1⟩ | ⟨hLc1, m1, habs1, hev1⟩
  · rcases cs2 with ⟨hLc2, l2', c2', sm2, had2, hsm2, hev2⟩ | ⟨hLc2, m2, habs2, hev2⟩
    · obtain ⟨hl', hc'⟩ := adoptFromLeft_nrel P hnl hnc had1 had2
      have hsm : sm1 = sm2 := by
        have := smallest_of_shallow hc'.2
        rw [hsm1, hsm2] at this
        cases this; rfl
      subst hsm
      rw [← hru] at hev2
      have ht1 := adoptFromLeft_tails P had1 (par_of_occ (hin1.kocc j left1 hleft1 (by omega)))
      have ht2 := adoptFromLeft_tails P had2 (par_of_occ (hin2.kocc j left2 hleft2 (by omega)))
      obtain ⟨e1, e2, e3, e4⟩ := adopt_conclude (S := S) (i1.runts.set (j + 1) sm1) hk hab1 ha1 hab2 ha2 hl' hc' ht1 ht2
      exact ⟨_, _, false, hev1, hev2, rfl, rfl, e1, e2, e3, e4⟩
    · omega
  · rcases cs2 with ⟨hLc2, l2', c2', sm2, had2, hsm2, hev2⟩ | ⟨hLc2, m2, habs2, hev2⟩
    · omega
    · have hm := absorbRight_nrel hnl hnc habs1 habs2
      rw [← hru] at hev2
      obtain ⟨e1, e2, e3, e4⟩ := merge_conclude (S := S) (deleteIdiom i1.runts (j + 1)) hk hab1 ha1 hab2 ha2 hm
        (absorbRight_tails habs1) (absorbRight_tails habs2)
      exact ⟨_, _, _, hev1, hev2, rfl, rfl, e1, e2, e3, e4⟩

theorem rebalance_rf (P : Params K) (hp : PadOk P) (o : Nat) {d : Nat} {i1 i2 : Inner K (Node K V d)} {index : Nat}
    {child1 child2 : Node K V d}
    (hin1 : RebIn o i1 index child1) (hin2 : RebIn o i2 index child2)
    (hsh : shallow (d := d + 1) i1 = shallow (d := d + 1) i2) (hk : KRel S i1.kids i2.kids)
    (hwin : ∀ jj c, i1.kids[jj]? = some c → index ≤ jj + 1 → jj ≤ index + 1 → S (Node.id c)) :
    RebRel S P o i1 i2 index child1 child2 := by
  have hru : i1.runts = i2.runts := (inner_of_shallow hsh).1
  obtain ⟨hlen1, hidk1, _, _, _⟩ := hin1.lens
  obtain ⟨hlen2, hidk2, _, _, _⟩ := hin2.lens
  have hnc : NRel child1 child2 := hk.nrel_at hin1.hc hin2.hc (hwin index child1 hin1.hc (by omega) (by omega))
  by_cases hR : index + 1 < i1.runts.length
  · have hR2 : index + 1 < i2.runts.length := by rw [← hru]; exact hR
    obtain ⟨right1, hright1⟩ : ∃ r, i1.kids[index + 1]? = some r :=
      ⟨i1.kids[index + 1]'(by omega), List.getElem?_eq_getElem _⟩
    obtain ⟨right2, hright2⟩ : ∃ r, i2.kids[index + 1]? = some r :=
      ⟨i2.kids[index + 1]'(by omega), List.getElem?_eq_getElem _⟩
    have hnr : NRel right1 right2 := hk.nrel_at hright1 hright2 (hwin (index + 1) right1 hright1 (by omega) (by omega))
    have hcnt : Node.count right1 = Node.count right2 := count_of_shallow hnr.2
    by_cases hRc : Node.count right1 > o / 2
    · obtain ⟨a1, b1, c1', r1', sm1, hab1, ha1, had1, hsm1, hev1⟩ := reb_formA P o i1 index child1 right1 hin1 hR hright1 hRc
      obtain ⟨a2, b2, c2', r2', sm2, hab2, ha2, had2, hsm2, hev2⟩ :=
        reb_formA P o i2 index child2 right2 hin2 hR2 hright2 (by rw [← hcnt]; exact hRc)
      obtain ⟨hc', hr'⟩ := adoptFromRight_nrel hnc hnr had1 had2
      have hsm : sm1 = sm2 := by
        have := smallest_of_shallow hr'.2
        rw [hsm1, hsm2] at this
        cases this; rfl
      subst hsm
      rw [← hru] at hev2
      obtain ⟨e1, e2, e3, e4⟩ := adopt_conclude (S := S) (i1.runts.set (index + 1) sm1) hk hab1 ha1 hab2 ha2 hc' hr'
        (adoptFromRight_tails had1) (adoptFromRight_tails had2)
      exact ⟨_, _, false, hev1, hev2, rfl, rfl, e1, e2, e3, e4⟩
    · by_cases hL : 0 < index
      · obtain ⟨j, rfl⟩ : ∃ j, index = j + 1 := ⟨index - 1, by omega⟩
        exact reb_left_rf P hp o hin1 hin2 hsh hk hwin (fun _ => ⟨right1, hright1, by omega⟩)
          (fun _ => ⟨right2, hright2, by omega⟩)
      · obtain ⟨a1, b1, m1, hab1, ha1, habs1, hev1⟩ :=
          reb_formCR P o i1 index child1 right1 hin1 hR hright1 (by omega) (by omega)
        obtain ⟨a2, b2, m2, hab2, ha2, habs2, hev2⟩ :=
          reb_formCR P o i2 index child2 right2 hin2 hR2 hright2 (by omega) (by omega)
        have hm := absorbRight_nrel hnc hnr habs1 habs2
        rw [← hru] at hev2
        obtain ⟨e1, e2, e3, e4⟩ := merge_conclude (S := S) (deleteIdiom i1.runts (index + 1)) hk hab1 ha1 hab2 ha2 hm
          (absorbRight_tails habs1) (absorbRight_tails habs2)
        exact ⟨_, _, _, hev1, hev2, rfl, rfl, e1, e2, e3, e4⟩
  · have hR2 : ¬ index + 1 < i2.runts.length := by rw [← hru]; exact hR
    have h2 := hin1.two
    obtain ⟨j, rfl⟩ : ∃ j, index = j + 1 := ⟨index - 1, by omega⟩
    exact reb_left_rf P hp o hin1 hin2 hsh hk hwin (fun h => absurd h hR) (fun h => absurd h hR2)

end

end Gobptree.Conc
