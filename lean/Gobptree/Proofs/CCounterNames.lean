/-
  Counting by names (list lemmas, no dependence on the model): the operations of a family of
  programs that satisfy a predicate, listed as names `(thread, index)` without repetition, and
  the pigeonhole step "a duplicate-free list contained in another is no longer".
-/

namespace Gobptree.Conc

/-- a duplicate-free list all of whose elements occur in another list is no longer -/
theorem length_le_of_nodup_subset {α : Type} [DecidableEq α] :
    ∀ (l1 l2 : List α), l1.Nodup → (∀ x ∈ l1, x ∈ l2) → l1.length ≤ l2.length := by
  intro l1
  induction l1 with
  | nil => intro l2 _ _; exact Nat.zero_le _
  | cons a t ih =>
    intro l2 hnd hsub
    rw [List.nodup_cons] at hnd
    have ha : a ∈ l2 := hsub a List.mem_cons_self
    have hsub' : ∀ x ∈ t, x ∈ l2.erase a := by
      intro x hx
      have hne : x ≠ a := fun e => hnd.1 (e ▸ hx)
      exact (List.mem_erase_of_ne hne).2 (hsub x (List.mem_cons_of_mem _ hx))
    have h1 := ih (l2.erase a) hnd.2 hsub'
    rw [List.length_erase_of_mem ha] at h1
    have h2 : 0 < l2.length := List.length_pos_of_mem ha
    simp only [List.length_cons]
    omega

theorem length_eq_of_nodup_subset {α : Type} [DecidableEq α] (l1 l2 : List α) (h1 : l1.Nodup) (h2 : l2.Nodup)
    (h12 : ∀ x ∈ l1, x ∈ l2) (h21 : ∀ x ∈ l2, x ∈ l1) : l1.length = l2.length :=
  Nat.le_antisymm (length_le_of_nodup_subset l1 l2 h1 h12) (length_le_of_nodup_subset l2 l1 h2 h21)

variable {α : Type}

/-- the positions (counted from `n`) of the elements satisfying `q` -/
def selIdx (q : α → Bool) : List α → Nat → List Nat
  | [], _ => []
  | a :: l, n => if q a then n :: selIdx q l (n + 1) else selIdx q l (n + 1)

theorem mem_selIdx (q : α → Bool) : ∀ (l : List α) (n j : Nat),
    j ∈ selIdx q l n ↔ ∃ i a, j = n + i ∧ l[i]? = some a ∧ q a = true := by
  intro l
  induction l with
  | nil => intro n j; simp [selIdx]
  | cons b l ih =>
    intro n j
    have hstep : (∃ i a, j = n + 1 + i ∧ l[i]? = some a ∧ q a = true) ↔
        ∃ i a, j = n + (i + 1) ∧ (b :: l)[i + 1]? = some a ∧ q a = true := by
      constructor
      · rintro ⟨i, a, h1, h2, h3⟩; exact ⟨i, a, by omega, by simpa using h2, h3⟩
      · rintro ⟨i, a, h1, h2, h3⟩; exact ⟨i, a, by omega, by simpa using h2, h3⟩
    constructor
    · intro h
      unfold selIdx at h
      by_cases hb : q b = true
      · rw [if_pos hb] at h
        rcases List.mem_cons.1 h with h1 | h1
        · exact ⟨0, b, by omega, rfl, hb⟩
        · obtain ⟨i, a, h2, h3, h4⟩ := hstep.1 ((ih _ _).1 h1)
          exact ⟨i + 1, a, h2, h3, h4⟩
      · rw [if_neg hb] at h
        obtain ⟨i, a, h2, h3, h4⟩ := hstep.1 ((ih _ _).1 h)
        exact ⟨i + 1, a, h2, h3, h4⟩
    · rintro ⟨i, a, h1, h2, h3⟩
      unfold selIdx
      cases i with
      | zero =>
        have : b = a := by simpa using h2
        subst this
        rw [if_pos h3]
        exact List.mem_cons.2 (Or.inl (by omega))
      | succ i =>
        have hm : j ∈ selIdx q l (n + 1) := (ih _ _).2 (hstep.2 ⟨i, a, h1, h2, h3⟩)
        by_cases hb : q b = true
        · rw [if_pos hb]; exact List.mem_cons_of_mem _ hm
        · rw [if_neg hb]; exact hm

theorem selIdx_nodup (q : α → Bool) : ∀ (l : List α) (n : Nat), (selIdx q l n).Nodup := by
  intro l
  induction l with
  | nil => intro n; exact List.nodup_nil
  | cons b l ih =>
    intro n
    unfold selIdx
    by_cases hb : q b = true
    · rw [if_pos hb, List.nodup_cons]
      refine ⟨?_, ih _⟩
      intro hm
      obtain ⟨i, a, h1, _, _⟩ := (mem_selIdx q l (n + 1) n).1 hm
      omega
    · rw [if_neg hb]; exact ih _

theorem selIdx_length (q : α → Bool) : ∀ (l : List α) (n : Nat), (selIdx q l n).length = l.countP q := by
  intro l
  induction l with
  | nil => intro n; rfl
  | cons b l ih =>
    intro n
    unfold selIdx
    rw [List.countP_cons]
    by_cases hb : q b = true
    · rw [if_pos hb, if_pos hb, List.length_cons, ih]
    · rw [if_neg hb, if_neg hb, ih]; rfl

/-- the names `(thread, index)` (threads counted from `t`) of the calls satisfying `q` -/
def selNames (q : α → Bool) : List (List α) → Nat → List (Nat × Nat)
  | [], _ => []
  | p :: ps, t => (selIdx q p 0).map (fun i => (t, i)) ++ selNames q ps (t + 1)

theorem mem_selNames (q : α → Bool) : ∀ (ps : List (List α)) (t : Nat) (x : Nat × Nat),
    x ∈ selNames q ps t ↔ ∃ j p a, x.1 = t + j ∧ ps[j]? = some p ∧ p[x.2]? = some a ∧ q a = true := by
  intro ps
  induction ps with
  | nil => intro t x; simp [selNames]
  | cons p0 ps ih =>
    intro t x
    unfold selNames
    rw [List.mem_append]
    constructor
    · rintro (h | h)
      · obtain ⟨i, hi, rfl⟩ := List.mem_map.1 h
        obtain ⟨i', a, h1, h2, h3⟩ := (mem_selIdx q p0 0 i).1 hi
        have : i = i' := by omega
        subst this
        exact ⟨0, p0, a, rfl, rfl, h2, h3⟩
      · obtain ⟨j, p, a, h1, h2, h3, h4⟩ := (ih _ _).1 h
        exact ⟨j + 1, p, a, by omega, by simpa using h2, h3, h4⟩
    · rintro ⟨j, p, a, h1, h2, h3, h4⟩
      cases j with
      | zero =>
        left
        have : p0 = p := by simpa using h2
        subst this
        refine List.mem_map.2 ⟨x.2, (mem_selIdx q p0 0 x.2).2 ⟨x.2, a, by omega, h3, h4⟩, ?_⟩
        obtain ⟨x1, x2⟩ := x
        simp only [Nat.add_zero] at h1
        simp only [h1]
      | succ j =>
        right
        exact (ih _ _).2 ⟨j, p, a, by omega, by simpa using h2, h3, h4⟩

theorem selNames_nodup (q : α → Bool) : ∀ (ps : List (List α)) (t : Nat), (selNames q ps t).Nodup := by
  intro ps
  induction ps with
  | nil => intro t; exact List.nodup_nil
  | cons p0 ps ih =>
    intro t
    unfold selNames
    rw [List.nodup_append]
    refine ⟨?_, ih _, ?_⟩
    · apply List.Pairwise.map _ _ (selIdx_nodup q p0 0)
      intro a b hab e
      exact hab (by simpa using e)
    · intro a ha b hb hab
      obtain ⟨i, _, rfl⟩ := List.mem_map.1 ha
      obtain ⟨j, _, _, h1, _⟩ := (mem_selNames q ps (t + 1) b).1 hb
      rw [← hab] at h1
      simp only at h1
      omega

theorem selNames_length (q : α → Bool) : ∀ (ps : List (List α)) (t : Nat),
    (selNames q ps t).length = ps.flatten.countP q := by
  intro ps
  induction ps with
  | nil => intro t; rfl
  | cons p0 ps ih =>
    intro t
    unfold selNames
    rw [List.length_append, List.length_map, selIdx_length, ih, List.flatten_cons, List.countP_append]

end Gobptree.Conc
