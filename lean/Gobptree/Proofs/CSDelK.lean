/-
  The continuations of a running Delete.
-/
import Gobptree.Proofs.CSBlock

namespace Gobptree.Conc
open Gobptree

variable {K V : Type}

-- `isDelK` is defined in `CSBlock`

end Gobptree.Conc
