/-
  Distinct leaf identities are an invariant of every history.
-/
import Gobptree.Proofs.Ids
import Gobptree.Proofs.IdsDelete
import Gobptree.Run

namespace Gobptree

variable {K V : Type}

/-- leaf identities are pairwise distinct and below the allocation counter -/
def IdsInv (t : Tree K V) : Prop :=
  (leafIds t.root).Nodup ∧ ∀ id ∈ leafIds t.root, id < t.nextId

theorem new_ids (o : Nat) : IdsInv (Tree.new o : Tree K V) := by
  refine ⟨?_, ?_⟩
  · show ([0] : List Nat).Nodup
    simp
  · intro id hid
    have : id ∈ ([0] : List Nat) := hid
    simp at this; subst this; show 0 < 1; decide

theorem step_ids (P : Params K) (t t' : Tree K V) (op : Op K V) (o : Out V)
    (h : t.step P op = .ok (t', o)) (hinv : IdsInv t) : IdsInv t' := by
  cases op with
  | insert k v =>
    simp only [Tree.step, Tree.insert, bind, Except.bind, pure, Except.pure] at h
    split at h
    · simp at h
    · rename_i r hr
      split at hr
      · simp at hr
      · rename_i r2 hr2
        obtain ⟨t2, cb⟩ := r2
        simp only [Except.ok.injEq] at hr h
        obtain ⟨rfl, _⟩ := Prod.mk.inj h
        subst hr
        exact Tree.upsert_ids P t t2 k _ cb hr2 hinv.1 hinv.2
  | update k f =>
    simp only [Tree.step, Tree.update, bind, Except.bind, pure, Except.pure] at h
    split at h
    · simp at h
    · rename_i r hr
      obtain ⟨t2, cb⟩ := r
      simp only [Except.ok.injEq, Prod.mk.injEq] at h
      obtain ⟨rfl, _⟩ := h
      exact Tree.upsert_ids P t t2 k f cb hr hinv.1 hinv.2
  | delete k =>
    simp only [Tree.step, bind, Except.bind, pure, Except.pure] at h
    split at h
    · simp at h
    · rename_i t2 hr
      simp only [Except.ok.injEq, Prod.mk.injEq] at h
      obtain ⟨rfl, _⟩ := h
      obtain ⟨hsub, hnid⟩ := Tree.delete_ids P {} t t2 k hr
      exact ⟨hinv.1.sublist hsub, fun id hid => by rw [hnid]; exact hinv.2 id (hsub.subset hid)⟩
  | search k =>
    simp only [Tree.step, bind, Except.bind, pure, Except.pure] at h
    split at h
    · simp at h
    · simp only [Except.ok.injEq, Prod.mk.injEq] at h
      obtain ⟨rfl, _⟩ := h
      exact hinv

theorem run_ids (P : Params K) (ops : List (Op K V)) :
    ∀ (t t' : Tree K V) (outs : List (Out V)), t.run P ops = .ok (t', outs) → IdsInv t → IdsInv t' := by
  induction ops with
  | nil =>
    intro t t' outs h hinv
    simp only [Tree.run, pure, Except.pure, Except.ok.injEq, Prod.mk.injEq] at h
    obtain ⟨rfl, _⟩ := h
    exact hinv
  | cons op ops ih =>
    intro t t' outs h hinv
    simp only [Tree.run, bind, Except.bind, pure, Except.pure] at h
    split at h
    · simp at h
    · rename_i r1 hr1
      obtain ⟨t1, o1⟩ := r1
      simp only at h
      split at h
      · simp at h
      · rename_i r2 hr2
        obtain ⟨t2, os⟩ := r2
        simp only [Except.ok.injEq, Prod.mk.injEq] at h
        obtain ⟨rfl, _⟩ := h
        exact ih t1 t2 os hr2 (step_ids P t t1 op o1 hr1 hinv)

end Gobptree
